(* QueryInv.v -- C14: the division in cleanNumberConditions never divides by zero.
   Invariant of every number condition the normaliser ever holds: its summands have pairwise different
   (sub-query, type) keys and no zero factor. Under it the common factor is positive at every step. *)
From Coq Require Import List NArith ZArith Bool Lia Permutation.
From Pk Require Import Query QuerySort QueryClean QueryOps.
Import ListNotations.
Open Scope Z_scope.

Definition nkey (s : nsum) : N * N := (ns_sub s, ns_ty s).
Definition num_ok (c : numc) : Prop := NoDup (map nkey (n_sums c)) /\ Forall (fun s => ns_fac s <> 0) (n_sums c).
Definition cond_num_ok (c : cond) : Prop := match c with CNum n => num_ok n | _ => True end.
Definition conj_num_ok (c : conj) : Prop := Forall cond_num_ok c.
Definition cset_num_ok (cs : cset) : Prop := Forall conj_num_ok cs.

(* ---- QueryConditions *)
Lemma ns_add_keys sub ty f l :
  (In (sub, ty) (map nkey l) /\ map nkey (ns_add sub ty f l) = map nkey l) \/
  (~ In (sub, ty) (map nkey l) /\ map nkey (ns_add sub ty f l) = map nkey l ++ [(sub, ty)]).
Proof.
  induction l as [|s l IH]; cbn [ns_add map].
  - right. split; [intros []|reflexivity].
  - destruct (N.eqb_spec (ns_sub s) sub) as [E1|E1]; cbn [andb].
    + destruct (N.eqb_spec (ns_ty s) ty) as [E2|E2].
      * left. split; [left; unfold nkey; rewrite E1, E2; reflexivity|]. cbn [map]. f_equal. unfold nkey. cbn. rewrite E1, E2. reflexivity.
      * destruct IH as [[Hin E]|[Hn E]].
        -- left. split; [right; exact Hin|]. cbn [map]. rewrite E. reflexivity.
        -- right. split; [|cbn [map app]; rewrite E; reflexivity]. intros [H|H]; [|contradiction].
           unfold nkey in H. inversion H. congruence.
    + destruct IH as [[Hin E]|[Hn E]].
      * left. split; [right; exact Hin|]. cbn [map]. rewrite E. reflexivity.
      * right. split; [|cbn [map app]; rewrite E; reflexivity]. intros [H|H]; [|contradiction].
        unfold nkey in H. inversion H. congruence.
Qed.

Lemma NoDup_app_snoc {A} (l : list A) x : NoDup l -> ~ In x l -> NoDup (l ++ [x]).
Proof.
  induction 1 as [|y l Hy Hl IH]; intros Hx; cbn; [constructor; [intros []|constructor]|].
  constructor.
  - intros Hin. apply in_app_or in Hin as [Hin|[<-|[]]]; [contradiction|]. apply Hx. left. reflexivity.
  - apply IH. intros Hin. apply Hx. right. exact Hin.
Qed.

Lemma ns_add_nodup sub ty f l : NoDup (map nkey l) -> NoDup (map nkey (ns_add sub ty f l)).
Proof.
  intros H. destruct (ns_add_keys sub ty f l) as [[_ E]|[Hn E]]; rewrite E; [exact H|].
  apply NoDup_app_snoc; auto.
Qed.

Lemma nbound_nodup ps : forall acc, NoDup (map nkey (n_sums acc)) -> NoDup (map nkey (n_sums (nbound ps acc))).
Proof.
  induction ps as [|p ps IH]; intros acc H; cbn [nbound]; [exact H|].
  destruct p as [neg n|neg sub ty]; apply IH; cbn [n_sums]; [exact H|apply ns_add_nodup; exact H].
Qed.

Lemma nodup_map_filter {A B} (k : A -> B) (p : A -> bool) l : NoDup (map k l) -> NoDup (map k (filter p l)).
Proof.
  induction l as [|x l IH]; cbn; [auto|]. intros H. inversion H as [|? ? Hn Hd]; subst.
  destruct (p x); cbn; [constructor; [|auto]|auto].
  intros Hin. apply Hn. apply in_map_iff in Hin as (y & Ey & Hy). apply filter_In in Hy as [Hy _].
  apply in_map_iff. exists y. auto.
Qed.

Lemma nown_ok sub ty c : NoDup (map nkey (n_sums c)) -> num_ok (nown sub ty c).
Proof.
  intros H. unfold nown, num_ok. cbn [n_sums]. split.
  - apply nodup_map_filter. apply ns_add_nodup. exact H.
  - apply Forall_forall. intros s Hs. apply filter_In in Hs as [_ Hs]. apply negb_true_iff in Hs. apply Z.eqb_neq in Hs. exact Hs.
Qed.
Lemma map_key_neg l : map nkey (map (fun s => mkNs (ns_sub s) (ns_ty s) (- ns_fac s)) l) = map nkey l.
Proof. rewrite map_map. apply map_ext. intros s. reflexivity. Qed.
Lemma neg_ok c : num_ok c -> num_ok (mkNum (map (fun s => mkNs (ns_sub s) (ns_ty s) (- ns_fac s)) (n_sums c)) (- n_num c)).
Proof.
  intros [H1 H2]. split; cbn [n_sums]; [rewrite map_key_neg; exact H1|].
  apply Forall_map. eapply Forall_impl; [|exact H2]. intros s Hs. cbn in *. lia.
Qed.
Lemma neg1_ok c : num_ok c -> num_ok (mkNum (map (fun s => mkNs (ns_sub s) (ns_ty s) (- ns_fac s)) (n_sums c)) (- n_num c - 1)).
Proof. intros H. destruct (neg_ok c H) as [A B]. split; assumption. Qed.

Lemma num_range_conj_ok sub ty r : conj_num_ok (num_range_conj sub ty r).
Proof.
  unfold num_range_conj.
  assert (H : forall b, num_ok (nown sub ty (nbound b (mkNum [] 0)))) by (intros b; apply nown_ok, nbound_nodup; constructor).
  destruct r as [b|lo hi]; apply Forall_app; split.
  - destruct (is_nil b); constructor; [|constructor]. apply (neg_ok _ (H b)).
  - destruct (is_nil b); constructor; [|constructor]. apply H.
  - destruct (is_nil lo); constructor; [|constructor]. apply (neg_ok _ (H lo)).
  - destruct (is_nil hi); constructor; [|constructor]. apply H.
Qed.

Lemma Forall_true {A} (P : A -> Prop) l : (forall x, P x) -> Forall P l.
Proof. intros H. apply Forall_forall. intros; apply H. Qed.

Lemma conds_of_atom_ok a : cset_num_ok (conds_of_atom a).
Proof.
  destruct a as [sub names|sub items|cli srv sub items|tys sub ranges|key sub ranges|sub els]; cbn [conds_of_atom]; unfold cset_num_ok.
  - apply Forall_map. apply Forall_true. intros. repeat constructor.
  - apply Forall_map. apply Forall_true. intros it. destruct it as [x|s]; [|destruct (N.eqb s sub); [constructor|]];
      unfold flag_invert; apply Forall_map; apply Forall_true; intros; exact I.
  - apply Forall_app; split; [destruct cli|destruct srv]; try constructor;
      apply Forall_map; apply Forall_true; intros it; destruct it; repeat constructor.
  - apply Forall_forall. intros c Hc. apply in_flat_map in Hc as (r & _ & Hc). apply in_map_iff in Hc as (ty & <- & _).
    apply num_range_conj_ok.
  - apply Forall_map. apply Forall_true. intros r. unfold time_range_conj.
    destruct r as [b|lo hi]; [destruct (is_nil b)|destruct (is_nil lo), (is_nil hi)];
      destruct (N.eqb key 0), (N.eqb key 1); repeat constructor.
  - apply Forall_map. apply Forall_true. intros. repeat constructor.
Qed.

(* ---- invert *)
Lemma cond_invert_ok c : cond_num_ok c -> cset_num_ok (cond_invert c).
Proof.
  intros H. destruct c as [t|f|h|n|tm|d|]; cbn [cond_invert]; unfold cset_num_ok; try (repeat constructor; fail).
  - constructor; [|constructor]. unfold flag_invert. apply Forall_map. apply Forall_true. intros; exact I.
  - constructor; [|constructor]. constructor; [|constructor]. apply neg1_ok. exact H.
  - unfold data_invert. apply Forall_map. apply Forall_true. intros. repeat constructor.
Qed.

(* ---- clean: the merge loop does nothing, the common factor is positive *)
Lemma nsum_merge_id a r :
  NoDup (map nkey (a :: r)) -> Forall (fun s => ns_fac s <> 0) (a :: r) -> nsum_merge a r = a :: r.
Proof.
  revert a; induction r as [|b r IH]; intros a Hd Hz; [reflexivity|]. cbn [nsum_merge].
  inversion Hd as [|? ? Hn Hd']; subst. inversion Hz as [|? ? Ha Hz']; subst.
  assert (nsum_same a b = false) as ->.
  { unfold nsum_same. destruct (N.eqb_spec (ns_sub a) (ns_sub b)) as [E1|]; [|reflexivity].
    destruct (N.eqb_spec (ns_ty a) (ns_ty b)) as [E2|]; [|reflexivity].
    exfalso. apply Hn. left. unfold nkey. rewrite E1, E2. reflexivity. }
  destruct (Z.eqb_spec (ns_fac a) 0); [contradiction|]. f_equal. apply IH; auto.
Qed.

Lemma cf_step_pos cf fac : 0 < cf -> fac <> 0 -> 0 < cf_step cf fac.
Proof.
  intros Hc Hf. unfold cf_step. destruct (Z.eqb cf 1); [lia|].
  destruct (Z.eqb (Z.abs fac mod cf) 0); [lia|]. destruct (Z.eqb (cf mod Z.abs fac) 0); [lia|].
  destruct (cf_down_spec cf (Z.abs fac)) as [->|(H & _)]; lia.
Qed.
Lemma cf_fold_pos facs : forall cf, 0 < cf -> Forall (fun f => f <> 0) facs -> 0 < fold_left cf_step facs cf.
Proof.
  induction facs as [|f facs IH]; intros cf Hc Hf; cbn [fold_left]; [exact Hc|].
  inversion Hf; subst. apply IH; auto. apply cf_step_pos; auto.
Qed.

(* the statement about the code: on every reachable condition, after sorting and merging, every `%` and `/` of
   cleanNumberConditions has a positive right operand *)
Theorem common_factor_positive c :
  num_ok c ->
  match isort nsum_key (n_sums c) with
  | [] => True
  | a :: r =>
      nsum_merge a r = a :: r /\
      0 < fold_left cf_step (map ns_fac r) (Z.abs (ns_fac a)) /\
      Forall (fun s => 0 < Z.abs (ns_fac s)) (a :: r)
  end.
Proof.
  intros [Hd Hz]. pose proof (isort_perm nsum_key (n_sums c)) as Hp.
  destruct (isort nsum_key (n_sums c)) as [|a r] eqn:E; [exact I|].
  assert (Hd' : NoDup (map nkey (a :: r))) by (eapply Permutation_NoDup; [apply Permutation_map, Permutation_sym, Hp|exact Hd]).
  assert (Hz' : Forall (fun s => ns_fac s <> 0) (a :: r)).
  { rewrite Forall_forall in *. intros s Hs. apply Hz. eapply Permutation_in; eauto. }
  split; [apply nsum_merge_id; auto|]. inversion Hz' as [|? ? Ha Hr]; subst. split.
  - apply cf_fold_pos; [lia|]. apply Forall_map. exact Hr.
  - eapply Forall_impl; [|exact Hz']. intros s Hs. cbn in Hs. lia.
Qed.

Lemma quot_nonzero x k : 0 < k -> (k | x) -> x <> 0 -> Z.quot x k <> 0.
Proof. intros Hk [q ->] Hx. rewrite Z.quot_mul by lia. intros ->. lia. Qed.

Lemma num_norm1_ok c : num_ok c -> num_ok (num_norm1 c).
Proof.
  intros Hok. pose proof (common_factor_positive c Hok) as Hc. destruct Hok as [Hd Hz].
  unfold num_norm1. pose proof (isort_perm nsum_key (n_sums c)) as Hp.
  destruct (isort nsum_key (n_sums c)) as [|a r] eqn:E; [split; constructor|].
  destruct Hc as (Hm & Hpos & _). rewrite Hm.
  assert (Hd' : NoDup (map nkey (a :: r))) by (eapply Permutation_NoDup; [apply Permutation_map, Permutation_sym, Hp|exact Hd]).
  assert (Hz' : Forall (fun s => ns_fac s <> 0) (a :: r)).
  { rewrite Forall_forall in *. intros s Hs. apply Hz. eapply Permutation_in; eauto. }
  set (cf := fold_left cf_step (map ns_fac r) (Z.abs (ns_fac a))) in *.
  destruct (Z.eqb cf 1 || Z.eqb cf 0); [split; assumption|].
  set (cf' := if Z.eqb (Z.abs (n_num c) mod cf) 0 then cf else cf_down cf (Z.abs (n_num c))).
  assert (Hcf' : 0 < cf' /\ (cf' | cf)).
  { unfold cf'. destruct (Z.eqb _ 0); [split; [lia|apply Z.divide_refl]|].
    destruct (cf_down_spec cf (Z.abs (n_num c))) as [->|(H1 & H2 & _)]; split; try lia; [apply Z.divide_1_l|exact H2]. }
  destruct Hcf' as [Hp' Hdiv].
  destruct (cf_fold_div (map ns_fac r) [ns_fac a] (Z.abs (ns_fac a))) as (_ & Hall).
  { apply Z.abs_nonneg. } { constructor; [|constructor]. apply Z.divide_abs_l, Z.divide_refl. }
  fold cf in Hall.
  assert (Hall' : Forall (fun s => (cf' | ns_fac s)) (a :: r)).
  { change (a :: r) with ([a] ++ r). apply Forall_app in Hall as [H1 H2]. apply Forall_app; split.
    - inversion H1; subst. constructor; [|constructor]. eapply Z.divide_trans; eauto.
    - rewrite Forall_map in H2. eapply Forall_impl; [|exact H2]. intros s Hs. cbn in Hs. eapply Z.divide_trans; eauto. }
  split; cbn [n_sums].
  - rewrite map_map. erewrite map_ext; [exact Hd'|]. intros s. reflexivity.
  - apply Forall_map. rewrite Forall_forall in *. intros s Hs. cbn. apply quot_nonzero; auto.
Qed.

Lemma num_norm_ok l : Forall num_ok l -> forall out, num_norm l = Some out -> Forall num_ok out.
Proof.
  induction 1 as [|c r Hc Hr IH]; intros out H; cbn [num_norm] in H; [inversion H; constructor|].
  destruct (n_sums (num_norm1 c)) eqn:Es.
  - destruct (_ <? 0); [discriminate|auto].
  - destruct (num_norm r) as [o|]; [|discriminate]. inversion H; subst. constructor; [apply num_norm1_ok; auto|auto].
Qed.
Lemma num_dedupe_in a rest x : In x (num_dedupe a rest) -> In x (a :: rest).
Proof.
  revert a; induction rest as [|b r IH]; intros a H; cbn [num_dedupe] in H; [exact H|].
  destruct (num_same a b).
  - apply IH in H. destruct H as [<-|H]; [left; reflexivity|right; right; exact H].
  - destruct H as [<-|H]; [left; reflexivity|]. right. apply IH. exact H.
Qed.
Lemma num_sign_in l : forall out x, num_sign l = Some out -> In x out -> In x l.
Proof.
  induction l as [|c r IH]; intros out x H Hx; cbn [num_sign] in H; [inversion H; subst; exact Hx|].
  destruct (all_pos c); [right; eauto|]. destruct (all_neg c); [discriminate|].
  destruct (num_sign r) as [o|]; [|discriminate]. inversion H; subst. destruct Hx as [<-|Hx]; [left; reflexivity|right; eauto].
Qed.
Lemma clean_num_ok l out : Forall num_ok l -> clean_num l = Some out -> Forall num_ok out.
Proof.
  intros Hl. unfold clean_num. destruct (num_norm l) as [l1|] eqn:En; [|discriminate].
  pose proof (num_norm_ok l Hl l1 En) as H1. pose proof (isort_Forall num_key _ _ H1) as H2.
  destruct (isort num_key l1) as [|a r]; [intros H; inversion H; constructor|]. intros H.
  rewrite Forall_forall in *. intros x Hx. apply H2. apply num_dedupe_in. eapply num_sign_in; eauto.
Qed.

Lemma sel_num_ok c : conj_num_ok c -> Forall num_ok (sel_num c).
Proof. induction 1 as [|x c Hx Hc IH]; cbn; [constructor|]. destruct x; cbn; auto. Qed.

Lemma conj_clean_ok c : conj_num_ok c -> conj_num_ok (conj_clean c).
Proof.
  intros H. unfold conj_clean. destruct (has_imp c); [repeat constructor|].
  destruct (clean_tag _); [|repeat constructor]. destruct (clean_flag _); [|repeat constructor].
  destruct (clean_host _); [|repeat constructor]. destruct (clean_num (sel_num c)) as [n|] eqn:En; [|repeat constructor].
  destruct (clean_time _); [|repeat constructor]. destruct (clean_data _); [|repeat constructor].
  unfold conj_num_ok. repeat (apply Forall_app; split); apply Forall_map; try (apply Forall_true; intros; exact I).
  apply (clean_num_ok (sel_num c) n (sel_num_ok c H) En).
Qed.

(* ---- sets *)
Lemma cs_and_ok a b : cset_num_ok a -> cset_num_ok b -> cset_num_ok (cs_and a b).
Proof.
  intros Ha Hb. unfold cs_and. destruct a as [|a0 a']; [exact Hb|]. destruct b as [|b0 b']; [exact Ha|].
  unfold cset_num_ok in *. rewrite Forall_forall in *. intros c Hc.
  apply in_flat_map in Hc as (c1 & H1 & Hc). apply in_map_iff in Hc as (c2 & <- & H2).
  apply conj_clean_ok. apply Forall_app; split; [apply (Ha c1 H1)|apply (Hb c2 H2)].
Qed.
Lemma conj_invert_ok c : conj_num_ok c -> cset_num_ok (conj_invert c).
Proof.
  intros H. destruct c as [|x c]; [repeat constructor|]. unfold conj_invert. unfold cset_num_ok. apply Forall_forall.
  intros cc Hc. apply in_flat_map in Hc as (y & Hy & Hc). unfold conj_num_ok in H. rewrite Forall_forall in H.
  pose proof (cond_invert_ok y (H y Hy)) as Hi. unfold cset_num_ok in Hi. rewrite Forall_forall in Hi. auto.
Qed.
Lemma cs_invert_ok cs : cset_num_ok cs -> cset_num_ok (cs_invert cs).
Proof.
  intros H. unfold cs_invert. assert (Hacc : cset_num_ok []) by constructor. revert Hacc. generalize (@nil conj).
  induction H as [|c cs Hc Hcs IH]; intros acc Hacc; cbn [fold_left]; [exact Hacc|].
  apply IH. apply cs_and_ok; [exact Hacc|apply conj_invert_ok; exact Hc].
Qed.
Lemma conj_then_ok a b : conj_num_ok a -> conj_num_ok b -> conj_num_ok (conj_then a b).
Proof.
  intros Ha Hb. unfold conj_then.
  assert (Hnd : conj_num_ok (filter (fun x => negb (is_data x)) a ++ filter (fun x => negb (is_data x)) b)).
  { apply Forall_app; split; unfold conj_num_ok in *; rewrite Forall_forall in *; intros x Hx; apply filter_In in Hx as [Hx _]; auto. }
  assert (Hdata : forall l, conj_num_ok (map CData l)) by (intros l; apply Forall_map, Forall_true; intros; exact I).
  destruct (sel_data a) as [|a0 al] eqn:Ea; [apply Forall_app; split; [exact Hnd|apply Forall_app; split; apply Hdata]|].
  destruct (sel_data b) as [|b0 bl] eqn:Eb; [apply Forall_app; split; [exact Hnd|apply Forall_app; split; apply Hdata]|].
  apply Forall_app; split; [exact Hnd|]. apply Forall_forall. intros x Hx. apply in_flat_map in Hx as (ad & _ & Hx).
  destruct (d_inv ad).
  - destruct Hx as [<-|Hx]; [exact I|]. destruct (existsb _ _); [contradiction|]. apply in_map_iff in Hx as (bd & <- & _). exact I.
  - apply in_map_iff in Hx as (bd & <- & _). exact I.
Qed.
Lemma cs_then_ok a b : cset_num_ok a -> cset_num_ok b -> cset_num_ok (cs_then a b).
Proof.
  intros Ha Hb. unfold cs_then. destruct a as [|a0 a']; [exact Hb|]. destruct b as [|b0 b']; [exact Ha|].
  unfold cset_num_ok in *. rewrite Forall_forall in *. intros c Hc.
  apply in_flat_map in Hc as (c1 & H1 & Hc). apply in_map_iff in Hc as (c2 & <- & H2).
  apply conj_then_ok; [apply (Ha c1 H1)|apply (Hb c2 H2)].
Qed.

(* every set the normaliser builds, for EVERY expression (THEN included) *)
Theorem norm_num_ok e : forall cs, norm e = Some cs -> cset_num_ok cs.
Proof.
  induction e as [a| |a IH|a IHa b IHb|a IHa b IHb|a IHa b IHb]; intros cs H; cbn [norm] in H.
  - inversion H; subst. apply conds_of_atom_ok.
  - discriminate.
  - destruct (norm a) as [x|]; [|discriminate]. inversion H; subst. apply cs_invert_ok. apply IH. reflexivity.
  - destruct (norm a) as [x|], (norm b) as [y|]; inversion H; subst.
    + apply cs_and_ok; [apply IHa|apply IHb]; reflexivity.
    + apply IHa; reflexivity.
    + apply IHb; reflexivity.
  - destruct (norm a) as [x|], (norm b) as [y|]; inversion H; subst.
    + apply Forall_app; split; [apply IHa|apply IHb]; reflexivity.
    + apply IHa; reflexivity.
    + apply IHb; reflexivity.
  - destruct (norm a) as [x|], (norm b) as [y|]; inversion H; subst.
    + apply cs_then_ok; [apply IHa|apply IHb]; reflexivity.
    + apply IHa; reflexivity.
    + apply IHb; reflexivity.
Qed.

(* ---- cleanFlagConditions: the sub-queries of a flag condition produced by a filter are pairwise different
   (so `i -= 2` in its duplicate loop is never reached with a non-empty rest) *)
Definition flag_subs_ok (c : cond) : Prop := match c with CFlag f => NoDup (f_subs f) | _ => True end.
Lemma flag_invert_subs c : NoDup (f_subs c) -> Forall flag_subs_ok (flag_invert c).
Proof. intros H. unfold flag_invert. apply Forall_map. apply Forall_true. intros u. exact H. Qed.
Lemma conds_of_atom_flag_subs a : Forall (Forall flag_subs_ok) (conds_of_atom a).
Proof.
  destruct a as [sub names|sub items|cli srv sub items|tys sub ranges|key sub ranges|sub els]; cbn [conds_of_atom].
  - apply Forall_map. apply Forall_true. intros. repeat constructor.
  - apply Forall_map. apply Forall_true. intros it. destruct it as [x|s].
    + apply flag_invert_subs. cbn. repeat constructor. intros [].
    + destruct (N.eqb_spec s sub) as [E|E]; [constructor|]. apply flag_invert_subs. cbn.
      constructor; [intros [H|[]]; congruence|repeat constructor; intros []].
  - apply Forall_app; split; [destruct cli|destruct srv]; try constructor;
      apply Forall_map; apply Forall_true; intros it; destruct it; repeat constructor.
  - apply Forall_forall. intros c Hc. apply in_flat_map in Hc as (r & _ & Hc). apply in_map_iff in Hc as (ty & <- & _).
    unfold num_range_conj. destruct r as [b|lo hi]; [destruct (is_nil b)|destruct (is_nil lo), (is_nil hi)]; repeat constructor.
  - apply Forall_map. apply Forall_true. intros r. unfold time_range_conj.
    destruct r as [b|lo hi]; [destruct (is_nil b)|destruct (is_nil lo), (is_nil hi)];
      destruct (N.eqb key 0), (N.eqb key 1); repeat constructor.
  - apply Forall_map. apply Forall_true. intros. repeat constructor.
Qed.

(* ------------------------------------------------------------------ a condition-wise invariant of everything norm builds *)
Section Invariant.
  Variable P : cond -> Prop.
  Hypothesis P_data : forall d, P (CData d).
  Hypothesis P_imp : P CImp.
  Hypothesis P_atom : forall a, Forall (Forall P) (conds_of_atom a).
  Hypothesis P_invert : forall c, P c -> Forall (Forall P) (cond_invert c).
  Hypothesis P_clean : forall c, Forall P c -> Forall P (conj_clean c).

  Lemma inv_cs_and a b : Forall (Forall P) a -> Forall (Forall P) b -> Forall (Forall P) (cs_and a b).
  Proof.
    intros Ha Hb. unfold cs_and. destruct a as [|a0 a']; [exact Hb|]. destruct b as [|b0 b']; [exact Ha|].
    rewrite Forall_forall in *. intros c Hc.
    apply in_flat_map in Hc as (c1 & H1 & Hc). apply in_map_iff in Hc as (c2 & <- & H2).
    apply P_clean. apply Forall_app; split; [apply (Ha c1 H1)|apply (Hb c2 H2)].
  Qed.
  Lemma inv_conj_invert c : Forall P c -> Forall (Forall P) (conj_invert c).
  Proof.
    intros H. destruct c as [|x c]; [repeat constructor; exact P_imp|]. unfold conj_invert. apply Forall_forall.
    intros cc Hc. apply in_flat_map in Hc as (y & Hy & Hc). rewrite Forall_forall in H.
    pose proof (P_invert y (H y Hy)) as Hi. rewrite Forall_forall in Hi. auto.
  Qed.
  Lemma inv_cs_invert cs : Forall (Forall P) cs -> Forall (Forall P) (cs_invert cs).
  Proof.
    intros H. unfold cs_invert.
    assert (G : forall acc : cset, Forall (Forall P) acc ->
                Forall (Forall P) (fold_left (fun acc cc => cs_and acc (conj_invert cc)) cs acc)).
    { induction H as [|c cs Hc Hcs IH]; intros acc Hacc; cbn [fold_left]; [exact Hacc|].
      apply IH. apply inv_cs_and; [exact Hacc|apply inv_conj_invert; exact Hc]. }
    apply G. constructor.
  Qed.
  Lemma inv_conj_then a b : Forall P a -> Forall P b -> Forall P (conj_then a b).
  Proof.
    intros Ha Hb. unfold conj_then.
    assert (Hnd : Forall P (filter (fun x => negb (is_data x)) a ++ filter (fun x => negb (is_data x)) b)).
    { apply Forall_app; split; rewrite Forall_forall in *; intros x Hx; apply filter_In in Hx as [Hx _]; auto. }
    assert (Hdata : forall l, Forall P (map CData l)) by (intros l; apply Forall_map, Forall_true; intros; apply P_data).
    destruct (sel_data a) as [|a0 al] eqn:Ea; [apply Forall_app; split; [exact Hnd|apply Forall_app; split; apply Hdata]|].
    destruct (sel_data b) as [|b0 bl] eqn:Eb; [apply Forall_app; split; [exact Hnd|apply Forall_app; split; apply Hdata]|].
    apply Forall_app; split; [exact Hnd|]. apply Forall_forall. intros x Hx. apply in_flat_map in Hx as (ad & _ & Hx).
    destruct (d_inv ad).
    - destruct Hx as [<-|Hx]; [apply P_data|]. destruct (existsb _ _); [contradiction|]. apply in_map_iff in Hx as (bd & <- & _). apply P_data.
    - apply in_map_iff in Hx as (bd & <- & _). apply P_data.
  Qed.
  Lemma inv_cs_then a b : Forall (Forall P) a -> Forall (Forall P) b -> Forall (Forall P) (cs_then a b).
  Proof.
    intros Ha Hb. unfold cs_then. destruct a as [|a0 a']; [exact Hb|]. destruct b as [|b0 b']; [exact Ha|].
    rewrite Forall_forall in *. intros c Hc.
    apply in_flat_map in Hc as (c1 & H1 & Hc). apply in_map_iff in Hc as (c2 & <- & H2).
    apply inv_conj_then; [apply (Ha c1 H1)|apply (Hb c2 H2)].
  Qed.
  Theorem inv_norm e : forall cs, norm e = Some cs -> Forall (Forall P) cs.
  Proof.
    induction e as [a| |a IH|a IHa b IHb|a IHa b IHb|a IHa b IHb]; intros cs H; cbn [norm] in H.
    - inversion H; subst. apply P_atom.
    - discriminate.
    - destruct (norm a) as [x|]; [|discriminate]. inversion H; subst. apply inv_cs_invert. apply IH. reflexivity.
    - destruct (norm a) as [x|], (norm b) as [y|]; inversion H; subst.
      + apply inv_cs_and; [apply IHa|apply IHb]; reflexivity.
      + apply IHa; reflexivity.
      + apply IHb; reflexivity.
    - destruct (norm a) as [x|], (norm b) as [y|]; inversion H; subst.
      + apply Forall_app; split; [apply IHa|apply IHb]; reflexivity.
      + apply IHa; reflexivity.
      + apply IHb; reflexivity.
    - destruct (norm a) as [x|], (norm b) as [y|]; inversion H; subst.
      + apply inv_cs_then; [apply IHa|apply IHb]; reflexivity.
      + apply IHa; reflexivity.
      + apply IHb; reflexivity.
  Qed.
End Invariant.

(* ---- flag conditions never name a sub-query twice *)
Lemma subs_cancel_nodup l : NoDup l -> subs_cancel l = l.
Proof.
  induction l as [|a [|b r] IH]; intros H; try reflexivity.
  change (subs_cancel (a :: b :: r)) with (if N.eqb a b then subs_cancel r else a :: subs_cancel (b :: r)).
  inversion H as [|? ? Hn Hd]; subst. destruct (N.eqb_spec a b) as [->|Hne]; [exfalso; apply Hn; left; reflexivity|].
  f_equal. apply IH. exact Hd.
Qed.
Lemma nsort_nodup l : NoDup l -> NoDup (nsort l).
Proof. intros H. eapply Permutation_NoDup; [apply Permutation_sym, isort_perm|exact H]. Qed.

(* the duplicate loop of cleanFlagConditions removes nothing (its `i -= 2` is never executed) *)
Theorem flag_subs_loop_idle l : NoDup l -> subs_cancel (nsort l) = nsort l.
Proof. intros H. apply subs_cancel_nodup. apply nsort_nodup. exact H. Qed.

Lemma info_ins_subs subs f m :
  NoDup subs -> Forall (fun d => NoDup (fi_subs d)) m -> Forall (fun d => NoDup (fi_subs d)) (info_ins subs f m).
Proof.
  intros Hs. induction 1 as [|d r Hd Hr IH]; cbn [info_ins]; [repeat constructor; exact Hs|].
  destruct (list_eqb N.eqb subs (fi_subs d)); constructor; auto.
Qed.
Lemma flag_collect_subs l : forall m out,
  Forall (fun c => NoDup (f_subs c)) l -> Forall (fun d => NoDup (fi_subs d)) m ->
  flag_collect l m = Some out -> Forall (fun d => NoDup (fi_subs d)) out.
Proof.
  induction l as [|c r IH]; intros m out Hl Hm H; cbn [flag_collect] in H; [inversion H; subst; exact Hm|].
  inversion Hl as [|? ? Hc Hr]; subst.
  pose proof (flag_subs_loop_idle (f_subs c) Hc) as Hidle. pose proof (nsort_nodup _ Hc) as Hnd.
  rewrite Hidle in H. destruct (nsort (f_subs c)) as [|s0 ss] eqn:Es.
  - destruct (N.eqb _ 0); [discriminate|]. eapply IH; eauto.
  - eapply IH; [exact Hr| |exact H]. apply info_ins_subs; auto.
Qed.
Lemma flag_emit_subs m : forall out,
  Forall (fun d => NoDup (fi_subs d)) m -> flag_emit m = Some out -> Forall (fun c => NoDup (f_subs c)) out.
Proof.
  induction m as [|d r IH]; intros out Hm H; cbn [flag_emit] in H; [inversion H; constructor|].
  inversion Hm as [|? ? Hd Hr]; subst. destruct (N.eqb _ 0).
  - destruct (fi_forb d 0%N); [discriminate|]. auto.
  - destruct (flag_emit r) as [o|]; [|discriminate]. inversion H; subst. apply Forall_app; split; [|auto].
    apply Forall_map. apply Forall_true. intros u. exact Hd.
Qed.
Lemma clean_flag_subs l out : Forall (fun c => NoDup (f_subs c)) l -> clean_flag l = Some out -> Forall (fun c => NoDup (f_subs c)) out.
Proof.
  intros Hl. unfold clean_flag. destruct l as [|c0 l0] eqn:El; [intros H; inversion H; constructor|]. rewrite <- El in *.
  destruct (flag_collect l []) as [m|] eqn:Ec; [|discriminate].
  pose proof (flag_collect_subs l [] m Hl (Forall_nil _) Ec) as Hm.
  destruct (flag_emit m) as [o|] eqn:Ee; [|discriminate]. intros H; inversion H; subst.
  apply isort_Forall. eapply flag_emit_subs; eauto.
Qed.
Lemma sel_flag_subs c : Forall flag_subs_ok c -> Forall (fun f => NoDup (f_subs f)) (sel_flag c).
Proof. induction 1 as [|x c Hx Hc IH]; cbn; [constructor|]. destruct x; cbn; auto. Qed.
Lemma conj_clean_flag_subs c : Forall flag_subs_ok c -> Forall flag_subs_ok (conj_clean c).
Proof.
  intros H. unfold conj_clean. destruct (has_imp c); [repeat constructor|].
  destruct (clean_tag _); [|repeat constructor]. destruct (clean_flag (sel_flag c)) as [f|] eqn:Ef; [|repeat constructor].
  destruct (clean_host _); [|repeat constructor]. destruct (clean_num _); [|repeat constructor].
  destruct (clean_time _); [|repeat constructor]. destruct (clean_data _); [|repeat constructor].
  repeat (apply Forall_app; split); apply Forall_map; try (apply Forall_true; intros; exact I).
  apply (clean_flag_subs (sel_flag c) f (sel_flag_subs c H) Ef).
Qed.
Lemma cond_invert_flag_subs c : flag_subs_ok c -> Forall (Forall flag_subs_ok) (cond_invert c).
Proof.
  intros H. destruct c as [t|f|h|n|tm|d|]; cbn [cond_invert]; try (repeat constructor; fail).
  - constructor; [|constructor]. apply flag_invert_subs. exact H.
  - unfold data_invert. apply Forall_map. apply Forall_true. intros. repeat constructor.
Qed.

(* every flag condition in every set the normaliser builds, for every expression *)
Theorem norm_flag_subs e : forall cs, norm e = Some cs -> Forall (Forall flag_subs_ok) cs.
Proof.
  apply inv_norm.
  - intros; exact I.
  - exact I.
  - exact conds_of_atom_flag_subs.
  - exact cond_invert_flag_subs.
  - exact conj_clean_flag_subs.
Qed.

(* ------------------------------------------------------------------ the simple-ID fast path never expands a range *)
(* cleanSimpleIDFilter takes ONE id from every conjunct (it gives up when a conjunct admits more than one id), so the ids it
   collects, sorts and groups are as many as the conjuncts of the set - whatever the magnitudes of the numerals - and its
   result has at most that many conjuncts, of two conditions each. A variant that walks through the ids of a range does not
   satisfy this (seeded change C14-r4a-n2). *)
Lemma simple_ids_length cs : forall ids, simple_ids cs = Some ids -> length ids = length cs.
Proof.
  induction cs as [|cc r IH]; cbn [simple_ids]; intros ids H; [inversion H; reflexivity|].
  destruct (extract_simple_id (conj_clean cc)) as [[mn mx]|]; [|discriminate].
  destruct (Z.eqb mn mx); [|discriminate]. destruct (simple_ids r) as [l|]; [|discriminate].
  inversion H; subst. cbn. rewrite (IH l eq_refl). reflexivity.
Qed.
Lemma simple_ids_single cs ids : simple_ids cs = Some ids ->
  Forall (fun cc => exists i, extract_simple_id (conj_clean cc) = Some (i, i)) cs.
Proof.
  revert ids; induction cs as [|cc r IH]; cbn [simple_ids]; intros ids H; [constructor|].
  destruct (extract_simple_id (conj_clean cc)) as [[mn mx]|] eqn:E; [|discriminate].
  destruct (Z.eqb mn mx) eqn:Em; [|discriminate]. destruct (simple_ids r) as [l|] eqn:El; [|discriminate].
  apply Z.eqb_eq in Em. subst mx. constructor; [exists mn; exact E|]. apply (IH l). reflexivity.
Qed.
Lemma zuniq_length rest : forall a, (length (zuniq a rest) <= S (length rest))%nat.
Proof.
  induction rest as [|b r IH]; intros a; cbn [zuniq length]; [lia|].
  destruct (Z.eqb a b); [specialize (IH a)|specialize (IH b)]; cbn [length]; lia.
Qed.
Lemma id_runs_length rest : forall mn mx, (length (id_runs mn mx rest) <= S (length rest))%nat.
Proof.
  induction rest as [|b r IH]; intros mn mx; cbn [id_runs length]; [lia|].
  destruct (Z.eqb b (mx + 1)); [specialize (IH mn b)|specialize (IH b b)]; cbn [length]; lia.
Qed.
Theorem simple_id_work_bounded cs :
  (forall ids, simple_ids cs = Some ids -> length ids = length cs) /\
  (forall out, clean_simple_id cs = Some out ->
     (length out <= length cs)%nat /\ Forall (fun c => length c = 2%nat) out).
Proof.
  split; [apply simple_ids_length|]. intros out H. unfold clean_simple_id in H.
  destruct cs as [|c0 cr]; [discriminate|]. set (cs := c0 :: cr) in *.
  destruct (simple_ids cs) as [ids|] eqn:Ei; [|discriminate].
  pose proof (simple_ids_length cs ids Ei) as Hl.
  pose proof (Permutation_length (isort_perm (fun x => [x]) ids)) as Hp.
  destruct (isort (fun x => [x]) ids) as [|a r]; [inversion H; subst; split; [cbn; lia|constructor]|].
  pose proof (zuniq_length r a) as Hz.
  destruct (zuniq a r) as [|m r']; [inversion H; subst; split; [cbn; lia|constructor]|].
  inversion H; subst out. rewrite map_length. pose proof (id_runs_length r' m m) as Hr. cbn [length] in *. split; [lia|].
  apply Forall_map. apply Forall_forall. intros x _. reflexivity.
Qed.
