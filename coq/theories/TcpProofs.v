(* Proofs about the ideal reassembler (model: Tcp.v) -- C05 theorem (4):
   for EVERY segmentation of a direction's byte stream, every duplication (exact, coalesced or partial
   retransmission) and every reordering, the reassembled bytes are the original bytes. *)
From Pk Require Import Tcp.
From Coq Require Import Sorting.Sorted Lia.
From Coq Require Import ZifyBool ZifyN ZifyNat.

(* data[a..b) *)
Definition subd (data : list N) (a b : N) : list N :=
  firstn (N.to_nat b - N.to_nat a) (skipn (N.to_nat a) data).

Lemma firstn_app_skipn {A} : forall n m (l : list A), firstn n l ++ firstn m (skipn n l) = firstn (n + m) l.
Proof.
  induction n as [|n IH]; intros m l; simpl; auto.
  destruct l as [|x l]; simpl.
  - rewrite firstn_nil. reflexivity.
  - f_equal. apply IH.
Qed.

Lemma skipn_skipn' {A} : forall n m (l : list A), skipn n (skipn m l) = skipn (m + n) l.
Proof.
  intros n m; revert n. induction m as [|m IH]; intros n l; simpl; auto.
  destruct l; simpl; auto. apply skipn_nil.
Qed.

Lemma subd_app data a b c : a <= b -> b <= c -> subd data a b ++ subd data b c = subd data a c.
Proof.
  intros H1 H2. unfold subd.
  replace (skipn (N.to_nat b) data) with (skipn (N.to_nat b - N.to_nat a) (skipn (N.to_nat a) data)).
  2:{ rewrite skipn_skipn'. f_equal. lia. }
  rewrite firstn_app_skipn. f_equal. lia.
Qed.

Lemma subd_length data a b : b <= lenN data -> lenN (subd data a b) = b - a.
Proof.
  intros H. unfold subd, lenN in *. rewrite firstn_length, skipn_length. lia.
Qed.

Lemma subd_zero data b : subd data 0 b = firstn (N.to_nat b) data.
Proof. unfold subd. simpl. f_equal. lia. Qed.

Lemma subd_skipn data a b k : skipn (N.to_nat k) (subd data a b) = subd data (a + k) b.
Proof.
  unfold subd. rewrite skipn_firstn_comm. rewrite skipn_skipn'. f_equal; [lia|]. f_equal. lia.
Qed.

Lemma subd_empty data a b : b <= a -> subd data a b = [].
Proof. intros H. unfold subd. replace (N.to_nat b - N.to_nat a)%nat with O by lia. reflexivity. Qed.

Lemma dropN_subd data a b k : b <= lenN data -> dropN k (subd data a b) = subd data (a + k) b.
Proof.
  intros Hb. unfold dropN. rewrite subd_length by auto.
  destruct (N.leb_spec (b - a) k).
  - rewrite subd_empty; auto. lia.
  - apply subd_skipn.
Qed.

(* a segment / queued page is a true slice of the direction's data *)
Definition seg_end (s : seg) : N := fst s + lenN (snd s).
Definition slice' (data : list N) (s : seg) : Prop := snd s = subd data (fst s) (seg_end s) /\ seg_end s <= lenN data.

Lemma slice_slice' data s : slice data s -> slice' data s.
Proof.
  intros [H1 H2]. split; auto. unfold subd, seg_end, lenN.
  replace (N.to_nat (fst s + N.of_nat (length (snd s))) - N.to_nat (fst s))%nat with (length (snd s)) by lia.
  exact H1.
Qed.

Definition pg_endN (pg : page) : N := pg_seq pg + lenN (pg_bytes pg).
Definition page_ok (data : list N) (pg : page) : Prop :=
  pg_bytes pg = subd data (pg_seq pg) (pg_endN pg) /\ pg_endN pg <= lenN data.

Definition qsorted (q : list page) : Prop := StronglySorted (fun a b => pg_seq a <= pg_seq b) q.

Lemma insert_page_in q pg y : In y (insert_page q pg) <-> y = pg \/ In y q.
Proof.
  induction q as [|z q IH]; simpl.
  - intuition.
  - destruct (pg_seq pg <? pg_seq z); simpl; rewrite ?IH; intuition.
Qed.

Lemma insert_page_sorted q pg : qsorted q -> qsorted (insert_page q pg).
Proof.
  induction q as [|x q IH]; simpl; intros H.
  - constructor; constructor.
  - destruct (N.ltb_spec (pg_seq pg) (pg_seq x)).
    + constructor; auto. constructor; [lia|].
      inversion H; subst. eapply Forall_impl; [|eassumption]. intros; simpl in *; lia.
    + inversion H as [|? ? Hq Hx]; subst. constructor; [apply IH; auto|].
      apply Forall_forall. intros y Hy. apply insert_page_in in Hy as [->|Hy']; [lia|].
      rewrite Forall_forall in Hx. apply Hx; auto.
Qed.

(* pull: takes exactly the queued pages that start at or before the growing [next] *)
Lemma pull_spec data : forall q next acc fin q' nx' acc' fin' a0,
  qsorted q -> Forall (page_ok data) q -> next <= lenN data -> a0 <= next ->
  acc = subd data a0 next ->
  pull q next acc fin = (q', nx', acc', fin') ->
  next <= nx' /\ nx' <= lenN data /\ acc' = subd data a0 nx' /\
  qsorted q' /\ Forall (page_ok data) q' /\ Forall (fun pg => nx' < pg_seq pg) q' /\
  (forall pg, In pg q -> pg_endN pg <= nx' \/ In pg q').
Proof.
  induction q as [|pg q IH]; intros next acc fin q' nx' acc' fin' a0 Hs Hok Hn Ha Hacc Hp; simpl in Hp.
  - inversion Hp; subst. repeat split; auto; try lia; try constructor; try (intros pg []).
  - destruct (N.leb_spec (pg_seq pg) next) as [Hle|Hgt].
    + apply StronglySorted_inv in Hs as [Hs1 Hs2].
      pose proof (Forall_inv Hok) as [Hb He]. pose proof (Forall_inv_tail Hok) as Hok'.
      assert (Hbe : dropN (next - pg_seq pg) (pg_bytes pg) = subd data next (N.max next (pg_endN pg))).
      { rewrite Hb at 1. rewrite dropN_subd by auto.
        replace (pg_seq pg + (next - pg_seq pg)) with next by lia.
        destruct (N.leb_spec (pg_endN pg) next).
        - rewrite !subd_empty; auto; lia.
        - f_equal. lia. }
      assert (Hlen : next + lenN (dropN (next - pg_seq pg) (pg_bytes pg)) = N.max next (pg_endN pg)).
      { rewrite Hbe. rewrite subd_length by lia. lia. }
      assert (A1 : next + lenN (dropN (next - pg_seq pg) (pg_bytes pg)) <= lenN data) by (rewrite Hlen; lia).
      assert (A2 : a0 <= next + lenN (dropN (next - pg_seq pg) (pg_bytes pg))) by lia.
      assert (A3 : acc ++ dropN (next - pg_seq pg) (pg_bytes pg) = subd data a0 (next + lenN (dropN (next - pg_seq pg) (pg_bytes pg)))).
      { rewrite Hlen, Hbe, Hacc. apply subd_app; lia. }
      destruct (IH _ _ _ _ _ _ _ a0 Hs1 Hok' A1 A2 A3 Hp) as (I1 & I2 & I3 & I4 & I5 & I6 & I7).
      repeat split; auto; try lia.
      intros y [<-|Hy]; [left; lia|]. apply I7; auto.
    + inversion Hp; subst q' nx' acc' fin'. repeat split; auto; try lia.
      apply StronglySorted_inv in Hs as [Hs1 Hs2]. constructor; [lia|].
      eapply Forall_impl; [|exact Hs2]. intros; simpl in *; lia.
Qed.

(* state of one direction while the perturbed segment list is consumed *)
Record hinv (data : list N) (h : half) (nx : N) (seen : list seg) : Prop := {
  hi_next : h_next h = Some nx;
  hi_le : nx <= lenN data;
  hi_sorted : qsorted (h_queue h);
  hi_ok : Forall (page_ok data) (h_queue h);
  hi_ahead : Forall (fun pg => nx < pg_seq pg) (h_queue h);
  hi_seen : Forall (fun s => seg_end s <= nx \/ In (seg_page s) (h_queue h)) seen }.

Lemma seg_page_ok data s : slice' data s -> page_ok data (seg_page s).
Proof. intros [H1 H2]. split; simpl; auto. Qed.

Lemma half_seg_step data h nx seen s h' out :
  hinv data h nx seen -> slice' data s -> half_seg h s = (h', out) ->
  exists nx', hinv data h' nx' (seen ++ [s]) /\ nx <= nx' /\ out = subd data nx nx'.
Proof.
  intros [Hn Hle Hs Hok Hah Hseen] Hsl Hh. unfold half_seg, half_data in Hh. rewrite Hn in Hh.
  cbn [pg_seq pg_bytes pg_end seg_page orb] in Hh.
  destruct (N.ltb_spec nx (fst s)) as [Hlt|Hge].
  - (* queued *)
    inversion Hh; subst. exists nx. split; [|split; [lia|rewrite subd_empty; auto; lia]].
    constructor; simpl; auto.
    + apply insert_page_sorted; auto.
    + apply Forall_forall. intros y Hy. apply insert_page_in in Hy as [->|Hy].
      * apply seg_page_ok; auto.
      * rewrite Forall_forall in Hok; auto.
    + apply Forall_forall. intros y Hy. apply insert_page_in in Hy as [->|Hy]; simpl; auto.
      rewrite Forall_forall in Hah; auto.
    + apply Forall_app; split.
      * eapply Forall_impl; [|exact Hseen]. intros z [Hz|Hz]; auto. right. apply insert_page_in; auto.
      * constructor; [|constructor]. right. apply insert_page_in; auto.
  - destruct Hsl as [Hb He].
    assert (Hbe : dropN (nx - fst s) (snd s) = subd data nx (N.max nx (seg_end s))).
    { rewrite Hb at 1. rewrite dropN_subd by auto.
      replace (fst s + (nx - fst s)) with nx by lia.
      destruct (N.leb_spec (seg_end s) nx).
      - rewrite !subd_empty; auto; lia.
      - f_equal. lia. }
    assert (Hlen : nx + lenN (dropN (nx - fst s) (snd s)) = N.max nx (seg_end s)).
    { rewrite Hbe. rewrite subd_length by lia. lia. }
    destruct (dropN (nx - fst s) (snd s)) as [|b0 br] eqn:Eb.
    + (* nothing new *)
      inversion Hh; subst. exists nx. split; [|split; [lia|rewrite subd_empty; auto; lia]].
      constructor; auto. apply Forall_app; split; auto.
      constructor; [|constructor]. left. unfold lenN in Hlen; simpl in Hlen. lia.
    + remember (b0 :: br) as b eqn:Eb2.
      destruct (pull (h_queue h) (nx + lenN b) b false) as [[[q' nx'] bytes] fin'] eqn:Hp.
      inversion Hh; subst h' out.
      destruct (pull_spec data (h_queue h) (nx + lenN b) b false q' nx' bytes fin' nx) as (I1 & I2 & I3 & I4 & I5 & I6 & I7); auto.
      * rewrite Hlen. lia.
      * lia.
      * rewrite Hlen. exact Hbe.
      * exists nx'. split; [|split; [lia|auto]].
        constructor; simpl; auto.
        apply Forall_app; split.
        -- eapply Forall_impl; [|exact Hseen]. intros z [Hz|Hz]; [left; lia|].
           destruct (I7 _ Hz); auto.
        -- constructor; [|constructor]. left. lia.
Qed.

Lemma reasm_from_spec data : forall l h nx seen,
  hinv data h nx seen -> Forall (slice' data) l ->
  exists h' nx', hinv data h' nx' (seen ++ l) /\ nx <= nx' /\ reasm_from h l = subd data nx nx'.
Proof.
  induction l as [|s l IH]; intros h nx seen Hi Hl; simpl.
  - exists h, nx. rewrite app_nil_r. split; auto. split; [lia|]. rewrite subd_empty; auto; lia.
  - inversion Hl; subst.
    destruct (half_seg h s) as [h1 out] eqn:Hh.
    destruct (half_seg_step data h nx seen s h1 out Hi H1 Hh) as (nx1 & Hi1 & Hle1 & Hout).
    destruct (IH h1 nx1 (seen ++ [s]) Hi1 H2) as (h2 & nx2 & Hi2 & Hle2 & Hr).
    exists h2, nx2. rewrite <- app_assoc in Hi2. simpl in Hi2. split; auto. split; [lia|].
    rewrite Hout, Hr. apply subd_app; auto.
Qed.

(* every byte position is carried by at least one segment *)
Definition covers (data : list N) (l : list seg) : Prop :=
  forall i, i < lenN data -> exists s, In s l /\ fst s <= i /\ i < seg_end s.

(* C05 theorem (4): the ideal reassembler inverts every perturbed segmentation. *)
Theorem reasm_perturbed_segments : forall data l,
  Forall (slice data) l -> covers data l -> reasm l = data.
Proof.
  intros data l Hs Hc.
  assert (Hs' : Forall (slice' data) l) by (eapply Forall_impl; [|exact Hs]; apply slice_slice').
  assert (H0 : hinv data (mkHalf (Some 0) [] false 0) 0 []).
  { constructor; simpl; auto; try constructor. lia. }
  destruct (reasm_from_spec data l _ 0 [] H0 Hs') as (h' & nx' & [Hn Hle Hso Hok Hah Hseen] & _ & Hr).
  unfold reasm. rewrite Hr. rewrite subd_zero.
  assert (nx' = lenN data).
  { destruct (N.lt_ge_cases nx' (lenN data)) as [Hlt|Hge]; [|lia].
    destruct (Hc nx' Hlt) as (s & Hin & H1 & H2).
    simpl in Hseen. rewrite Forall_forall in Hseen. destruct (Hseen s Hin) as [H|H]; [lia|].
    rewrite Forall_forall in Hah. specialize (Hah _ H). simpl in Hah. lia. }
  subst nx'. unfold lenN. rewrite Nat2N.id. apply firstn_all.
Qed.

(* ---- the segmentations the generator uses are instances ---- *)
(* cutting data at the given lengths yields slices that cover it *)
Fixpoint segment_at (off : N) (lens : list nat) (data : list N) : list seg :=
  match lens with
  | [] => match data with [] => [] | _ => [(off, data)] end
  | n :: r => (off, firstn (S n) data) :: segment_at (off + lenN (firstn (S n) data)) r (skipn (S n) data)
  end.
