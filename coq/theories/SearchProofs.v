(* Proofs about the search model (C02).  See Search.v for the definitions. *)
From Coq Require Import List NArith ZArith Bool Arith Lia Permutation Sorted.
From Coq Require Import ZifyBool ZifyN ZifyNat.
Import ListNotations.
Require Import Pk.Search.

Set Implicit Arguments.

(* ================================================================== *)
(* A. strict weak orders; the comparators                             *)
(* ================================================================== *)
Record swo {A} (lt : A -> A -> bool) : Prop := mkSwo {
  swo_irrefl : forall a, lt a a = false;
  swo_trans : forall a b c, lt a b = true -> lt b c = true -> lt a c = true;
  swo_negtrans : forall a b c, lt a b = false -> lt b c = false -> lt a c = false
}.

Lemma swo_asym {A} (lt : A -> A -> bool) : swo lt -> forall a b, lt a b = true -> lt b a = false.
Proof.
  intros H a b Hab. destruct (lt b a) eqn:E; auto.
  pose proof (swo_trans H _ _ _ Hab E). rewrite (swo_irrefl H) in H0. discriminate.
Qed.

Lemma swo_flip {A} (lt : A -> A -> bool) : swo lt -> swo (fun a b => lt b a).
Proof.
  intros [I T N]. constructor; intros; eauto.
Qed.

Lemma swo_pull {A B} (f : B -> A) (lt : A -> A -> bool) : swo lt -> swo (fun a b => lt (f a) (f b)).
Proof.
  intros [I T N]. constructor; intros; eauto.
Qed.

(* lexicographic combination as sortingLess does it: lt1 a b, else lt1 b a, else the rest *)
Definition lex {A} (lt1 lt2 : A -> A -> bool) (a b : A) : bool :=
  if lt1 a b then true else if lt1 b a then false else lt2 a b.

Ltac inst3 H a b c :=
  pose proof (H a b c); pose proof (H a c b); pose proof (H b a c);
  pose proof (H b c a); pose proof (H c a b); pose proof (H c b a).

Lemma swo_lex {A} (lt1 lt2 : A -> A -> bool) : swo lt1 -> swo lt2 -> swo (lex lt1 lt2).
Proof.
  intros H1 H2.
  destruct H1 as [I1 T1 N1], H2 as [I2 T2 N2].
  constructor; unfold lex.
  - intros a. rewrite I1. apply I2.
  - intros a b c. inst3 T1 a b c. inst3 N1 a b c. pose proof (T2 a b c).
    pose proof (I1 a). pose proof (I1 b). pose proof (I1 c).
    destruct (lt1 a b), (lt1 b a), (lt1 b c), (lt1 c b), (lt1 a c), (lt1 c a);
      intros; try discriminate; auto; intuition congruence.
  - intros a b c. inst3 T1 a b c. inst3 N1 a b c. pose proof (N2 a b c).
    pose proof (I1 a). pose proof (I1 b). pose proof (I1 c).
    destruct (lt1 a b), (lt1 b a), (lt1 b c), (lt1 c b), (lt1 a c), (lt1 c a);
      intros; try discriminate; auto; intuition congruence.
Qed.

Lemma swo_N_ltb : swo N.ltb.
Proof. constructor; intros; lia. Qed.

Lemma swo_Z_ltb : swo Z.ltb.
Proof. constructor; intros; lia. Qed.

Lemma bytes_lt_irrefl : forall a, bytes_lt a a = false.
Proof. induction a; simpl; auto. rewrite N.ltb_irrefl. auto. Qed.

Lemma bytes_lt_trans : forall a b c, bytes_lt a b = true -> bytes_lt b c = true -> bytes_lt a c = true.
Proof.
  induction a as [|x a IH]; intros [|y b] [|z c]; simpl; intros; try discriminate; auto.
  destruct (N.ltb_spec x y), (N.ltb_spec y x), (N.ltb_spec y z), (N.ltb_spec z y), (N.ltb_spec x z), (N.ltb_spec z x);
    try discriminate; try lia; eauto.
Qed.

Lemma bytes_lt_negtrans : forall a b c, bytes_lt a b = false -> bytes_lt b c = false -> bytes_lt a c = false.
Proof.
  induction a as [|x a IH]; intros [|y b] [|z c]; simpl; intros; try discriminate; auto.
  destruct (N.ltb_spec x y), (N.ltb_spec y x), (N.ltb_spec y z), (N.ltb_spec z y), (N.ltb_spec x z), (N.ltb_spec z x);
    try discriminate; try lia; eauto.
Qed.

Lemma swo_bytes_lt : swo bytes_lt.
Proof. constructor; [apply bytes_lt_irrefl | apply bytes_lt_trans | apply bytes_lt_negtrans]. Qed.

Lemma swo_key_lt : forall k, swo (key_lt k).
Proof.
  destruct k; unfold key_lt.
  - apply (swo_pull s_id swo_N_ltb).
  - apply (swo_pull s_ftime swo_Z_ltb).
  - apply (swo_pull s_ltime swo_Z_ltb).
  - apply (swo_pull s_cbytes swo_N_ltb).
  - apply (swo_pull s_sbytes swo_N_ltb).
  - apply (swo_pull s_cport swo_N_ltb).
  - apply (swo_pull s_sport swo_N_ltb).
  - apply (swo_pull s_chost swo_bytes_lt).
  - apply (swo_pull s_shost swo_bytes_lt).
Qed.

Lemma swo_sorter : forall kd, swo (sorter kd).
Proof.
  intros [k d]. unfold sorter; simpl. destruct d.
  - apply (swo_flip (swo_key_lt k)).
  - apply swo_key_lt.
Qed.

Lemma sorting_less_lex : forall kd ks a b,
  sorting_less (kd :: ks) a b = lex (sorter kd) (sorting_less ks) a b.
Proof. reflexivity. Qed.

Lemma swo_sorting_less : forall ks, swo (sorting_less ks).
Proof.
  induction ks as [|kd ks IH].
  - constructor; simpl; intros; auto; discriminate.
  - pose proof (swo_lex (swo_sorter kd) IH) as H.
    destruct H as [I T N]. constructor; intros; rewrite sorting_less_lex in *; eauto.
Qed.

(* every sort key list gives a strict weak order on result entries *)
Theorem swo_entry_less : forall ks, swo (entry_less ks).
Proof. intros ks. apply (swo_pull e_stream (swo_sorting_less ks)). Qed.

Lemma entry_less_single : forall kd a b, entry_less [kd] a b = sorter kd (e_stream a) (e_stream b).
Proof.
  intros. unfold entry_less. simpl.
  destruct (sorter kd (e_stream a) (e_stream b)); auto.
  destruct (sorter kd (e_stream b) (e_stream a)); auto.
Qed.

(* ================================================================== *)
(* B. list helpers, sort.Search                                       *)
(* ================================================================== *)
Section ListHelpers.
  Variable A : Type.

  Lemma In_firstn_nth : forall (d : A) n l x, In x (firstn n l) -> exists k, k < n /\ k < length l /\ nth k l d = x.
  Proof.
    induction n; intros [|y l] x H; simpl in *; try contradiction.
    destruct H as [->|H].
    - exists 0. repeat split; lia.
    - destruct (IHn _ _ H) as (k & ? & ? & ?). exists (S k). repeat split; try lia. auto.
  Qed.

  Lemma In_skipn_nth : forall (d : A) n l x, In x (skipn n l) -> exists k, n <= k /\ k < length l /\ nth k l d = x.
  Proof.
    induction n; intros l x H; simpl in *.
    - destruct (In_nth _ _ d H) as (k & ? & ?). exists k. repeat split; auto; lia.
    - destruct l as [|y l]; simpl in *; try contradiction.
      destruct (IHn _ _ H) as (k & ? & ? & ?). exists (S k). repeat split; try lia. auto.
  Qed.

  Lemma filter_length_le : forall (p q : A -> bool) l,
    (forall x, In x l -> p x = true -> q x = true) -> length (filter p l) <= length (filter q l).
  Proof.
    induction l as [|x l IH]; simpl; intros H; auto.
    assert (IH' : length (filter p l) <= length (filter q l)) by (apply IH; intros; apply H; auto).
    destruct (p x) eqn:Ep.
    - rewrite (H x (or_introl eq_refl) Ep). simpl. lia.
    - destruct (q x); simpl; lia.
  Qed.

  Lemma filter_all : forall (p : A -> bool) l, (forall x, In x l -> p x = true) -> filter p l = l.
  Proof.
    induction l as [|x l IH]; simpl; intros H; auto.
    rewrite (H x (or_introl eq_refl)). f_equal. apply IH. intros; apply H; auto.
  Qed.

  Lemma filter_none : forall (p : A -> bool) l, (forall x, In x l -> p x = false) -> filter p l = [].
  Proof.
    induction l as [|x l IH]; simpl; intros H; auto.
    rewrite (H x (or_introl eq_refl)). apply IH. intros; apply H; auto.
  Qed.

  Lemma filter_filter : forall (p q : A -> bool) l, filter p (filter q l) = filter (fun x => q x && p x) l.
  Proof.
    induction l as [|x l IH]; simpl; auto.
    destruct (q x); simpl; [destruct (p x)|]; rewrite IH; auto.
  Qed.

  Lemma filter_length_perm : forall (p : A -> bool) l l', Permutation l l' -> length (filter p l) = length (filter p l').
  Proof.
    induction 1; simpl; auto.
    - destruct (p x); simpl; auto.
    - destruct (p x), (p y); simpl; auto.
    - congruence.
  Qed.

  Lemma nth_skipn_add : forall (d : A) n l i, nth i (skipn n l) d = nth (n + i) l d.
  Proof.
    induction n; intros [|x l] i; simpl; auto. destruct i; auto.
  Qed.

  Lemma Forall2_nth_intro : forall (R : A -> A -> Prop) (d : A) l1 l2,
    length l1 = length l2 -> (forall i, i < length l1 -> R (nth i l1 d) (nth i l2 d)) -> Forall2 R l1 l2.
  Proof.
    induction l1 as [|x l1 IH]; intros [|y l2] Hl H; simpl in *; try discriminate; constructor.
    - apply (H 0). lia.
    - apply IH; [lia|]. intros i Hi. apply (H (S i)). lia.
  Qed.

  Lemma Forall2_skipn : forall (R : A -> A -> Prop) n l1 l2, Forall2 R l1 l2 -> Forall2 R (skipn n l1) (skipn n l2).
  Proof.
    induction n; intros l1 l2 H; simpl; auto.
    destruct H; auto.
  Qed.

  Lemma last_indep : forall (d d' : A) l, l <> [] -> last l d = last l d'.
  Proof.
    induction l as [|x l IH]; intros H; [congruence|].
    destruct l as [|y l]; auto. apply IH. discriminate.
  Qed.

  Lemma last_nth : forall (d : A) l, l <> [] -> nth (length l - 1) l d = last l d.
  Proof.
    induction l as [|x l IH]; intros H; [congruence|].
    destruct l as [|y l]; auto.
    replace (length (x :: y :: l) - 1) with (S (length (y :: l) - 1)) by (simpl; lia).
    change (nth (length (y :: l) - 1) (y :: l) d = last (y :: l) d). apply IH. discriminate.
  Qed.
End ListHelpers.

(* sort.Search on a monotone predicate returns the boundary *)
Lemma bsearch_aux_spec : forall (f : nat -> bool) n,
  (forall h k, h <= k -> k < n -> f h = true -> f k = true) ->
  forall fuel i j, i <= j -> j <= n -> j - i < fuel ->
  (forall k, k < i -> f k = false) -> (forall k, j <= k -> k < n -> f k = true) ->
  let r := bsearch_aux fuel f i j in
  r <= n /\ (forall k, k < r -> f k = false) /\ (forall k, r <= k -> k < n -> f k = true).
Proof.
  intros f n Hmono. induction fuel as [|fuel IH]; intros i j Hij Hjn Hf Hlo Hhi; [lia|].
  simpl. destruct (Nat.ltb_spec i j) as [Hlt|Hge].
  - assert (Hh : i <= Nat.div2 (i + j) /\ Nat.div2 (i + j) < j).
    { rewrite Nat.div2_div. split.
      - apply Nat.div_le_lower_bound; lia.
      - apply Nat.div_lt_upper_bound; lia. }
    destruct (f (Nat.div2 (i + j))) eqn:Efh.
    + apply IH; try lia; auto.
      intros k Hk Hkn. apply (Hmono (Nat.div2 (i + j))); auto.
    + apply IH; try lia; auto.
      intros k Hk. destruct (f k) eqn:Efk; auto.
      assert (Nat.div2 (i + j) < n) by lia.
      rewrite (Hmono k (Nat.div2 (i + j))) in Efh; auto; try lia; try discriminate.
  - assert (i = j) by lia. subst. repeat split; auto; lia.
Qed.

Lemma bsearch_spec : forall (f : nat -> bool) n,
  (forall h k, h <= k -> k < n -> f h = true -> f k = true) ->
  let r := bsearch f n in
  r <= n /\ (forall k, k < r -> f k = false) /\ (forall k, r <= k -> k < n -> f k = true).
Proof.
  intros. unfold r, bsearch. apply bsearch_aux_spec; auto; try lia; intros; lia.
Qed.

(* ================================================================== *)
(* C. sorted insertion, the accumulator invariant                     *)
(* ================================================================== *)
Section Acc.
  Variable less : entry -> entry -> bool.
  Hypothesis Hswo : swo less.

  (* "a is not after b" *)
  Definition le_ (a b : entry) : Prop := less b a = false.
  Definition sorted (l : list entry) : Prop := StronglySorted le_ l.

  Lemma sorted_app_inv : forall l1 l2, sorted (l1 ++ l2) ->
    sorted l1 /\ sorted l2 /\ (forall a b, In a l1 -> In b l2 -> le_ a b).
  Proof.
    induction l1 as [|x l1 IH]; simpl; intros l2 H.
    - repeat split; auto. constructor. intros; contradiction.
    - inversion H; subst. destruct (IH _ H2) as (S1 & S2 & S12).
      rewrite Forall_app in H3. destruct H3 as [F1 F2].
      repeat split; auto.
      + constructor; auto.
      + intros a b [->|Ha] Hb; auto. rewrite Forall_forall in F2. auto.
  Qed.

  Lemma sorted_app_intro : forall l1 l2, sorted l1 -> sorted l2 ->
    (forall a b, In a l1 -> In b l2 -> le_ a b) -> sorted (l1 ++ l2).
  Proof.
    induction l1 as [|x l1 IH]; simpl; intros l2 S1 S2 H; auto.
    inversion S1; subst. constructor.
    - apply IH; auto.
    - rewrite Forall_app. split; auto. rewrite Forall_forall. intros; apply H; auto.
  Qed.

  Lemma sorted_firstn : forall n l, sorted l -> sorted (firstn n l).
  Proof. intros n l H. rewrite <- (firstn_skipn n l) in H. apply sorted_app_inv in H. tauto. Qed.

  Lemma sorted_skipn : forall n l, sorted l -> sorted (skipn n l).
  Proof. intros n l H. rewrite <- (firstn_skipn n l) in H. apply sorted_app_inv in H. tauto. Qed.

  Lemma sorted_nth : forall l d i j, sorted l -> i < j -> j < length l -> le_ (nth i l d) (nth j l d).
  Proof.
    induction l as [|x l IH]; intros d i j S Hij Hj; simpl in *; [lia|].
    inversion S; subst. destruct j; [lia|]. destruct i.
    - rewrite Forall_forall in H2. apply H2. apply nth_In. lia.
    - apply IH; auto; lia.
  Qed.

  Lemma insert_sorted_spec : forall e l, sorted l ->
    sorted (insert_sorted less e l) /\ Permutation (insert_sorted less e l) (e :: l).
  Proof.
    intros e l S. unfold insert_sorted.
    set (f := fun i => less e (nth i l e)).
    assert (Hmono : forall h k, h <= k -> k < length l -> f h = true -> f k = true).
    { unfold f. intros h k Hhk Hk Hh. destruct (Nat.eq_dec h k) as [->|Hne]; auto.
      assert (Hle : le_ (nth h l e) (nth k l e)) by (apply sorted_nth; auto; lia).
      destruct (less e (nth k l e)) eqn:E; auto.
      rewrite (swo_negtrans Hswo _ _ _ E Hle) in Hh. discriminate. }
    destruct (@bsearch_spec f (length l) Hmono) as (Hr & Hlo & Hhi).
    set (r := bsearch f (length l)) in *.
    split.
    - pose proof S as S'. rewrite <- (firstn_skipn r l) in S'.
      destruct (sorted_app_inv _ _ S') as (S1 & S2 & S12).
      apply sorted_app_intro; auto.
      + constructor; auto. rewrite Forall_forall. intros y Hy.
        destruct (In_skipn_nth e _ _ _ Hy) as (k & Hk1 & Hk2 & <-).
        unfold le_. apply (swo_asym Hswo). apply (Hhi k); auto.
      + intros a b Ha [<-|Hb]; auto.
        destruct (In_firstn_nth e _ _ _ Ha) as (k & Hk1 & Hk2 & <-).
        unfold le_. apply (Hlo k); auto.
    - rewrite <- Permutation_middle. constructor. rewrite firstn_skipn. auto.
  Qed.

  Lemma sorted_last_max : forall l d y, sorted l -> In y l -> less (last l d) y = false.
  Proof.
    induction l as [|x l IH]; intros d y S Hy; [contradiction|].
    inversion S; subst. destruct l as [|z l].
    - destruct Hy as [<-|[]]. simpl. apply (swo_irrefl Hswo).
    - change (last (x :: z :: l) d) with (last (z :: l) d).
      destruct Hy as [<-|Hy]; [|apply IH; auto].
      rewrite Forall_forall in H2. apply H2.
      destruct (@exists_last _ (z :: l)) as (l' & a & E); [discriminate|].
      rewrite E. rewrite last_last. apply in_or_app. right. left. auto.
  Qed.

  Variable limit : nat.

  (* the accumulator accounts for the multiset M of matching entries offered or skipped so far *)
  Definition Inv (M : list entry) (a : acc) : Prop :=
    exists rest,
      Permutation M (a_streams a ++ rest) /\
      sorted (a_streams a) /\
      (forall x y, In x rest -> In y (a_streams a) -> less x y = false) /\
      (a_dropped a = 0%N <-> rest = []) /\
      (limit = 0 -> rest = []) /\
      (limit <> 0 -> length (a_streams a) <= limit /\ (rest <> [] -> length (a_streams a) = limit)).

  Definition full (a : acc) : Prop :=
    limit <> 0 /\ length (a_streams a) = limit /\ a_dropped a <> 0%N.

  Lemma Inv_perm : forall M M' a, Permutation M M' -> Inv M a -> Inv M' a.
  Proof.
    intros M M' a HP (rest & H1 & H). exists rest. split; auto.
    apply Permutation_trans with M; auto. apply Permutation_sym; auto.
  Qed.

  Lemma Inv_init : Inv [] acc0.
  Proof.
    exists []. simpl. repeat split; auto; try constructor; try contradiction; try lia; congruence.
  Qed.

  (* an entry that is not before the last result of a full accumulator can be skipped *)
  Lemma Inv_skip : forall M a x, Inv M a -> full a ->
    less x (last (a_streams a) x) = false -> Inv (x :: M) a.
  Proof.
    intros M a x (rest & HP & HS & HR & HD & HL0 & HL) (Hl & Hlen & Hd) Hx.
    exists (x :: rest).
    split; [apply Permutation_cons_app; auto|].
    split; [auto|].
    split.
    { intros x0 y [<-|Hx0] Hy; auto.
      apply (swo_negtrans Hswo) with (last (a_streams a) x); auto.
      apply sorted_last_max; auto. }
    split; [split; [intros E; tauto | discriminate]|].
    split; [intros; lia | intros _; split; [lia | intros _; lia]].
  Qed.

  Lemma N_succ_ne0 : forall n : N, (n + 1 <> 0)%N.
  Proof. intros; lia. Qed.

  Lemma add_matching_inv : forall M a e, Inv M a ->
    let r := add_matching less limit e a in
    Inv (e :: M) (fst r) /\
    (snd r = true -> full (fst r) /\ less e (last (a_streams (fst r)) e) = false).
  Proof.
    intros M a e (rest & HP & HS & HR & HD & HL0 & HL). unfold add_matching.
    destruct (Nat.eqb limit 0 || Nat.ltb (length (a_streams a)) limit) eqn:C1; simpl.
    - (* room left *)
      assert (Hrest : rest = []).
      { destruct (Nat.eq_dec limit 0) as [E|E]; auto.
        destruct rest as [|x rest]; auto. exfalso.
        destruct (HL E) as [_ H]. assert (length (a_streams a) = limit) by (apply H; discriminate). lia. }
      subst rest. rewrite app_nil_r in HP.
      destruct (insert_sorted_spec e HS) as [IS IP].
      split; [|discriminate].
      exists []. simpl. rewrite app_nil_r.
      split; [apply Permutation_sym; eapply Permutation_trans; [apply IP|]; constructor; apply Permutation_sym; auto|].
      split; [auto|]. split; [intros; contradiction|].
      split; [tauto|]. split; [auto|].
      intros E. split; [|congruence].
      rewrite (Permutation_length IP). simpl. lia.
    - (* limit reached *)
      assert (E0 : limit <> 0) by lia.
      destruct (HL E0) as [Hle Hfull].
      assert (Hlen : length (a_streams a) = limit) by lia.
      assert (Hne : a_streams a <> []) by (intros E; rewrite E in Hlen; simpl in Hlen; lia).
      assert (Hnth : nth (limit - 1) (a_streams a) e = last (a_streams a) e)
        by (rewrite <- Hlen; apply last_nth; auto).
      rewrite Hnth.
      pose proof (app_removelast_last e Hne) as Hsplit.
      destruct (less e (last (a_streams a) e)) eqn:C2; simpl.
      + (* replace the last slot *)
        split; [|discriminate].
        assert (HS' : sorted (removelast (a_streams a))).
        { rewrite Hsplit in HS. apply sorted_app_inv in HS. tauto. }
        destruct (insert_sorted_spec e HS') as [IS IP].
        exists (last (a_streams a) e :: rest). simpl.
        split.
        { apply Permutation_sym. eapply Permutation_trans; [apply Permutation_app_tail; apply IP|].
          simpl. constructor. apply Permutation_sym. eapply Permutation_trans; [apply HP|].
          rewrite Hsplit at 1. rewrite <- app_assoc. simpl. apply Permutation_refl. }
        split; [auto|].
        split.
        { intros x y Hx Hy.
          assert (Hy' : y = e \/ In y (removelast (a_streams a))).
          { apply (Permutation_in _ IP) in Hy. destruct Hy; auto. }
          assert (Hin : forall z, In z (removelast (a_streams a)) -> In z (a_streams a)).
          { intros z Hz. rewrite Hsplit. apply in_or_app; auto. }
          destruct Hx as [<-|Hx], Hy' as [->|Hy'].
          - apply (swo_asym Hswo); auto.
          - apply sorted_last_max; auto.
          - destruct (less x e) eqn:Exe; auto.
            assert (less x (last (a_streams a) e) = true) by (eapply (swo_trans Hswo); eauto).
            rewrite HR in H; auto; try discriminate.
            rewrite Hsplit at 2. apply in_or_app. right. left. auto.
          - apply HR; auto. }
        split; [split; [intros; lia | discriminate]|].
        split; [intros; lia|].
        intros _. rewrite (Permutation_length IP). simpl.
        assert (length (a_streams a) = length (removelast (a_streams a)) + 1).
        { rewrite Hsplit at 1. rewrite app_length. simpl. auto. }
        split; [lia | intros; lia].
      + (* worse than the last *)
        split.
        * exists (e :: rest). simpl.
          split; [apply Permutation_cons_app; auto|].
          split; [auto|].
          split.
          { intros x y [<-|Hx] Hy; auto.
            apply (swo_negtrans Hswo) with (last (a_streams a) e); auto.
            apply sorted_last_max; auto. }
          split; [split; [intros; lia | discriminate]|].
          split; [intros; lia | intros _; split; [lia | intros; lia]].
        * intros _. split; [|auto].
          unfold full; simpl. split; [auto|]. split; [auto|]. apply N_succ_ne0.
  Qed.

  Lemma filter_and_add_inv : forall M a e matching, Inv M a ->
    let r := filter_and_add less limit e matching a in
    Inv (if matching then e :: M else M) (fst r) /\
    (snd r = true -> full (fst r) /\ less e (last (a_streams (fst r)) e) = false).
  Proof.
    intros M a e matching HI. unfold filter_and_add.
    destruct (limit_reached limit a && negb (less e (nth (limit - 1) (a_streams a) e))) eqn:C1; simpl.
    - apply andb_prop in C1. destruct C1 as [C1 C2].
      unfold limit_reached in C1.
      assert (Hd : a_dropped a <> 0%N) by lia.
      assert (E0 : limit <> 0) by lia.
      assert (Hge : limit <= length (a_streams a)) by lia.
      assert (Hlen : length (a_streams a) = limit).
      { destruct HI as (rest & _ & _ & _ & _ & _ & HL). destruct (HL E0). lia. }
      assert (Hne : a_streams a <> []) by (intros E; rewrite E in Hlen; simpl in Hlen; lia).
      assert (Hnth : nth (limit - 1) (a_streams a) e = last (a_streams a) e)
        by (rewrite <- Hlen; apply last_nth; auto).
      rewrite Hnth in C2.
      assert (Hl : less e (last (a_streams a) e) = false) by (destruct (less e (last (a_streams a) e)); auto; discriminate).
      assert (Hf : full a) by (unfold full; auto).
      split; [|intros _; auto].
      destruct matching; auto. apply Inv_skip; auto.
    - destruct matching; simpl.
      + apply add_matching_inv; auto.
      + split; [auto | discriminate].
  Qed.
End Acc.


(* ================================================================== *)
(* D. one index file: the three scan strategies                       *)
(* ================================================================== *)
Lemma existsb_ext_in : forall A (f g : A -> bool) l, (forall x, In x l -> f x = g x) -> existsb f l = existsb g l.
Proof.
  induction l as [|x l IH]; simpl; intros H; auto.
  rewrite (H x (or_introl eq_refl)). f_equal. apply IH. intros; apply H; auto.
Qed.

Lemma existsb_combine_map : forall (g : qpart -> bool) si l,
  existsb (fun pa : qpart * bool => snd pa && qp_filter (fst pa) si) (combine l (map g l)) =
  existsb (fun p => g p && qp_filter p si) l.
Proof. induction l as [|x l IH]; simpl; auto. rewrite IH. auto. Qed.

Lemma mem_nat_In : forall x l, mem_nat x l = true <-> In x l.
Proof.
  intros. unfold mem_nat. rewrite existsb_exists. split.
  - intros (y & Hy & E). apply Nat.eqb_eq in E. subst; auto.
  - intros H. exists x. split; auto. apply Nat.eqb_refl.
Qed.

Lemma inter_lookups_in : forall si ls cur, In si cur -> (forall l, In l ls -> In si l) ->
  In si (inter_lookups cur ls).
Proof.
  induction ls as [|l ls IH]; simpl; intros cur Hc H; auto.
  assert (Hl : In si l) by (apply H; auto).
  destruct l as [|x l0]; [contradiction|].
  destruct cur as [|y c0]; [contradiction|].
  assert (Hf : In si (filter (fun x1 => mem_nat x1 (x :: l0)) (y :: c0))).
  { apply filter_In. split; auto. apply mem_nat_In; auto. }
  destruct (filter (fun x1 => mem_nat x1 (x :: l0)) (y :: c0)) as [|z c'] eqn:E; [contradiction|].
  apply IH; auto.
Qed.

Lemma inter_lookups_start : forall si ls, ls <> [] -> (forall l, In l ls -> In si l) ->
  In si (inter_lookups [] ls).
Proof.
  intros si [|l ls] Hne H; [congruence|]. simpl.
  assert (Hl : In si l) by (apply H; left; auto).
  destruct l as [|x l0]; [contradiction|].
  apply inter_lookups_in; auto. intros; apply H; right; auto.
Qed.

Lemma StronglySorted_filter : forall A (R : A -> A -> Prop) (p : A -> bool) l,
  StronglySorted R l -> StronglySorted R (filter p l).
Proof.
  induction 1; simpl; [constructor|].
  destruct (p a); auto. constructor; auto.
  rewrite Forall_forall in *. intros x Hx. apply filter_In in Hx. apply H0. tauto.
Qed.

Section FileProofs.
  Variable less : entry -> entry -> bool.
  Hypothesis Hswo : swo less.
  Variable limit : nat.
  Variable idok : stream -> bool.
  Variable newer : list file.
  Variable fi : nat.
  Variable f : file.
  Variable parts : list qpart.
  Variable sat : stream -> bool.          (* the meaning of the query *)

  (* what buildSearchObjects must deliver for this file *)
  Definition parts_sound : Prop :=
    forall si s, nth_error (f_streams f) si = Some s ->
      existsb (fun p => qp_possible p && qp_filter p si) parts = sat s.
  Definition lookups_complete : Prop :=
    forall p, In p parts -> qp_possible p = true ->
      forall si l, qp_filter p si = true -> In l (qp_lookups p) -> In si l.

  Hypothesis Hsound : parts_sound.
  Hypothesis Hlk : lookups_complete.

  Definition mt (s : stream) : bool := idok s && negb (superseded newer s) && sat s.
  Definition contrib (si : nat) : list entry :=
    match nth_error (f_streams f) si with
    | Some s => if mt s then [(fi, si, s)] else []
    | None => []
    end.
  Definition M_of (idxs : list nat) : list entry := flat_map contrib idxs.

  Notation Inv := (Inv less limit).
  Notation full := (full limit).
  Notation step := (step less limit idok newer fi f parts).

  Lemma matching_at_all : forall si s, nth_error (f_streams f) si = Some s ->
    matching_at idok newer parts (active_all parts) si s = mt s.
  Proof.
    intros si s Hs. unfold matching_at, mt, active_all.
    rewrite existsb_combine_map. rewrite (Hsound _ Hs). auto.
  Qed.

  Lemma lookup_missing_false : lookup_missing parts = false ->
    forall p, In p parts -> qp_possible p = true -> qp_lookups p <> [].
  Proof.
    unfold lookup_missing. intros H p Hp Hposs E.
    assert (existsb (fun p => qp_possible p && Nat.eqb (length (qp_lookups p)) 0) parts = true).
    { apply existsb_exists. exists p. split; auto. rewrite Hposs, E. auto. }
    congruence.
  Qed.

  Lemma active_filter_eq : lookup_missing parts = false -> forall si,
    existsb (fun p => (qp_possible p && mem_nat si (inter_lookups [] (qp_lookups p))) && qp_filter p si) parts =
    existsb (fun p => qp_possible p && qp_filter p si) parts.
  Proof.
    intros Hlm si. apply existsb_ext_in. intros p Hp.
    destruct (qp_possible p) eqn:Eposs; simpl; auto.
    destruct (qp_filter p si) eqn:Ef; [|rewrite andb_false_r; auto].
    rewrite andb_true_r. apply mem_nat_In. apply inter_lookups_start.
    - apply lookup_missing_false; auto.
    - intros l Hl. eapply Hlk; eauto.
  Qed.

  Lemma matching_at_lookup : lookup_missing parts = false -> forall si s,
    nth_error (f_streams f) si = Some s ->
    matching_at idok newer parts (active_of parts si) si s = mt s.
  Proof.
    intros Hlm si s Hs. unfold matching_at, mt, active_of.
    rewrite (existsb_combine_map (fun p => qp_possible p && mem_nat si (inter_lookups [] (qp_lookups p)))).
    rewrite active_filter_eq; auto. rewrite (Hsound _ Hs). auto.
  Qed.

  Lemma non_candidate : lookup_missing parts = false -> forall si,
    candidate parts si = false -> contrib si = [].
  Proof.
    intros Hlm si Hc. unfold contrib. destruct (nth_error (f_streams f) si) as [s|] eqn:Hs; auto.
    assert (sat s = false).
    { rewrite <- (Hsound _ Hs). rewrite <- active_filter_eq; auto.
      destruct (existsb _ parts) eqn:E; auto.
      apply existsb_exists in E. destruct E as (p & Hp & E).
      apply andb_prop in E. destruct E as [E _].
      assert (candidate parts si = true).
      { unfold candidate, active_of. apply existsb_exists.
        exists true. split; auto. apply in_map_iff. exists p. auto. }
      congruence. }
    unfold mt. rewrite H. rewrite andb_false_r. auto.
  Qed.

  Lemma M_of_filter_candidate : lookup_missing parts = false -> forall l,
    M_of (filter (candidate parts) l) = M_of l.
  Proof.
    intros Hlm. induction l as [|si l IH]; simpl; auto.
    destruct (candidate parts si) eqn:E; simpl.
    - rewrite IH. auto.
    - rewrite (non_candidate Hlm _ E). simpl. auto.
  Qed.

  Lemma step_inv : forall active si M a,
    (forall s, nth_error (f_streams f) si = Some s -> matching_at idok newer parts (active si) si s = mt s) ->
    Inv M a ->
    let r := step active si a in
    Inv (contrib si ++ M) (fst r) /\
    (snd r = true -> full (fst r) /\
       forall s, nth_error (f_streams f) si = Some s ->
                 less (fi, si, s) (last (a_streams (fst r)) (fi, si, s)) = false).
  Proof.
    intros active si M a Hm HI. unfold Search.step, contrib.
    destruct (nth_error (f_streams f) si) as [s|] eqn:Hs; simpl.
    - rewrite (Hm s eq_refl).
      destruct (filter_and_add_inv Hswo (fi, si, s) (mt s) HI) as [H1 H2].
      split.
      + destruct (mt s); auto.
      + intros Hf. destruct (H2 Hf) as [H3 H4]. split; auto.
        intros s' E. inversion E; subst. auto.
    - split; auto. discriminate.
  Qed.

  Lemma Inv_swap : forall X Y M a, Inv (X ++ Y ++ M) a -> Inv ((Y ++ X) ++ M) a.
  Proof.
    intros X Y M a. apply Inv_perm. rewrite <- app_assoc.
    rewrite !app_assoc. apply Permutation_app_tail. apply Permutation_app_comm.
  Qed.

  Lemma scan_all_inv : forall active idxs M a,
    (forall si s, In si idxs -> nth_error (f_streams f) si = Some s ->
                  matching_at idok newer parts (active si) si s = mt s) ->
    Inv M a -> Inv (M_of idxs ++ M) (scan_all less limit idok newer fi f parts active idxs a).
  Proof.
    intros active. induction idxs as [|si l IH]; intros M a Hm HI; simpl; auto.
    destruct (@step_inv active si M a) as [H1 _]; auto.
    { intros s Hs. apply Hm; auto. left; auto. }
    apply Inv_swap. apply IH; auto. intros; apply Hm; auto. right; auto.
  Qed.

  Lemma Inv_skip_all : forall X M a, Inv M a -> full a ->
    (forall x, In x X -> less x (last (a_streams a) x) = false) -> Inv (X ++ M) a.
  Proof.
    induction X as [|x X IH]; intros M a HI Hf H; simpl; auto.
    apply Inv_skip; auto.
    - apply IH; auto. intros; apply H; right; auto.
    - apply H. left; auto.
  Qed.

  (* the order of a sorting lookup: later streams are not before earlier ones *)
  Definition ord_le (i j : nat) : Prop :=
    forall s t, nth_error (f_streams f) i = Some s -> nth_error (f_streams f) j = Some t ->
                less (fi, j, t) (fi, i, s) = false.

  Lemma scan_break_inv : forall active order M a,
    (forall si s, In si order -> nth_error (f_streams f) si = Some s ->
                  matching_at idok newer parts (active si) si s = mt s) ->
    StronglySorted ord_le order ->
    Inv M a -> Inv (M_of order ++ M) (scan_break less limit idok newer fi f parts active order a).
  Proof.
    intros active. induction order as [|si l IH]; intros M a Hm HS HI; simpl; auto.
    inversion HS as [|? ? HS' HF]; subst.
    destruct (@step_inv active si M a) as [H1 H2]; auto.
    { intros s Hs. apply Hm; auto. left; auto. }
    destruct (snd (step active si a)) eqn:Eflag.
    - (* break: everything that follows is skipped *)
      destruct (H2 eq_refl) as [Hfull Hlast].
      apply Inv_swap. apply Inv_skip_all; auto.
      intros x Hx. unfold M_of in Hx. apply in_flat_map in Hx. destruct Hx as (sj & Hsj & Hx).
      unfold contrib in Hx. destruct (nth_error (f_streams f) sj) as [t|] eqn:Ht; [|contradiction].
      destruct (mt t); [|contradiction]. destruct Hx as [<-|[]].
      rewrite Forall_forall in HF. specialize (HF _ Hsj).
      destruct (nth_error (f_streams f) si) as [s|] eqn:Hs.
      + specialize (Hlast s eq_refl). specialize (HF s t Hs Ht).
        apply (swo_negtrans Hswo) with (fi, si, s); auto.
        rewrite (@last_indep _ (fi, sj, t) (fi, si, s)); auto.
        destruct Hfull as (E0 & Hlen & _). intros E. rewrite E in Hlen. simpl in Hlen. lia.
      + unfold Search.step in Eflag. rewrite Hs in Eflag. simpl in Eflag. discriminate.
    - apply Inv_swap. apply IH; auto. intros; apply Hm; auto. right; auto.
  Qed.

  Lemma M_of_nil : (forall si s, nth_error (f_streams f) si = Some s -> sat s = false) ->
    forall idxs, M_of idxs = [].
  Proof.
    intros H. induction idxs as [|si l IH]; simpl; auto. rewrite IH, app_nil_r.
    unfold contrib. destruct (nth_error (f_streams f) si) as [s|] eqn:Hs; auto.
    unfold mt. rewrite (H _ _ Hs), andb_false_r. auto.
  Qed.

  Definition lookup_ok (sl : option (list nat)) : Prop :=
    match sl with
    | None => True
    | Some order => Permutation order (seq 0 (nstreams f)) /\ StronglySorted ord_le order
    end.

  Lemma lookup_eval_inv : lookup_missing parts = false -> forall sl M a, lookup_ok sl ->
    Inv M a -> Inv (M_of (seq 0 (nstreams f)) ++ M) (lookup_eval less limit idok newer fi f parts sl a).
  Proof.
    intros Hlm sl M a Hok HI. unfold lookup_eval. destruct sl as [order|].
    - destruct Hok as [HP HS].
      apply Inv_perm with (M_of (filter (candidate parts) order) ++ M).
      + rewrite M_of_filter_candidate; auto. apply Permutation_app_tail.
        unfold M_of. apply Permutation_flat_map. auto.
      + apply scan_break_inv; auto.
        * intros; apply matching_at_lookup; auto.
        * apply StronglySorted_filter; auto.
    - rewrite <- (M_of_filter_candidate Hlm (seq 0 (nstreams f))).
      apply scan_all_inv; auto. intros; apply matching_at_lookup; auto.
  Qed.

  Theorem search_file_inv : forall sl M a, lookup_ok sl -> Inv M a ->
    Inv (M_of (seq 0 (nstreams f)) ++ M) (search_file less limit idok newer fi f parts v_fixed sl a).
  Proof.
    intros sl M a Hok HI. unfold search_file.
    destruct (negb (existsb (fun b => b) (active_all parts))) eqn:Eact.
    - rewrite M_of_nil; auto. intros si s Hs. rewrite <- (Hsound _ Hs).
      destruct (existsb _ parts) eqn:E; auto.
      apply existsb_exists in E. destruct E as (p & Hp & E). apply andb_prop in E. destruct E as [E _].
      assert (existsb (fun b => b) (active_all parts) = true).
      { apply existsb_exists. exists true. split; auto. unfold active_all. apply in_map_iff. exists p. auto. }
      rewrite H in Eact. discriminate.
    - set (sl' := if Nat.eqb limit 0 then None else sl).
      assert (Hok' : lookup_ok sl') by (unfold sl'; destruct (Nat.eqb limit 0); simpl; auto).
      destruct (lookup_missing parts) eqn:Hlm.
      + destruct sl' as [order|]; simpl.
        * destruct Hok' as [HP HS].
          apply Inv_perm with (M_of order ++ M).
          -- apply Permutation_app_tail. unfold M_of. apply Permutation_flat_map. auto.
          -- apply scan_break_inv; auto. intros; apply matching_at_all; auto.
        * apply scan_all_inv; auto. intros; apply matching_at_all; auto.
      + apply lookup_eval_inv; auto.
  Qed.

  (* M_of over the whole file = the matching entries of the file in file order *)
  Lemma M_of_seq : forall l pre, f_streams f = pre ++ l ->
    M_of (seq (length pre) (length l)) =
    filter (fun e => mt (e_stream e)) (entries_from fi (length pre) l).
  Proof.
    induction l as [|s l IH]; intros pre E; simpl; auto.
    assert (Hn : nth_error (f_streams f) (length pre) = Some s).
    { rewrite E. rewrite nth_error_app2; auto. rewrite Nat.sub_diag. auto. }
    change (M_of (length pre :: seq (S (length pre)) (length l))) with
      (contrib (length pre) ++ M_of (seq (S (length pre)) (length l))).
    unfold contrib at 1. rewrite Hn.
    specialize (IH (pre ++ [s])). rewrite app_length in IH. simpl in IH.
    replace (length pre + 1) with (S (length pre)) in IH by lia.
    rewrite IH; [|rewrite <- app_assoc; auto].
    unfold e_stream at 1. simpl. destruct (mt s); auto.
  Qed.

  Lemma M_of_file : M_of (seq 0 (nstreams f)) =
    filter (fun e => mt (e_stream e)) (entries_from fi 0 (f_streams f)).
  Proof. apply (M_of_seq (f_streams f) []). auto. Qed.
End FileProofs.

(* ================================================================== *)
(* E. the stack of index files                                        *)
(* ================================================================== *)
Lemma SS_app_intro : forall A (R : A -> A -> Prop) l1 l2, StronglySorted R l1 -> StronglySorted R l2 ->
  (forall a b, In a l1 -> In b l2 -> R a b) -> StronglySorted R (l1 ++ l2).
Proof.
  induction l1 as [|x l1 IH]; simpl; intros l2 S1 S2 H; auto.
  inversion S1; subst. constructor.
  - apply IH; auto.
  - rewrite Forall_app. split; auto. rewrite Forall_forall. intros; apply H; auto.
Qed.

Lemma SS_rev : forall A (R : A -> A -> Prop) l, StronglySorted R l -> StronglySorted (fun a b => R b a) (rev l).
Proof.
  induction 1; simpl; [constructor|].
  apply SS_app_intro; auto.
  - constructor; [constructor|constructor].
  - intros x y Hx [<-|[]]. rewrite Forall_forall in H0. apply H0. apply in_rev; auto.
Qed.

Lemma SS_weaken : forall A (R R' : A -> A -> Prop) l, (forall a b, R a b -> R' a b) ->
  StronglySorted R l -> StronglySorted R' l.
Proof.
  induction 2; constructor; auto. rewrite Forall_forall in *. auto.
Qed.

(* the sorted sections of a file as the writer produces them *)
Definition key_sorted (f : file) (k : skey) (i j : nat) : Prop :=
  forall s t, nth_error (f_streams f) i = Some s -> nth_error (f_streams f) j = Some t -> key_lt k t s = false.
Definition sections_ok (f : file) : Prop :=
  forall k sec, section_of f k = Some sec ->
    Permutation sec (seq 0 (nstreams f)) /\ StronglySorted (key_sorted f k) sec.

Lemma sorting_lookup_ok : forall ks L fi f, sections_ok f ->
  lookup_ok (entry_less ks) fi f (sorting_lookup_of v_fixed ks L f).
Proof.
  intros ks L fi f Hsec. unfold sorting_lookup_of.
  destruct (Nat.eqb L 0); simpl; auto.
  destruct ks as [|[k desc] rest]; simpl; auto.
  destruct rest as [|kd rest]; simpl; auto.
  destruct (section_of f k) as [sec|] eqn:E; simpl; auto.
  destruct (Hsec _ _ E) as [HP HS].
  destruct desc.
  - split.
    + eapply Permutation_trans; [apply Permutation_sym; apply Permutation_rev|]; auto.
    + apply SS_rev in HS. eapply SS_weaken; [|apply HS].
      intros i j H s t Hs Ht. rewrite entry_less_single. unfold sorter; simpl.
      apply (H t s); auto.
  - split; auto. eapply SS_weaken; [|apply HS].
    intros i j H s t Hs Ht. rewrite entry_less_single. unfold sorter; simpl.
    apply (H s t); auto.
Qed.

Section StackProofs.
  Variable ks : list sorting.
  Variable L : nat.
  Variable idok sat : stream -> bool.

  Definition file_ok (fp : file * list qpart) : Prop :=
    parts_sound (fst fp) (snd fp) sat /\ lookups_complete (snd fp) /\ sections_ok (fst fp).

  Definition wanted (e : entry) : bool := idok (e_stream e) && sat (e_stream e).

  Lemma search_files_inv : forall fs fi, Forall file_ok fs ->
    Inv (entry_less ks) L (filter wanted (visible_from fi (map fst fs)))
        (search_files v_fixed ks L idok fi fs acc0).
  Proof.
    induction fs as [|[f parts] newer IH]; intros fi Hok; simpl.
    - apply Inv_init.
    - inversion Hok as [|? ? (H1 & H2 & H3) Hok']; subst. simpl in *.
      rewrite filter_app.
      eapply Inv_perm; [apply Permutation_app_comm|].
      rewrite filter_filter.
      rewrite (filter_ext _ (fun e => mt idok (map fst newer) sat (e_stream e))).
      + rewrite <- (M_of_file idok (map fst newer) fi f sat).
        apply search_file_inv; auto.
        * apply swo_entry_less.
        * apply sorting_lookup_ok; auto.
      + intros e. unfold wanted, mt.
        destruct (idok (e_stream e)), (superseded (map fst newer) (e_stream e)), (sat (e_stream e)); auto.
  Qed.
End StackProofs.

(* ================================================================== *)
(* F. ranks: two sorted arrangements agree up to ties                 *)
(* ================================================================== *)
Section Rank.
  Variable less : entry -> entry -> bool.
  Hypothesis Hswo : swo less.
  Notation sorted := (sorted less).

  Definition equiv (x y : entry) : Prop := less x y = false /\ less y x = false.
  Definition cnt_lt (x : entry) (S : list entry) : nat := length (filter (fun y => less y x) S).
  Definition cnt_le (x : entry) (S : list entry) : nat := length (filter (fun y => negb (less x y)) S).

  Lemma ins_spec : forall e l, sorted l -> sorted (ins less e l) /\ Permutation (ins less e l) (e :: l).
  Proof.
    induction l as [|x l IH]; intros S; simpl.
    - split; auto. constructor; auto.
    - inversion S as [|? ? S' F]; subst. destruct (less e x) eqn:E.
      + split; auto. constructor; auto. constructor.
        * unfold le_. apply (swo_asym Hswo); auto.
        * rewrite Forall_forall in *. intros y Hy. specialize (F _ Hy). unfold le_ in *.
          destruct (less y e) eqn:Ey; auto.
          rewrite (swo_trans Hswo _ _ _ Ey E) in F. discriminate.
      + destruct (IH S') as [IS IP]. split.
        * constructor; auto. rewrite Forall_forall in *. intros y Hy.
          apply (Permutation_in _ IP) in Hy. destruct Hy as [<-|Hy]; auto.
        * eapply Permutation_trans; [apply perm_skip; apply IP|]. apply perm_swap.
  Qed.

  Lemma sort_entries_spec : forall l, sorted (sort_entries less l) /\ Permutation (sort_entries less l) l.
  Proof.
    induction l as [|x l [IS IP]]; simpl.
    - split; auto. constructor.
    - destruct (ins_spec x IS) as [S P]. split; auto.
      eapply Permutation_trans; [apply P|]. constructor; auto.
  Qed.

  Lemma rank_pos : forall M pre x post rest,
    sorted (pre ++ x :: post) ->
    (forall y, In y rest -> less y x = false) ->
    Permutation M ((pre ++ x :: post) ++ rest) ->
    cnt_lt x M <= length pre /\ length pre < cnt_le x M.
  Proof.
    intros M pre x post rest S HR HP. unfold cnt_lt, cnt_le.
    rewrite (filter_length_perm _ HP), (filter_length_perm (fun y => negb (less x y)) HP).
    destruct (sorted_app_inv _ _ S) as (S1 & S2 & S12). inversion S2 as [|? ? S3 F]; subst.
    rewrite !filter_app, !app_length. simpl. rewrite (swo_irrefl Hswo). simpl.
    split.
    - rewrite (filter_none (fun y => less y x) post), (filter_none (fun y => less y x) rest); auto.
      + simpl. pose proof (filter_length_le (fun y => less y x) (fun _ => true) pre (fun _ _ _ => eq_refl)).
        rewrite (filter_all (fun _ : entry => true) pre) in H; auto. lia.
      + rewrite Forall_forall in F. intros y Hy. apply F; auto.
    - rewrite (filter_all (fun y => negb (less x y)) pre); [lia|].
      intros y Hy. assert (le_ less y x) by (apply S12; auto; left; auto). unfold le_ in H. rewrite H. auto.
  Qed.

  Lemma rank_equiv : forall M i x x', cnt_lt x M <= i -> i < cnt_le x M ->
    cnt_lt x' M <= i -> i < cnt_le x' M -> equiv x x'.
  Proof.
    assert (Hhalf : forall M i x x', i < cnt_le x M -> cnt_lt x' M <= i -> less x x' = false).
    { intros M i x x' H1 H2. destruct (less x x') eqn:E; auto. exfalso.
      assert (cnt_le x M <= cnt_lt x' M).
      { unfold cnt_le, cnt_lt. apply filter_length_le. intros y _ Hy.
        destruct (less y x') eqn:Ey; auto.
        assert (less x y = false) by (destruct (less x y); auto; discriminate).
        rewrite (swo_negtrans Hswo _ _ _ H Ey) in E. discriminate. }
      lia. }
    intros. split; eauto.
  Qed.

  Lemma nth_firstn_lt : forall (d : entry) n l i, i < n -> nth i (firstn n l) d = nth i l d.
  Proof.
    induction n; intros [|x l] i Hi; simpl; auto; try lia. destruct i; auto. apply IHn. lia.
  Qed.

  (* l: a sorted selection of M whose complement is not before any selected entry;
     full: any sorted arrangement of M.  Position by position they tie. *)
  Lemma sorted_prefix_equiv : forall M l rest full,
    sorted l -> (forall x y, In x rest -> In y l -> less x y = false) -> Permutation M (l ++ rest) ->
    sorted full -> Permutation M full ->
    Forall2 equiv l (firstn (length l) full).
  Proof.
    intros M l rest full Sl HR HP Sf HPf.
    assert (Hlen : length l <= length full).
    { rewrite <- (Permutation_length HPf), (Permutation_length HP), app_length. lia. }
    destruct l as [|d l0] eqn:El; [simpl; constructor|]. rewrite <- El in *.
    apply Forall2_nth_intro with (d := d).
    - rewrite firstn_length. lia.
    - intros i Hi. rewrite nth_firstn_lt; auto.
      destruct (nth_split l d Hi) as (p1 & q1 & E1 & L1).
      assert (Hi' : i < length full) by lia.
      destruct (nth_split full d Hi') as (p2 & q2 & E2 & L2).
      set (x := nth i l d) in *. set (x' := nth i full d) in *.
      assert (R1 : cnt_lt x M <= length p1 /\ length p1 < cnt_le x M).
      { apply rank_pos with (post := q1) (rest := rest).
        - rewrite <- E1; auto.
        - intros y Hy. apply HR; auto. rewrite E1. apply in_or_app. right. left. auto.
        - rewrite <- E1; auto. }
      assert (R2 : cnt_lt x' M <= length p2 /\ length p2 < cnt_le x' M).
      { apply rank_pos with (post := q2) (rest := []).
        - rewrite <- E2; auto.
        - intros y [].
        - rewrite app_nil_r, <- E2; auto. }
      rewrite L1 in R1. rewrite L2 in R2. destruct R1, R2. eapply rank_equiv; eauto.
  Qed.
End Rank.

(* ================================================================== *)
(* G. visible entries are distinct                                    *)
(* ================================================================== *)
Lemma NoDup_app_intro : forall A (l1 l2 : list A), NoDup l1 -> NoDup l2 ->
  (forall x, In x l1 -> In x l2 -> False) -> NoDup (l1 ++ l2).
Proof.
  induction l1 as [|x l1 IH]; simpl; intros l2 N1 N2 H; auto.
  inversion N1; subst. constructor.
  - intros Hin. apply in_app_or in Hin. destruct Hin; auto. eapply H; eauto.
  - apply IH; auto. intros; eapply H; eauto.
Qed.

Lemma NoDup_app_inv : forall A (l1 l2 : list A), NoDup (l1 ++ l2) -> NoDup l1 /\ NoDup l2.
Proof.
  induction l1 as [|x l1 IH]; simpl; intros l2 N.
  - split; auto. constructor.
  - inversion N; subst. destruct (IH _ H2). split; auto. constructor; auto.
    intros Hin. apply H1. apply in_or_app. auto.
Qed.

Lemma NoDup_filter : forall A (p : A -> bool) l, NoDup l -> NoDup (filter p l).
Proof.
  induction 1; simpl; [constructor|]. destruct (p x); auto. constructor; auto.
  intros Hin. apply filter_In in Hin. tauto.
Qed.

Lemma In_entries_from : forall fi l off e, In e (entries_from fi off l) ->
  fst (e_pos e) = fi /\ off <= snd (e_pos e) /\ In (e_stream e) l.
Proof.
  induction l as [|s l IH]; simpl; intros off e H; [contradiction|].
  destruct H as [<-|H]; simpl; auto.
  destruct (IH _ _ H) as (? & ? & ?). repeat split; auto. lia.
Qed.

Lemma NoDup_entries_from : forall fi l off, NoDup (entries_from fi off l).
Proof.
  induction l as [|s l IH]; simpl; intros off; constructor; auto.
  intros H. apply In_entries_from in H. simpl in H. lia.
Qed.

Lemma In_visible_from : forall fs fi e, In e (visible_from fi fs) ->
  fi <= fst (e_pos e) /\ superseded fs (e_stream e) = true.
Proof.
  induction fs as [|f newer IH]; simpl; intros fi e H; [contradiction|].
  apply in_app_or in H. destruct H as [H|H].
  - destruct (IH _ _ H) as [H1 H2]. split; [lia|]. unfold superseded in *. simpl. rewrite H2. apply orb_true_r.
  - apply filter_In in H. destruct H as [H _]. apply In_entries_from in H. destruct H as (H1 & _ & H3).
    split; [lia|]. unfold superseded. simpl. apply orb_true_iff. left.
    unfold file_contains. apply existsb_exists. exists (e_stream e). split; auto. apply N.eqb_refl.
Qed.

Lemma NoDup_visible_from : forall fs fi, NoDup (visible_from fi fs).
Proof.
  induction fs as [|f newer IH]; simpl; intros fi; [constructor|].
  apply NoDup_app_intro; auto.
  - apply NoDup_filter. apply NoDup_entries_from.
  - intros e H1 H2. apply In_visible_from in H1. apply filter_In in H2. destruct H2 as [H2 _].
    apply In_entries_from in H2. lia.
Qed.

(* each stream id at most once, when no file stores an id twice *)
Definition e_id (e : entry) : N := s_id (e_stream e).

Lemma NoDup_visible_ids : forall fs fi, Forall (fun f => NoDup (map s_id (f_streams f))) fs ->
  NoDup (map e_id (visible_from fi fs)).
Proof.
  induction fs as [|f newer IH]; simpl; intros fi Hf; [constructor|].
  inversion Hf; subst. rewrite map_app. apply NoDup_app_intro; auto.
  - clear IH Hf H2. revert H1. generalize 0. generalize (f_streams f).
    induction l as [|s l IHl]; simpl; intros off N; [constructor|].
    inversion N; subst. unfold e_stream at 1. simpl.
    destruct (negb (superseded newer s)); simpl; auto.
    constructor; auto. intros Hin. apply in_map_iff in Hin. destruct Hin as (e & E & Hin).
    apply filter_In in Hin. destruct Hin as [Hin _]. apply In_entries_from in Hin.
    apply H1. unfold e_id in E. simpl in E. rewrite <- E. apply in_map. tauto.
  - intros id H3 H4. apply in_map_iff in H3. destruct H3 as (e1 & E1 & H3).
    apply in_map_iff in H4. destruct H4 as (e2 & E2 & H4).
    apply In_visible_from in H3. destruct H3 as [_ H3].
    apply filter_In in H4. destruct H4 as [_ H4].
    assert (superseded newer (e_stream e2) = true).
    { unfold superseded in *. rewrite <- H3. apply existsb_ext_in. intros f' _. unfold file_contains.
      apply existsb_ext_in. intros s _. unfold e_id in *. rewrite E1, E2. auto. }
    rewrite H in H4. discriminate.
Qed.

(* ================================================================== *)
(* H. the theorems about search_algo (patched variant)                *)
(* ================================================================== *)
Section Final.
  Variable fs : list (file * list qpart).
  Variable keys : list sorting.
  Variable limit skip : nat.
  Variable idok sat : stream -> bool.
  Hypothesis Hok : Forall (file_ok sat) fs.

  Notation ks := (effective_sorting keys).
  Notation less := (entry_less (effective_sorting keys)).
  Notation Mall := (spec_matching (map fst fs) idok sat).
  Notation acc_end := (search_files v_fixed (effective_sorting keys) (limit + skip) idok 0 fs acc0).
  Notation res := (search_algo v_fixed fs keys limit skip idok).

  Lemma final_inv : Inv less (limit + skip) Mall acc_end.
  Proof. apply (search_files_inv ks (limit + skip) idok (sat := sat) 0 Hok). Qed.

  Lemma res_unfold : res = if Nat.leb (length (a_streams acc_end)) skip then ([], false)
                           else (skipn skip (a_streams acc_end), negb (N.eqb (a_dropped acc_end) 0)).
  Proof. reflexivity. Qed.

  Theorem algo_sorted : sorted less (fst res).
  Proof.
    rewrite res_unfold. destruct final_inv as (rest & _ & HS & _).
    destruct (Nat.leb _ skip); simpl; [constructor|]. apply sorted_skipn; auto.
  Qed.

  Theorem algo_sound : forall e, In e (fst res) -> In e Mall.
  Proof.
    intros e. rewrite res_unfold. destruct final_inv as (rest & HP & _).
    destruct (Nat.leb _ skip); simpl; [contradiction|]. intros H.
    apply (Permutation_in _ (Permutation_sym HP)). apply in_or_app. left.
    rewrite <- (firstn_skipn skip (a_streams acc_end)). apply in_or_app. auto.
  Qed.

  Lemma NoDup_map_perm_sub : forall (g : entry -> N) M l rest, Permutation M (l ++ rest) ->
    NoDup (map g M) -> NoDup (map g l).
  Proof.
    intros g M l rest HP N. apply (Permutation_map g) in HP. rewrite map_app in HP.
    apply (Permutation_NoDup HP) in N. apply NoDup_app_inv in N. tauto.
  Qed.

  Lemma NoDup_map_skipn : forall (g : entry -> N) n l, NoDup (map g l) -> NoDup (map g (skipn n l)).
  Proof.
    intros g n l N. rewrite <- (firstn_skipn n l), map_app in N. apply NoDup_app_inv in N. tauto.
  Qed.

  Lemma NoDup_map_filter : forall (g : entry -> N) p l, NoDup (map g l) -> NoDup (map g (filter p l)).
  Proof.
    induction l as [|x l IH]; simpl; intros N; auto. inversion N; subst.
    destruct (p x); simpl; auto. constructor; auto.
    intros Hin. apply in_map_iff in Hin. destruct Hin as (y & E & Hy). apply filter_In in Hy.
    apply H1. rewrite <- E. apply in_map. tauto.
  Qed.

  (* no stream id twice *)
  Theorem algo_nodup : Forall (fun f => NoDup (map s_id (f_streams f))) (map fst fs) ->
    NoDup (map e_id (fst res)).
  Proof.
    intros Hf. rewrite res_unfold. destruct final_inv as (rest & HP & _).
    destruct (Nat.leb _ skip); simpl; [constructor|].
    apply NoDup_map_skipn. eapply NoDup_map_perm_sub; [apply HP|].
    unfold spec_matching. apply NoDup_map_filter. apply NoDup_visible_ids; auto.
  Qed.

  Lemma acc_length : (limit = 0 -> skip = 0) ->
    length (a_streams acc_end) = if Nat.eqb (limit + skip) 0 then length Mall else Nat.min (limit + skip) (length Mall).
  Proof.
    intros Hls. destruct final_inv as (rest & HP & _ & _ & _ & HL0 & HL).
    pose proof (Permutation_length HP) as Hlen. rewrite app_length in Hlen.
    destruct (Nat.eqb_spec (limit + skip) 0) as [E|E].
    - rewrite (HL0 E) in Hlen. simpl in Hlen. lia.
    - destruct (HL E) as [H1 H2]. destruct rest as [|x rest]; simpl in *; [lia|].
      assert (length (a_streams acc_end) = limit + skip) by (apply H2; discriminate). lia.
  Qed.

  Theorem algo_length : (limit = 0 -> skip = 0) ->
    length (fst res) = if Nat.eqb limit 0 then length Mall - skip else Nat.min limit (length Mall - skip).
  Proof.
    intros Hls. pose proof (acc_length Hls) as HA. rewrite res_unfold.
    destruct (Nat.leb_spec (length (a_streams acc_end)) skip) as [Hle|Hgt]; simpl.
    - destruct (Nat.eqb_spec limit 0) as [E|E].
      + pose proof (Hls E) as Es. rewrite E, Es in *. simpl in *. lia.
      + destruct (Nat.eqb_spec (limit + skip) 0); lia.
    - rewrite skipn_length. destruct (Nat.eqb_spec limit 0) as [E|E].
      + pose proof (Hls E) as Es. rewrite E, Es in *. simpl in *. lia.
      + destruct (Nat.eqb_spec (limit + skip) 0); lia.
  Qed.

  Theorem algo_more : snd res = spec_more (map fst fs) limit skip idok sat.
  Proof.
    rewrite res_unfold. unfold spec_more.
    destruct final_inv as (rest & HP & _ & _ & HD & HL0 & HL).
    pose proof (Permutation_length HP) as Hlen. rewrite app_length in Hlen.
    destruct (Nat.leb_spec (length (a_streams acc_end)) skip) as [Hle|Hgt]; simpl.
    - destruct (Nat.eqb_spec limit 0) as [E|E]; simpl; auto.
      assert (E' : limit + skip <> 0) by lia. destruct (HL E') as [H1 H2].
      destruct rest as [|x rest]; simpl in *.
      + symmetry. apply Nat.ltb_ge. lia.
      + assert (length (a_streams acc_end) = limit + skip) by (apply H2; discriminate). lia.
    - destruct (Nat.eq_dec (limit + skip) 0) as [E'|E'].
      { destruct (Nat.eqb_spec limit 0); [simpl|lia].
        assert (a_dropped acc_end = 0%N) by (apply HD; auto). rewrite H. auto. }
      destruct (HL E') as [H1 H2].
      assert (limit <> 0) by lia.
      destruct (Nat.eqb_spec limit 0); [lia|]. simpl.
      destruct rest as [|x rest]; simpl in *.
      + assert (a_dropped acc_end = 0%N) by (apply HD; auto). rewrite H0. simpl.
        symmetry. apply Nat.ltb_ge. lia.
      + assert (length (a_streams acc_end) = limit + skip) by (apply H2; discriminate).
        assert (a_dropped acc_end <> 0%N) by (intros E; apply HD in E; discriminate).
        destruct (N.eqb_spec (a_dropped acc_end) 0); [contradiction|]. simpl.
        symmetry. apply Nat.ltb_lt. lia.
  Qed.

  (* Everything that matches and is not on the page is either one of the [skip] entries in front
     of it (none of them after a page entry) or not before any page entry. *)
  Theorem algo_complete : (limit = 0 -> skip = 0) ->
    exists before after,
      Permutation Mall (before ++ fst res ++ after) /\
      (fst res <> [] -> length before = skip) /\
      (forall x y, In x before -> In y (fst res) -> less y x = false) /\
      (forall x y, In x after -> In y (fst res) -> less x y = false) /\
      (limit = 0 -> after = []).
  Proof.
    intros Hls. rewrite res_unfold. destruct final_inv as (rest & HP & HS & HR & HD & HL0 & HL).
    destruct (Nat.leb_spec (length (a_streams acc_end)) skip) as [Hle|Hgt]; simpl.
    - exists Mall, []. rewrite app_nil_r. repeat split; auto; try contradiction; try congruence.
    - exists (firstn skip (a_streams acc_end)), rest.
      split; [rewrite app_assoc, firstn_skipn; auto|].
      split; [intros _; rewrite firstn_length; lia|].
      split.
      + intros x y Hx Hy. rewrite <- (firstn_skipn skip (a_streams acc_end)) in HS.
        destruct (sorted_app_inv _ _ HS) as (_ & _ & H). apply (H x y); auto.
      + split.
        * intros x y Hx Hy. apply HR; auto.
          rewrite <- (firstn_skipn skip (a_streams acc_end)). apply in_or_app. auto.
        * intros E. apply HL0. rewrite E, (Hls E). auto.
  Qed.

  (* the page equals the specified page up to the order inside tie classes *)
  Theorem algo_page_equiv : (limit = 0 -> skip = 0) ->
    Forall2 (equiv less) (fst res) (spec_page (map fst fs) keys limit skip idok sat).
  Proof.
    intros Hls. pose proof (acc_length Hls) as HA.
    destruct final_inv as (rest & HP & HS & HR & _).
    destruct (sort_entries_spec (swo_entry_less ks) Mall) as [FS FP].
    pose proof (@sorted_prefix_equiv _ (swo_entry_less ks) _ _ _ _ HS HR HP FS (Permutation_sym FP)) as HE.
    pose proof (Permutation_length FP) as HFl.
    apply (Forall2_skipn skip) in HE. rewrite skipn_firstn_comm in HE.
    unfold spec_page, spec_full. rewrite res_unfold.
    set (full := sort_entries less Mall) in *.
    assert (Hsl : length (skipn skip full) = length Mall - skip) by (rewrite skipn_length; lia).
    destruct (Nat.leb_spec (length (a_streams acc_end)) skip) as [Hle|Hgt]; simpl.
    - assert (Hz : length Mall <= skip).
      { destruct (Nat.eqb_spec (limit + skip) 0); [lia|].
        destruct (Nat.eq_dec limit 0) as [E|E]; [pose proof (Hls E) as Es; rewrite E, Es in *; lia|lia]. }
      assert (skipn skip full = []) by (apply length_zero_iff_nil; lia).
      rewrite H. destruct (Nat.eqb limit 0); simpl; try rewrite firstn_nil; constructor.
    - destruct (Nat.eqb_spec limit 0) as [E|E].
      + pose proof (Hls E) as Es. rewrite E, Es in *. simpl in *. rewrite HA in HE. rewrite Nat.sub_0_r in HE.
        rewrite firstn_all2 in HE; auto. lia.
      + destruct (Nat.eqb_spec (limit + skip) 0); [lia|]. rewrite HA in HE.
        destruct (Nat.le_ge_cases (limit + skip) (length Mall)) as [Hc|Hc].
        * rewrite Nat.min_l in HE; auto. replace (limit + skip - skip) with limit in HE by lia. auto.
        * rewrite Nat.min_r in HE; auto.
          rewrite firstn_all2 in HE; [|lia]. rewrite firstn_all2; [auto|lia].
  Qed.
End Final.

(* ================================================================== *)
(* I. inlining of tag definitions preserves the meaning               *)
(* ================================================================== *)
Section InlineProofs.
  Variable atom tagname : Type.
  Variable tags : tagname -> option (tagdetails atom tagname).
  Variable invert : dnf atom tagname -> dnf atom tagname.
  (* the stream under consideration *)
  Variable eval_atom : atom -> bool.
  Variable sid : N.

  Notation cond := (cond atom tagname).
  Notation conj := (conj atom tagname).
  Notation dnf := (dnf atom tagname).

  (* the tag filter f of buildSearchObjects: Accept against the two bitmaps *)
  Definition accepts (a : accept) (unc m : bool) : bool :=
    if unc then (if m then acc_um a else acc_uf a) else (if m then acc_m a else acc_f a).

  Definition eval_cond (c : cond) : bool :=
    match c with
    | CAtom x => eval_atom x
    | CTag t a =>
        match tags t with
        | Some td => accepts a (td_uncertain td sid) (td_matches td sid)
        | None => false                      (* "tag does not exist" *)
        end
    end.
  Definition eval_conj (c : conj) : bool := forallb eval_cond c.
  Definition eval_dnf (d : dnf) : bool := existsb eval_conj d.

  (* intended meaning: a decided stream is judged by its bit, an undecided one by the definition
     ([truth] = meaning of a definition, one nesting level deeper) *)
  Section Meaning.
    Variable truth : dnf -> bool.
    Definition sem_cond_with (c : cond) : bool :=
      match c with
      | CAtom x => eval_atom x
      | CTag t a =>
          match tags t with
          | None => false
          | Some td =>
              if td_uncertain td sid then
                (if Bool.eqb (acc_um a) (acc_uf a) then acc_um a
                 else if truth (td_conditions td) then acc_um a else acc_uf a)
              else if td_matches td sid then acc_m a else acc_f a
          end
      end.
    Definition sem_conj_with (c : conj) : bool := forallb sem_cond_with c.
    Definition sem_dnf_with (d : dnf) : bool := existsb sem_conj_with d.
  End Meaning.

  Fixpoint sem_dnf (fuel : nat) : dnf -> bool :=
    match fuel with
    | O => sem_dnf_with (fun _ => false)
    | S fuel' => sem_dnf_with (sem_dnf fuel')
    end.

  (* ConditionsSet.invert negates (C03); the uncertain bitmap is consistent with IsZero *)
  Hypothesis Hinvert : forall d, d <> [] -> eval_dnf (invert d) = negb (eval_dnf d).
  Hypothesis Hany : forall t td, tags t = Some td -> td_uncertain td sid = true -> td_any_uncertain td = true.

  Lemma eval_dnf_app : forall d1 d2, eval_dnf (d1 ++ d2) = eval_dnf d1 || eval_dnf d2.
  Proof. intros. unfold eval_dnf. apply existsb_app. Qed.

  Lemma eval_dnf_map_app : forall (x : conj) d,
    eval_dnf (map (fun c => c ++ x) d) = eval_dnf d && eval_conj x.
  Proof.
    induction d as [|c d IH]; simpl; auto.
    unfold eval_dnf in *. simpl. rewrite IH. unfold eval_conj at 1. rewrite forallb_app.
    fold (eval_conj c). fold (eval_conj x). destruct (eval_conj c), (eval_conj x); simpl; auto.
    destruct (existsb eval_conj d); auto.
  Qed.

  Lemma eval_dnf_cons : forall c d, eval_dnf (c :: d) = eval_conj c || eval_dnf d.
  Proof. reflexivity. Qed.
  Lemma eval_conj_cons : forall y c, eval_conj (y :: c) = eval_cond y && eval_conj c.
  Proof. reflexivity. Qed.

  Lemma eval_conj_single : forall y, eval_conj [y] = eval_cond y.
  Proof. intros. unfold eval_conj. simpl. apply andb_true_r. Qed.
  Lemma sem_conj_cons : forall truth y c,
    sem_conj_with truth (y :: c) = sem_cond_with truth y && sem_conj_with truth c.
  Proof. reflexivity. Qed.

  Lemma eval_dnf_flat : forall (y : cond) cs_new tcs,
    eval_dnf (flat_map (fun tc => map (fun c => c ++ y :: tc) cs_new) tcs) =
    eval_dnf cs_new && eval_cond y && eval_dnf tcs.
  Proof.
    induction tcs as [|tc tcs IH].
    - simpl. rewrite andb_false_r. auto.
    - change (flat_map (fun tc0 => map (fun c => c ++ y :: tc0) cs_new) (tc :: tcs))
        with (map (fun c => c ++ y :: tc) cs_new ++ flat_map (fun tc0 => map (fun c => c ++ y :: tc0) cs_new) tcs).
      rewrite eval_dnf_app, IH, (eval_dnf_map_app (y :: tc)), eval_dnf_cons, eval_conj_cons.
      destruct (eval_dnf cs_new), (eval_cond y), (eval_conj tc), (eval_dnf tcs); auto.
  Qed.

  Section OneLevelProofs.
    Variable rec : dnf -> option dnf.
    Variable truth : dnf -> bool.
    Hypothesis Hrec : forall d d', rec d = Some d' -> eval_dnf d' = truth d.

    Lemma keep_ok : forall t a, 
      (negb (acc_um a || acc_uf a) || (acc_um a && acc_uf a) = true \/ tags t = None \/
       exists td, tags t = Some td /\ td_any_uncertain td = false) ->
      eval_cond (CTag t a) = sem_cond_with truth (CTag t a).
    Proof.
      intros t a H. simpl. destruct (tags t) as [td|] eqn:Et; auto.
      destruct (td_uncertain td sid) eqn:Eu; simpl; auto.
      destruct H as [H|[H|(td' & E & H)]]; try discriminate.
      - destruct (acc_um a), (acc_uf a); simpl in *; try discriminate; destruct (td_matches td sid); auto.
      - inversion E; subst. rewrite (Hany Et Eu) in H. discriminate.
    Qed.

    Lemma inline_conj_ok : forall cs cs_new d',
      inline_conj_with tags invert rec cs cs_new = Some d' ->
      eval_dnf d' = eval_dnf cs_new && sem_conj_with truth cs.
    Proof.
      induction cs as [|c cs IH]; intros cs_new d' H; simpl in H.
      - inversion H; subst. simpl. rewrite andb_true_r. auto.
      - assert (Hkeep : forall t a, c = CTag t a ->
                  inline_conj_with tags invert rec cs (map (fun c0 => c0 ++ [CTag t a]) cs_new) = Some d' ->
                  eval_cond (CTag t a) = sem_cond_with truth (CTag t a) ->
                  eval_dnf d' = eval_dnf cs_new && sem_conj_with truth (c :: cs)).
        { intros t a -> H1 H2.
          rewrite (IH _ _ H1), eval_dnf_map_app, eval_conj_single, H2, sem_conj_cons, andb_assoc. auto. }
        destruct c as [x|t a].
        + rewrite (IH _ _ H), eval_dnf_map_app, eval_conj_single, sem_conj_cons, andb_assoc. auto.
        + destruct (negb (acc_um a || acc_uf a) || (acc_um a && acc_uf a)) eqn:E1.
          { apply (Hkeep t a); auto. apply keep_ok. auto. }
          destruct (tags t) as [td|] eqn:Et.
          2:{ apply (Hkeep t a); auto. apply keep_ok. auto. }
          destruct (negb (td_any_uncertain td)) eqn:E2.
          { apply (Hkeep t a); auto. apply keep_ok. right. right. exists td. split; auto.
            destruct (td_any_uncertain td); auto; discriminate. }
          destruct (rec (td_conditions td)) as [tcs|] eqn:Er; [|discriminate].
          rewrite (IH _ _ H). unfold inline_step.
          rewrite eval_dnf_app, eval_dnf_map_app, eval_dnf_flat, eval_conj_single, sem_conj_cons.
          assert (Ht : eval_dnf (if acc_um a then tcs else match tcs with [] => [[]] | _ => invert tcs end) =
                       if acc_um a then truth (td_conditions td) else negb (truth (td_conditions td))).
          { pose proof (Hrec Er) as Hr. destruct (acc_um a); auto.
            destruct tcs as [|t0 tcs0]; [rewrite <- Hr; reflexivity|].
            rewrite Hinvert; [rewrite Hr; auto | discriminate]. }
          rewrite Ht. simpl. rewrite Et. unfold accepts. simpl.
          destruct (acc_um a) eqn:Eum, (acc_uf a) eqn:Euf; simpl in E1; try discriminate; simpl;
            destruct (td_uncertain td sid), (td_matches td sid), (truth (td_conditions td)),
                     (eval_dnf cs_new), (acc_m a), (acc_f a), (sem_conj_with truth cs); auto.
    Qed.

    Lemma inline_dnf_with_ok : forall d d',
      inline_dnf_with tags invert rec d = Some d' -> eval_dnf d' = sem_dnf_with truth d.
    Proof.
      induction d as [|c d IH]; intros d' H; simpl in H.
      - inversion H; auto.
      - destruct (inline_conj_with tags invert rec c [[]]) as [x|] eqn:E1; [|discriminate].
        destruct (inline_dnf_with tags invert rec d) as [y|] eqn:E2; [|discriminate].
        inversion H; subst. rewrite eval_dnf_app, (IH _ eq_refl), (inline_conj_ok _ _ E1).
        unfold sem_dnf_with. simpl. auto.
    Qed.
  End OneLevelProofs.

  (* InlineTagFilters: whenever the inlining succeeds (enough fuel for the nesting of the tag
     definitions), evaluating the inlined conditions against the bitmaps gives the intended meaning *)
  Theorem inline_preserves : forall fuel d d',
    inline_dnf tags invert fuel d = Some d' -> eval_dnf d' = sem_dnf fuel d.
  Proof.
    induction fuel as [|fuel IH]; intros d d' H; simpl in *.
    - eapply inline_dnf_with_ok; eauto. intros; discriminate.
    - eapply inline_dnf_with_ok; eauto.
  Qed.

  (* with every decided bit correct, `tag:t` means the definition of t, decided or not *)
  Definition tag_plain : accept := mkAccept true false true false.
  Theorem tag_means_definition : forall fuel t td,
    tags t = Some td ->
    (td_uncertain td sid = false -> td_matches td sid = sem_dnf fuel (td_conditions td)) ->
    sem_cond_with (sem_dnf fuel) (CTag t tag_plain) = sem_dnf fuel (td_conditions td).
  Proof.
    intros fuel t td Et Hbit. simpl. rewrite Et.
    destruct (td_uncertain td sid); simpl.
    - destruct (sem_dnf fuel (td_conditions td)); auto.
    - rewrite <- Hbit; auto. destruct (td_matches td sid); auto.
  Qed.
End InlineProofs.

(* ================================================================== *)
(* J. search over an inlined query = search for the intended meaning  *)
(* ================================================================== *)
Lemma file_ok_ext : forall (sat sat' : stream -> bool) fp,
  (forall s, sat s = sat' s) -> file_ok sat fp -> file_ok sat' fp.
Proof.
  intros sat sat' fp E (H1 & H2 & H3). split; [|split]; auto.
  intros si s Hs. rewrite <- E. apply H1; auto.
Qed.

(* If the parts compiled for every file are sound for the inlined query evaluated against the tag
   bitmaps, they are sound for the meaning of the original query in which undecided streams are judged
   by the tag definitions: all theorems of section H hold with that meaning as [sat]. *)
Theorem file_ok_inlined : forall (atom tagname : Type) (tags : tagname -> option (tagdetails atom tagname))
    (invert : dnf atom tagname -> dnf atom tagname) (eval_atom : stream -> atom -> bool) fuel d d' fs,
  (forall s dd, dd <> [] -> eval_dnf tags (eval_atom s) (s_id s) (invert dd) = negb (eval_dnf tags (eval_atom s) (s_id s) dd)) ->
  (forall s t td, tags t = Some td -> td_uncertain td (s_id s) = true -> td_any_uncertain td = true) ->
  inline_dnf tags invert fuel d = Some d' ->
  Forall (file_ok (fun s => eval_dnf tags (eval_atom s) (s_id s) d')) fs ->
  Forall (file_ok (fun s => sem_dnf tags (eval_atom s) (s_id s) fuel d)) fs.
Proof.
  intros atom tagname tags invert eval_atom fuel d d' fs Hinv Hany Hin Hok.
  eapply Forall_impl; [|apply Hok]. intros fp. apply file_ok_ext. intros s.
  eapply inline_preserves; eauto.
Qed.

(* ================================================================== *)
(* K. sub-queries                                                     *)
(* ================================================================== *)
(* the unsorted search of a sub-query returns exactly the visible streams its parts accept, each once *)
Theorem sub_search_exact : forall fs sat,
  Forall (file_ok sat) fs ->
  Permutation (spec_matching (map fst fs) (fun _ => true) sat) (sub_search v_fixed fs) /\
  (Forall (fun f => NoDup (map s_id (f_streams f))) (map fst fs) -> NoDup (map e_id (sub_search v_fixed fs))).
Proof.
  intros fs sat Hok.
  destruct (search_files_inv [] 0 (fun _ => true) (sat := sat) 0 Hok) as (rest & HP & _ & _ & _ & HL0 & _).
  rewrite (HL0 eq_refl), app_nil_r in HP.
  split; [exact HP|].
  intros Hf. apply (Permutation_map e_id) in HP. apply (Permutation_NoDup HP).
  unfold wanted. apply NoDup_map_filter. apply NoDup_visible_ids; auto.
Qed.

Section Selection.
  Variable dom : list nat.                      (* the sub-queries in play *)

  (* a combination: one result position per sub-query *)
  Definition sel_in (c : nat -> nat) (m : selmap) : Prop := forall sq, In sq dom -> In (c sq) (m sq).
  Definition sel_allows (c : nat -> nat) (sel : subsel) : Prop := exists m, In m sel /\ sel_in c m.
  (* forbidden in every listed component *)
  Definition forbidden_by (c : nat -> nat) (sqs : list nat) (forbidden : list (list nat)) : Prop :=
    Forall2 (fun sq f => In (c sq) f) sqs forbidden.
  Definition sel_wf (sel : subsel) : Prop := forall m sq, In m sel -> In sq dom -> m sq <> [].

  Lemma sel_in_upd_iff : forall c m sq v, In sq dom -> (forall x, In x v -> In x (m sq)) ->
    (sel_in c (sel_upd m sq v) <-> sel_in c m /\ In (c sq) v).
  Proof.
    intros c m sq v Hsq Hsub. unfold sel_in, sel_upd. split.
    - intros H. split.
      + intros k Hk. specialize (H k Hk). destruct (Nat.eqb_spec k sq) as [E|E]; auto. subst k. auto.
      + specialize (H sq Hsq). rewrite Nat.eqb_refl in H. auto.
    - intros [H1 H2] k Hk. destruct (Nat.eqb_spec k sq) as [E|E]; auto. subst k. auto.
  Qed.

  Lemma remove_one_spec : forall c sqs forbidden m,
    (forall sq, In sq sqs -> In sq dom) -> length sqs = length forbidden ->
    (sel_allows c (remove_one sqs forbidden m) <-> sel_in c m /\ ~ forbidden_by c sqs forbidden).
  Proof.
    intros c. induction sqs as [|sq sqs IH]; intros [|f forbidden] m Hdom Hlen; simpl in Hlen; try discriminate.
    - simpl. split.
      + intros (m' & [] & _).
      + intros [_ H]. exfalso. apply H. constructor.
    - assert (Hsq : In sq dom) by (apply Hdom; left; auto).
      assert (Hdom' : forall k, In k sqs -> In k dom) by (intros; apply Hdom; right; auto).
      assert (Hlen' : length sqs = length forbidden) by lia.
      assert (Hfb : forbidden_by c (sq :: sqs) (f :: forbidden) <-> In (c sq) f /\ forbidden_by c sqs forbidden).
      { unfold forbidden_by. split; [intros H; inversion H; subst; auto | intros [? ?]; constructor; auto]. }
      simpl.
      destruct (filter (fun x => mem_nat x f) (m sq)) as [|r0 rem] eqn:Erem.
      + (* nothing to remove *)
        split.
        * intros (m' & [<-|[]] & Hin). split; auto. rewrite Hfb. intros [Hf _].
          assert (In (c sq) (filter (fun x => mem_nat x f) (m sq))).
          { apply filter_In. split; [apply Hin; auto | apply mem_nat_In; auto]. }
          rewrite Erem in H. contradiction.
        * intros [Hin _]. exists m. split; [left; auto | auto].
      + destruct (filter (fun x => negb (mem_nat x f)) (m sq)) as [|k0 keep] eqn:Ekeep.
        * (* everything of this component is forbidden: the next sub-query decides *)
          rewrite IH; auto. rewrite Hfb. split.
          -- intros [Hin Hn]. split; auto. tauto.
          -- intros [Hin Hn]. split; auto. intros Hf. apply Hn. split; auto.
             destruct (in_dec Nat.eq_dec (c sq) f) as [|Hnf]; auto. exfalso.
             assert (In (c sq) (filter (fun x => negb (mem_nat x f)) (m sq))).
             { apply filter_In. split; [apply Hin; auto|].
               destruct (mem_nat (c sq) f) eqn:E; auto. apply mem_nat_In in E. contradiction. }
             rewrite Ekeep in H. contradiction.
        * (* split *)
          rewrite <- Erem, <- Ekeep. unfold sel_allows. split.
          -- intros (m' & [<-|Hm'] & Hin).
             ++ apply sel_in_upd_iff in Hin; auto; [|intros x Hx; apply filter_In in Hx; tauto].
                destruct Hin as [Hin Hk]. split; auto. rewrite Hfb. intros [Hf _].
                apply filter_In in Hk. destruct Hk as [_ Hk].
                assert (mem_nat (c sq) f = true) by (apply mem_nat_In; auto). rewrite H in Hk. discriminate.
             ++ assert (HA : sel_allows c (remove_one sqs forbidden (sel_upd m sq (filter (fun x => mem_nat x f) (m sq)))))
                  by (exists m'; auto).
                apply IH in HA; auto. destruct HA as [Hin2 Hn].
                apply sel_in_upd_iff in Hin2; auto; [|intros x Hx; apply filter_In in Hx; tauto].
                destruct Hin2 as [Hin2 Hk]. split; auto. rewrite Hfb. tauto.
          -- intros [Hin Hn]. rewrite Hfb in Hn.
             destruct (in_dec Nat.eq_dec (c sq) f) as [Hf|Hnf].
             ++ assert (HA : sel_allows c (remove_one sqs forbidden (sel_upd m sq (filter (fun x => mem_nat x f) (m sq))))).
                { apply IH; auto. split; [|tauto].
                  apply sel_in_upd_iff; auto; [intros x Hx; apply filter_In in Hx; tauto|].
                  split; auto. apply filter_In. split; [apply Hin; auto | apply mem_nat_In; auto]. }
                destruct HA as (m' & Hm' & Hin'). exists m'. split; [right; auto | auto].
             ++ exists (sel_upd m sq (filter (fun x => negb (mem_nat x f)) (m sq))). split; [left; auto|].
                apply sel_in_upd_iff; auto; [intros x Hx; apply filter_In in Hx; tauto|].
                split; auto. apply filter_In. split; [apply Hin; auto|].
                destruct (mem_nat (c sq) f) eqn:E; auto. apply mem_nat_In in E. contradiction.
  Qed.

  (* subQuerySelection.remove takes exactly the forbidden product out *)
  Theorem sel_remove_spec : forall c sqs forbidden sel,
    (forall sq, In sq sqs -> In sq dom) -> length sqs = length forbidden ->
    (sel_allows c (sel_remove sqs forbidden sel) <-> sel_allows c sel /\ ~ forbidden_by c sqs forbidden).
  Proof.
    intros c sqs forbidden sel Hdom Hlen. unfold sel_remove. split.
    - intros (m' & Hm' & Hin). apply in_flat_map in Hm'. destruct Hm' as (m & Hm & Hm').
      assert (HA : sel_allows c (remove_one sqs forbidden m)) by (exists m'; auto).
      apply remove_one_spec in HA; auto. destruct HA. split; auto. exists m. auto.
    - intros [(m & Hm & Hin) Hn].
      assert (HA : sel_allows c (remove_one sqs forbidden m)) by (apply remove_one_spec; auto).
      destruct HA as (m' & Hm' & Hin'). exists m'. split; auto. apply in_flat_map. exists m. auto.
  Qed.

  Lemma remove_one_wf : forall sqs forbidden m, (forall sq, In sq dom -> m sq <> []) ->
    forall m' sq, In m' (remove_one sqs forbidden m) -> In sq dom -> m' sq <> [].
  Proof.
    induction sqs as [|s sqs IH]; intros [|f forbidden] m Hm m' sq Hin Hsq; simpl in Hin; try contradiction.
    destruct (filter (fun x => mem_nat x f) (m s)) as [|r0 rem] eqn:Erem.
    - destruct Hin as [<-|[]]. auto.
    - destruct (filter (fun x => negb (mem_nat x f)) (m s)) as [|k0 keep] eqn:Ekeep.
      + eapply IH; eauto.
      + destruct Hin as [<-|Hin].
        * unfold sel_upd. destruct (Nat.eqb sq s); [discriminate | auto].
        * eapply IH; [|exact Hin|exact Hsq]. intros k Hk. unfold sel_upd.
          destruct (Nat.eqb k s); [discriminate | auto].
  Qed.

  Lemma sel_remove_wf : forall sqs forbidden sel, sel_wf sel -> sel_wf (sel_remove sqs forbidden sel).
  Proof.
    intros sqs forbidden sel H m' sq Hin Hsq. unfold sel_remove in Hin.
    apply in_flat_map in Hin. destruct Hin as (m & Hm & Hin).
    eapply remove_one_wf; eauto.
  Qed.

  Lemma sel_nonempty_allows : forall sel, sel_wf sel -> (sel_empty sel = false <-> exists c, sel_allows c sel).
  Proof.
    intros sel Hwf. split.
    - destruct sel as [|m sel]; [discriminate|]. intros _.
      exists (fun sq => hd 0 (m sq)). exists m. split; [left; auto|].
      intros sq Hsq. specialize (Hwf m sq (or_introl eq_refl) Hsq).
      destruct (m sq); [congruence | left; auto].
    - intros (c & m & Hm & _). destruct sel; [contradiction | auto].
  Qed.

  Definition op_ok (op : list nat * list (list nat)) : Prop :=
    (forall sq, In sq (fst op) -> In sq dom) /\ length (fst op) = length (snd op).

  (* all filters of a part share one searchContext: the part matches iff some allowed combination of sub-query
     results is forbidden by none of its relations *)
  Theorem rel_filters_exact : forall ops sel, sel_wf sel -> Forall op_ok ops ->
    (rel_filters ops sel = true <->
     exists c, sel_allows c sel /\ Forall (fun op => ~ forbidden_by c (fst op) (snd op)) ops).
  Proof.
    unfold rel_filters. induction ops as [|op ops IH]; intros sel Hwf Hok; simpl.
    - rewrite negb_true_iff, (sel_nonempty_allows Hwf). split.
      + intros (c & H). exists c. split; auto.
      + intros (c & H & _). exists c. auto.
    - inversion Hok as [|? ? [Ho1 Ho2] Hok']; subst.
      rewrite IH; auto; [|apply sel_remove_wf; auto]. split.
      + intros (c & HA & HF). apply sel_remove_spec in HA; auto. destruct HA. exists c. split; auto.
      + intros (c & HA & HF). inversion HF; subst. exists c. split; auto. apply sel_remove_spec; auto.
  Qed.
End Selection.
