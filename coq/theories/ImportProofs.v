(* Proofs about the id reuse / classification / visibility logic of FromPcap (model: Import.v) -- C08.

   The reassemblers are abstracted by the sequence of stream lists W_0 = [] , W_1 , ... , W_n that
   they produce after each import (W_k = streamFactory.Streams of the k-th FromPcap call).  For
   chronological arrival every W_(k+1) EXTENDS W_k: old streams keep their position, either stay as they
   are or get packets of the new captures appended; new streams consist of new packets only and follow
   the old ones.  Under that relation the theorems show: after every import the newest version of id j
   is exactly W_k[j] -- so the visible map after the last batch is the one a one-shot import produces,
   with the SAME ids; ids never move; every connection has one id. *)
From Pk Require Import Import.
From Coq Require Import Lia PeanoNat Arith.
From Coq Require Import ZifyBool ZifyN ZifyNat.

Lemma nth_error_Some_lt {A} (l : list A) n x : nth_error l n = Some x -> (n < length l)%nat.
Proof. intros H. apply nth_error_Some. congruence. Qed.

Lemma nth_error_firstn {A} : forall n (l : list A) k, (k < n)%nat -> nth_error (firstn n l) k = nth_error l k.
Proof.
  induction n as [|n IH]; intros l k Hk; [lia|].
  destruct l as [|x l]; simpl; [destruct k; reflexivity|].
  destruct k as [|k]; simpl; auto. apply IH. lia.
Qed.

Lemma nth_error_skipn {A} : forall n (l : list A) k, nth_error (skipn n l) k = nth_error l (n + k).
Proof.
  induction n as [|n IH]; intros l k; simpl; auto.
  destruct l as [|x l]; simpl; [destruct k; reflexivity|]. apply IH.
Qed.

(* what a view returns for an id: the newest version in the stack *)
Definition newest (stack : list index) (id : N) : option stream :=
  fold_left (fun acc ix => match index_get ix id with Some s => Some s | None => acc end) stack None.

Definition from_new (newfiles : list N) (r : pref * bool) : bool := mem_file (fst (fst (fst r))) newfiles.

Definition src_of (r : pref * bool) : N * N := (fst (fst (fst r)), snd (fst (fst r))).

Lemma first_source_cons s r l : stream_packets s = r :: l -> first_source s = Some (src_of r).
Proof. unfold first_source. intros ->. destruct r as [[[f i] t] d]. reflexivity. Qed.

Lemma first_source_app s s' l : stream_packets s <> [] -> stream_packets s' = stream_packets s ++ l ->
  first_source s' = first_source s.
Proof.
  unfold first_source. intros Hne ->. destruct (stream_packets s); [congruence|]. reflexivity.
Qed.

(* ------------------------------------------------------------------ lookups *)
Lemma index_lookup_some ix src id : index_lookup ix src = Some id ->
  exists s, In (id, s) ix /\ first_source s = Some src.
Proof.
  induction ix as [|[i s] r IH]; simpl; [discriminate|].
  destruct (first_source s) as [f|] eqn:Ef.
  - destruct (src_eqb f src) eqn:E.
    + intros H; inversion H; subst. exists s. split; auto.
      unfold src_eqb in E. apply andb_true_iff in E as [E1 E2]. apply N.eqb_eq in E1, E2.
      destruct f, src; simpl in *; subst; auto.
    + intros H. destruct (IH H) as (s' & ? & ?). exists s'; auto.
  - intros H. destruct (IH H) as (s' & ? & ?). exists s'; auto.
Qed.

Lemma src_eqb_refl a : src_eqb a a = true.
Proof. unfold src_eqb. rewrite !N.eqb_refl. reflexivity. Qed.

Lemma index_lookup_none ix src : index_lookup ix src = None ->
  forall id s, In (id, s) ix -> first_source s <> Some src.
Proof.
  induction ix as [|[i s] r IH]; simpl; intros H id s' Hin; [contradiction|].
  destruct (first_source s) as [f|] eqn:Ef.
  - destruct (src_eqb f src) eqn:E; [discriminate|].
    destruct Hin as [Heq|Hin]; [|eapply IH; eauto].
    inversion Heq; subst. rewrite Ef. intros Hc; inversion Hc; subst. rewrite src_eqb_refl in E. discriminate.
  - destruct Hin as [Heq|Hin]; [|eapply IH; eauto]. inversion Heq; subst. rewrite Ef. discriminate.
Qed.

Lemma stack_lookup_some stack src id : stack_lookup stack src = Some id ->
  exists ix s, In ix stack /\ In (id, s) ix /\ first_source s = Some src.
Proof.
  induction stack as [|ix r IH]; simpl; [discriminate|].
  destruct (index_lookup ix src) eqn:E.
  - intros H; inversion H; subst. destruct (index_lookup_some _ _ _ E) as (s & ? & ?). exists ix, s; auto.
  - intros H. destruct (IH H) as (ix' & s & ? & ? & ?). exists ix', s; auto.
Qed.

Lemma stack_lookup_none stack src : stack_lookup stack src = None ->
  forall ix id s, In ix stack -> In (id, s) ix -> first_source s <> Some src.
Proof.
  induction stack as [|ix r IH]; simpl; intros H ix' id s Hin Hin2; [contradiction|].
  destruct (index_lookup ix src) eqn:E; [discriminate|].
  destruct Hin as [<-|Hin]; [eapply index_lookup_none; eauto|eapply IH; eauto].
Qed.

Lemma index_get_in ix id s : index_get ix id = Some s -> In (id, s) ix.
Proof.
  induction ix as [|[i s'] r IH]; simpl; [discriminate|].
  destruct (N.eqb_spec i id); [intros H; inversion H; subst; auto|auto].
Qed.

Lemma index_get_none ix id : index_get ix id = None -> forall s, ~ In (id, s) ix.
Proof.
  induction ix as [|[i s'] r IH]; simpl; intros H s Hin; [auto|].
  destruct (N.eqb_spec i id); [discriminate|].
  destruct Hin as [Heq|Hin]; [inversion Heq; congruence|eapply IH; eauto].
Qed.

Lemma newest_app stack ix id :
  newest (stack ++ [ix]) id = match index_get ix id with Some s => Some s | None => newest stack id end.
Proof. unfold newest. rewrite fold_left_app. reflexivity. Qed.

Lemma newest_in stack id s : newest stack id = Some s -> exists ix, In ix stack /\ In (id, s) ix.
Proof.
  induction stack as [|ix r IH] using rev_ind; [discriminate|].
  rewrite newest_app. destruct (index_get ix id) eqn:E.
  - intros H; inversion H; subst. exists ix. split; [apply in_or_app; right; left; auto|apply index_get_in; auto].
  - intros H. destruct (IH H) as (ix' & ? & ?). exists ix'. split; auto. apply in_or_app; auto.
Qed.

(* ------------------------------------------------------------------ the stack invariant *)
Record stack_inv (stack : list index) (W : factory) : Prop := {
  si_ids : forall ix id s, In ix stack -> In (id, s) ix ->
           exists sw, nth_error W (N.to_nat id) = Some sw /\ first_source s = first_source sw;
  si_all : forall j sw, nth_error W j = Some sw -> newest stack (N.of_nat j) = Some sw;
  si_next : next_stream_id stack = N.of_nat (length W) }.

(* every stream has packets, and no packet source starts two streams *)
Record wf_factory (W : factory) : Prop := {
  wf_nonempty : forall j s, nth_error W j = Some s -> stream_packets s <> [];
  wf_inj : forall i j si sj, nth_error W i = Some si -> nth_error W j = Some sj ->
           first_source si = first_source sj -> i = j }.

Lemma lookup_old stack W j sw r l :
  stack_inv stack W -> wf_factory W -> nth_error W j = Some sw -> stream_packets sw = r :: l ->
  stack_lookup stack (src_of r) = Some (N.of_nat j).
Proof.
  intros [Hids Hall Hnext] [Hne Hinj] Hj Hpk.
  pose proof (first_source_cons _ _ _ Hpk) as Hfs.
  destruct (stack_lookup stack (src_of r)) as [id|] eqn:E.
  - destruct (stack_lookup_some _ _ _ E) as (ix & s & Hin & Hin2 & Hs).
    destruct (Hids _ _ _ Hin Hin2) as (sw' & Hn & Hf).
    assert (N.to_nat id = j) by (eapply Hinj; eauto; congruence). f_equal. lia.
  - exfalso. destruct (newest_in _ _ _ (Hall _ _ Hj)) as (ix & Hin & Hin2).
    eapply stack_lookup_none; eauto.
Qed.

(* ------------------------------------------------------------------ classification *)
Lemma classify_id_old pk newfiles stack id :
  Forall (fun r => from_new newfiles r = false) pk ->
  classify pk newfiles stack (Some id) false = (Some id, false, CAdded).
Proof.
  induction pk as [|[r d] pk IH]; simpl; intros H; auto.
  inversion H; subst. unfold from_new in H2. simpl in H2. rewrite H2. apply IH; auto.
Qed.

Lemma classify_old_then_new old extra newfiles stack id :
  Forall (fun r => from_new newfiles r = false) old ->
  Forall (fun r => from_new newfiles r = true) extra ->
  classify (old ++ extra) newfiles stack (Some id) false =
    match extra with [] => (Some id, false, CAdded) | _ => (Some id, true, CUpdated) end.
Proof.
  induction old as [|[r d] old IH]; simpl; intros Ho He.
  - destruct extra as [|[r d] extra]; simpl; auto.
    inversion He; subst. unfold from_new in H1. simpl in H1. rewrite H1. reflexivity.
  - inversion Ho; subst. unfold from_new in H1. simpl in H1. rewrite H1. apply IH; auto.
Qed.

Lemma classify_all_new pk newfiles stack :
  pk <> [] -> Forall (fun r => from_new newfiles r = true) pk ->
  classify pk newfiles stack None false = (None, true, CAdded).
Proof.
  assert (G : forall pk, Forall (fun r => from_new newfiles r = true) pk ->
              classify pk newfiles stack None true = (None, true, CAdded)).
  { induction pk0 as [|[r d] pk0 IH]; simpl; intros H; auto.
    inversion H; subst. unfold from_new in H2. simpl in H2. rewrite H2. apply IH; auto. }
  destruct pk as [|[r d] pk]; [congruence|]. intros _ H. simpl.
  inversion H; subst. unfold from_new in H2. simpl in H2. rewrite H2. apply G; auto.
Qed.

(* ------------------------------------------------------------------ W_(k+1) extends W_k *)
Record extends (newfiles : list N) (Wo Wn : factory) : Prop := {
  ex_old : forall j so, nth_error Wo j = Some so ->
           Forall (fun r => from_new newfiles r = false) (stream_packets so) /\
           exists sn, nth_error Wn j = Some sn /\
             (sn = so \/ exists extra, extra <> [] /\ stream_packets sn = stream_packets so ++ extra /\
                                       Forall (fun r => from_new newfiles r = true) extra);
  ex_new : forall j sn, (length Wo <= j)%nat -> nth_error Wn j = Some sn ->
           stream_packets sn <> [] /\ Forall (fun r => from_new newfiles r = true) (stream_packets sn) }.

Definition cls (newfiles : list N) (stack : list index) (s : stream) :=
  classify (stream_packets s) newfiles stack None false.

Lemma dump_app newfiles stack : forall f1 f2 next acc,
  dump (f1 ++ f2) newfiles stack next acc =
  let '(acc1, n1) := dump f1 newfiles stack next acc in dump f2 newfiles stack n1 acc1.
Proof.
  induction f1 as [|s f1 IH]; intros f2 next acc; simpl; auto.
  destruct (classify (stream_packets s) newfiles stack None false) as [[oid touched] cat].
  destruct (negb touched); [apply IH|]. apply IH.
Qed.

(* old part: position j0 + k has id j0 + k; touched streams are written under that id *)
Lemma dump_old newfiles stack : forall f j0 next acc,
  (forall k s, nth_error f k = Some s ->
     exists t c, cls newfiles stack s = (Some (N.of_nat (j0 + k)), t, c)) ->
  exists acc', dump f newfiles stack next acc = (acc', next) /\
    (forall id s, In (id, s) (r_index acc') <->
        In (id, s) (r_index acc) \/
        exists k c, nth_error f k = Some s /\ id = N.of_nat (j0 + k) /\ cls newfiles stack s = (Some id, true, c)).
Proof.
  induction f as [|s f IH]; intros j0 next acc H; simpl.
  - exists acc. split; auto. intros id s. split; [auto|]. intros [?|(k & c & Hk & _)]; auto. destruct k; discriminate.
  - destruct (H 0%nat s eq_refl) as (t & c & Hc). unfold cls in Hc. rewrite Hc.
    replace (j0 + 0)%nat with j0 in Hc by lia.
    assert (H' : forall k s0, nth_error f k = Some s0 ->
              exists t c, cls newfiles stack s0 = (Some (N.of_nat (S j0 + k)), t, c)).
    { intros k s0 Hk. destruct (H (S k) s0 Hk) as (t' & c' & E). exists t', c'. rewrite E. do 3 f_equal. lia. }
    destruct t; simpl.
    + match goal with |- context [dump f newfiles stack next ?a] => destruct (IH (S j0) next a H') as (acc' & Hd & Hin) end.
      exists acc'. split; auto. intros id s0. rewrite Hin. simpl. rewrite in_app_iff. simpl.
      split.
      * intros [[?|[Heq|[]]]|(k & c0 & Hk & Hid & Hcl)]; auto.
        -- inversion Heq; subst. right. exists 0%nat, c. simpl. repeat split; auto. replace (j0 + 0)%nat with j0 by lia. exact Hc.
        -- right. exists (S k), c0. simpl. repeat split; auto. subst. f_equal. lia.
      * intros [?|(k & c0 & Hk & Hid & Hcl)]; auto.
        destruct k as [|k]; simpl in Hk.
        -- inversion Hk; subst. left. right. left. replace (j0 + 0)%nat with j0 by lia. reflexivity.
        -- right. exists k, c0. repeat split; auto. subst. f_equal. lia.
    + destruct (IH (S j0) next acc H') as (acc' & Hd & Hin).
      exists acc'. split; auto. intros id s0. rewrite Hin.
      split.
      * intros [?|(k & c0 & Hk & Hid & Hcl)]; auto. right. exists (S k), c0. simpl. repeat split; auto. subst. f_equal. lia.
      * intros [?|(k & c0 & Hk & Hid & Hcl)]; auto.
        destruct k as [|k]; simpl in Hk.
        -- inversion Hk; subst. exfalso. unfold cls in Hcl. rewrite Hc in Hcl. inversion Hcl.
        -- right. exists k, c0. repeat split; auto. subst. f_equal. lia.
Qed.

(* new part: ids are handed out in factory order starting at [next] *)
Lemma dump_new newfiles stack : forall f next acc,
  (forall s, In s f -> cls newfiles stack s = (None, true, CAdded)) ->
  exists acc', dump f newfiles stack next acc = (acc', next + N.of_nat (length f)) /\
    (forall id s, In (id, s) (r_index acc') <->
        In (id, s) (r_index acc) \/ exists k, nth_error f k = Some s /\ id = next + N.of_nat k).
Proof.
  induction f as [|s f IH]; intros next acc H; simpl.
  - exists acc. split; [f_equal; lia|]. intros id s. split; auto. intros [?|(k & Hk & _)]; auto. destruct k; discriminate.
  - pose proof (H s (or_introl eq_refl)) as Hc. unfold cls in Hc. rewrite Hc. simpl.
    match goal with |- context [dump f newfiles stack (next + 1) ?a] =>
      destruct (IH (next + 1) a (fun s0 Hs0 => H s0 (or_intror Hs0))) as (acc' & Hd & Hin) end.
    exists acc'. split; [rewrite Hd; f_equal; lia|].
    intros id s0. rewrite Hin. simpl. rewrite in_app_iff. simpl. split.
    + intros [[?|[Heq|[]]]|(k & Hk & Hid)]; auto.
      * inversion Heq; subst. right. exists 0%nat. split; auto. lia.
      * right. exists (S k). split; auto. lia.
    + intros [?|(k & Hk & Hid)]; auto. destruct k as [|k]; simpl in Hk.
      * inversion Hk; subst. left. right. left. f_equal. lia.
      * right. exists k. split; auto. lia.
Qed.

(* ------------------------------------------------------------------ index_max / next id *)
Lemma index_max_ge : forall (ix : index) m, m <= fold_left (fun m e => N.max m (fst e)) ix m.
Proof. induction ix as [|e ix IH]; intros m; simpl; [lia|]. specialize (IH (N.max m (fst e))). lia. Qed.

Lemma index_max_in : forall (ix : index) m e, In e ix -> fst e <= fold_left (fun m e => N.max m (fst e)) ix m.
Proof.
  induction ix as [|x ix IH]; intros m e []; simpl.
  - subst. pose proof (index_max_ge ix (N.max m (fst e))). lia.
  - apply IH; auto.
Qed.

Lemma index_max_le : forall (ix : index) m b, m <= b -> (forall e, In e ix -> fst e <= b) ->
  fold_left (fun m e => N.max m (fst (A:=N) (B:=stream) e)) ix m <= b.
Proof.
  induction ix as [|x ix IH]; intros m b Hm H; simpl; auto.
  apply IH; [|intros; apply H; right; auto]. specialize (H x (or_introl eq_refl)). lia.
Qed.

Lemma next_stream_id_app stack ix :
  next_stream_id (stack ++ [ix]) =
  (if next_stream_id stack <=? index_max ix then index_max ix + 1 else next_stream_id stack).
Proof. unfold next_stream_id. rewrite fold_left_app. reflexivity. Qed.

Lemma classify_first_old r d rest newfiles stack :
  from_new newfiles (r, d) = false ->
  classify ((r, d) :: rest) newfiles stack None false =
  classify rest newfiles stack (stack_lookup stack (src_of (r, d))) false.
Proof. unfold from_new, src_of. simpl. intros ->. reflexivity. Qed.

Definition publish (stack : list index) (ix : index) : list index :=
  match ix with [] => stack | _ => stack ++ [ix] end.

(* ------------------------------------------------------------------ one import *)
Lemma import_step_inv newfiles stack Wo Wn :
  stack_inv stack Wo -> wf_factory Wo -> wf_factory Wn -> extends newfiles Wo Wn ->
  forall res nx', dump Wn newfiles stack (next_stream_id stack) (mkResult [] 0 [] [] []) = (res, nx') ->
  stack_inv (publish stack (r_index res)) Wn /\ nx' = N.of_nat (length Wn).
Proof.
  intros Hinv Hwo Hwn [Hold Hnew] res nx' Hd.
  pose proof Hinv as [Hids Hall Hnext].
  set (n := length Wo) in *.
  assert (Hlen : (n <= length Wn)%nat).
  { destruct (Nat.le_gt_cases n (length Wn)) as [|Hgt]; auto. exfalso.
    destruct (nth_error Wo (length Wn)) as [so|] eqn:E.
    - destruct (Hold _ _ E) as (_ & sn & Hsn & _). apply nth_error_Some_lt in Hsn. lia.
    - apply nth_error_None in E. unfold n in Hgt. lia. }
  (* classification of every position *)
  assert (Hcls_old : forall k s, nth_error (firstn n Wn) k = Some s ->
            exists t c, cls newfiles stack s = (Some (N.of_nat (0 + k)), t, c) /\
                        (t = false -> nth_error Wo k = Some s)).
  { intros k s Hk.
    assert (Hkn : (k < n)%nat).
    { apply nth_error_Some_lt in Hk. rewrite firstn_length in Hk. lia. }
    rewrite nth_error_firstn in Hk by lia.
    destruct (nth_error Wo k) as [so|] eqn:Eo; [|apply nth_error_None in Eo; unfold n in Hkn; lia].
    destruct (Hold _ _ Eo) as (Hnotnew & sn & Hsn & Hcase). rewrite Hk in Hsn. inversion Hsn; subst sn.
    pose proof (wf_nonempty _ Hwo _ _ Eo) as Hne.
    destruct (stream_packets so) as [|[r d] l] eqn:Epk; [congruence|].
    pose proof (lookup_old _ _ _ _ _ _ Hinv Hwo Eo Epk) as Hl.
    inversion Hnotnew as [|? ? Hr Hl']; subst.
    destruct Hcase as [Heq|(extra & Hex & Hpk & Hallnew)].
    - exists false, CAdded. split; [|intros _; congruence]. unfold cls. subst s. rewrite Epk. rewrite classify_first_old by auto.
      rewrite Hl. simpl. apply classify_id_old; auto.
    - exists true, CUpdated. split; [|discriminate]. unfold cls. rewrite Hpk. simpl app.
      rewrite classify_first_old by auto. rewrite Hl. simpl Nat.add.
      rewrite classify_old_then_new; auto. destruct extra; [congruence|reflexivity]. }
  assert (Hcls_new : forall s, In s (skipn n Wn) -> cls newfiles stack s = (None, true, CAdded)).
  { intros s Hs. apply In_nth_error in Hs as [k Hk]. rewrite nth_error_skipn in Hk.
    destruct (Hnew (n + k)%nat s ltac:(lia) Hk) as [Hne Hall']. apply classify_all_new; auto. }
  rewrite <- (firstn_skipn n Wn) in Hd. rewrite dump_app in Hd.
  destruct (dump_old newfiles stack (firstn n Wn) 0 (next_stream_id stack) (mkResult [] 0 [] [] []))
    as (acc1 & Hd1 & Hin1).
  { intros k s Hk. destruct (Hcls_old k s Hk) as (t & c & E & _). eauto. }
  rewrite Hd1 in Hd.
  destruct (dump_new newfiles stack (skipn n Wn) (next_stream_id stack) acc1 Hcls_new) as (acc2 & Hd2 & Hin2).
  rewrite Hd2 in Hd. inversion Hd; subst res nx'. clear Hd.
  rewrite skipn_length, Hnext. fold n.
  split; [|lia].
  (* membership in the new index *)
  assert (Hmem : forall id s, In (id, s) (r_index acc2) <->
            (exists k c, (k < n)%nat /\ nth_error Wn k = Some s /\ id = N.of_nat k /\ cls newfiles stack s = (Some id, true, c)) \/
            (exists k, nth_error Wn (n + k) = Some s /\ id = N.of_nat (n + k))).
  { intros id s. rewrite Hin2, Hin1. simpl. split.
    - intros [[[]|(k & c & Hk & Hid & Hc)]|(k & Hk & Hid)].
      + left. exists k, c. assert ((k < n)%nat) by (apply nth_error_Some_lt in Hk; rewrite firstn_length in Hk; lia).
        rewrite nth_error_firstn in Hk by lia. auto.
      + right. exists k. rewrite nth_error_skipn in Hk. split; auto. rewrite Hnext in Hid. fold n in Hid. lia.
    - intros [(k & c & Hkn & Hk & Hid & Hc)|(k & Hk & Hid)].
      + left. right. exists k, c. rewrite nth_error_firstn by lia. auto.
      + right. exists k. rewrite nth_error_skipn. split; auto. rewrite Hnext. fold n. lia. }
  assert (Hval : forall id s, In (id, s) (r_index acc2) -> nth_error Wn (N.to_nat id) = Some s).
  { intros id s Hin. apply Hmem in Hin as [(k & c & _ & Hk & -> & _)|(k & Hk & ->)]; rewrite Nat2N.id; auto. }
  assert (Hunt : forall j sw, nth_error Wn j = Some sw -> (forall s, ~ In (N.of_nat j, s) (r_index acc2)) ->
            nth_error Wo j = Some sw).
  { intros j sw Hj Hno. destruct (Nat.lt_ge_cases j n) as [Hjn|Hjn].
    - assert (Hk : nth_error (firstn n Wn) j = Some sw) by (rewrite nth_error_firstn by lia; auto).
      destruct (Hcls_old j sw Hk) as (t & c & E & Hf). destruct t; [|auto].
      exfalso. apply (Hno sw). apply Hmem. left. exists j, c. repeat split; auto.
    - exfalso. apply (Hno sw). apply Hmem. right. exists (j - n)%nat.
      replace (n + (j - n))%nat with j by lia. auto. }
  assert (Hfirst : forall id s sw, nth_error Wo (N.to_nat id) = Some sw -> first_source s = first_source sw ->
            exists sw', nth_error Wn (N.to_nat id) = Some sw' /\ first_source s = first_source sw').
  { intros id s sw Hsw Hf. destruct (Hold _ _ Hsw) as (_ & sn & Hsn & Hcase). exists sn. split; auto.
    destruct Hcase as [->|(extra & _ & Hpk & _)]; auto.
    rewrite Hf. symmetry. apply (first_source_app sw sn extra); auto. exact (wf_nonempty _ Hwo _ _ Hsw). }
  destruct (r_index acc2) as [|e0 ix0] eqn:Eix; unfold publish.
  - (* nothing written *)
    constructor.
    + intros ix id s Hi Hi2. destruct (Hids _ _ _ Hi Hi2) as (sw & Hsw & Hf). eapply Hfirst; eauto.
    + intros j sw Hj. apply Hall. apply (Hunt j sw Hj). intros s [].
    + rewrite Hnext. f_equal. fold n.
      destruct (Nat.eq_dec (length Wn) n) as [|Hne]; auto. exfalso.
      destruct (nth_error Wn n) as [s|] eqn:E; [|apply nth_error_None in E; lia].
      assert (In (N.of_nat (n + 0), s) []) as []. apply Hmem. right. exists 0%nat. rewrite Nat.add_0_r. auto.
  - assert (Hnz : r_index acc2 <> []) by (rewrite Eix; discriminate).
    rewrite <- Eix in *. clear Eix e0 ix0.
    constructor.
    + intros ix id s Hi Hi2. apply in_app_or in Hi as [Hi|[<-|[]]].
      * destruct (Hids _ _ _ Hi Hi2) as (sw & Hsw & Hf). eapply Hfirst; eauto.
      * exists s. split; auto.
    + intros j sw Hj. rewrite newest_app.
      destruct (index_get (r_index acc2) (N.of_nat j)) as [s|] eqn:E.
      * apply index_get_in in E. apply Hval in E. rewrite Nat2N.id in E. congruence.
      * apply Hall. apply (Hunt j sw Hj). intros s. eapply index_get_none; eauto.
    + rewrite next_stream_id_app, Hnext. fold n.
      assert (Hb : forall e, In e (r_index acc2) -> fst e + 1 <= N.of_nat (length Wn)).
      { intros [id s] Hin. apply Hval in Hin. apply nth_error_Some_lt in Hin. simpl. lia. }
      destruct (Nat.eq_dec (length Wn) n) as [Heq|Hne].
      * (* no new stream: the id counter stays *)
        destruct (N.leb_spec (N.of_nat n) (index_max (r_index acc2))) as [Hle|]; [|rewrite Heq; auto].
        exfalso. unfold index_max in Hle.
        assert (fold_left (fun m e => N.max m (fst e)) (r_index acc2) 0 + 1 <= N.of_nat (length Wn)).
        { destruct (r_index acc2) as [|e1 r1] eqn:E1.
          - congruence.
          - (* the maximum is attained by an entry *)
            assert (Hex : forall ix m, (exists e, In e ix /\ fold_left (fun m e => N.max m (fst (A:=N) (B:=stream) e)) ix m = fst e)
                                       \/ fold_left (fun m e => N.max m (fst (A:=N) (B:=stream) e)) ix m = m).
            { induction ix as [|x ix IHx]; intros m; simpl; auto.
              destruct (IHx (N.max m (fst x))) as [(e & He & Hm)|Hm].
              - left. exists e. split; auto.
              - rewrite Hm. destruct (N.max_spec m (fst x)) as [[_ ->]|[_ ->]]; auto.
                left. exists x. split; auto. }
            destruct (Hex (e1 :: r1) 0) as [(e & He & Hm)|Hm].
            + rewrite Hm. apply Hb; auto.
            + rewrite Hm. specialize (Hb e1 (or_introl eq_refl)). lia. }
        lia.
      * (* the last stream is new *)
        assert (Hlast : exists s, In (N.of_nat (length Wn - 1), s) (r_index acc2)).
        { destruct (nth_error Wn (length Wn - 1)) as [s|] eqn:E; [|apply nth_error_None in E; lia].
          exists s. apply Hmem. right. exists (length Wn - 1 - n)%nat.
          replace (n + (length Wn - 1 - n))%nat with (length Wn - 1)%nat by lia. auto. }
        destruct Hlast as (s & Hs).
        pose proof (index_max_in _ 0 _ Hs) as Hge. simpl in Hge.
        assert (Hle : index_max (r_index acc2) + 1 <= N.of_nat (length Wn)).
        { unfold index_max.
          assert (fold_left (fun m e => N.max m (fst e)) (r_index acc2) 0 <= N.of_nat (length Wn) - 1).
          { apply index_max_le; [lia|]. intros e He. specialize (Hb e He). lia. }
          lia. }
        unfold index_max in *.
        destruct (N.leb_spec (N.of_nat n) (fold_left (fun m e => N.max m (fst e)) (r_index acc2) 0)); lia.
Qed.

(* ------------------------------------------------------------------ a sequence of imports *)
(* one step = (capture files of the batch, streams assembled by that FromPcap call) *)
Fixpoint run_batches (stack : list index) (steps : list (list N * factory)) : list index :=
  match steps with
  | [] => stack
  | (nf, W) :: r =>
      let '(res, _) := dump W nf stack (next_stream_id stack) (mkResult [] 0 [] [] []) in
      run_batches (publish stack (r_index res)) r
  end.

Inductive chain : factory -> list (list N * factory) -> Prop :=
| chain_nil : forall W, chain W []
| chain_cons : forall Wo nf Wn r, wf_factory Wn -> extends nf Wo Wn -> chain Wn r -> chain Wo ((nf, Wn) :: r).

Definition last_factory (W0 : factory) (steps : list (list N * factory)) : factory := last (map snd steps) W0.

Lemma last_default_irrelevant {A} : forall (l : list A) x d1 d2, last (x :: l) d1 = last (x :: l) d2.
Proof. induction l as [|y l IH]; intros x d1 d2; [reflexivity|]. change (last (y :: l) d1 = last (y :: l) d2). apply IH. Qed.

Lemma last_factory_cons W0 nf W r : last_factory W0 ((nf, W) :: r) = last_factory W r.
Proof.
  unfold last_factory. simpl. destruct (map snd r) as [|x l] eqn:E; auto.
  apply last_default_irrelevant.
Qed.

Lemma batches_inv : forall steps W0 stack,
  stack_inv stack W0 -> wf_factory W0 -> chain W0 steps ->
  stack_inv (run_batches stack steps) (last_factory W0 steps).
Proof.
  induction steps as [|[nf W] r IH]; intros W0 stack Hinv Hwf Hc; simpl.
  - exact Hinv.
  - inversion Hc as [|? ? ? ? Hwn Hex Hch]; subst.
    destruct (dump W nf stack (next_stream_id stack) (mkResult [] 0 [] [] [])) as [res nx'] eqn:Hd.
    destruct (import_step_inv nf stack W0 W Hinv Hwf Hwn Hex res nx' Hd) as [Hinv' _].
    rewrite last_factory_cons. apply IH; auto.
Qed.

Lemma stack_inv_empty : stack_inv [] [].
Proof.
  constructor.
  - intros ix id s [].
  - intros j sw H. destruct j; discriminate.
  - reflexivity.
Qed.

Lemma wf_factory_empty : wf_factory [].
Proof. constructor; intros; destruct j; try destruct i; discriminate. Qed.

Lemma newest_eq stack W id : stack_inv stack W -> newest stack id = nth_error W (N.to_nat id).
Proof.
  intros [Hids Hall Hnext].
  destruct (nth_error W (N.to_nat id)) as [sw|] eqn:E.
  - rewrite <- (N2Nat.id id). apply Hall. exact E.
  - destruct (newest stack id) as [s|] eqn:En; auto.
    destruct (newest_in _ _ _ En) as (ix & Hin & Hin2).
    destruct (Hids _ _ _ Hin Hin2) as (sw & Hsw & _). congruence.
Qed.

(* C08 theorem (2a): after any sequence of imports whose assembled stream lists extend each other
   (chronological arrival), a view shows under id j exactly the j-th stream of the last assembly. *)
Theorem batches_visible : forall steps id,
  chain [] steps ->
  newest (run_batches [] steps) id = nth_error (last_factory [] steps) (N.to_nat id).
Proof.
  intros steps id Hc. apply newest_eq. apply batches_inv; auto using stack_inv_empty, wf_factory_empty.
Qed.

(* C08 theorem (2b): hence every partition into batches gives the visible map of the one-shot import of
   all files, with the same ids. *)
Theorem batched_equals_oneshot : forall steps allfiles id,
  chain [] steps ->
  wf_factory (last_factory [] steps) -> extends allfiles [] (last_factory [] steps) ->
  newest (run_batches [] steps) id = newest (run_batches [] [(allfiles, last_factory [] steps)]) id.
Proof.
  intros steps allfiles id Hc Hwf Hex.
  rewrite batches_visible by auto.
  rewrite (batches_visible [(allfiles, last_factory [] steps)]).
  - reflexivity.
  - constructor; auto. constructor.
Qed.

(* C08 theorem (2c): an id once assigned stays on the same connection (identified by the source of its
   first packet) through all later imports. *)
Lemma chain_first_source : forall steps Wo j so,
  wf_factory Wo -> chain Wo steps -> nth_error Wo j = Some so ->
  exists sn, nth_error (last_factory Wo steps) j = Some sn /\ first_source sn = first_source so.
Proof.
  induction steps as [|[nf W] r IH]; intros Wo j so Hwf Hc Hj.
  - exists so. split; auto.
  - inversion Hc as [|? ? ? ? Hwn Hex Hch]; subst. rewrite last_factory_cons.
    destruct (ex_old _ _ _ Hex _ _ Hj) as (_ & sn & Hsn & Hcase).
    destruct (IH W j sn Hwn Hch Hsn) as (sl & Hsl & Hf). exists sl. split; auto.
    rewrite Hf. destruct Hcase as [->|(extra & _ & Hpk & _)]; auto.
    apply (first_source_app so sn extra); auto. exact (wf_nonempty _ Hwf _ _ Hj).
Qed.

Theorem ids_stable : forall steps1 steps2 id s,
  chain [] (steps1 ++ steps2) ->
  newest (run_batches [] steps1) id = Some s ->
  exists s', newest (run_batches [] (steps1 ++ steps2)) id = Some s' /\ first_source s' = first_source s.
Proof.
  intros steps1 steps2 id s Hc Hn.
  assert (Hc1 : forall l1 l2 W0, wf_factory W0 -> chain W0 (l1 ++ l2) ->
            chain W0 l1 /\ chain (last_factory W0 l1) l2 /\ wf_factory (last_factory W0 l1) /\
            last_factory W0 (l1 ++ l2) = last_factory (last_factory W0 l1) l2).
  { induction l1 as [|[nf W] l1 IHl]; intros l2 W0 Hwf H; simpl in *.
    - split; [constructor|]. split; [exact H|]. split; [exact Hwf|reflexivity].
    - inversion H as [|? ? ? ? Hwn Hex Hch]; subst. destruct (IHl l2 W Hwn Hch) as (A & B & C & D).
      rewrite !last_factory_cons. split; [constructor; auto|]. split; [exact B|]. split; [exact C|exact D]. }
  destruct (Hc1 steps1 steps2 [] wf_factory_empty Hc) as (C1 & C2 & Wf1 & El).
  rewrite batches_visible in Hn by auto.
  destruct (chain_first_source steps2 _ _ _ Wf1 C2 Hn) as (sn & Hsn & Hf).
  exists sn. split; auto. rewrite batches_visible by auto. rewrite El. exact Hsn.
Qed.

(* C08 theorem (2d): no connection has two visible ids. *)
Theorem ids_unique : forall steps id1 id2 s1 s2,
  chain [] steps -> wf_factory (last_factory [] steps) ->
  newest (run_batches [] steps) id1 = Some s1 -> newest (run_batches [] steps) id2 = Some s2 ->
  first_source s1 = first_source s2 -> id1 = id2.
Proof.
  intros steps id1 id2 s1 s2 Hc Hwf H1 H2 Hf.
  rewrite batches_visible in H1, H2 by auto.
  pose proof (wf_inj _ Hwf _ _ _ _ H1 H2 Hf). lia.
Qed.

(* ------------------------------------------------------------------ Import.import is such a step *)
(* When the builder holds no snapshot and fewer packets are fed than the snapshot interval, FromPcap
   (Import.import) is: assemble the feed, classify every stream with [dump], nothing else.  The feed is
   BuilderOrder.feed of ALL known captures and the new ones (C05: the global sort). *)
Section Link.
  Variable hashf : N -> N.
  Variable thr : N.
  Variable final_flush : bool.

  Definition written (fed : list packet) : factory :=
    let a := fold_left (asm_step hashf) fed asm0 in
    if final_flush then tcp_flush_all (a_fac a) (a_tcp a) else a_fac a.

  Lemma loop_no_snapshot : forall fed st best,
    l_nafter st + N.of_nat (length fed) <= thr ->
    l_asm (fold_left (loop_step hashf thr best) fed st) = fold_left (asm_step hashf) fed (l_asm st) /\
    l_snaps (fold_left (loop_step hashf thr best) fed st) = l_snaps st.
  Proof.
    induction fed as [|p fed IH]; intros st best Hle; simpl fold_left; [auto|].
    assert (Hlt : (thr <=? l_nafter st) = false) by (apply N.leb_gt; simpl length in Hle; lia).
    unfold loop_step at 2 4. rewrite Hlt. cbn [andb].
    match goal with |- context [fold_left _ fed ?s] => set (st' := s) end.
    assert (Hn : l_nafter st' <= l_nafter st + 1 /\ l_asm st' = asm_step hashf (l_asm st) p /\ l_snaps st' = l_snaps st).
    { unfold st'. destruct (negb (l_nafter st =? 0) || not_after best (p_ts p)); cbn; repeat split; lia. }
    destruct Hn as (Hn1 & Hn2 & Hn3).
    destruct (IH st' best) as [A B]; [simpl length in Hle; lia|].
    rewrite A, B, Hn2, Hn3. auto.
  Qed.

  Theorem import_without_snapshot_is_dump : forall b st newfiles stack i0 rest,
    b_snaps b = [] ->
    flat_map (fun f => match store_get st f with [] => [] | l => [info_of f l] end) newfiles = i0 :: rest ->
    let newfiles' := map pi_file (i0 :: rest) in
    let fed := feed (needed_pcaps b None newfiles' st) (flat_map (store_get st) newfiles') in
    N.of_nat (length fed) <= thr ->
    forall res nx', dump (written fed) newfiles' stack (next_stream_id stack) (mkResult [] 0 [] [] []) = (res, nx') ->
    import hashf thr final_flush b st newfiles stack =
      (mkBuilder (b_known b ++ i0 :: rest) [],
       Some (mkResult (r_index res) (nx' - next_stream_id stack) (r_upd res) (r_reset res) (r_added res))).
  Proof.
    intros b st newfiles stack i0 rest Hs Hinfos newfiles' fed Hlen res nx' Hd.
    unfold import. rewrite Hinfos, Hs. cbn [best_snapshot filter].
    fold newfiles'. fold fed.
    destruct (loop_no_snapshot fed (mkLoop asm0 0 None []) None) as [A B]; [simpl; lia|].
    cbn [l_asm l_snaps] in A, B. rewrite A, B.
    unfold written in Hd. rewrite Hd. reflexivity.
  Qed.
End Link.
