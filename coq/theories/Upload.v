(* C19 -- model of the upload / download file endpoints of cmd/pkappa2/main.go.

   Definitions only (computable, total).  Strings are lists of bytes (N).

   Part 1: path/filepath for Unix: Base, Clean, Join   (library, modelled; tied to the real
           functions by the `path` cases of the correspondence run).
   Part 2: the segment regular expressions of the chi route patterns: a Brzozowski
           derivative matcher over bytes (`.` = any byte but \n, `[^..]`, literals, seq, alt,
           star; `+` and `?` are derived forms).  The patterns themselves live in GenRoutes.v,
           regenerated from main.go by translate/c19 on every run.
   Part 3: the request decision of the two handlers: route match, guard, target path.
   Part 4: two concurrent uploads of one name: a small-step model of the handler body
           (open with the flags of the source, copy chunk by chunk, close, remove on error,
           queue for import), every step of either thread may be interleaved, every
           failure point is a parameter. *)
From Coq Require Import List NArith Bool.
Import ListNotations.
Open Scope N_scope.

Definition str := list N.

Definition SLASH : N := 47.
Definition DOT : N := 46.
Definition NL : N := 10.

Fixpoint str_eqb (a b : str) : bool :=
  match a, b with
  | [], [] => true
  | x :: a', y :: b' => (x =? y) && str_eqb a' b'
  | _, _ => false
  end.

Definition is_nil {A} (l : list A) : bool := match l with [] => true | _ => false end.
Definition has_slash (p : str) : bool := existsb (N.eqb SLASH) p.

(* ------------------------------------------------------------------ 1. path/filepath *)

(* for len(path) > 0 && path[len(path)-1] == '/' { path = path[:len(path)-1] } *)
Fixpoint strip_trailing (p : str) : str :=
  match p with
  | [] => []
  | c :: r => let r' := strip_trailing r in
              if (c =? SLASH) && is_nil r' then [] else c :: r'
  end.

(* path = path[lastSlash+1:] *)
Fixpoint last_seg (p : str) : str :=
  match p with
  | [] => []
  | c :: r => if has_slash r then last_seg r else if c =? SLASH then r else c :: r
  end.

(* filepath.Base *)
Definition base (p : str) : str :=
  match p with
  | [] => [DOT]
  | _ => match last_seg (strip_trailing p) with
         | [] => [SLASH]
         | q => q
         end
  end.

(* strings.Split(p, "/") *)
Fixpoint split_slash (p : str) : list str :=
  match p with
  | [] => [[]]
  | c :: r => if c =? SLASH then [] :: split_slash r
              else match split_slash r with
                   | h :: t => (c :: h) :: t
                   | [] => [[c]]
                   end
  end.

(* strings.Join(l, "/") *)
Fixpoint join_slash (l : list str) : str :=
  match l with
  | [] => []
  | [x] => x
  | x :: r => x ++ SLASH :: join_slash r
  end.

Definition is_dot (c : str) : bool := str_eqb c [DOT].
Definition is_dotdot (c : str) : bool := str_eqb c [DOT; DOT].

(* One component of Clean's scan; the stack holds the kept components, top first.
   empty and "." are skipped; ".." removes the previous component when there is one that
   is not itself "..", is dropped at the root, and is kept otherwise. *)
Definition clean_step (rooted : bool) (st : list str) (c : str) : list str :=
  if is_nil c || is_dot c then st
  else if is_dotdot c then
    match st with
    | top :: rest => if is_dotdot top then c :: st else rest
    | [] => if rooted then [] else [c]
    end
  else c :: st.

Definition is_rooted (p : str) : bool :=
  match p with c :: _ => c =? SLASH | [] => false end.

(* filepath.Clean *)
Definition clean (p : str) : str :=
  match p with
  | [] => [DOT]
  | _ =>
    let rooted := is_rooted p in
    let body := join_slash (rev (fold_left (clean_step rooted) (split_slash p) [])) in
    if rooted then SLASH :: body
    else if is_nil body then [DOT] else body
  end.

Fixpoint drop_empty (l : list str) : list str :=
  match l with
  | [] => []
  | x :: r => if is_nil x then drop_empty r else l
  end.

(* filepath.Join *)
Definition join (elems : list str) : str :=
  match drop_empty elems with
  | [] => []
  | l => clean (join_slash l)
  end.

(* "f directly below directory d", d being a result of Join (clean, or "") *)
Definition child (d f : str) : str :=
  if is_nil d || is_dot d then f
  else if str_eqb d [SLASH] then SLASH :: f
  else d ++ SLASH :: f.

(* ------------------------------------------------------------------ 2. segment regexps *)

Inductive re : Type :=
| Empty                (* matches nothing *)
| Eps                  (* "" *)
| Chr (c : N)          (* one literal byte *)
| AnyNoNL              (* `.`  (Go default flags: not \n) *)
| NotIn (l : list N)   (* [^...] over ASCII bytes *)
| OneOf (l : list N)   (* [...]  over ASCII bytes *)
| Seq (a b : re)
| Alt (a b : re)
| Star (a : re).

Definition Plus (a : re) : re := Seq a (Star a).
Definition Opt (a : re) : re := Alt a Eps.
Fixpoint Lit (s : str) : re :=
  match s with
  | [] => Eps
  | [c] => Chr c
  | c :: r => Seq (Chr c) (Lit r)
  end.

Definition memb (c : N) (l : list N) : bool := existsb (N.eqb c) l.

Fixpoint nullable (r : re) : bool :=
  match r with
  | Empty => false
  | Eps => true
  | Chr _ | AnyNoNL | NotIn _ | OneOf _ => false
  | Seq a b => nullable a && nullable b
  | Alt a b => nullable a || nullable b
  | Star _ => true
  end.

Definition mkSeq (a b : re) : re :=
  match a, b with
  | Empty, _ => Empty
  | _, Empty => Empty
  | Eps, _ => b
  | _, _ => Seq a b
  end.

Definition mkAlt (a b : re) : re :=
  match a, b with
  | Empty, _ => b
  | _, Empty => a
  | _, _ => Alt a b
  end.

Fixpoint deriv (c : N) (r : re) : re :=
  match r with
  | Empty | Eps => Empty
  | Chr d => if c =? d then Eps else Empty
  | AnyNoNL => if c =? NL then Empty else Eps
  | NotIn l => if memb c l then Empty else Eps
  | OneOf l => if memb c l then Eps else Empty
  | Seq a b => if nullable a then mkAlt (mkSeq (deriv c a) b) (deriv c b)
               else mkSeq (deriv c a) b
  | Alt a b => mkAlt (deriv c a) (deriv c b)
  | Star a => mkSeq (deriv c a) (Star a)
  end.

(* chi anchors the pattern: ^pat$ ; whole-string match *)
Definition re_match (r : re) (s : str) : bool := nullable (fold_left (fun r c => deriv c r) s r).

(* ------------------------------------------------------------------ 3. request decision *)

(* what the translator found in the handler before the path is built *)
Inductive guard : Type :=
| GuardNeBase   (* if filename != filepath.Base(filename) { 400; return } *)
| GuardNone.

Definition guard_ok (g : guard) (f : str) : bool :=
  match g with
  | GuardNeBase => str_eqb f (base f)
  | GuardNone => true
  end.

(* arguments of the filepath.Join call that builds the target *)
Inductive jarg : Type := JBaseDir | JPcapDir | JFilename.

Definition jarg_val (bd pd f : str) (a : jarg) : str :=
  match a with JBaseDir => bd | JPcapDir => pd | JFilename => f end.

Definition target (args : list jarg) (bd pd f : str) : str := join (map (jarg_val bd pd f) args).

(* the handler runs past its guard for parameter value f *)
Definition accept (g : guard) (r : re) (f : str) : bool := re_match r f && guard_ok g f.

Fixpoint strip_prefix (pre s : str) : option str :=
  match pre, s with
  | [], _ => Some s
  | p :: pre', c :: s' => if p =? c then strip_prefix pre' s' else None
  | _ :: _, [] => None
  end.

(* chi, for a pattern "<static prefix>{name:regexp}" at the end of the route: the rest of
   the route path is one non-empty segment without '/', matched against ^regexp$ *)
Definition route_match (pre : str) (r : re) (path : str) : option str :=
  match strip_prefix pre path with
  | Some seg => if negb (is_nil seg) && negb (has_slash seg) && re_match r seg then Some seg else None
  | None => None
  end.

(* The four strings whose exclusion cannot come from the guard: decided by computation
   for the generated pattern. *)
Definition route_excludes_special (r : re) : bool :=
  negb (re_match r []) && negb (re_match r [DOT]) && negb (re_match r [DOT; DOT]) && negb (re_match r [SLASH]).

Definition safe_name (f : str) : Prop :=
  f <> [] /\ f <> [DOT] /\ f <> [DOT; DOT] /\ ~ In SLASH f.

(* ------------------------------------------------------------------ 4. two uploads *)

Inductive oflag : Type := O_RDONLY | O_WRONLY | O_RDWR | O_APPEND | O_CREATE | O_EXCL | O_SYNC | O_TRUNC.

Definition oflag_eqb (a b : oflag) : bool :=
  match a, b with
  | O_RDONLY, O_RDONLY | O_WRONLY, O_WRONLY | O_RDWR, O_RDWR | O_APPEND, O_APPEND
  | O_CREATE, O_CREATE | O_EXCL, O_EXCL | O_SYNC, O_SYNC | O_TRUNC, O_TRUNC => true
  | _, _ => false
  end.

Definition has_flag (f : oflag) (l : list oflag) : bool := existsb (oflag_eqb f) l.

(* open(2): with O_CREAT|O_EXCL the call fails if the name exists *)
Definition exclusive_create (l : list oflag) : bool := has_flag O_CREATE l && has_flag O_EXCL l.

(* actions of the handler's branches, as found by the translator *)
Inductive act : Type := ACloseDst | ARemoveTarget | AImportName | ARespond | AReturn.

Record upload_handler : Type := {
  uh_guard : guard;
  uh_join : list jarg;
  uh_flags : list oflag;
  uh_open_err : list act;     (* OpenFile failed *)
  uh_copy_err : list act;     (* io.Copy failed *)
  uh_close_err : list act;    (* dst.Close failed *)
  uh_ok : list act            (* everything succeeded *)
}.

Definition act_eqb (a b : act) : bool :=
  match a, b with
  | ACloseDst, ACloseDst | ARemoveTarget, ARemoveTarget | AImportName, AImportName
  | ARespond, ARespond | AReturn, AReturn => true
  | _, _ => false
  end.

Fixpoint acts_eqb (a b : list act) : bool :=
  match a, b with
  | [], [] => true
  | x :: a', y :: b' => act_eqb x y && acts_eqb a' b'
  | _, _ => false
  end.

(* the control skeleton the thread model below follows *)
Definition skeleton_ok (h : upload_handler) : bool :=
  acts_eqb (uh_open_err h) [ARespond; AReturn]
  && acts_eqb (uh_copy_err h) [ARespond; ACloseDst; ARemoveTarget; AReturn]
  && acts_eqb (uh_close_err h) [ARespond; ARemoveTarget; AReturn]
  && acts_eqb (uh_ok h) [AImportName; ARespond].

(* thread = one upload request inside the handler, after the guard *)
Inductive pc : Type :=
| POpen
| PCopy (k : nat)     (* k chunks written *)
| PClose
| PQueue
| PErrClose           (* copy failed: close ... *)
| PErrRemove          (* ... then remove *)
| PDone (ok : bool).  (* response sent: 200 / 500 *)

Record plan : Type := {
  copy_fail : option nat;   (* io.Copy fails when k chunks are written *)
  close_fail : bool;
  remove_fail : bool
}.

(* the file of that name: content and (ghost) who created it; None = it existed before *)
Definition fsfile : Type := (list N * option bool)%type.

Record shared : Type := {
  file : option fsfile;
  queued : list bool;     (* ImportPcaps calls, by thread *)
  bad : bool              (* ghost: some step opened an existing file for writing, or wrote to /
                             removed a file its thread did not create *)
}.

Definition tid_eqb (a b : bool) : bool := Bool.eqb a b.
Definition created_by (t : bool) (f : fsfile) : bool :=
  match snd f with Some c => tid_eqb c t | None => false end.

Definition step_thread (excl : bool) (t : bool) (body : list N) (pl : plan) (sh : shared) (p : pc) : shared * pc :=
  match p with
  | POpen =>
    match file sh with
    | Some f =>
      if excl then (sh, PDone false)                         (* EEXIST *)
      else ({| file := Some ([], snd f); queued := queued sh; bad := true |}, PCopy 0)
    | None => ({| file := Some ([], Some t); queued := queued sh; bad := bad sh |}, PCopy 0)
    end
  | PCopy k =>
    if match copy_fail pl with Some k' => Nat.eqb k k' | None => false end then (sh, PErrClose)
    else
      match nth_error body k with
      | Some ch =>
        match file sh with
        | Some f => ({| file := Some (fst f ++ [ch], snd f); queued := queued sh;
                        bad := bad sh || negb (created_by t f) |}, PCopy (S k))
        | None => (sh, PCopy (S k))
        end
      | None => (sh, PClose)
      end
  | PClose => if close_fail pl then (sh, PErrRemove) else (sh, PQueue)
  | PQueue => ({| file := file sh; queued := queued sh ++ [t]; bad := bad sh |}, PDone true)
  | PErrClose => (sh, PErrRemove)
  | PErrRemove =>
    if remove_fail pl then (sh, PDone false)
    else match file sh with
         | Some f => ({| file := None; queued := queued sh; bad := bad sh || negb (created_by t f) |}, PDone false)
         | None => (sh, PDone false)
         end
  | PDone _ => (sh, p)
  end.

Record world : Type := { w_sh : shared; w_pc1 : pc; w_pc2 : pc }.

Record setup : Type := {
  s_excl : bool;
  s_body1 : list N; s_body2 : list N;
  s_plan1 : plan; s_plan2 : plan
}.

(* thread `true` is upload 1, `false` is upload 2 *)
Definition step (su : setup) (w : world) (t : bool) : world :=
  if t then
    let '(sh, p) := step_thread (s_excl su) true (s_body1 su) (s_plan1 su) (w_sh w) (w_pc1 w) in
    {| w_sh := sh; w_pc1 := p; w_pc2 := w_pc2 w |}
  else
    let '(sh, p) := step_thread (s_excl su) false (s_body2 su) (s_plan2 su) (w_sh w) (w_pc2 w) in
    {| w_sh := sh; w_pc1 := w_pc1 w; w_pc2 := p |}.

Definition init (pre : option (list N)) : world :=
  {| w_sh := {| file := match pre with Some c => Some (c, None) | None => None end; queued := []; bad := false |};
     w_pc1 := POpen; w_pc2 := POpen |}.

Definition run (su : setup) (pre : option (list N)) (sched : list bool) : world :=
  fold_left (step su) sched (init pre).

Definition finished (p : pc) : bool := match p with PDone _ => true | _ => false end.

(* ---- executable exploration for the correspondence run: all schedules of a given length *)
Fixpoint all_scheds (n : nat) : list (list bool) :=
  match n with
  | O => [[]]
  | S n' => flat_map (fun s => [true :: s; false :: s]) (all_scheds n')
  end.

(* observable outcome of a finished run: status of 1, status of 2, final file: 0 absent,
   1 the pre-existing content, 2 body of 1, 3 body of 2, 4 anything else; queue; bad *)
Definition list_eqb (a b : list N) : bool := str_eqb a b.

Definition outcome (su : setup) (pre : option (list N)) (w : world) : option (bool * bool * N * list bool * bool) :=
  match w_pc1 w, w_pc2 w with
  | PDone a, PDone b =>
    let fcode :=
      match file (w_sh w) with
      | None => 0
      | Some (c, None) => match pre with Some c0 => if list_eqb c c0 then 1 else 4 | None => 4 end
      | Some (c, Some true) => if list_eqb c (s_body1 su) then 2 else 4
      | Some (c, Some false) => if list_eqb c (s_body2 su) then 3 else 4
      end in
    Some (a, b, fcode, queued (w_sh w), bad (w_sh w))
  | _, _ => None
  end.

Definition outcomes (su : setup) (pre : option (list N)) (n : nat) : list (option (bool * bool * N * list bool * bool)) :=
  map (fun s => outcome su pre (run su pre s)) (all_scheds n).
