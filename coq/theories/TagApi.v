(* C11 -- executable model of the tag management API of
   internal/index/manager/manager.go (AddTag, DelTag, UpdateTag with its six
   exported operations, inheritTagUncertainty), written after the Go code WITH
   the patches fixes/C11-1..4 applied (validate before mutating).  The order
   of the checks follows the code.  The unpatched UpdateTag is modelled as
   [update_query_orig] for the _refuted witnesses.

   What is abstracted:
   - a definition is its text plus the result of query.Parse on it (environment
     function [parse], supplied by the harness from the real parser): referenced
     main / sub-query tags, "uses a data filter", "uses a relative time",
     "has grouping", and for id-only queries the set of stream ids
     (ConditionsSet.StreamIDs with the current nextStreamID);
   - Matches is tracked for id-only definitions only (value at quiescence);
   - Go maps are association lists with unique keys; `for k := range m { m[k].f = … }`
     loops whose bodies are independent per key are written as one map over the
     table, guarded by the presence check whose failure is a nil dereference in Go
     ([Crash]);
   - converter processes / cache files: detach and attach never fail for I/O reasons.
   Definitions only; proofs are in TagApiProofs.v. *)
From Coq Require Import List String Ascii Bool NArith Arith.
Import ListNotations.
Open Scope string_scope.
Open Scope list_scope.

Definition name := string.

Definition mem_s (n : name) (l : list name) : bool := existsb (String.eqb n) l.
Definition add_name (n : name) (l : list name) : list name := if mem_s n l then l else n :: l.
Definition rem_name (n : name) (l : list name) : list name := filter (fun x => negb (String.eqb x n)) l.
Definition nonempty {A} (l : list A) : bool := match l with [] => false | _ => true end.
Definition mem_n (x : N) (l : list N) : bool := existsb (N.eqb x) l.

(* ---------------------------------------------------------------- parser environment *)
Record parsed := mkParsed {
  p_main : list name;        (* Features().MainTags *)
  p_sub : list name;         (* Features().SubQueryTags *)
  p_data : bool;             (* (MainFeatures|SubQueryFeatures) & FeatureFilterData *)
  p_rel : bool;              (* ... & FeatureFilterTimeRelative *)
  p_group : bool;            (* q.Grouping != nil *)
  p_ids : option (list N)    (* Conditions.StreamIDs(nextStreamID): Some ids iff id-only *)
}.
Inductive parse_result := PErr | POk (p : parsed).

(* ---------------------------------------------------------------- tags *)
Record tag := mkTag {
  t_def : string;
  t_main : list name;
  t_sub : list name;
  t_data : bool;
  t_color : string;
  t_convs : list name;
  t_refby : list name;
  t_matches : list N;
  t_unc : list N
}.

(* tag.referencedTags(): the set MainTags u SubQueryTags *)
Definition refs (t : tag) : list name := nodup string_dec (t_main t ++ t_sub t).

Definition tags_t := list (name * tag).

Fixpoint get (ts : tags_t) (n : name) : option tag :=
  match ts with
  | [] => None
  | (k, v) :: r => if String.eqb k n then Some v else get r n
  end.
Definition has (ts : tags_t) (n : name) : bool := match get ts n with Some _ => true | None => false end.
Fixpoint set (ts : tags_t) (n : name) (t : tag) : tags_t :=
  match ts with
  | [] => [(n, t)]
  | (k, v) :: r => if String.eqb k n then (k, t) :: r else (k, v) :: set r n t
  end.
Definition del (ts : tags_t) (n : name) : tags_t := filter (fun kv => negb (String.eqb (fst kv) n)) ts.
Definition map_tags (f : name -> tag -> tag) (ts : tags_t) : tags_t := map (fun kv => (fst kv, f (fst kv) (snd kv))) ts.
Definition keys (ts : tags_t) : list name := map fst ts.

Definition with_refby (t : tag) (l : list name) : tag :=
  mkTag (t_def t) (t_main t) (t_sub t) (t_data t) (t_color t) (t_convs t) l (t_matches t) (t_unc t).
Definition with_color (t : tag) (c : string) : tag :=
  mkTag (t_def t) (t_main t) (t_sub t) (t_data t) c (t_convs t) (t_refby t) (t_matches t) (t_unc t).
Definition with_convs (t : tag) (l : list name) : tag :=
  mkTag (t_def t) (t_main t) (t_sub t) (t_data t) (t_color t) l (t_refby t) (t_matches t) (t_unc t).
Definition with_unc (t : tag) (u : list N) : tag :=
  mkTag (t_def t) (t_main t) (t_sub t) (t_data t) (t_color t) (t_convs t) (t_refby t) (t_matches t) u.
Definition with_marks (t : tag) (m u : list N) : tag :=
  mkTag (t_def t) (t_main t) (t_sub t) (t_data t) (t_color t) (t_convs t) (t_refby t) m u.

Record state := mkState {
  tags : tags_t;
  convs : list name;     (* mgr.converters: the converter executables present *)
  next_id : N            (* mgr.nextStreamID *)
}.
Definition with_tags (st : state) (ts : tags_t) : state := mkState ts (convs st) (next_id st).

Fixpoint upto (n : nat) : list N := match n with O => [] | S k => upto k ++ [N.of_nat k] end.
Definition all_streams (st : state) : list N := upto (N.to_nat (next_id st)).

(* ---------------------------------------------------------------- names *)
(* strings.Cut(s, "/") *)
Fixpoint cut (s : string) : option (string * string) :=
  match s with
  | EmptyString => None
  | String c r =>
      if Ascii.eqb c "/"%char then Some (EmptyString, r)
      else match cut r with Some (a, b) => Some (String c a, b) | None => None end
  end.

(* parseTagName *)
Definition parse_tag_name (full : string) : string * string * bool :=
  match cut full with
  | None => ("", "", false)
  | Some (typ, sub) =>
      let is_mark := String.eqb typ "mark" || String.eqb typ "generated" in
      if negb (String.eqb typ "tag") && negb (String.eqb typ "service") && negb is_mark
      then ("", "", false) else (typ, sub, is_mark)
  end.

(* ---------------------------------------------------------------- results *)
Inductive err :=
  EBadName | EEmptySub | ERetype | EParse | ERelTime | EGrouping | ESelfRef | ECycle | EMarkNotId
| EExists | EUnknownRef | EUnknownTag | EUnknownConv | EUnknownStream | ENotMark | EReferenced | EComplex
| ESaveState.
Inductive result := Ok | Err (e : err) | Crash | Hang.

(* ---------------------------------------------------------------- inheritTagUncertainty *)
Definition union_n (a b : list N) : list N := a ++ filter (fun x => negb (mem_n x a)) b.

(* (table, resolvedTags) *)
Definition walk := (tags_t * list name)%type.

(* body of the inner `for tn, ti := range mgr.tags` for one key.  `mgr.tags[rtn].Uncertain`
   is only evaluated for references that are in resolvedTags, hence present: a missing
   referenced tag makes the loop spin, it does not crash. *)
Definition inherit_visit (all : list N) (w : walk) (n : name) : walk :=
  let '(ts, res) := w in
  match get ts n with
  | None => w
  | Some ti =>
      if mem_s n res then w
      else if negb (forallb (fun r => mem_s r res) (refs ti)) then w
      else
        let res' := n :: res in
        if negb (nonempty (t_main ti)) && negb (nonempty (t_sub ti)) then (ts, res')
        else
          let unc_of r := match get ts r with Some tr => t_unc tr | None => [] end in
          if existsb (fun r => nonempty (unc_of r)) (t_sub ti)
          then (set ts n (with_unc ti all), res')
          else (set ts n (with_unc ti (fold_left (fun u r => union_n u (unc_of r)) (t_main ti) (t_unc ti))), res')
  end.

Definition all_resolved (ts : tags_t) (res : list name) : bool := forallb (fun k => mem_s k res) (keys ts).

(* `for len(resolvedTags) != len(mgr.tags) { one pass over the map }`; the pass visits the
   keys in table order (Go: unspecified order).  Out of fuel (None) = the loop did not end. *)
Fixpoint inherit_loop (fuel : nat) (all : list N) (ts : tags_t) (res : list name) : option walk :=
  if all_resolved ts res then Some (ts, res)
  else match fuel with
       | O => None
       | S f => let '(ts', res') := fold_left (inherit_visit all) (keys ts) (ts, res) in inherit_loop f all ts' res'
       end.

Definition inherit_uncertainty (all : list N) (ts : tags_t) : option walk :=
  inherit_loop (List.length ts) all ts [].

(* ---------------------------------------------------------------- AddTag *)
Definition ids_or_nil (p : parsed) : list N := match p_ids p with Some l => l | None => [] end.
Definition is_some {A} (o : option A) : bool := match o with Some _ => true | None => false end.

Definition add_tag (parse : string -> parse_result) (st : state) (nm color qs : string) : result * state :=
  let '(typ, sub, is_mark) := parse_tag_name nm in
  if String.eqb typ "" then (Err EBadName, st)
  else if String.eqb sub "" then (Err EEmptySub, st)
  else match parse qs with
  | PErr => (Err EParse, st)
  | POk p =>
      if p_rel p then (Err ERelTime, st)
      else if p_group p then (Err EGrouping, st)
      else
        let nt := mkTag qs (p_main p) (p_sub p) (p_data p) color [] [] (ids_or_nil p)
                        (if is_mark then [] else all_streams st) in
        if mem_s nm (refs nt) then (Err ESelfRef, st)
        else if is_mark && negb (is_some (p_ids p)) then (Err EMarkNotId, st)
        (* inside the service loop *)
        else if has (tags st) nm then (Err EExists, st)
        else if negb (forallb (has (tags st)) (refs nt)) then (Err EUnknownRef, st)
        else
          let ts1 := set (tags st) nm nt in
          (* for _, tn := range nt.referencedTags() { mgr.tags[tn].referencedBy[name] = {} } *)
          if negb (forallb (has ts1) (refs nt)) then (Crash, st)
          else (Ok, with_tags st (map_tags (fun k t => if mem_s k (refs nt) then with_refby t (add_name nm (t_refby t)) else t) ts1))
  end.

(* ---------------------------------------------------------------- DelTag *)
Definition del_tag (st : state) (nm : string) : result * state :=
  match get (tags st) nm with
  | None => (Err EUnknownTag, st)
  | Some tg =>
      if nonempty (t_refby tg) then (Err EReferenced, st)
      else
        let ts1 := del (tags st) nm in
        if negb (forallb (has ts1) (refs tg)) then (Crash, st)
        else (Ok, with_tags st (map_tags (fun k t => if mem_s k (refs tg) then with_refby t (rem_name nm (t_refby t)) else t) ts1))
  end.

(* ---------------------------------------------------------------- UpdateTag *)
Inductive update_op :=
  UColor (c : string) | UQuery (qs : string) | UName (nn : string) | UConv (l : list name)
| UMarkAdd (l : list N) | UMarkDel (l : list N).

(* the reference walk added by fixes/C11-1: all tags reachable from the new references must
   exist and must not contain the updated tag itself.  [todo] is the Go slice used as a stack
   (head = last element). *)
Inductive dfs_result := DOk (seen : list name) | DCycle | DUnknown | DFuel.
Fixpoint dfs (fuel : nat) (ts : tags_t) (nm : name) (todo seen : list name) : dfs_result :=
  match fuel with
  | O => DFuel
  | S f =>
      match todo with
      | [] => DOk seen
      | tn :: rest =>
          if String.eqb tn nm then DCycle
          else if mem_s tn seen then dfs f ts nm rest seen
          else match get ts tn with
               | None => DUnknown
               | Some t => dfs f ts nm (refs t ++ rest) (tn :: seen)
               end
      end
  end.
Definition edge_count (ts : tags_t) : nat := fold_right (fun kv a => List.length (refs (snd kv)) + a) 0 ts.
Definition dfs_fuel (ts : tags_t) (todo : list name) : nat := S (List.length todo + edge_count ts).


Definition complex (t : tag) : bool := t_data t || nonempty (t_main t) || nonempty (t_sub t).

(* re-point the reverse references after the definition of [nm] changed from [old] to [new] refs *)
Definition retarget (nm : name) (old new : list name) (k : name) (t : tag) : tag :=
  if mem_s k old && negb (mem_s k new) then with_refby t (rem_name nm (t_refby t))
  else if mem_s k new && negb (mem_s k old) then with_refby t (add_name nm (t_refby t))
  else t.

Definition after_inherit (st : state) (ts : tags_t) (k : tags_t -> tags_t) : result * state :=
  match inherit_uncertainty (all_streams st) ts with
  | None => (Hang, st)
  | Some (ts', _) => (Ok, with_tags st (k ts'))
  end.

Definition update_query (parse : string -> parse_result) (st : state) (nm qs : string) : result * state :=
  match parse qs with
  | PErr => (Err EParse, st)
  | POk p =>
      if p_rel p then (Err ERelTime, st)
      else if p_group p then (Err EGrouping, st)
      else
        let nt0 := mkTag qs (p_main p) (p_sub p) (p_data p) "" [] [] (ids_or_nil p) (all_streams st) in
        if mem_s nm (refs nt0) then (Err ESelfRef, st)
        else if snd (parse_tag_name nm) && negb (is_some (p_ids p)) then (Err EMarkNotId, st)
        (* inside the service loop *)
        else match get (tags st) nm with
        | None => (Err EUnknownTag, st)
        | Some tg =>
            match dfs (dfs_fuel (tags st) (refs nt0)) (tags st) nm (refs nt0) [] with
            | DCycle => (Err ECycle, st)
            | DUnknown => (Err EUnknownRef, st)
            | DFuel => (Hang, st)
            | DOk _ =>
                let nt := mkTag qs (p_main p) (p_sub p) (p_data p) (t_color tg) (t_convs tg) (t_refby tg)
                                (ids_or_nil p) (all_streams st) in
                (* fixes/C11-4: the tag keeps its converters, the new query must stay attachable *)
                if nonempty (t_convs tg) && complex nt then (Err EComplex, st)
                else if negb (forallb (has (tags st)) (refs tg ++ refs nt)) then (Crash, st)
                else
                  let ts1 := map_tags (retarget nm (refs tg) (refs nt)) (tags st) in
                  after_inherit st (set ts1 nm nt) (fun x => x)
            end
        end
  end.

(* the unpatched code: no existence / cycle check before the table is changed *)
Definition update_query_orig (parse : string -> parse_result) (st : state) (nm qs : string) : result * state :=
  match parse qs with
  | PErr => (Err EParse, st)
  | POk p =>
      if p_rel p then (Err ERelTime, st)
      else if p_group p then (Err EGrouping, st)
      else
        let nt0 := mkTag qs (p_main p) (p_sub p) (p_data p) "" [] [] (ids_or_nil p) (all_streams st) in
        if mem_s nm (refs nt0) then (Err ESelfRef, st)
        else if String.prefix "mark/" nm && negb (is_some (p_ids p)) then (Err EMarkNotId, st)
        else match get (tags st) nm with
        | None => (Err EUnknownTag, st)
        | Some tg =>
            let nt := mkTag qs (p_main p) (p_sub p) (p_data p) (t_color tg) (t_convs tg) (t_refby tg)
                            (ids_or_nil p) (all_streams st) in
            if negb (forallb (has (tags st)) (refs tg ++ refs nt)) then (Crash, st)
            else
              let ts1 := map_tags (retarget nm (refs tg) (refs nt)) (tags st) in
              after_inherit st (set ts1 nm nt) (fun x => x)
        end
  end.

Definition update_color (st : state) (nm c : string) : result * state :=
  match get (tags st) nm with
  | None => (Err EUnknownTag, st)
  | Some tg => if String.eqb c "" then (Ok, st) else (Ok, with_tags st (set (tags st) nm (with_color tg c)))
  end.

Definition update_name (st : state) (nm nn : string) : result * state :=
  match get (tags st) nm with
  | None => (Err EUnknownTag, st)
  | Some tg =>
      if String.eqb nn "" then (Ok, st)   (* info.name == "": no rename requested *)
      else
        let '(otyp, _, _) := parse_tag_name nm in
        let '(ntyp, nsub, _) := parse_tag_name nn in
        if negb (String.eqb ntyp otyp) then (Err ERetype, st)
        else if String.eqb nsub "" then (Err EEmptySub, st)
        else if has (tags st) nn then (Err EExists, st)
        else if nonempty (t_refby tg) then (Err EReferenced, st)
        else
          let ts1 := set (del (tags st) nm) nn tg in
          if negb (forallb (has ts1) (refs tg)) then (Crash, st)
          else (Ok, with_tags st (map_tags (fun k t => if mem_s k (refs tg) then with_refby t (add_name nn (rem_name nm (t_refby t))) else t) ts1))
  end.

Definition update_convs (st : state) (nm : string) (l : list name) : result * state :=
  match get (tags st) nm with
  | None => (Err EUnknownTag, st)
  | Some tg =>
      let fresh := filter (fun c => negb (mem_s c (t_convs tg))) l in
      if negb (forallb (fun c => mem_s c (convs st)) fresh) then (Err EUnknownConv, st)
      else if nonempty fresh && complex tg then (Err EComplex, st)
      else
        let kept := filter (fun c => mem_s c l) (t_convs tg) in
        let cs := fold_left (fun acc c => if mem_s c acc then acc else acc ++ [c]) l kept in
        (Ok, with_tags st (set (tags st) nm (with_convs tg cs)))
  end.

Definition update_marks (st : state) (nm : string) (add : bool) (l : list N) : result * state :=
  if negb (nonempty l) then
    match get (tags st) nm with None => (Err EUnknownTag, st) | Some _ => (Ok, st) end
  else if negb (String.prefix "mark/" nm || String.prefix "generated/" nm) then (Err ENotMark, st)
  else match get (tags st) nm with
  | None => (Err EUnknownTag, st)
  | Some tg =>
      if existsb (fun s => N.leb (next_id st) s) l then (Err EUnknownStream, st)
      else
        let touched := filter (fun s => if add then negb (mem_n s (t_matches tg)) else mem_n s (t_matches tg)) l in
        let m := if add then union_n (t_matches tg) l else filter (fun s => negb (mem_n s l)) (t_matches tg) in
        let nt := with_marks tg m (union_n (t_unc tg) touched) in
        after_inherit st (set (tags st) nm nt)
          (fun ts' => match get ts' nm with Some t => set ts' nm (with_unc t []) | None => ts' end)
  end.

Definition update_tag (parse : string -> parse_result) (st : state) (nm : string) (op : update_op) : result * state :=
  match op with
  | UColor c => update_color st nm c
  | UQuery qs => update_query parse st nm qs
  | UName nn => update_name st nm nn
  | UConv l => update_convs st nm l
  | UMarkAdd l => update_marks st nm true l
  | UMarkDel l => update_marks st nm false l
  end.

(* ---------------------------------------------------------------- the API as one step function *)
Inductive call :=
  CAdd (nm color qs : string) | CDel (nm : string) | CUpd (nm : string) (op : update_op).

Definition step (parse : string -> parse_result) (st : state) (c : call) : result * state :=
  match c with
  | CAdd nm color qs => add_tag parse st nm color qs
  | CDel nm => del_tag st nm
  | CUpd nm op => update_tag parse st nm op
  end.

Definition run (parse : string -> parse_result) (st : state) (cs : list call) : state :=
  fold_left (fun s c => snd (step parse s c)) cs st.

Definition init_state (cv : list name) (next : N) : state := mkState [] cv next.

(* the same with the unpatched query update, for the refuted witnesses *)
Definition step_orig (parse : string -> parse_result) (st : state) (c : call) : result * state :=
  match c with
  | CUpd nm (UQuery qs) => update_query_orig parse st nm qs
  | _ => step parse st c
  end.

(* I/O failure of the state file.  Every successful path of the three API functions ends in
   `return mgr.saveState()`: when that fails the caller gets the error, the tag table keeps the
   change (there is no rollback).  [step] is the API with a state directory that works. *)
Definition step_savefail (parse : string -> parse_result) (st : state) (c : call) : result * state :=
  match step parse st c with
  | (Ok, st') => (Err ESaveState, st')
  | x => x
  end.

(* ---------------------------------------------------------------- a tagging job in flight *)
(* startTaggingJobIfNeeded hands a COPY of the tag to updateTagJob; the job evaluates it outside the
   service loop while API calls go on; its completion closure stores the copy back unless the tag is
   gone or has another definition, after taking colour, converters and referencedBy from the stored
   tag (they can change while the job runs).  Matches / Uncertain of the copy are not modelled here:
   the completed tag keeps the stored matches and is certain. *)
Definition complete_job (st : state) (nm : name) (snap : tag) : state :=
  match get (tags st) nm with
  | Some ot =>
      if String.eqb (t_def ot) (t_def snap)
      then with_tags st (set (tags st) nm
             (mkTag (t_def snap) (t_main snap) (t_sub snap) (t_data snap)
                    (t_color ot) (t_convs ot) (t_refby ot) (t_matches ot) []))
      else st
  | None => st
  end.

(* seeded change C11-r4c-n1: referencedBy is NOT taken over from the stored tag *)
Definition complete_job_keep_refby (st : state) (nm : name) (snap : tag) : state :=
  match get (tags st) nm with
  | Some ot =>
      if String.eqb (t_def ot) (t_def snap)
      then with_tags st (set (tags st) nm
             (mkTag (t_def snap) (t_main snap) (t_sub snap) (t_data snap)
                    (t_color ot) (t_convs ot) (t_refby snap) (t_matches ot) []))
      else st
  | None => st
  end.

Record jstate := mkJ { js : state; job : option (name * tag) }.
Inductive jev :=
| JCall (c : call)       (* an API call *)
| JStart (nm : name)     (* a tagging job starts for tag nm (any tag: Go picks one that is ready) *)
| JDone.                 (* the completion closure of the job in flight runs *)

Definition jstep (parse : string -> parse_result) (s : jstate) (e : jev) : jstate :=
  match e with
  | JCall c => mkJ (snd (step parse (js s) c)) (job s)
  | JStart nm =>
      match job s, get (tags (js s)) nm with
      | None, Some t => mkJ (js s) (Some (nm, t))
      | _, _ => s
      end
  | JDone =>
      match job s with
      | Some (nm, snap) => mkJ (complete_job (js s) nm snap) None
      | None => s
      end
  end.
Definition jstep_seeded (parse : string -> parse_result) (s : jstate) (e : jev) : jstate :=
  match e with
  | JDone =>
      match job s with
      | Some (nm, snap) => mkJ (complete_job_keep_refby (js s) nm snap) None
      | None => s
      end
  | _ => jstep parse s e
  end.
Definition jrun (parse : string -> parse_result) (cv : list name) (next : N) (es : list jev) : jstate :=
  fold_left (jstep parse) es (mkJ (init_state cv next) None).

(* ---------------------------------------------------------------- the definition of a mark tag *)
(* UpdateTag rewrites the definition TEXT of a mark tag: MarkAddStream appends the newly marked ids to
   the id list (or renders the list from the matches when the text is not a plain list, fixes/C12-2),
   MarkDelStream renders the list from the matches.  A restart rebuilds the matches from that text.
   Modelled at the level of the id list the text denotes; that the decimal text denotes that list is
   checked on the real code through the real parser (oracle of checks/c11.py, restart oracle of C12). *)
Record markdef := mkMD { md_ids : list N; md_matches : list N }.
Inductive markop := MAdd (l : list N) | MDel (l : list N).

Definition md_add_one (m : markdef) (s : N) : markdef :=
  if mem_n s (md_matches m) then m else mkMD (md_ids m ++ [s]) (s :: md_matches m).
Definition md_step (m : markdef) (o : markop) : markdef :=
  match o with
  | MAdd l => fold_left md_add_one l m
  | MDel l => let ms := filter (fun s => negb (mem_n s l)) (md_matches m) in mkMD ms ms
  end.
Definition md_init (ids : list N) : markdef := mkMD ids ids.
