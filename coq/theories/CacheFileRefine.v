(* Refinement of the cacheFile object to a map stream -> (first-packet time, chunks) (C15). *)
From Coq Require Import NArith ZArith List Bool Lia ZifyBool ZifyN ZifyNat Permutation.
Require Import Pk.CacheFile Pk.CacheFileProofs Pk.CacheFileRecord Pk.CacheFileCts Pk.CacheFileRoundtrip
               Pk.CacheFileState Pk.CacheFileOps Pk.CacheFileOpen.
Import ListNotations.
Open Scope N_scope.

(* ------------------------------------------------------------------ *)
(* observers are functions of the record list                           *)
(* ------------------------------------------------------------------ *)
Fixpoint body_at (rs : list rec) (id : N) : option (list N) :=
  match rs with
  | [] => None
  | r :: rest => if (fst r =? id) && negb (is_tomb r) then Some (snd r) else body_at rest id
  end.

Lemma find_live_body : forall rs off id,
  match find_live rs off id with
  | Some (o, sz) => exists body a b, body_at rs id = Some body /\ sz = len body /\
                                     rs = a ++ (id, body) :: b /\ o = off + len (flat a) + 8
  | None => body_at rs id = None
  end.
Proof.
  induction rs as [|r rs IH]; intros off id; cbn [find_live body_at]; [reflexivity|].
  destruct ((fst r =? id) && negb (is_tomb r)) eqn:E.
  - apply andb_prop in E. destruct E as [E1 _]. apply N.eqb_eq in E1. destruct r as [i body]. cbn [fst snd] in *. subst i.
    exists body, [], rs. cbn [app flat]. rewrite len_nil, N.add_0_r. repeat split; reflexivity.
  - specialize (IH (off + rec_size r) id). destruct (find_live rs (off + rec_size r) id) as [[o sz]|]; [|assumption].
    destruct IH as (body & a & b & Hb & Hsz & Hrs & Ho). exists body, (r :: a), b.
    split; [exact Hb|]. split; [exact Hsz|]. split; [rewrite Hrs; reflexivity|]. rewrite flat_len_cons. lia.
Qed.

Definition dec_result (t0 : Z) (body : option (list N)) : result (list chunk * N * N) :=
  match body with
  | None => Absent
  | Some b => match decode_record t0 b with Some x => Ok x | None => Failed end
  end.
Definition search_result (body : option (list N)) : result (list N * list N * list (N * N) * N * N) :=
  match body with
  | None => Absent
  | Some b => match decode_search b with Some x => Ok x | None => Failed end
  end.

Theorem inv_data : forall st rs id t0, Inv st rs -> data st id t0 = dec_result t0 (body_at rs id).
Proof.
  intros st rs id t0 HI. unfold data. rewrite (inv_infos _ _ HI).
  pose proof (find_live_body rs 8 id) as H. destruct (find_live rs 8 id) as [[o sz]|].
  - destruct H as (body & a & b & Hb & -> & Hrs & ->). rewrite Hb. cbn [dec_result].
    rewrite (section_body st rs a id body b HI Hrs). reflexivity.
  - rewrite H. reflexivity.
Qed.

Theorem inv_search : forall st rs id, Inv st rs -> data_for_search st id = search_result (body_at rs id).
Proof.
  intros st rs id HI. unfold data_for_search. rewrite (inv_infos _ _ HI).
  pose proof (find_live_body rs 8 id) as H. destruct (find_live rs 8 id) as [[o sz]|].
  - destruct H as (body & a & b & Hb & -> & Hrs & ->). rewrite Hb. cbn [search_result].
    rewrite (section_body st rs a id body b HI Hrs). reflexivity.
  - rewrite H. reflexivity.
Qed.

Theorem inv_contains : forall st rs id, Inv st rs ->
  contains st id = match body_at rs id with Some _ => true | None => false end.
Proof.
  intros st rs id HI. unfold contains. rewrite (inv_infos _ _ HI).
  pose proof (find_live_body rs 8 id) as H. destruct (find_live rs 8 id) as [[o sz]|].
  - destruct H as (body & a & b & Hb & _). rewrite Hb. reflexivity.
  - rewrite H. reflexivity.
Qed.

Lemma body_at_in : forall rs id, body_at rs id <> None <-> In id (map fst (live rs)).
Proof.
  induction rs as [|r rs IH]; intros id; cbn [body_at live filter]; [cbn; tauto|].
  destruct (negb (is_tomb r)) eqn:Et.
  - rewrite andb_true_r. cbn [map fst]. destruct (fst r =? id) eqn:Ei.
    + apply N.eqb_eq in Ei. split; [intros _; left; assumption | intros _; discriminate].
    + apply N.eqb_neq in Ei. rewrite IH. split; [intros H; right; assumption | intros [H|H]; [congruence|assumption]].
  - rewrite andb_false_r. apply IH.
Qed.

Lemma same_length : forall (l1 l2 : list N), NoDup l1 -> NoDup l2 -> (forall x, In x l1 <-> In x l2) -> length l1 = length l2.
Proof. intros. apply Permutation_length. apply NoDup_Permutation; assumption. Qed.

Theorem inv_count : forall st rs, Inv st rs -> stream_count st = N.of_nat (length (live rs)).
Proof.
  intros st rs HI. unfold stream_count. f_equal.
  rewrite <- (map_length fst (st_infos st)), <- (map_length fst (live rs)).
  apply same_length; [exact (inv_nodup_infos _ _ HI) | exact (inv_nodup_live _ _ HI) |].
  intros id. rewrite <- body_at_in. pose proof (find_live_body rs 8 id) as H. rewrite <- (inv_infos _ _ HI) in H.
  split.
  - intros Hin. destruct (lookup (st_infos st) id) as [[o sz]|] eqn:E.
    + destruct H as (body & _ & _ & Hb & _). congruence.
    + apply lookup_none_keys in E. contradiction.
  - intros Hb. destruct (lookup (st_infos st) id) as [[o sz]|] eqn:E; [eapply lookup_in_keys; exact E | contradiction].
Qed.

(* ------------------------------------------------------------------ *)
(* body_at under the record-list operations                             *)
(* ------------------------------------------------------------------ *)
Lemma body_at_live : forall rs id, body_at (live rs) id = body_at rs id.
Proof.
  induction rs as [|r rs IH]; intros id; [reflexivity|]. cbn [live filter body_at].
  destruct (is_tomb r) eqn:Et; cbn [negb].
  - rewrite andb_false_r. apply IH.
  - cbn [body_at]. rewrite Et. cbn [negb]. destruct ((fst r =? id) && true); [reflexivity|apply IH].
Qed.

Lemma body_at_none_notin : forall rs id, ~ In id (map fst (live rs)) -> body_at rs id = None.
Proof. intros rs id H. destruct (body_at rs id) eqn:E; [|reflexivity]. exfalso. apply H. apply body_at_in. congruence. Qed.

Lemma body_at_kill : forall rs id id', NoDup (map fst (live rs)) ->
  body_at (kill rs id) id' = if id' =? id then None else body_at rs id'.
Proof.
  induction rs as [|r rs IH]; intros id id' Hnd; cbn [kill body_at]; [destruct (id' =? id); reflexivity|].
  cbn [live filter] in Hnd.
  destruct ((fst r =? id) && negb (is_tomb r)) eqn:E.
  - apply andb_prop in E. destruct E as [E1 E2]. apply N.eqb_eq in E1. rewrite E2 in Hnd. cbn [map fst] in Hnd.
    inversion Hnd as [|? ? Hnot _]; subst. cbn [body_at fst snd]. rewrite is_tomb_invalid. cbn [negb]. rewrite andb_false_r.
    rewrite E2, andb_true_r. destruct (id' =? fst r) eqn:Ei.
    + apply N.eqb_eq in Ei. subst id'. apply body_at_none_notin. assumption.
    + rewrite N.eqb_sym, Ei. reflexivity.
  - cbn [body_at]. destruct ((fst r =? id') && negb (is_tomb r)) eqn:E'.
    + apply andb_prop in E'. destruct E' as [E1 E2]. apply N.eqb_eq in E1. subst id'.
      destruct (fst r =? id) eqn:Ei; [rewrite E2 in E; cbn in E; discriminate | reflexivity].
    + apply IH. destruct (negb (is_tomb r)); [inversion Hnd; assumption | assumption].
Qed.

Lemma body_at_app_new : forall rs id body id', id <> invalid_id ->
  body_at (rs ++ [(id, body)]) id' =
  match body_at rs id' with Some b => Some b | None => if id =? id' then Some body else None end.
Proof.
  induction rs as [|r rs IH]; intros id body id' Hid; cbn [app body_at].
  - cbn [fst snd]. unfold is_tomb. cbn [fst]. assert ((id =? invalid_id) = false) as -> by (apply N.eqb_neq; assumption).
    cbn [negb]. rewrite andb_true_r. reflexivity.
  - destruct ((fst r =? id') && negb (is_tomb r)); [reflexivity | apply IH; assumption].
Qed.

(* ------------------------------------------------------------------ *)
(* the specification: a map                                             *)
(* ------------------------------------------------------------------ *)
Definition smap := list (N * (Z * list chunk)).
Fixpoint s_lookup (m : smap) (id : N) : option (Z * list chunk) :=
  match m with [] => None | (k, v) :: r => if k =? id then Some v else s_lookup r id end.
Fixpoint s_remove (m : smap) (id : N) : smap :=
  match m with [] => [] | (k, v) :: r => if k =? id then s_remove r id else (k, v) :: s_remove r id end.
Fixpoint s_remove_all (m : smap) (ids : list N) : smap :=
  match ids with [] => m | id :: r => s_remove_all (s_remove m id) r end.

Inductive op :=
| OStore (id : N) (t0 : Z) (cs : list chunk)
| OInval (ids : list N)
| OReset | OCompact | OReopen
| OCrash (n : N).

Definition s_step (m : smap) (o : op) : smap :=
  match o with
  | OStore id t0 cs => (id, (t0, filter nonempty cs)) :: s_remove m id
  | OInval ids => s_remove_all m ids
  | OReset => []
  | OCompact | OReopen | OCrash _ => m
  end.

Definition step (st : option state) (o : op) : option state :=
  match st with
  | None => None
  | Some s =>
      match o with
      | OStore id t0 cs => set_data fx_all s id t0 cs
      | OInval ids => Some (fst (invalidate fx_all s ids))
      | OReset => Some reset_state
      | OCompact => truncate_file s
      | OReopen => reopen fx_all s
      | OCrash n => crash fx_all s n
      end
  end.

Definition run (ops : list op) : option state := fold_left step ops (Some reset_state).
Definition s_run (ops : list op) : smap := fold_left s_step ops [].

(* what a caller may pass: a real stream id, chunk and content-type lengths below 2^64, time steps that
   Time.Sub represents exactly; empty chunks are allowed (they are dropped) *)
Definition op_ok (o : op) : Prop :=
  match o with
  | OStore id t0 cs => id < invalid_id /\ Forall chunk_ok (filter nonempty cs) /\ times_ok t0 (filter nonempty cs)
  | _ => True
  end.
Definition crash_free (o : op) : Prop := match o with OCrash _ => False | _ => True end.

Lemma s_lookup_remove_eq : forall m id, s_lookup (s_remove m id) id = None.
Proof.
  induction m as [|[k v] m IH]; intros; cbn [s_remove s_lookup]; [reflexivity|].
  destruct (k =? id) eqn:E; [apply IH|]. cbn [s_lookup]. rewrite E. apply IH.
Qed.

Lemma s_lookup_remove_neq : forall m id id', id' <> id -> s_lookup (s_remove m id) id' = s_lookup m id'.
Proof.
  induction m as [|[k v] m IH]; intros id id' H; cbn [s_remove s_lookup]; [reflexivity|].
  destruct (k =? id) eqn:E.
  - apply N.eqb_eq in E. subst k. assert ((id =? id') = false) as -> by (apply N.eqb_neq; congruence). apply IH. assumption.
  - cbn [s_lookup]. destruct (k =? id'); [reflexivity|]. apply IH. assumption.
Qed.

Lemma s_remove_keys : forall m id k, In k (map fst (s_remove m id)) -> In k (map fst m) /\ k <> id.
Proof.
  induction m as [|[k0 v] m IH]; intros id k H; cbn [s_remove map fst] in *; [contradiction|].
  destruct (k0 =? id) eqn:E.
  - destruct (IH _ _ H). split; [right; assumption|assumption].
  - cbn [map fst] in H. destruct H as [->|H].
    + split; [left; reflexivity|]. apply N.eqb_neq. assumption.
    + destruct (IH _ _ H). split; [right; assumption|assumption].
Qed.

Lemma s_remove_nodup : forall m id, NoDup (map fst m) -> NoDup (map fst (s_remove m id)).
Proof.
  induction m as [|[k v] m IH]; intros id H; cbn [s_remove map fst]; [constructor|].
  inversion H as [|? ? Hn Hd]; subst. destruct (k =? id); [apply IH; assumption|].
  cbn [map fst]. constructor; [|apply IH; assumption]. intros Hin. apply s_remove_keys in Hin. tauto.
Qed.

(* the record list denotes the map *)
Definition body_of (v : Z * list chunk) : list N := encode_record (fst v) (snd v).
Definition entry_ok (v : Z * list chunk) : Prop := Forall chunk_ok (snd v) /\ times_ok (fst v) (snd v).
Record Rel (rs : list rec) (m : smap) : Prop := {
  rel_body : forall id, body_at rs id = option_map body_of (s_lookup m id);
  rel_ok : forall id v, s_lookup m id = Some v -> entry_ok v;
  rel_nodup : NoDup (map fst m)
}.

Lemma rel_live : forall rs m, Rel rs m -> Rel (live rs) m.
Proof. intros rs m [H1 H2 H3]. constructor; try assumption. intros id. rewrite body_at_live. apply H1. Qed.

Lemma rel_kill : forall rs m id, NoDup (map fst (live rs)) -> Rel rs m -> Rel (kill rs id) (s_remove m id).
Proof.
  intros rs m id Hnd [H1 H2 H3]. constructor.
  - intros id'. rewrite body_at_kill by assumption. destruct (id' =? id) eqn:E.
    + apply N.eqb_eq in E. subst id'. rewrite s_lookup_remove_eq. reflexivity.
    + apply N.eqb_neq in E. rewrite s_lookup_remove_neq by assumption. apply H1.
  - intros id' v Hl. destruct (N.eq_dec id' id) as [->|Hn]; [rewrite s_lookup_remove_eq in Hl; discriminate|].
    rewrite s_lookup_remove_neq in Hl by assumption. eapply H2. eassumption.
  - apply s_remove_nodup. assumption.
Qed.

Lemma rel_kill_all : forall ids rs m, NoDup (map fst (live rs)) -> Rel rs m -> Rel (kill_all rs ids) (s_remove_all m ids).
Proof.
  induction ids as [|id ids IH]; intros rs m Hnd HR; cbn [kill_all s_remove_all]; [assumption|].
  apply IH; [apply live_kill_nodup; assumption | apply rel_kill; assumption].
Qed.

Lemma sd_encode : forall t0 cs, Forall chunk_ok cs -> times_ok t0 cs -> sd (encode_record t0 cs).
Proof. intros t0 cs H1 H2 rest. apply skip_encode_record; assumption. Qed.

(* ------------------------------------------------------------------ *)
(* one operation                                                        *)
(* ------------------------------------------------------------------ *)
Lemma rel_store : forall rs m id t0 cs,
  NoDup (map fst (live rs)) -> Rel rs m -> id < invalid_id ->
  Forall chunk_ok cs -> times_ok t0 cs ->
  Rel (store_rs rs id (encode_record t0 cs)) ((id, (t0, cs)) :: s_remove m id).
Proof.
  intros rs m id t0 cs Hnd HR Hid Hok Ht.
  assert (HRk : Rel (kill rs id) (s_remove m id)) by (apply rel_kill; assumption).
  assert (HR2 : Rel (if should_compact_rs (kill rs id) then live (kill rs id) else kill rs id) (s_remove m id)).
  { destruct (should_compact_rs (kill rs id)); [apply rel_live|]; assumption. }
  destruct HR2 as [H1 H2 H3]. unfold store_rs. constructor.
  - intros id'. rewrite body_at_app_new by lia. rewrite H1. cbn [s_lookup].
    destruct (id =? id') eqn:E.
    + apply N.eqb_eq in E. subst id'. rewrite s_lookup_remove_eq. reflexivity.
    + destruct (s_lookup (s_remove m id) id'); reflexivity.
  - intros id' v Hl. cbn [s_lookup] in Hl. destruct (id =? id').
    + inversion Hl; subst. split; assumption.
    + eapply H2. eassumption.
  - cbn [map fst]. constructor; [|assumption]. intros Hin. apply s_remove_keys in Hin. tauto.
Qed.

Theorem step_refines : forall st rs m o,
  Inv st rs -> Rel rs m -> op_ok o -> crash_free o ->
  exists st' rs', step (Some st) o = Some st' /\ Inv st' rs' /\ Rel rs' (s_step m o).
Proof.
  intros st rs m o HI HR Hok Hcf. destruct o as [id t0 cs|ids| | | |n]; cbn [step s_step].
  - destruct Hok as (Hid & Hck & Htk).
    destruct (set_data_inv st rs id t0 cs HI Hid (sd_encode _ _ Hck Htk)) as (st' & Hs & HI').
    exists st', (store_rs rs id (encode_record t0 (filter nonempty cs))). split; [exact Hs|]. split; [exact HI'|].
    apply rel_store; try assumption. exact (inv_nodup_live _ _ HI).
  - exists (fst (invalidate fx_all st ids)), (kill_all rs ids). split; [reflexivity|].
    split; [apply invalidate_inv; assumption|]. apply rel_kill_all; [exact (inv_nodup_live _ _ HI) | assumption].
  - exists reset_state, []. split; [reflexivity|]. split; [exact inv_reset|].
    constructor; [intros; reflexivity | intros ? ? H; discriminate | constructor].
  - destruct (truncate_file_inv st rs HI) as (st' & Ht & HI' & _). exists st', (live rs).
    split; [exact Ht|]. split; [exact HI'|]. apply rel_live. assumption.
  - destruct (reopen_inv st rs HI) as (st' & Ht & HI' & _). exists st', (live rs).
    split; [exact Ht|]. split; [exact HI'|]. apply rel_live. assumption.
  - contradiction.
Qed.

Lemma run_refines_gen : forall ops st rs m,
  Inv st rs -> Rel rs m -> Forall op_ok ops -> Forall crash_free ops ->
  exists st' rs', fold_left step ops (Some st) = Some st' /\ Inv st' rs' /\ Rel rs' (fold_left s_step ops m).
Proof.
  induction ops as [|o ops IH]; intros st rs m HI HR Hok Hcf.
  - exists st, rs. cbn [fold_left]. tauto.
  - inversion Hok; subst. inversion Hcf; subst.
    destruct (step_refines st rs m o) as (st1 & rs1 & Hs & HI1 & HR1); try assumption.
    cbn [fold_left]. rewrite Hs. apply (IH st1 rs1); assumption.
Qed.

Lemma rel_empty : Rel [] [].
Proof. constructor; [intros; reflexivity | intros ? ? H; discriminate | constructor]. Qed.

(* what a reader of the model sees, in terms of the specification map *)
Definition spec_data (m : smap) (id : N) (t0 : Z) : result (list chunk * N * N) :=
  match s_lookup m id with
  | None => Absent
  | Some (t0', cs) => Ok (trunc_us t0 cs, len (enc_data false cs), len (enc_data true cs))
  end.

Lemma rel_data : forall rs m id t0 cs,
  Rel rs m -> s_lookup m id = Some (t0, cs) ->
  dec_result t0 (body_at rs id) = Ok (trunc_us t0 cs, len (enc_data false cs), len (enc_data true cs)).
Proof.
  intros rs m id t0 cs [H1 H2 H3] Hl. rewrite H1, Hl. unfold body_of. cbn [option_map dec_result fst snd].
  destruct (H2 _ _ Hl) as [Hc Ht]. cbn [fst snd] in *.
  rewrite <- (app_nil_r (encode_record t0 cs)). rewrite decode_encode_record by assumption. reflexivity.
Qed.

Lemma rel_absent : forall rs m id, Rel rs m -> s_lookup m id = None -> body_at rs id = None.
Proof. intros rs m id [H1 _ _] Hl. rewrite H1, Hl. reflexivity. Qed.

Lemma rel_count : forall rs m, NoDup (map fst (live rs)) -> Rel rs m -> length (live rs) = length m.
Proof.
  intros rs m Hnd [H1 H2 H3]. rewrite <- (map_length fst (live rs)), <- (map_length fst m).
  apply same_length; try assumption. intros id. rewrite <- body_at_in, H1.
  split.
  - intros Hb. destruct (s_lookup m id) eqn:E; [|cbn in Hb; congruence].
    clear - E. induction m as [|[k v] m IH]; cbn [s_lookup map fst] in *; [discriminate|].
    destruct (k =? id) eqn:Ek; [left; apply N.eqb_eq; assumption | right; apply IH; assumption].
  - intros Hin. destruct (s_lookup m id) eqn:E; [cbn; congruence|]. exfalso.
    clear - E Hin. induction m as [|[k v] m IH]; cbn [s_lookup map fst] in *; [contradiction|].
    destruct (k =? id) eqn:Ek; [discriminate|]. apply N.eqb_neq in Ek. destruct Hin as [?|?]; [congruence|auto].
Qed.

(* ------------------------------------------------------------------ *)
(* Theorem 3: every history over {store, invalidate, reset, compact, reopen}                       *)
(* ------------------------------------------------------------------ *)
Theorem history_refines_map : forall ops,
  Forall op_ok ops -> Forall crash_free ops ->
  exists st rs,
    run ops = Some st /\ Inv st rs /\
    let m := s_run ops in
    stream_count st = N.of_nat (length m) /\
    forall id,
      contains st id = (match s_lookup m id with Some _ => true | None => false end) /\
      match s_lookup m id with
      | None => (forall t0, data st id t0 = Absent) /\ data_for_search st id = Absent
      | Some (t0, cs) =>
          data st id t0 = Ok (trunc_us t0 cs, len (enc_data false cs), len (enc_data true cs)) /\
          data_for_search st id = Ok (enc_data false cs, enc_data true cs, (0, 0) :: totals 0 0 cs,
                                      len (enc_data false cs), len (enc_data true cs))
      end.
Proof.
  intros ops Hok Hcf.
  destruct (run_refines_gen ops reset_state [] [] inv_reset rel_empty Hok Hcf) as (st & rs & Hrun & HI & HR).
  exists st, rs. split; [exact Hrun|]. split; [exact HI|]. cbv zeta. fold (s_run ops) in HR. split.
  - rewrite (inv_count _ _ HI). f_equal. apply rel_count; [exact (inv_nodup_live _ _ HI) | exact HR].
  - intros id. rewrite (inv_contains _ _ _ HI). destruct (s_lookup (s_run ops) id) as [[t0 cs]|] eqn:E.
    + pose proof (rel_data _ _ _ _ _ HR E) as Hd. split.
      * destruct (body_at rs id); [reflexivity | cbn in Hd; discriminate].
      * split; [rewrite (inv_data _ _ _ _ HI); exact Hd|].
        rewrite (inv_search _ _ _ HI). rewrite (rel_body _ _ HR), E. unfold body_of. cbn [option_map search_result fst snd].
        destruct (rel_ok _ _ HR _ _ E) as [Hc _]. cbn [snd] in Hc.
        rewrite <- (app_nil_r (encode_record t0 cs)). rewrite record_bytes_encode.
        rewrite decode_search_bytes by assumption. reflexivity.
    + rewrite (rel_absent _ _ _ HR E). split; [reflexivity|]. split.
      * intros t0. rewrite (inv_data _ _ _ _ HI), (rel_absent _ _ _ HR E). reflexivity.
      * rewrite (inv_search _ _ _ HI), (rel_absent _ _ _ HR E). reflexivity.
Qed.

(* ------------------------------------------------------------------ *)
(* Theorem 4: crashes.  Histories may contain crashes at any byte offset; NewCacheFile never fails, the  *)
(* layout invariant always holds, and a crash keeps exactly the complete records.                      *)
(* ------------------------------------------------------------------ *)
Theorem step_inv : forall st rs o, Inv st rs -> op_ok o -> exists st' rs', step (Some st) o = Some st' /\ Inv st' rs'.
Proof.
  intros st rs o HI Hok. destruct o as [id t0 cs|ids| | | |n]; cbn [step].
  - destruct Hok as (Hid & Hck & Htk).
    destruct (set_data_inv st rs id t0 cs HI Hid (sd_encode _ _ Hck Htk)) as (st' & Hs & HI'). eauto.
  - eexists. eexists. split; [reflexivity|]. apply invalidate_inv. eassumption.
  - eexists. eexists. split; [reflexivity|]. exact inv_reset.
  - destruct (truncate_file_inv st rs HI) as (st' & Ht & HI' & _). eauto.
  - destruct (reopen_inv st rs HI) as (st' & Ht & HI' & _). eauto.
  - destruct (N.lt_ge_cases n 8) as [Hlt|Hge].
    + rewrite (crash_short st rs n HI Hlt). eexists. eexists. split; [reflexivity|]. exact inv_reset.
    + destruct (crash_inv st rs n HI Hge) as (k & st' & Hc & HI' & _). eauto.
Qed.

Theorem history_never_fails : forall ops, Forall op_ok ops -> exists st rs, run ops = Some st /\ Inv st rs.
Proof.
  intros ops Hok. unfold run.
  assert (G : forall ops st rs, Inv st rs -> Forall op_ok ops -> exists st' rs', fold_left step ops (Some st) = Some st' /\ Inv st' rs').
  { clear. induction ops as [|o ops IH]; intros st rs HI Hok; [exists st, rs; cbn; tauto|].
    inversion Hok; subst. destruct (step_inv st rs o HI) as (st1 & rs1 & Hs & HI1); [assumption|].
    cbn [fold_left]. rewrite Hs. eapply IH; eassumption. }
  exact (G ops reset_state [] inv_reset Hok).
Qed.

(* the torn-tail theorem in observable terms *)
Theorem torn_tail_serves_complete_records : forall ops n,
  Forall op_ok ops -> 8 <= n ->
  exists st rs k st',
    run ops = Some st /\ Inv st rs /\
    crash fx_all st n = Some st' /\
    (* k complete records fit into the first n bytes, the next one does not *)
    len (flat (firstn k rs)) <= n - 8 /\ (k = length rs \/ n - 8 < len (flat (firstn (S k) rs))) /\
    (* and the reopened cache serves exactly those *)
    (forall id t0, data st' id t0 = dec_result t0 (body_at (firstn k rs) id)) /\
    (forall id, data_for_search st' id = search_result (body_at (firstn k rs) id)) /\
    (forall id, contains st' id = match body_at (firstn k rs) id with Some _ => true | None => false end) /\
    stream_count st' = N.of_nat (length (live (firstn k rs))).
Proof.
  intros ops n Hok Hn. destruct (history_never_fails ops Hok) as (st & rs & Hrun & HI).
  destruct (crash_inv st rs n HI Hn) as (k & st' & Hc & HI' & _ & Hlen & Hmax).
  exists st, rs, k, st'. repeat (split; [assumption|]).
  split; [intros; rewrite (inv_data _ _ _ _ HI'); rewrite body_at_live; reflexivity|].
  split; [intros; rewrite (inv_search _ _ _ HI'); rewrite body_at_live; reflexivity|].
  split; [intros; rewrite (inv_contains _ _ _ HI'); rewrite body_at_live; reflexivity|].
  rewrite (inv_count _ _ HI'). rewrite live_live. reflexivity.
Qed.

Corollary crash_below_header : forall ops n, Forall op_ok ops -> n < 8 ->
  exists st, run ops = Some st /\ crash fx_all st n = Some reset_state.
Proof.
  intros ops n Hok Hn. destruct (history_never_fails ops Hok) as (st & rs & Hrun & HI).
  exists st. split; [exact Hrun | exact (crash_short st rs n HI Hn)].
Qed.

(* the accounting part of the invariant, spelled out *)
Theorem inv_accounting : forall st rs, Inv st rs ->
  st_fileSize st = len (st_file st) /\
  st_freeSize st = tomb_bytes rs /\
  st_freeStart st <= st_fileSize st /\
  forall id off sz, lookup (st_infos st) id = Some (off, sz) ->
    16 <= off /\ off + sz <= st_fileSize st /\
    exists a body b, rs = a ++ (id, body) :: b /\ off = 16 + len (flat a) /\ sz = len body /\
                     section st off sz = body.
Proof.
  intros st rs HI. split; [rewrite (inv_size _ _ HI), (inv_file _ _ HI), len_app, header_len; reflexivity|].
  split; [exact (inv_free _ _ HI)|]. split.
  - pose proof (boundary_le _ _ _ (inv_boundary _ _ HI)). rewrite (inv_size _ _ HI). assumption.
  - intros id off sz Hl. rewrite (inv_infos _ _ HI) in Hl.
    pose proof (find_live_body rs 8 id) as H. rewrite Hl in H. destruct H as (body & a & b & _ & Hsz & Hrs & Ho).
    split; [lia|]. split.
    + rewrite (inv_size _ _ HI), Hrs, flat_app, len_app, flat_len_cons. unfold rec_size. cbn [snd]. lia.
    + exists a, body, b. split; [assumption|]. split; [lia|]. split; [assumption|].
      subst off sz. apply (section_body st rs a id body b HI Hrs).
Qed.

(* ------------------------------------------------------------------ *)
(* the return value of InvalidateChangedStreams                         *)
(* ------------------------------------------------------------------ *)
Lemma contains_free_stream : forall fx st id id',
  contains (free_stream fx st id) id' = if id' =? id then false else contains st id'.
Proof.
  intros fx st id id'. unfold contains, free_stream.
  destruct (lookup (st_infos st) id) as [[off sz]|] eqn:E; cbn [st_infos].
  - destruct (id' =? id) eqn:Ei.
    + apply N.eqb_eq in Ei. subst id'. rewrite lookup_remove_eq. reflexivity.
    + apply N.eqb_neq in Ei. rewrite lookup_remove_neq by assumption. reflexivity.
  - destruct (id' =? id) eqn:Ei; [|reflexivity]. apply N.eqb_eq in Ei. subst id'. rewrite E. reflexivity.
Qed.

Theorem invalidate_reports_cached : forall fx ids st id,
  In id (snd (invalidate fx st ids)) <-> In id ids /\ contains st id = true.
Proof.
  induction ids as [|i ids IH]; intros st id; cbn [invalidate snd].
  - cbn. tauto.
  - specialize (IH (free_stream fx st i) id).
    destruct (invalidate fx (free_stream fx st i) ids) as [st' inv] eqn:E. cbn [snd] in *.
    rewrite contains_free_stream in IH.
    destruct (N.eq_dec id i) as [->|Hne].
    + rewrite N.eqb_refl in IH. destruct (contains st i) eqn:Ec.
      * split; [intros _; split; [left; reflexivity|reflexivity] | intros _; left; reflexivity].
      * split; [intros H; apply IH in H; destruct H; discriminate | intros [_ H]; discriminate].
    + assert ((id =? i) = false) as Hf by (apply N.eqb_neq; assumption). rewrite Hf in IH.
      destruct (contains st i); cbn [In]; rewrite ?IH; split.
      * intros [H|[H1 H2]]; [congruence|]. split; [right; assumption|assumption].
      * intros [[H|H] H2]; [congruence|]. right. split; assumption.
      * intros [H1 H2]. split; [right; assumption|assumption].
      * intros [[H|H] H2]; [congruence|]. split; assumption.
Qed.
