(* C20 -- no data races on shared service state.

   Part 1 (dynamic): executions are traces of events (thread, action); actions are memory
   accesses (location, read/write, row of the static table they are an instance of) and
   synchronisation events: goroutine start, send / receive of a message (closures on the
   jobs channel), lock / unlock of a mutex in exclusive or shared mode.  Happens-before is
   the transitive closure of program order, spawn, send->receive and unlock->lock edges (Go
   memory model).  A data race is a pair of conflicting accesses of different threads that
   is not ordered by happens-before.

   Part 2 (static): the access table (GenAccess.v, regenerated from the source) lists for
   every field access its location, read/write, goroutine class ("context") and the locks
   held on the same object.  `discipline` decides, pair by pair, whether every two
   conflicting rows are ordered by their contexts or protected by a common lock.

   Definitions only; proofs are in OwnershipProofs.v. *)
From Coq Require Import List NArith Bool Arith.
Import ListNotations.

(* ------------------------------------------------------------------ static table *)
Inductive ckind : Type := KInit | KLoop | KGo | KApi | KAny | KFresh | KDead.

Record ctxinfo : Type := mkCtx {
  c_id : N;
  c_kind : ckind;
  c_self : bool;     (* two accesses of this class are always ordered (one goroutine, or serial instances) *)
  c_early : bool     (* goroutine started while manager.New is still running *)
}.

Record access : Type := mkAcc {
  a_loc : N;
  a_write : bool;
  a_ctx : N;
  a_locks : list (N * bool)     (* lock id, held exclusively? *)
}.

Definition kind_eqb (a b : ckind) : bool :=
  match a, b with
  | KInit, KInit | KLoop, KLoop | KGo, KGo | KApi, KApi | KAny, KAny | KFresh, KFresh | KDead, KDead => true
  | _, _ => false
  end.

Fixpoint find_ctx (cs : list ctxinfo) (id : N) : option ctxinfo :=
  match cs with
  | [] => None
  | c :: r => if N.eqb (c_id c) id then Some c else find_ctx r id
  end.

(* manager.New's own accesses: before everything except goroutines New itself started *)
Definition is_init (c : ctxinfo) : bool :=
  match c_kind c with KInit => true | _ => false end.

(* accesses to an object no other goroutine can reach yet *)
Definition is_fresh (c : ctxinfo) : bool :=
  match c_kind c with KFresh => true | _ => false end.

(* never executed (functions nobody calls) *)
Definition is_dead (c : ctxinfo) : bool :=
  match c_kind c with KDead => true | _ => false end.

Definition ctx_ordered (c1 c2 : ctxinfo) : bool :=
  is_dead c1 || is_dead c2
  || is_fresh c1 || is_fresh c2
  || (N.eqb (c_id c1) (c_id c2) && c_self c1)
  || (is_init c1 && negb (c_early c2) && negb (N.eqb (c_id c1) (c_id c2)))
  || (is_init c2 && negb (c_early c1) && negb (N.eqb (c_id c1) (c_id c2))).

(* a common lock, not both in shared mode *)
Definition common_lock (l1 l2 : list (N * bool)) : bool :=
  existsb (fun kx => existsb (fun ky => N.eqb (fst kx) (fst ky) && (snd kx || snd ky)) l2) l1.

Definition conflicting (r1 r2 : access) : bool :=
  N.eqb (a_loc r1) (a_loc r2) && (a_write r1 || a_write r2).

Definition pair_ok (cs : list ctxinfo) (r1 r2 : access) : bool :=
  negb (conflicting r1 r2)
  || common_lock (a_locks r1) (a_locks r2)
  || match find_ctx cs (a_ctx r1), find_ctx cs (a_ctx r2) with
     | Some c1, Some c2 => ctx_ordered c1 c2
     | _, _ => false
     end.

Definition discipline (cs : list ctxinfo) (t : list access) : bool :=
  forallb (fun r1 => forallb (fun r2 => pair_ok cs r1 r2) t) t.

(* the rows that some other row is not ordered with: what a failing table is reported by *)
Definition undischarged (cs : list ctxinfo) (t : list access) : list (access * access) :=
  flat_map (fun r1 => flat_map (fun r2 => if pair_ok cs r1 r2 then [] else [(r1, r2)]) t) t.

(* ------------------------------------------------------------------ executions *)
Inductive action : Type :=
| Acc (row : nat)                       (* an instance of row `row` of the table *)
| Spawn (child : N)
| Send (m : N)
| Recv (m : N)
| Lock (k : N) (excl : bool)
| Unlock (k : N) (excl : bool).

Record event : Type := mkEv { e_tid : N; e_act : action }.
Definition trace : Type := list event.

Definition ev (tr : trace) (i : nat) : option event := nth_error tr i.
