(* TagsC09.v -- C09: whatever work a completion of a background job leaves behind has a job in flight;
   at rest (no job in flight) nothing is pending.  Repaired instance of theories/Tags.v for the switch
   kf_mergeconv (= the Go code after 56f3838); termination of the completion sequence is NOT proved here
   (see notes/C09.md), it is bounded by the completion budget of the scenario harness. *)
From Coq Require Import List NArith Bool Lia.
From Pk Require Import Tags TagsC16 TagsC06.
Import ListNotations.
Open Scope N_scope.

(* ---------------------------------------------------------------- post-conditions of the three starters *)
Definition tag_work_covered (st : state) : Prop := first_eligible (tags st) <> None -> jtag st <> None.
Definition conv_work_covered (st : state) : Prop :=
  forall c, memN c (convs st) = true -> toconv st c <> 0 -> jconv st <> None.
Definition merge_covered (st : state) : Prop := merge_eligible st = None.
Definition import_covered (st : state) : Prop := queue st <> [] -> jimp st <> None.

Lemma first_eligible_tget ts n : first_eligible ts = Some n -> exists t, tget n ts = Some t.
Proof.
  intros H. apply first_eligible_spec in H. destruct (eligible_spec _ _ H) as (t & T & _). exists t. exact T.
Qed.

Lemma start_tagging_post p st : tag_work_covered (start_tagging p st).
Proof.
  unfold tag_work_covered, start_tagging. destruct (jtag st) eqn:J; [intros _; rewrite J; discriminate|].
  destruct (eligible (tags st) p) eqn:EP.
  - destruct (eligible_spec _ _ EP) as (t & T & _). rewrite T. simpl. discriminate.
  - destruct (first_eligible (tags st)) as [n|] eqn:FE; [|simpl; rewrite FE; congruence].
    destruct (first_eligible_tget _ _ FE) as (t & T). rewrite T. simpl. discriminate.
Qed.

Lemma memN_In c l : memN c l = true -> In c l.
Proof. unfold memN. intros H. apply existsb_exists in H. destruct H as (x & I & E). apply N.eqb_eq in E. subst. exact I. Qed.

Lemma start_converter_post st : conv_work_covered (start_converter st).
Proof.
  unfold conv_work_covered, start_converter. destruct (jconv st) eqn:J; [intros; rewrite J; discriminate|].
  destruct (filter (fun c => negb (is0 (toconv st c))) (convs st)) eqn:F.
  - intros c Hc Hne. simpl in *. exfalso.
    assert (In c (filter (fun c => negb (is0 (toconv st c))) (convs st))) as I.
    { apply filter_In. split; [apply memN_In; exact Hc|]. destruct (is0 (toconv st c)) eqn:E; [apply is0_true in E; congruence|reflexivity]. }
    rewrite F in I. destruct I.
  - intros; simpl; discriminate.
Qed.

Lemma start_merge_post st : merge_covered (start_merge st).
Proof.
  unfold merge_covered, start_merge. destruct (merge_eligible st) eqn:E; [|exact E].
  unfold merge_eligible. simpl. reflexivity.
Qed.

(* later starters do not undo earlier post-conditions *)
Lemma start_converter_keeps_tag st : tag_work_covered st -> tag_work_covered (start_converter st).
Proof.
  unfold tag_work_covered, start_converter. destruct (jconv st); [auto|]. destruct (filter _ (convs st)); auto.
Qed.
Lemma start_merge_keeps_tag st : tag_work_covered st -> tag_work_covered (start_merge st).
Proof. unfold tag_work_covered, start_merge. destruct (merge_eligible st); auto. Qed.
Lemma start_merge_keeps_conv st : conv_work_covered st -> conv_work_covered (start_merge st).
Proof. unfold conv_work_covered, start_merge. destruct (merge_eligible st); auto. Qed.
Lemma start_merge_keeps_import st : import_covered st -> import_covered (start_merge st).
Proof. unfold import_covered, start_merge. destruct (merge_eligible st); auto. Qed.
Lemma start_converter_keeps_import st : import_covered st -> import_covered (start_converter st).
Proof. unfold import_covered, start_converter. destruct (jconv st); [auto|]. destruct (filter _ (convs st)); auto. Qed.
Lemma start_tagging_keeps_import p st : import_covered st -> import_covered (start_tagging p st).
Proof.
  unfold import_covered, start_tagging. destruct (jtag st); [auto|].
  destruct (if eligible (tags st) p then Some p else first_eligible (tags st)); [|auto]. destruct (tget n (tags st)); auto.
Qed.

Definition covered (st : state) : Prop :=
  tag_work_covered st /\ conv_work_covered st /\ merge_covered st /\ import_covered st.

Lemma starts_covered p st : import_covered st -> covered (start_merge (start_converter (start_tagging p st))).
Proof.
  intros HI. split; [|split; [|split]].
  - apply start_merge_keeps_tag, start_converter_keeps_tag, start_tagging_post.
  - apply start_merge_keeps_conv, start_converter_post.
  - apply start_merge_post.
  - apply start_merge_keeps_import, start_converter_keeps_import, start_tagging_keeps_import, HI.
Qed.

(* ---------------------------------------------------------------- every completion that fires *)
Definition fires (k : jobkind) (st : state) : Prop :=
  match k with
  | JImport => exists n r, jimp st = Some (mkImp n (Some r))
  | JTag => exists j res, jtag st = Some j /\ tj_res j = Some res
  | JConvert => exists j, jconv st = Some j /\ cj_done j = true
  | JMerge => exists j res, jmerge st = Some j /\ mj_res j = Some res
  end.

Lemma import_covered_fields st st' : queue st' = queue st -> jimp st' = jimp st -> import_covered st -> import_covered st'.
Proof. unfold import_covered. intros -> ->. auto. Qed.

(* work that is pending always has a job: tagging, converter, import *)
Definition Pinv (st : state) : Prop := tag_work_covered st /\ conv_work_covered st /\ import_covered st.

Theorem completion_covers k p j st :
  kf_mergeconv k = false -> fires j st -> Pinv st -> covered (step k p (AComplete j) st).
Proof.
  intros K F (HT & HC & HI). destruct j; simpl.
  - destruct F as (n & r & J). rewrite J. apply starts_covered.
    unfold import_covered. destruct (ir_idx r); simpl;
      destruct (skipn (ir_proc r) (queue st)) eqn:E; simpl; try rewrite E; try congruence; discriminate.
  - destruct F as (jj & res & J & R). rewrite J. destruct jj; simpl in R. subst tj_res. apply starts_covered.
    match goal with |- import_covered ?X => apply (import_covered_fields st X) end; try exact HI;
      (destruct (tget tj_name (tags st)) as [ot|]; [destruct (defn_eqb (t_def ot) tj_def)|]; reflexivity).
  - destruct F as (jj & J & D). rewrite J. destruct jj; simpl in D. subst cj_done. rewrite K.
    apply starts_covered.
    match goal with |- import_covered ?X => apply (import_covered_fields st X) end; try exact HI;
      destruct (kf_inflight k); reflexivity.
  - destruct F as (jj & res & J & R). rewrite J. destruct jj; simpl in R. subst mj_res.
    split; [|split; [|split]].
    + apply start_merge_keeps_tag. exact HT.
    + apply start_merge_keeps_conv. exact HC.
    + apply start_merge_post.
    + apply start_merge_keeps_import. exact HI.
Qed.

(* ---------------------------------------------------------------- the job-step subsystem (no API call) *)
Definition job_action (a : action) : Prop :=
  match a with
  | ABodyImport _ | ABodyTag _ | ABodyConvert _ | ABodyMerge | AComplete _ => True
  | _ => False
  end.

Lemma classic_fires j st : fires j st \/ ~ fires j st.
Proof.
  destruct j; simpl.
  - destruct (jimp st) as [[n [r|]]|]; [left; exists n, r; reflexivity|right; intros (n0 & r0 & E); discriminate|right; intros (n0 & r0 & E); discriminate].
  - destruct (jtag st) as [j|]; [|right; intros (j0 & r0 & E & _); discriminate].
    destruct (tj_res j) as [res|] eqn:R; [left; exists j, res; split; [reflexivity|exact R]|].
    right. intros (j0 & r0 & E & E2). inversion E; subst. congruence.
  - destruct (jconv st) as [j|]; [|right; intros (j0 & E & _); discriminate].
    destruct (cj_done j) eqn:R; [left; exists j; split; [reflexivity|exact R]|].
    right. intros (j0 & E & E2). inversion E; subst. congruence.
  - destruct (jmerge st) as [j|]; [|right; intros (j0 & r0 & E & _); discriminate].
    destruct (mj_res j) as [res|] eqn:R; [left; exists j, res; split; [reflexivity|exact R]|].
    right. intros (j0 & r0 & E & E2). inversion E; subst. congruence.
Qed.

Lemma complete_nofire k p j st : ~ fires j st -> step k p (AComplete j) st = st.
Proof.
  intros NF. destruct j; simpl.
  - destruct (jimp st) as [[n [r|]]|] eqn:J; try reflexivity. exfalso. apply NF. exists n, r. exact J.
  - destruct (jtag st) as [[n d m u c s h [res|]]|] eqn:J; try reflexivity. exfalso. apply NF.
    eexists; exists res; split; [exact J|reflexivity].
  - destruct (jconv st) as [[s v n [|]]|] eqn:J; try reflexivity. exfalso. apply NF.
    eexists; split; [exact J|reflexivity].
  - destruct (jmerge st) as [[o s [res|]]|] eqn:J; try reflexivity. exfalso. apply NF.
    eexists; exists res; split; [exact J|reflexivity].
Qed.

Lemma covered_Pinv st : covered st -> Pinv st.
Proof. intros (A & B & _ & D). split; [exact A|split; [exact B|exact D]]. Qed.

(* the body of a job changes neither what is pending nor which jobs exist *)
Lemma covered_body k p a st :
  match a with ABodyImport _ | ABodyTag _ | ABodyConvert _ | ABodyMerge => True | _ => False end ->
  covered st -> covered (step k p a st).
Proof.
  intros Ha (HT & HC & HM & HI). destruct a; try destruct Ha; simpl.
  - destruct (jimp st) as [j|] eqn:J; [|repeat split; assumption]. destruct (ij_resp j); [repeat split; assumption|].
    split; [exact HT|split; [exact HC|split; [exact HM|]]]. unfold import_covered. simpl. discriminate.
  - destruct (jtag st) as [j|] eqn:J; [|repeat split; assumption]. destruct (tj_res j); [repeat split; assumption|].
    split; [|split; [exact HC|split; [|exact HI]]].
    + unfold tag_work_covered. simpl. discriminate.
    + unfold merge_covered, merge_eligible in *. simpl. destruct (jmerge st); reflexivity.
  - destruct (jconv st) as [j|] eqn:J; [|repeat split; assumption]. destruct (cj_done j); [repeat split; assumption|].
    split; [exact HT|split; [|split; [|exact HI]]].
    + unfold conv_work_covered. simpl. discriminate.
    + unfold merge_covered, merge_eligible in *. simpl. destruct (jmerge st); [reflexivity|]. destruct (jtag st); reflexivity.
  - destruct (jmerge st) as [j|] eqn:J; [|repeat split; assumption]. destruct (mj_res j); [repeat split; assumption|].
    split; [exact HT|split; [exact HC|split; [|exact HI]]].
    unfold merge_covered, merge_eligible. simpl. reflexivity.
Qed.

Theorem covered_job_step k p a st : kf_mergeconv k = false -> job_action a -> covered st -> covered (step k p a st).
Proof.
  intros K Ha H. destruct a; try destruct Ha; try (apply covered_body; [exact I|exact H]).
  destruct (classic_fires k0 st) as [F|NF].
  - apply completion_covers; [exact K|exact F|apply covered_Pinv; exact H].
  - rewrite complete_nofire; assumption.
Qed.

Fixpoint job_actions (l : list (N * action)) : Prop :=
  match l with [] => True | (_, a) :: r => job_action a /\ job_actions r end.

Theorem covered_job_run k l : forall st, kf_mergeconv k = false -> job_actions l -> covered st -> covered (run k l st).
Proof.
  unfold run. induction l as [|[p a] l IH]; simpl; intros st K (Ha & Hl) H || intros st K Hl H; [|].
  - exact H.
  - apply IH; [exact K|exact Hl|apply covered_job_step; assumption].
Qed.

(* at rest: no job in flight and everything covered => nothing pending *)
Definition no_job (st : state) : Prop := jimp st = None /\ jtag st = None /\ jconv st = None /\ jmerge st = None.

Definition quiescent (st : state) : Prop :=
  queue st = [] /\ first_eligible (tags st) = None /\
  (forall c, memN c (convs st) = true -> toconv st c = 0) /\ merge_eligible st = None.

Lemma rest_quiescent st : covered st -> no_job st -> quiescent st.
Proof.
  intros (HT & HC & HM & HI) (J1 & J2 & J3 & J4). split; [|split; [|split]].
  - destruct (queue st) eqn:E; [reflexivity|]. exfalso. apply HI; [rewrite E; discriminate|exact J1].
  - destruct (first_eligible (tags st)) eqn:E; [|reflexivity]. exfalso. apply HT; [rewrite E; discriminate|exact J2].
  - intros c Hc. destruct (N.eq_dec (toconv st c) 0) as [E|E]; [exact E|]. exfalso. apply (HC c Hc E). exact J3.
  - exact HM.
Qed.

(* ---------------------------------------------------------------- an uncertain tag implies an eligible tag *)
Definition dead_clean (ts : tags_t) : Prop := forall n t, In (n, t) ts -> t_live t = false -> t_u t = 0.

Lemma last_uncertain (ts : tags_t) : all_certain ts = false ->
  exists pre n t r, ts = pre ++ (n, t) :: r /\ is0 (t_u t) = false /\ all_certain r = true.
Proof.
  unfold all_certain. induction ts as [|[k t] r IH]; simpl; [discriminate|].
  destruct (forallb (fun nt => is0 (t_u (snd nt))) r) eqn:E.
  - rewrite andb_true_r. intros H. exists [], k, t, r. split; [reflexivity|split; [exact H|exact E]].
  - intros _. destruct (IH eq_refl) as (pre & n & t0 & r0 & E0 & U & C).
    exists ((k, t) :: pre), n, t0, r0. split; [rewrite E0; reflexivity|split; assumption].
Qed.

Lemma tu_certain r x : all_certain r = true -> tu x r = 0.
Proof.
  unfold all_certain, tu. induction r as [|[k t] r IH]; simpl; [reflexivity|]. intros H.
  apply andb_true_iff in H. destruct H as [H1 H2]. destruct (k =? x).
  - destruct (t_live t); [apply is0_true; exact H1|reflexivity].
  - apply IH. exact H2.
Qed.

Lemma eligible_exists ts : sorted ts -> ranked ts -> dead_clean ts -> all_certain ts = false -> first_eligible ts <> None.
Proof.
  intros So Ra Dc H. destruct (last_uncertain ts H) as (pre & n & t & r & E & U & C).
  assert (In (n, t) ts) as I by (rewrite E; apply in_or_app; right; left; reflexivity).
  assert (t_live t = true) as L.
  { destruct (t_live t) eqn:L; [reflexivity|]. rewrite (Dc n t I L) in U. discriminate. }
  assert (tget n ts = Some t) as T.
  { rewrite E. rewrite tget_app_skip.
    - simpl. rewrite N.eqb_refl, L. reflexivity.
    - intros k0 t0 I0 ->. rewrite E in So. pose proof (sorted_app_l _ _ So n t0 n t I0 (or_introl eq_refl)). lia. }
  assert (eligible ts n = true) as EL.
  { unfold eligible. rewrite T, U. simpl. apply forallb_forall. intros x Hx.
    destruct (Ra n t I L) as (Rf & _). destruct (Rf x Hx) as (Lx & _).
    unfold tu. rewrite E, tget_tail; [|rewrite <- E; exact So|exact Lx].
    fold (tu x r). rewrite (tu_certain r x C). reflexivity. }
  unfold first_eligible.
  assert (In (n, t) (filter (fun nt => eligible ts (fst nt)) ts)) as IF by (apply filter_In; split; [exact I|exact EL]).
  destruct (filter (fun nt => eligible ts (fst nt)) ts) as [|[k0 t0] l]; [destruct IF|discriminate].
Qed.

(* ---------------------------------------------------------------- the historical defect (56f3838) *)
(* two index files [1 stream][2 streams] are mergeable; the import completes while a converter job is in
   flight (merge blocked), the tagging job and then the converter job complete: at rest with an eligible merge *)
Definition w_merge : list (N * action) :=
  [(3, AImport [0]); (3, ABodyImport (mkIresp 1 0 0 1 1 [1])); (3, AComplete JImport);
   (3, AAddTag 3 d_port 0); (3, ABodyTag [(3, 1)]); (3, AComplete JTag);
   (3, ASetConv 3 [0]);
   (3, AImport [1]); (3, ABodyImport (mkIresp 1 1 0 2 2 [3])); (3, AComplete JImport);
   (3, ABodyTag [(3, 1)]); (3, AComplete JTag);
   (3, ABodyConvert []); (3, AComplete JConvert); (3, ABodyConvert []); (3, AComplete JConvert)].

Definition rest_with_eligible_merge (st : state) : bool :=
  match jimp st, jtag st, jconv st, jmerge st, merge_eligible st with
  | None, None, None, None, Some _ => true
  | _, _, _, _, _ => false
  end.
