(* C01, theorem 3, the Time field of the Data() chunks (partial): every chunk carries the microsecond-truncated
   timestamp of a packet of the stream that carries data in the chunk's direction.  The time-wrap bookkeeping of
   the first loop of Data() (expectWraps, lastRelPacketTimeMS, skipping only once no wrap is expected any more) is
   proved correct for streams of any duration.
   Not proved: WHICH packet (the first one of the chunk's 50 ms group). *)
From Coq Require Import Lia ZifyBool ZifyN ZifyNat Arith.
From Pk Require Import IndexFormat IndexFormatCodec IndexFormatHosts IndexFormatWriter IndexFormatData IndexFormatPackets IndexFormatScan.
Open Scope N_scope.

(* records tagged with their true offset (whole microseconds after the first packet) *)
Notation trec := (packet_rec * N)%type (only parsing).

Fixpoint chain (a : N) (tr : list trec) : Prop :=
  match tr with
  | [] => True
  | (p, b) :: r => a <= b /\ b - a < P32 /\ pk_rel p = u32 b /\ chain b r
  end.
Definition last_off (a : N) (tr : list trec) : N := match rev tr with [] => a | (_, b) :: _ => b end.

Lemma last_off_cons a p b r : last_off a ((p, b) :: r) = last_off b r.
Proof. unfold last_off. cbn [rev]. destruct (rev r) as [|[q c] l]; reflexivity. Qed.
Lemma chain_le_last : forall tr a, chain a tr -> a <= last_off a tr.
Proof.
  induction tr as [|[p b] r IH]; intros a Hc; [unfold last_off; cbn; lia|]. destruct Hc as (H1 & _ & _ & H4).
  rewrite last_off_cons. specialize (IH _ H4). lia.
Qed.
Lemma chain_in_le_last : forall tr a q c, chain a tr -> In (q, c) tr -> c <= last_off a tr.
Proof.
  induction tr as [|[p b] r IH]; intros a q c Hc Hin; [destruct Hin|]. destruct Hc as (H1 & _ & _ & H4). rewrite last_off_cons.
  destruct Hin as [E|Hin]; [inversion E; subst; now apply chain_le_last|exact (IH b q c H4 Hin)].
Qed.

Lemma chain_skipn : forall k tr a, chain a tr -> (k <= length tr)%nat ->
  (forall x, In x (firstn k tr) -> True) ->
  exists a', chain a' (skipn k tr) /\ a <= a' /\ (forall p b, In (p, b) (skipn k tr) -> a' <= b) /\ a' <= last_off a tr /\ last_off a' (skipn k tr) = last_off a tr.
Proof.
  induction k as [|k IH]; intros tr a Hc Hl _.
  - exists a. cbn [skipn]. split; [assumption|]. split; [lia|].
    assert (Hge : forall tr0 a0, chain a0 tr0 -> forall p b, In (p, b) tr0 -> a0 <= b).
    { induction tr0 as [|[p0 b0] r0 IHr]; intros a0 Hc0 p b Hin; [destruct Hin|]. destruct Hc0 as (H1 & _ & _ & H4).
      destruct Hin as [E|Hin]; [inversion E; subst; lia|]. specialize (IHr _ H4 _ _ Hin). lia. }
    split; [apply (Hge _ _ Hc)|]. split; [|reflexivity].
    unfold last_off. destruct (rev tr) as [|[p b] l] eqn:E; [lia|]. apply (Hge _ _ Hc p b). apply in_rev. rewrite E. now left.
  - destruct tr as [|[p b] r]; [cbn in Hl; lia|]. destruct Hc as (H1 & H2 & H3 & H4). cbn [skipn length] in *.
    destruct (IH r b H4 ltac:(lia) (fun _ _ => I)) as (a' & A & B & C & D & E). exists a'. split; [assumption|]. split; [lia|].
    split; [assumption|].
    assert (Hl2 : last_off a ((p, b) :: r) = last_off b r).
    { unfold last_off. cbn [rev]. destruct (rev r) as [|[q c] l]; reflexivity. }
    rewrite Hl2. split; assumption.
Qed.

(* the times the scan may report for a direction: offsets of records of the whole block that carry data *)
Definition Tset (t0 : N) (full : list trec) (d : bool) (t : N) : Prop :=
  exists p b, In (p, b) full /\ pk_size p <> 0 /\ rec_dir p = d /\ t = t0 + b * 1000.

Lemma incl_skipn {A} (l full : list A) k : incl l full -> incl (skipn k l) full.
Proof. intros H x Hx. apply H. revert Hx. revert l H. induction k; intros l H Hx; [assumption|]. destruct l; [destruct Hx|]. right. apply (IHk l); [intros y Hy; apply H; now right|assumption]. Qed.

Section Scan.
  Variables (t0 E0 : N) (full : list trec).

  Lemma data_scan_times : forall fuel tr a expect reft lastrel prev ptc pts,
      sound (map fst tr) -> (length tr < fuel)%nat -> chain a tr -> incl tr full ->
      reft = t0 + (a / P32) * WRAP_NS -> expect + a / P32 = E0 -> (expect <> 0 -> lastrel = u32 a) ->
      last_off a tr / P32 <= E0 ->
      Forall (fun tz => Tset t0 full false (fst tz)) ptc -> Forall (fun tz => Tset t0 full true (fst tz)) pts ->
      forall ptc' pts', data_scan fuel (map fst tr) expect reft lastrel prev ptc pts = Some (ptc', pts') ->
                        Forall (fun tz => Tset t0 full false (fst tz)) ptc' /\ Forall (fun tz => Tset t0 full true (fst tz)) pts'.
  Proof.
    induction fuel as [|fu IH]; intros tr a expect reft lastrel prev ptc pts Hs Hf Hc Hi Hr He Hlr HE Hpc Hps ptc' pts' H; [lia|].
    destruct tr as [|[p b] rest]; [destruct Hs|]. cbn [map fst] in H, Hs. cbn [data_scan] in H. cbv zeta in H.
    destruct Hc as (Hab & Hgap & Hrel & Hc').
    assert (Hlast : b <= last_off a ((p, b) :: rest)).
    { apply (chain_in_le_last _ a p b); [cbn [chain]; auto|now left]. }
    (* the time-wrap bookkeeping *)
    set (wrapped := negb (expect =? 0) && (pk_rel p <? lastrel)) in *.
    assert (Hwrap : (if wrapped then a / P32 + 1 else a / P32) = b / P32).
    { unfold wrapped. destruct (N.eqb_spec expect 0) as [E|E]; cbn [negb andb].
      - (* no wrap expected any more: the remaining offsets stay in the same 2^32 window *)
        assert (a / P32 <= b / P32) by (apply N.div_le_mono; [unfold P32; lia|assumption]).
        assert (b / P32 <= last_off a ((p, b) :: rest) / P32) by (apply N.div_le_mono; [unfold P32; lia|assumption]). lia.
      - rewrite (Hlr E), Hrel. apply (wrap_step a b Hab Hgap). }
    set (reft' := if wrapped then reft + WRAP_NS else reft) in *.
    set (expect' := if wrapped then expect - 1 else expect) in *.
    set (lastrel' := if expect =? 0 then lastrel else pk_rel p) in *.
    assert (Hr' : reft' = t0 + (b / P32) * WRAP_NS) by (unfold reft'; rewrite <- Hwrap, Hr; destruct wrapped; lia).
    assert (He' : expect' + b / P32 = E0).
    { unfold expect'. rewrite <- Hwrap. destruct wrapped eqn:Ew; [|assumption].
      unfold wrapped in Ew. apply andb_true_iff in Ew. destruct Ew as [Ew _]. destruct (N.eqb_spec expect 0); [discriminate|]. lia. }
    assert (Hlr' : expect' <> 0 -> lastrel' = u32 b).
    { intros Hne. unfold lastrel'. destruct (N.eqb_spec expect 0) as [E|E]; [|assumption].
      exfalso. unfold expect', wrapped in Hne. rewrite E in Hne. cbn in Hne. now apply Hne. }
    assert (Hts : reft' + pk_rel p * 1000 = t0 + b * 1000) by (rewrite Hr', Hrel; unfold u32; apply trunc_ts).
    fold (rec_dir p) in H. rewrite Hts in H.
    (* the groups after this record *)
    assert (Hstate : forall ptc1 pts1 prev1,
               (if pk_size p =? 0 then (ptc, pts, prev)
                else if rec_dir p then (ptc, merge_into prev (rec_dir p) (t0 + b * 1000) (pk_size p) pts, Some (rec_dir p, t0 + b * 1000))
                     else (merge_into prev (rec_dir p) (t0 + b * 1000) (pk_size p) ptc, pts, Some (rec_dir p, t0 + b * 1000))) = (ptc1, pts1, prev1) ->
               Forall (fun tz => Tset t0 full false (fst tz)) ptc1 /\ Forall (fun tz => Tset t0 full true (fst tz)) pts1).
    { intros ptc1 pts1 prev1 E. destruct (N.eqb_spec (pk_size p) 0) as [Ez|Ez]; [inversion E; subst; auto|].
      assert (Hme : forall d l, rec_dir p = d -> Forall (fun tz => Tset t0 full d (fst tz)) l ->
                                Forall (fun tz => Tset t0 full d (fst tz)) (merge_into prev d (t0 + b * 1000) (pk_size p) l)).
      { intros d l Hd Hl. assert (Hnew : Tset t0 full d (t0 + b * 1000)).
        { exists p, b. split; [apply Hi; now left|]. auto. }
        unfold merge_into. destruct l as [|[t z] r]; [constructor; [exact Hnew|constructor]|].
        inversion Hl as [|? ? Hh Htl]. destruct prev as [[pd pt]|]; [destruct (Bool.eqb pd d && _)|]; constructor; auto. }
      destruct (rec_dir p) eqn:Ed; inversion E; subst; split; auto. }
    destruct (if pk_size p =? 0 then _ else _) as [[ptc1 pts1] prev1] eqn:Est. destruct (Hstate _ _ _ eq_refl) as [P1 P2].
    cbn [sound] in Hs. unfold has_next in Hs.
    destruct (pk_flags p mod 2 =? 0); cbn [negb] in Hs.
    - inversion H; subst. split; apply Forall_rev; assumption.
    - destruct Hs as (Hk & Hskip & Hsr). rewrite map_length in Hk.
      destruct (negb (pk_skip p =? 0) && (expect' =? 0)) eqn:Esk.
      + (* skipping: only when no wrap is expected any more *)
        rewrite skipN_skipn, skipn_map in H.
        destruct (chain_skipn (N.to_nat (pk_skip p)) rest b Hc' Hk (fun _ _ => I)) as (a' & A & B & C & D & Elast).
        assert (Hl2 : last_off a ((p, b) :: rest) = last_off b rest).
        { unfold last_off. cbn [rev]. destruct (rev rest) as [|[q c] l]; reflexivity. }
        apply andb_true_iff in Esk. destruct Esk as [_ Esk]. apply N.eqb_eq in Esk.
        assert (Hsame : a' / P32 = b / P32).
        { assert (b / P32 <= a' / P32) by (apply N.div_le_mono; [unfold P32; lia|assumption]).
          assert (a' / P32 <= last_off b rest / P32) by (apply N.div_le_mono; [unfold P32; lia|assumption]). rewrite Hl2 in HE. lia. }
        apply (IH (skipn (N.to_nat (pk_skip p)) rest) a' expect' reft' lastrel' prev1 ptc1 pts1); auto.
        * rewrite <- skipn_map. apply sound_skip; [|rewrite map_length|]; assumption.
        * rewrite skipn_length. cbn [length] in Hf. lia.
        * apply incl_skipn. intros x Hx. apply Hi. now right.
        * now rewrite Hsame.
        * now rewrite Hsame.
        * intros Hne. contradiction.
        * rewrite Elast, <- Hl2. assumption.
      + apply (IH rest b expect' reft' lastrel' prev1 ptc1 pts1); auto.
        * cbn [length] in Hf. lia.
        * intros x Hx. apply Hi. now right.
        * assert (Hl2 : last_off a ((p, b) :: rest) = last_off b rest).
          { unfold last_off. cbn [rev]. destruct (rev rest) as [|[q c] l]; reflexivity. }
          now rewrite <- Hl2.
  Qed.
End Scan.

(* ------------------------------------------------------------------ *)
(* chunk times come from the time groups                               *)
(* ------------------------------------------------------------------ *)
Lemma emit_pred (P : N -> Prop) : forall fuel dir content sz pt cks c' pt',
    Forall (fun tz => P (fst tz)) pt -> emit fuel dir content sz pt = Some (cks, c', pt') ->
    Forall (fun c => c_dir c = dir /\ P (c_ts c)) cks /\ Forall (fun tz => P (fst tz)) pt'.
Proof.
  induction fuel as [|fu IH]; intros dir content sz pt cks c' pt' Hp H; [discriminate|]. cbn [emit] in H.
  destruct pt as [|[t z] r]; [discriminate|]. inversion Hp as [|? ? Ht Hr]; subst. cbn [fst] in Ht.
  assert (Hrest : Forall (fun tz => P (fst tz)) (if z - N.min sz z =? 0 then r else (t, z - N.min sz z) :: r)).
  { destruct (z - N.min sz z =? 0); [assumption|constructor; assumption]. }
  destruct (sz - N.min sz z =? 0).
  - inversion H; subst. split; [constructor; [split; [reflexivity|exact Ht]|constructor]|exact Hrest].
  - destruct (emit fu dir _ _ _) as [[[cs0 c0] p0]|] eqn:Ee; [|discriminate]. inversion H; subst.
    destruct (IH _ _ _ _ _ _ _ Hrest Ee) as [A B]. split; [constructor; [split; [reflexivity|exact Ht]|exact A]|exact B].
Qed.

Lemma replay_pred (Pc Ps : N -> Prop) : forall fuel d seg cc cs ptc pts cks,
    Forall (fun tz => Pc (fst tz)) ptc -> Forall (fun tz => Ps (fst tz)) pts ->
    replay fuel d seg cc cs ptc pts = Some cks ->
    Forall (fun c => if c_dir c then Ps (c_ts c) else Pc (c_ts c)) cks.
Proof.
  induction fuel as [|fu IH]; intros d seg cc cs ptc pts cks Hc Hs H; [discriminate|]. cbn [replay] in H.
  assert (Hmain : match read_varint seg 0 with
                  | None => None
                  | Some (sz, seg') =>
                    if sz =? 0 then replay fu (negb d) seg' cc cs ptc pts
                    else if d then match emit (S (length pts)) d cs sz pts with
                                   | Some (ch, cs', pts') => match replay fu (negb d) seg' cc cs' ptc pts' with Some l => Some (ch ++ l) | None => None end
                                   | None => None end
                         else match emit (S (length ptc)) d cc sz ptc with
                              | Some (ch, cc', ptc') => match replay fu (negb d) seg' cc' cs ptc' pts with Some l => Some (ch ++ l) | None => None end
                              | None => None end
                  end = Some cks -> Forall (fun c => if c_dir c then Ps (c_ts c) else Pc (c_ts c)) cks).
  { intros H'. destruct (read_varint seg 0) as [[sz seg']|]; [|discriminate].
    destruct (sz =? 0); [eapply IH; eauto|]. destruct d.
    - destruct (emit (S (length pts)) true cs sz pts) as [[[ch cs'] pts']|] eqn:Ee; [|discriminate].
      destruct (replay fu (negb true) seg' cc cs' ptc pts') as [l|] eqn:Er; [|discriminate]. inversion H'; subst.
      destruct (emit_pred Ps _ _ _ _ _ _ _ _ Hs Ee) as [A B]. apply Forall_app. split.
      + eapply Forall_impl; [|exact A]. intros c [E1 E2]. now rewrite E1.
      + eapply IH; [exact Hc|exact B|exact Er].
    - destruct (emit (S (length ptc)) false cc sz ptc) as [[[ch cc'] ptc']|] eqn:Ee; [|discriminate].
      destruct (replay fu (negb false) seg' cc' cs ptc' pts) as [l|] eqn:Er; [|discriminate]. inversion H'; subst.
      destruct (emit_pred Pc _ _ _ _ _ _ _ _ Hc Ee) as [A B]. apply Forall_app. split.
      + eapply Forall_impl; [|exact A]. intros c [E1 E2]. now rewrite E1.
      + eapply IH; [exact B|exact Hs|exact Er]. }
  destruct cc as [|c0 ccr], cs as [|s0 csr]; try (apply Hmain; exact H). inversion H; subst. constructor.
Qed.

(* ------------------------------------------------------------------ *)
(* the tagged block of a stream                                        *)
(* ------------------------------------------------------------------ *)
Definition off_of (t0 : N) (p : ipacket) : N := (p_ts p - t0) / 1000.
Fixpoint stream_records_t (imps : list (bytes * N)) (t0 : N) (d : list (N * bytes)) (pi : N) (ps : list ipacket) : list (packet_rec * N) :=
  match ps with
  | [] => []
  | p :: r =>
    let ds := match data_size_of pi d None with Some z => z | None => 0 end in
    map (fun x => (x, off_of t0 p)) (packet_records imps (u32 (off_of t0 p)) (dir_flag (p_dir p)) ds true (p_srcs p))
    ++ stream_records_t imps t0 d (N.succ pi) r
  end.
Lemma stream_records_t_fst imps t0 d : forall ps pi, map fst (stream_records_t imps t0 d pi ps) = stream_records imps t0 d pi ps.
Proof.
  induction ps as [|p r IH]; intros pi; [reflexivity|]. cbn [stream_records_t stream_records]. rewrite map_app, map_map. cbn [fst].
  rewrite map_id, IH. reflexivity.
Qed.

Lemma packet_records_rel imps rel dfl ds : forall srcs first, Forall (fun x => pk_rel x = rel) (packet_records imps rel dfl ds first srcs).
Proof.
  induction srcs as [|s r IH]; intros first; cbn [packet_records]; [constructor|]. apply Forall_app. split; [|apply IH].
  apply Forall_map. apply Forall_forall. intros z _. reflexivity.
Qed.
Lemma packet_records_nonempty imps rel dfl ds first srcs : srcs <> [] -> packet_records imps rel dfl ds first srcs <> [].
Proof.
  destruct srcs as [|s r]; [contradiction|]. intros _. cbn [packet_records].
  pose proof (split_sizes_nonempty (N.to_nat ((if first then ds else 0) / 65535)) (if first then ds else 0)) as H.
  destruct (split_sizes _ _); [contradiction|discriminate].
Qed.

Lemma chain_same b rest : forall recs a, recs <> [] -> a <= b -> b - a < P32 -> Forall (fun x => pk_rel x = u32 b) recs -> chain b rest ->
  chain a (map (fun x => (x, b)) recs ++ rest).
Proof.
  induction recs as [|x r IH]; intros a Hne Hab Hg Hf Hc; [contradiction|]. inversion Hf; subst. cbn [map app chain].
  split; [assumption|]. split; [assumption|]. split; [assumption|].
  destruct r as [|y r']; [exact Hc|]. apply IH; [discriminate|lia|unfold P32; lia|assumption|assumption].
Qed.

Lemma stream_chain imps t0 d : forall ps pi a prev, pkt_wf t0 a prev ps -> chain a (stream_records_t imps t0 d pi ps).
Proof.
  induction ps as [|p r IH]; intros pi a prev H; [exact I|]. destruct H as (H1 & H2 & H3 & H4 & H5). cbn [stream_records_t].
  apply chain_same; auto.
  - now apply packet_records_nonempty.
  - apply packet_records_rel.
  - eapply IH; eauto.
Qed.

(* blockify on tagged records: the tags stay *)
Fixpoint blockify_t (tr : list (packet_rec * N)) : list (packet_rec * N) :=
  match tr with
  | [] => []
  | [(p, b)] => [(terminator p, b)]
  | (p, b) :: rest => (with_skip p (N.min (snd (set_skips (map fst rest))) 255), b) :: blockify_t rest
  end.
Lemma blockify_t_fst : forall tr, map fst (blockify_t tr) = blockify (map fst tr) [].
Proof.
  induction tr as [|[p b] rest IH]; [reflexivity|]. destruct rest as [|[q c] r].
  - reflexivity.
  - change (map fst ((p, b) :: (q, c) :: r)) with (p :: q :: map fst r). rewrite blockify_cons.
    cbn [blockify_t map fst]. f_equal. exact IH.
Qed.
Lemma blockify_t_chain : forall tr a, chain a tr -> chain a (blockify_t tr).
Proof.
  induction tr as [|[p b] rest IH]; intros a H; [exact I|]. destruct H as (H1 & H2 & H3 & H4).
  destruct rest as [|[q c] r]; cbn [blockify_t chain]; [auto|].
  split; [assumption|]. split; [assumption|]. split; [assumption|]. now apply IH.
Qed.
Lemma blockify_t_in : forall tr p' b, Forall (fun x => flags_ok (fst x)) tr -> In (p', b) (blockify_t tr) ->
  exists p, In (p, b) tr /\ pk_size p' = pk_size p /\ rec_dir p' = rec_dir p.
Proof.
  induction tr as [|[p b0] rest IH]; intros p' b Hf Hin; [destruct Hin|]. inversion Hf as [|? ? Hp Hr]; subst. cbn [fst] in Hp.
  destruct rest as [|[q c] r].
  - destruct Hin as [E|[]]. inversion E; subst. exists p. split; [now left|]. split; [reflexivity|]. now destruct (flags_term p Hp).
  - destruct Hin as [E|Hin].
    + inversion E; subst. exists p. split; [now left|]. split; reflexivity.
    + destruct (IH _ _ Hr Hin) as (p1 & H1 & H2). exists p1. split; [now right|assumption].
Qed.
Lemma last_off_blockify_t : forall tr a, last_off a (blockify_t tr) = last_off a tr.
Proof.
  induction tr as [|[p b] rest IH]; intros a; [reflexivity|]. destruct rest as [|[q c] r].
  - reflexivity.
  - change (blockify_t ((p, b) :: (q, c) :: r)) with ((with_skip p (N.min (snd (set_skips (map fst ((q, c) :: r)))) 255), b) :: blockify_t ((q, c) :: r)).
    rewrite (last_off_cons a _ b), (last_off_cons a p b). apply IH.
Qed.

(* ------------------------------------------------------------------ *)
(* from tagged records back to the packets of the input                *)
(* ------------------------------------------------------------------ *)
Lemma split_sizes_zero fuel : forall z, In z (split_sizes fuel 0) -> z = 0.
Proof. destruct fuel; cbn [split_sizes]; intros z [E|[]]; now subst. Qed.

Lemma packet_records_in imps rel d ds : forall srcs first x, In x (packet_records imps rel (dir_flag d) ds first srcs) ->
  rec_dir x = d /\ (pk_size x <> 0 -> ds <> 0).
Proof.
  induction srcs as [|s r IH]; intros first x Hin; [destruct Hin|]. cbn [packet_records] in Hin. apply in_app_or in Hin.
  destruct Hin as [Hin|Hin]; [|now apply (IH false)].
  apply in_map_iff in Hin. destruct Hin as (z & E & Hz). subst x. unfold rec_dir. cbn [pk_flags pk_size]. split; [apply dir_flag_dir|].
  intros Hnz. destruct first; [|apply split_sizes_zero in Hz; contradiction]. intros E0. rewrite E0 in Hz. apply split_sizes_zero in Hz. contradiction.
Qed.

Definition carries (s : istream) (q : ipacket) : Prop :=
  exists k z, nthN (s_packets s) k = Some q /\ data_size_of k (s_data s) None = Some z /\ z <> 0.

Lemma stream_records_t_in imps t0 s : forall ps pi p b,
    (forall j q, nth_error ps j = Some q -> nthN (s_packets s) (pi + N.of_nat j) = Some q) ->
    In (p, b) (stream_records_t imps t0 (s_data s) pi ps) ->
    exists q, In q (s_packets s) /\ b = off_of t0 q /\ rec_dir p = p_dir q /\ (pk_size p <> 0 -> carries s q).
Proof.
  induction ps as [|q0 r IH]; intros pi p b Hnth Hin; [destruct Hin|]. cbn [stream_records_t] in Hin. apply in_app_or in Hin.
  destruct Hin as [Hin|Hin].
  - apply in_map_iff in Hin. destruct Hin as (x & E & Hx). inversion E; subst x b. clear E.
    destruct (packet_records_in _ _ _ _ _ _ _ Hx) as [Hd Hs].
    pose proof (Hnth 0%nat q0 eq_refl) as Hq. rewrite N.add_0_r in Hq.
    exists q0. split; [rewrite nthN_nth_error in Hq; eapply nth_error_In; eauto|]. split; [reflexivity|]. split; [assumption|].
    intros Hnz. specialize (Hs Hnz). exists pi. destruct (data_size_of pi (s_data s) None) as [z|]; [|contradiction]. exists z. auto.
  - apply (IH (N.succ pi)); [|assumption]. intros j q Hj. rewrite <- (Hnth (S j) q Hj). f_equal. lia.
Qed.

Lemma pkt_wf_le_last t0 : forall ps a prev d q, pkt_wf t0 a prev ps -> In q ps -> off_of t0 q <= off_of t0 (last ps d).
Proof.
  induction ps as [|p r IH]; intros a prev d q H Hin; [destruct Hin|]. destruct H as (H1 & H2 & H3 & H4 & H5).
  destruct r as [|p2 r2]; [destruct Hin as [->|[]]; cbn [last]; lia|].
  change (last (p :: p2 :: r2) d) with (last (p2 :: r2) d).
  destruct Hin as [->|Hin]; [|eapply IH; eauto].
  pose proof (IH _ _ d p2 H5 (or_introl eq_refl)). destruct H5 as (A & _). unfold off_of in *. lia.
Qed.

Lemma last_off_in : forall tr a, last_off a tr = a \/ exists p, In (p, last_off a tr) tr.
Proof.
  intros tr a. unfold last_off. destruct (rev tr) as [|[p b] l] eqn:E; [now left|]. right. exists p. apply in_rev. rewrite E. now left.
Qed.

(* ------------------------------------------------------------------ *)
(* Theorem 3, chunk times (partial)                                    *)
(* ------------------------------------------------------------------ *)
Theorem data_chunk_times gcap L w r :
  16 < gcap <= 4 * P16 ->
  Forall (fun ids => wf_meta (snd ids)) L ->
  add_streams gcap new_writer L = Some w -> new_reader (finalize w) = Some r -> lenN (w_packets w) < P32 ->
  forall k id s rec cks, nth_error L k = Some (id, s) -> wf_packets s -> wf_data s ->
    nth_error (all_streams r) k = Some rec -> data r rec = Some cks ->
    Forall (fun c => exists q, In q (s_packets s) /\ p_dir q = c_dir c /\ carries s q /\
                               c_ts c = first_ts s + ((p_ts q - first_ts s) / 1000) * 1000) cks.
Proof.
  intros Hcap Hwf Hadd Hr Hcnt k id s rec cks Hk [Hne Hwp] Hwd Hrec Hdata.
  pose proof (add_streams_winv gcap ltac:(lia) L new_writer [] w (winv_new gcap) Hwf Hadd) as (HF & _). cbn [app] in HF.
  destruct (Forall2_nth_r _ _ _ HF _ _ Hk) as (rec0 & Hrec0 & St). cbn [fst snd] in St.
  unfold all_streams in Hrec. rewrite (rw_streams w r Hr) in Hrec. assert (rec = rec0) by congruence. subst rec0.
  destruct (sd_packets _ _ _ _ _ St) as (pre & post & Hp & Hs).
  assert (Hpre : lenN pre < P32) by (rewrite Hp, lenN_app in Hcnt; lia).
  destruct (sd_wf _ _ _ _ _ St) as (_ & Ho1 & Ho2).
  set (t0 := first_ts s) in *.
  set (TR := stream_records_t (w_imports w) t0 (s_data s) 0 (s_packets s)).
  set (full := blockify_t TR).
  assert (HB : stream_block (w_imports w) s = map fst full).
  { unfold full, TR. rewrite blockify_t_fst, stream_records_t_fst. unfold stream_block, blockify. now rewrite app_nil_r. }
  assert (Hflags : Forall (fun x => flags_ok (fst x)) TR).
  { apply Forall_forall. intros x Hx. pose proof (stream_records_flags (w_imports w) t0 (s_data s) (s_packets s) 0) as Hf.
    rewrite <- (stream_records_t_fst (w_imports w) t0 (s_data s) (s_packets s) 0) in Hf. fold TR in Hf. rewrite Forall_forall in Hf.
    apply Hf. now apply in_map. }
  assert (HR : map fst TR <> []).
  { unfold TR. rewrite stream_records_t_fst. destruct (s_packets s) as [|p0 ps] eqn:Ep; [contradiction|]. apply stream_records_nonempty.
    destruct Hwd as (_ & _ & Hsrc). rewrite Ep in Hsrc. now inversion Hsrc. }
  assert (Hsound : sound (map fst full)).
  { unfold full. rewrite blockify_t_fst. apply blockify_sound; [assumption|].
    apply Forall_forall. intros x Hx. apply in_map_iff in Hx. destruct Hx as (y & <- & Hy). rewrite Forall_forall in Hflags. now apply Hflags. }
  assert (Hchain : chain 0 full) by (unfold full, TR; apply blockify_t_chain; eapply stream_chain; exact Hwp).
  (* unfold Data() *)
  unfold data in Hdata. rewrite (rw_packets w r Hr), (rw_data w r Hr) in Hdata.
  rewrite Hs in Hdata. unfold u32 in Hdata. rewrite N.mod_small in Hdata by assumption. rewrite Hp, skipN_app, HB in Hdata.
  assert (Hft : first_packet_time r rec = t0).
  { unfold first_packet_time. rewrite (rw_ref w r Hr). apply (sd_first _ _ _ _ _ St). }
  rewrite Hft in Hdata.
  rewrite (data_scan_local (S (length (map fst full ++ post))) (S (length full)) (map fst full) post _ _ _ _ _ _ Hsound) in Hdata
    by (rewrite ?app_length, ?map_length; lia).
  destruct (data_scan (S (length full)) (map fst full) (expect_wraps rec) t0 0 None [] []) as [[ptc pts]|] eqn:Escan; [|discriminate].
  (* the expected number of wraps covers the stream *)
  assert (HE : last_off 0 full / P32 <= expect_wraps rec).
  { unfold full. rewrite last_off_blockify_t.
    assert (Hexp : expect_wraps rec = (last_ts s - t0 + 1000) / WRAP_NS).
    { unfold expect_wraps. pose proof (sd_first _ _ _ _ _ St) as Hf. pose proof (sd_last _ _ _ _ _ St) as Hl. fold t0 in Hf.
      set (X := w_ref w * NS) in *. f_equal. f_equal.
      replace (st_last rec + P64 - st_first rec) with ((st_last rec - st_first rec) + 1 * P64) by lia.
      unfold u64. rewrite N.mod_add by (unfold P64; lia). rewrite N.mod_small by lia. lia. }
    rewrite Hexp.
    assert (Hbl : forall q, In q (s_packets s) -> off_of t0 q <= (last_ts s - t0) / 1000).
    { intros q Hq. unfold last_ts. destruct (s_packets s) as [|p0 ps] eqn:Ep; [destruct Hq|].
      apply (pkt_wf_le_last t0 (p0 :: ps) 0 None p0 q Hwp Hq). }
    assert (Hlo : last_off 0 TR <= (last_ts s - t0) / 1000).
    { destruct (last_off_in TR 0) as [E|(p & Hin)]; [rewrite E; lia|].
      destruct (stream_records_t_in (w_imports w) t0 s (s_packets s) 0 p (last_off 0 TR)) with (2 := Hin) as (q & Hq & Eb & _).
      - intros j q Hj. now rewrite nthN_nth_error, N.add_0_l, Nat2N.id.
      - rewrite Eb. now apply Hbl. }
    unfold WRAP_NS. rewrite (N.mul_comm P32 1000), <- N.div_div by (unfold P32; lia).
    replace (last_ts s - t0 + 1000) with ((last_ts s - t0) + 1 * 1000) by lia. rewrite N.div_add by lia.
    etransitivity; [apply N.div_le_mono; [unfold P32; lia|exact Hlo]|]. apply N.div_le_mono; [unfold P32; lia|lia]. }
  destruct (data_scan_times t0 (expect_wraps rec) full (S (length full)) full 0 (expect_wraps rec) t0 0 None [] []
                            Hsound ltac:(lia) Hchain (fun x H => H) ltac:(cbn; lia) ltac:(cbn; lia) (fun _ => eq_refl) HE
                            (Forall_nil _) (Forall_nil _) ptc pts Escan) as [Tc Ts].
  (* the replay only hands out group times *)
  match type of Hdata with (if ?c then None else ?rp) = Some cks => destruct c; [discriminate|] end.
  pose proof (replay_pred (Tset t0 full false) (Tset t0 full true) _ _ _ _ _ _ _ _ Tc Ts Hdata) as Hall.
  eapply Forall_impl; [|exact Hall]. intros c Hc.
  cbv beta in Hc. assert (Ht : Tset t0 full (c_dir c) (c_ts c)) by (destruct (c_dir c); exact Hc).
  destruct Ht as (p' & b & Hin & Hsz & Hd & Et).
  destruct (blockify_t_in TR p' b Hflags Hin) as (p & Hin2 & E1 & E2).
  destruct (stream_records_t_in (w_imports w) t0 s (s_packets s) 0 p b) with (2 := Hin2) as (q & Hq & Eb & Edir & Hcar).
  - intros j q Hj. now rewrite nthN_nth_error, N.add_0_l, Nat2N.id.
  - exists q. split; [assumption|]. split; [congruence|]. split; [apply Hcar; congruence|]. rewrite Et, Eb. reflexivity.
Qed.
