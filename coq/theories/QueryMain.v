(* QueryMain.v -- normalisation preserves meaning: eval (parse_conditions e) v = sem v e for every
   well-formed expression without THEN (AND / OR / NOT / parentheses / directives over every filter kind). *)
From Coq Require Import List NArith ZArith Bool Lia Permutation Arith.
From Pk Require Import Query QuerySort QueryClean QueryFlags QueryHosts QueryOps QuerySet QueryAtoms.
Import ListNotations.
Open Scope Z_scope.

Fixpoint expr_wf (e : expr) : Prop :=
  match e with
  | EAtom a => atom_wf a
  | ESkip => True
  | ENot a => expr_wf a
  | EAnd a b | EOr a b | EThen a b => expr_wf a /\ expr_wf b
  end.

(* boolean semantics of THEN-free expressions: every filter is evaluated at the same position *)
Fixpoint bsem (v : valuation) (e : expr) (p : N) : bool :=
  match e with
  | EAtom a => atom_holds v a p
  | ESkip => true
  | ENot a => negb (bsem v a p)
  | EAnd a b | EThen a b => bsem v a p && bsem v b p
  | EOr a b => bsem v a p || bsem v b p
  end.

Lemma bool_eq_iff (a b : bool) : (a = true <-> b = true) -> a = b.
Proof.
  destruct a, b; intros [H1 H2]; try reflexivity.
  - symmetry. apply H1. reflexivity.
  - apply H2. reflexivity.
Qed.

Lemma existsb_seq_nth {A} (f : A -> bool) (l : list A) :
  existsb (fun j => match nth_error l j with Some x => f x | None => false end) (seq 0 (length l)) = existsb f l.
Proof.
  apply bool_eq_iff. rewrite !existsb_exists. split.
  - intros (j & Hj & H). destruct (nth_error l j) as [x|] eqn:E; [|discriminate]. exists x. split; auto.
    eapply nth_error_In; eauto.
  - intros (x & Hx & H). apply In_nth_error in Hx as [j Hj]. exists j. split.
    + apply in_seq. split; [lia|]. cbn. apply nth_error_Some. congruence.
    + rewrite Hj. exact H.
Qed.

Lemma existsb_seq_app (f : nat -> bool) m n :
  existsb f (seq 0 (m + n)) = existsb f (seq 0 m) || existsb (fun k => f (m + k)%nat) (seq 0 n).
Proof.
  apply bool_eq_iff. rewrite orb_true_iff, !existsb_exists. split.
  - intros (j & Hj & H). apply in_seq in Hj. destruct (Nat.lt_ge_cases j m).
    + left. exists j. split; [apply in_seq; lia|exact H].
    + right. exists (j - m)%nat. split; [apply in_seq; lia|]. replace (m + (j - m))%nat with j by lia. exact H.
  - intros [(j & Hj & H)|(k & Hk & H)].
    + apply in_seq in Hj. exists j. split; [apply in_seq; lia|exact H].
    + apply in_seq in Hk. exists (m + k)%nat. split; [apply in_seq; lia|exact H].
Qed.

Lemma existsb_seq_prod (f g : nat -> bool) m n :
  existsb (fun j => f (j / n)%nat && g (j mod n)%nat) (seq 0 (m * n)) = existsb f (seq 0 m) && existsb g (seq 0 n).
Proof.
  apply bool_eq_iff. rewrite andb_true_iff, !existsb_exists. split.
  - intros (j & Hj & H). apply in_seq in Hj. apply andb_true_iff in H as [Hf Hg].
    assert (n <> 0)%nat by (intros ->; lia).
    split; [exists (j / n)%nat|exists (j mod n)%nat]; (split; [apply in_seq|assumption]).
    + split; [lia|]. cbn. apply Nat.div_lt_upper_bound; lia.
    + split; [lia|]. cbn. apply Nat.mod_upper_bound; auto.
  - intros [(i & Hi & Hf) (k & Hk & Hg)]. apply in_seq in Hi, Hk. exists (i * n + k)%nat. split.
    + apply in_seq. split; [lia|]. cbn. nia.
    + assert (n <> 0)%nat by lia.
      rewrite Nat.div_add_l, Nat.div_small, Nat.add_0_r by lia.
      rewrite Nat.add_comm, Nat.mod_add, Nat.mod_small by lia. rewrite Hf, Hg. reflexivity.
Qed.

Lemma holds_bsem v e : then_free e = true -> forall p, holds v e p = bsem v e p.
Proof.
  unfold holds, seqn. induction e as [a| |a IH|a IHa b IHb|a IHa b IHb|a IHa b IHb]; intros Hf p; cbn [then_free] in Hf.
  - destruct a as [sub names|sub items|cli srv sub items|tys sub ranges|key sub ranges|sub els]; cbn [readings bsem atom_holds run];
      try (cbn [seq existsb]; rewrite orb_false_r; match goal with |- context [atom_truth ?v ?a] => destruct (atom_truth v a) end; reflexivity).
    rewrite <- (existsb_seq_nth (fun el => is_some (v_nxt v el p)) els).
    apply existsb_ext_in. intros j _. destruct (nth_error els j) as [el|]; [|reflexivity].
    destruct (v_nxt v el p); reflexivity.
  - reflexivity.
  - cbn [readings bsem run]. cbn [seq existsb]. rewrite orb_false_r. unfold seqn. rewrite (IH Hf p).
    destruct (bsem v a p); reflexivity.
  - apply andb_true_iff in Hf as [Ha Hb]. cbn [readings bsem run].
    rewrite <- (IHa Ha p), <- (IHb Hb p), <- existsb_seq_prod.
    apply existsb_ext_in. intros j _. destruct (run v a _ p), (run v b _ p); reflexivity.
  - apply andb_true_iff in Hf as [Ha Hb]. cbn [readings bsem run].
    rewrite <- (IHa Ha p), <- (IHb Hb p), existsb_seq_app. f_equal.
    + apply existsb_ext_in. intros j Hj. apply in_seq in Hj.
      destruct (Nat.ltb_spec j (readings a)); [reflexivity|lia].
    + apply existsb_ext_in. intros k _.
      destruct (Nat.ltb_spec (readings a + k) (readings a)); [lia|].
      replace (readings a + k - readings a)%nat with k by lia. reflexivity.
  - discriminate.
Qed.

(* ------------------------------------------------------------------ norm *)
Theorem norm_sound v (ok : val_ok v) e :
  then_free e = true -> expr_wf e ->
  match norm e with
  | Some cs => cs <> [] /\ cset_wf cs /\
               exists e', strip e = Some e' /\ then_free e' = true /\ eval_set v cs = bsem v e' (v_start v)
  | None => strip e = None
  end.
Proof.
  induction e as [a| |a IH|a IHa b IHb|a IHa b IHb|a IHa b IHb]; intros Hf Hw; cbn [then_free expr_wf norm strip] in *.
  - destruct (conds_of_atom_sound v ok a Hw) as (E & W & N). repeat split; auto.
    exists (EAtom a). repeat split; auto.
  - reflexivity.
  - specialize (IH Hf Hw). destruct (norm a) as [cs|].
    + destruct IH as (N & W & e' & Es & Ef & Ee). rewrite Es.
      destruct (cs_invert_sound v ok cs N W) as (Ei & Wi & Ni). repeat split; auto.
      exists (ENot e'). repeat split; auto. cbn [bsem]. rewrite Ei, Ee. reflexivity.
    + rewrite IH. reflexivity.
  - apply andb_true_iff in Hf as [Hfa Hfb]. destruct Hw as [Hwa Hwb].
    specialize (IHa Hfa Hwa). specialize (IHb Hfb Hwb).
    destruct (norm a) as [x|], (norm b) as [y|].
    + destruct IHa as (Na & Wa & ea & Esa & Efa & Eea). destruct IHb as (Nb & Wb & eb & Esb & Efb & Eeb).
      rewrite Esa, Esb. destruct (cs_and_sound v ok x y Na Nb Wa Wb) as (E & W & N). repeat split; auto.
      exists (EAnd ea eb). repeat split; [cbn; rewrite Efa, Efb; reflexivity|]. cbn [bsem]. rewrite E, Eea, Eeb. reflexivity.
    + destruct IHa as (Na & Wa & ea & Esa & Efa & Eea). rewrite Esa, IHb. repeat split; auto. exists ea. auto.
    + destruct IHb as (Nb & Wb & eb & Esb & Efb & Eeb). rewrite IHa, Esb. repeat split; auto. exists eb. auto.
    + rewrite IHa, IHb. reflexivity.
  - apply andb_true_iff in Hf as [Hfa Hfb]. destruct Hw as [Hwa Hwb].
    specialize (IHa Hfa Hwa). specialize (IHb Hfb Hwb).
    destruct (norm a) as [x|], (norm b) as [y|].
    + destruct IHa as (Na & Wa & ea & Esa & Efa & Eea). destruct IHb as (Nb & Wb & eb & Esb & Efb & Eeb).
      rewrite Esa, Esb. repeat split.
      * unfold cs_or. destruct x; [congruence|discriminate].
      * apply cset_wf_app; auto.
      * exists (EOr ea eb). repeat split; [cbn; rewrite Efa, Efb; reflexivity|]. cbn [bsem]. rewrite cs_or_sound, Eea, Eeb. reflexivity.
    + destruct IHa as (Na & Wa & ea & Esa & Efa & Eea). rewrite Esa, IHb. repeat split; auto. exists ea. auto.
    + destruct IHb as (Nb & Wb & eb & Esb & Efb & Eeb). rewrite IHa, Esb. repeat split; auto. exists eb. auto.
    + rewrite IHa, IHb. reflexivity.
  - discriminate.
Qed.

Lemma simple_ids_nonempty cs l : cs <> [] -> simple_ids cs = Some l -> l <> [].
Proof.
  destruct cs as [|c0 cs0]; [congruence|]. intros _. cbn [simple_ids].
  destruct (extract_simple_id _) as [[mn mx]|]; [|discriminate].
  destruct (Z.eqb mn mx); [|discriminate]. destruct (simple_ids cs0); [|discriminate].
  intros H; inversion H. discriminate.
Qed.
Lemma insert_nonempty {A} (key : A -> list Z) x l : insert key x l <> [].
Proof. destruct l; cbn; [discriminate|]. destruct (lex_leb _ _); discriminate. Qed.
Lemma zuniq_nonempty a r : zuniq a r <> [].
Proof. revert a; induction r as [|b r IH]; intros a; cbn; [discriminate|]. destruct (Z.eqb a b); [apply IH|discriminate]. Qed.
Lemma id_runs_nonempty rest : forall mn mx, id_runs mn mx rest <> [].
Proof. induction rest as [|b r IH]; intros mn mx; cbn; [discriminate|]. destruct (Z.eqb b (mx + 1)); [apply IH|discriminate]. Qed.

Lemma set_clean_nonempty cs : cs <> [] -> set_clean cs <> [].
Proof.
  intros Hn. unfold set_clean. destruct (clean_simple_id cs) as [c|] eqn:Ef.
  - unfold clean_simple_id in Ef. destruct cs as [|c0 cs0] eqn:Ecs; [congruence|]. rewrite <- Ecs in *.
    destruct (simple_ids cs) as [ids|] eqn:Ei; [|discriminate].
    pose proof (simple_ids_nonempty cs ids Hn Ei) as Hids.
    destruct ids as [|i0 ids']; [congruence|]. cbn [isort] in Ef.
    destruct (insert (fun x : Z => [x]) i0 (isort (fun x : Z => [x]) ids')) as [|a r] eqn:Es;
      [exfalso; eapply insert_nonempty; eauto|].
    destruct (zuniq a r) as [|m r'] eqn:Ez; [exfalso; eapply zuniq_nonempty; eauto|].
    inversion Ef; subst. intros H. apply map_eq_nil in H. eapply id_runs_nonempty; eauto.
  - destruct (clean_loop cs []); [destruct cs; [congruence|discriminate]|discriminate].
Qed.

(* ------------------------------------------------------------------ the theorems of C03 (THEN-free part) *)
Theorem normalisation_preserves_meaning v e :
  val_ok v -> ids_ok v -> then_free e = true -> expr_wf e ->
  eval_set v (parse_conditions e) = sem v e.
Proof.
  intros ok iok Hf Hw. unfold parse_conditions, sem.
  pose proof (norm_sound v ok e Hf Hw) as H. destruct (norm e) as [cs|].
  - destruct H as (N & W & e' & Es & Ef & Ee). rewrite Es, (holds_bsem v e' Ef), <- Ee.
    pose proof (set_clean_sound v ok iok cs W) as Hc.
    pose proof (set_clean_nonempty cs N) as Hn.
    destruct (set_impossible (set_clean cs)) eqn:Ei.
    + rewrite <- Hc. destruct (set_clean cs) as [|c [|c2 r]]; try discriminate. cbn in Ei.
      cbn. rewrite (conj_impossible_eval v c Ei). reflexivity.
    + destruct (set_clean cs); [congruence|exact Hc].
  - rewrite H. reflexivity.
Qed.

Theorem impossible_only_if_unsatisfiable e :
  then_free e = true -> expr_wf e -> parse_conditions e = [] ->
  forall v, val_ok v -> ids_ok v -> sem v e = false.
Proof.
  intros Hf Hw Hp v ok iok. rewrite <- (normalisation_preserves_meaning v e ok iok Hf Hw), Hp. reflexivity.
Qed.
