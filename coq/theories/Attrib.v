(* Model of internal/index/streams/streams.go (Stream, StreamFactory, AddUDPPacket, the
   attribution loop of AddUDPPacket / ReassembledSG, ReassemblyComplete) -- C05/C08.
   Definitions only.

   A stream keeps its packets and data NEWEST FIRST (the Go slices are append-only; the model
   conses), [s_npk] = len(s.Packets).  A data item stores the index into s.Packets of the packet
   it is attributed to, exactly like StreamData.PacketIndex; its direction is the direction of
   that packet (writer.go: `s.PacketDirections[d.PacketIndex]`). *)
From Pk Require Export BuilderOrder.

Definition pref := (N * N * N)%type.                 (* (file rank, index in file, timestamp) *)
Definition pref_of (p : packet) : pref := (p_file p, p_idx p, p_ts p).
Definition pref_ts (r : pref) : N := snd r.

Definition pref_eqb (a b : pref) : bool :=
  match a, b with (f1, i1, t1), (f2, i2, t2) => (t1 =? t2) && (f1 =? f2) && (i1 =? i2) end.

Record stream := mkStream {
  s_client : endpoint; s_server : endpoint;
  s_tcp : bool;
  s_complete : bool;
  s_npk : N;
  s_pkts : list (pref * bool);                       (* newest first; true = server to client *)
  s_data : list (N * list N) }.                      (* newest first; (PacketIndex, bytes) *)

Definition new_stream (tcp : bool) (src dst : endpoint) : stream :=
  mkStream src dst tcp false 0 [] [].

Definition add_packet (s : stream) (r : pref) (dir : bool) : stream :=
  mkStream (s_client s) (s_server s) (s_tcp s) (s_complete s) (s_npk s + 1) ((r, dir) :: s_pkts s) (s_data s).

(* `for i := len(s.Packets) - 1; ; i-- { if same timestamp && same pcap && same index {...; return} }`
   [i] is the index of the head of the newest-first list.  None = the Go loop would run below index 0
   (index out of range panic); the theorems show it is not reached. *)
Fixpoint find_back (l : list (pref * bool)) (n : N) (r : pref) : option N :=
  match l with
  | [] => None
  | (q, _) :: l' => if pref_eqb q r then Some (n - 1) else find_back l' (n - 1) r
  end.

Definition add_data (s : stream) (r : pref) (bytes : list N) : stream :=
  match bytes with
  | [] => s                                            (* `if length == 0 { return }` *)
  | _ =>
    match find_back (s_pkts s) (s_npk s) r with
    | Some i => mkStream (s_client s) (s_server s) (s_tcp s) (s_complete s) (s_npk s) (s_pkts s) ((i, bytes) :: s_data s)
    | None => s
    end
  end.

(* AddUDPPacket *)
Definition add_udp_packet (s : stream) (r : pref) (dir : bool) (bytes : list N) : stream :=
  add_data (add_packet s r dir) r bytes.

Definition set_complete (s : stream) : stream :=
  mkStream (s_client s) (s_server s) (s_tcp s) true (s_npk s) (s_pkts s) (s_data s).

(* Observation of a stream as the index writer uses it: packets oldest first, data items oldest
   first with the direction of the packet they are attributed to. *)
Definition dir_of_index (s : stream) (i : N) : bool :=
  match nth_error (s_pkts s) (N.to_nat (s_npk s - 1 - i)) with Some (_, d) => d | None => false end.

Definition stream_packets (s : stream) : list (pref * bool) := rev (s_pkts s).
Definition stream_data (s : stream) : list (bool * list N) :=
  rev (map (fun d => (dir_of_index s (fst d), snd d)) (s_data s)).

(* payload as direction runs (adjacent items of one direction merged): what C05 compares *)
Fixpoint coalesce (l : list (bool * list N)) : list (bool * list N) :=
  match l with
  | [] => []
  | (d, b) :: r =>
    match coalesce r with
    | (d', b') :: r' => if Bool.eqb d d' then (d, b ++ b') :: r' else (d, b) :: (d', b') :: r'
    | [] => [(d, b)]
    end
  end.

(* The factory: streams in creation order (streamFactory.Streams). *)
Definition factory := list stream.

Fixpoint upd_nth {A} (l : list A) (i : nat) (f : A -> A) : list A :=
  match l, i with
  | [], _ => []
  | x :: r, O => f x :: r
  | x :: r, S j => x :: upd_nth r j f
  end.
