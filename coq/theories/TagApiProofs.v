(* C11 -- proofs about the tag API model (TagApi.v). *)
From Coq Require Import List String Ascii Bool NArith Arith Lia.
Require Import Pk.TagApi.
Import ListNotations.
Open Scope string_scope.
Open Scope list_scope.

Lemma del_tag_error_unchanged : forall st nm e st', del_tag st nm = (Err e, st') -> st' = st.
Proof.
  intros st nm e st'. unfold del_tag.
  destruct (get (tags st) nm); [|intros H; inversion H; auto].
  destruct (nonempty (t_refby t)); [intros H; inversion H; auto|].
  destruct (negb _); intros H; inversion H.
Qed.
