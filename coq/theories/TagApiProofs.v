(* C11 -- proofs about the tag API model (TagApi.v). *)
From Coq Require Import List String Ascii Bool NArith Arith Lia.
Require Import Pk.TagApi.
Import ListNotations.
Open Scope string_scope.
Open Scope list_scope.

(* ---------------------------------------------------------------- basics *)
Lemma seqb_eq : forall a b, String.eqb a b = true <-> a = b.
Proof. apply String.eqb_eq. Qed.
Lemma seqb_neq : forall a b, String.eqb a b = false <-> a <> b.
Proof. apply String.eqb_neq. Qed.

Ltac seq_cases a b :=
  let E := fresh "E" in
  destruct (String.eqb a b) eqn:E; [apply seqb_eq in E | apply seqb_neq in E].

Lemma mem_s_In : forall n l, mem_s n l = true <-> In n l.
Proof.
  intros n l. unfold mem_s. rewrite existsb_exists. split.
  - intros [x [Hx He]]. apply seqb_eq in He. subst. auto.
  - intros H. exists n. split; auto. apply String.eqb_refl.
Qed.
Lemma mem_s_not_In : forall n l, mem_s n l = false <-> ~ In n l.
Proof.
  intros n l. rewrite <- mem_s_In. destruct (mem_s n l).
  - split; [intros H; discriminate H|]. intros H. exfalso. apply H. reflexivity.
  - split; auto.
Qed.

Lemma In_add_name : forall x n l, In x (add_name n l) <-> x = n \/ In x l.
Proof.
  intros x n l. unfold add_name. destruct (mem_s n l) eqn:E.
  - apply mem_s_In in E. split; auto. intros [->|H]; auto.
  - simpl. split; intros [H|H]; auto.
Qed.
Lemma In_rem_name : forall x n l, In x (rem_name n l) <-> x <> n /\ In x l.
Proof.
  intros x n l. unfold rem_name. rewrite filter_In. split.
  - intros [H1 H2]. split; auto. apply negb_true_iff in H2. apply seqb_neq in H2. auto.
  - intros [H1 H2]. split; auto. apply negb_true_iff. apply seqb_neq. auto.
Qed.

Lemma get_set_same : forall ts n t, get (set ts n t) n = Some t.
Proof.
  induction ts as [|[k v] r IH]; intros n t; simpl.
  - rewrite String.eqb_refl. reflexivity.
  - seq_cases k n; simpl.
    + subst. rewrite String.eqb_refl. reflexivity.
    + apply seqb_neq in E. rewrite E. apply IH.
Qed.
Lemma get_set_other : forall ts n t m, n <> m -> get (set ts n t) m = get ts m.
Proof.
  induction ts as [|[k v] r IH]; intros n t m Hne; simpl.
  - apply seqb_neq in Hne. rewrite Hne. reflexivity.
  - seq_cases k n; simpl.
    + subst. apply seqb_neq in Hne. rewrite Hne. reflexivity.
    + seq_cases k m; auto.
Qed.
Lemma get_set : forall ts n t m, get (set ts n t) m = if String.eqb n m then Some t else get ts m.
Proof.
  intros. seq_cases n m.
  - subst. apply get_set_same.
  - apply get_set_other; auto.
Qed.
Lemma get_del : forall ts n m, get (del ts n) m = if String.eqb n m then None else get ts m.
Proof.
  unfold del. induction ts as [|[k v] r IH]; intros n m; simpl.
  - destruct (String.eqb n m); reflexivity.
  - seq_cases k n; simpl.
    + subst. rewrite IH. destruct (String.eqb n m); reflexivity.
    + rewrite IH. seq_cases k m; auto. subst.
      assert (String.eqb n m = false) as ->; auto. apply seqb_neq. auto.
Qed.
Lemma get_map_tags : forall f ts n, get (map_tags f ts) n = option_map (f n) (get ts n).
Proof.
  intros f. induction ts as [|[k v] r IH]; intros n; simpl; auto.
  seq_cases k n; simpl; auto. subst. reflexivity.
Qed.

Lemma has_get : forall ts n, has ts n = true <-> exists t, get ts n = Some t.
Proof.
  intros. unfold has. destruct (get ts n); split; intros; eauto; try congruence.
  destruct H as [t H]. congruence.
Qed.
Lemma has_false_get : forall ts n, has ts n = false <-> get ts n = None.
Proof. intros. unfold has. destruct (get ts n); split; intros; congruence. Qed.

Lemma get_In_keys : forall ts n, has ts n = true <-> In n (keys ts).
Proof.
  induction ts as [|[k v] r IH]; intros n; unfold has; simpl.
  - split; intros; [congruence|tauto].
  - seq_cases k n.
    + split; auto.
    + unfold has in IH. rewrite IH. split; auto. intros [H|H]; auto. contradiction.
Qed.

Lemma keys_map_tags : forall f ts, keys (map_tags f ts) = keys ts.
Proof. intros. unfold keys, map_tags. rewrite map_map. simpl. reflexivity. Qed.

Lemma keys_set_has : forall ts n t, has ts n = true -> keys (set ts n t) = keys ts.
Proof.
  induction ts as [|[k v] r IH]; intros n t H.
  - discriminate.
  - simpl. unfold has in H. simpl in H. seq_cases k n; simpl; auto.
    f_equal. apply IH. exact H.
Qed.
Lemma keys_set_new : forall ts n t, has ts n = false -> keys (set ts n t) = keys ts ++ [n].
Proof.
  induction ts as [|[k v] r IH]; intros n t H; simpl; auto.
  unfold has in H. simpl in H. seq_cases k n; simpl.
  - discriminate.
  - f_equal. apply IH. exact H.
Qed.
Lemma keys_del : forall ts n, keys (del ts n) = filter (fun k => negb (String.eqb k n)) (keys ts).
Proof.
  induction ts as [|[k v] r IH]; intros n; simpl; auto.
  destruct (negb (String.eqb k n)); simpl; rewrite IH; reflexivity.
Qed.

Lemma NoDup_filter : forall {A} (f : A -> bool) l, NoDup l -> NoDup (filter f l).
Proof.
  intros A f l H. induction H; simpl; [constructor|].
  destruct (f x); auto. constructor; auto. rewrite filter_In. tauto.
Qed.
Lemma NoDup_app_single : forall {A} (l : list A) x, NoDup l -> ~ In x l -> NoDup (l ++ [x]).
Proof.
  intros A l x H Hn. induction H; simpl.
  - constructor; auto. constructor.
  - constructor.
    + rewrite in_app_iff. simpl. intros [H1|[H1|[]]]; auto. subst. apply Hn. left; auto.
    + apply IHNoDup. intros H1. apply Hn. right; auto.
Qed.
Lemma nodup_keys_set : forall ts n t, NoDup (keys ts) -> NoDup (keys (set ts n t)).
Proof.
  intros ts n t H. destruct (has ts n) eqn:E.
  - rewrite keys_set_has; auto.
  - rewrite keys_set_new; auto. apply NoDup_app_single; auto.
    rewrite <- get_In_keys. congruence.
Qed.
Lemma nodup_keys_del : forall ts n, NoDup (keys ts) -> NoDup (keys (del ts n)).
Proof. intros. rewrite keys_del. apply NoDup_filter. auto. Qed.

Lemma refs_with_refby : forall t l, refs (with_refby t l) = refs t.
Proof. reflexivity. Qed.
Lemma In_refs : forall r t, In r (refs t) <-> In r (t_main t) \/ In r (t_sub t).
Proof. intros. unfold refs. rewrite nodup_In, in_app_iff. tauto. Qed.

(* ---------------------------------------------------------------- well-formed tag tables *)
Definition closed (ts : tags_t) : Prop :=
  forall k t r, get ts k = Some t -> In r (refs t) -> has ts r = true.
Definition mirror (ts : tags_t) : Prop :=
  forall a ta b, get ts a = Some ta ->
    (In b (t_refby ta) <-> exists tb, get ts b = Some tb /\ In a (refs tb)).
Definition ranked (ts : tags_t) (rank : name -> nat) : Prop :=
  forall k t r, get ts k = Some t -> In r (refs t) -> rank r < rank k.
Definition acyclic (ts : tags_t) : Prop := exists rank, ranked ts rank.

Record wf_tags (ts : tags_t) : Prop := mkWf {
  wf_nodup : NoDup (keys ts);
  wf_closed : closed ts;
  wf_mirror : mirror ts;
  wf_acyclic : acyclic ts
}.

(* the declarative reading of [acyclic]: no tag reaches itself through references *)
Inductive reach (ts : tags_t) : name -> name -> Prop :=
| reach_step : forall a b t, get ts a = Some t -> In b (refs t) -> reach ts a b
| reach_trans : forall a b c, reach ts a b -> reach ts b c -> reach ts a c.

Lemma ranked_reach : forall ts rank a b, ranked ts rank -> reach ts a b -> rank b < rank a.
Proof.
  intros ts rank a b Hr H. induction H.
  - eapply Hr; eauto.
  - lia.
Qed.
Lemma acyclic_no_cycle : forall ts, acyclic ts -> forall a, ~ reach ts a a.
Proof.
  intros ts [rank Hr] a H. apply (ranked_reach _ _ _ _ Hr) in H. lia.
Qed.

Lemma wf_empty : wf_tags [].
Proof.
  constructor.
  - constructor.
  - intros k t r H. discriminate.
  - intros a ta b H. discriminate.
  - exists (fun _ => 0). intros k t r H. discriminate.
Qed.

(* tables with the same graph (keys, references, reverse references) are equally well-formed *)
Definition gview (t : tag) := (refs t, t_refby t).
Definition same_graph (ts ts' : tags_t) : Prop :=
  forall k, option_map gview (get ts k) = option_map gview (get ts' k).

Lemma same_graph_get : forall ts ts' k t', same_graph ts ts' -> get ts' k = Some t' ->
  exists t, get ts k = Some t /\ refs t = refs t' /\ t_refby t = t_refby t'.
Proof.
  intros ts ts' k t' H G. specialize (H k). rewrite G in H. simpl in H.
  destruct (get ts k) as [t|]; simpl in H; [|discriminate].
  exists t. unfold gview in H. injection H as R1 R2. auto.
Qed.
Lemma same_graph_sym : forall ts ts', same_graph ts ts' -> same_graph ts' ts.
Proof. intros ts ts' H k. symmetry. apply H. Qed.
Lemma same_graph_refl : forall ts, same_graph ts ts.
Proof. intros ts k. reflexivity. Qed.
Lemma same_graph_trans : forall a b c, same_graph a b -> same_graph b c -> same_graph a c.
Proof. intros a b c H1 H2 k. rewrite H1. apply H2. Qed.
Lemma same_graph_has : forall ts ts' k, same_graph ts ts' -> has ts k = has ts' k.
Proof.
  intros ts ts' k H. specialize (H k). unfold has.
  destruct (get ts k), (get ts' k); simpl in H; congruence.
Qed.

Lemma wf_same_graph : forall ts ts', same_graph ts ts' -> NoDup (keys ts') -> wf_tags ts -> wf_tags ts'.
Proof.
  intros ts ts' H Hn [_ Hc Hm [rank Hr]]. constructor; auto.
  - intros k t' r G Hin. destruct (same_graph_get _ _ _ _ H G) as [t [G1 [E1 E2]]].
    rewrite <- (same_graph_has _ _ _ H). eapply Hc; eauto. rewrite E1. auto.
  - intros a ta' b G. destruct (same_graph_get _ _ _ _ H G) as [ta [G1 [E1 E2]]].
    rewrite <- E2. rewrite (Hm a ta b G1). split.
    + intros [tb [Gb Hin]]. pose proof (H b) as Hb. rewrite Gb in Hb. simpl in Hb.
      destruct (get ts' b) as [tb'|] eqn:Gb'; simpl in Hb; [|discriminate].
      exists tb'. split; auto. unfold gview in Hb. injection Hb as R1 R2. rewrite <- R1. auto.
    + intros [tb' [Gb' Hin]]. destruct (same_graph_get _ _ _ _ H Gb') as [tb [Gb [F1 F2]]].
      exists tb. split; auto. rewrite F1. auto.
  - exists rank. intros k t' r G Hin. destruct (same_graph_get _ _ _ _ H G) as [t [G1 [E1 E2]]].
    eapply Hr; eauto. rewrite E1. auto.
Qed.

(* replacing a tag by one with the same references and reverse references *)
Lemma same_graph_set : forall ts n t t', get ts n = Some t -> gview t' = gview t -> same_graph ts (set ts n t').
Proof.
  intros ts n t t' G E k. rewrite get_set. seq_cases n k; auto.
  subst. rewrite G. simpl. congruence.
Qed.

(* ---------------------------------------------------------------- has after the table operations *)
Lemma has_map_tags : forall f ts k, has (map_tags f ts) k = has ts k.
Proof. intros. unfold has. rewrite get_map_tags. destruct (get ts k); reflexivity. Qed.
Lemma has_set : forall ts n t k, has (set ts n t) k = String.eqb n k || has ts k.
Proof. intros. unfold has. rewrite get_set. destruct (String.eqb n k); reflexivity. Qed.
Lemma has_del : forall ts n k, has (del ts n) k = negb (String.eqb n k) && has ts k.
Proof. intros. unfold has. rewrite get_del. destruct (String.eqb n k); reflexivity. Qed.

Lemma forallb_has : forall ts l, forallb (has ts) l = true <-> forall r, In r l -> has ts r = true.
Proof. intros. apply forallb_forall. Qed.

Lemma list_max_ge : forall (f : name -> nat) l r, In r l -> f r <= list_max (map f l).
Proof.
  intros f l r. induction l as [|x l IH]; simpl; [tauto|].
  intros [->|H]; [lia|]. specialize (IH H). lia.
Qed.

Lemma wf_no_self : forall ts k t, wf_tags ts -> get ts k = Some t -> ~ In k (refs t).
Proof.
  intros ts k t [_ _ _ [rank Hr]] G H. specialize (Hr k t k G H). lia.
Qed.

(* ---------------------------------------------------------------- AddTag keeps the table well-formed *)
Definition add_refby_f (nm : name) (R : list name) (k : name) (t : tag) : tag :=
  if mem_s k R then with_refby t (add_name nm (t_refby t)) else t.

Lemma refs_add_refby_f : forall nm R k t, refs (add_refby_f nm R k t) = refs t.
Proof. intros. unfold add_refby_f. destruct (mem_s k R); reflexivity. Qed.

Lemma wf_add : forall ts nm nt,
  wf_tags ts -> has ts nm = false -> ~ In nm (refs nt) ->
  (forall r, In r (refs nt) -> has ts r = true) -> t_refby nt = [] ->
  wf_tags (map_tags (add_refby_f nm (refs nt)) (set ts nm nt)).
Proof.
  intros ts nm nt W Hnew Hself Hex Hrb. set (R := refs nt) in *.
  pose proof W as [Wn Wc Wm [rank Wr]].
  assert (Hnone : get ts nm = None) by (apply has_false_get; auto).
  constructor.
  - rewrite keys_map_tags. apply nodup_keys_set. auto.
  - intros k t r G Hin. rewrite has_map_tags, has_set.
    rewrite get_map_tags, get_set in G. seq_cases nm k.
    + subst k. cbn [option_map] in G. injection G as <-. rewrite refs_add_refby_f in Hin.
      rewrite (Hex r Hin). apply orb_true_r.
    + destruct (get ts k) as [t0|] eqn:G0; cbn [option_map] in G; [|discriminate]. injection G as <-.
      rewrite refs_add_refby_f in Hin. rewrite (Wc k t0 r G0 Hin). apply orb_true_r.
  - intros a ta b G. rewrite get_map_tags, get_set in G. seq_cases nm a.
    + subst a. cbn [option_map] in G. injection G as <-.
      assert (E0 : add_refby_f nm R nm nt = nt).
      { unfold add_refby_f. apply mem_s_not_In in Hself. fold R in Hself. rewrite Hself. reflexivity. }
      rewrite E0, Hrb. split; [intros []|].
      intros [tb [Gb Hin]]. rewrite get_map_tags, get_set in Gb. seq_cases nm b.
      * subst b. cbn [option_map] in Gb. injection Gb as <-. rewrite refs_add_refby_f in Hin.
        contradiction.
      * destruct (get ts b) as [tb0|] eqn:Gb0; cbn [option_map] in Gb; [|discriminate]. injection Gb as <-.
        rewrite refs_add_refby_f in Hin. pose proof (Wc b tb0 nm Gb0 Hin). congruence.
    + destruct (get ts a) as [ta0|] eqn:Ga0; cbn [option_map] in G; [|discriminate]. injection G as <-.
      assert (Hb : In b (t_refby (add_refby_f nm R a ta0)) <-> (In a R /\ b = nm) \/ In b (t_refby ta0)).
      { unfold add_refby_f. destruct (mem_s a R) eqn:Em.
        - apply mem_s_In in Em. simpl. rewrite In_add_name. tauto.
        - apply mem_s_not_In in Em. tauto. }
      rewrite Hb. rewrite (Wm a ta0 b Ga0). split.
      * intros [[Ha ->]|[tb [Gb Hin]]].
        -- exists (add_refby_f nm R nm nt). split.
           ++ rewrite get_map_tags, get_set_same. reflexivity.
           ++ rewrite refs_add_refby_f. exact Ha.
        -- exists (add_refby_f nm R b tb). split.
           ++ rewrite get_map_tags, get_set. seq_cases nm b; [subst; congruence|]. rewrite Gb. reflexivity.
           ++ rewrite refs_add_refby_f. exact Hin.
      * intros [tb [Gb Hin]]. rewrite get_map_tags, get_set in Gb. seq_cases nm b.
        -- subst b. cbn [option_map] in Gb. injection Gb as <-. rewrite refs_add_refby_f in Hin. left. auto.
        -- destruct (get ts b) as [tb0|] eqn:Gb0; cbn [option_map] in Gb; [|discriminate]. injection Gb as <-.
           rewrite refs_add_refby_f in Hin. right. exists tb0. auto.
  - exists (fun x => if String.eqb x nm then S (list_max (map rank R)) else rank x).
    intros k t r G Hin. rewrite get_map_tags, get_set in G. seq_cases nm k.
    + subst k. cbn [option_map] in G. injection G as <-. rewrite refs_add_refby_f in Hin. fold R in Hin.
      rewrite String.eqb_refl. seq_cases r nm; [subst; contradiction|].
      pose proof (list_max_ge rank R r Hin). lia.
    + destruct (get ts k) as [t0|] eqn:G0; cbn [option_map] in G; [|discriminate]. injection G as <-.
      rewrite refs_add_refby_f in Hin. seq_cases k nm; [subst; congruence|].
      seq_cases r nm.
      * subst r. pose proof (Wc k t0 nm G0 Hin). congruence.
      * eapply Wr; eauto.
Qed.

(* ---------------------------------------------------------------- DelTag *)
Definition del_refby_f (nm : name) (R : list name) (k : name) (t : tag) : tag :=
  if mem_s k R then with_refby t (rem_name nm (t_refby t)) else t.
Lemma refs_del_refby_f : forall nm R k t, refs (del_refby_f nm R k t) = refs t.
Proof. intros. unfold del_refby_f. destruct (mem_s k R); reflexivity. Qed.

Lemma wf_del : forall ts nm tg,
  wf_tags ts -> get ts nm = Some tg -> t_refby tg = [] ->
  wf_tags (map_tags (del_refby_f nm (refs tg)) (del ts nm)).
Proof.
  intros ts nm tg W Gn Hrb. set (R := refs tg) in *.
  pose proof W as [Wn Wc Wm [rank Wr]].
  (* nobody references nm *)
  assert (Hnoref : forall b tb, get ts b = Some tb -> ~ In nm (refs tb)).
  { intros b tb Gb Hin. assert (In b (t_refby tg)) by (apply (Wm nm tg b Gn); eauto). rewrite Hrb in H. destruct H. }
  constructor.
  - rewrite keys_map_tags. apply nodup_keys_del. auto.
  - intros k t r G Hin. rewrite has_map_tags, has_del.
    rewrite get_map_tags, get_del in G. seq_cases nm k; [discriminate|].
    destruct (get ts k) as [t0|] eqn:G0; cbn [option_map] in G; [|discriminate]. injection G as <-.
    rewrite refs_del_refby_f in Hin. rewrite (Wc k t0 r G0 Hin).
    seq_cases nm r; [|reflexivity]. subst r. exfalso. eapply Hnoref; eauto.
  - intros a ta b G. rewrite get_map_tags, get_del in G. seq_cases nm a; [discriminate|].
    destruct (get ts a) as [ta0|] eqn:Ga0; cbn [option_map] in G; [|discriminate]. injection G as <-.
    assert (Hb : In b (t_refby (del_refby_f nm R a ta0)) <-> b <> nm /\ In b (t_refby ta0)).
    { unfold del_refby_f. destruct (mem_s a R) eqn:Em.
      - simpl. apply In_rem_name.
      - apply mem_s_not_In in Em. split; [|tauto]. intros Hin. split; auto. intros ->.
        apply Em. apply (Wm a ta0 nm Ga0) in Hin. destruct Hin as [tb [Gb Hin]]. unfold R. congruence. }
    rewrite Hb. rewrite (Wm a ta0 b Ga0). split.
    + intros [Hne [tb [Gb Hin]]]. exists (del_refby_f nm R b tb). split.
      * rewrite get_map_tags, get_del. seq_cases nm b; [congruence|]. rewrite Gb. reflexivity.
      * rewrite refs_del_refby_f. exact Hin.
    + intros [tb [Gb Hin]]. rewrite get_map_tags, get_del in Gb. seq_cases nm b; [discriminate|].
      destruct (get ts b) as [tb0|] eqn:Gb0; cbn [option_map] in Gb; [|discriminate]. injection Gb as <-.
      rewrite refs_del_refby_f in Hin. split; [congruence|]. exists tb0. auto.
  - exists rank. intros k t r G Hin. rewrite get_map_tags, get_del in G. seq_cases nm k; [discriminate|].
    destruct (get ts k) as [t0|] eqn:G0; cbn [option_map] in G; [|discriminate]. injection G as <-.
    rewrite refs_del_refby_f in Hin. eapply Wr; eauto.
Qed.

(* ---------------------------------------------------------------- rename *)
Definition ren_refby_f (nm nn : name) (R : list name) (k : name) (t : tag) : tag :=
  if mem_s k R then with_refby t (add_name nn (rem_name nm (t_refby t))) else t.
Lemma refs_ren_refby_f : forall nm nn R k t, refs (ren_refby_f nm nn R k t) = refs t.
Proof. intros. unfold ren_refby_f. destruct (mem_s k R); reflexivity. Qed.

Lemma get_rename : forall ts nm nn tg R k,
  get (map_tags (ren_refby_f nm nn R) (set (del ts nm) nn tg)) k =
  option_map (ren_refby_f nm nn R k)
    (if String.eqb nn k then Some tg else if String.eqb nm k then None else get ts k).
Proof. intros. rewrite get_map_tags, get_set, get_del. reflexivity. Qed.

Lemma wf_rename : forall ts nm nn tg,
  wf_tags ts -> get ts nm = Some tg -> has ts nn = false -> t_refby tg = [] ->
  wf_tags (map_tags (ren_refby_f nm nn (refs tg)) (set (del ts nm) nn tg)).
Proof.
  intros ts nm nn tg W Gn Hnew Hrb. set (R := refs tg) in *.
  pose proof W as [Wn Wc Wm [rank Wr]].
  assert (Hnone : get ts nn = None) by (apply has_false_get; auto).
  assert (Hne : nn <> nm) by (intros ->; congruence).
  assert (Hnoref : forall b tb, get ts b = Some tb -> ~ In nm (refs tb)).
  { intros b tb Gb Hin. assert (In b (t_refby tg)) by (apply (Wm nm tg b Gn); eauto). rewrite Hrb in H. destruct H. }
  assert (Hnn : forall b tb, get ts b = Some tb -> ~ In nn (refs tb)).
  { intros b tb Gb Hin. pose proof (Wc b tb nn Gb Hin). congruence. }
  assert (HnnR : mem_s nn R = false) by (apply mem_s_not_In; apply (Hnn nm tg Gn)).
  assert (E0 : ren_refby_f nm nn R nn tg = tg) by (unfold ren_refby_f; rewrite HnnR; reflexivity).
  constructor.
  - rewrite keys_map_tags. apply nodup_keys_set. apply nodup_keys_del. auto.
  - intros k t r G Hin. rewrite has_map_tags, has_set, has_del.
    rewrite get_rename in G. seq_cases nn k.
    + subst k. cbn [option_map] in G. injection G as <-. rewrite refs_ren_refby_f in Hin.
      rewrite (Wc nm tg r Gn Hin). seq_cases nm r; [subst; exfalso; eapply Hnoref; eauto|]. apply orb_true_r.
    + seq_cases nm k; [discriminate|].
      destruct (get ts k) as [t0|] eqn:G0; cbn [option_map] in G; [|discriminate]. injection G as <-.
      rewrite refs_ren_refby_f in Hin. rewrite (Wc k t0 r G0 Hin).
      seq_cases nm r; [subst; exfalso; eapply Hnoref; eauto|]. apply orb_true_r.
  - intros a ta b G. rewrite get_rename in G. seq_cases nn a.
    + subst a. cbn [option_map] in G. injection G as <-. rewrite E0, Hrb. split; [intros []|].
      intros [tb [Gb Hin]]. rewrite get_rename in Gb. seq_cases nn b.
      * subst b. cbn [option_map] in Gb. injection Gb as <-. rewrite refs_ren_refby_f in Hin.
        eapply Hnn; eauto.
      * seq_cases nm b; [discriminate|].
        destruct (get ts b) as [tb0|] eqn:Gb0; cbn [option_map] in Gb; [|discriminate]. injection Gb as <-.
        rewrite refs_ren_refby_f in Hin. eapply Hnn; eauto.
    + seq_cases nm a; [discriminate|].
      destruct (get ts a) as [ta0|] eqn:Ga0; cbn [option_map] in G; [|discriminate]. injection G as <-.
      assert (Hb : In b (t_refby (ren_refby_f nm nn R a ta0)) <->
                   (In a R /\ b = nn) \/ (b <> nm /\ In b (t_refby ta0))).
      { unfold ren_refby_f. destruct (mem_s a R) eqn:Em.
        - apply mem_s_In in Em. simpl. rewrite In_add_name, In_rem_name. tauto.
        - apply mem_s_not_In in Em. split; [|tauto]. intros Hin. right. split; auto. intros ->.
          apply Em. apply (Wm a ta0 nm Ga0) in Hin. destruct Hin as [tb [Gb Hin]]. unfold R. congruence. }
      rewrite Hb. split.
      * intros [[Ha ->]|[Hbn Hin]].
        -- exists tg. split.
           ++ rewrite get_rename. rewrite String.eqb_refl. cbn [option_map]. f_equal. exact E0.
           ++ exact Ha.
        -- apply (Wm a ta0 b Ga0) in Hin. destruct Hin as [tb [Gb Hin]].
           exists (ren_refby_f nm nn R b tb). split.
           ++ rewrite get_rename. seq_cases nn b; [subst; congruence|]. seq_cases nm b; [congruence|].
              rewrite Gb. reflexivity.
           ++ rewrite refs_ren_refby_f. exact Hin.
      * intros [tb [Gb Hin]]. rewrite get_rename in Gb. seq_cases nn b.
        -- subst b. cbn [option_map] in Gb. injection Gb as <-. rewrite refs_ren_refby_f in Hin. left. auto.
        -- seq_cases nm b; [discriminate|].
           destruct (get ts b) as [tb0|] eqn:Gb0; cbn [option_map] in Gb; [|discriminate]. injection Gb as <-.
           rewrite refs_ren_refby_f in Hin. right. split; [congruence|].
           apply (Wm a ta0 b Ga0). exists tb0. auto.
  - exists (fun x => if String.eqb x nn then rank nm else rank x).
    intros k t r G Hin. rewrite get_rename in G.
    assert (Hr_ne : forall k0 t0, get ts k0 = Some t0 -> In r (refs t0) -> String.eqb r nn = false).
    { intros k0 t0 G0 H0. apply seqb_neq. intros ->. eapply Hnn; eauto. }
    seq_cases nn k.
    + subst k. cbn [option_map] in G. injection G as <-. rewrite refs_ren_refby_f in Hin.
      rewrite String.eqb_refl. rewrite (Hr_ne nm tg Gn Hin). eapply Wr; eauto.
    + seq_cases nm k; [discriminate|].
      destruct (get ts k) as [t0|] eqn:G0; cbn [option_map] in G; [|discriminate]. injection G as <-.
      rewrite refs_ren_refby_f in Hin. rewrite (Hr_ne k t0 G0 Hin).
      seq_cases k nn; [congruence|]. eapply Wr; eauto.
Qed.

(* ---------------------------------------------------------------- the reference walk of UpdateTag *)
Definition dfs_inv (ts : tags_t) (nm : name) (todo seen : list name) : Prop :=
  forall s, In s seen -> s <> nm /\ exists t, get ts s = Some t /\ forall r, In r (refs t) -> In r seen \/ In r todo.

Lemma dfs_sound : forall fuel ts nm todo seen S,
  dfs fuel ts nm todo seen = DOk S -> dfs_inv ts nm todo seen ->
  (forall s, In s todo -> In s S) /\ (forall s, In s seen -> In s S) /\
  (forall s, In s S -> s <> nm /\ exists t, get ts s = Some t /\ forall r, In r (refs t) -> In r S).
Proof.
  induction fuel as [|f IH]; intros ts nm todo seen S H Inv; simpl in H; [discriminate|].
  destruct todo as [|tn rest].
  - injection H as <-. split; [intros s []|]. split; auto.
    intros s Hs. destruct (Inv s Hs) as [Hne [t [G Hr]]]. split; auto. exists t. split; auto.
    intros r Hin. destruct (Hr r Hin) as [?|[]]; auto.
  - seq_cases tn nm; [discriminate|].
    destruct (mem_s tn seen) eqn:Em.
    + apply mem_s_In in Em. apply IH in H.
      * destruct H as [H1 [H2 H3]]. split; [|split; auto]. intros s [<-|Hs]; auto.
      * intros s Hs. destruct (Inv s Hs) as [Hne [t [G Hr]]]. split; auto. exists t. split; auto.
        intros r Hin. destruct (Hr r Hin) as [?|[<-|?]]; auto.
    + destruct (get ts tn) as [t|] eqn:G; [|discriminate]. apply IH in H.
      * destruct H as [H1 [H2 H3]]. split; [|split; auto].
        -- intros s [<-|Hs]; [apply H2; left; auto|apply H1; apply in_or_app; auto].
        -- intros s Hs. apply H2. right. auto.
      * intros s [<-|Hs].
        -- split; auto. exists t. split; auto. intros r Hin. right. apply in_or_app. auto.
        -- destruct (Inv s Hs) as [Hne [t0 [G0 Hr]]]. split; auto. exists t0. split; auto.
           intros r Hin. destruct (Hr r Hin) as [?|[<-|?]].
           ++ left. right. auto.
           ++ left. left. auto.
           ++ right. apply in_or_app. auto.
Qed.

(* ---------------------------------------------------------------- query update *)
Lemma refs_retarget : forall nm o n k t, refs (retarget nm o n k t) = refs t.
Proof.
  intros. unfold retarget. destruct (mem_s k o && negb (mem_s k n)); [reflexivity|].
  destruct (mem_s k n && negb (mem_s k o)); reflexivity.
Qed.

Lemma In_refby_retarget : forall nm o n k t b,
  In b (t_refby (retarget nm o n k t)) <->
  (if mem_s k o && negb (mem_s k n) then b <> nm /\ In b (t_refby t)
   else if mem_s k n && negb (mem_s k o) then b = nm \/ In b (t_refby t)
   else In b (t_refby t)).
Proof.
  intros. unfold retarget. destruct (mem_s k o && negb (mem_s k n)).
  - simpl. apply In_rem_name.
  - destruct (mem_s k n && negb (mem_s k o)).
    + simpl. apply In_add_name.
    + tauto.
Qed.

Lemma wf_update_query : forall ts nm tg nt V,
  wf_tags ts -> get ts nm = Some tg -> t_refby nt = t_refby tg ->
  (forall r, In r (refs nt) -> In r V) ->
  (forall s, In s V -> s <> nm /\ exists t, get ts s = Some t /\ forall r, In r (refs t) -> In r V) ->
  wf_tags (set (map_tags (retarget nm (refs tg) (refs nt)) ts) nm nt).
Proof.
  intros ts nm tg nt V W Gn Hrb HN HS. set (O := refs tg) in *. set (N' := refs nt) in *.
  pose proof W as [Wn Wc Wm [rank Wr]].
  assert (HnmN : ~ In nm N') by (intros H; apply HN in H; apply HS in H; tauto).
  assert (HnmO : ~ In nm O) by (eapply wf_no_self; eauto).
  assert (Hget : forall k, get (set (map_tags (retarget nm O N') ts) nm nt) k =
                           if String.eqb nm k then Some nt else option_map (retarget nm O N' k) (get ts k)).
  { intros k. rewrite get_set, get_map_tags. reflexivity. }
  assert (Hhas : forall k, has (set (map_tags (retarget nm O N') ts) nm nt) k = has ts k).
  { intros k. rewrite has_set, has_map_tags. seq_cases nm k; auto. subst k. simpl. symmetry. apply has_get. eauto. }
  constructor.
  - apply nodup_keys_set. rewrite keys_map_tags. auto.
  - intros k t r G Hin. rewrite Hhas. rewrite Hget in G. seq_cases nm k.
    + injection G as <-. apply HN in Hin. apply HS in Hin. destruct Hin as [_ [t0 [G0 _]]]. apply has_get. eauto.
    + destruct (get ts k) as [t0|] eqn:G0; cbn [option_map] in G; [|discriminate]. injection G as <-.
      rewrite refs_retarget in Hin. eapply Wc; eauto.
  - intros a ta b G. rewrite Hget in G. seq_cases nm a.
    + subst a. injection G as <-. rewrite Hrb. rewrite (Wm nm tg b Gn). split.
      * intros [tb [Gb Hin]]. seq_cases nm b; [subst b; exfalso; apply HnmO; unfold O; congruence|].
        exists (retarget nm O N' b tb). split.
        -- rewrite Hget. apply seqb_neq in E. rewrite E. rewrite Gb. reflexivity.
        -- rewrite refs_retarget. exact Hin.
      * intros [tb [Gb Hin]]. rewrite Hget in Gb. seq_cases nm b.
        -- injection Gb as <-. contradiction.
        -- destruct (get ts b) as [tb0|] eqn:Gb0; cbn [option_map] in Gb; [|discriminate]. injection Gb as <-.
           rewrite refs_retarget in Hin. exists tb0. auto.
    + destruct (get ts a) as [ta0|] eqn:Ga0; cbn [option_map] in G; [|discriminate]. injection G as <-.
      rewrite In_refby_retarget.
      (* what the old table says about nm and a *)
      assert (Hnm : In nm (t_refby ta0) <-> In a O).
      { rewrite (Wm a ta0 nm Ga0). split.
        - intros [tb [Gb Hin]]. unfold O. congruence.
        - intros Hin. exists tg. auto. }
      assert (Hrhs : (exists tb, get (set (map_tags (retarget nm O N') ts) nm nt) b = Some tb /\ In a (refs tb)) <->
                     (b = nm /\ In a N') \/ (b <> nm /\ In b (t_refby ta0))).
      { split.
        - intros [tb [Gb Hin]]. rewrite Hget in Gb. seq_cases nm b.
          + injection Gb as <-. left. auto.
          + destruct (get ts b) as [tb0|] eqn:Gb0; cbn [option_map] in Gb; [|discriminate]. injection Gb as <-.
            rewrite refs_retarget in Hin. right. split; [congruence|]. apply (Wm a ta0 b Ga0). eauto.
        - intros [[-> Hin]|[Hne Hin]].
          + exists nt. split; auto. rewrite Hget. rewrite String.eqb_refl. reflexivity.
          + apply (Wm a ta0 b Ga0) in Hin. destruct Hin as [tb [Gb Hin]].
            exists (retarget nm O N' b tb). split.
            * rewrite Hget. assert (String.eqb nm b = false) as -> by (apply seqb_neq; congruence). rewrite Gb. reflexivity.
            * rewrite refs_retarget. exact Hin. }
      rewrite Hrhs.
      destruct (mem_s a O) eqn:EO; [apply mem_s_In in EO|apply mem_s_not_In in EO];
        (destruct (mem_s a N') eqn:EN; [apply mem_s_In in EN|apply mem_s_not_In in EN]); simpl.
      * (* in both *) split.
        -- intros Hin. seq_cases b nm; [left; subst; auto|right; auto].
        -- intros [[-> _]|[_ Hin]]; auto. apply Hnm. auto.
      * (* only before *) split.
        -- intros [Hne Hin]. right. auto.
        -- intros [[-> Hin]|[Hne Hin]]; [contradiction|auto].
      * (* only after *) split.
        -- intros [->|Hin]; [left; auto|]. seq_cases b nm; [left; subst; auto|right; auto].
        -- intros [[-> _]|[_ Hin]]; auto.
      * (* in neither *) split.
        -- intros Hin. seq_cases b nm; [subst; exfalso; apply EO; apply Hnm; auto|right; auto].
        -- intros [[-> Hin]|[_ Hin]]; [contradiction|auto].
  - (* everything outside V is lifted above V *)
    set (M := Datatypes.S (list_max (map rank V))).
    exists (fun x => if mem_s x V then rank x else rank x + M).
    assert (HM : forall s, In s V -> rank s < M).
    { intros s Hs. pose proof (list_max_ge rank V s Hs). unfold M. lia. }
    intros k t r G Hin. rewrite Hget in G. seq_cases nm k.
    + subst k. injection G as <-. apply HN in Hin. pose proof (HM r Hin).
      assert (mem_s nm V = false) as -> by (apply mem_s_not_In; intros H1; apply HS in H1; tauto).
      apply mem_s_In in Hin. rewrite Hin. lia.
    + destruct (get ts k) as [t0|] eqn:G0; cbn [option_map] in G; [|discriminate]. injection G as <-.
      rewrite refs_retarget in Hin. pose proof (Wr k t0 r G0 Hin).
      destruct (mem_s k V) eqn:Ek.
      * apply mem_s_In in Ek. destruct (HS k Ek) as [_ [t1 [G1 Hc]]].
        assert (t1 = t0) by congruence. subst t1. apply Hc in Hin. apply mem_s_In in Hin. rewrite Hin. exact H.
      * destruct (mem_s r V) eqn:Er.
        -- apply mem_s_In in Er. pose proof (HM r Er). lia.
        -- lia.
Qed.

(* ---------------------------------------------------------------- inheritTagUncertainty *)
Lemma gview_with_unc : forall t u, gview (with_unc t u) = gview t.
Proof. reflexivity. Qed.

Lemma visit_props : forall all ts res n ts' res',
  inherit_visit all (ts, res) n = (ts', res') ->
  same_graph ts ts' /\ keys ts' = keys ts /\ incl res res' /\
  (forall t, get ts n = Some t -> (forall r, In r (refs t) -> In r res) -> In n res').
Proof.
  intros all ts res n ts' res' H. unfold inherit_visit in H.
  destruct (get ts n) as [ti|] eqn:G.
  2:{ injection H as <- <-. repeat split; auto using same_graph_refl, incl_refl. intros t Ht. discriminate. }
  destruct (mem_s n res) eqn:Em.
  { injection H as <- <-. apply mem_s_In in Em. repeat split; auto using same_graph_refl, incl_refl. }
  destruct (forallb (fun r => mem_s r res) (refs ti)) eqn:Ef; simpl in H.
  2:{ injection H as <- <-. repeat split; auto using same_graph_refl, incl_refl.
      intros t Ht Hall. injection Ht as <-. exfalso.
      assert (forallb (fun r => mem_s r res) (refs ti) = true); [|congruence].
      apply forallb_forall. intros r Hr. apply mem_s_In. auto. }
  assert (Hset : forall u, same_graph ts (set ts n (with_unc ti u)) /\ keys (set ts n (with_unc ti u)) = keys ts).
  { intros u. split.
    - eapply same_graph_set; eauto.
    - apply keys_set_has. apply has_get. eauto. }
  destruct (negb (nonempty (t_main ti)) && negb (nonempty (t_sub ti))).
  { injection H as <- <-. repeat split; auto using same_graph_refl, incl_tl, incl_refl. intros; left; auto. }
  match type of H with (if ?c then _ else _) = _ => destruct c end;
    injection H as <- <-; destruct (Hset all) as [A1 A2];
    match goal with |- same_graph _ (set _ _ (with_unc _ ?u)) /\ _ => destruct (Hset u) as [B1 B2] end;
    repeat split; auto using incl_tl, incl_refl; intros; left; auto.
Qed.

Lemma fold_visit_props : forall all l ts res ts' res',
  fold_left (inherit_visit all) l (ts, res) = (ts', res') ->
  same_graph ts ts' /\ keys ts' = keys ts /\ incl res res' /\
  (forall k t, In k l -> get ts k = Some t -> (forall r, In r (refs t) -> In r res) -> In k res').
Proof.
  intros all. induction l as [|x l IH]; intros ts res ts' res' H; cbn [fold_left] in H.
  - injection H as <- <-. repeat split; auto using same_graph_refl, incl_refl. intros k t [].
  - destruct (inherit_visit all (ts, res) x) as [ts1 res1] eqn:V.
    destruct (visit_props _ _ _ _ _ _ V) as [V1 [V2 [V3 V4]]].
    destruct (IH _ _ _ _ H) as [I1 [I2 [I3 I4]]].
    split; [eapply same_graph_trans; eauto|]. split; [congruence|]. split; [eapply incl_tran; eauto|].
    intros k t [->|Hin] G Hall.
    + apply I3. eapply V4; eauto.
    + pose proof (V1 k) as Hk. rewrite G in Hk. simpl in Hk.
      destruct (get ts1 k) as [t1|] eqn:G1; simpl in Hk; [|discriminate].
      unfold gview in Hk. injection Hk as R1 R2.
      eapply I4; eauto. intros r Hr. apply V3. apply Hall. rewrite R1. auto.
Qed.

Definition unresolved (ts : tags_t) (res : list name) : list name :=
  filter (fun k => negb (mem_s k res)) (keys ts).

Lemma all_resolved_unresolved : forall ts res, all_resolved ts res = true <-> unresolved ts res = [].
Proof.
  intros ts res. unfold all_resolved, unresolved. induction (keys ts) as [|k l IH]; simpl; [tauto|].
  destruct (mem_s k res); simpl; auto. split; discriminate.
Qed.

Lemma filter_length_lt : forall (f g : name -> bool) l x,
  (forall y, g y = true -> f y = true) -> In x l -> f x = true -> g x = false ->
  List.length (filter g l) < List.length (filter f l).
Proof.
  intros f g l x Himp. induction l as [|y l IH]; intros Hin Hf Hg; [destruct Hin|].
  assert (Hle : forall l', List.length (filter g l') <= List.length (filter f l')).
  { induction l' as [|z l' IH']; simpl; auto. destruct (g z) eqn:Eg.
    - rewrite (Himp z Eg). simpl. lia.
    - destruct (f z); simpl; lia. }
  simpl. destruct Hin as [->|Hin].
  - rewrite Hf, Hg. simpl. specialize (Hle l). lia.
  - specialize (IH Hin Hf Hg). destruct (g y) eqn:Eg.
    + rewrite (Himp y Eg). simpl. lia.
    + destruct (f y); simpl; lia.
Qed.

(* some unresolved tag has all its references resolved (the graph is closed and ranked) *)
Lemma exists_ready : forall ts res rank, closed ts -> ranked ts rank ->
  forall n k, rank k < n -> has ts k = true -> mem_s k res = false ->
  exists k' t', get ts k' = Some t' /\ mem_s k' res = false /\ forall r, In r (refs t') -> In r res.
Proof.
  intros ts res rank Hc Hr. induction n as [|n IH]; intros k Hlt Hk Hun; [lia|].
  apply has_get in Hk. destruct Hk as [t G].
  destruct (forallb (fun r => mem_s r res) (refs t)) eqn:Ef.
  - exists k, t. split; auto. split; auto. intros r Hin.
    rewrite forallb_forall in Ef. apply mem_s_In. auto.
  - assert (exists r, In r (refs t) /\ mem_s r res = false) as [r [Hin Hrn]].
    { clear -Ef. induction (refs t) as [|x l IHl]; simpl in Ef; [discriminate|].
      destruct (mem_s x res) eqn:Ex; simpl in Ef.
      - destruct (IHl Ef) as [r [H1 H2]]. exists r. split; auto. right; auto.
      - exists x. split; auto. left; auto. }
    apply (IH r); auto.
    + specialize (Hr k t r G Hin). lia.
    + eapply Hc; eauto.
Qed.

Lemma inherit_loop_terminates : forall fuel all ts res,
  wf_tags ts -> List.length (unresolved ts res) <= fuel ->
  exists ts' res', inherit_loop fuel all ts res = Some (ts', res') /\ same_graph ts ts' /\ keys ts' = keys ts.
Proof.
  induction fuel as [|f IH]; intros all ts res W Hle.
  - assert (all_resolved ts res = true) as E.
    { apply all_resolved_unresolved. destruct (unresolved ts res); auto. simpl in Hle. lia. }
    simpl. rewrite E. exists ts, res. split; auto. split; auto using same_graph_refl.
  - simpl. destruct (all_resolved ts res) eqn:E.
    + exists ts, res. split; auto. split; auto using same_graph_refl.
    + destruct (fold_left (inherit_visit all) (keys ts) (ts, res)) as [ts1 res1] eqn:F.
      destruct (fold_visit_props _ _ _ _ _ _ F) as [F1 [F2 [F3 F4]]].
      pose proof W as [Wn Wc Wm [rank Wr]].
      (* an unresolved key exists *)
      assert (exists k, In k (keys ts) /\ mem_s k res = false) as [k [Hk Hun]].
      { unfold all_resolved in E. clear -E. induction (keys ts) as [|x l IHl]; simpl in E; [discriminate|].
        destruct (mem_s x res) eqn:Ex; simpl in E.
        - destruct (IHl E) as [k [H1 H2]]. exists k. split; auto. right; auto.
        - exists x. split; auto. left; auto. }
      apply get_In_keys in Hk.
      destruct (exists_ready ts res rank Wc Wr (Datatypes.S (rank k)) k (Nat.lt_succ_diag_r _) Hk Hun) as [k' [t' [G' [Hun' Hall]]]].
      assert (Hin' : In k' (keys ts)) by (apply get_In_keys; apply has_get; eauto).
      pose proof (F4 k' t' Hin' G' Hall) as Hres.
      assert (W1 : wf_tags ts1) by (eapply wf_same_graph; eauto; rewrite F2; auto).
      assert (Hlt : List.length (unresolved ts1 res1) < List.length (unresolved ts res)).
      { unfold unresolved. rewrite F2. apply (filter_length_lt _ _ _ k'); auto.
        - intros y Hy. apply negb_true_iff in Hy. apply negb_true_iff. apply mem_s_not_In. apply mem_s_not_In in Hy.
          intros H. apply Hy. apply F3. auto.
        - rewrite Hun'. reflexivity.
        - apply negb_false_iff. apply mem_s_In. auto. }
      destruct (IH all ts1 res1 W1) as [ts' [res' [L1 [L2 L3]]]]; [lia|].
      exists ts', res'. split; auto. split; [eapply same_graph_trans; eauto|congruence].
Qed.

Lemma unresolved_le : forall ts res, List.length (unresolved ts res) <= List.length ts.
Proof.
  intros. unfold unresolved. rewrite <- (map_length fst ts). fold (keys ts).
  induction (keys ts) as [|x l IH]; simpl; auto. destruct (negb (mem_s x res)); simpl; lia.
Qed.

Lemma inherit_terminates : forall all ts, wf_tags ts ->
  exists ts' res', inherit_uncertainty all ts = Some (ts', res') /\ same_graph ts ts' /\ keys ts' = keys ts.
Proof.
  intros all ts W. unfold inherit_uncertainty. apply inherit_loop_terminates; auto. apply unresolved_le.
Qed.

(* ---------------------------------------------------------------- the reference walk never runs out of fuel *)
Definition pending (ts : tags_t) (seen : list name) : nat :=
  fold_right (fun kv a => (if mem_s (fst kv) seen then 0 else List.length (refs (snd kv))) + a) 0 ts.

Lemma pending_nil : forall ts, pending ts [] = edge_count ts.
Proof. induction ts as [|[k v] r IH]; simpl; auto. Qed.

Lemma mem_s_cons : forall k x l, mem_s k (x :: l) = String.eqb k x || mem_s k l.
Proof. reflexivity. Qed.

Lemma pending_cons : forall k v r seen,
  pending ((k, v) :: r) seen = (if mem_s k seen then 0 else List.length (refs v)) + pending r seen.
Proof. reflexivity. Qed.

Lemma pending_mono : forall ts x seen, pending ts (x :: seen) <= pending ts seen.
Proof.
  induction ts as [|[k v] r IH]; intros x seen; [simpl; auto|].
  rewrite !pending_cons. specialize (IH x seen). rewrite mem_s_cons. destruct (String.eqb k x); simpl.
  - destruct (mem_s k seen); lia.
  - destruct (mem_s k seen); lia.
Qed.

Lemma pending_mark : forall ts tn t seen, get ts tn = Some t -> mem_s tn seen = false ->
  pending ts (tn :: seen) + List.length (refs t) <= pending ts seen.
Proof.
  induction ts as [|[k v] r IH]; intros tn t seen G Hs; [discriminate|].
  rewrite !pending_cons. rewrite mem_s_cons. cbn [get] in G. seq_cases k tn.
  - subst k. injection G as ->. simpl. rewrite Hs.
    pose proof (pending_mono r tn seen). lia.
  - simpl. specialize (IH tn t seen G Hs).
    destruct (mem_s k seen); lia.
Qed.

Lemma dfs_fuel_enough : forall fuel ts nm todo seen,
  List.length todo + pending ts seen < fuel -> dfs fuel ts nm todo seen <> DFuel.
Proof.
  induction fuel as [|f IH]; intros ts nm todo seen H; [lia|]. simpl.
  destruct todo as [|tn rest]; [discriminate|].
  destruct (String.eqb tn nm); [discriminate|].
  destruct (mem_s tn seen) eqn:Es.
  - apply IH. simpl in H. lia.
  - destruct (get ts tn) as [t|] eqn:G; [|discriminate].
    apply IH. pose proof (pending_mark ts tn t seen G Es). rewrite app_length. simpl in H. lia.
Qed.

Lemma dfs_initial_fuel : forall ts nm todo, dfs (dfs_fuel ts todo) ts nm todo [] <> DFuel.
Proof.
  intros. apply dfs_fuel_enough. rewrite pending_nil. unfold dfs_fuel. lia.
Qed.

(* ---------------------------------------------------------------- the API transitions *)
(* outcome of a call on a well-formed table: applied (and the table stays well-formed) or
   rejected with the state unchanged; never Crash (nil dereference) nor Hang (endless loop) *)
Definition good_outcome (st : state) (out : result * state) : Prop :=
  (fst out = Ok /\ wf_tags (tags (snd out)) /\ convs (snd out) = convs st /\ next_id (snd out) = next_id st)
  \/ (exists e, fst out = Err e /\ snd out = st).

Lemma good_err : forall st e, good_outcome st (Err e, st).
Proof. intros. right. exists e. auto. Qed.
Lemma good_ok : forall st ts, wf_tags ts -> good_outcome st (Ok, with_tags st ts).
Proof. intros. left. simpl. auto. Qed.
Lemma good_ok_same : forall st, wf_tags (tags st) -> good_outcome st (Ok, st).
Proof. intros. left. simpl. auto. Qed.

Lemma nonempty_false : forall {A} (l : list A), nonempty l = false -> l = [].
Proof. intros A [|x l] H; auto. discriminate. Qed.

Lemma add_tag_good : forall parse st nm color qs,
  wf_tags (tags st) -> good_outcome st (add_tag parse st nm color qs).
Proof.
  intros parse st nm color qs W. unfold add_tag.
  destruct (parse_tag_name nm) as [[typ sub] is_mark].
  destruct (String.eqb typ ""); [apply good_err|].
  destruct (String.eqb sub ""); [apply good_err|].
  destruct (parse qs) as [|p]; [apply good_err|].
  destruct (p_rel p); [apply good_err|].
  destruct (p_group p); [apply good_err|].
  match goal with |- context [mem_s nm (refs ?t)] => set (nt := t) end.
  destruct (mem_s nm (refs nt)) eqn:Eself; [apply good_err|].
  destruct (is_mark && negb (is_some (p_ids p))); [apply good_err|].
  destruct (has (tags st) nm) eqn:Ehas; [apply good_err|].
  destruct (forallb (has (tags st)) (refs nt)) eqn:Eall; simpl; [|apply good_err].
  rewrite forallb_has in Eall.
  assert (forallb (has (set (tags st) nm nt)) (refs nt) = true) as ->.
  { apply forallb_has. intros r Hr. rewrite has_set. rewrite (Eall r Hr). apply orb_true_r. }
  simpl. apply good_ok.
  apply (wf_add (tags st) nm nt); auto. apply mem_s_not_In. auto.
Qed.

Lemma del_tag_good : forall st nm, wf_tags (tags st) -> good_outcome st (del_tag st nm).
Proof.
  intros st nm W. unfold del_tag.
  destruct (get (tags st) nm) as [tg|] eqn:G; [|apply good_err].
  destruct (nonempty (t_refby tg)) eqn:Erb; [apply good_err|]. apply nonempty_false in Erb.
  assert (forallb (has (del (tags st) nm)) (refs tg) = true) as ->.
  { apply forallb_has. intros r Hr. rewrite has_del. rewrite (wf_closed _ W nm tg r G Hr).
    seq_cases nm r; auto. subst r. exfalso. eapply wf_no_self; eauto. }
  simpl. apply good_ok. apply (wf_del (tags st) nm tg); auto.
Qed.

Lemma wf_set_same_graph : forall ts n t t', wf_tags ts -> get ts n = Some t -> gview t' = gview t -> wf_tags (set ts n t').
Proof.
  intros ts n t t' W G E. eapply wf_same_graph; [eapply same_graph_set; eauto| |auto].
  apply nodup_keys_set. apply W.
Qed.

Lemma update_color_good : forall st nm c, wf_tags (tags st) -> good_outcome st (update_color st nm c).
Proof.
  intros st nm c W. unfold update_color.
  destruct (get (tags st) nm) as [tg|] eqn:G; [|apply good_err].
  destruct (String.eqb c ""); [apply good_ok_same; auto|].
  apply good_ok. eapply wf_set_same_graph; eauto.
Qed.

Lemma update_convs_good : forall st nm l, wf_tags (tags st) -> good_outcome st (update_convs st nm l).
Proof.
  intros st nm l W. unfold update_convs.
  destruct (get (tags st) nm) as [tg|] eqn:G; [|apply good_err].
  match goal with |- context [if negb ?c then _ else _] => destruct c end; simpl; [|apply good_err].
  match goal with |- context [if ?c then _ else _] => destruct c end; [apply good_err|].
  apply good_ok. eapply wf_set_same_graph; eauto.
Qed.

Lemma update_name_good : forall st nm nn, wf_tags (tags st) -> good_outcome st (update_name st nm nn).
Proof.
  intros st nm nn W. unfold update_name.
  destruct (get (tags st) nm) as [tg|] eqn:G; [|apply good_err].
  destruct (String.eqb nn ""); [apply good_ok_same; auto|].
  destruct (parse_tag_name nm) as [[otyp osub] om].
  destruct (parse_tag_name nn) as [[ntyp nsub] nmk].
  destruct (negb (String.eqb ntyp otyp)); [apply good_err|].
  destruct (String.eqb nsub ""); [apply good_err|].
  destruct (has (tags st) nn) eqn:Ehas; [apply good_err|].
  destruct (nonempty (t_refby tg)) eqn:Erb; [apply good_err|]. apply nonempty_false in Erb.
  assert (forallb (has (set (del (tags st) nm) nn tg)) (refs tg) = true) as ->.
  { apply forallb_has. intros r Hr. rewrite has_set, has_del. rewrite (wf_closed _ W nm tg r G Hr).
    seq_cases nm r; [|apply orb_true_r]. subst r. exfalso. eapply wf_no_self; eauto. }
  simpl. apply good_ok. apply (wf_rename (tags st) nm nn tg); auto.
Qed.

Lemma after_inherit_good : forall st ts k,
  wf_tags ts -> (forall ts', wf_tags ts' -> wf_tags (k ts')) -> good_outcome st (after_inherit st ts k).
Proof.
  intros st ts k W Hk. unfold after_inherit.
  destruct (inherit_terminates (all_streams st) ts W) as [ts' [res' [E [Hg Hkeys]]]].
  rewrite E. apply good_ok. apply Hk. eapply wf_same_graph; eauto. rewrite Hkeys. apply W.
Qed.

Lemma update_marks_good : forall st nm add l, wf_tags (tags st) -> good_outcome st (update_marks st nm add l).
Proof.
  intros st nm add l W. unfold update_marks.
  destruct (negb (nonempty l)).
  { destruct (get (tags st) nm); [apply good_ok_same; auto|apply good_err]. }
  destruct (negb (String.prefix "mark/" nm || String.prefix "generated/" nm)); [apply good_err|].
  destruct (get (tags st) nm) as [tg|] eqn:G; [|apply good_err].
  match goal with |- context [if ?c then _ else _] => destruct c end; [apply good_err|].
  apply after_inherit_good.
  - eapply wf_set_same_graph; eauto.
  - intros ts' W'. destruct (get ts' nm) as [t|] eqn:G'; auto. eapply wf_set_same_graph; eauto.
Qed.

Lemma update_query_good : forall parse st nm qs, wf_tags (tags st) -> good_outcome st (update_query parse st nm qs).
Proof.
  intros parse st nm qs W. unfold update_query.
  destruct (parse qs) as [|p]; [apply good_err|].
  destruct (p_rel p); [apply good_err|].
  destruct (p_group p); [apply good_err|].
  match goal with |- context [mem_s nm (refs ?t)] => set (nt0 := t) end.
  destruct (mem_s nm (refs nt0)); [apply good_err|].
  match goal with |- context [if ?c then (Err EMarkNotId, _) else _] => destruct c end; [apply good_err|].
  destruct (get (tags st) nm) as [tg|] eqn:G; [|apply good_err].
  destruct (dfs (dfs_fuel (tags st) (refs nt0)) (tags st) nm (refs nt0) []) as [V| | |] eqn:D;
    [|apply good_err|apply good_err|exfalso; eapply dfs_initial_fuel; eauto].
  apply dfs_sound in D; [|intros s []]. destruct D as [D1 [_ D3]].
  match goal with |- context [retarget nm (refs tg) (refs ?t)] => set (nt := t) end.
  destruct (nonempty (t_convs tg) && complex nt); [apply good_err|].
  assert (Hrefs : refs nt = refs nt0) by reflexivity.
  assert (forallb (has (tags st)) (refs tg ++ refs nt) = true) as ->.
  { apply forallb_has. intros r Hr. apply in_app_or in Hr. destruct Hr as [Hr|Hr].
    - eapply wf_closed; eauto.
    - rewrite Hrefs in Hr. apply D1 in Hr. apply D3 in Hr. destruct Hr as [_ [t [Gt _]]]. apply has_get. eauto. }
  simpl. apply after_inherit_good; auto.
  apply (wf_update_query (tags st) nm tg nt V); auto.
Qed.

Theorem step_good : forall parse st c, wf_tags (tags st) -> good_outcome st (step parse st c).
Proof.
  intros parse st c W. destruct c as [nm color qs|nm|nm op]; simpl.
  - apply add_tag_good; auto.
  - apply del_tag_good; auto.
  - destruct op; simpl.
    + apply update_color_good; auto.
    + apply update_query_good; auto.
    + apply update_name_good; auto.
    + apply update_convs_good; auto.
    + apply update_marks_good; auto.
    + apply update_marks_good; auto.
Qed.

(* ---------------------------------------------------------------- atomicity, for every state *)
Ltac peel :=
  repeat match goal with
         | |- context [let '(_, _) := ?x in _] => destruct x
         | |- context [if ?c then _ else _] => destruct c
         | |- context [match ?x with _ => _ end] => destruct x
         end.

Ltac fin := intros H Hne; injection H as <- <-; try reflexivity; try (exfalso; apply Hne; reflexivity).

Theorem step_atomic : forall parse st c r st',
  step parse st c = (r, st') -> r <> Ok -> st' = st.
Proof.
  intros parse st c r st'. destruct c as [nm color qs|nm|nm op]; simpl.
  - unfold add_tag. peel; fin.
  - unfold del_tag. peel; fin.
  - destruct op; simpl.
    + unfold update_color. peel; fin.
    + unfold update_query, after_inherit. peel; fin.
    + unfold update_name. peel; fin.
    + unfold update_convs. peel; fin.
    + unfold update_marks, after_inherit. peel; fin.
    + unfold update_marks, after_inherit. peel; fin.
Qed.

(* ---------------------------------------------------------------- every history *)
Lemma step_wf : forall parse st c, wf_tags (tags st) -> wf_tags (tags (snd (step parse st c))).
Proof.
  intros parse st c W. destruct (step_good parse st c W) as [[_ [H _]]|[e [_ H]]]; auto. rewrite H. auto.
Qed.

Theorem run_wf : forall parse cs st, wf_tags (tags st) -> wf_tags (tags (run parse st cs)).
Proof.
  intros parse. induction cs as [|c cs IH]; intros st W; simpl; auto.
  apply IH. apply step_wf. auto.
Qed.

Theorem history_wf : forall parse cv next cs, wf_tags (tags (run parse (init_state cv next) cs)).
Proof. intros. apply run_wf. simpl. apply wf_empty. Qed.

(* every call of every history is answered with nil or an error; an error leaves the state unchanged *)
Theorem history_total_atomic : forall parse cv next cs c,
  let st := run parse (init_state cv next) cs in
  (fst (step parse st c) = Ok \/ exists e, fst (step parse st c) = Err e /\ snd (step parse st c) = st).
Proof.
  intros parse cv next cs c st.
  destruct (step_good parse st c (history_wf parse cv next cs)) as [[H _]|[e [H1 H2]]]; eauto.
Qed.

(* ---------------------------------------------------------------- what well-formedness says *)
Theorem wf_no_dangling : forall ts k t r, wf_tags ts -> get ts k = Some t -> In r (refs t) -> exists tr, get ts r = Some tr.
Proof. intros ts k t r W G H. apply has_get. eapply wf_closed; eauto. Qed.

Theorem wf_no_cycle : forall ts a, wf_tags ts -> ~ reach ts a a.
Proof. intros ts a W. apply acyclic_no_cycle. apply W. Qed.

Definition referenced (t : tag) : bool := nonempty (t_refby t).   (* TagInfo.Referenced *)

Theorem wf_referenced_mirrors : forall ts a ta, wf_tags ts -> get ts a = Some ta ->
  (referenced ta = true <-> exists b tb, get ts b = Some tb /\ In a (refs tb)).
Proof.
  intros ts a ta W G. unfold referenced. split.
  - destruct (t_refby ta) as [|b l] eqn:E; [discriminate|]. intros _.
    assert (In b (t_refby ta)) as Hb by (rewrite E; left; auto).
    apply (wf_mirror _ W a ta b G) in Hb. destruct Hb as [tb Hb]. eauto.
  - intros [b [tb [Gb Hin]]].
    assert (In b (t_refby ta)) as Hb by (apply (wf_mirror _ W a ta b G); eauto).
    destruct (t_refby ta); [destruct Hb|reflexivity].
Qed.

(* a tag that others reference cannot be deleted or renamed *)
Theorem del_guard : forall st nm st' b tb, wf_tags (tags st) -> del_tag st nm = (Ok, st') ->
  get (tags st) b = Some tb -> ~ In nm (refs tb).
Proof.
  intros st nm st' b tb W H Gb Hin. unfold del_tag in H.
  destruct (get (tags st) nm) as [tg|] eqn:G; [|discriminate].
  destruct (nonempty (t_refby tg)) eqn:E; [discriminate|]. apply nonempty_false in E.
  assert (In b (t_refby tg)) as Hb by (apply (wf_mirror _ W nm tg b G); eauto).
  rewrite E in Hb. destruct Hb.
Qed.

Theorem rename_guard : forall st nm nn st' b tb, wf_tags (tags st) -> nn <> "" -> update_name st nm nn = (Ok, st') ->
  get (tags st) b = Some tb -> ~ In nm (refs tb).
Proof.
  intros st nm nn st' b tb W Hnn H Gb Hin. unfold update_name in H.
  destruct (get (tags st) nm) as [tg|] eqn:G; [|discriminate].
  apply seqb_neq in Hnn. rewrite Hnn in H.
  destruct (parse_tag_name nm) as [[otyp osub] om].
  destruct (parse_tag_name nn) as [[ntyp nsub] nmk].
  destruct (negb (String.eqb ntyp otyp)); [discriminate|].
  destruct (String.eqb nsub ""); [discriminate|].
  destruct (has (tags st) nn); [discriminate|].
  destruct (nonempty (t_refby tg)) eqn:E; [discriminate|]. apply nonempty_false in E.
  assert (In b (t_refby tg)) as Hb by (apply (wf_mirror _ W nm tg b G); eauto).
  rewrite E in Hb. destruct Hb.
Qed.

(* ---------------------------------------------------------------- the unpatched UpdateTag (witnesses) *)
Definition demo_parse (s : string) : parse_result :=
  if String.eqb s "sport:80" then POk (mkParsed [] [] false false false None)
  else if String.eqb s "tag:a" then POk (mkParsed ["tag/a"] [] false false false None)
  else if String.eqb s "tag:b" then POk (mkParsed ["tag/b"] [] false false false None)
  else if String.eqb s "tag:zz" then POk (mkParsed ["tag/zz"] [] false false false None)
  else PErr.

Definition run_orig (cs : list call) : state :=
  fold_left (fun s c => snd (step_orig demo_parse s c)) cs (init_state [] 4%N).

Lemma orig_unknown_reference_crashes :
  fst (step_orig demo_parse (run_orig [CAdd "tag/b" "red" "sport:80"]) (CUpd "tag/b" (UQuery "tag:zz"))) = Crash.
Proof. vm_compute. reflexivity. Qed.

Lemma orig_cycle_hangs :
  fst (step_orig demo_parse (run_orig [CAdd "tag/a" "red" "sport:80"; CAdd "tag/b" "red" "tag:a"])
                 (CUpd "tag/a" (UQuery "tag:b"))) = Hang.
Proof. vm_compute. reflexivity. Qed.

(* with any fuel: on a table with the cycle a <-> b the walk of inheritTagUncertainty never ends *)
Definition cyc_tags : tags_t :=
  [("tag/a", mkTag "tag:b" ["tag/b"] [] false "" [] ["tag/b"] [] []);
   ("tag/b", mkTag "tag:a" ["tag/a"] [] false "" [] ["tag/a"] [] [])].

Lemma cycle_never_resolves : forall fuel all, inherit_loop fuel all cyc_tags [] = None.
Proof. induction fuel as [|f IH]; intros all; [reflexivity|]. simpl. apply IH. Qed.

(* the patched model on the same inputs: rejected, state unchanged *)
Lemma fixed_unknown_reference_rejected :
  let st := run demo_parse (init_state [] 4%N) [CAdd "tag/b" "red" "sport:80"] in
  step demo_parse st (CUpd "tag/b" (UQuery "tag:zz")) = (Err EUnknownRef, st).
Proof. vm_compute. reflexivity. Qed.
Lemma fixed_cycle_rejected :
  let st := run demo_parse (init_state [] 4%N) [CAdd "tag/a" "red" "sport:80"; CAdd "tag/b" "red" "tag:a"] in
  step demo_parse st (CUpd "tag/a" (UQuery "tag:b")) = (Err ECycle, st).
Proof. vm_compute. reflexivity. Qed.

(* ---------------------------------------------------------------- any visiting order *)
(* Go ranges over the map in an unspecified order that may differ in every pass.  [ords k] is the
   order of pass k; it only has to visit every key. *)
Fixpoint inherit_loop_ord (fuel : nat) (ords : nat -> list name) (all : list N) (ts : tags_t) (res : list name) : option walk :=
  if all_resolved ts res then Some (ts, res)
  else match fuel with
       | O => None
       | S f => let '(ts', res') := fold_left (inherit_visit all) (ords f) (ts, res) in inherit_loop_ord f ords all ts' res'
       end.

Lemma inherit_loop_ord_terminates : forall fuel ords all ts res,
  wf_tags ts -> (forall k n, In n (keys ts) -> In n (ords k)) ->
  List.length (unresolved ts res) <= fuel ->
  exists ts' res', inherit_loop_ord fuel ords all ts res = Some (ts', res') /\ same_graph ts ts' /\ keys ts' = keys ts.
Proof.
  induction fuel as [|f IH]; intros ords all ts res W Hord Hle.
  - assert (all_resolved ts res = true) as E.
    { apply all_resolved_unresolved. destruct (unresolved ts res); auto. simpl in Hle. lia. }
    simpl. rewrite E. exists ts, res. split; auto. split; auto using same_graph_refl.
  - simpl. destruct (all_resolved ts res) eqn:E.
    + exists ts, res. split; auto. split; auto using same_graph_refl.
    + destruct (fold_left (inherit_visit all) (ords f) (ts, res)) as [ts1 res1] eqn:F.
      destruct (fold_visit_props _ _ _ _ _ _ F) as [F1 [F2 [F3 F4]]].
      pose proof W as [Wn Wc Wm [rank Wr]].
      assert (exists k, In k (keys ts) /\ mem_s k res = false) as [k [Hk Hun]].
      { unfold all_resolved in E. clear -E. induction (keys ts) as [|x l IHl]; simpl in E; [discriminate|].
        destruct (mem_s x res) eqn:Ex; simpl in E.
        - destruct (IHl E) as [k [H1 H2]]. exists k. split; auto. right; auto.
        - exists x. split; auto. left; auto. }
      apply get_In_keys in Hk.
      destruct (exists_ready ts res rank Wc Wr (Datatypes.S (rank k)) k (Nat.lt_succ_diag_r _) Hk Hun) as [k' [t' [G' [Hun' Hall]]]].
      assert (Hin' : In k' (keys ts)) by (apply get_In_keys; apply has_get; eauto).
      pose proof (F4 k' t' (Hord f k' Hin') G' Hall) as Hres.
      assert (W1 : wf_tags ts1) by (eapply wf_same_graph; eauto; rewrite F2; auto).
      assert (Hlt : List.length (unresolved ts1 res1) < List.length (unresolved ts res)).
      { unfold unresolved. rewrite F2. apply (filter_length_lt _ _ _ k'); auto.
        - intros y Hy. apply negb_true_iff in Hy. apply negb_true_iff. apply mem_s_not_In. apply mem_s_not_In in Hy.
          intros H. apply Hy. apply F3. auto.
        - rewrite Hun'. reflexivity.
        - apply negb_false_iff. apply mem_s_In. auto. }
      destruct (IH ords all ts1 res1 W1) as [ts' [res' [L1 [L2 L3]]]]; [intros k0 n Hn; apply Hord; rewrite <- F2; auto|lia|].
      exists ts', res'. split; auto. split; [eapply same_graph_trans; eauto|congruence].
Qed.

Theorem inherit_terminates_any_order : forall ords all ts, wf_tags ts ->
  (forall k n, In n (keys ts) -> In n (ords k)) ->
  exists ts' res', inherit_loop_ord (List.length ts) ords all ts [] = Some (ts', res') /\ same_graph ts ts' /\ keys ts' = keys ts.
Proof. intros. apply inherit_loop_ord_terminates; auto. apply unresolved_le. Qed.

(* ---------------------------------------------------------------- converters only on attachable tags *)
(* attachConverterToTag refuses tags that match on data or reference tags; manager.New attaches the saved
   converters through it.  So an acknowledged attachment survives a restart only if no tag with
   converters is [complex]: that is an invariant of the API (with fixes/C11-4). *)
Definition conv_ok (ts : tags_t) : Prop :=
  forall k t, get ts k = Some t -> nonempty (t_convs t) = true -> complex t = false.

Definition erase (t : tag) : tag := with_unc t [].
Definition upto_unc (ts ts' : tags_t) : Prop :=
  forall k, option_map erase (get ts k) = option_map erase (get ts' k).

Lemma upto_unc_refl : forall ts, upto_unc ts ts.
Proof. intros ts k. reflexivity. Qed.
Lemma upto_unc_trans : forall a b c, upto_unc a b -> upto_unc b c -> upto_unc a c.
Proof. intros a b c H1 H2 k. rewrite H1. apply H2. Qed.

Lemma upto_unc_set : forall ts n t u, get ts n = Some t -> upto_unc ts (set ts n (with_unc t u)).
Proof.
  intros ts n t u G k. rewrite get_set. seq_cases n k; auto. subst. rewrite G. reflexivity.
Qed.

Lemma visit_upto_unc : forall all ts res n ts' res',
  inherit_visit all (ts, res) n = (ts', res') -> upto_unc ts ts'.
Proof.
  intros all ts res n ts' res' H. unfold inherit_visit in H.
  destruct (get ts n) as [ti|] eqn:G; [|injection H as <- <-; apply upto_unc_refl].
  destruct (mem_s n res); [injection H as <- <-; apply upto_unc_refl|].
  destruct (negb (forallb (fun r => mem_s r res) (refs ti))); [injection H as <- <-; apply upto_unc_refl|].
  destruct (negb (nonempty (t_main ti)) && negb (nonempty (t_sub ti))); [injection H as <- <-; apply upto_unc_refl|].
  match type of H with (if ?c then _ else _) = _ => destruct c end; injection H as <- <-; apply upto_unc_set; auto.
Qed.

Lemma fold_visit_upto_unc : forall all l ts res ts' res',
  fold_left (inherit_visit all) l (ts, res) = (ts', res') -> upto_unc ts ts'.
Proof.
  intros all. induction l as [|x l IH]; intros ts res ts' res' H; cbn [fold_left] in H.
  - injection H as <- <-. apply upto_unc_refl.
  - destruct (inherit_visit all (ts, res) x) as [ts1 res1] eqn:V.
    eapply upto_unc_trans; [eapply visit_upto_unc; eauto|eapply IH; eauto].
Qed.

Lemma inherit_loop_upto_unc : forall fuel all ts res ts' res',
  inherit_loop fuel all ts res = Some (ts', res') -> upto_unc ts ts'.
Proof.
  induction fuel as [|f IH]; intros all ts res ts' res' H; simpl in H.
  - destruct (all_resolved ts res); [|discriminate]. injection H as <- <-. apply upto_unc_refl.
  - destruct (all_resolved ts res); [injection H as <- <-; apply upto_unc_refl|].
    destruct (fold_left (inherit_visit all) (keys ts) (ts, res)) as [ts1 res1] eqn:F.
    eapply upto_unc_trans; [eapply fold_visit_upto_unc; eauto|eapply IH; eauto].
Qed.

Lemma conv_ok_upto_unc : forall ts ts', upto_unc ts ts' -> conv_ok ts -> conv_ok ts'.
Proof.
  intros ts ts' H Hc k t' G Hn. specialize (H k). rewrite G in H. cbn [option_map] in H.
  destruct (get ts k) as [t|] eqn:G0; cbn [option_map] in H; [|discriminate].
  assert (He : erase t = erase t') by congruence.
  assert (t_convs t = t_convs t') as E1 by (apply (f_equal t_convs) in He; exact He).
  assert (complex t = complex t') as E2 by (apply (f_equal complex) in He; exact He).
  rewrite <- E2. apply (Hc k t G0). rewrite E1. auto.
Qed.

Lemma conv_ok_after_inherit : forall st ts k r st',
  conv_ok (tags st) -> conv_ok ts -> (forall ts', conv_ok ts' -> conv_ok (k ts')) ->
  after_inherit st ts k = (r, st') -> conv_ok (tags st').
Proof.
  intros st ts k r st' H0 H1 Hk H. unfold after_inherit in H.
  destruct (inherit_uncertainty (all_streams st) ts) as [[ts' res']|] eqn:E.
  - injection H as _ <-. simpl. apply Hk. eapply conv_ok_upto_unc; [|exact H1].
    unfold inherit_uncertainty in E. eapply inherit_loop_upto_unc; eauto.
  - injection H as _ <-. auto.
Qed.

Lemma conv_ok_map_refby : forall (f : name -> list name -> list name) (p : name -> bool) ts,
  conv_ok ts -> conv_ok (map_tags (fun k t => if p k then with_refby t (f k (t_refby t)) else t) ts).
Proof.
  intros f p ts H k t G Hn. rewrite get_map_tags in G. destruct (get ts k) as [t0|] eqn:G0; simpl in G; [|discriminate].
  injection G as <-. destruct (p k).
  - simpl in *. apply (H k t0 G0). exact Hn.
  - apply (H k t0 G0). exact Hn.
Qed.

Lemma conv_ok_set : forall ts n t, conv_ok ts -> (nonempty (t_convs t) = true -> complex t = false) -> conv_ok (set ts n t).
Proof.
  intros ts n t H Ht k t' G Hn. rewrite get_set in G. seq_cases n k.
  - injection G as <-. auto.
  - eapply H; eauto.
Qed.

Lemma conv_ok_del : forall ts n, conv_ok ts -> conv_ok (del ts n).
Proof.
  intros ts n H k t G Hn. rewrite get_del in G. seq_cases n k; [discriminate|]. eapply H; eauto.
Qed.

Opaque dfs dfs_fuel.
Theorem step_conv_ok : forall parse st c, conv_ok (tags st) -> conv_ok (tags (snd (step parse st c))).
Proof.
  intros parse st c H. destruct c as [nm color qs|nm|nm op]; simpl.
  - unfold add_tag. destruct (parse_tag_name nm) as [[typ sub] is_mark].
    repeat match goal with |- context [if ?c then _ else _] => destruct c; simpl; auto
                      | |- context [match parse qs with _ => _ end] => destruct (parse qs); simpl; auto end.
    all: apply (conv_ok_map_refby (fun _ l => add_name nm l)); apply conv_ok_set; auto; simpl; discriminate.
  - unfold del_tag. destruct (get (tags st) nm) as [tg|]; simpl; auto.
    repeat match goal with |- context [if ?c then _ else _] => destruct c; simpl; auto end.
    apply (conv_ok_map_refby (fun _ l => rem_name nm l)). apply conv_ok_del. auto.
  - destruct op; simpl.
    + unfold update_color. destruct (get (tags st) nm) as [tg|] eqn:G; simpl; auto.
      destruct (String.eqb c ""); simpl; auto. apply conv_ok_set; auto. simpl. apply (H nm tg G).
    + unfold update_query. destruct (parse qs) as [|p]; simpl; auto.
      repeat match goal with |- context [if ?c then (Err _, _) else _] => destruct c; simpl; auto end.
      destruct (get (tags st) nm) as [tg|] eqn:G; simpl; auto.
      match goal with |- context [match dfs ?a ?b ?c ?d ?e with _ => _ end] => destruct (dfs a b c d e) end; simpl; auto.
      match goal with |- context [nonempty (t_convs tg) && complex ?t] => set (nt := t) end.
      destruct (nonempty (t_convs tg) && complex nt) eqn:Ec; simpl; auto.
      destruct (negb (forallb (has (tags st)) (refs tg ++ refs nt))); simpl; auto.
      match goal with |- conv_ok (tags (snd ?x)) => destruct x as [r st'] eqn:Ea end. simpl.
      refine (conv_ok_after_inherit st _ _ r st' H _ _ Ea); [|auto].
      apply conv_ok_set.
      * unfold retarget. intros k t Gk Hn. rewrite get_map_tags in Gk.
        destruct (get (tags st) k) as [t0|] eqn:G0; simpl in Gk; [|discriminate]. injection Gk as <-.
        destruct (mem_s k (refs tg) && negb (mem_s k (refs nt))); [apply (H k t0 G0); exact Hn|].
        destruct (mem_s k (refs nt) && negb (mem_s k (refs tg))); apply (H k t0 G0); exact Hn.
      * simpl. intros Hn. rewrite Hn in Ec. simpl in Ec. exact Ec.
    + unfold update_name. destruct (get (tags st) nm) as [tg|] eqn:G; simpl; auto.
      destruct (String.eqb nn ""); simpl; auto.
      destruct (parse_tag_name nm) as [[otyp osub] om]. destruct (parse_tag_name nn) as [[ntyp nsub] nmk].
      repeat match goal with |- context [if ?c then _ else _] => destruct c; simpl; auto end.
      apply (conv_ok_map_refby (fun _ l => add_name nn (rem_name nm l))). apply conv_ok_set; [apply conv_ok_del; auto|].
      apply (H nm tg G).
    + unfold update_convs. destruct (get (tags st) nm) as [tg|] eqn:G; simpl; auto.
      set (fresh := filter (fun c => negb (mem_s c (t_convs tg))) l).
      destruct (negb (forallb (fun c => mem_s c (convs st)) fresh)); simpl; auto.
      destruct (nonempty fresh && complex tg) eqn:Ef; simpl; auto.
      apply conv_ok_set; auto. simpl. intros Hn.
      (* either something new is attached (then the tag is attachable) or only old converters stay *)
      destruct (nonempty fresh) eqn:En; [simpl in Ef; exact Ef|].
      destruct (t_convs tg) as [|c0 cs] eqn:Et.
      * exfalso. subst fresh. destruct l as [|x l]; simpl in *; discriminate.
      * apply (H nm tg G). rewrite Et. reflexivity.
    + unfold update_marks. destruct (negb (nonempty l)); simpl.
      { destruct (get (tags st) nm); simpl; auto. }
      destruct (negb (String.prefix "mark/" nm || String.prefix "generated/" nm)); simpl; auto.
      destruct (get (tags st) nm) as [tg|] eqn:G; simpl; auto.
      match goal with |- context [if ?c then (Err _, _) else _] => destruct c; simpl; auto end.
      match goal with |- conv_ok (tags (snd ?x)) => destruct x as [r st'] eqn:Ea end. simpl.
      refine (conv_ok_after_inherit st _ _ r st' H _ _ Ea).
      * apply conv_ok_set; auto. simpl. apply (H nm tg G).
      * intros ts' H'. destruct (get ts' nm) as [t|] eqn:G'; auto. apply conv_ok_set; auto. simpl. apply (H' nm t G').
    + unfold update_marks. destruct (negb (nonempty l)); simpl.
      { destruct (get (tags st) nm); simpl; auto. }
      destruct (negb (String.prefix "mark/" nm || String.prefix "generated/" nm)); simpl; auto.
      destruct (get (tags st) nm) as [tg|] eqn:G; simpl; auto.
      match goal with |- context [if ?c then (Err _, _) else _] => destruct c; simpl; auto end.
      match goal with |- conv_ok (tags (snd ?x)) => destruct x as [r st'] eqn:Ea end. simpl.
      refine (conv_ok_after_inherit st _ _ r st' H _ _ Ea).
      * apply conv_ok_set; auto. simpl. apply (H nm tg G).
      * intros ts' H'. destruct (get ts' nm) as [t|] eqn:G'; auto. apply conv_ok_set; auto. simpl. apply (H' nm t G').
Qed.

Transparent dfs dfs_fuel.

Theorem history_conv_ok : forall parse cv next cs, conv_ok (tags (run parse (init_state cv next) cs)).
Proof.
  intros parse cv next cs. unfold run. rewrite <- fold_left_rev_right.
  induction (rev cs) as [|c r IH]; simpl; [intros k t G; discriminate|]. apply step_conv_ok. auto.
Qed.

(* ---------------------------------------------------------------- a failing state save *)
Lemma savefail_keeps_change :
  let st := init_state [] 4%N in
  fst (step_savefail demo_parse st (CAdd "tag/a" "red" "sport:80")) = Err ESaveState /\
  tags (snd (step_savefail demo_parse st (CAdd "tag/a" "red" "sport:80"))) <> tags st.
Proof. vm_compute. split; [reflexivity|discriminate]. Qed.

Lemma savefail_wf : forall parse st c, wf_tags (tags st) -> wf_tags (tags (snd (step_savefail parse st c))).
Proof.
  intros parse st c W. unfold step_savefail. pose proof (step_wf parse st c W) as H.
  destruct (step parse st c) as [[| | |] st']; exact H.
Qed.

(* ---------------------------------------------------------------- a tagging job in flight *)
(* the stored features of every tag are what the parser says about its definition text *)
Definition feat_of (parse : string -> parse_result) (t : tag) : Prop :=
  exists p, parse (t_def t) = POk p /\ t_main t = p_main p /\ t_sub t = p_sub p /\ t_data t = p_data p.
Definition feat_ok (parse : string -> parse_result) (ts : tags_t) : Prop :=
  forall k t, get ts k = Some t -> feat_of parse t.

Lemma feat_ok_upto_unc : forall parse ts ts', upto_unc ts ts' -> feat_ok parse ts -> feat_ok parse ts'.
Proof.
  intros parse ts ts' H Hc k t' G. specialize (H k). rewrite G in H. cbn [option_map] in H.
  destruct (get ts k) as [t|] eqn:G0; cbn [option_map] in H; [|discriminate].
  assert (He : erase t = erase t') by congruence.
  destruct (Hc k t G0) as [p [P1 [P2 [P3 P4]]]]. exists p.
  pose proof (f_equal t_def He) as E1. pose proof (f_equal t_main He) as E2.
  pose proof (f_equal t_sub He) as E3. pose proof (f_equal t_data He) as E4. simpl in *.
  rewrite <- E1, <- E2, <- E3, <- E4. auto.
Qed.

Lemma feat_ok_after_inherit : forall parse st ts k r st',
  feat_ok parse (tags st) -> feat_ok parse ts -> (forall ts', feat_ok parse ts' -> feat_ok parse (k ts')) ->
  after_inherit st ts k = (r, st') -> feat_ok parse (tags st').
Proof.
  intros parse st ts k r st' H0 H1 Hk H. unfold after_inherit in H.
  destruct (inherit_uncertainty (all_streams st) ts) as [[ts' res']|] eqn:E.
  - injection H as _ <-. simpl. apply Hk. eapply feat_ok_upto_unc; [|exact H1].
    unfold inherit_uncertainty in E. eapply inherit_loop_upto_unc; eauto.
  - injection H as _ <-. auto.
Qed.

Lemma feat_ok_map_refby : forall parse (f : name -> list name -> list name) (p : name -> bool) ts,
  feat_ok parse ts -> feat_ok parse (map_tags (fun k t => if p k then with_refby t (f k (t_refby t)) else t) ts).
Proof.
  intros parse f p ts H k t G. rewrite get_map_tags in G. destruct (get ts k) as [t0|] eqn:G0; simpl in G; [|discriminate].
  injection G as <-. destruct (p k); apply (H k t0 G0).
Qed.
Lemma feat_ok_set : forall parse ts n t, feat_ok parse ts -> feat_of parse t -> feat_ok parse (set ts n t).
Proof.
  intros parse ts n t H Ht k t' G. rewrite get_set in G. seq_cases n k.
  - injection G as <-. auto.
  - eapply H; eauto.
Qed.
Lemma feat_ok_del : forall parse ts n, feat_ok parse ts -> feat_ok parse (del ts n).
Proof.
  intros parse ts n H k t G. rewrite get_del in G. seq_cases n k; [discriminate|]. eapply H; eauto.
Qed.

Opaque dfs dfs_fuel.
Theorem step_feat_ok : forall parse st c, feat_ok parse (tags st) -> feat_ok parse (tags (snd (step parse st c))).
Proof.
  intros parse st c H. destruct c as [nm color qs|nm|nm op]; simpl.
  - unfold add_tag. destruct (parse_tag_name nm) as [[typ sub] is_mark].
    destruct (String.eqb typ ""); simpl; auto. destruct (String.eqb sub ""); simpl; auto.
    destruct (parse qs) as [|p] eqn:Ep; simpl; auto.
    repeat match goal with |- context [if ?c then _ else _] => destruct c; simpl; auto end.
    all: apply (feat_ok_map_refby parse (fun _ l => add_name nm l)); apply feat_ok_set; auto; exists p; simpl; auto.
  - unfold del_tag. destruct (get (tags st) nm) as [tg|]; simpl; auto.
    repeat match goal with |- context [if ?c then _ else _] => destruct c; simpl; auto end.
    apply (feat_ok_map_refby parse (fun _ l => rem_name nm l)). apply feat_ok_del. auto.
  - destruct op; simpl.
    + unfold update_color. destruct (get (tags st) nm) as [tg|] eqn:G; simpl; auto.
      destruct (String.eqb c ""); simpl; auto. apply feat_ok_set; auto. apply (H nm tg G).
    + unfold update_query. destruct (parse qs) as [|p] eqn:Ep; simpl; auto.
      repeat match goal with |- context [if ?c then (Err _, _) else _] => destruct c; simpl; auto end.
      destruct (get (tags st) nm) as [tg|] eqn:G; simpl; auto.
      match goal with |- context [match dfs ?a ?b ?c ?d ?e with _ => _ end] => destruct (dfs a b c d e) end; simpl; auto.
      match goal with |- context [nonempty (t_convs tg) && complex ?t] => set (nt := t) end.
      destruct (nonempty (t_convs tg) && complex nt); simpl; auto.
      destruct (negb (forallb (has (tags st)) (refs tg ++ refs nt))); simpl; auto.
      match goal with |- feat_ok parse (tags (snd ?x)) => destruct x as [r st'] eqn:Ea end. simpl.
      refine (feat_ok_after_inherit parse st _ _ r st' H _ _ Ea); [|auto].
      apply feat_ok_set.
      * unfold retarget. intros k t Gk. rewrite get_map_tags in Gk.
        destruct (get (tags st) k) as [t0|] eqn:G0; simpl in Gk; [|discriminate]. injection Gk as <-.
        destruct (mem_s k (refs tg) && negb (mem_s k (refs nt))); [apply (H k t0 G0)|].
        destruct (mem_s k (refs nt) && negb (mem_s k (refs tg))); apply (H k t0 G0).
      * exists p. simpl. auto.
    + unfold update_name. destruct (get (tags st) nm) as [tg|] eqn:G; simpl; auto.
      destruct (String.eqb nn ""); simpl; auto.
      destruct (parse_tag_name nm) as [[otyp osub] om]. destruct (parse_tag_name nn) as [[ntyp nsub] nmk].
      repeat match goal with |- context [if ?c then _ else _] => destruct c; simpl; auto end.
      apply (feat_ok_map_refby parse (fun _ l => add_name nn (rem_name nm l))). apply feat_ok_set; [apply feat_ok_del; auto|].
      apply (H nm tg G).
    + unfold update_convs. destruct (get (tags st) nm) as [tg|] eqn:G; simpl; auto.
      repeat match goal with |- context [if ?c then _ else _] => destruct c; simpl; auto end.
      apply feat_ok_set; auto. apply (H nm tg G).
    + unfold update_marks. destruct (negb (nonempty l)); simpl.
      { destruct (get (tags st) nm); simpl; auto. }
      destruct (negb (String.prefix "mark/" nm || String.prefix "generated/" nm)); simpl; auto.
      destruct (get (tags st) nm) as [tg|] eqn:G; simpl; auto.
      match goal with |- context [if ?c then (Err _, _) else _] => destruct c; simpl; auto end.
      match goal with |- feat_ok parse (tags (snd ?x)) => destruct x as [r st'] eqn:Ea end. simpl.
      refine (feat_ok_after_inherit parse st _ _ r st' H _ _ Ea).
      * apply feat_ok_set; auto. apply (H nm tg G).
      * intros ts' H'. destruct (get ts' nm) as [t|] eqn:G'; auto. apply feat_ok_set; auto. apply (H' nm t G').
    + unfold update_marks. destruct (negb (nonempty l)); simpl.
      { destruct (get (tags st) nm); simpl; auto. }
      destruct (negb (String.prefix "mark/" nm || String.prefix "generated/" nm)); simpl; auto.
      destruct (get (tags st) nm) as [tg|] eqn:G; simpl; auto.
      match goal with |- context [if ?c then (Err _, _) else _] => destruct c; simpl; auto end.
      match goal with |- feat_ok parse (tags (snd ?x)) => destruct x as [r st'] eqn:Ea end. simpl.
      refine (feat_ok_after_inherit parse st _ _ r st' H _ _ Ea).
      * apply feat_ok_set; auto. apply (H nm tg G).
      * intros ts' H'. destruct (get ts' nm) as [t|] eqn:G'; auto. apply feat_ok_set; auto. apply (H' nm t G').
Qed.
Transparent dfs dfs_fuel.

(* the completion of a job keeps graph and features, whatever happened to the table meanwhile *)
Lemma complete_job_wf : forall parse st nm snap,
  wf_tags (tags st) -> feat_ok parse (tags st) -> feat_of parse snap ->
  wf_tags (tags (complete_job st nm snap)) /\ feat_ok parse (tags (complete_job st nm snap)).
Proof.
  intros parse st nm snap W F Fs. unfold complete_job.
  destruct (get (tags st) nm) as [ot|] eqn:G; [|auto].
  destruct (String.eqb (t_def ot) (t_def snap)) eqn:E; [|auto]. apply seqb_eq in E.
  destruct (F nm ot G) as [p [P1 [P2 [P3 P4]]]]. destruct Fs as [q [Q1 [Q2 [Q3 Q4]]]].
  assert (q = p) by (rewrite E in P1; congruence). subst q. simpl. split.
  - eapply wf_set_same_graph; eauto. unfold gview, refs. simpl. rewrite Q2, Q3, P2, P3. reflexivity.
  - apply feat_ok_set; auto. exists p. simpl. auto.
Qed.

Definition jinv (parse : string -> parse_result) (s : jstate) : Prop :=
  wf_tags (tags (js s)) /\ feat_ok parse (tags (js s)) /\
  match job s with Some (_, snap) => feat_of parse snap | None => True end.

Theorem jstep_inv : forall parse s e, jinv parse s -> jinv parse (jstep parse s e).
Proof.
  intros parse s e [W [F J]]. destruct e as [c|nm|]; simpl.
  - split; [apply step_wf; auto|]. split; [apply step_feat_ok; auto|auto].
  - destruct (job s) as [[n0 t0]|] eqn:Ej; [unfold jinv; rewrite Ej; auto|].
    destruct (get (tags (js s)) nm) as [t|] eqn:G; [|unfold jinv; rewrite Ej; auto].
    unfold jinv. simpl. split; auto. split; auto. apply (F nm t G).
  - destruct (job s) as [[nm snap]|] eqn:Ej; [|unfold jinv; rewrite Ej; auto].
    destruct (complete_job_wf parse (js s) nm snap W F J) as [W' F']. unfold jinv. simpl. auto.
Qed.

(* EVERY interleaving of API calls with the start and the completion of tagging jobs *)
Theorem jrun_wf : forall parse cv next es, wf_tags (tags (js (jrun parse cv next es))).
Proof.
  intros parse cv next es. assert (jinv parse (jrun parse cv next es)) as [H _]; auto.
  unfold jrun. rewrite <- fold_left_rev_right.
  induction (rev es) as [|e r IH]; simpl.
  - split; [apply wf_empty|]. split; [intros k t G; discriminate|exact I].
  - apply jstep_inv. auto.
Qed.

(* the seeded completion that keeps the job's own referencedBy: the interleaving of seeded/C11-r4c-n1 *)
Definition seeded_history : list jev :=
  [JCall (CAdd "tag/a" "red" "sport:80"); JStart "tag/a";
   JCall (CDel "tag/a"); JCall (CAdd "tag/a" "red" "sport:80"); JCall (CAdd "tag/b" "red" "tag:a"); JDone].

Lemma seeded_completion_loses_referrer :
  let s := fold_left (jstep_seeded demo_parse) seeded_history (mkJ (init_state [] 4%N) None) in
  option_map t_refby (get (tags (js s)) "tag/a") = Some [] /\
  fst (step demo_parse (js s) (CDel "tag/a")) = Ok.
Proof. vm_compute. split; reflexivity. Qed.

Lemma faithful_completion_keeps_referrer :
  let s := fold_left (jstep demo_parse) seeded_history (mkJ (init_state [] 4%N) None) in
  option_map t_refby (get (tags (js s)) "tag/a") = Some ["tag/b"] /\
  fst (step demo_parse (js s) (CDel "tag/a")) = Err EReferenced.
Proof. vm_compute. split; reflexivity. Qed.

(* ---------------------------------------------------------------- the definition of a mark tag denotes its matches *)
Definition md_ok (m : markdef) : Prop := forall x, In x (md_ids m) <-> In x (md_matches m).

Lemma md_add_one_ok : forall m s, md_ok m -> md_ok (md_add_one m s).
Proof.
  intros m s H. unfold md_add_one. destruct (mem_n s (md_matches m)); auto.
  intros x. simpl. rewrite in_app_iff. simpl. rewrite (H x). tauto.
Qed.

Lemma md_step_ok : forall m o, md_ok m -> md_ok (md_step m o).
Proof.
  intros m o H. destruct o as [l|l]; simpl.
  - revert m H. induction l as [|s l IH]; intros m H; simpl; auto. apply IH. apply md_add_one_ok. auto.
  - intros x. simpl. tauto.
Qed.

Theorem mark_definition_denotes_matches : forall ids ops, md_ok (fold_left md_step ops (md_init ids)).
Proof.
  intros ids ops. assert (md_ok (md_init ids)) as H by (intros x; simpl; tauto).
  revert H. generalize (md_init ids). induction ops as [|o ops IH]; intros m H; simpl; auto.
  apply IH. apply md_step_ok. auto.
Qed.
