(* The cache file as a list of records (C15): layout invariant of the cacheFile object. *)
From Coq Require Import NArith ZArith List Bool Lia ZifyBool ZifyN ZifyNat Permutation.
Require Import Pk.CacheFile Pk.CacheFileProofs Pk.CacheFileRecord.
Import ListNotations.
Open Scope N_scope.

(* ------------------------------------------------------------------ *)
(* bytes                                                                *)
(* ------------------------------------------------------------------ *)
Lemma le_bytes_length : forall k n, length (le_bytes k n) = k.
Proof. induction k; intros; cbn [le_bytes length]; [reflexivity|]. rewrite IHk. reflexivity. Qed.

Lemma le_bytes_len8 : forall n, len (le_bytes 8 n) = 8.
Proof. intros. unfold len. rewrite le_bytes_length. reflexivity. Qed.

Lemma le_val_le_bytes : forall k n, n < 256 ^ N.of_nat k -> le_val (le_bytes k n) = n.
Proof.
  induction k as [|k IH]; intros n Hn.
  - cbn in *. lia.
  - cbn [le_bytes le_val]. rewrite IH.
    + pose proof (N.div_mod n 256 ltac:(lia)). lia.
    + rewrite Nat2N.inj_succ, N.pow_succ_r' in Hn. apply N.div_lt_upper_bound; lia.
Qed.

Lemma le_val_le_bytes8 : forall n, n < W64 -> le_val (le_bytes 8 n) = n.
Proof. intros. apply le_val_le_bytes. exact H. Qed.

Lemma take8 : forall n r, take hdr_size (le_bytes 8 n ++ r) = Some (le_bytes 8 n, r).
Proof. intros. unfold hdr_size. rewrite <- (le_bytes_len8 n). apply take_app. Qed.

Lemma firstN_all : forall l, firstN (len l) l = l.
Proof. intros. rewrite <- (app_nil_r l) at 2. rewrite firstN_app. reflexivity. Qed.

Lemma firstN_app_plus : forall a b n, firstN (len a + n) (a ++ b) = a ++ firstN n b.
Proof.
  intros. unfold firstN. rewrite len_app.
  destruct (n <=? len b) eqn:E.
  - assert ((len a + n <=? len a + len b) = true) as -> by (apply N.leb_le; apply N.leb_le in E; lia).
    rewrite firstn_app. unfold len at 1 2. rewrite N2Nat.inj_add, Nat2N.id.
    rewrite firstn_all2 by lia. f_equal. f_equal. lia.
  - assert ((len a + n <=? len a + len b) = false) as -> by (apply N.leb_gt; apply N.leb_gt in E; lia).
    reflexivity.
Qed.

Lemma skipN_app_plus : forall a b n, skipN (len a + n) (a ++ b) = skipN n b.
Proof.
  intros. unfold skipN. rewrite len_app.
  destruct (n <=? len b) eqn:E.
  - assert ((len a + n <=? len a + len b) = true) as -> by (apply N.leb_le; apply N.leb_le in E; lia).
    rewrite skipn_app. unfold len at 1 2. rewrite N2Nat.inj_add, Nat2N.id.
    rewrite skipn_all2 by lia. cbn [app]. f_equal. lia.
  - assert ((len a + n <=? len a + len b) = false) as -> by (apply N.leb_gt; apply N.leb_gt in E; lia).
    reflexivity.
Qed.

Lemma skipN_0 : forall l, skipN 0 l = l.
Proof. intros. unfold skipN. assert ((0 <=? len l) = true) as -> by (apply N.leb_le; lia). reflexivity. Qed.

Lemma firstN_0 : forall l, firstN 0 l = [].
Proof. intros. unfold firstN. assert ((0 <=? len l) = true) as -> by (apply N.leb_le; lia). reflexivity. Qed.

(* ------------------------------------------------------------------ *)
(* records                                                              *)
(* ------------------------------------------------------------------ *)
Notation rec := (N * list N)%type (only parsing).      (* stream id (or the tombstone id), body *)
Definition rec_bytes (r : rec) : list N := le_bytes 8 (fst r) ++ snd r.
Definition rec_size (r : rec) : N := 8 + len (snd r).
Fixpoint flat (rs : list rec) : list N :=
  match rs with [] => [] | r :: rest => rec_bytes r ++ flat rest end.

Definition is_tomb (r : rec) : bool := fst r =? invalid_id.
Definition live (rs : list rec) : list rec := filter (fun r => negb (is_tomb r)) rs.
Fixpoint tomb_bytes (rs : list rec) : N :=
  match rs with [] => 0 | r :: rest => (if is_tomb r then rec_size r else 0) + tomb_bytes rest end.

(* a body that skipStream consumes exactly, whatever follows *)
Definition sd (body : list N) : Prop := forall rest, skip_stream (body ++ rest) = Some rest.
Definition rec_ok (r : rec) : Prop := fst r < W64 /\ sd (snd r).

Lemma rec_bytes_len : forall r, len (rec_bytes r) = rec_size r.
Proof. intros. unfold rec_bytes, rec_size. rewrite len_app, le_bytes_len8. reflexivity. Qed.

Lemma flat_app : forall a b, flat (a ++ b) = flat a ++ flat b.
Proof. induction a; intros; cbn [flat app]; [reflexivity|]. rewrite IHa, app_assoc. reflexivity. Qed.

Lemma flat_len_cons : forall r rs, len (flat (r :: rs)) = rec_size r + len (flat rs).
Proof. intros. cbn [flat]. rewrite len_app, rec_bytes_len. reflexivity. Qed.

(* where the live record of a stream is: (offset of the body, size of the body) *)
Fixpoint find_live (rs : list rec) (off : N) (id : N) : option (N * N) :=
  match rs with
  | [] => None
  | r :: rest => if (fst r =? id) && negb (is_tomb r) then Some (off + 8, len (snd r))
                 else find_live rest (off + rec_size r) id
  end.

Lemma find_live_app : forall a b off id,
  find_live (a ++ b) off id =
  match find_live a off id with Some v => Some v | None => find_live b (off + len (flat a)) id end.
Proof.
  induction a as [|r a IH]; intros; cbn [app find_live flat].
  - rewrite len_nil, N.add_0_r. reflexivity.
  - destruct ((fst r =? id) && negb (is_tomb r)); [reflexivity|].
    rewrite IH. rewrite len_app, rec_bytes_len. rewrite N.add_assoc. reflexivity.
Qed.

Lemma find_live_tomb_id : forall rs off, find_live rs off invalid_id = None.
Proof.
  induction rs as [|r rs IH]; intros; cbn [find_live]; [reflexivity|].
  unfold is_tomb. destruct (fst r =? invalid_id); cbn; apply IH.
Qed.

Lemma find_live_in : forall rs off id v, find_live rs off id = Some v -> In id (map fst (live rs)).
Proof.
  induction rs as [|r rs IH]; intros off id v H; cbn [find_live] in H; [discriminate|].
  cbn [live filter]. destruct (negb (is_tomb r)) eqn:Et.
  - destruct (fst r =? id) eqn:Ei; cbn [andb] in H.
    + apply N.eqb_eq in Ei. left. assumption.
    + right. eapply IH. eassumption.
  - rewrite andb_false_r in H. eapply IH. eassumption.
Qed.

Lemma find_live_none : forall rs off id, ~ In id (map fst (live rs)) -> find_live rs off id = None.
Proof.
  intros rs off id H. destruct (find_live rs off id) eqn:E; [|reflexivity].
  exfalso. apply H. eapply find_live_in. eassumption.
Qed.

Lemma live_app : forall a b, live (a ++ b) = live a ++ live b.
Proof. intros. unfold live. apply filter_app. Qed.

Lemma live_live : forall rs, live (live rs) = live rs.
Proof.
  induction rs as [|r rs IH]; [reflexivity|]. cbn [live filter]. destruct (negb (is_tomb r)) eqn:E.
  - cbn [filter]. rewrite E. f_equal. exact IH.
  - exact IH.
Qed.

Lemma tomb_bytes_app : forall a b, tomb_bytes (a ++ b) = tomb_bytes a + tomb_bytes b.
Proof. induction a; intros; cbn [app tomb_bytes]; [reflexivity|]. rewrite IHa. lia. Qed.

Lemma tomb_bytes_live : forall rs, tomb_bytes (live rs) = 0.
Proof.
  induction rs as [|r rs IH]; [reflexivity|]. cbn [live filter]. destruct (is_tomb r) eqn:E; cbn [negb].
  - exact IH.
  - cbn [tomb_bytes]. rewrite E. exact IH.
Qed.

Lemma no_tomb_live : forall rs, tomb_bytes rs = 0 -> live rs = rs.
Proof.
  induction rs as [|r rs IH]; intros H; [reflexivity|]. cbn [tomb_bytes] in H. cbn [live filter].
  destruct (is_tomb r) eqn:E.
  - unfold rec_size in H. lia.
  - cbn [negb]. f_equal. apply IH. lia.
Qed.

(* ------------------------------------------------------------------ *)
(* the invariant                                                        *)
(* ------------------------------------------------------------------ *)
(* every tombstone starts at or after [limit]; [limit] is the start of a record or the end of the file *)
Fixpoint no_tomb_before (rs : list rec) (off limit : N) : Prop :=
  match rs with
  | [] => True
  | r :: rest => (is_tomb r = true -> limit <= off) /\ no_tomb_before rest (off + rec_size r) limit
  end.
Fixpoint is_boundary (rs : list rec) (off limit : N) : Prop :=
  limit = off \/ match rs with [] => False | r :: rest => is_boundary rest (off + rec_size r) limit end.

Record Inv (st : state) (rs : list rec) : Prop := {
  inv_file : st_file st = file_header ++ flat rs;
  inv_size : st_fileSize st = 8 + len (flat rs);
  inv_recs : Forall rec_ok rs;
  inv_nodup_live : NoDup (map fst (live rs));
  inv_nodup_infos : NoDup (map fst (st_infos st));
  inv_infos : forall id, lookup (st_infos st) id = find_live rs 8 id;
  inv_free : st_freeSize st = tomb_bytes rs;
  inv_notomb : no_tomb_before rs 8 (st_freeStart st);
  inv_boundary : is_boundary rs 8 (st_freeStart st)
}.

Lemma header_len : len file_header = 8. Proof. reflexivity. Qed.

Lemma inv_reset : Inv reset_state [].
Proof.
  constructor.
  - reflexivity.
  - reflexivity.
  - constructor.
  - constructor.
  - constructor.
  - intros. reflexivity.
  - reflexivity.
  - exact I.
  - left. reflexivity.
Qed.

(* lookup / update / remove on the in-memory index *)
Lemma lookup_remove_eq : forall m id, lookup (remove m id) id = None.
Proof.
  induction m as [|[k v] m IH]; intros; cbn [remove lookup]; [reflexivity|].
  destruct (k =? id) eqn:E; [apply IH|]. cbn [lookup]. rewrite E. apply IH.
Qed.

Lemma lookup_remove_neq : forall m id id', id' <> id -> lookup (remove m id) id' = lookup m id'.
Proof.
  induction m as [|[k v] m IH]; intros id id' H; cbn [remove lookup]; [reflexivity|].
  destruct (k =? id) eqn:E.
  - apply N.eqb_eq in E. subst k. assert ((id =? id') = false) as -> by (apply N.eqb_neq; congruence).
    apply IH. assumption.
  - cbn [lookup]. destruct (k =? id'); [reflexivity|]. apply IH. assumption.
Qed.

Lemma lookup_update_eq : forall m id v, lookup (update m id v) id = Some v.
Proof. intros. unfold update. cbn [lookup]. rewrite N.eqb_refl. reflexivity. Qed.

Lemma lookup_update_neq : forall m id v id', id' <> id -> lookup (update m id v) id' = lookup m id'.
Proof.
  intros. unfold update. cbn [lookup].
  assert ((id =? id') = false) as -> by (apply N.eqb_neq; congruence). apply lookup_remove_neq. assumption.
Qed.

Lemma remove_keys_incl : forall m id k, In k (map fst (remove m id)) -> In k (map fst m) /\ k <> id.
Proof.
  induction m as [|[k0 v] m IH]; intros id k H; cbn [remove map fst] in *; [contradiction|].
  destruct (k0 =? id) eqn:E.
  - destruct (IH _ _ H). split; [right; assumption|assumption].
  - cbn [map fst] in H. destruct H as [->|H].
    + split; [left; reflexivity|]. apply N.eqb_neq. assumption.
    + destruct (IH _ _ H). split; [right; assumption|assumption].
Qed.

Lemma remove_nodup : forall m id, NoDup (map fst m) -> NoDup (map fst (remove m id)).
Proof.
  induction m as [|[k v] m IH]; intros id H; cbn [remove map fst]; [constructor|].
  inversion H as [|? ? Hn Hd]; subst. destruct (k =? id); [apply IH; assumption|].
  cbn [map fst]. constructor; [|apply IH; assumption].
  intros Hin. apply remove_keys_incl in Hin. tauto.
Qed.

Lemma update_nodup : forall m id v, NoDup (map fst m) -> NoDup (map fst (update m id v)).
Proof.
  intros. unfold update. cbn [map fst]. constructor; [|apply remove_nodup; assumption].
  intros Hin. apply remove_keys_incl in Hin. tauto.
Qed.

Lemma lookup_in_keys : forall m id v, lookup m id = Some v -> In id (map fst m).
Proof.
  induction m as [|[k w] m IH]; intros id v H; cbn [lookup map fst] in *; [discriminate|].
  destruct (k =? id) eqn:E; [left; apply N.eqb_eq; assumption | right; eapply IH; eassumption].
Qed.

Lemma lookup_none_keys : forall m id, lookup m id = None -> ~ In id (map fst m).
Proof.
  induction m as [|[k w] m IH]; intros id H; cbn [lookup map fst] in *; [tauto|].
  destruct (k =? id) eqn:E; [discriminate|]. apply N.eqb_neq in E. intros [?|?]; [congruence|]. eapply IH; eassumption.
Qed.

(* ------------------------------------------------------------------ *)
(* boundaries and tombstones                                            *)
(* ------------------------------------------------------------------ *)
Lemma no_tomb_mono : forall rs off limit limit',
  no_tomb_before rs off limit -> limit' <= limit -> no_tomb_before rs off limit'.
Proof.
  induction rs as [|r rs IH]; intros off limit limit' H Hle; cbn [no_tomb_before] in *; [exact I|].
  destruct H as [H1 H2]. split; [intros Ht; specialize (H1 Ht); lia | eapply IH; eassumption].
Qed.

Lemma no_tomb_of_zero : forall rs off limit, tomb_bytes rs = 0 -> no_tomb_before rs off limit.
Proof.
  induction rs as [|r rs IH]; intros off limit H; cbn [no_tomb_before tomb_bytes] in *; [exact I|].
  destruct (is_tomb r) eqn:E; [unfold rec_size in H; lia|]. split; [discriminate | apply IH; lia].
Qed.

Lemma no_tomb_zero : forall rs off limit,
  no_tomb_before rs off limit -> off + len (flat rs) <= limit -> tomb_bytes rs = 0.
Proof.
  induction rs as [|r rs IH]; intros off limit H Hle; cbn [no_tomb_before tomb_bytes] in *; [reflexivity|].
  rewrite flat_len_cons in Hle. destruct H as [H1 H2]. destruct (is_tomb r) eqn:E.
  - specialize (H1 eq_refl). unfold rec_size in Hle. lia.
  - rewrite (IH _ _ H2); lia.
Qed.

Lemma no_tomb_app : forall a b off limit,
  no_tomb_before (a ++ b) off limit <-> no_tomb_before a off limit /\ no_tomb_before b (off + len (flat a)) limit.
Proof.
  induction a as [|r a IH]; intros b off limit; cbn [app no_tomb_before flat].
  - rewrite len_nil, N.add_0_r. tauto.
  - rewrite len_app, rec_bytes_len, N.add_assoc. rewrite IH. tauto.
Qed.

Lemma boundary_split : forall rs off limit, is_boundary rs off limit ->
  exists a b, rs = a ++ b /\ limit = off + len (flat a).
Proof.
  induction rs as [|r rs IH]; intros off limit H; cbn [is_boundary] in H.
  - destruct H as [->|[]]. exists [], []. split; [reflexivity|]. cbn. lia.
  - destruct H as [->|H].
    + exists [], (r :: rs). split; [reflexivity|]. cbn. lia.
    + destruct (IH _ _ H) as (a & b & -> & ->). exists (r :: a), b. split; [reflexivity|].
      rewrite flat_len_cons. lia.
Qed.

Lemma boundary_app_l : forall a b off limit, is_boundary a off limit -> is_boundary (a ++ b) off limit.
Proof.
  induction a as [|r a IH]; intros b off limit H; cbn [is_boundary app] in *.
  - destruct H as [->|[]]. destruct b; cbn; left; reflexivity.
  - destruct H as [->|H]; [left; reflexivity | right; apply IH; assumption].
Qed.

Lemma boundary_end : forall rs off, is_boundary rs off (off + len (flat rs)).
Proof.
  induction rs as [|r rs IH]; intros off; cbn [is_boundary].
  - left. cbn. lia.
  - right. rewrite flat_len_cons, N.add_assoc. apply IH.
Qed.

(* ------------------------------------------------------------------ *)
(* killing a record: the tombstone takes its place                      *)
(* ------------------------------------------------------------------ *)
Fixpoint kill (rs : list rec) (id : N) : list rec :=
  match rs with
  | [] => []
  | r :: rest => if (fst r =? id) && negb (is_tomb r) then (invalid_id, snd r) :: rest else r :: kill rest id
  end.

Lemma find_live_split : forall rs off0 id off sz,
  find_live rs off0 id = Some (off, sz) ->
  exists a body b, rs = a ++ (id, body) :: b /\ is_tomb (id, body) = false /\
                   off = off0 + len (flat a) + 8 /\ sz = len body /\
                   kill rs id = a ++ (invalid_id, body) :: b.
Proof.
  induction rs as [|r rs IH]; intros off0 id off sz H; cbn [find_live] in H; [discriminate|].
  cbn [kill]. destruct ((fst r =? id) && negb (is_tomb r)) eqn:E.
  - apply andb_prop in E. destruct E as [E1 E2]. apply N.eqb_eq in E1. inversion H; subst.
    destruct r as [i body]. cbn [fst snd] in *. exists [], body, rs. cbn [app flat].
    rewrite len_nil. repeat split; try lia. apply negb_true_iff. assumption.
  - destruct (IH _ _ _ _ H) as (a & body & b & -> & Ht & -> & -> & Hk).
    exists (r :: a), body, b. rewrite Hk. cbn [app]. rewrite flat_len_cons. repeat split; try assumption. lia.
Qed.

Lemma kill_none : forall rs off id, find_live rs off id = None -> kill rs id = rs.
Proof.
  induction rs as [|r rs IH]; intros off id H; cbn [find_live kill] in *; [reflexivity|].
  destruct ((fst r =? id) && negb (is_tomb r)); [discriminate|]. f_equal. eapply IH. eassumption.
Qed.

Lemma is_tomb_invalid : forall body, is_tomb (invalid_id, body) = true.
Proof. intros. unfold is_tomb. cbn. reflexivity. Qed.

Lemma kill_flat_len : forall rs id, len (flat (kill rs id)) = len (flat rs).
Proof.
  induction rs as [|r rs IH]; intros; cbn [kill]; [reflexivity|].
  destruct ((fst r =? id) && negb (is_tomb r)).
  - rewrite !flat_len_cons. reflexivity.
  - rewrite !flat_len_cons, IH. reflexivity.
Qed.

Lemma find_live_kill_neq : forall rs id id' off, id' <> id -> find_live (kill rs id) off id' = find_live rs off id'.
Proof.
  induction rs as [|r rs IH]; intros id id' off Hn; cbn [kill]; [reflexivity|].
  destruct ((fst r =? id) && negb (is_tomb r)) eqn:E.
  - apply andb_prop in E. destruct E as [E1 E2]. apply N.eqb_eq in E1.
    cbn [find_live fst snd]. rewrite is_tomb_invalid. cbn [negb]. rewrite andb_false_r.
    assert ((fst r =? id') = false) as -> by (apply N.eqb_neq; congruence). cbn [andb].
    unfold rec_size. reflexivity.
  - cbn [find_live]. destruct ((fst r =? id') && negb (is_tomb r)); [reflexivity|]. apply IH. assumption.
Qed.

Lemma find_live_kill_eq : forall rs id off, NoDup (map fst (live rs)) -> find_live (kill rs id) off id = None.
Proof.
  induction rs as [|r rs IH]; intros id off Hnd; cbn [kill]; [reflexivity|].
  cbn [live filter] in Hnd.
  destruct ((fst r =? id) && negb (is_tomb r)) eqn:E.
  - apply andb_prop in E. destruct E as [E1 E2]. apply N.eqb_eq in E1. rewrite E2 in Hnd.
    cbn [map fst] in Hnd. inversion Hnd as [|? ? Hnot Hnd']; subst.
    cbn [find_live fst snd]. rewrite is_tomb_invalid. cbn [negb]. rewrite andb_false_r.
    apply find_live_none. assumption.
  - cbn [find_live]. rewrite E. apply IH. destruct (negb (is_tomb r)); [inversion Hnd; assumption | assumption].
Qed.

Lemma live_kill_incl : forall rs id x, In x (map fst (live (kill rs id))) -> In x (map fst (live rs)).
Proof.
  induction rs as [|r rs IH]; intros id x H; cbn [kill] in H; [assumption|].
  destruct ((fst r =? id) && negb (is_tomb r)) eqn:E.
  - apply andb_prop in E. destruct E as [E1 E2]. cbn [live filter] in *. rewrite is_tomb_invalid in H. cbn [negb] in H.
    rewrite E2. right. assumption.
  - cbn [live filter] in *. destruct (negb (is_tomb r)); cbn [map fst] in *; [destruct H as [?|?]; [left; assumption | right; eapply IH; eassumption] | eapply IH; eassumption].
Qed.

Lemma live_kill_nodup : forall rs id, NoDup (map fst (live rs)) -> NoDup (map fst (live (kill rs id))).
Proof.
  induction rs as [|r rs IH]; intros id H; cbn [kill]; [assumption|].
  destruct ((fst r =? id) && negb (is_tomb r)) eqn:E.
  - apply andb_prop in E. destruct E as [E1 E2]. cbn [live filter] in *. rewrite is_tomb_invalid. cbn [negb].
    rewrite E2 in H. inversion H; assumption.
  - cbn [live filter] in *. destruct (negb (is_tomb r)); cbn [map fst] in *.
    + inversion H as [|? ? Hn Hd]; subst. constructor; [|apply IH; assumption].
      intros Hin. apply Hn. eapply live_kill_incl. eassumption.
    + apply IH. assumption.
Qed.

Lemma kill_recs_ok : forall rs id, Forall rec_ok rs -> Forall rec_ok (kill rs id).
Proof.
  induction rs as [|r rs IH]; intros id H; cbn [kill]; [assumption|]. inversion H as [|? ? Hr Hrs]; subst.
  destruct ((fst r =? id) && negb (is_tomb r)).
  - constructor; [|assumption]. destruct Hr as [_ Hsd]. split; [cbn; unfold invalid_id, W64; lia | exact Hsd].
  - constructor; [assumption | apply IH; assumption].
Qed.

Lemma kill_tomb_bytes : forall rs id off o sz, find_live rs off id = Some (o, sz) ->
  tomb_bytes (kill rs id) = tomb_bytes rs + sz + 8.
Proof.
  induction rs as [|r rs IH]; intros id off o sz H; cbn [find_live kill] in *; [discriminate|].
  destruct ((fst r =? id) && negb (is_tomb r)) eqn:E.
  - apply andb_prop in E. destruct E as [_ E2]. apply negb_true_iff in E2. inversion H; subst.
    cbn [tomb_bytes]. rewrite is_tomb_invalid, E2. unfold rec_size. cbn [snd]. lia.
  - cbn [tomb_bytes]. rewrite (IH _ _ _ _ H). lia.
Qed.

Lemma kill_no_tomb : forall rs id off o sz limit,
  no_tomb_before rs off limit -> find_live rs off id = Some (o, sz) -> limit <= o - 8 ->
  no_tomb_before (kill rs id) off limit.
Proof.
  induction rs as [|r rs IH]; intros id off o sz limit Hn H Hle; cbn [find_live kill] in *; [discriminate|].
  cbn [no_tomb_before] in Hn. destruct Hn as [H1 H2].
  destruct ((fst r =? id) && negb (is_tomb r)) eqn:E.
  - inversion H; subst. cbn [no_tomb_before]. split; [intros _; lia|]. unfold rec_size in *. exact H2.
  - cbn [no_tomb_before]. split; [assumption|]. eapply IH; eassumption.
Qed.

Lemma kill_boundary : forall rs id off limit, is_boundary rs off limit -> is_boundary (kill rs id) off limit.
Proof.
  induction rs as [|r rs IH]; intros id off limit H; cbn [kill]; [assumption|].
  cbn [is_boundary] in H. destruct ((fst r =? id) && negb (is_tomb r)).
  - cbn [is_boundary]. exact H.
  - cbn [is_boundary]. destruct H as [?|H]; [left; assumption | right; apply IH; assumption].
Qed.

Lemma kill_boundary_at : forall rs id off o sz, find_live rs off id = Some (o, sz) ->
  is_boundary (kill rs id) off (o - 8).
Proof.
  induction rs as [|r rs IH]; intros id off o sz H; cbn [find_live kill] in *; [discriminate|].
  destruct ((fst r =? id) && negb (is_tomb r)).
  - inversion H; subst. cbn [is_boundary]. left. lia.
  - cbn [is_boundary]. right. eapply IH. eassumption.
Qed.

Lemma find_live_off_ge : forall rs off id o sz, find_live rs off id = Some (o, sz) -> off + 8 <= o.
Proof.
  induction rs as [|r rs IH]; intros off id o sz H; cbn [find_live] in H; [discriminate|].
  destruct ((fst r =? id) && negb (is_tomb r)).
  - inversion H; subst. lia.
  - apply IH in H. unfold rec_size in H. lia.
Qed.
