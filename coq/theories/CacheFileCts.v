(* Proofs about the content-type section of a cache-file record (C15). *)
From Coq Require Import NArith ZArith List Bool Lia ZifyBool ZifyN ZifyNat Permutation.
Require Import Pk.CacheFile Pk.CacheFileProofs Pk.CacheFileRecord.
Import ListNotations.
Open Scope N_scope.

Definition with_ct (c : chunk) (ct : list N) : chunk := mkChunk (c_dir c) (c_data c) (c_time c) ct.

(* set the content type of every chunk whose index satisfies P; k = index of the head *)
Fixpoint mark (P : nat -> bool) (ct : list N) (k : nat) (data : list chunk) : list chunk :=
  match data with
  | [] => []
  | c :: r => (if P k then with_ct c ct else c) :: mark P ct (S k) r
  end.

Lemma mark_length : forall P ct data k, length (mark P ct k data) = length data.
Proof. induction data; intros; cbn; [reflexivity|]. rewrite IHdata. reflexivity. Qed.

Lemma mark_ext : forall P Q ct data k,
  (forall j, (k <= j < k + length data)%nat -> P j = Q j) -> mark P ct k data = mark Q ct k data.
Proof.
  induction data as [|c r IH]; intros k H; cbn [mark]; [reflexivity|].
  rewrite (H k) by (cbn [length]; lia). f_equal. apply IH. intros j Hj. apply H. cbn [length]. lia.
Qed.

Lemma mark_false : forall ct data k, mark (fun _ => false) ct k data = data.
Proof. induction data; intros; cbn; [reflexivity|]. rewrite IHdata. reflexivity. Qed.

Lemma mark_mark : forall P Q ct data k,
  mark Q ct k (mark P ct k data) = mark (fun j => P j || Q j) ct k data.
Proof.
  induction data as [|c r IH]; intros; cbn [mark]; [reflexivity|]. rewrite IH. f_equal.
  destruct (P k), (Q k); reflexivity.
Qed.

Lemma set_ct_mark : forall data i k ct, (i < length data)%nat ->
  set_ct data i ct = Some (mark (fun j => Nat.eqb j (k + i)) ct k data).
Proof.
  induction data as [|c r IH]; intros i k ct Hi; cbn [length] in Hi; [lia|].
  destruct i as [|i]; cbn [set_ct mark].
  - rewrite Nat.add_0_r, Nat.eqb_refl. f_equal. f_equal. fold (with_ct c ct).
    rewrite (mark_ext _ (fun _ => false)); [rewrite mark_false; reflexivity|].
    intros j Hj. apply Nat.eqb_neq. lia.
  - rewrite (IH i (S k) ct) by lia.
    assert (Nat.eqb k (k + S i) = false) as -> by (apply Nat.eqb_neq; lia).
    f_equal. f_equal. apply mark_ext. intros j Hj. f_equal. lia.
Qed.

(* bit j-bit of byte b, for j >= bit *)
Definition P_byte (b : N) (bit j : nat) : bool := Nat.leb bit j && N.testbit b (N.of_nat (j - bit)).
Fixpoint P_bm (bm : list N) (bit j : nat) : bool :=
  match bm with [] => false | b :: r => P_byte b bit j || P_bm r (8 + bit) j end.

Lemma testbit_div2 : forall b k, N.testbit (b / 2) k = N.testbit b (N.succ k).
Proof. intros. rewrite <- N.div2_div. rewrite N.div2_spec. rewrite N.shiftr_spec by lia. f_equal. lia. Qed.

Lemma apply_bits_mark : forall fuel b bit ct data,
  b < 2 ^ N.of_nat fuel ->
  (forall j, P_byte b bit j = true -> (j < length data)%nat) ->
  apply_bits fuel b bit ct data = Some (mark (P_byte b bit) ct 0 data).
Proof.
  induction fuel as [|f IH]; intros b bit ct data Hb Hin.
  - cbn in Hb. assert (b = 0) by lia. subst b. cbn [apply_bits].
    rewrite (mark_ext _ (fun _ => false)); [rewrite mark_false; reflexivity|].
    intros j _. unfold P_byte. rewrite N.bits_0. apply andb_false_r.
  - cbn [apply_bits]. destruct (b =? 0) eqn:E0.
    + apply N.eqb_eq in E0. subst b.
      rewrite (mark_ext _ (fun _ => false)); [rewrite mark_false; reflexivity|].
      intros j _. unfold P_byte. rewrite N.bits_0. apply andb_false_r.
    + assert (Hb2 : b / 2 < 2 ^ N.of_nat f).
      { rewrite Nat2N.inj_succ, N.pow_succ_r' in Hb. apply N.div_lt_upper_bound; lia. }
      assert (Hstep : forall j, P_byte b bit j = Nat.eqb j bit && N.odd b || P_byte (b / 2) (S bit) j).
      { intros j. unfold P_byte. rewrite testbit_div2. rewrite <- N.bit0_odd.
        destruct (Nat.eqb j bit) eqn:Ej.
        - apply Nat.eqb_eq in Ej. subst j. rewrite Nat.sub_diag. cbn [N.of_nat].
          assert (Nat.leb bit bit = true) as -> by (apply Nat.leb_le; lia).
          assert (Nat.leb (S bit) bit = false) as -> by (apply Nat.leb_gt; lia).
          cbn. rewrite orb_false_r. reflexivity.
        - apply Nat.eqb_neq in Ej. cbn [andb orb].
          destruct (Nat.leb (S bit) j) eqn:El.
          + apply Nat.leb_le in El. assert (Nat.leb bit j = true) as -> by (apply Nat.leb_le; lia).
            cbn [andb]. f_equal. lia.
          + apply Nat.leb_gt in El. assert (Nat.leb bit j = false) as -> by (apply Nat.leb_gt; lia).
            reflexivity. }
      destruct (N.odd b) eqn:Eo.
      * assert (Hbit : (bit < length data)%nat).
        { apply Hin. rewrite Hstep, Nat.eqb_refl. reflexivity. }
        rewrite (set_ct_mark data bit 0 ct Hbit). cbn [plus].
        rewrite IH; [| assumption |].
        -- rewrite mark_mark. f_equal. apply mark_ext. intros j _. rewrite Hstep. rewrite andb_true_r. reflexivity.
        -- intros j Hj. rewrite mark_length. apply Hin. rewrite Hstep, Hj. apply orb_true_r.
      * rewrite IH; [| assumption |].
        -- f_equal. apply mark_ext. intros j _. rewrite Hstep. rewrite andb_false_r. reflexivity.
        -- intros j Hj. apply Hin. rewrite Hstep, Hj. apply orb_true_r.
Qed.

Lemma apply_bm_mark : forall bm bit ct data,
  bytes bm ->
  (forall j, P_bm bm bit j = true -> (j < length data)%nat) ->
  apply_bm bm bit ct data = Some (mark (P_bm bm bit) ct 0 data).
Proof.
  induction bm as [|b r IH]; intros bit ct data Hb Hin.
  - cbn [apply_bm P_bm]. rewrite mark_false. reflexivity.
  - inversion Hb as [|? ? Hb1 Hb2]; subst. cbn [apply_bm].
    rewrite (apply_bits_mark 8 b bit ct data); [| exact Hb1 |].
    + rewrite IH; [| assumption |].
      * rewrite mark_mark. reflexivity.
      * intros j Hj. rewrite mark_length. apply Hin. cbn [P_bm]. rewrite Hj. apply orb_true_r.
    + intros j Hj. apply Hin. cbn [P_bm]. rewrite Hj. reflexivity.
Qed.

(* ------------------------------------------------------------------ *)
(* decoding the content-type section                                    *)
(* ------------------------------------------------------------------ *)
Definition ct_entry_ok (n : nat) (e : list N * list N) : Prop :=
  let '(ct, bm) := e in
  bm <> [] /\ bytes bm /\ len ct < W64 /\ (forall j, P_bm bm 0 j = true -> (j < n)%nat).

Fixpoint mark_all (m : list (list N * list N)) (data : list chunk) : list chunk :=
  match m with
  | [] => data
  | (ct, bm) :: r => mark_all r (mark (P_bm bm 0) ct 0 data)
  end.

Lemma mark_all_length : forall m data, length (mark_all m data) = length data.
Proof. induction m as [|[ct bm] r IH]; intros; cbn [mark_all]; [reflexivity|]. rewrite IH. apply mark_length. Qed.

Lemma wvb_nonempty : forall data, data <> [] -> bytes data -> forall r, 
  exists b bs, read_varbytes (write_varbytes data ++ r) = Some (b :: bs, r) /\ b :: bs = data.
Proof.
  intros data Hne Hb r. rewrite varbytes_roundtrip by assumption.
  destruct data as [|b bs]; [congruence|]. exists b, bs. split; reflexivity.
Qed.

Lemma wvb_step_nonempty : forall buf fl b, fst (fst (wvb_step buf fl b)) <> [].
Proof. intros. unfold wvb_step. destruct (fl + 1 <=? 7); cbn; congruence. Qed.

Lemma write_varbytes_length : forall d, (1 <= length (write_varbytes d))%nat.
Proof.
  intros [|b r]; cbn [write_varbytes length]; [lia|]. cbn [wvb_go].
  pose proof (wvb_step_nonempty 0 0 b) as H. destruct (wvb_step 0 0 b) as [[o buf'] fl']. cbn in H.
  rewrite app_length. destruct o; [congruence|]. cbn [length]. lia.
Qed.

Lemma enc_cts_length : forall m, (1 <= length (enc_cts m))%nat.
Proof.
  destruct m as [|[ct bm] r]; cbn [enc_cts length]; [lia|].
  rewrite app_length. pose proof (write_varbytes_length bm). lia.
Qed.

Lemma dec_cts_enc : forall m fuel rest data,
  Forall (ct_entry_ok (length data)) m ->
  (length (enc_cts m ++ rest) <= length fuel)%nat ->
  dec_cts fuel (enc_cts m ++ rest) data = Some (mark_all m data).
Proof.
  induction m as [|[ct bm] r IH]; intros fuel rest data Hok Hf.
  - cbn [enc_cts app] in *. destruct fuel as [|x f]; [cbn [length] in Hf; lia|]. reflexivity.
  - inversion Hok as [|? ? He Hok']; subst. unfold ct_entry_ok in He. destruct He as (Hne & Hb & Hl & Hin).
    pose proof (write_varbytes_length bm) as Hwl.
    cbn [enc_cts] in *. rewrite <- !app_assoc in *.
    destruct fuel as [|x f]; [rewrite app_length in Hf; cbn [length] in Hf; lia|].
    cbn [dec_cts]. rewrite varbytes_roundtrip by assumption.
    destruct bm as [|b bs]; [congruence|].
    rewrite string_roundtrip by assumption.
    rewrite apply_bm_mark by assumption. cbn [mark_all].
    apply IH.
    + rewrite mark_length. assumption.
    + rewrite !app_length in *. cbn [length] in Hf. lia.
Qed.

(* the content type chunk j ends up with, given the one it had before *)
Fixpoint final_ct (m : list (list N * list N)) (j : nat) (init : list N) : list N :=
  match m with
  | [] => init
  | (ct, bm) :: r => final_ct r j (if P_bm bm 0 j then ct else init)
  end.

Lemma mark_all_nth : forall m data j c,
  nth_error data j = Some c ->
  nth_error (mark_all m data) j = Some (with_ct c (final_ct m j (c_ct c))).
Proof.
  induction m as [|[ct bm] r IH]; intros data j c Hn; cbn [mark_all final_ct].
  - rewrite Hn. destruct c; reflexivity.
  - assert (Hm : forall P k data j c, nth_error data j = Some c ->
                 nth_error (mark P ct k data) j = Some (if P (k + j)%nat then with_ct c ct else c)).
    { clear. intros P k data. revert k. induction data as [|d ds IHd]; intros k j c Hn; [destruct j; discriminate|].
      destruct j as [|j]; cbn [nth_error mark] in *.
      - inversion Hn. rewrite Nat.add_0_r. reflexivity.
      - rewrite (IHd (S k) j c Hn). replace (S k + j)%nat with (k + S j)%nat by lia. reflexivity. }
    rewrite (IH _ j _ (Hm _ 0%nat data j c Hn)). cbn [plus].
    destruct (P_bm bm 0 j); reflexivity.
Qed.

Lemma final_ct_unique : forall m j init x,
  (forall ct bm, In (ct, bm) m -> P_bm bm 0 j = true -> ct = x) ->
  (init = x \/ exists ct bm, In (ct, bm) m /\ P_bm bm 0 j = true) ->
  final_ct m j init = x.
Proof.
  induction m as [|[ct bm] r IH]; intros j init x Hall Hex; cbn [final_ct].
  - destruct Hex as [?|(? & ? & [] & _)]. assumption.
  - apply IH.
    + intros ct' bm' Hin. apply Hall. right. assumption.
    + destruct (P_bm bm 0 j) eqn:E.
      * left. apply (Hall ct bm); [left; reflexivity | assumption].
      * destruct Hex as [?|(ct' & bm' & [Heq|Hin] & Hp)].
        -- left. assumption.
        -- inversion Heq; subst. congruence.
        -- right. exists ct', bm'. split; assumption.
Qed.

(* ------------------------------------------------------------------ *)
(* what collect_cts builds                                              *)
(* ------------------------------------------------------------------ *)
Lemma list_eqb_eq : forall a b, list_eqb a b = true <-> a = b.
Proof.
  induction a as [|x a IH]; destruct b as [|y b]; cbn [list_eqb]; split; intros H; try congruence; try discriminate.
  - apply andb_prop in H. destruct H as [H1 H2]. apply N.eqb_eq in H1. apply IH in H2. congruence.
  - inversion H; subst. rewrite N.eqb_refl. cbn. apply IH. reflexivity.
Qed.

Lemma lor_pow2_byte : forall b bit, b < 256 -> bit < 8 -> N.lor b (2 ^ bit) < 256.
Proof.
  intros b bit Hb Hbit. change 256 with (2 ^ 8).
  assert (Hpos : 0 < N.lor b (2 ^ bit)).
  { apply N.neq_0_lt_0. intros H0. apply N.lor_eq_0_iff in H0. destruct H0 as [_ H0].
    apply N.pow_nonzero in H0; [assumption | lia]. }
  apply N.log2_lt_pow2; [assumption|]. rewrite N.log2_lor. rewrite N.log2_pow2 by lia.
  destruct (N.eq_dec b 0) as [->|Hn]; [cbn; lia|].
  assert (N.log2 b < 8) by (apply N.log2_lt_pow2; [lia | exact Hb]). lia.
Qed.

Lemma bm_set_bytes : forall k bm bit, bit < 8 -> bytes bm -> bytes (bm_set bm k bit).
Proof.
  induction k as [|k IH]; intros bm bit Hbit Hb; destruct bm as [|b r]; cbn [bm_set].
  - constructor; [|constructor]. change 256 with (2 ^ 8). apply N.pow_lt_mono_r; lia.
  - inversion Hb; subst. constructor; [apply lor_pow2_byte|]; assumption.
  - constructor; [lia|]. apply IH; [assumption|constructor].
  - inversion Hb; subst. constructor; [assumption|]. apply IH; assumption.
Qed.

Lemma bm_set_nonempty : forall k bm bit, bm_set bm k bit <> [].
Proof. intros [|k] [|b r] bit; cbn [bm_set]; congruence. Qed.

Lemma P_bm_bm_set : forall k bm bit start j, bit < 8 ->
  P_bm (bm_set bm k bit) start j = P_bm bm start j || Nat.eqb j (start + 8 * k + N.to_nat bit).
Proof.
  induction k as [|k IH]; intros bm bit start j Hbit; destruct bm as [|b r]; cbn [bm_set P_bm].
  - rewrite orb_false_r. cbn [orb]. unfold P_byte. rewrite N.pow2_bits_eqb.
    destruct (Nat.leb start j) eqn:El; cbn [andb].
    + apply Nat.leb_le in El. destruct (Nat.eqb j (start + 8 * 0 + N.to_nat bit)) eqn:Ej.
      * apply Nat.eqb_eq in Ej. apply N.eqb_eq. lia.
      * apply Nat.eqb_neq in Ej. apply N.eqb_neq. lia.
    + apply Nat.leb_gt in El. symmetry. apply Nat.eqb_neq. lia.
  - unfold P_byte. rewrite N.lor_spec, N.pow2_bits_eqb.
    destruct (Nat.leb start j) eqn:El; cbn [andb].
    + apply Nat.leb_le in El.
      assert ((bit =? N.of_nat (j - start)) = Nat.eqb j (start + 8 * 0 + N.to_nat bit)) as ->.
      { destruct (Nat.eqb j (start + 8 * 0 + N.to_nat bit)) eqn:Ej.
        - apply Nat.eqb_eq in Ej. apply N.eqb_eq. lia.
        - apply Nat.eqb_neq in Ej. apply N.eqb_neq. lia. }
      destruct (N.testbit b (N.of_nat (j - start))), (P_bm r (8 + start) j), (Nat.eqb j (start + 8 * 0 + N.to_nat bit)); reflexivity.
    + apply Nat.leb_gt in El.
      assert (Nat.eqb j (start + 8 * 0 + N.to_nat bit) = false) as -> by (apply Nat.eqb_neq; lia).
      rewrite orb_false_r. reflexivity.
  - rewrite (IH [] bit (8 + start)%nat j Hbit). cbn [P_bm orb].
    assert (P_byte 0 start j = false) as -> by (unfold P_byte; rewrite N.bits_0; apply andb_false_r).
    cbn [orb]. f_equal. lia.
  - rewrite (IH r bit (8 + start)%nat j Hbit). rewrite orb_assoc. f_equal. f_equal. lia.
Qed.

Lemma P_bm_set_ix : forall bm i j,
  P_bm (bm_set_ix bm (N.of_nat i)) 0 j = P_bm bm 0 j || Nat.eqb j i.
Proof.
  intros. unfold bm_set_ix.
  assert (Hbit : N.of_nat i mod 8 < 8) by (apply N.mod_lt; lia).
  rewrite P_bm_bm_set by assumption. f_equal. f_equal.
  pose proof (N.div_mod (N.of_nat i) 8 ltac:(lia)). lia.
Qed.

Definition ct_at (all : list chunk) (j : nat) : list N :=
  match nth_error all j with Some c => c_ct c | None => [] end.

Definition cts_inv (all : list chunk) (k : nat) (m : list (list N * list N)) : Prop :=
  NoDup (map fst m) /\
  (forall ct bm, In (ct, bm) m ->
     ct <> [] /\ bm <> [] /\ bytes bm /\ (exists j, P_bm bm 0 j = true) /\
     (forall j, P_bm bm 0 j = true <-> (j < k)%nat /\ ct_at all j = ct)) /\
  (forall j, (j < k)%nat -> ct_at all j <> [] -> In (ct_at all j) (map fst m)).

Lemma ct_update_fst : forall m ct i, 
  map fst (ct_update m ct i) = if existsb (fun e => list_eqb (fst e) ct) m then map fst m else map fst m ++ [ct].
Proof.
  induction m as [|[k bm] r IH]; intros; cbn [ct_update map existsb fst]; [reflexivity|].
  destruct (list_eqb k ct) eqn:E; cbn [orb map fst]; [reflexivity|].
  rewrite IH. destruct (existsb _ r); reflexivity.
Qed.

Lemma existsb_key : forall m ct, existsb (fun e : list N * list N => list_eqb (fst e) ct) m = true <-> In ct (map fst m).
Proof.
  intros. rewrite existsb_exists. split.
  - intros [[k bm] [Hin He]]. apply list_eqb_eq in He. cbn in He. subst. apply in_map_iff. exists (ct, bm). auto.
  - intros Hin. apply in_map_iff in Hin. destruct Hin as [[k bm] [He Hin]]. cbn in He. subst.
    exists (ct, bm). split; [assumption|]. apply list_eqb_eq. reflexivity.
Qed.

Lemma ct_update_in : forall m ct i ct' bm', NoDup (map fst m) ->
  In (ct', bm') (ct_update m ct i) ->
  (ct' <> ct /\ In (ct', bm') m) \/
  (ct' = ct /\ ((exists bm, In (ct, bm) m /\ bm' = bm_set_ix bm i) \/ (~ In ct (map fst m) /\ bm' = bm_set_ix [] i))).
Proof.
  induction m as [|[k bm] r IH]; intros ct i ct' bm' Hnd Hin; cbn [ct_update] in Hin.
  - destruct Hin as [Heq|[]]. inversion Heq; subst. right. split; [reflexivity|]. right. split; [intros []|reflexivity].
  - inversion Hnd as [|? ? Hnotin Hnd']; subst. destruct (list_eqb k ct) eqn:E.
    + apply list_eqb_eq in E. subst k. destruct Hin as [Heq|Hin].
      * inversion Heq; subst. right. split; [reflexivity|]. left. exists bm. split; [left; reflexivity|reflexivity].
      * left. split; [|right; assumption]. intros ->. apply Hnotin. apply in_map_iff. exists (ct, bm'). auto.
    + assert (Hne : k <> ct) by (intros ->; rewrite (proj2 (list_eqb_eq ct ct) eq_refl) in E; discriminate).
      destruct Hin as [Heq|Hin].
      * inversion Heq; subst. left. split; [assumption|left; reflexivity].
      * destruct (IH ct i ct' bm' Hnd' Hin) as [[Hn Hi]|[He [(bm0 & Hi & Hb)|[Hni Hb]]]].
        -- left. split; [assumption|right; assumption].
        -- right. split; [assumption|]. left. exists bm0. split; [right; assumption|assumption].
        -- right. split; [assumption|]. right. split; [|assumption]. cbn [map fst]. intros [?|?]; [congruence|contradiction].
Qed.

Lemma cts_inv_perm : forall all k m m', Permutation m m' -> cts_inv all k m -> cts_inv all k m'.
Proof.
  intros all k m m' Hp (H1 & H2 & H3). split; [|split].
  - eapply Permutation_NoDup; [apply Permutation_map; eassumption | assumption].
  - intros ct bm Hin. apply H2. eapply Permutation_in; [apply Permutation_sym; eassumption | assumption].
  - intros j Hj Hne. eapply Permutation_in; [apply Permutation_map; eassumption | apply H3; assumption].
Qed.

Lemma cts_inv_skip : forall all k m, cts_inv all k m -> ct_at all k = [] -> cts_inv all (S k) m.
Proof.
  intros all k m (H1 & H2 & H3) He. split; [assumption|split].
  - intros ct bm Hin. destruct (H2 ct bm Hin) as (Hc & Hb & Hby & Hex & Hiff).
    do 4 (split; [assumption|]). intros j. split.
    + intros Hp. apply Hiff in Hp. split; [lia|tauto].
    + intros [Hj Hc']. apply Hiff. split; [|assumption].
      destruct (Nat.eq_dec j k) as [->|]; [congruence|lia].
  - intros j Hj Hne. destruct (Nat.eq_dec j k) as [->|]; [congruence|]. apply H3; [lia|assumption].
Qed.

Lemma cts_inv_update : forall all k m ct,
  cts_inv all k m -> ct_at all k = ct -> ct <> [] -> cts_inv all (S k) (ct_update m ct (N.of_nat k)).
Proof.
  intros all k m ct (H1 & H2 & H3) Hk Hne.
  assert (Hbit : N.of_nat k mod 8 < 8) by (apply N.mod_lt; lia).
  split; [|split].
  - rewrite ct_update_fst. destruct (existsb _ m) eqn:E; [assumption|].
    eapply Permutation_NoDup; [apply Permutation_cons_append|]. constructor; [|assumption].
    intros Hin. apply existsb_key in Hin. congruence.
  - intros ct' bm' Hin. destruct (ct_update_in m ct (N.of_nat k) ct' bm' H1 Hin) as [[Hn Hi]|[-> [(bm0 & Hi & ->)|[Hni ->]]]].
    + destruct (H2 ct' bm' Hi) as (Hc & Hb & Hby & Hex & Hiff).
      do 4 (split; [assumption|]). intros j. split.
      * intros Hp. apply Hiff in Hp. split; [lia|tauto].
      * intros [Hj Hc']. apply Hiff. split; [|assumption].
        destruct (Nat.eq_dec j k) as [->|]; [congruence|lia].
    + destruct (H2 ct bm0 Hi) as (Hc & Hb & Hby & Hex & Hiff). split; [assumption|]. split; [apply bm_set_nonempty|].
      split; [apply bm_set_bytes; assumption|]. split.
      * exists k. rewrite P_bm_set_ix, Nat.eqb_refl. apply orb_true_r.
      * intros j. rewrite P_bm_set_ix. split.
        -- intros Hp. apply orb_prop in Hp. destruct Hp as [Hp|Hp].
           ++ apply Hiff in Hp. split; [lia|tauto].
           ++ apply Nat.eqb_eq in Hp. subst j. split; [lia|assumption].
        -- intros [Hj Hc']. destruct (Nat.eq_dec j k) as [->|Hn].
           ++ rewrite Nat.eqb_refl. apply orb_true_r.
           ++ apply orb_true_iff. left. apply Hiff. split; [lia|assumption].
    + split; [assumption|]. split; [apply bm_set_nonempty|].
      split; [apply bm_set_bytes; [assumption|constructor]|]. split.
      * exists k. rewrite P_bm_set_ix, Nat.eqb_refl. apply orb_true_r.
      * intros j. rewrite P_bm_set_ix. cbn [P_bm orb]. split.
        -- intros Hp. apply Nat.eqb_eq in Hp. subst j. split; [lia|assumption].
        -- intros [Hj Hc']. apply Nat.eqb_eq. destruct (Nat.eq_dec j k) as [->|Hn]; [reflexivity|].
           exfalso. apply Hni. rewrite <- Hc'. apply H3; [lia|congruence].
  - intros j Hj Hn. rewrite ct_update_fst.
    destruct (Nat.eq_dec j k) as [->|Hjk].
    + rewrite Hk. destruct (existsb _ m) eqn:E; [apply existsb_key; assumption|]. apply in_or_app. right. left. reflexivity.
    + assert (In (ct_at all j) (map fst m)) by (apply H3; [lia|assumption]).
      destruct (existsb _ m); [assumption|]. apply in_or_app. left. assumption.
Qed.

Lemma collect_cts_inv : forall cs pre m,
  cts_inv (pre ++ cs) (length pre) m ->
  cts_inv (pre ++ cs) (length (pre ++ cs)) (collect_cts (N.of_nat (length pre)) cs m).
Proof.
  induction cs as [|c cs IH]; intros pre m Hinv.
  - cbn [collect_cts]. rewrite app_nil_r in *. assumption.
  - cbn [collect_cts].
    assert (Hat : ct_at (pre ++ c :: cs) (length pre) = c_ct c).
    { unfold ct_at. rewrite nth_error_app2 by lia. rewrite Nat.sub_diag. reflexivity. }
    replace (N.of_nat (length pre) + 1) with (N.of_nat (length (pre ++ [c]))) by (rewrite app_length; cbn [length]; lia).
    replace (pre ++ c :: cs) with ((pre ++ [c]) ++ cs) in * by (rewrite <- app_assoc; reflexivity).
    apply IH. rewrite app_length. cbn [length]. rewrite Nat.add_1_r.
    destruct (c_ct c) as [|x ct] eqn:Ec.
    + apply cts_inv_skip; assumption.
    + apply cts_inv_update; [assumption|assumption|congruence].
Qed.

Lemma collect_cts_spec : forall cs, cts_inv cs (length cs) (collect_cts 0 cs []).
Proof.
  intros cs. apply (collect_cts_inv cs [] []). split; [constructor|split].
  - intros ? ? [].
  - intros j Hj. cbn [length] in Hj. lia.
Qed.
