(* NewCacheFile on a (possibly torn) cache file (C15): the scan, reopen, crash. *)
From Coq Require Import NArith ZArith List Bool Lia ZifyBool ZifyN ZifyNat Permutation.
Require Import Pk.CacheFile Pk.CacheFileProofs Pk.CacheFileRecord Pk.CacheFileState Pk.CacheFileOps.
Import ListNotations.
Open Scope N_scope.

(* ------------------------------------------------------------------ *)
(* readers are monotone in the input: more bytes after the end never    *)
(* change a successful read                                             *)
(* ------------------------------------------------------------------ *)
Lemma rv_mono : forall l acc v r x,
  read_varint_go acc l = Some (v, r) -> read_varint_go acc (l ++ x) = Some (v, r ++ x).
Proof.
  induction l as [|b l IH]; intros acc v r x H; cbn [read_varint_go app] in *; [discriminate|].
  destruct (b <? 128); [inversion H; reflexivity | apply IH; assumption].
Qed.

Lemma read_varint_mono : forall l v r x, read_varint l = Some (v, r) -> read_varint (l ++ x) = Some (v, r ++ x).
Proof. intros. apply rv_mono. assumption. Qed.

Lemma take_mono : forall n l a r x, take n l = Some (a, r) -> take n (l ++ x) = Some (a, r ++ x).
Proof.
  intros n l a r x H. unfold take in *. destruct (n <=? len l) eqn:E; [|discriminate].
  apply N.leb_le in E. inversion H; subst.
  assert ((n <=? len (l ++ x)) = true) as -> by (apply N.leb_le; rewrite len_app; lia).
  assert (Hn : (N.to_nat n <= length l)%nat) by (unfold len in E; lia).
  rewrite firstn_app, skipn_app.
  replace (N.to_nat n - length l)%nat with 0%nat by lia. cbn [firstn skipn]. rewrite app_nil_r. reflexivity.
Qed.

Lemma rvb_mono : forall l buf fl o r x,
  rvb_go buf fl l = Some (o, r) -> rvb_go buf fl (l ++ x) = Some (o, r ++ x).
Proof.
  induction l as [|b l IH]; intros buf fl o r x H; cbn [rvb_go app] in *; [discriminate|].
  destruct (b <? 128); [inversion H; reflexivity|].
  match type of H with context [rvb_go ?a ?c l] => destruct (rvb_go a c l) as [[o' r']|] eqn:E end; [|discriminate].
  rewrite (IH _ _ _ _ x E). inversion H; reflexivity.
Qed.

Lemma read_varbytes_mono : forall l o r x, read_varbytes l = Some (o, r) -> read_varbytes (l ++ x) = Some (o, r ++ x).
Proof. intros. apply rvb_mono. assumption. Qed.

Lemma read_string_mono : forall l s r x, read_string l = Some (s, r) -> read_string (l ++ x) = Some (s, r ++ x).
Proof.
  intros l s r x H. unfold read_string in *. destruct (read_varint l) as [[n r']|] eqn:E; [|discriminate].
  rewrite (read_varint_mono _ _ _ x E). apply take_mono. assumption.
Qed.

Lemma skip_sizes_mono : forall f l nz d c a b r f' x,
  skip_sizes f l nz d c = Some (a, b, r) -> (length f <= length f')%nat ->
  skip_sizes f' (l ++ x) nz d c = Some (a, b, r ++ x).
Proof.
  induction f as [|y f IH]; intros l nz d c a b r f' x H Hf; cbn [skip_sizes] in H; [discriminate|].
  destruct f' as [|y' f']; [cbn [length] in Hf; lia|]. cbn [skip_sizes].
  destruct (read_varint l) as [[sz r']|] eqn:E; [|discriminate].
  rewrite (read_varint_mono _ _ _ x E). cbn [length] in Hf.
  destruct (sz =? 0).
  - destruct nz; [inversion H; reflexivity|]. apply IH; [assumption|lia].
  - apply IH; [assumption|lia].
Qed.

Lemma skip_varints_mono : forall f cnt l r f' x,
  skip_varints f cnt l = Some r -> (length f <= length f')%nat ->
  skip_varints f' cnt (l ++ x) = Some (r ++ x).
Proof.
  induction f as [|y f IH]; intros cnt l r f' x H Hf.
  - cbn [skip_varints] in H. destruct (cnt =? 0) eqn:E; [|discriminate]. inversion H; subst.
    destruct f'; cbn [skip_varints]; rewrite E; reflexivity.
  - cbn [skip_varints] in H. destruct f' as [|y' f']; [cbn [length] in Hf; lia|]. cbn [skip_varints].
    destruct (cnt =? 0); [inversion H; reflexivity|].
    destruct (read_varint l) as [[v r']|] eqn:E; [|discriminate].
    rewrite (read_varint_mono _ _ _ x E). apply IH; [assumption|cbn [length] in Hf; lia].
Qed.

Lemma skip_cts_mono : forall f l r f' x,
  skip_cts f l = Some r -> (length f <= length f')%nat -> skip_cts f' (l ++ x) = Some (r ++ x).
Proof.
  induction f as [|y f IH]; intros l r f' x H Hf; cbn [skip_cts] in H; [discriminate|].
  destruct f' as [|y' f']; [cbn [length] in Hf; lia|]. cbn [skip_cts].
  destruct (read_varbytes l) as [[bm r']|] eqn:E; [|discriminate].
  rewrite (read_varbytes_mono _ _ _ x E).
  destruct bm as [|b bm]; [inversion H; reflexivity|].
  destruct (read_string r') as [[s r'']|] eqn:Es; [|discriminate].
  rewrite (read_string_mono _ _ _ x Es). apply IH; [assumption|cbn [length] in Hf; lia].
Qed.

Lemma skip_stream_mono : forall l r x, skip_stream l = Some r -> skip_stream (l ++ x) = Some (r ++ x).
Proof.
  intros l r x H. unfold skip_stream in *.
  destruct (skip_sizes l l false 0 0) as [[[dsz cnt] r1]|] eqn:E1; [|discriminate].
  rewrite (skip_sizes_mono _ _ _ _ _ _ _ _ (l ++ x) x E1) by (rewrite app_length; lia).
  destruct (take dsz r1) as [[d r2]|] eqn:E2; [|discriminate].
  rewrite (take_mono _ _ _ _ x E2).
  destruct (skip_varints r2 cnt r2) as [r3|] eqn:E3; [|discriminate].
  rewrite (skip_varints_mono _ _ _ _ (r2 ++ x) x E3) by (rewrite app_length; lia).
  apply (skip_cts_mono r3); [assumption | rewrite app_length; lia].
Qed.

(* a record cut short is never accepted *)
Lemma sd_prefix_fails : forall body q s, sd body -> body = q ++ s -> s <> [] -> skip_stream q = None.
Proof.
  intros body q s Hsd Hb Hs. destruct (skip_stream q) as [r|] eqn:E; [|reflexivity].
  apply (skip_stream_mono _ _ s) in E. specialize (Hsd []). rewrite app_nil_r, Hb, E in Hsd.
  inversion Hsd as [H0]. apply app_eq_nil in H0. tauto.
Qed.

(* ------------------------------------------------------------------ *)
(* the scan of NewCacheFile                                             *)
(* ------------------------------------------------------------------ *)
(* what may follow the last complete record: nothing, or the beginning of a record *)
Definition torn_tail (tail : list N) : Prop :=
  tail = [] \/
  (tail <> [] /\ (take hdr_size tail = None \/
                  exists h q, take hdr_size tail = Some (h, q) /\ skip_stream q = None)).

(* loop invariant of the scan after the records [pre] *)
Definition scanJ (pre : list rec) (infos : infos_t) (fs fr fstart : N) : Prop :=
  fs = 8 + len (flat pre) /\ fr = tomb_bytes pre /\ NoDup (map fst infos) /\
  (forall id, lookup infos id = find_live pre 8 id) /\
  (fr = 0 \/ (no_tomb_before pre 8 fstart /\ is_boundary pre 8 fstart)).

Lemma boundary_le : forall rs off limit, is_boundary rs off limit -> limit <= off + len (flat rs).
Proof.
  induction rs as [|r rs IH]; intros off limit H; cbn [is_boundary] in H.
  - destruct H as [->|[]]. lia.
  - rewrite flat_len_cons. destruct H as [->|H]; [lia|]. apply IH in H. lia.
Qed.

Lemma scan_step : forall x f l infos fs fr fstart, l <> [] ->
  scan fx_all (x :: f) l infos fs fr fstart =
  match take hdr_size l with
  | None => ScanDone infos fs fr fstart true
  | Some (h, r) =>
      match skip_stream r with
      | None => ScanDone infos fs fr fstart true
      | Some r' =>
          let id := le_val h in
          let sz := len r - len r' in
          let off := fs + hdr_size in
          if (id =? invalid_id) then
            scan fx_all f r' infos (off + sz) (fr + hdr_size + sz) (if fr =? 0 then fs else fstart)
          else
            match lookup infos id with
            | Some (o, s) =>
                scan fx_all f r' (update infos id (off, sz)) (off + sz) (fr + hdr_size + s)
                     (if (fr =? 0) || (o - hdr_size <? fstart) then o - hdr_size else fstart)
            | None =>
                scan fx_all f r' (update infos id (off, sz)) (off + sz) fr fstart
            end
      end
  end.
Proof. intros. destruct l; [congruence|]. reflexivity. Qed.

Lemma scan_spec : forall rest pre tail fuel infos fs fr fstart,
  scanJ pre infos fs fr fstart -> Forall rec_ok rest -> NoDup (map fst (live (pre ++ rest))) ->
  torn_tail tail -> (length (flat rest ++ tail) <= length fuel)%nat ->
  exists infos' fr' fstart',
    scan fx_all fuel (flat rest ++ tail) infos fs fr fstart
    = ScanDone infos' (8 + len (flat (pre ++ rest))) fr' fstart' (match tail with [] => false | _ => true end)
    /\ scanJ (pre ++ rest) infos' (8 + len (flat (pre ++ rest))) fr' fstart'.
Proof.
  induction rest as [|r rest IH]; intros pre tail fuel infos fs fr fstart HJ Hok Hnd Htail Hf.
  - cbn [flat app] in *. rewrite app_nil_r. destruct HJ as (Hfs & HJ').
    destruct Htail as [->|[Hne Hcase]].
    + exists infos, fr, fstart. split; [|split; [reflexivity|exact HJ']].
      destruct fuel; cbn [scan]; rewrite Hfs; reflexivity.
    + exists infos, fr, fstart. split; [|split; [reflexivity|exact HJ']].
      destruct fuel as [|x f]; [destruct tail; [congruence|cbn [length] in Hf; lia]|].
      rewrite scan_step by assumption. rewrite Hfs.
      destruct tail as [|t0 tl]; [congruence|].
      destruct Hcase as [->|(h & q & -> & ->)]; reflexivity.
  - inversion Hok as [|? ? [Hid Hsd] Hok']; subst.
    destruct HJ as (Hfs & Hfr & Hndi & Hlk & Hfree).
    cbn [flat] in *. rewrite <- app_assoc in *.
    pose proof (rec_bytes_length_ge r) as Hrl.
    destruct fuel as [|x f]; [rewrite app_length in Hf; cbn [length] in Hf; lia|].
    assert (Hstep : forall infos0 fs0 fr0 fstart0,
      scan fx_all (x :: f) (rec_bytes r ++ flat rest ++ tail) infos0 fs0 fr0 fstart0 =
      if (fst r =? invalid_id) then
        scan fx_all f (flat rest ++ tail) infos0 (fs0 + hdr_size + len (snd r)) (fr0 + hdr_size + len (snd r))
             (if fr0 =? 0 then fs0 else fstart0)
      else
        match lookup infos0 (fst r) with
        | Some (o, s) =>
            scan fx_all f (flat rest ++ tail) (update infos0 (fst r) (fs0 + hdr_size, len (snd r)))
                 (fs0 + hdr_size + len (snd r)) (fr0 + hdr_size + s)
                 (if (fr0 =? 0) || (o - hdr_size <? fstart0) then o - hdr_size else fstart0)
        | None =>
            scan fx_all f (flat rest ++ tail) (update infos0 (fst r) (fs0 + hdr_size, len (snd r)))
                 (fs0 + hdr_size + len (snd r)) fr0 fstart0
        end).
    { intros. rewrite scan_step by apply rec_bytes_nonempty.
      unfold rec_bytes at 1. rewrite <- app_assoc. rewrite take8. rewrite Hsd.
      cbv zeta. rewrite le_val_le_bytes8 by assumption.
      replace (len (snd r ++ flat rest ++ tail) - len (flat rest ++ tail)) with (len (snd r)) by (rewrite !len_app; lia).
      reflexivity. }
    rewrite Hstep. clear Hstep.
    assert (Hf' : (length (flat rest ++ tail) <= length f)%nat) by (rewrite app_length in Hf; cbn [length] in Hf; lia).
    assert (Hpre : (pre ++ [r]) ++ rest = pre ++ r :: rest) by (rewrite <- app_assoc; reflexivity).
    assert (Hlenpre : 8 + len (flat (pre ++ [r])) = fs + hdr_size + len (snd r)).
    { rewrite flat_app, len_app, flat_len_cons. unfold rec_size, hdr_size. cbn [flat]. rewrite len_nil. lia. }
    fold (is_tomb r). destruct (is_tomb r) eqn:Et.
    + (* tombstone *)
      destruct (IH (pre ++ [r]) tail f infos (fs + hdr_size + len (snd r)) (fr + hdr_size + len (snd r))
                   (if fr =? 0 then fs else fstart)) as (infos' & fr' & fstart' & Hscan & HJ'); try assumption.
      * split; [symmetry; exact Hlenpre|]. split; [rewrite tomb_bytes_app; cbn [tomb_bytes]; rewrite Et; unfold rec_size, hdr_size; lia|].
        split; [assumption|]. split.
        -- intros id. rewrite find_live_app, <- Hlk. destruct (lookup infos id); [reflexivity|].
           cbn [find_live]. rewrite Et. cbn [negb]. rewrite andb_false_r. reflexivity.
        -- right. destruct (fr =? 0) eqn:E0.
           ++ apply N.eqb_eq in E0. assert (Hz : tomb_bytes pre = 0) by lia. split.
              ** apply no_tomb_app. split; [apply no_tomb_of_zero; assumption|]. cbn [no_tomb_before]. split; [intros _; lia|exact I].
              ** apply boundary_app_l. rewrite Hfs. apply boundary_end.
           ++ apply N.eqb_neq in E0. destruct Hfree as [?|[Hnt Hb]]; [congruence|]. split.
              ** apply no_tomb_app. split; [assumption|]. cbn [no_tomb_before]. split; [|exact I].
                 intros _. apply boundary_le in Hb. lia.
              ** apply boundary_app_l. assumption.
      * rewrite Hpre. assumption.
      * rewrite Hpre in *. exists infos', fr', fstart'. split; assumption.
    + (* live record; its id is new *)
      assert (Hnotin : ~ In (fst r) (map fst (live pre))).
      { rewrite live_app, map_app in Hnd. cbn [live filter] in Hnd. rewrite Et in Hnd. cbn [negb map fst] in Hnd.
        intros Hin. apply NoDup_remove_2 in Hnd. apply Hnd. apply in_or_app. left. assumption. }
      assert (Hnone : lookup infos (fst r) = None) by (rewrite Hlk; apply find_live_none; assumption).
      rewrite Hnone.
      destruct (IH (pre ++ [r]) tail f (update infos (fst r) (fs + hdr_size, len (snd r)))
                   (fs + hdr_size + len (snd r)) fr fstart) as (infos' & fr' & fstart' & Hscan & HJ'); try assumption.
      * split; [symmetry; exact Hlenpre|]. split; [rewrite tomb_bytes_app; cbn [tomb_bytes]; rewrite Et; lia|].
        split; [apply update_nodup; assumption|]. split.
        -- intros id. rewrite find_live_app. destruct (N.eq_dec id (fst r)) as [->|Hne].
           ++ rewrite lookup_update_eq, find_live_none by assumption. cbn [find_live]. rewrite N.eqb_refl, Et.
              cbn [negb andb]. unfold hdr_size. rewrite Hfs. reflexivity.
           ++ rewrite lookup_update_neq by assumption. rewrite Hlk. destruct (find_live pre 8 id); [reflexivity|].
              cbn [find_live]. assert ((fst r =? id) = false) as -> by (apply N.eqb_neq; congruence). reflexivity.
        -- destruct Hfree as [?|[Hnt' Hb]]; [left; assumption|right]. split.
           ++ apply no_tomb_app. split; [assumption|]. cbn [no_tomb_before]. rewrite Et. split; [discriminate|exact I].
           ++ apply boundary_app_l. assumption.
      * rewrite Hpre. assumption.
      * rewrite Hpre in *. exists infos', fr', fstart'. split; assumption.
Qed.

(* ------------------------------------------------------------------ *)
(* NewCacheFile                                                         *)
(* ------------------------------------------------------------------ *)
Lemma file_header_eqb : list_eqb file_header file_header = true.
Proof. reflexivity. Qed.

Theorem open_inv : forall rs tail,
  Forall rec_ok rs -> NoDup (map fst (live rs)) -> torn_tail tail ->
  exists st', new_cache_file fx_all (file_header ++ flat rs ++ tail) = Some st' /\
              Inv st' (live rs) /\ st_freeSize st' = 0.
Proof.
  intros rs tail Hok Hnd Htail. unfold new_cache_file.
  assert (Hfile : exists b l, file_header ++ flat rs ++ tail = b :: l) by (eexists; eexists; reflexivity).
  destruct Hfile as (b0 & l0 & Hfile). rewrite Hfile. rewrite <- Hfile. clear Hfile b0 l0.
  assert (Htake : take hdr_size (file_header ++ flat rs ++ tail) = Some (file_header, flat rs ++ tail)).
  { unfold hdr_size. rewrite <- header_len. apply take_app. }
  rewrite Htake. rewrite file_header_eqb. cbn [negb].
  destruct (scan_spec rs [] tail (flat rs ++ tail) [] hdr_size 0 hdr_size) as (infos' & fr' & fstart' & Hscan & HJ);
    try assumption.
  { split; [reflexivity|]. split; [reflexivity|]. split; [constructor|]. split; [intros; reflexivity|]. left. reflexivity. }
  { apply le_n. }
  cbn [app] in Hscan, HJ. rewrite Hscan.
  destruct HJ as (_ & Hfr & Hndi & Hlk & Hfree).
  set (file' := if match tail with [] => false | _ :: _ => true end
                then firstN (8 + len (flat rs)) (file_header ++ flat rs ++ tail)
                else file_header ++ flat rs ++ tail).
  assert (Hfile' : file' = file_header ++ flat rs).
  { unfold file'. destruct tail as [|t0 tl].
    - rewrite app_nil_r. reflexivity.
    - rewrite app_assoc. rewrite <- header_len, <- len_app. apply firstN_app. }
  rewrite Hfile'.
  destruct (fr' =? 0) eqn:E0.
  - apply N.eqb_eq in E0. assert (Hz : tomb_bytes rs = 0) by lia.
    rewrite (no_tomb_live rs Hz).
    eexists. split; [reflexivity|]. split; [|reflexivity].
    constructor; cbn [st_file st_infos st_fileSize st_freeSize st_freeStart].
    + reflexivity.
    + reflexivity.
    + assumption.
    + assumption.
    + assumption.
    + assumption.
    + symmetry. assumption.
    + apply no_tomb_of_zero. assumption.
    + apply boundary_end.
  - apply N.eqb_neq in E0. destruct Hfree as [?|[Hnt Hb]]; [congruence|].
    assert (HI : Inv (mkState (file_header ++ flat rs) infos' (8 + len (flat rs)) fr' fstart') rs).
    { constructor; cbn [st_file st_infos st_fileSize st_freeSize st_freeStart]; try assumption; reflexivity. }
    destruct (truncate_file_inv _ _ HI) as (st' & Ht & HI' & Hz). exists st'. tauto.
Qed.

Theorem reopen_inv : forall st rs, Inv st rs ->
  exists st', reopen fx_all st = Some st' /\ Inv st' (live rs) /\ st_freeSize st' = 0.
Proof.
  intros st rs HI. unfold reopen. rewrite (inv_file _ _ HI).
  rewrite <- (app_nil_r (flat rs)). apply open_inv; [exact (inv_recs _ _ HI) | exact (inv_nodup_live _ _ HI) | left; reflexivity].
Qed.

(* ------------------------------------------------------------------ *)
(* a crash leaves a prefix of the file                                  *)
(* ------------------------------------------------------------------ *)
Lemma firstN_short : forall n l, n < len l -> len (firstN n l) = n.
Proof.
  intros n l H. unfold firstN. assert ((n <=? len l) = true) as -> by (apply N.leb_le; lia).
  unfold len in *. rewrite firstn_length. lia.
Qed.

Lemma firstN_prefix : forall n l, exists s, l = firstN n l ++ s /\ (n < len l -> s <> []).
Proof.
  intros n l. unfold firstN. destruct (n <=? len l) eqn:E.
  - exists (skipn (N.to_nat n) l). split; [symmetry; apply firstn_skipn|].
    intros Hlt Hs. assert (Hl : length (skipn (N.to_nat n) l) = 0%nat) by (rewrite Hs; reflexivity).
    rewrite skipn_length in Hl. unfold len in Hlt. lia.
  - exists []. split; [rewrite app_nil_r; reflexivity|]. apply N.leb_gt in E. lia.
Qed.

(* the first n bytes of the records = some complete records + the beginning of the next one *)
Lemma flat_prefix : forall rs n, Forall rec_ok rs ->
  exists k tail, firstN n (flat rs) = flat (firstn k rs) ++ tail /\ torn_tail tail /\
                 (len (flat (firstn k rs)) <= n) /\
                 (k = length rs \/ n < len (flat (firstn (S k) rs))).
Proof.
  induction rs as [|r rs IH]; intros n Hok.
  - exists 0%nat, []. cbn [flat firstn app]. split; [unfold firstN; destruct (n <=? len []); [rewrite firstn_nil|]; reflexivity|].
    split; [left; reflexivity|]. split; [rewrite len_nil; lia|]. left. reflexivity.
  - inversion Hok as [|? ? [Hid Hsd] Hok']; subst. cbn [flat].
    destruct (N.le_gt_cases (rec_size r) n) as [Hle|Hgt].
    + (* the record is complete *)
      replace n with (len (rec_bytes r) + (n - rec_size r)) by (rewrite rec_bytes_len; lia).
      rewrite firstN_app_plus.
      destruct (IH (n - rec_size r) Hok') as (k & tail & Hk & Ht & Hlen & Hmax).
      exists (S k), tail. cbn [firstn flat]. rewrite Hk, <- app_assoc. split; [reflexivity|]. split; [assumption|].
      split; [rewrite len_app, rec_bytes_len; lia|].
      destruct Hmax as [->|Hlt]; [left; reflexivity|right].
      cbn [firstn flat] in *. rewrite len_app, rec_bytes_len. lia.
    + (* the record is cut *)
      exists 0%nat, (firstN n (rec_bytes r ++ flat rs)). cbn [firstn flat app]. split; [reflexivity|].
      assert (Hcut : firstN n (rec_bytes r ++ flat rs) = firstN n (rec_bytes r)).
      { unfold firstN. rewrite len_app, rec_bytes_len.
        assert ((n <=? rec_size r + len (flat rs)) = true) as -> by (apply N.leb_le; lia).
        assert ((n <=? rec_size r) = true) as -> by (apply N.leb_le; lia).
        rewrite firstn_app. replace (N.to_nat n - length (rec_bytes r))%nat with 0%nat.
        - cbn [firstn]. apply app_nil_r.
        - pose proof (rec_bytes_len r) as Hl. unfold len in Hl. lia. }
      rewrite Hcut. split; [|split; [rewrite len_nil; lia|]].
      * destruct (N.eq_dec n 0) as [->|Hn0]; [left; apply firstN_0|right].
        assert (Hlen : len (firstN n (rec_bytes r)) = n) by (apply firstN_short; rewrite rec_bytes_len; assumption).
        split; [intros He; rewrite He, len_nil in Hlen; lia|].
        destruct (N.lt_ge_cases n 8) as [Hn8|Hn8].
        -- left. unfold take. rewrite Hlen. assert ((hdr_size <=? n) = false) as -> by (apply N.leb_gt; unfold hdr_size; lia). reflexivity.
        -- right. unfold rec_bytes. replace n with (len (le_bytes 8 (fst r)) + (n - 8)) by (rewrite le_bytes_len8; lia).
           rewrite firstN_app_plus. exists (le_bytes 8 (fst r)), (firstN (n - 8) (snd r)). split; [apply take8|].
           destruct (firstN_prefix (n - 8) (snd r)) as (s & Hs & Hne).
           eapply sd_prefix_fails; [exact Hsd | exact Hs | apply Hne; unfold rec_size in Hgt; lia].
      * right. cbn [firstn flat]. rewrite app_nil_r, rec_bytes_len. assumption.
Qed.

Lemma live_prefix_nodup : forall k rs, NoDup (map fst (live rs)) -> NoDup (map fst (live (firstn k rs))).
Proof.
  intros k rs H. rewrite <- (firstn_skipn k rs), live_app, map_app in H. eapply nodup_app_l. exact H.
Qed.

Lemma forall_firstn : forall A (P : A -> Prop) k l, Forall P l -> Forall P (firstn k l).
Proof. intros A P k l H. rewrite <- (firstn_skipn k l) in H. apply Forall_app in H. tauto. Qed.

(* Torn tail: opening any prefix of the file (n >= 8 bytes) succeeds; the result holds exactly the complete
   records, k of them, where k is maximal: the next record does not fit into the first n bytes. *)
Theorem crash_inv : forall st rs n, Inv st rs -> 8 <= n ->
  exists k st',
    crash fx_all st n = Some st' /\ Inv st' (live (firstn k rs)) /\ st_freeSize st' = 0 /\
    len (flat (firstn k rs)) <= n - 8 /\
    (k = length rs \/ n - 8 < len (flat (firstn (S k) rs))).
Proof.
  intros st rs n HI Hn. unfold crash. rewrite (inv_file _ _ HI).
  assert (Hn' : firstN n (file_header ++ flat rs) = file_header ++ firstN (n - 8) (flat rs)).
  { rewrite <- firstN_app_plus. f_equal. rewrite header_len. lia. }
  rewrite Hn'.
  destruct (flat_prefix rs (n - 8) (inv_recs _ _ HI)) as (k & tail & Hk & Ht & Hlen & Hmax).
  rewrite Hk.
  assert (Hok : Forall rec_ok (firstn k rs)) by (apply forall_firstn; exact (inv_recs _ _ HI)).
  assert (Hnd : NoDup (map fst (live (firstn k rs)))) by (apply live_prefix_nodup; exact (inv_nodup_live _ _ HI)).
  destruct (open_inv (firstn k rs) tail Hok Hnd Ht) as (st' & Ho & HI' & Hz).
  exists k, st'. tauto.
Qed.

(* fewer than 8 bytes: the file is started afresh *)
Theorem crash_short : forall st rs n, Inv st rs -> n < 8 -> crash fx_all st n = Some reset_state.
Proof.
  intros st rs n HI Hn. unfold crash, new_cache_file.
  assert (Hlen : len (firstN n (st_file st)) = n).
  { apply firstN_short. rewrite (inv_file _ _ HI), len_app, header_len. lia. }
  destruct (firstN n (st_file st)) as [|b l] eqn:E; [reflexivity|].
  unfold take. rewrite Hlen. assert ((hdr_size <=? n) = false) as -> by (apply N.leb_gt; unfold hdr_size; lia).
  reflexivity.
Qed.
