(* C04: sequence progress (B) and the re-check loop over shared expressions (C), leading to
   stream_selected = stream_spec for every table of expressions whose find agrees with the plain scan. *)
From Coq Require Import List NArith Bool Arith Lia.
Import ListNotations.
Require Import Pk.RegexProg Pk.RegexProgProofs Pk.Regex Pk.RegexProofs Pk.DataFilter Pk.DataFilterProofs.

(* ------------------------------------------------------------------ the chunk-boundary rule *)
Lemma scan_app_last : forall d off L a, L <> [] ->
  boundary_scan d off (L ++ [a]) =
  match boundary_scan d off L with
  | Some r => Some r
  | None => if sel d a <? off then Some (sel (negb d) (last L a)) else None
  end.
Proof.
  induction L as [|x L IH]; intros a Hne; [congruence|].
  destruct L as [|y L].
  - simpl. destruct (sel d a <? off); reflexivity.
  - change ((x :: y :: L) ++ [a]) with (x :: (y :: L) ++ [a]).
    change (boundary_scan d off (x :: (y :: L) ++ [a])) with
      (if sel d y <? off then Some (sel (negb d) x) else boundary_scan d off ((y :: L) ++ [a])).
    change (boundary_scan d off (x :: y :: L)) with
      (if sel d y <? off then Some (sel (negb d) x) else boundary_scan d off (y :: L)).
    destruct (sel d y <? off); auto.
    rewrite IH by discriminate. reflexivity.
Qed.

Lemma scan_none : forall d off l, Forall (fun q => off <= sel d q) l -> boundary_scan d off l = None.
Proof.
  induction l as [|x l IH]; intros H; auto.
  destruct l as [|y l]; auto.
  change (boundary_scan d off (x :: y :: l)) with
    (if sel d y <? off then Some (sel (negb d) x) else boundary_scan d off (y :: l)).
  pose proof (Forall_inv_tail H) as Hl. pose proof (Forall_inv Hl) as Hy. simpl in Hy.
  destruct (Nat.ltb_spec (sel d y) off); [lia|]. apply IH. exact Hl.
Qed.

Lemma cumul_head : forall s c sv, exists r, cumul s c sv = (c, sv) :: r.
Proof. intros. destruct s as [|[d x] s]; simpl; eauto. Qed.

Lemma cumul_ge : forall d s c sv, Forall (fun q => sel d (c, sv) <= sel d q) (cumul s c sv).
Proof.
  induction s as [|[d' x] s IH]; intros c sv; simpl.
  - constructor; auto.
  - constructor; auto. destruct d'.
    + eapply Forall_impl; [|apply IH]. intros q Hq. destruct d; simpl in *; lia.
    + eapply Forall_impl; [|apply IH]. intros q Hq. destruct d; simpl in *; lia.
Qed.

Lemma dir_data_cons : forall d d' x s, dir_data d ((d', x) :: s) = (if Bool.eqb d' d then x else []) ++ dir_data d s.
Proof. intros. unfold dir_data. simpl. reflexivity. Qed.

Lemma boundary_eq_gen : forall d off s c sv,
  sel d (c, sv) < off -> off <= sel d (c, sv) + length (dir_data d s) ->
  boundary_scan d off (rev (cumul s c sv)) = boundary_spec s d off (sel d (c, sv)) (sel (negb d) (c, sv)) /\
  boundary_scan d off (rev (cumul s c sv)) <> None.
Proof.
  induction s as [|[d' x] s IH]; intros c sv Hlt Hle.
  - unfold dir_data in Hle. simpl in Hle. lia.
  - set (c' := if d' then c else c + length x). set (sv' := if d' then sv + length x else sv).
    assert (Ec : cumul (@cons chunk (d', x) s) c sv = (c, sv) :: cumul s c' sv') by (simpl; unfold c', sv'; destruct d'; reflexivity).
    rewrite Ec. simpl rev.
    destruct (cumul_head s c' sv') as [tl Et].
    assert (Hne : rev (cumul s c' sv') <> []) by (rewrite Et; simpl; intros E; apply app_eq_nil in E; destruct E; discriminate).
    rewrite (scan_app_last d off _ (c, sv) Hne).
    assert (Hlast : last (rev (cumul s c' sv')) (c, sv) = (c', sv')).
    { rewrite Et. simpl. apply last_last. }
    rewrite Hlast. rewrite dir_data_cons, app_length in Hle.
    simpl boundary_spec. destruct (Bool.eqb d' d) eqn:Ed.
    + (* a chunk of the searched direction *)
      apply Bool.eqb_prop in Ed. subst d'.
      assert (Sd : sel d (c', sv') = sel d (c, sv) + length x) by (unfold c', sv'; destruct d; simpl; lia).
      assert (So : sel (negb d) (c', sv') = sel (negb d) (c, sv)) by (unfold c', sv'; destruct d; simpl; lia).
      destruct (Nat.leb_spec off (sel d (c, sv) + length x)) as [Hin | Hout].
      * (* the chunk holds byte off-1 *)
        rewrite scan_none.
        -- destruct (Nat.ltb_spec (sel d (c, sv)) off); [|lia]. simpl. rewrite So. split; [reflexivity | discriminate].
        -- apply Forall_rev. eapply Forall_impl; [|apply (cumul_ge d s c' sv')]. intros q Hq. simpl in Hq. lia.
      * destruct (IH c' sv') as [E N]; try lia.
        rewrite Sd, So in E.
        destruct (boundary_scan d off (rev (cumul s c' sv'))) as [r|] eqn:BS; [|congruence].
        split; [|discriminate].
        destruct (Nat.ltb_spec (sel d (c, sv)) off); [|lia]. simpl. exact E.
    + (* a chunk of the other direction *)
      assert (Sd : sel d (c', sv') = sel d (c, sv)).
      { unfold c', sv'. destruct d, d'; simpl in *; try discriminate; lia. }
      assert (So : sel (negb d) (c', sv') = sel (negb d) (c, sv) + length x).
      { unfold c', sv'. destruct d, d'; simpl in *; try discriminate; lia. }
      destruct (IH c' sv') as [E N]; try (simpl in Hle; lia).
      rewrite Sd, So in E.
      destruct (boundary_scan d off (rev (cumul s c' sv'))) as [r|] eqn:BS; [|congruence].
      split; [exact E | discriminate].
Qed.

Lemma boundary_eq : forall s d off, 0 < off -> off <= length (dir_data d s) ->
  exists o, boundary s d off = Some o /\ boundary_spec s d off 0 0 = Some o.
Proof.
  intros s d off H0 Hle. unfold boundary.
  destruct (boundary_eq_gen d off s 0 0) as [E N].
  - destruct d; simpl; lia.
  - destruct d; simpl; lia.
  - destruct (boundary_scan d off (rev (cumul s 0 0))) as [o|]; [|congruence].
    exists o. split; auto. rewrite E. destruct d; reflexivity.
Qed.

Lemma boundary_spec_range : forall s d off cd co o, boundary_spec s d off cd co = Some o ->
  o <= co + length (dir_data (negb d) s).
Proof.
  induction s as [|[d' x] s IH]; intros d off cd co o H; simpl in H; [discriminate|].
  rewrite dir_data_cons, app_length.
  destruct (Bool.eqb d' d) eqn:Ed.
  - apply Bool.eqb_prop in Ed. subst d'.
    assert (En : Bool.eqb d (negb d) = false) by (destruct d; reflexivity). rewrite En. simpl.
    destruct ((cd <? off) && (off <=? cd + length x)).
    + inversion H; subst. lia.
    + apply IH in H. lia.
  - assert (En : Bool.eqb d' (negb d) = true) by (destruct d, d'; simpl in *; auto; discriminate). rewrite En.
    apply IH in H. lia.
Qed.

(* ------------------------------------------------------------------ one condition on one source *)
Definition find_ok (F : nat) (guard : bool) (r : rx) : Prop :=
  2 <= r_ncap r /\
  forall data off res off', off <= length data -> find F guard r data off = (res, off') -> find_agrees F r data off res off'.

(* the precondition of an element with variables against one of its substituted expressions: where the precondition
   finds nothing the expression finds nothing, and moving the offset to where the precondition's find stopped loses no
   match of the expression (and does not turn a non-empty match into an empty one) *)
Definition pre_ok (F : nat) (guard : bool) (pre ex : rx) : Prop :=
  (forall buffer, plain F pre buffer = None -> plain F ex buffer = None) /\
  (forall data off m off', off <= length data -> find F guard pre data off = (Some m, off') ->
     plain F ex (skipn off data) = option_map (shift (off' - off)) (plain F ex (skipn off' data)) /\
     (off < off' -> forall m', plain F ex (skipn off' data) = Some m' -> match_end m' <> 0)).

Definition elem_ok (F : nat) (guard : bool) (tbl : list rx) (e : elem) : Prop :=
  match e_ref e with
  | EFixed k => forall r, nth_error tbl k = Some r -> find_ok F guard r
  | ESubst pre uses table =>
      (forall rp, nth_error tbl pre = Some rp -> find_ok F guard rp) /\
      (forall vs i r, table_find vs table = Some i -> nth_error tbl i = Some r -> find_ok F guard r) /\
      (forall rp vs i r, nth_error tbl pre = Some rp -> table_find vs table = Some i -> nth_error tbl i = Some r ->
                         pre_ok F guard rp r)
  end.

Definition tbl_ok (F : nat) (guard : bool) (tbl : list rx) (c : cond) : Prop :=
  forall e, In e (c_elems c) -> elem_ok F guard tbl e.

Definition mu (p : progress) : nat := 2 * p_n p + (if p_pre p then 1 else 0).

(* captures do not depend on where the buffer was cut in front of the match *)
Lemma cap_value_shift : forall data off k m i, cap_value (skipn off data) (shift k m) i = cap_value (skipn (off + k) data) m i.
Proof.
  intros. unfold cap_value. rewrite !nth_error_shift.
  destruct (nth_error m (2 * i)) as [[a|]|]; cbn [option_map]; auto.
  destruct (nth_error m (2 * i + 1)) as [[b|]|]; cbn [option_map]; auto.
  rewrite !skipn_skipn. replace (k + b - (k + a)) with (b - a) by lia.
  replace (k + a + off) with (a + (off + k)) by lia. reflexivity.
Qed.

Lemma bind_names_shift : forall names i data off k m vars,
  bind_names names i (skipn off data) (shift k m) vars = bind_names names i (skipn (off + k) data) m vars.
Proof.
  induction names as [|[nm|] names IH]; intros; simpl; auto.
  destruct (var_get nm vars); auto. rewrite cap_value_shift. apply IH.
Qed.

Lemma bind_shift : forall r data off k m vars, bind r (skipn off data) (shift k m) vars = bind r (skipn (off + k) data) m vars.
Proof. intros. unfold bind. apply bind_names_shift. Qed.

Section OneCondition.
  Variables (F : nat) (guard : bool) (tbl : list rx) (s : source) (c : cond).
  Hypothesis Hok : tbl_ok F guard tbl c.

  Definition total : nat := seq_spec F tbl s (c_elems c) 0 0 [].
  Definition adv (p : progress) : progress := attempt F guard tbl s c (p_n p) p.

  Definition Bnd (p : progress) : Prop :=
    p_n p <= length (c_elems c) /\ (p_pre p = true -> p_n p < length (c_elems c)).
  Definition Core (p : progress) : Prop :=
    p_offc p <= length (dir_data false s) /\ p_offs p <= length (dir_data true s) /\
    p_n p + seq_spec F tbl s (skipn (p_n p) (c_elems c)) (p_offc p) (p_offs p) (p_vars p) = total.
  (* progress and specification walk the same way, as long as the filter has not returned an error *)
  Definition Inv (p : progress) : Prop := Bnd p /\ (p_err p = 0 -> Core p).

  Lemma Inv0 : Inv progress0.
  Proof. unfold Inv, Bnd, Core, progress0, total; simpl. repeat split; try lia; intros; try discriminate. Qed.

  Lemma attempt_cases : forall k p, attempt F guard tbl s c k p = p \/ (k = p_n p /\ attempt F guard tbl s c k p = adv p).
  Proof.
    intros k p. unfold adv. destruct (Nat.eq_dec k (p_n p)) as [E|E].
    - right. subst. auto.
    - left. unfold attempt. destruct (Nat.eqb_spec k (p_n p)); [contradiction | reflexivity].
  Qed.

  Lemma err_attempt : forall k p, p_err p <> 0 -> attempt F guard tbl s c k p = p.
  Proof.
    intros k p H. unfold attempt. destruct (Nat.eqb k (p_n p)); simpl; auto.
    destruct (Nat.eqb_spec (p_err p) 0); [contradiction | reflexivity].
  Qed.

  Lemma skipn_nth_error : forall A (l : list A) k x, nth_error l k = Some x -> skipn k l = x :: skipn (S k) l.
  Proof.
    induction l; intros k x H; destruct k; simpl in *; try discriminate.
    - inversion H. reflexivity.
    - apply IHl. exact H.
  Qed.

  Lemma match_end_shift : forall k m e, nth_error (shift k m) 1 = Some (Some e) ->
    exists x, nth_error m 1 = Some (Some x) /\ e = k + x /\ match_end m = x /\ match_end (shift k m) = e.
  Proof.
    intros k m e H. pose proof H as H'. rewrite nth_error_shift in H.
    destruct (nth_error m 1) as [[x|]|] eqn:E; simpl in H; try discriminate.
    inversion H; subst. exists x. unfold match_end. rewrite E, H'. auto.
  Qed.

  (* the specification seen from the offset of the direction of the first element *)
  Definition spec_from (e : elem) (rest : list elem) (off other : nat) (vars : list (nat * value)) : nat :=
    if e_dir e then seq_spec F tbl s (e :: rest) other off vars else seq_spec F tbl s (e :: rest) off other vars.

  Lemma spec_from_eq : forall e rest p, spec_from e rest (p_off (e_dir e) p) (p_off (negb (e_dir e)) p) (p_vars p) =
    seq_spec F tbl s (e :: rest) (p_offc p) (p_offs p) (p_vars p).
  Proof. intros. unfold spec_from, p_off. destruct (e_dir e); reflexivity. Qed.

  Lemma spec_from_unfold : forall e rest off other vars, spec_from e rest off other vars =
    match resolve tbl e vars with
    | RUndefined | RMissing => 0
    | RRx x =>
      let buffer := skipn off (dir_data (e_dir e) s) in
      match plain F x buffer with
      | None => 0
      | Some m =>
        let vars' := match bind x buffer m vars with Some v => v | None => vars end in
        let en := match_end m in
        if Nat.eqb en 0 then S (if e_dir e then seq_spec F tbl s rest other off vars' else seq_spec F tbl s rest off other vars')
        else let off' := off + en in
             let o := match boundary_spec s (e_dir e) off' 0 0 with Some o => o | None => 0 end in
             S (if e_dir e then seq_spec F tbl s rest o off' vars' else seq_spec F tbl s rest off' o vars')
      end
    end.
  Proof.
    intros. unfold spec_from. destruct (e_dir e) eqn:Ed; simpl; rewrite Ed;
      destruct (resolve tbl e vars); auto;
      destruct (plain F r (skipn off (dir_data _ s))); auto; destruct (match_end c0 =? 0); reflexivity.
  Qed.

  (* moving the offset as the precondition's find does leaves the specification where it is *)
  Lemma spec_from_shift : forall e rest x off off' other vars, resolve tbl e vars = RRx x -> 2 <= r_ncap x ->
    off <= off' -> off' <= length (dir_data (e_dir e) s) ->
    plain F x (skipn off (dir_data (e_dir e) s)) = option_map (shift (off' - off)) (plain F x (skipn off' (dir_data (e_dir e) s))) ->
    (off < off' -> forall m', plain F x (skipn off' (dir_data (e_dir e) s)) = Some m' -> match_end m' <> 0) ->
    spec_from e rest off other vars = spec_from e rest off' other vars.
  Proof.
    intros e rest x off off' other vars Hr Hn Hle Hle' Hpl Hnz. rewrite !spec_from_unfold, Hr. cbv zeta.
    rewrite Hpl. destruct (plain F x (skipn off' (dir_data (e_dir e) s))) as [m'|] eqn:Pm; simpl; auto.
    unfold plain in Pm. destruct (search_end _ _ _ _ _ Hn Pm) as [j [en [X [Y [Z W]]]]].
    assert (Me : match_end m' = en) by (unfold match_end; rewrite W; reflexivity).
    assert (Ms : match_end (shift (off' - off) m') = (off' - off) + en).
    { unfold match_end. rewrite nth_error_shift, W. reflexivity. }
    rewrite Ms, Me. rewrite bind_shift. replace (off + (off' - off)) with off' by lia.
    destruct (Nat.eq_dec off off') as [E|E].
    - subst off'. rewrite Nat.sub_diag. simpl. reflexivity.
    - assert (Hlt : off < off') by lia. specialize (Hnz Hlt m' eq_refl). rewrite Me in Hnz.
      destruct (Nat.eqb_spec (off' - off + en) 0); [lia|]. destruct (Nat.eqb_spec en 0); [lia|].
      replace (off + (off' - off + en)) with (off' + en) by lia. reflexivity.
  Qed.

  (* small facts about the record updates *)
  Lemma set_off_same : forall d v p, p_off d (set_off d v p) = v.
  Proof. intros. destruct d; reflexivity. Qed.
  Lemma set_off_other : forall d v p, p_off (negb d) (set_off d v p) = p_off (negb d) p.
  Proof. intros. destruct d; reflexivity. Qed.
  Lemma set_off_fields : forall d v p, p_n (set_off d v p) = p_n p /\ p_pre (set_off d v p) = p_pre p /\
    p_vars (set_off d v p) = p_vars p /\ p_err (set_off d v p) = p_err p.
  Proof. intros. destruct d; simpl; auto. Qed.

  Definition in_range (p : progress) : Prop := p_offc p <= length (dir_data false s) /\ p_offs p <= length (dir_data true s).
  Lemma in_range_off : forall d p, in_range p -> p_off d p <= length (dir_data d s).
  Proof. intros d p [A B]. destruct d; simpl; auto. Qed.
  Lemma in_range_set : forall d v p, in_range p -> v <= length (dir_data d s) -> in_range (set_off d v p).
  Proof. intros d v p [A B] H. destruct d; simpl; split; auto. Qed.

  Lemma core_of : forall p e rest, nth_error (c_elems c) (p_n p) = Some e -> rest = skipn (S (p_n p)) (c_elems c) ->
    (Core p <-> in_range p /\ p_n p + spec_from e rest (p_off (e_dir e) p) (p_off (negb (e_dir e)) p) (p_vars p) = total).
  Proof.
    intros p e rest He Hr. unfold Core, in_range. rewrite (skipn_nth_error _ _ _ _ He), <- Hr, spec_from_eq. tauto.
  Qed.

  (* ---- the stage in which the expression itself is searched *)
  Lemma exact_spec : forall p e, nth_error (c_elems c) (p_n p) = Some e -> Bnd p -> p_err p = 0 -> Core p ->
    (forall x, resolve tbl e (p_vars p) = RRx x -> find_ok F guard x) ->
    let q := exact_stage F guard tbl s c e p in
    Inv q /\ (p_n q = p_n p \/ (p_n q = S (p_n p) /\ p_pre q = false)) /\
    (p_n q = p_n p -> p_pre q = p_pre p /\
       (p_err q = 0 -> p_n p = total /\ p_vars q = p_vars p /\
          p_n (exact_stage F guard tbl s c e q) = p_n q /\ p_err (exact_stage F guard tbl s c e q) = 0 /\
          p_pre (exact_stage F guard tbl s c e q) = p_pre q)).
  Proof.
    intros p e He [Hn Hp] Herr Hcore Hfok q.
    set (rest := skipn (S (p_n p)) (c_elems c)).
    destruct (proj1 (core_of p e rest He eq_refl) Hcore) as [Hrange Heq].
    assert (Hlt : p_n p < length (c_elems c)) by (apply nth_error_Some; congruence).
    unfold q, exact_stage. rewrite spec_from_unfold in Heq.
    destruct (resolve tbl e (p_vars p)) as [x| |] eqn:Er.
    2:{ split; [split; [split; auto|simpl; discriminate]|]. split; [left; reflexivity|]. intros _. split; auto. simpl. discriminate. }
    2:{ split; [split; [split; auto|simpl; discriminate]|]. split; [left; reflexivity|]. intros _. split; auto. simpl. discriminate. }
    destruct (Hfok x eq_refl) as [Hnc Hfind].
    set (d := e_dir e) in *. set (data := dir_data d s) in *. set (off := p_off d p) in *.
    assert (Hoff : off <= length data) by (apply in_range_off; auto).
    destruct (find F guard x data off) as [res off'] eqn:Ef.
    pose proof (Hfind _ _ _ _ Hoff Ef) as [Hle [Hle' Hag]].
    destruct (set_off_fields d off' p) as [Sn [Sp [Sv Se]]].
    cbv zeta in Heq.
    destruct res as [m|].
    - (* found *)
      destruct Hag as [Hpl Hz]. rewrite Hpl in Heq.
      unfold plain in Hpl. destruct (search_end _ _ _ _ _ Hnc Hpl) as [j [en [X [Y [Z W]]]]].
      destruct (match_end_shift _ _ _ W) as [xe [Wm [Ex [Mm Ms]]]].
      rewrite Ms in Heq. rewrite skipn_length in Y. fold data in Y.
      rewrite bind_shift in Heq. replace (off + (off' - off)) with off' in Heq by lia.
      unfold after_find. fold d. fold data.
      set (p1 := matched (set_off d off' p)).
      assert (P1n : p_n p1 = S (p_n p)) by (unfold p1, matched; simpl; rewrite Sn; reflexivity).
      assert (P1v : p_vars p1 = p_vars p) by (unfold p1, matched; simpl; exact Sv).
      assert (P1e : p_err p1 = 0) by (unfold p1, matched; simpl; rewrite Se; exact Herr).
      assert (P1p : p_pre p1 = false) by reflexivity.
      assert (P1r : in_range p1).
      { assert (R : in_range (set_off d off' p)) by (apply in_range_set; auto). unfold p1, matched, in_range in *. simpl. exact R. }
      assert (P1o : p_off d p1 = off' /\ p_off (negb d) p1 = p_off (negb d) p).
      { unfold p1, matched. destruct d; simpl; auto. }
      assert (Bn1 : forall q', p_n q' = S (p_n p) -> p_pre q' = false -> Bnd q').
      { intros q' A B. unfold Bnd. rewrite A, B. split; [lia | discriminate]. }
      rewrite P1n, P1v.
      destruct ((S (p_n p) =? length (c_elems c)) && c_inv c) eqn:Cinv.
      + (* inverted and complete: `continue` *)
        apply andb_true_iff in Cinv. destruct Cinv as [Cl _]. apply Nat.eqb_eq in Cl.
        assert (Sk : rest = []) by (unfold rest; rewrite Cl; apply skipn_all).
        rewrite Sk in Heq. simpl in Heq.
        assert (T : S (p_n p) = total).
        { replace (if d then 0 else 0) with 0 in Heq by (destruct d; reflexivity). destruct (en =? 0); lia. }
        split; [|split; [right; auto | intros E; try rewrite P1n in E; lia]].
        split; [apply Bn1; auto|]. intros _. unfold Core. rewrite P1n. fold rest. rewrite Sk. simpl.
        destruct P1r. repeat split; auto. lia.
      + destruct (bind x (skipn off' data) m (p_vars p)) as [vs|] eqn:Eb.
        2:{ assert (Q1 : p_n (set_err 2 p1) = S (p_n p)) by exact P1n.
            assert (Q2 : p_pre (set_err 2 p1) = false) by reflexivity.
            split; [split; [apply Bn1; assumption | intros Q; simpl in Q; discriminate] |].
            split; [right; split; assumption | intros E; rewrite Q1 in E; lia]. }
        set (p2 := set_vars vs p1).
        assert (P2 : p_n p2 = S (p_n p) /\ p_pre p2 = false /\ p_err p2 = 0 /\ p_vars p2 = vs /\ in_range p2 /\
                     p_off d p2 = off' /\ p_off (negb d) p2 = p_off (negb d) p).
        { unfold p2, set_vars. destruct P1o. destruct P1r. repeat split; simpl; auto; destruct d; auto. }
        destruct P2 as [P2n [P2p [P2e [P2v [P2r [P2o P2x]]]]]].
        destruct (Nat.eqb_spec (match_end m) 0) as [Ez | Ez].
        * (* empty match at the offset: nothing moves *)
          specialize (Hz Ez). assert (En : en = 0) by (subst off'; rewrite Mm in Ez; lia). subst off'.
          rewrite En in Heq. simpl in Heq.
          split; [|split; [right; auto | intros E; try rewrite P2n in E; lia]].
          split; [apply Bn1; auto|]. intros _. unfold Core. rewrite P2n, P2v. fold rest.
          destruct P2r as [R1 R2]. repeat split; auto.
          assert (O1 : p_offc p2 = p_offc p /\ p_offs p2 = p_offs p).
          { unfold off in *. destruct d; simpl in *; unfold p_off in *; simpl in *; split; congruence. }
          destruct O1 as [O1 O2]. rewrite O1, O2.
          unfold off in Heq. destruct d; simpl in Heq; unfold p_off in Heq; simpl in Heq; lia.
        * (* the offsets move *)
          rewrite Mm in Ez.
          assert (En0 : en <> 0) by lia. destruct (Nat.eqb_spec en 0); [contradiction|].
          set (noff := off' + match_end m).
          assert (Enoff : off + en = noff) by (unfold noff; rewrite Mm; lia).
          assert (Hr : 0 < noff /\ noff <= length data) by (unfold noff; rewrite Mm; lia).
          destruct (boundary_eq s d noff (proj1 Hr) (proj2 Hr)) as [o [Bo Bs]].
          rewrite set_off_same, Bo.
          rewrite Enoff, Bs in Heq.
          pose proof (boundary_spec_range _ _ _ _ _ _ Bs) as Ro. simpl in Ro.
          set (p3 := set_off (negb d) o (set_off d noff p2)).
          assert (P3 : p_n p3 = S (p_n p) /\ p_pre p3 = false /\ p_err p3 = 0 /\ p_vars p3 = vs).
          { unfold p3. destruct (set_off_fields (negb d) o (set_off d noff p2)) as [A [B [C D]]].
            destruct (set_off_fields d noff p2) as [A' [B' [C' D']]]. repeat split; congruence. }
          destruct P3 as [P3n [P3p [P3e P3v]]].
          split; [|split; [right; auto | intros E; try rewrite P3n in E; lia]].
          split; [apply Bn1; auto|]. intros _. unfold Core. rewrite P3n, P3v. fold rest.
          unfold data in Hr. destruct P2r as [R1 R2].
          unfold p3. destruct d; simpl in *; repeat split; auto; try lia.
    - (* not found: the sequence stops here, now and at every later visit *)
      destruct Hag as [Hpl Hpl']. rewrite Hpl in Heq.
      set (q' := set_off d off' p) in *.
      assert (Qr : in_range q') by (apply in_range_set; auto).
      assert (Qo : p_off d q' = off' /\ p_off (negb d) q' = p_off (negb d) p) by (split; [apply set_off_same | apply set_off_other]).
      destruct Qo as [Qo Qx].
      split; [|split; [left; exact Sn|]].
      + split; [unfold Bnd; rewrite Sn, Sp; auto|]. intros _.
        apply (proj2 (core_of q' e rest (eq_trans (f_equal _ Sn) He) (eq_trans eq_refl (f_equal (fun k => skipn (S k) (c_elems c)) (eq_sym Sn))))).
        split; auto. fold d. rewrite Sn, Qo, Qx, Sv, spec_from_unfold, Er. cbv zeta. fold d. fold data. rewrite Hpl'. lia.
      + intros _. split; auto. intros _. split; [lia|]. split; auto.
        unfold exact_stage. rewrite Sv, Er. fold d. fold data. fold q'. rewrite Qo.
        destruct (find F guard x data off') as [res2 off2] eqn:Ef2.
        pose proof (Hfind _ _ _ _ Hle' Ef2) as [_ [_ Hag2]].
        destruct res2 as [m2|].
        * destruct Hag2 as [C _]. rewrite Hpl' in C. discriminate.
        * destruct (set_off_fields d off2 q') as [A [B [C D]]]. rewrite A, B, D, Se. auto.
  Qed.
  Lemma resolve_ok : forall e vars x, In e (c_elems c) -> resolve tbl e vars = RRx x -> find_ok F guard x.
  Proof.
    intros e vars x Hin Hr. pose proof (Hok e Hin) as H. unfold elem_ok in H. unfold resolve in Hr.
    destruct (e_ref e) as [k | pre uses table].
    - destruct (nth_error tbl k) as [r|] eqn:E; [|discriminate]. inversion Hr; subst. apply H. reflexivity.
    - destruct H as [_ [H2 _]]. destruct (vals_of vars uses) as [vs|]; [|discriminate].
      destruct (table_find vs table) as [i|] eqn:T; [|discriminate].
      destruct (nth_error tbl i) as [r|] eqn:E; [|discriminate]. inversion Hr; subst. eapply H2; eauto.
  Qed.

  Lemma resolve_pre_ok : forall e pre uses table vars x rp, In e (c_elems c) -> e_ref e = ESubst pre uses table ->
    resolve tbl e vars = RRx x -> nth_error tbl pre = Some rp -> pre_ok F guard rp x.
  Proof.
    intros e pre uses table vars x rp Hin Hre Hr Hp. pose proof (Hok e Hin) as H. unfold elem_ok in H. unfold resolve in Hr.
    rewrite Hre in *. destruct H as [_ [_ H3]]. destruct (vals_of vars uses) as [vs|]; [|discriminate].
    destruct (table_find vs table) as [i|] eqn:T; [|discriminate].
    destruct (nth_error tbl i) as [r|] eqn:E; [|discriminate]. inversion Hr; subst. eapply H3; eauto.
  Qed.

  Lemma mu_facts : forall p q, (p_n q = p_n p -> p_pre q = p_pre p -> mu q = mu p) /\
                               (p_n q = S (p_n p) -> p_pre q = false -> mu p < mu q).
  Proof. intros p q. unfold mu. split; intros A B; rewrite A, B; [reflexivity | destruct (p_pre p); lia]. Qed.

  Lemma adv_exact : forall p e, p_err p = 0 -> nth_error (c_elems c) (p_n p) = Some e ->
    (match e_ref e with EFixed _ => True | ESubst _ _ _ => p_pre p = true end) ->
    adv p = exact_stage F guard tbl s c e p.
  Proof.
    intros p e He Hn Hs. unfold adv, attempt. rewrite Nat.eqb_refl, He, Hn. simpl.
    destruct (e_ref e); auto. rewrite Hs. reflexivity.
  Qed.

  (* what one visit of the current element does *)
  Lemma adv_spec : forall p, Inv p ->
    Inv (adv p) /\ mu p <= mu (adv p) /\ (p_n (adv p) = p_n p \/ p_n (adv p) = S (p_n p)) /\
    (p_n (adv p) = p_n p -> p_pre p = true -> p_pre (adv p) = true) /\
    (p_err (adv p) = 0 -> mu (adv p) = mu p ->
       p_n p = total /\ mu (adv (adv p)) = mu (adv p) /\ p_err (adv (adv p)) = 0).
  Proof.
    intros p [HB HC].
    destruct (Nat.eq_dec (p_err p) 0) as [Herr | Herr].
    2:{ assert (Ea : adv p = p) by (unfold adv; apply err_attempt; assumption). rewrite !Ea.
        split; [split; auto|]. split; [lia|]. split; [auto|]. split; [auto|]. intros E. contradiction. }
    specialize (HC Herr). pose proof HC as [Hc1 [Hc2 Heq]].
    destruct (nth_error (c_elems c) (p_n p)) as [e|] eqn:Ee.
    2:{ (* complete *)
      assert (Ea : adv p = p) by (unfold adv, attempt; rewrite Nat.eqb_refl, Herr, Ee; reflexivity).
      rewrite !Ea.
      assert (T : p_n p = total).
      { assert (p_n p = length (c_elems c)) by (apply nth_error_None in Ee; destruct HB; lia).
        rewrite H, skipn_all in Heq. simpl in Heq. lia. }
      split; [split; auto; intros _; exact HC|]. split; [lia|]. split; [auto|]. split; [auto|].
      intros _ _. split; [exact T|]. split; [reflexivity | exact Herr]. }
    assert (Hin : In e (c_elems c)) by (eapply nth_error_In; eauto).
    assert (Exact : (match e_ref e with EFixed _ => True | ESubst _ _ _ => p_pre p = true end) ->
       Inv (adv p) /\ mu p <= mu (adv p) /\ (p_n (adv p) = p_n p \/ p_n (adv p) = S (p_n p)) /\
       (p_n (adv p) = p_n p -> p_pre p = true -> p_pre (adv p) = true) /\
       (p_err (adv p) = 0 -> mu (adv p) = mu p ->
          p_n p = total /\ mu (adv (adv p)) = mu (adv p) /\ p_err (adv (adv p)) = 0)).
    { intros Hs. rewrite (adv_exact p e Herr Ee Hs).
      destruct (exact_spec p e Ee HB Herr HC (fun x Hx => resolve_ok e _ x Hin Hx)) as [I [St K]].
      set (q := exact_stage F guard tbl s c e p) in *.
      destruct (mu_facts p q) as [M1 M2].
      split; auto. split; [destruct St as [A | [A B]]; [destruct (K A) as [B _]; rewrite (M1 A B); lia | specialize (M2 A B); lia]|].
      split; [destruct St as [A | [A B]]; auto|].
      split; [intros A B; destruct (K A) as [C _]; congruence|].
      intros Eq Em.
      assert (A : p_n q = p_n p).
      { destruct St as [A | [A B]]; auto. specialize (M2 A B). lia. }
      destruct (K A) as [Bp K2]. destruct (K2 Eq) as [T [V [N2 [E2 P2]]]].
      split; auto.
      assert (Ea : adv q = exact_stage F guard tbl s c e q).
      { apply adv_exact; auto; [rewrite A; exact Ee | destruct (e_ref e); auto; congruence]. }
      rewrite Ea. split; auto. destruct (mu_facts q (exact_stage F guard tbl s c e q)) as [M3 _]. apply M3; auto. }
    destruct (e_ref e) as [k | pre uses table] eqn:Ere; [apply Exact; exact I|].
    destruct (p_pre p) eqn:Epre; [apply Exact; reflexivity|]. clear Exact.
    (* the precondition stage *)
    set (rest := skipn (S (p_n p)) (c_elems c)).
    destruct (proj1 (core_of p e rest Ee eq_refl) HC) as [Hrange Heq'].
    assert (Hlt : p_n p < length (c_elems c)) by (apply nth_error_Some; congruence).
    assert (Unf : forall q, p_n q = p_n p -> p_err q = 0 -> p_pre q = false -> adv q =
       match nth_error tbl pre with
       | None => set_err 3 q
       | Some r => let (res, off) := find F guard r (dir_data (e_dir e) s) (p_off (e_dir e) q) in
                   match res with None => set_off (e_dir e) off q | Some _ => set_pre true (set_off (e_dir e) off q) end
       end).
    { intros q A B C. unfold adv, attempt. rewrite Nat.eqb_refl, B, A, Ee, Ere, C. simpl.
      destruct (nth_error tbl pre); [|reflexivity].
      destruct (find F guard r (dir_data (e_dir e) s) (p_off (e_dir e) q)) as [[m|] off]; reflexivity. }
    rewrite (Unf p eq_refl Herr Epre).
    destruct (nth_error tbl pre) as [rp|] eqn:Erp.
    2:{ split; [split; [exact HB | simpl; discriminate]|]. split; [unfold mu; simpl; lia|]. split; [left; reflexivity|].
        split; [intros _ E; discriminate|]. simpl. discriminate. }
    pose proof (Hok e Hin) as Hel. unfold elem_ok in Hel. rewrite Ere in Hel. destruct Hel as [Hp1 _].
    destruct (Hp1 rp Erp) as [Hnc Hfind].
    set (d := e_dir e) in *. set (data := dir_data d s) in *. set (off := p_off d p) in *.
    assert (Hoff : off <= length data) by (apply in_range_off; auto).
    destruct (find F guard rp data off) as [res off'] eqn:Ef.
    pose proof (Hfind _ _ _ _ Hoff Ef) as [Hle [Hle' Hag]].
    destruct (set_off_fields d off' p) as [Sn [Sp [Sv Se]]].
    set (q := set_off d off' p) in *.
    assert (Qr : in_range q) by (apply in_range_set; auto).
    assert (Qo : p_off d q = off') by apply set_off_same.
    assert (Qx : p_off (negb d) q = p_off (negb d) p) by apply set_off_other.
    assert (Spec0 : forall o, (forall x, resolve tbl e (p_vars p) = RRx x -> plain F x (skipn o data) = None) ->
                    spec_from e rest o (p_off (negb d) p) (p_vars p) = 0).
    { intros o H. rewrite spec_from_unfold. cbv zeta. fold d. fold data. destruct (resolve tbl e (p_vars p)) as [x| |]; auto.
      rewrite (H x eq_refl). reflexivity. }
    destruct res as [m|].
    - (* the precondition matches: next pass compiles and searches the expression itself *)
      destruct Hag as [Hpl Hz].
      assert (Qn : p_n (set_pre true q) = p_n p) by exact Sn.
      split; [|split; [unfold mu; simpl; rewrite Sn, Epre; lia|split; [left; exact Qn|split; [intros; reflexivity|]]]].
      + split; [unfold Bnd; simpl; rewrite Sn; split; auto; lia|]. intros _.
        apply (proj2 (core_of (set_pre true q) e rest (eq_trans (f_equal _ Sn) Ee) (f_equal (fun k => skipn (S k) (c_elems c)) (eq_sym Sn)))).
        split; [exact Qr|]. change (p_off (e_dir e) (set_pre true q)) with (p_off d q).
        change (p_off (negb (e_dir e)) (set_pre true q)) with (p_off (negb d) q).
        change (p_vars (set_pre true q)) with (p_vars q). change (p_n (set_pre true q)) with (p_n q).
        rewrite Sn, Qo, Qx, Sv. rewrite <- Heq'. f_equal. fold d. fold off.
        destruct (resolve tbl e (p_vars p)) as [x| |] eqn:Er.
        * destruct (resolve_pre_ok e pre uses table _ x rp Hin Ere Er Erp) as [_ P2].
          destruct (P2 data off m off' Hoff Ef) as [A B].
          destruct (resolve_ok e _ x Hin Er) as [Hncx _].
          symmetry. apply (spec_from_shift e rest x off off' _ _ Er Hncx Hle Hle' A B).
        * rewrite !spec_from_unfold, Er. reflexivity.
        * rewrite !spec_from_unfold, Er. reflexivity.
      + intros _ Em. unfold mu in Em. simpl in Em. rewrite Sn, Epre in Em. lia.
    - (* the precondition does not match: neither does the expression; the sequence stops *)
      destruct Hag as [Hpl Hpl'].
      assert (Z1 : spec_from e rest off (p_off (negb d) p) (p_vars p) = 0).
      { apply Spec0. intros x Er. destruct (resolve_pre_ok e pre uses table _ x rp Hin Ere Er Erp) as [P1 _]. apply P1. exact Hpl. }
      assert (Z2 : spec_from e rest off' (p_off (negb d) p) (p_vars p) = 0).
      { apply Spec0. intros x Er. destruct (resolve_pre_ok e pre uses table _ x rp Hin Ere Er Erp) as [P1 _]. apply P1. exact Hpl'. }
      assert (Mq : mu q = mu p) by (unfold mu; rewrite Sn, Sp; reflexivity).
      split; [|split; [lia|split; [left; exact Sn|split; [intros _ E; congruence|]]]].
      + split; [unfold Bnd; rewrite Sn, Sp; exact HB|]. intros _.
        apply (proj2 (core_of q e rest (eq_trans (f_equal _ Sn) Ee) (f_equal (fun k => skipn (S k) (c_elems c)) (eq_sym Sn)))).
        split; [exact Qr|]. fold d. rewrite Sn, Qo, Qx, Sv, Z2. fold d in Heq'. fold off in Heq'. rewrite Z1 in Heq'. exact Heq'.
      + intros _ _. fold d in Heq'. fold off in Heq'. rewrite Z1 in Heq'. split; [lia|].
        rewrite (Unf q Sn (eq_trans Se Herr) (eq_trans Sp Epre)). fold d. fold data. rewrite Qo.
        destruct (find F guard rp data off') as [res2 off2] eqn:Ef2.
        pose proof (Hfind _ _ _ _ Hle' Ef2) as [_ [_ Hag2]].
        destruct res2 as [m2|].
        * destruct Hag2 as [C _]. rewrite Hpl' in C. discriminate.
        * destruct (set_off_fields d off2 q) as [A [B [C D]]]. split; [unfold mu; rewrite A, B; reflexivity | rewrite D, Se; exact Herr].
  Qed.

  Lemma adv_inv : forall p, Inv p -> Inv (adv p).
  Proof. intros p H. apply adv_spec. exact H. Qed.

  (* a condition that no longer advances (and has not failed): closed under further visits *)
  Definition Stuck (p : progress) : Prop := Inv p /\ p_err p = 0 /\ mu (adv p) = mu p /\ p_err (adv p) = 0.

  Lemma mu_n : forall p q, mu p = mu q -> p_n p = p_n q.
  Proof. intros p q. unfold mu. destruct (p_pre p), (p_pre q); lia. Qed.

  Lemma stuck_total : forall p, Stuck p -> p_n p = total.
  Proof. intros p [H [E [M E2]]]. destruct (adv_spec p H) as [_ [_ [_ [_ K]]]]. apply K; auto. Qed.

  Lemma stuck_adv : forall p, Stuck p -> Stuck (adv p) /\ mu (adv p) = mu p.
  Proof.
    intros p [H [E [M E2]]]. destruct (adv_spec p H) as [I [_ [_ [_ K]]]]. destruct (K E2 M) as [_ [M2 E3]].
    split; [|exact M]. unfold Stuck. auto.
  Qed.

  Lemma stuck_attempt : forall k p, Stuck p -> Stuck (attempt F guard tbl s c k p) /\ mu (attempt F guard tbl s c k p) = mu p.
  Proof.
    intros k p H. destruct (attempt_cases k p) as [E | [_ E]]; rewrite E; auto. apply stuck_adv. exact H.
  Qed.

  Lemma inv_attempt : forall k p, Inv p -> Inv (attempt F guard tbl s c k p) /\ mu p <= mu (attempt F guard tbl s c k p) /\
    (p_n (attempt F guard tbl s c k p) = p_n p \/ (k = p_n p /\ p_n (attempt F guard tbl s c k p) = S (p_n p))) /\
    (p_n (attempt F guard tbl s c k p) = p_n p -> p_pre p = true -> p_pre (attempt F guard tbl s c k p) = true).
  Proof.
    intros k p H. destruct (attempt_cases k p) as [E | [Ek E]]; rewrite E.
    - split; [exact H|]. split; [lia|]. split; [left; reflexivity | auto].
    - destruct (adv_spec p H) as [I [M [St [B _]]]]. split; [exact I|]. split; [exact M|]. split; [|exact B].
      destruct St as [A|A]; [left; exact A | right; split; [exact Ek | exact A]].
  Qed.

  Lemma complete_attempt : forall k p, p_n p = length (c_elems c) -> attempt F guard tbl s c k p = p.
  Proof.
    intros k p H. unfold attempt. destruct (Nat.eqb_spec k (p_n p)); auto. simpl.
    destruct (Nat.eqb (p_err p) 0); auto. simpl.
    subst k. rewrite H. assert (E : nth_error (c_elems c) (length (c_elems c)) = None) by (apply nth_error_None; lia).
    rewrite E. reflexivity.
  Qed.

  Lemma err_persist : forall k p, p_err p <> 0 -> p_err (attempt F guard tbl s c k p) <> 0.
  Proof. intros k p H. rewrite err_attempt; auto. Qed.

  (* a visit that does not ask for another pass made no progress, or completed its sequence *)
  Lemma quiet_attempt : forall k p, Inv p -> advanced_incomplete c p (attempt F guard tbl s c k p) = false ->
    mu (attempt F guard tbl s c k p) = mu p \/ p_n (attempt F guard tbl s c k p) = length (c_elems c).
  Proof.
    intros k p H Hf. destruct (inv_attempt k p H) as [_ [_ [St Pp]]].
    set (q := attempt F guard tbl s c k p) in *. unfold advanced_incomplete in Hf.
    apply orb_false_iff in Hf. destruct Hf as [F1 F2].
    destruct St as [A | [_ A]].
    - left. unfold mu. rewrite A. destruct (p_pre p) eqn:Ep.
      + rewrite (Pp A eq_refl). reflexivity.
      + simpl in F2. rewrite F2. reflexivity.
    - right. destruct (Nat.eqb_spec (p_n q) (p_n p)); [lia|]. simpl in F1.
      destruct (Nat.eqb_spec (p_n q) (length (c_elems c))); [auto | discriminate].
  Qed.
End OneCondition.

(* ------------------------------------------------------------------ the re-check loop over all conditions *)
Lemma nth_error_update_same : forall A n (f : A -> A) l, nth_error (update n f l) n = option_map f (nth_error l n).
Proof. intros A n f l. revert n. induction l; intros n; destruct n; simpl; auto. Qed.

Lemma nth_error_update_other : forall A n m (f : A -> A) l, n <> m -> nth_error (update n f l) m = nth_error l m.
Proof.
  intros A n m f l. revert n m. induction l; intros n m H; destruct n, m; simpl; auto; try congruence.
Qed.

Lemma update_length : forall A n (f : A -> A) l, length (update n f l) = length l.
Proof. intros A n f l. revert n. induction l; intros n; destruct n; simpl; auto. Qed.

Lemma Forall2_nth : forall A B (R : A -> B -> Prop) l1 l2 i a b, Forall2 R l1 l2 ->
  nth_error l1 i = Some a -> nth_error l2 i = Some b -> R a b.
Proof.
  intros A B R l1 l2 i a b H. revert i. induction H; intros i Ha Hb; destruct i; simpl in *; try discriminate.
  - inversion Ha; inversion Hb; subst. assumption.
  - eapply IHForall2; eauto.
Qed.

Lemma Forall2_nth_ex : forall A B (R : A -> B -> Prop) l1 l2 i a, Forall2 R l1 l2 ->
  nth_error l1 i = Some a -> exists b, nth_error l2 i = Some b /\ R a b.
Proof.
  intros A B R l1 l2 i a H. revert i. induction H; intros i Ha; destruct i; simpl in *; try discriminate.
  - inversion Ha; subst. eauto.
  - eauto.
Qed.

Lemma Forall2_update : forall A B (R : A -> B -> Prop) l1 l2 i a (f : B -> B), Forall2 R l1 l2 ->
  nth_error l1 i = Some a -> (forall b, nth_error l2 i = Some b -> R a (f b)) -> Forall2 R l1 (update i f l2).
Proof.
  intros A B R l1 l2 i a f H. revert i. induction H; intros i Ha Hf; destruct i; simpl in *; try discriminate.
  - inversion Ha; subst. constructor; auto.
  - constructor; auto.
Qed.

Section Loop.
  Variables (F : nat) (guard : bool) (tbl : list rx) (s : source) (cs : list cond).
  Hypothesis Hall : forall c, In c cs -> tbl_ok F guard tbl c.

  Definition GI (ps : list progress) : Prop := Forall2 (fun c p => Inv F tbl s c p) cs ps.
  Definition vis := visit F guard tbl s cs.

  Lemma ok_of_nth : forall ci c, nth_error cs ci = Some c -> tbl_ok F guard tbl c.
  Proof. intros ci c H. apply Hall. eapply nth_error_In; eauto. Qed.

  Lemma visit_eq : forall ps ag ci k c p, nth_error cs ci = Some c -> nth_error ps ci = Some p ->
    vis (ps, ag) (ci, k) = (update ci (fun _ => attempt F guard tbl s c k p) ps,
                            ag || advanced_incomplete c p (attempt F guard tbl s c k p)).
  Proof. intros. unfold vis, visit. simpl. rewrite H, H0. reflexivity. Qed.

  Lemma visit_GI : forall ps ag o, GI ps -> GI (fst (vis (ps, ag) o)).
  Proof.
    intros ps ag [ci k] H. unfold vis, visit. simpl.
    destruct (nth_error cs ci) as [c|] eqn:Ec; auto.
    destruct (nth_error ps ci) as [p|] eqn:Ep; auto. simpl.
    eapply Forall2_update; eauto. intros b Hb. rewrite Ep in Hb. inversion Hb; subst b.
    apply inv_attempt; [eapply ok_of_nth; eauto | exact (Forall2_nth _ _ _ _ _ _ _ _ H Ec Ep)].
  Qed.

  Lemma fold_GI : forall os ps ag, GI ps -> GI (fst (fold_left vis os (ps, ag))).
  Proof.
    induction os as [|o os IH]; intros ps ag H; simpl; auto.
    destruct (vis (ps, ag) o) as [ps1 ag1] eqn:E. apply IH.
    replace ps1 with (fst (vis (ps, ag) o)) by (rewrite E; reflexivity). apply visit_GI. exact H.
  Qed.

  Lemma visit_flag_mono : forall ps o, snd (vis (ps, true) o) = true.
  Proof.
    intros ps [ci k]. unfold vis, visit. simpl.
    destruct (nth_error cs ci); auto. destruct (nth_error ps ci); auto.
  Qed.

  Lemma fold_flag_true : forall os ps, snd (fold_left vis os (ps, true)) = true.
  Proof.
    induction os as [|o os IH]; intros ps; simpl; auto.
    destruct (vis (ps, true) o) as [ps1 ag1] eqn:E.
    assert (ag1 = true) by (replace ag1 with (snd (vis (ps, true) o)) by (rewrite E; reflexivity); apply visit_flag_mono).
    subst. apply IH.
  Qed.

  (* a pass that does not ask for another one; only sequences that have not failed are described *)
  Lemma quiet_fold : forall os ps ps', GI ps -> fold_left vis os (ps, false) = (ps', false) ->
    forall ci c p p', nth_error cs ci = Some c -> nth_error ps ci = Some p -> nth_error ps' ci = Some p' -> p_err p' = 0 ->
      p_err p = 0 /\
      (mu p' = mu p \/ p_n p' = length (c_elems c)) /\
      (Stuck F guard tbl s c p -> Stuck F guard tbl s c p' /\ mu p' = mu p) /\
      (forall k, In (ci, k) os -> p_n p' = k -> k < length (c_elems c) -> Stuck F guard tbl s c p').
  Proof.
    induction os as [|[ci0 k0] os IH]; intros ps ps' HG H ci c p p' Ec Ep Ep' Herr'.
    - simpl in H. inversion H; subst. rewrite Ep in Ep'. inversion Ep'; subst.
      split; [exact Herr'|]. split; [left; reflexivity | split; [intros Hs; split; [exact Hs | reflexivity] | intros k []]].
    - simpl in H. destruct (vis (ps, false) (ci0, k0)) as [ps1 ag1] eqn:Ev.
      assert (ag1 = false).
      { destruct ag1; auto. pose proof (fold_flag_true os ps1) as T. rewrite H in T. discriminate. }
      subst ag1.
      assert (HG1 : GI ps1) by (replace ps1 with (fst (vis (ps, false) (ci0, k0))) by (rewrite Ev; reflexivity); apply visit_GI; auto).
      destruct (nth_error cs ci0) as [c0|] eqn:Ec0.
      2:{ unfold vis, visit in Ev. simpl in Ev. rewrite Ec0 in Ev. inversion Ev; subst ps1.
          destruct (IH _ _ HG H ci c p p' Ec Ep Ep' Herr') as [E0 [A [B C]]].
          split; [exact E0 | split; [exact A | split; [exact B | intros k [E|E]; [inversion E; subst; congruence | eauto]]]]. }
      destruct (nth_error ps ci0) as [p0|] eqn:Ep0.
      2:{ unfold vis, visit in Ev. simpl in Ev. rewrite Ec0, Ep0 in Ev. inversion Ev; subst ps1.
          destruct (IH _ _ HG H ci c p p' Ec Ep Ep' Herr') as [E0 [A [B C]]].
          split; [exact E0 | split; [exact A | split; [exact B | intros k [E|E]; [inversion E; subst; congruence | eauto]]]]. }
      rewrite (visit_eq _ _ _ _ _ _ Ec0 Ep0) in Ev. inversion Ev as [[E1 E2]]. clear Ev.
      simpl in E2.
      destruct (Nat.eq_dec ci ci0) as [Eci | Eci].
      + subst ci0. rewrite Ec in Ec0. inversion Ec0; subst c0. rewrite Ep in Ep0. inversion Ep0; subst p0. clear Ec0 Ep0.
        set (p1 := attempt F guard tbl s c k0 p) in *.
        assert (Ep1 : nth_error ps1 ci = Some p1).
        { rewrite <- E1. rewrite nth_error_update_same, Ep. reflexivity. }
        pose proof (ok_of_nth _ _ Ec) as Hok.
        assert (Hinv : Inv F tbl s c p) by (exact (Forall2_nth _ _ _ _ _ _ _ _ HG Ec Ep)).
        destruct (inv_attempt F guard tbl s c Hok k0 p Hinv) as [Hinv1 [Hmono [Hstep Hpre]]]. fold p1 in Hinv1, Hmono, Hstep, Hpre.
        destruct (IH _ _ HG1 H ci c p1 p' Ec Ep1 Ep' Herr') as [Herr1 [A [B C]]].
        assert (Herr0 : p_err p = 0).
        { destruct (Nat.eq_dec (p_err p) 0); auto. exfalso. apply (err_persist F guard tbl s c k0 p n). exact Herr1. }
        pose proof (quiet_attempt F guard tbl s c Hok k0 p Hinv E2) as Q. fold p1 in Q.
        split; [exact Herr0|]. split; [|split].
        * destruct Q as [Q | Q].
          -- rewrite <- Q. exact A.
          -- right. destruct A as [A|A]; auto. rewrite (mu_n _ _ A). exact Q.
        * intros Hs. destruct (stuck_attempt F guard tbl s c Hok k0 p Hs) as [S1 S2]. fold p1 in S1, S2.
          destruct (B S1) as [B1 B2]. split; auto. lia.
        * intros k [E|E] Hk Hlt; [|eauto].
          inversion E; subst k0. clear E.
          assert (P1 : p_n p1 = k) by (destruct A as [A|A]; [rewrite <- (mu_n _ _ A); exact Hk | lia]).
          assert (M1 : mu p1 = mu p) by (destruct Q as [Q|Q]; [exact Q | lia]).
          assert (Kp : p_n p = k) by (rewrite <- (mu_n _ _ M1); exact P1).
          assert (Hs : Stuck F guard tbl s c p).
          { split; auto. split; auto. unfold adv. rewrite Kp. fold p1. auto. }
          destruct (stuck_attempt F guard tbl s c Hok k p Hs) as [S1 _]. fold p1 in S1.
          apply B. exact S1.
      + assert (Ep1 : nth_error ps1 ci = Some p).
        { rewrite <- E1. rewrite nth_error_update_other by auto. exact Ep. }
        destruct (IH _ _ HG1 H ci c p p' Ec Ep1 Ep' Herr') as [E0 [A [B C]]].
        split; [exact E0 | split; [exact A | split; [exact B | intros k [E|E]; [inversion E; subst; congruence | eauto]]]].
  Qed.
End Loop.

(* ------------------------------------------------------------------ every (condition, element) pair is visited in a pass *)
Definition all_occs (gs : list (nat * list occ)) : list occ := concat (map (fun g : nat * list occ => snd g) gs).

Lemma in_all_occs : forall o gs, In o (all_occs gs) <-> exists g, In g gs /\ In o (snd g).
Proof.
  intros o gs. unfold all_occs. rewrite in_concat. split.
  - intros [l [Hl Ho]]. apply in_map_iff in Hl. destruct Hl as [g [E Hg]]. subst. eauto.
  - intros [g [Hg Ho]]. exists (snd g). split; auto. apply in_map_iff. eauto.
Qed.

Lemma group_add_in : forall x gs o, In o (all_occs (group_add x gs)) <-> o = snd x \/ In o (all_occs gs).
Proof.
  intros x gs o. induction gs as [|[k l] gs IH]; simpl.
  - unfold all_occs. simpl. split; intros [H|H]; auto.
  - destruct (Nat.eqb k (fst x)).
    + unfold all_occs in *. simpl. rewrite !in_app_iff. simpl. intuition (subst; auto).
    + unfold all_occs in *. simpl. rewrite !in_app_iff. rewrite IH. intuition (subst; auto).
Qed.

Lemma fold_group_add_in : forall xs gs o,
  In o (all_occs (fold_left (fun gs x => group_add x gs) xs gs)) <-> In o (map snd xs) \/ In o (all_occs gs).
Proof.
  induction xs as [|x xs IH]; intros gs o; simpl.
  - tauto.
  - rewrite IH, group_add_in. split; intros [H|H]; auto; destruct H; auto.
Qed.

Lemma insert_occ_in : forall x l o, In o (insert_occ x l) <-> o = x \/ In o l.
Proof.
  induction l as [|y l IH]; intros o; simpl.
  - split; intros [H|H]; auto.
  - destruct (occ_lt x y); simpl.
    + split; intros [H|H]; auto.
    + rewrite IH. split; intros [H|H]; auto; destruct H; auto.
Qed.

Lemma sort_occ_in : forall l o, In o (sort_occ l) <-> In o l.
Proof.
  induction l as [|x l IH]; intros o; simpl; [tauto|].
  unfold sort_occ in *. simpl. rewrite insert_occ_in, IH. split; intros [H|H]; auto.
Qed.

Lemma insert_group_in : forall g l o, In o (all_occs (insert_group g l)) <-> In o (snd g) \/ In o (all_occs l).
Proof.
  induction l as [|h l IH]; intros o; simpl.
  - unfold all_occs. simpl. rewrite app_nil_r. tauto. 
  - destruct (occ_lt (head_occ g) (head_occ h)).
    + unfold all_occs. simpl. rewrite !in_app_iff. tauto.
    + unfold all_occs in *. simpl. rewrite !in_app_iff, IH. tauto.
Qed.

Lemma fold_insert_group_in : forall gs o, In o (all_occs (fold_right insert_group [] gs)) <-> In o (all_occs gs).
Proof.
  induction gs as [|g gs IH]; intros o; simpl; [tauto|].
  rewrite insert_group_in, IH. unfold all_occs. simpl. rewrite in_app_iff. tauto.
Qed.

Lemma map_sort_in : forall gs o,
  In o (all_occs (map (fun g : nat * list occ => (fst g, sort_occ (snd g))) gs)) <-> In o (all_occs gs).
Proof.
  induction gs as [|g gs IH]; intros o; simpl; [tauto|].
  unfold all_occs in *. simpl. rewrite !in_app_iff, sort_occ_in, IH. tauto.
Qed.

Lemma elems_occ_in : forall ci es k0 k e, nth_error es k = Some e -> In (e_rx e, (ci, k0 + k)) (elems_occ ci k0 es).
Proof.
  induction es as [|x es IH]; intros k0 k e H; destruct k; simpl in *; try discriminate.
  - inversion H; subst. left. f_equal. f_equal. lia.
  - right. replace (k0 + S k) with (S k0 + k) by lia. apply IH. exact H.
Qed.

Lemma conds_occ_in : forall cs ci0 ci c k e, nth_error cs ci = Some c -> nth_error (c_elems c) k = Some e ->
  In (e_rx e, (ci0 + ci, k)) (conds_occ ci0 cs).
Proof.
  induction cs as [|x cs IH]; intros ci0 ci c k e Hc He; destruct ci; simpl in *; try discriminate.
  - inversion Hc; subst. apply in_or_app. left. rewrite Nat.add_0_r.
    pose proof (elems_occ_in ci0 _ 0 _ _ He) as K. simpl in K. exact K.
  - apply in_or_app. right. replace (ci0 + S ci) with (S ci0 + ci) by lia. eapply IH; eauto.
Qed.

Lemma visit_order_complete : forall cs ci c k, nth_error cs ci = Some c -> k < length (c_elems c) ->
  In (ci, k) (visit_order cs).
Proof.
  intros cs ci c k Hc Hk. destruct (nth_error (c_elems c) k) as [e|] eqn:He; [|apply nth_error_None in He; lia].
  unfold visit_order.
  change (In (ci, k) (all_occs (fold_right insert_group []
            (map (fun g : nat * list occ => (fst g, sort_occ (snd g)))
                 (fold_left (fun gs x => group_add x gs) (conds_occ 0 cs) []))))).
  rewrite fold_insert_group_in, map_sort_in, fold_group_add_in. left.
  apply in_map_iff. exists (e_rx e, (ci, k)). split; auto.
  pose proof (conds_occ_in cs 0 ci c k e Hc He) as K. simpl in K. exact K.
Qed.

(* ------------------------------------------------------------------ the loop ends with every sequence where the plain scan puts it *)
Definition sumlen (cs : list cond) : nat := fold_right (fun c a => length (c_elems c) + a) 0 cs.
Definition total_mu (ps : list progress) : nat := fold_right (fun p a => mu p + a) 0 ps.

Lemma total_mu_update : forall ps i p p', nth_error ps i = Some p ->
  total_mu (update i (fun _ => p') ps) + mu p = total_mu ps + mu p'.
Proof.
  induction ps as [|q ps IH]; intros i p p' H; destruct i; simpl in *; try discriminate.
  - inversion H; subst. lia.
  - specialize (IH _ _ p' H). lia.
Qed.

Lemma Forall2_map_progress0 : forall F tbl s cs, Forall2 (fun c p => Inv F tbl s c p) cs (map (fun _ => progress0) cs).
Proof. intros. induction cs; simpl; constructor; auto. apply Inv0. Qed.

Lemma total_bound : forall cs ps, Forall2 (fun c p => mu p <= 2 * length (c_elems c)) cs ps -> total_mu ps <= 2 * sumlen cs.
Proof. intros cs ps H. induction H; simpl; auto. unfold total_mu, sumlen in *. simpl. lia. Qed.

Lemma Forall2_weaken : forall A B (R1 R2 : A -> B -> Prop) l1 l2, (forall a b, R1 a b -> R2 a b) -> Forall2 R1 l1 l2 -> Forall2 R2 l1 l2.
Proof. intros A B R1 R2 l1 l2 H F. induction F; constructor; auto. Qed.

Section Loop2.
  Variables (F : nat) (guard : bool) (tbl : list rx) (s : source) (cs : list cond).
  Hypothesis Hall : forall c, In c cs -> tbl_ok F guard tbl c.

  Lemma GI_bound : forall ps, GI F tbl s cs ps -> total_mu ps <= 2 * sumlen cs.
  Proof.
    intros ps H. apply total_bound. eapply Forall2_weaken; [|exact H]. intros a b [[Hn Hp] _].
    unfold mu. destruct (p_pre b); [specialize (Hp eq_refl); lia | lia].
  Qed.

  Lemma visit_total : forall ps ag o, GI F tbl s cs ps ->
    total_mu ps <= total_mu (fst (vis F guard tbl s cs (ps, ag) o)) /\
    (ag = false -> snd (vis F guard tbl s cs (ps, ag) o) = true -> total_mu ps < total_mu (fst (vis F guard tbl s cs (ps, ag) o))).
  Proof.
    intros ps ag [ci k] HG. unfold vis, visit. simpl.
    destruct (nth_error cs ci) as [c|] eqn:Ec; [|simpl; split; [lia | intros; subst; discriminate]].
    destruct (nth_error ps ci) as [p|] eqn:Ep; [|simpl; split; [lia | intros; subst; discriminate]].
    simpl.
    pose proof (total_mu_update ps ci p (attempt F guard tbl s c k p) Ep) as T.
    assert (Hinv : Inv F tbl s c p) by (exact (Forall2_nth _ _ _ _ _ _ _ _ HG Ec Ep)).
    pose proof (ok_of_nth F guard tbl cs Hall _ _ Ec) as Hok.
    destruct (inv_attempt F guard tbl s c Hok k p Hinv) as [_ [Hmono [Hstep Hpre]]].
    split; [lia|].
    intros Ea Hf. subst ag. simpl in Hf.
    assert (mu p < mu (attempt F guard tbl s c k p)); [|lia].
    unfold advanced_incomplete in Hf. apply orb_true_iff in Hf. destruct Hf as [Hf | Hf].
    - apply andb_true_iff in Hf. destruct Hf as [Hf _].
      destruct (Nat.eqb_spec (p_n (attempt F guard tbl s c k p)) (p_n p)); [discriminate|].
      destruct Hstep as [E | [_ E]]; [contradiction|]. unfold mu in *. rewrite E. destruct (p_pre p), (p_pre (attempt F guard tbl s c k p)); lia.
    - apply andb_true_iff in Hf. destruct Hf as [H1 H2]. apply negb_true_iff in H1.
      unfold mu in *. rewrite H1, H2 in *. lia.
  Qed.

  Lemma fold_total : forall os ps ag, GI F tbl s cs ps ->
    total_mu ps <= total_mu (fst (fold_left (vis F guard tbl s cs) os (ps, ag))) /\
    (ag = false -> snd (fold_left (vis F guard tbl s cs) os (ps, ag)) = true ->
     total_mu ps < total_mu (fst (fold_left (vis F guard tbl s cs) os (ps, ag)))).
  Proof.
    induction os as [|o os IH]; intros ps ag HG; simpl.
    - split; [lia | intros; subst; discriminate].
    - destruct (vis F guard tbl s cs (ps, ag) o) as [ps1 ag1] eqn:E.
      pose proof (visit_total ps ag o HG) as [V1 V2]. rewrite E in V1, V2. simpl in V1, V2.
      assert (HG1 : GI F tbl s cs ps1).
      { replace ps1 with (fst (vis F guard tbl s cs (ps, ag) o)) by (rewrite E; reflexivity). apply visit_GI; auto. }
      destruct (IH ps1 ag1 HG1) as [I1 I2]. split; [lia|].
      intros Ea Hf. destruct ag1.
      + specialize (V2 Ea eq_refl). lia.
      + specialize (I2 eq_refl Hf). lia.
  Qed.

  Lemma loop_spec : forall fuel ps, GI F tbl s cs ps -> 2 * sumlen cs - total_mu ps < fuel ->
    GI F tbl s cs (group_loop F guard tbl s cs (visit_order cs) fuel ps) /\
    forall ci c p', nth_error cs ci = Some c ->
      nth_error (group_loop F guard tbl s cs (visit_order cs) fuel ps) ci = Some p' -> p_err p' = 0 ->
      p_n p' = total F tbl s c.
  Proof.
    induction fuel as [|f IH]; intros ps HG Hf; [lia|].
    simpl. unfold pass. fold (vis F guard tbl s cs).
    destruct (fold_left (vis F guard tbl s cs) (visit_order cs) (ps, false)) as [ps1 again] eqn:E.
    assert (HG1 : GI F tbl s cs ps1).
    { replace ps1 with (fst (fold_left (vis F guard tbl s cs) (visit_order cs) (ps, false))) by (rewrite E; reflexivity).
      apply fold_GI; auto. }
    destruct again.
    - pose proof (fold_total (visit_order cs) ps false HG) as [_ T]. rewrite E in T. simpl in T. specialize (T eq_refl eq_refl).
      pose proof (GI_bound ps1 HG1). apply IH; auto. lia.
    - split; auto. intros ci c p' Ec Ep' Herr'.
      destruct (Forall2_nth_ex _ _ _ _ _ _ _ HG Ec) as [p [Ep _]].
      destruct (quiet_fold F guard tbl s cs Hall _ _ _ HG E ci c p p' Ec Ep Ep' Herr') as [_ [_ [_ C]]].
      pose proof (Forall2_nth _ _ _ _ _ _ _ _ HG1 Ec Ep') as Hinv.
      pose proof (ok_of_nth F guard tbl cs Hall _ _ Ec) as Hok.
      destruct (Nat.lt_ge_cases (p_n p') (length (c_elems c))) as [L | L].
      + apply (stuck_total F guard tbl s c Hok). apply (C (p_n p')); auto.
        apply visit_order_complete with (c := c); auto.
      + apply (stuck_total F guard tbl s c Hok).
        assert (Ea : adv F guard tbl s c p' = p').
        { unfold adv. apply complete_attempt. destruct Hinv as [[Hn _] _]. lia. }
        split; auto. split; auto. rewrite Ea. auto.
  Qed.

  Theorem source_eval_spec : forall ci c, nth_error cs ci = Some c ->
    exists p, nth_error (source_eval F guard tbl cs s) ci = Some p /\ p_n p <= length (c_elems c) /\
              (p_err p = 0 -> p_n p = seq_spec F tbl s (c_elems c) 0 0 []).
  Proof.
    intros ci c Ec. unfold source_eval.
    assert (HG0 : GI F tbl s cs (map (fun _ => progress0) cs)) by (unfold GI; apply Forall2_map_progress0).
    assert (Z : total_mu (map (fun _ : cond => progress0) cs) = 0).
    { clear. induction cs; simpl; auto. }
    assert (Hf : 2 * sumlen cs - total_mu (map (fun _ : cond => progress0) cs) < loop_fuel cs).
    { unfold loop_fuel. fold (sumlen cs). lia. }
    destruct (loop_spec _ _ HG0 Hf) as [HG L].
    destruct (Forall2_nth_ex _ _ _ _ _ _ _ HG Ec) as [p [Ep Hinv]].
    exists p. split; auto. split; [apply Hinv | intros He; apply (L _ _ _ Ec Ep He)].
  Qed.
End Loop2.

(* ------------------------------------------------------------------ end to end *)
Lemma cond_success_spec : forall F tbl s c p, p_n p = seq_spec F tbl s (c_elems c) 0 0 [] -> p_n p <= length (c_elems c) ->
  cond_success c p = cond_holds_spec F tbl c s.
Proof.
  intros F tbl s c p E L. unfold cond_success, cond_holds_spec. rewrite <- E.
  set (n := p_n p) in *. set (len := length (c_elems c)) in *.
  destruct (c_inv c).
  - destruct (Nat.eqb_spec (S n) len) as [A|A].
    + replace (len - n) with 1 by lia. reflexivity.
    + destruct (Nat.leb_spec 2 (len - n)); simpl; auto.
      assert (len - n = 0) by lia. rewrite H0. reflexivity.
  - destruct (Nat.eqb_spec n len) as [A|A].
    + replace (len - n) with 0 by lia. reflexivity.
    + destruct (Nat.leb_spec 2 (len - n)); simpl; auto.
      assert (len - n = 1) by lia. rewrite H0. reflexivity.
Qed.

(* no error on any evaluated source: exactly when the filter returns without error *)
Definition no_error (F : nat) (guard : bool) (tbl : list rx) (cn : conv_name) (cs : list cond) (st : stream) : Prop :=
  forall s p, In s (sources_of cn st) -> In p (source_eval F guard tbl cs s) -> p_err p = 0.

Theorem conj_selected_spec : forall F guard tbl cn cs st,
  (forall c, In c cs -> tbl_ok F guard tbl c) -> no_error F guard tbl cn cs st ->
  conj_selected F guard tbl cn cs st = conj_spec F tbl cn cs st.
Proof.
  intros F guard tbl cn cs st Hall Hne. apply conj_accounting. intros s ci c Hs Ec.
  destruct (source_eval_spec F guard tbl s cs Hall ci c Ec) as [p [Ep [Hl En]]]. rewrite Ep.
  apply cond_success_spec; auto. apply En. apply (Hne s p Hs). eapply nth_error_In; eauto.
Qed.

Theorem stream_selected_spec : forall F guard tbl cn ors st,
  (forall cs c, In cs ors -> In c cs -> tbl_ok F guard tbl c) ->
  (forall cs, In cs ors -> no_error F guard tbl cn cs st) ->
  stream_selected F guard tbl cn ors st = stream_spec F tbl cn ors st.
Proof.
  intros F guard tbl cn ors st Hall Hne. unfold stream_selected, stream_spec.
  induction ors as [|cs ors IH]; simpl; auto.
  rewrite conj_selected_spec; [|intros c Hc; apply (Hall cs c); simpl; auto | apply Hne; simpl; auto].
  f_equal. apply IH; intros; [eapply Hall | apply Hne]; simpl; eauto.
Qed.

(* the hypothesis of the end-to-end statement, from the facts computed by the analyses *)
Theorem find_ok_guarded : forall F r, context_sensitive r = true -> 2 <= r_ncap r -> find_ok F true r.
Proof.
  intros F r Hc Hn. split; auto. intros data off res off' Hoff H. rewrite find_guard_plain in H by assumption.
  inversion H; subst. unfold find_agrees. repeat split; auto.
  destruct (plain F r (skipn off' data)); [|auto]. rewrite Nat.sub_diag, shift_0. auto.
Qed.

Theorem find_ok_shortcuts_partial : forall F guard r,
  assertion_free (r_prog r) = true -> facts_sound r -> 2 <= r_ncap r ->
  (N.eqb (f_min (r_facts r)) (f_max (r_facts r)) && match f_prefix (r_facts r) with [] => true | _ => false end
     && match f_suffix (r_facts r) with [] => false | _ => true end = false) ->
  find_ok F guard r.
Proof.
  intros F guard r Haf Hfs Hn Hw. split; auto. intros data off res off' Hoff H.
  eapply find_shortcut_plain_partial; eauto.
Qed.

Theorem find_ok_shortcuts : forall F guard r,
  assertion_free (r_prog r) = true -> facts_sound r -> 2 <= r_ncap r ->
  (f_min (r_facts r) = f_max (r_facts r) -> (f_max (r_facts r) < MAXU)%N) ->
  find_ok F guard r.
Proof.
  intros F guard r Haf Hfs Hn Hw. split; auto. intros data off res off' Hoff H.
  eapply find_shortcut_plain; eauto.
Qed.

(* an expression as finalize() prepares it (after the fixes): facts from Prog.Prefix, AcceptedLength, ConstantSuffix *)
Definition prepared (r : rx) : Prop :=
  wf (r_prog r) = true /\ 2 <= r_ncap r /\
  (f_min (r_facts r) = f_max (r_facts r) -> (f_max (r_facts r) < MAXU)%N) /\
  (context_sensitive r = true \/
   exists P compl, prog_prefix (r_prog r) = (P, compl) /\ f_prefix (r_facts r) = P /\
     if compl
     then f_suffix (r_facts r) = P /\ f_min (r_facts r) = len P /\ f_max (r_facts r) = len P
     else accepted_length_cached (r_prog r) = Some (f_min (r_facts r), f_max (r_facts r)) /\
          constant_suffix_b (r_prog r) = Some (f_suffix (r_facts r))).

Theorem find_ok_prepared : forall F r, prepared r -> find_ok F true r.
Proof.
  intros F r [Hwf [Hn [Hfin [Hc | [P [compl [Hp [EP Hf]]]]]]]].
  - apply find_ok_guarded; auto.
  - destruct (context_sensitive r) eqn:Ec; [apply find_ok_guarded; auto|].
    apply find_ok_shortcuts; auto.
    + unfold context_sensitive in Ec. apply negb_false_iff in Ec. exact Ec.
    + eapply facts_sound_model; eauto.
Qed.

(* an element over a table of prepared expressions: what remains to be known about an element with variables is the
   relation between its precondition and its substituted expressions (two separately compiled programs) *)
Definition elem_prepared (F : nat) (tbl : list rx) (e : elem) : Prop :=
  match e_ref e with
  | EFixed _ => True
  | ESubst pre uses table =>
      forall rp vs i r, nth_error tbl pre = Some rp -> table_find vs table = Some i -> nth_error tbl i = Some r ->
                        pre_ok F true rp r
  end.

Lemma elem_ok_prepared : forall F tbl e, Forall prepared tbl -> elem_prepared F tbl e -> elem_ok F true tbl e.
Proof.
  intros F tbl e Hp He. rewrite Forall_forall in Hp.
  assert (K : forall i r, nth_error tbl i = Some r -> find_ok F true r).
  { intros i r H. apply find_ok_prepared. apply Hp. eapply nth_error_In; eauto. }
  unfold elem_ok, elem_prepared in *. destruct (e_ref e) as [k | pre uses table].
  - intros r H. eapply K; eauto.
  - split; [intros rp H; eapply K; eauto|]. split; [intros vs i r _ H; eapply K; eauto | exact He].
Qed.

(* for a precondition with empty-width assertions (scanned plainly, offset untouched) only the inclusion is needed *)
Lemma pre_ok_guarded : forall F pre ex, context_sensitive pre = true ->
  (forall buffer, plain F pre buffer = None -> plain F ex buffer = None) -> pre_ok F true pre ex.
Proof.
  intros F pre ex Hc Hi. split; auto. intros data off m off' Hoff H.
  rewrite find_guard_plain in H by assumption. inversion H; subst. rewrite Nat.sub_diag. split; [|lia].
  destruct (plain F ex (skipn off' data)); simpl; [rewrite shift_0|]; reflexivity.
Qed.

Theorem filter_is_plain_scan_prepared : forall F tbl cn ors st,
  Forall prepared tbl ->
  (forall cs c e, In cs ors -> In c cs -> In e (c_elems c) -> elem_prepared F tbl e) ->
  (forall cs, In cs ors -> no_error F true tbl cn cs st) ->
  stream_selected F true tbl cn ors st = stream_spec F tbl cn ors st.
Proof.
  intros F tbl cn ors st Hp He Hne. apply stream_selected_spec; auto.
  intros cs c Hcs Hc e Hin. apply elem_ok_prepared; auto. eapply He; eauto.
Qed.
