(* C04: sequence progress (B) and the re-check loop over shared expressions (C), leading to
   stream_selected = stream_spec for every table of expressions whose find agrees with the plain scan. *)
From Coq Require Import List NArith Bool Arith Lia.
Import ListNotations.
Require Import Pk.RegexProg Pk.RegexProgProofs Pk.Regex Pk.RegexProofs Pk.DataFilter Pk.DataFilterProofs.

(* ------------------------------------------------------------------ the chunk-boundary rule *)
Lemma scan_app_last : forall d off L a, L <> [] ->
  boundary_scan d off (L ++ [a]) =
  match boundary_scan d off L with
  | Some r => Some r
  | None => if sel d a <? off then Some (sel (negb d) (last L a)) else None
  end.
Proof.
  induction L as [|x L IH]; intros a Hne; [congruence|].
  destruct L as [|y L].
  - simpl. destruct (sel d a <? off); reflexivity.
  - change ((x :: y :: L) ++ [a]) with (x :: (y :: L) ++ [a]).
    change (boundary_scan d off (x :: (y :: L) ++ [a])) with
      (if sel d y <? off then Some (sel (negb d) x) else boundary_scan d off ((y :: L) ++ [a])).
    change (boundary_scan d off (x :: y :: L)) with
      (if sel d y <? off then Some (sel (negb d) x) else boundary_scan d off (y :: L)).
    destruct (sel d y <? off); auto.
    rewrite IH by discriminate. reflexivity.
Qed.

Lemma scan_none : forall d off l, Forall (fun q => off <= sel d q) l -> boundary_scan d off l = None.
Proof.
  induction l as [|x l IH]; intros H; auto.
  destruct l as [|y l]; auto.
  change (boundary_scan d off (x :: y :: l)) with
    (if sel d y <? off then Some (sel (negb d) x) else boundary_scan d off (y :: l)).
  pose proof (Forall_inv_tail H) as Hl. pose proof (Forall_inv Hl) as Hy. simpl in Hy.
  destruct (Nat.ltb_spec (sel d y) off); [lia|]. apply IH. exact Hl.
Qed.

Lemma cumul_head : forall s c sv, exists r, cumul s c sv = (c, sv) :: r.
Proof. intros. destruct s as [|[d x] s]; simpl; eauto. Qed.

Lemma cumul_ge : forall d s c sv, Forall (fun q => sel d (c, sv) <= sel d q) (cumul s c sv).
Proof.
  induction s as [|[d' x] s IH]; intros c sv; simpl.
  - constructor; auto.
  - constructor; auto. destruct d'.
    + eapply Forall_impl; [|apply IH]. intros q Hq. destruct d; simpl in *; lia.
    + eapply Forall_impl; [|apply IH]. intros q Hq. destruct d; simpl in *; lia.
Qed.

Lemma dir_data_cons : forall d d' x s, dir_data d ((d', x) :: s) = (if Bool.eqb d' d then x else []) ++ dir_data d s.
Proof. intros. unfold dir_data. simpl. reflexivity. Qed.

Lemma boundary_eq_gen : forall d off s c sv,
  sel d (c, sv) < off -> off <= sel d (c, sv) + length (dir_data d s) ->
  boundary_scan d off (rev (cumul s c sv)) = boundary_spec s d off (sel d (c, sv)) (sel (negb d) (c, sv)) /\
  boundary_scan d off (rev (cumul s c sv)) <> None.
Proof.
  induction s as [|[d' x] s IH]; intros c sv Hlt Hle.
  - unfold dir_data in Hle. simpl in Hle. lia.
  - set (c' := if d' then c else c + length x). set (sv' := if d' then sv + length x else sv).
    assert (Ec : cumul (@cons chunk (d', x) s) c sv = (c, sv) :: cumul s c' sv') by (simpl; unfold c', sv'; destruct d'; reflexivity).
    rewrite Ec. simpl rev.
    destruct (cumul_head s c' sv') as [tl Et].
    assert (Hne : rev (cumul s c' sv') <> []) by (rewrite Et; simpl; intros E; apply app_eq_nil in E; destruct E; discriminate).
    rewrite (scan_app_last d off _ (c, sv) Hne).
    assert (Hlast : last (rev (cumul s c' sv')) (c, sv) = (c', sv')).
    { rewrite Et. simpl. apply last_last. }
    rewrite Hlast. rewrite dir_data_cons, app_length in Hle.
    simpl boundary_spec. destruct (Bool.eqb d' d) eqn:Ed.
    + (* a chunk of the searched direction *)
      apply Bool.eqb_prop in Ed. subst d'.
      assert (Sd : sel d (c', sv') = sel d (c, sv) + length x) by (unfold c', sv'; destruct d; simpl; lia).
      assert (So : sel (negb d) (c', sv') = sel (negb d) (c, sv)) by (unfold c', sv'; destruct d; simpl; lia).
      destruct (Nat.leb_spec off (sel d (c, sv) + length x)) as [Hin | Hout].
      * (* the chunk holds byte off-1 *)
        rewrite scan_none.
        -- destruct (Nat.ltb_spec (sel d (c, sv)) off); [|lia]. simpl. rewrite So. split; [reflexivity | discriminate].
        -- apply Forall_rev. eapply Forall_impl; [|apply (cumul_ge d s c' sv')]. intros q Hq. simpl in Hq. lia.
      * destruct (IH c' sv') as [E N]; try lia.
        rewrite Sd, So in E.
        destruct (boundary_scan d off (rev (cumul s c' sv'))) as [r|] eqn:BS; [|congruence].
        split; [|discriminate].
        destruct (Nat.ltb_spec (sel d (c, sv)) off); [|lia]. simpl. exact E.
    + (* a chunk of the other direction *)
      assert (Sd : sel d (c', sv') = sel d (c, sv)).
      { unfold c', sv'. destruct d, d'; simpl in *; try discriminate; lia. }
      assert (So : sel (negb d) (c', sv') = sel (negb d) (c, sv) + length x).
      { unfold c', sv'. destruct d, d'; simpl in *; try discriminate; lia. }
      destruct (IH c' sv') as [E N]; try (simpl in Hle; lia).
      rewrite Sd, So in E.
      destruct (boundary_scan d off (rev (cumul s c' sv'))) as [r|] eqn:BS; [|congruence].
      split; [exact E | discriminate].
Qed.

Lemma boundary_eq : forall s d off, 0 < off -> off <= length (dir_data d s) ->
  exists o, boundary s d off = Some o /\ boundary_spec s d off 0 0 = Some o.
Proof.
  intros s d off H0 Hle. unfold boundary.
  destruct (boundary_eq_gen d off s 0 0) as [E N].
  - destruct d; simpl; lia.
  - destruct d; simpl; lia.
  - destruct (boundary_scan d off (rev (cumul s 0 0))) as [o|]; [|congruence].
    exists o. split; auto. rewrite E. destruct d; reflexivity.
Qed.

Lemma boundary_spec_range : forall s d off cd co o, boundary_spec s d off cd co = Some o ->
  o <= co + length (dir_data (negb d) s).
Proof.
  induction s as [|[d' x] s IH]; intros d off cd co o H; simpl in H; [discriminate|].
  rewrite dir_data_cons, app_length.
  destruct (Bool.eqb d' d) eqn:Ed.
  - apply Bool.eqb_prop in Ed. subst d'.
    assert (En : Bool.eqb d (negb d) = false) by (destruct d; reflexivity). rewrite En. simpl.
    destruct ((cd <? off) && (off <=? cd + length x)).
    + inversion H; subst. lia.
    + apply IH in H. lia.
  - assert (En : Bool.eqb d' (negb d) = true) by (destruct d, d'; simpl in *; auto; discriminate). rewrite En.
    apply IH in H. lia.
Qed.

(* ------------------------------------------------------------------ one condition on one source *)
Definition find_ok (F : nat) (guard : bool) (r : rx) : Prop :=
  2 <= r_ncap r /\
  forall data off res off', off <= length data -> find F guard r data off = (res, off') -> find_agrees F r data off res off'.

Definition tbl_ok (F : nat) (guard : bool) (tbl : list rx) (c : cond) : Prop :=
  forall e, In e (c_elems c) -> exists r, nth_error tbl (e_rx e) = Some r /\ find_ok F guard r.

Section OneCondition.
  Variables (F : nat) (guard : bool) (tbl : list rx) (s : source) (c : cond).
  Hypothesis Hok : tbl_ok F guard tbl c.

  Definition total : nat := seq_spec F tbl s (c_elems c) 0 0.
  Definition adv (p : progress) : progress := attempt F guard tbl s c (p_n p) p.

  (* progress and specification walk the same way *)
  Definition Inv (p : progress) : Prop :=
    p_n p <= length (c_elems c) /\ p_bad p = false /\
    p_offc p <= length (dir_data false s) /\ p_offs p <= length (dir_data true s) /\
    p_n p + seq_spec F tbl s (skipn (p_n p) (c_elems c)) (p_offc p) (p_offs p) = total.

  Lemma Inv0 : Inv progress0.
  Proof. unfold Inv, progress0, total; simpl. repeat split; lia. Qed.

  Lemma attempt_cases : forall k p, attempt F guard tbl s c k p = p \/ (k = p_n p /\ attempt F guard tbl s c k p = adv p).
  Proof.
    intros k p. unfold adv. destruct (Nat.eq_dec k (p_n p)) as [E|E].
    - right. subst. auto.
    - left. unfold attempt. destruct (Nat.eqb_spec k (p_n p)); [contradiction | reflexivity].
  Qed.

  Lemma skipn_nth_error : forall A (l : list A) k x, nth_error l k = Some x -> skipn k l = x :: skipn (S k) l.
  Proof.
    induction l; intros k x H; destruct k; simpl in *; try discriminate.
    - inversion H. reflexivity.
    - apply IHl. exact H.
  Qed.

  Lemma p_off_range : forall d p, p_offc p <= length (dir_data false s) -> p_offs p <= length (dir_data true s) ->
    p_off d p <= length (dir_data d s).
  Proof. intros d p A B. destruct d; simpl; auto. Qed.

  Lemma match_end_shift : forall k m e, nth_error (shift k m) 1 = Some (Some e) ->
    exists x, nth_error m 1 = Some (Some x) /\ e = k + x /\ match_end m = x /\ match_end (shift k m) = e.
  Proof.
    intros k m e H. pose proof H as H'. rewrite nth_error_shift in H.
    destruct (nth_error m 1) as [[x|]|] eqn:E; simpl in H; try discriminate.
    inversion H; subst. exists x. unfold match_end. rewrite E, H'. auto.
  Qed.

  Definition after_match (e : elem) (off' : nat) (m : caps) (p : progress) : progress :=
    let d := e_dir e in
    let p0 := set_off d off' p in
    let p1 := mkProgress (p_offc p0) (p_offs p0) (S (p_n p0)) (p_bad p0) in
    if Nat.eqb (p_n p1) (length (c_elems c)) && c_inv c then p1
    else if Nat.eqb (match_end m) 0 then p1
    else let p2 := set_off d (off' + match_end m) p1 in
         match boundary s d (p_off d p2) with
         | Some o => set_off (negb d) o p2
         | None => mkProgress (p_offc p2) (p_offs p2) (p_n p2) true
         end.

  Lemma adv_unfold : forall p, adv p =
    match nth_error (c_elems c) (p_n p) with
    | None => p
    | Some e =>
      match nth_error tbl (e_rx e) with
      | None => mkProgress (p_offc p) (p_offs p) (p_n p) true
      | Some r =>
        match find F guard r (dir_data (e_dir e) s) (p_off (e_dir e) p) with
        | (None, off') => set_off (e_dir e) off' p
        | (Some m, off') => after_match e off' m p
        end
      end
    end.
  Proof.
    intros p. unfold adv, attempt. rewrite Nat.eqb_refl. simpl negb. cbv iota.
    destruct (nth_error (c_elems c) (p_n p)) as [e|]; [|reflexivity].
    destruct (nth_error tbl (e_rx e)) as [r|]; [|reflexivity].
    destruct (find F guard r (dir_data (e_dir e) s) (p_off (e_dir e) p)) as [[m|] off']; reflexivity.
  Qed.

  (* what one visit of the current element does *)
  Lemma adv_spec : forall p, Inv p ->
    Inv (adv p) /\
    (p_n (adv p) = p_n p \/ p_n (adv p) = S (p_n p)) /\
    (p_n (adv p) = p_n p -> p_n p = total /\ p_n (adv (adv p)) = p_n (adv p)).
  Proof.
    intros p [Hn [Hb [Hc [Hs Heq]]]]. remember (adv p) as q eqn:Eq. rewrite adv_unfold in Eq.
    destruct (nth_error (c_elems c) (p_n p)) as [e|] eqn:Ee.
    2:{ (* complete *)
      subst q.
      assert (p_n p = length (c_elems c)) by (apply nth_error_None in Ee; lia).
      split; [unfold Inv; auto|]. split; auto. intros _. split.
      - rewrite H, skipn_all in Heq. simpl in Heq. lia.
      - rewrite adv_unfold, Ee. reflexivity. }
    destruct (Hok e (nth_error_In _ _ Ee)) as [r [Er [Hnc Hfind]]]. rewrite Er in Eq.
    set (d := e_dir e) in *. set (data := dir_data d s) in *. set (off := p_off d p) in *.
    assert (Hoff : off <= length data) by (apply p_off_range; auto).
    destruct (find F guard r data off) as [res off'] eqn:Ef.
    pose proof (Hfind _ _ _ _ Hoff Ef) as [Hle [Hle' Hag]].
    rewrite (skipn_nth_error _ _ _ _ Ee) in Heq. set (rest := skipn (S (p_n p)) (c_elems c)) in *.
    simpl seq_spec in Heq. rewrite Er in Heq.
    fold d in Heq. fold data in Heq.
    assert (Eoff : (if d then p_offs p else p_offc p) = off) by (unfold off; destruct d; reflexivity).
    rewrite Eoff in Heq.
    assert (Hlt : p_n p < length (c_elems c)) by (apply nth_error_Some; congruence).
    assert (Pn : forall v, p_n (set_off d v p) = p_n p) by (intros; destruct d; reflexivity).
    assert (Pb : forall v, p_bad (set_off d v p) = false) by (intros; destruct d; simpl; auto).
    destruct res as [m|].
    - (* the element matches *)
      destruct Hag as [Hpl Hz]. rewrite Hpl in Heq.
      unfold plain in Hpl. destruct (search_end _ _ _ _ _ Hnc Hpl) as [j [en [X [Y [Z W]]]]].
      destruct (match_end_shift _ _ _ W) as [x [Wm [Ex [Mm Ms]]]].
      fold (match_end (shift (off' - off) m)) in Heq. rewrite Ms in Heq.
      rewrite skipn_length in Y. fold data in Y.
      unfold after_match in Eq. fold d in Eq. simpl p_n in Eq. rewrite Pn in Eq.
      destruct ((S (p_n p) =? length (c_elems c)) && c_inv c) eqn:Cinv.
      + (* inverted and complete: `continue` *)
        apply andb_true_iff in Cinv. destruct Cinv as [Cl _]. apply Nat.eqb_eq in Cl.
        assert (Qn : p_n q = S (p_n p)) by (subst q; reflexivity).
        assert (Sk : rest = []) by (unfold rest; rewrite Cl; apply skipn_all).
        rewrite Sk in Heq. simpl in Heq.
        split; [|split; [right; exact Qn | rewrite Qn; lia]].
        unfold Inv. rewrite Qn. fold rest. rewrite Sk. simpl seq_spec. unfold data in Hle'.
        assert (T : S (p_n p) = total) by (destruct (en =? 0); [|replace (if d then 0 else 0) with 0 in Heq by (destruct d; reflexivity)]; lia).
        subst q. destruct d; cbn [set_off p_n p_offc p_offs p_bad] in *; repeat split; auto; lia.
      + destruct (Nat.eqb_spec (match_end m) 0) as [Ez | Ez].
        * (* empty match at the offset: nothing moves *)
          specialize (Hz Ez). subst off'. rewrite Mm in Ez. subst x. rewrite Nat.sub_diag in Ex. simpl in Ex. subst en.
          try rewrite Ez in Heq. simpl in Heq.
          assert (Eset : set_off d off p = p) by (unfold off; destruct d, p; reflexivity).
          rewrite Eset in Eq.
          assert (Qn : p_n q = S (p_n p)) by (subst q; reflexivity).
          split; [|split; [right; exact Qn | rewrite Qn; lia]].
          unfold Inv. rewrite Qn. fold rest. subst q. cbn [p_n p_offc p_offs p_bad]. repeat split; auto; lia.
        * (* the offsets move *)
          rewrite Mm in Ez.
          assert (En0 : en <> 0) by lia. destruct (Nat.eqb_spec en 0); [contradiction|].
          set (noff := off' + match_end m) in *.
          assert (Enoff : off + en = noff) by (unfold noff; rewrite Mm; lia).
          assert (Hr : 0 < noff /\ noff <= length data) by (unfold noff; rewrite Mm; lia).
          destruct (boundary_eq s d noff (proj1 Hr) (proj2 Hr)) as [o [Bo Bs]].
          assert (Poff1 : forall p1, p_off d (set_off d noff p1) = noff) by (intros; destruct d; reflexivity).
          rewrite Poff1, Bo in Eq.
          rewrite Enoff, Bs in Heq.
          pose proof (boundary_spec_range _ _ _ _ _ _ Bs) as Ro. simpl in Ro.
          assert (Qn : p_n q = S (p_n p)) by (subst q; destruct d; reflexivity).
          split; [|split; [right; exact Qn | rewrite Qn; lia]].
          unfold Inv. rewrite Qn. fold rest. unfold data in Hr. unfold data in Hle'.
          subst q. destruct d; cbn [set_off negb p_n p_offc p_offs p_bad] in *; repeat split; auto; try lia.
    - (* the element does not match: the sequence stops here, now and at every later visit *)
      destruct Hag as [Hpl Hpl']. rewrite Hpl in Heq.
      assert (Poff : p_off d (set_off d off' p) = off') by (destruct d; reflexivity).
      assert (Qn : p_n q = p_n p) by (subst q; apply Pn).
      split; [|split; [left; exact Qn|]].
      + unfold Inv. rewrite Qn. subst q. rewrite Pb. unfold data in Hle'.
        rewrite (skipn_nth_error _ _ _ _ Ee). simpl seq_spec. rewrite Er. fold d. fold data.
        assert (Eoff' : (if d then p_offs (set_off d off' p) else p_offc (set_off d off' p)) = off') by (destruct d; reflexivity).
        rewrite Eoff', Hpl'. destruct d; simpl; repeat split; auto; lia.
      + intros _. split; [lia|].
        (* a second visit fails again *)
        rewrite adv_unfold. rewrite Qn, Ee, Er. fold d. fold data. subst q. rewrite Poff.
        destruct (find F guard r data off') as [res2 off2] eqn:Ef2.
        pose proof (Hfind _ _ _ _ Hle' Ef2) as [_ [_ Hag2]].
        destruct res2 as [m2|].
        * destruct Hag2 as [C _]. rewrite Hpl' in C. discriminate.
        * destruct d; reflexivity.
  Qed.

  Lemma adv_inv : forall p, Inv p -> Inv (adv p).
  Proof. intros p H. apply adv_spec. exact H. Qed.

  (* a condition that no longer advances: closed under further visits *)
  Definition Stuck (p : progress) : Prop := Inv p /\ p_n (adv p) = p_n p.

  Lemma stuck_total : forall p, Stuck p -> p_n p = total.
  Proof. intros p [H E]. destruct (adv_spec p H) as [_ [_ K]]. apply K. exact E. Qed.

  Lemma stuck_adv : forall p, Stuck p -> Stuck (adv p) /\ p_n (adv p) = p_n p.
  Proof.
    intros p [H E]. destruct (adv_spec p H) as [I [_ K]]. destruct (K E) as [_ E2].
    split; auto. split; auto.
  Qed.

  Lemma stuck_attempt : forall k p, Stuck p -> Stuck (attempt F guard tbl s c k p) /\ p_n (attempt F guard tbl s c k p) = p_n p.
  Proof.
    intros k p H. destruct (attempt_cases k p) as [E | [_ E]]; rewrite E; auto. apply stuck_adv. exact H.
  Qed.

  Lemma inv_attempt : forall k p, Inv p -> Inv (attempt F guard tbl s c k p) /\
    (p_n (attempt F guard tbl s c k p) = p_n p \/ (k = p_n p /\ p_n (attempt F guard tbl s c k p) = S (p_n p))).
  Proof.
    intros k p H. destruct (attempt_cases k p) as [E | [Ek E]]; rewrite E; auto.
    destruct (adv_spec p H) as [I [[A|A] _]]; auto.
  Qed.

  Lemma complete_attempt : forall k p, p_n p = length (c_elems c) -> attempt F guard tbl s c k p = p.
  Proof.
    intros k p H. unfold attempt. destruct (Nat.eqb_spec k (p_n p)); auto. simpl.
    subst k. rewrite H. assert (E : nth_error (c_elems c) (length (c_elems c)) = None) by (apply nth_error_None; lia).
    rewrite E. reflexivity.
  Qed.
End OneCondition.

(* ------------------------------------------------------------------ the re-check loop over all conditions *)
Lemma nth_error_update_same : forall A n (f : A -> A) l, nth_error (update n f l) n = option_map f (nth_error l n).
Proof. intros A n f l. revert n. induction l; intros n; destruct n; simpl; auto. Qed.

Lemma nth_error_update_other : forall A n m (f : A -> A) l, n <> m -> nth_error (update n f l) m = nth_error l m.
Proof.
  intros A n m f l. revert n m. induction l; intros n m H; destruct n, m; simpl; auto; try congruence.
Qed.

Lemma update_length : forall A n (f : A -> A) l, length (update n f l) = length l.
Proof. intros A n f l. revert n. induction l; intros n; destruct n; simpl; auto. Qed.

Lemma Forall2_nth : forall A B (R : A -> B -> Prop) l1 l2 i a b, Forall2 R l1 l2 ->
  nth_error l1 i = Some a -> nth_error l2 i = Some b -> R a b.
Proof.
  intros A B R l1 l2 i a b H. revert i. induction H; intros i Ha Hb; destruct i; simpl in *; try discriminate.
  - inversion Ha; inversion Hb; subst. assumption.
  - eapply IHForall2; eauto.
Qed.

Lemma Forall2_nth_ex : forall A B (R : A -> B -> Prop) l1 l2 i a, Forall2 R l1 l2 ->
  nth_error l1 i = Some a -> exists b, nth_error l2 i = Some b /\ R a b.
Proof.
  intros A B R l1 l2 i a H. revert i. induction H; intros i Ha; destruct i; simpl in *; try discriminate.
  - inversion Ha; subst. eauto.
  - eauto.
Qed.

Lemma Forall2_update : forall A B (R : A -> B -> Prop) l1 l2 i a (f : B -> B), Forall2 R l1 l2 ->
  nth_error l1 i = Some a -> (forall b, nth_error l2 i = Some b -> R a (f b)) -> Forall2 R l1 (update i f l2).
Proof.
  intros A B R l1 l2 i a f H. revert i. induction H; intros i Ha Hf; destruct i; simpl in *; try discriminate.
  - inversion Ha; subst. constructor; auto.
  - constructor; auto.
Qed.

Section Loop.
  Variables (F : nat) (guard : bool) (tbl : list rx) (s : source) (cs : list cond).
  Hypothesis Hall : forall c, In c cs -> tbl_ok F guard tbl c.

  Definition GI (ps : list progress) : Prop := Forall2 (fun c p => Inv F tbl s c p) cs ps.
  Definition vis := visit F guard tbl s cs.

  Lemma ok_of_nth : forall ci c, nth_error cs ci = Some c -> tbl_ok F guard tbl c.
  Proof. intros ci c H. apply Hall. eapply nth_error_In; eauto. Qed.

  Lemma visit_eq : forall ps ag ci k c p, nth_error cs ci = Some c -> nth_error ps ci = Some p ->
    vis (ps, ag) (ci, k) = (update ci (fun _ => attempt F guard tbl s c k p) ps,
                            ag || advanced_incomplete c p (attempt F guard tbl s c k p)).
  Proof. intros. unfold vis, visit. simpl. rewrite H, H0. reflexivity. Qed.

  Lemma visit_GI : forall ps ag o, GI ps -> GI (fst (vis (ps, ag) o)).
  Proof.
    intros ps ag [ci k] H. unfold vis, visit. simpl.
    destruct (nth_error cs ci) as [c|] eqn:Ec; auto.
    destruct (nth_error ps ci) as [p|] eqn:Ep; auto. simpl.
    eapply Forall2_update; eauto. intros b Hb. rewrite Ep in Hb. inversion Hb; subst b.
    apply inv_attempt; [eapply ok_of_nth; eauto | exact (Forall2_nth _ _ _ _ _ _ _ _ H Ec Ep)].
  Qed.

  Lemma fold_GI : forall os ps ag, GI ps -> GI (fst (fold_left vis os (ps, ag))).
  Proof.
    induction os as [|o os IH]; intros ps ag H; simpl; auto.
    destruct (vis (ps, ag) o) as [ps1 ag1] eqn:E. apply IH.
    replace ps1 with (fst (vis (ps, ag) o)) by (rewrite E; reflexivity). apply visit_GI. exact H.
  Qed.

  Lemma visit_flag_mono : forall ps o, snd (vis (ps, true) o) = true.
  Proof.
    intros ps [ci k]. unfold vis, visit. simpl.
    destruct (nth_error cs ci); auto. destruct (nth_error ps ci); auto.
  Qed.

  Lemma fold_flag_true : forall os ps, snd (fold_left vis os (ps, true)) = true.
  Proof.
    induction os as [|o os IH]; intros ps; simpl; auto.
    destruct (vis (ps, true) o) as [ps1 ag1] eqn:E.
    assert (ag1 = true) by (replace ag1 with (snd (vis (ps, true) o)) by (rewrite E; reflexivity); apply visit_flag_mono).
    subst. apply IH.
  Qed.

  (* a pass that does not ask for another one *)
  Lemma quiet_fold : forall os ps ps', GI ps -> fold_left vis os (ps, false) = (ps', false) ->
    forall ci c p p', nth_error cs ci = Some c -> nth_error ps ci = Some p -> nth_error ps' ci = Some p' ->
      (p_n p' = p_n p \/ p_n p' = length (c_elems c)) /\
      (Stuck F guard tbl s c p -> Stuck F guard tbl s c p' /\ p_n p' = p_n p) /\
      (forall k, In (ci, k) os -> p_n p' = k -> k < length (c_elems c) -> Stuck F guard tbl s c p').
  Proof.
    induction os as [|[ci0 k0] os IH]; intros ps ps' HG H ci c p p' Ec Ep Ep'.
    - simpl in H. inversion H; subst. rewrite Ep in Ep'. inversion Ep'; subst.
      split; [left; reflexivity | split; [intros Hs; split; [exact Hs | reflexivity] | intros k []]].
    - simpl in H. destruct (vis (ps, false) (ci0, k0)) as [ps1 ag1] eqn:Ev.
      assert (ag1 = false).
      { destruct ag1; auto. pose proof (fold_flag_true os ps1) as T. rewrite H in T. discriminate. }
      subst ag1.
      assert (HG1 : GI ps1) by (replace ps1 with (fst (vis (ps, false) (ci0, k0))) by (rewrite Ev; reflexivity); apply visit_GI; auto).
      destruct (nth_error cs ci0) as [c0|] eqn:Ec0.
      2:{ unfold vis, visit in Ev. simpl in Ev. rewrite Ec0 in Ev. inversion Ev; subst ps1.
          destruct (IH _ _ HG H ci c p p' Ec Ep Ep') as [A [B C]].
          split; [exact A | split; [exact B | intros k [E|E]; [inversion E; subst; congruence | eauto]]]. }
      destruct (nth_error ps ci0) as [p0|] eqn:Ep0.
      2:{ unfold vis, visit in Ev. simpl in Ev. rewrite Ec0, Ep0 in Ev. inversion Ev; subst ps1.
          destruct (IH _ _ HG H ci c p p' Ec Ep Ep') as [A [B C]].
          split; [exact A | split; [exact B | intros k [E|E]; [inversion E; subst; congruence | eauto]]]. }
      rewrite (visit_eq _ _ _ _ _ _ Ec0 Ep0) in Ev. inversion Ev as [[E1 E2]]. clear Ev.
      simpl in E2.
      destruct (Nat.eq_dec ci ci0) as [Eci | Eci].
      + subst ci0. rewrite Ec in Ec0. inversion Ec0; subst c0. rewrite Ep in Ep0. inversion Ep0; subst p0. clear Ec0 Ep0.
        set (p1 := attempt F guard tbl s c k0 p) in *.
        assert (Ep1 : nth_error ps1 ci = Some p1).
        { rewrite <- E1. rewrite nth_error_update_same, Ep. reflexivity. }
        pose proof (ok_of_nth _ _ Ec) as Hok.
        assert (Hinv : Inv F tbl s c p) by (exact (Forall2_nth _ _ _ _ _ _ _ _ HG Ec Ep)).
        destruct (inv_attempt F guard tbl s c Hok k0 p Hinv) as [Hinv1 Hstep]. fold p1 in Hinv1, Hstep.
        destruct (IH _ _ HG1 H ci c p1 p' Ec Ep1 Ep') as [A [B C]].
        unfold advanced_incomplete in E2. fold p1 in E2.
        split; [|split].
        * destruct Hstep as [S0 | [Sk S1]]; [rewrite <- S0; exact A|].
          assert (Hc : p_n p1 = length (c_elems c)).
          { destruct (Nat.eqb_spec (p_n p1) (p_n p)); [lia|]. simpl in E2.
            destruct (Nat.eqb_spec (p_n p1) (length (c_elems c))); [auto | discriminate]. }
          right. destruct A as [A|A]; lia.
        * intros Hs. destruct (stuck_attempt F guard tbl s c Hok k0 p Hs) as [S1 S2]. fold p1 in S1, S2.
          destruct (B S1) as [B1 B2]. split; auto. lia.
        * intros k [E|E] Hk Hlt; [|eauto].
          inversion E; subst k0. clear E.
          assert (P1 : p_n p1 = k) by (destruct A as [A|A]; lia).
          assert (Kp : p_n p = k) by (destruct Hstep as [S0 | [Sk S1]]; lia).
          assert (Hs : Stuck F guard tbl s c p).
          { split; auto. unfold adv. rewrite Kp. fold p1. lia. }
          destruct (stuck_attempt F guard tbl s c Hok k p Hs) as [S1 _]. fold p1 in S1.
          apply B. exact S1.
      + assert (Ep1 : nth_error ps1 ci = Some p).
        { rewrite <- E1. rewrite nth_error_update_other by auto. exact Ep. }
        destruct (IH _ _ HG1 H ci c p p' Ec Ep1 Ep') as [A [B C]].
        split; [exact A | split; [exact B | intros k [E|E]; [inversion E; subst; congruence | eauto]]].
  Qed.
End Loop.

(* ------------------------------------------------------------------ every (condition, element) pair is visited in a pass *)
Definition all_occs (gs : list (nat * list occ)) : list occ := concat (map (fun g : nat * list occ => snd g) gs).

Lemma in_all_occs : forall o gs, In o (all_occs gs) <-> exists g, In g gs /\ In o (snd g).
Proof.
  intros o gs. unfold all_occs. rewrite in_concat. split.
  - intros [l [Hl Ho]]. apply in_map_iff in Hl. destruct Hl as [g [E Hg]]. subst. eauto.
  - intros [g [Hg Ho]]. exists (snd g). split; auto. apply in_map_iff. eauto.
Qed.

Lemma group_add_in : forall x gs o, In o (all_occs (group_add x gs)) <-> o = snd x \/ In o (all_occs gs).
Proof.
  intros x gs o. induction gs as [|[k l] gs IH]; simpl.
  - unfold all_occs. simpl. split; intros [H|H]; auto.
  - destruct (Nat.eqb k (fst x)).
    + unfold all_occs in *. simpl. rewrite !in_app_iff. simpl. intuition (subst; auto).
    + unfold all_occs in *. simpl. rewrite !in_app_iff. rewrite IH. intuition (subst; auto).
Qed.

Lemma fold_group_add_in : forall xs gs o,
  In o (all_occs (fold_left (fun gs x => group_add x gs) xs gs)) <-> In o (map snd xs) \/ In o (all_occs gs).
Proof.
  induction xs as [|x xs IH]; intros gs o; simpl.
  - tauto.
  - rewrite IH, group_add_in. split; intros [H|H]; auto; destruct H; auto.
Qed.

Lemma insert_occ_in : forall x l o, In o (insert_occ x l) <-> o = x \/ In o l.
Proof.
  induction l as [|y l IH]; intros o; simpl.
  - split; intros [H|H]; auto.
  - destruct (occ_lt x y); simpl.
    + split; intros [H|H]; auto.
    + rewrite IH. split; intros [H|H]; auto; destruct H; auto.
Qed.

Lemma sort_occ_in : forall l o, In o (sort_occ l) <-> In o l.
Proof.
  induction l as [|x l IH]; intros o; simpl; [tauto|].
  unfold sort_occ in *. simpl. rewrite insert_occ_in, IH. split; intros [H|H]; auto.
Qed.

Lemma insert_group_in : forall g l o, In o (all_occs (insert_group g l)) <-> In o (snd g) \/ In o (all_occs l).
Proof.
  induction l as [|h l IH]; intros o; simpl.
  - unfold all_occs. simpl. rewrite app_nil_r. tauto. 
  - destruct (occ_lt (head_occ g) (head_occ h)).
    + unfold all_occs. simpl. rewrite !in_app_iff. tauto.
    + unfold all_occs in *. simpl. rewrite !in_app_iff, IH. tauto.
Qed.

Lemma fold_insert_group_in : forall gs o, In o (all_occs (fold_right insert_group [] gs)) <-> In o (all_occs gs).
Proof.
  induction gs as [|g gs IH]; intros o; simpl; [tauto|].
  rewrite insert_group_in, IH. unfold all_occs. simpl. rewrite in_app_iff. tauto.
Qed.

Lemma map_sort_in : forall gs o,
  In o (all_occs (map (fun g : nat * list occ => (fst g, sort_occ (snd g))) gs)) <-> In o (all_occs gs).
Proof.
  induction gs as [|g gs IH]; intros o; simpl; [tauto|].
  unfold all_occs in *. simpl. rewrite !in_app_iff, sort_occ_in, IH. tauto.
Qed.

Lemma elems_occ_in : forall ci es k0 k e, nth_error es k = Some e -> In (e_rx e, (ci, k0 + k)) (elems_occ ci k0 es).
Proof.
  induction es as [|x es IH]; intros k0 k e H; destruct k; simpl in *; try discriminate.
  - inversion H; subst. left. f_equal. f_equal. lia.
  - right. replace (k0 + S k) with (S k0 + k) by lia. apply IH. exact H.
Qed.

Lemma conds_occ_in : forall cs ci0 ci c k e, nth_error cs ci = Some c -> nth_error (c_elems c) k = Some e ->
  In (e_rx e, (ci0 + ci, k)) (conds_occ ci0 cs).
Proof.
  induction cs as [|x cs IH]; intros ci0 ci c k e Hc He; destruct ci; simpl in *; try discriminate.
  - inversion Hc; subst. apply in_or_app. left. rewrite Nat.add_0_r.
    pose proof (elems_occ_in ci0 _ 0 _ _ He) as K. simpl in K. exact K.
  - apply in_or_app. right. replace (ci0 + S ci) with (S ci0 + ci) by lia. eapply IH; eauto.
Qed.

Lemma visit_order_complete : forall cs ci c k, nth_error cs ci = Some c -> k < length (c_elems c) ->
  In (ci, k) (visit_order cs).
Proof.
  intros cs ci c k Hc Hk. destruct (nth_error (c_elems c) k) as [e|] eqn:He; [|apply nth_error_None in He; lia].
  unfold visit_order.
  change (In (ci, k) (all_occs (fold_right insert_group []
            (map (fun g : nat * list occ => (fst g, sort_occ (snd g)))
                 (fold_left (fun gs x => group_add x gs) (conds_occ 0 cs) []))))).
  rewrite fold_insert_group_in, map_sort_in, fold_group_add_in. left.
  apply in_map_iff. exists (e_rx e, (ci, k)). split; auto.
  pose proof (conds_occ_in cs 0 ci c k e Hc He) as K. simpl in K. exact K.
Qed.

(* ------------------------------------------------------------------ the loop ends with every sequence where the plain scan puts it *)
Definition sumlen (cs : list cond) : nat := fold_right (fun c a => length (c_elems c) + a) 0 cs.
Definition total_n (ps : list progress) : nat := fold_right (fun p a => p_n p + a) 0 ps.

Lemma total_n_update : forall ps i p p', nth_error ps i = Some p ->
  total_n (update i (fun _ => p') ps) + p_n p = total_n ps + p_n p'.
Proof.
  induction ps as [|q ps IH]; intros i p p' H; destruct i; simpl in *; try discriminate.
  - inversion H; subst. lia.
  - specialize (IH _ _ p' H). lia.
Qed.

Lemma Forall2_map_progress0 : forall F tbl s cs, Forall2 (fun c p => Inv F tbl s c p) cs (map (fun _ => progress0) cs).
Proof. intros. induction cs; simpl; constructor; auto. apply Inv0. Qed.

Lemma total_bound : forall cs ps, Forall2 (fun c p => p_n p <= length (c_elems c)) cs ps -> total_n ps <= sumlen cs.
Proof. intros cs ps H. induction H; simpl; auto. unfold total_n, sumlen in *. simpl. lia. Qed.

Lemma Forall2_weaken : forall A B (R1 R2 : A -> B -> Prop) l1 l2, (forall a b, R1 a b -> R2 a b) -> Forall2 R1 l1 l2 -> Forall2 R2 l1 l2.
Proof. intros A B R1 R2 l1 l2 H F. induction F; constructor; auto. Qed.

Section Loop2.
  Variables (F : nat) (guard : bool) (tbl : list rx) (s : source) (cs : list cond).
  Hypothesis Hall : forall c, In c cs -> tbl_ok F guard tbl c.

  Lemma GI_bound : forall ps, GI F tbl s cs ps -> total_n ps <= sumlen cs.
  Proof.
    intros ps H. apply total_bound. eapply Forall2_weaken; [|exact H]. intros a b [Hn _]. exact Hn.
  Qed.

  Lemma visit_total : forall ps ag o, GI F tbl s cs ps ->
    total_n ps <= total_n (fst (vis F guard tbl s cs (ps, ag) o)) /\
    (ag = false -> snd (vis F guard tbl s cs (ps, ag) o) = true -> total_n ps < total_n (fst (vis F guard tbl s cs (ps, ag) o))).
  Proof.
    intros ps ag [ci k] HG. unfold vis, visit. simpl.
    destruct (nth_error cs ci) as [c|] eqn:Ec; [|simpl; split; [lia | intros; subst; discriminate]].
    destruct (nth_error ps ci) as [p|] eqn:Ep; [|simpl; split; [lia | intros; subst; discriminate]].
    simpl.
    pose proof (total_n_update ps ci p (attempt F guard tbl s c k p) Ep) as T.
    assert (Hinv : Inv F tbl s c p) by (exact (Forall2_nth _ _ _ _ _ _ _ _ HG Ec Ep)).
    destruct (inv_attempt F guard tbl s c (ok_of_nth F guard tbl cs Hall _ _ Ec) k p Hinv) as [_ Hstep].
    split.
    - destruct Hstep as [E | [_ E]]; lia.
    - intros Ea Hf. subst ag. simpl in Hf. unfold advanced_incomplete in Hf.
      destruct (Nat.eqb_spec (p_n (attempt F guard tbl s c k p)) (p_n p)); [discriminate|].
      destruct Hstep as [E | [_ E]]; lia.
  Qed.

  Lemma fold_total : forall os ps ag, GI F tbl s cs ps ->
    total_n ps <= total_n (fst (fold_left (vis F guard tbl s cs) os (ps, ag))) /\
    (ag = false -> snd (fold_left (vis F guard tbl s cs) os (ps, ag)) = true ->
     total_n ps < total_n (fst (fold_left (vis F guard tbl s cs) os (ps, ag)))).
  Proof.
    induction os as [|o os IH]; intros ps ag HG; simpl.
    - split; [lia | intros; subst; discriminate].
    - destruct (vis F guard tbl s cs (ps, ag) o) as [ps1 ag1] eqn:E.
      pose proof (visit_total ps ag o HG) as [V1 V2]. rewrite E in V1, V2. simpl in V1, V2.
      assert (HG1 : GI F tbl s cs ps1).
      { replace ps1 with (fst (vis F guard tbl s cs (ps, ag) o)) by (rewrite E; reflexivity). apply visit_GI; auto. }
      destruct (IH ps1 ag1 HG1) as [I1 I2]. split; [lia|].
      intros Ea Hf. destruct ag1.
      + specialize (V2 Ea eq_refl). lia.
      + specialize (I2 eq_refl Hf). lia.
  Qed.

  Lemma loop_spec : forall fuel ps, GI F tbl s cs ps -> sumlen cs - total_n ps < fuel ->
    GI F tbl s cs (group_loop F guard tbl s cs (visit_order cs) fuel ps) /\
    forall ci c p', nth_error cs ci = Some c ->
      nth_error (group_loop F guard tbl s cs (visit_order cs) fuel ps) ci = Some p' ->
      p_n p' = total F tbl s c.
  Proof.
    induction fuel as [|f IH]; intros ps HG Hf; [lia|].
    simpl. unfold pass. fold (vis F guard tbl s cs).
    destruct (fold_left (vis F guard tbl s cs) (visit_order cs) (ps, false)) as [ps1 again] eqn:E.
    assert (HG1 : GI F tbl s cs ps1).
    { replace ps1 with (fst (fold_left (vis F guard tbl s cs) (visit_order cs) (ps, false))) by (rewrite E; reflexivity).
      apply fold_GI; auto. }
    destruct again.
    - (* another pass: some sequence advanced *)
      pose proof (fold_total (visit_order cs) ps false HG) as [_ T]. rewrite E in T. simpl in T. specialize (T eq_refl eq_refl).
      pose proof (GI_bound ps1 HG1). apply IH; auto. lia.
    - split; auto. intros ci c p' Ec Ep'.
      destruct (Forall2_nth_ex _ _ _ _ _ _ _ HG Ec) as [p [Ep _]].
      destruct (quiet_fold F guard tbl s cs Hall _ _ _ HG E ci c p p' Ec Ep Ep') as [_ [_ C]].
      pose proof (Forall2_nth _ _ _ _ _ _ _ _ HG1 Ec Ep') as Hinv.
      pose proof (ok_of_nth F guard tbl cs Hall _ _ Ec) as Hok.
      destruct (Nat.lt_ge_cases (p_n p') (length (c_elems c))) as [L | L].
      + apply (stuck_total F guard tbl s c Hok). apply (C (p_n p')); auto.
        apply visit_order_complete with (c := c); auto.
      + apply (stuck_total F guard tbl s c Hok). split; auto.
        destruct Hinv as [Hn _]. unfold adv. rewrite complete_attempt; auto. lia.
  Qed.

  Theorem source_eval_spec : forall ci c, nth_error cs ci = Some c ->
    exists p, nth_error (source_eval F guard tbl cs s) ci = Some p /\
              p_n p = seq_spec F tbl s (c_elems c) 0 0 /\ p_n p <= length (c_elems c).
  Proof.
    intros ci c Ec. unfold source_eval.
    assert (HG0 : GI F tbl s cs (map (fun _ => progress0) cs)).
    { unfold GI. apply Forall2_map_progress0. }
    assert (Hf : sumlen cs - total_n (map (fun _ : cond => progress0) cs) < loop_fuel cs).
    { unfold loop_fuel. fold (sumlen cs). lia. }
    destruct (loop_spec _ _ HG0 Hf) as [HG L].
    destruct (Forall2_nth_ex _ _ _ _ _ _ _ HG Ec) as [p [Ep Hinv]].
    exists p. split; auto. split; [apply (L _ _ _ Ec Ep) | apply Hinv].
  Qed.
End Loop2.

(* ------------------------------------------------------------------ end to end *)
Lemma cond_success_spec : forall F tbl s c p, p_n p = seq_spec F tbl s (c_elems c) 0 0 -> p_n p <= length (c_elems c) ->
  cond_success c p = cond_holds_spec F tbl c s.
Proof.
  intros F tbl s c p E L. unfold cond_success, cond_holds_spec. rewrite <- E.
  set (n := p_n p) in *. set (len := length (c_elems c)) in *.
  destruct (c_inv c).
  - destruct (Nat.eqb_spec (S n) len) as [A|A].
    + replace (len - n) with 1 by lia. reflexivity.
    + destruct (Nat.leb_spec 2 (len - n)); simpl; auto.
      assert (len - n = 0) by lia. rewrite H0. reflexivity.
  - destruct (Nat.eqb_spec n len) as [A|A].
    + replace (len - n) with 0 by lia. reflexivity.
    + destruct (Nat.leb_spec 2 (len - n)); simpl; auto.
      assert (len - n = 1) by lia. rewrite H0. reflexivity.
Qed.

Theorem conj_selected_spec : forall F guard tbl cn cs st,
  (forall c, In c cs -> tbl_ok F guard tbl c) ->
  conj_selected F guard tbl cn cs st = conj_spec F tbl cn cs st.
Proof.
  intros F guard tbl cn cs st Hall. apply conj_accounting. intros s ci c _ Ec.
  destruct (source_eval_spec F guard tbl s cs Hall ci c Ec) as [p [Ep [En Hl]]]. rewrite Ep.
  apply cond_success_spec; auto.
Qed.

Theorem stream_selected_spec : forall F guard tbl cn ors st,
  (forall cs c, In cs ors -> In c cs -> tbl_ok F guard tbl c) ->
  stream_selected F guard tbl cn ors st = stream_spec F tbl cn ors st.
Proof.
  intros F guard tbl cn ors st Hall. unfold stream_selected, stream_spec.
  induction ors as [|cs ors IH]; simpl; auto.
  rewrite conj_selected_spec by (intros c Hc; apply (Hall cs c); simpl; auto).
  f_equal. apply IH. intros cs' c Hcs Hc. apply (Hall cs' c); simpl; auto.
Qed.

(* the hypothesis of the end-to-end statement, from the facts computed by the analyses *)
Theorem find_ok_guarded : forall F r, context_sensitive r = true -> 2 <= r_ncap r -> find_ok F true r.
Proof.
  intros F r Hc Hn. split; auto. intros data off res off' Hoff H. rewrite find_guard_plain in H by assumption.
  inversion H; subst. unfold find_agrees. repeat split; auto.
  destruct (plain F r (skipn off' data)); [|auto]. rewrite Nat.sub_diag, shift_0. auto.
Qed.

Theorem find_ok_shortcuts_partial : forall F guard r,
  assertion_free (r_prog r) = true -> facts_sound r -> 2 <= r_ncap r ->
  (N.eqb (f_min (r_facts r)) (f_max (r_facts r)) && match f_prefix (r_facts r) with [] => true | _ => false end
     && match f_suffix (r_facts r) with [] => false | _ => true end = false) ->
  find_ok F guard r.
Proof.
  intros F guard r Haf Hfs Hn Hw. split; auto. intros data off res off' Hoff H.
  eapply find_shortcut_plain_partial; eauto.
Qed.

Theorem find_ok_shortcuts : forall F guard r,
  assertion_free (r_prog r) = true -> facts_sound r -> 2 <= r_ncap r ->
  (f_min (r_facts r) = f_max (r_facts r) -> (f_max (r_facts r) < MAXU)%N) ->
  find_ok F guard r.
Proof.
  intros F guard r Haf Hfs Hn Hw. split; auto. intros data off res off' Hoff H.
  eapply find_shortcut_plain; eauto.
Qed.

(* an expression as finalize() prepares it (after the fixes): facts from Prog.Prefix, AcceptedLength, ConstantSuffix *)
Definition prepared (r : rx) : Prop :=
  wf (r_prog r) = true /\ 2 <= r_ncap r /\
  (f_min (r_facts r) = f_max (r_facts r) -> (f_max (r_facts r) < MAXU)%N) /\
  (context_sensitive r = true \/
   exists P compl, prog_prefix (r_prog r) = (P, compl) /\ f_prefix (r_facts r) = P /\
     if compl
     then f_suffix (r_facts r) = P /\ f_min (r_facts r) = len P /\ f_max (r_facts r) = len P
     else accepted_length_cached (r_prog r) = Some (f_min (r_facts r), f_max (r_facts r)) /\
          constant_suffix_b (r_prog r) = Some (f_suffix (r_facts r))).

Theorem find_ok_prepared : forall F r, prepared r -> find_ok F true r.
Proof.
  intros F r [Hwf [Hn [Hfin [Hc | [P [compl [Hp [EP Hf]]]]]]]].
  - apply find_ok_guarded; auto.
  - destruct (context_sensitive r) eqn:Ec; [apply find_ok_guarded; auto|].
    apply find_ok_shortcuts; auto.
    + unfold context_sensitive in Ec. apply negb_false_iff in Ec. exact Ec.
    + eapply facts_sound_model; eauto.
Qed.

Theorem filter_is_plain_scan_prepared : forall F tbl cn ors st,
  Forall prepared tbl ->
  (forall cs c e, In cs ors -> In c cs -> In e (c_elems c) -> e_rx e < length tbl) ->
  stream_selected F true tbl cn ors st = stream_spec F tbl cn ors st.
Proof.
  intros F tbl cn ors st Hp Hidx. apply stream_selected_spec. intros cs c Hcs Hc e He.
  specialize (Hidx cs c e Hcs Hc He). destruct (nth_error tbl (e_rx e)) as [r|] eqn:Er.
  - exists r. split; auto. apply find_ok_prepared. rewrite Forall_forall in Hp. apply Hp. eapply nth_error_In; eauto.
  - apply nth_error_None in Er. lia.
Qed.
