(* Model of builder.FromPcap (internal/index/builder/builder.go) around the reassemblers:
   choice of the snapshot, needed captures and packets, the packet loop with snapshot creation,
   id reuse through StreamByFirstPacketSource, added/updated/reset classification, nextStreamID,
   and of the reader stack as manager.importPcapJob maintains it -- C05/C08.
   Definitions only; theorems in ImportProofs.v.

   Not modelled: error paths (unreadable capture), the 10 000 000 packet cut of one call, splitting of
   the output over several index writers, IPv4 defragmentation, non TCP/UDP packets (skipped by the
   code), the index file format (C01). *)
From Pk Require Export Tcp.
From Coq Require Import Sorting.Mergesort Orders.

Module NOrder <: TotalLeBool.
  Definition t := N.
  Definition leb := N.leb.
  Theorem leb_total : forall a1 a2, leb a1 a2 = true \/ leb a2 a1 = true.
  Proof. intros a b. unfold leb. destruct (N.leb_spec a b); [left; reflexivity|right]. apply N.leb_le. apply N.lt_le_incl. assumption. Qed.
End NOrder.
Module NSort := Sort NOrder.

(* packets[i] for every referenced index i.  The code indexes the slice for each entry of the snapshot's list;
   the model selects the same packets in one pass over the file (indexes sorted first) so that captures with
   > 100 000 referenced packets stay linear.  The order of the result is irrelevant: it is sorted right after. *)
Fixpoint drop_below (i : N) (idxs : list N) : list N :=
  match idxs with
  | [] => []
  | x :: r => if x <? i then drop_below i r else idxs
  end.

Fixpoint select_sorted (pk : list packet) (idxs : list N) : list packet :=
  match pk with
  | [] => []
  | p :: r =>
      match drop_below (p_idx p) idxs with
      | [] => []
      | i :: is => if i =? p_idx p then p :: select_sorted r is else select_sorted r (i :: is)
      end
  end.

Definition select_indexes (packets : list packet) (idxs : list N) : list packet :=
  select_sorted packets (NSort.sort idxs).

Record pcapinfo := mkPcap { pi_file : N; pi_min : N; pi_max : N }.
Record snapshot := mkSnap { sn_ts : N; sn_refs : list (N * N) }.          (* referencedPackets: (file, index) *)
Record builder := mkBuilder { b_known : list pcapinfo; b_snaps : list snapshot }.

Definition index := list (N * stream).                                      (* one index file: (stream id, stream) *)
Definition store := list (N * list packet).                                 (* capture directory: file -> packets *)

Fixpoint store_get (st : store) (f : N) : list packet :=
  match st with [] => [] | (k, l) :: r => if k =? f then l else store_get r f end.

Definition info_of (f : N) (l : list packet) : pcapinfo :=
  mkPcap f (fold_left (fun m p => N.min m (p_ts p)) l (match l with p :: _ => p_ts p | [] => 0 end))
           (fold_left (fun m p => N.max m (p_ts p)) l 0).

(* ---- the reassemblers together ---- *)
Record asm := mkAsm { a_fac : factory; a_udp : ubuckets; a_tcp : list tconn }.
Definition asm0 : asm := mkAsm [] [] [].

Section Import.
  Variable hashf : N -> N.
  Variable thr : N.                       (* the literal 100_000 *)
  Variable final_flush : bool.            (* true = the tree contains fixes/C08-flush-queued-at-end.patch (FlushAll after the loop) *)

  Definition asm_step (a : asm) (p : packet) : asm :=
    if p_tcp p then let '(f, t) := tcp_step (a_fac a, a_tcp a) p in mkAsm f (a_udp a) t
    else let '(f, u) := udp_step hashf (a_fac a, a_udp a) p in mkAsm f u (a_tcp a).

  (* udpAssembler.FlushCloseOlderThan(tsTimeouted); for all tcp assemblers the same *)
  Definition asm_flush (a : asm) (ts : N) : asm :=
    let '(f1, u) := udp_flush (a_fac a) (a_udp a) ts in
    let '(f2, t) := tcp_flush f1 (a_tcp a) ts in
    mkAsm f2 u t.

  (* referencedPackets of a new snapshot (after ca95540: every stream whose last packet is not older
     than the timeout, complete or not) *)
  Definition stream_refs (ts : N) (s : stream) : list (N * N) :=
    match s_pkts s with
    | [] => []
    | (r, _) :: _ =>
        if expired ts (pref_ts r) then []
        else map (fun x => (fst (fst (fst x)), snd (fst (fst x)))) (stream_packets s)
    end.

  Definition referenced (a : asm) (ts : N) : list (N * N) := flat_map (stream_refs ts) (a_fac a).

  Record loopst := mkLoop { l_asm : asm; l_nafter : N; l_prev : option N; l_snaps : list snapshot }.

  Definition opt_is (o : option N) (x : N) : bool := match o with Some y => y =? x | None => false end.
  Definition not_after (best : option N) (ts : N) : bool := match best with None => true | Some b => b <=? ts end.

  Definition loop_step (best : option N) (st : loopst) (p : packet) : loopst :=
    let ts := p_ts p in
    let st1 :=
        if (thr <=? l_nafter st) && negb (opt_is (l_prev st) ts) then
          let a' := asm_flush (l_asm st) ts in
          mkLoop a' 0 (l_prev st) (l_snaps st ++ [mkSnap ts (referenced a' ts)])
        else st in
    let st2 :=
        if negb (l_nafter st1 =? 0) || not_after best ts then mkLoop (l_asm st1) (l_nafter st1 + 1) (Some ts) (l_snaps st1)
        else st1 in
    mkLoop (asm_step (l_asm st2) p) (l_nafter st2) (l_prev st2) (l_snaps st2).

  (* ---- choice of the snapshot and of what has to be replayed ---- *)
  Fixpoint best_snapshot (snaps : list snapshot) (oldest : N) (best : option snapshot) : option snapshot :=
    match snaps with
    | [] => best
    | ss :: r =>
        let skip_older := match best with Some b => sn_ts ss <? sn_ts b | None => false end in
        if skip_older then best_snapshot r oldest best
        else if oldest <? sn_ts ss then best_snapshot r oldest best
        else best_snapshot r oldest (Some ss)
    end.

  Definition refs_for (best : option snapshot) (f : N) : list N :=
    match best with
    | None => []
    | Some b => map snd (filter (fun x => fst x =? f) (sn_refs b))
    end.

  Definition snap_after (best : option snapshot) (t : N) : bool :=            (* bestSnapshot.timestamp.After(t) *)
    match best with None => false | Some b => t <? sn_ts b end.

  Definition is_needed (best : option snapshot) (pi : pcapinfo) : bool :=
    negb (snap_after best (pi_max pi)) || negb (match refs_for best (pi_file pi) with [] => true | _ => false end).

  Fixpoint insert_by_min (pi : pcapinfo) (l : list pcapinfo) : list pcapinfo :=
    match l with
    | [] => [pi]
    | x :: r => if pi_min pi <? pi_min x then pi :: l else x :: insert_by_min pi r
    end.

  Definition sort_by_min (l : list pcapinfo) : list pcapinfo := fold_right insert_by_min [] l.

  Definition needed_packets (best : option snapshot) (pi : pcapinfo) (packets : list packet) : list packet :=
    if snap_after best (pi_min pi) then
      select_indexes packets (refs_for best (pi_file pi))
      ++ (if negb (snap_after best (pi_max pi)) then filter (fun p => negb (snap_after best (p_ts p))) packets else [])
    else packets.

  Definition mem_file (f : N) (l : list N) : bool := existsb (N.eqb f) l.

  Definition needed_pcaps (b : builder) (best : option snapshot) (newfiles : list N) (st : store) : list pcap_load :=
    map (fun pi => (pi_min pi, needed_packets best pi (store_get st (pi_file pi))))
        (sort_by_min (filter (fun pi => negb (mem_file (pi_file pi) newfiles) && is_needed best pi) (b_known b))).

  (* ---- id reuse and classification ---- *)
  Definition first_source (s : stream) : option (N * N) :=
    match stream_packets s with (r, _) :: _ => Some (fst (fst r), snd (fst r)) | [] => None end.

  Definition src_eqb (a b : N * N) : bool := (fst a =? fst b) && (snd a =? snd b).

  (* Reader.StreamByFirstPacketSource *)
  Fixpoint index_lookup (ix : index) (src : N * N) : option N :=
    match ix with
    | [] => None
    | (id, s) :: r =>
        match first_source s with
        | Some f => if src_eqb f src then Some id else index_lookup r src
        | None => index_lookup r src
        end
    end.

  Fixpoint stack_lookup (stack : list index) (src : N * N) : option N :=
    match stack with
    | [] => None
    | ix :: r => match index_lookup ix src with Some id => Some id | None => stack_lookup r src end
    end.

  Inductive category := CAdded | CUpdated | CReset.

  (* the loop `for pi := range s.Packets` (packets oldest first) *)
  Fixpoint classify (pk : list (pref * bool)) (newfiles : list N) (stack : list index)
           (id : option N) (touched : bool) : option N * bool * category :=
    match pk with
    | [] => (id, touched, CAdded)
    | (r, _) :: rest =>
        let f := fst (fst r) in
        if mem_file f newfiles then
          match id with
          | Some _ => (id, true, CUpdated)
          | None => classify rest newfiles stack id true
          end
        else
          match id with
          | Some _ => classify rest newfiles stack id touched
          | None =>
              let id' := stack_lookup stack (f, snd (fst r)) in
              if touched then (id', touched, CReset) else classify rest newfiles stack id' touched
          end
    end.

  Definition index_max (ix : index) : N := fold_left (fun m e => N.max m (fst e)) ix 0.
  Definition next_stream_id (stack : list index) : N :=
    fold_left (fun nx ix => if nx <=? index_max ix then index_max ix + 1 else nx) stack 0.

  Record result := mkResult { r_index : index; r_new : N; r_upd : list N; r_reset : list N; r_added : list N }.

  Fixpoint dump (fac : factory) (newfiles : list N) (stack : list index) (next : N) (acc : result) : result * N :=
    match fac with
    | [] => (acc, next)
    | s :: rest =>
        let '(oid, touched, cat) := classify (stream_packets s) newfiles stack None false in
        if negb touched then dump rest newfiles stack next acc
        else
          let id := match oid with Some i => i | None => next end in
          let next' := match oid with Some _ => next | None => next + 1 end in
          let acc' := mkResult (r_index acc ++ [(id, s)]) (r_new acc)
                               (match cat with CUpdated => r_upd acc ++ [id] | _ => r_upd acc end)
                               (match cat with CReset => r_reset acc ++ [id] | _ => r_reset acc end)
                               (match cat with CAdded => r_added acc ++ [id] | _ => r_added acc end) in
          dump rest newfiles stack next' acc'
    end.

  (* ---- FromPcap ---- *)
  Definition import (b : builder) (st : store) (newfiles : list N) (stack : list index) : builder * option result :=
    let newinfos := flat_map (fun f => match store_get st f with [] => [] | l => [info_of f l] end) newfiles in
    let newfiles' := map pi_file newinfos in
    let newPackets := flat_map (store_get st) newfiles' in
    match newinfos with
    | [] => (b, None)
    | i0 :: _ =>
        let oldest := fold_left (fun m i => N.min m (pi_min i)) newinfos (pi_min i0) in
        let best := best_snapshot (b_snaps b) oldest None in
        let bts := match best with Some s => Some (sn_ts s) | None => None end in
        let kept := filter (fun s => match bts with Some t => sn_ts s <=? t | None => false end) (b_snaps b) in
        let fed := feed (needed_pcaps b best newfiles' st) newPackets in
        let fin := fold_left (loop_step bts) fed (mkLoop asm0 0 None kept) in
        let nx := next_stream_id stack in
        let fac := if final_flush then tcp_flush_all (a_fac (l_asm fin)) (a_tcp (l_asm fin)) else a_fac (l_asm fin) in
        let '(res, nx') := dump fac newfiles' stack nx (mkResult [] 0 [] [] []) in
        (mkBuilder (b_known b ++ newinfos) (l_snaps fin),
         Some (mkResult (r_index res) (nx' - nx) (r_upd res) (r_reset res) (r_added res)))
    end.

  (* manager.importPcapJob: the created index is appended to the stack *)
  Definition import_and_publish (bs : builder * list index) (st : store) (newfiles : list N) : builder * list index :=
    let '(b', r) := import (fst bs) st newfiles (snd bs) in
    (b', match r with Some res => match r_index res with [] => snd bs | ix => snd bs ++ [ix] end | None => snd bs end).

  (* what a view shows: newest version of every id *)
  Fixpoint index_get (ix : index) (id : N) : option stream :=
    match ix with [] => None | (i, s) :: r => if i =? id then Some s else index_get r id end.

  Fixpoint visible_from (rstack : list index) (seen : list N) : list (N * stream) :=
    match rstack with
    | [] => []
    | ix :: r =>
        let fresh := filter (fun e => negb (mem_file (fst e) seen)) ix in
        fresh ++ visible_from r (map fst fresh ++ seen)
    end.

  Definition visible (stack : list index) : list (N * stream) := visible_from (rev stack) [].
End Import.
