(* C01: the invariant of the writer over any sequence of AddStream calls ([winv]) and what
   NewReader/StreamByID make of the finalized writer (theorem 1, metadata and id lookups). *)
From Coq Require Import Lia ZifyBool ZifyN ZifyNat Arith.
From Pk Require Import IndexFormat IndexFormatCodec IndexFormatHosts.
Open Scope N_scope.

(* ------------------------------------------------------------------ *)
(* import table: append only, indices stable                           *)
(* ------------------------------------------------------------------ *)
Definition has_import (imps : list (bytes * N)) (src : bytes * N) : Prop :=
  find_import (fst src) (idx_off (snd src)) imps 0 <> None.

Lemma find_import_app n o a b : forall i k, find_import n o a i = Some k -> find_import n o (a ++ b) i = Some k.
Proof.
  induction a as [|[n' o'] r IH]; intros i k H; cbn [find_import app] in *; [discriminate|].
  destruct (bytes_eqb n' n && (o' =? o)); [assumption|]. now apply IH.
Qed.
Lemma find_import_last n o a : forall i, find_import n o a i = None -> find_import n o (a ++ [(n, o)]) i <> None.
Proof.
  induction a as [|[n' o'] r IH]; intros i H; cbn [find_import app] in *.
  - rewrite bytes_eqb_refl, N.eqb_refl. discriminate.
  - destruct (bytes_eqb n' n && (o' =? o)); [discriminate|]. now apply IH.
Qed.

Lemma add_import_ext imps src : exists ext, add_import imps src = imps ++ ext.
Proof.
  unfold add_import. destruct (find_import _ _ imps 0); [exists []; now rewrite app_nil_r|eexists; reflexivity].
Qed.
Lemma has_import_app imps ext src : has_import imps src -> has_import (imps ++ ext) src.
Proof.
  unfold has_import. intros H. destruct (find_import (fst src) (idx_off (snd src)) imps 0) as [k|] eqn:E; [|contradiction].
  now rewrite (find_import_app _ _ _ ext _ _ E).
Qed.
Lemma add_import_has imps src : has_import (add_import imps src) src.
Proof.
  unfold add_import, has_import. destruct (find_import (fst src) (idx_off (snd src)) imps 0) eqn:E.
  - now rewrite E.
  - now apply find_import_last.
Qed.
Lemma import_id_app imps ext src : has_import imps src -> import_id (imps ++ ext) src = import_id imps src.
Proof.
  unfold has_import, import_id. intros H. destruct (find_import (fst src) (idx_off (snd src)) imps 0) as [k|] eqn:E; [|contradiction].
  now rewrite (find_import_app _ _ _ ext _ _ E).
Qed.

Lemma fold_add_import_ext srcs : forall imps, exists ext, fold_left add_import srcs imps = imps ++ ext.
Proof.
  induction srcs as [|x r IH]; intros imps; cbn [fold_left].
  - exists []. now rewrite app_nil_r.
  - destruct (add_import_ext imps x) as [e1 H1]. destruct (IH (add_import imps x)) as [e2 H2].
    exists (e1 ++ e2). now rewrite H2, H1, app_assoc.
Qed.
Lemma fold_add_import_has srcs : forall imps src, In src srcs \/ has_import imps src -> has_import (fold_left add_import srcs imps) src.
Proof.
  induction srcs as [|x r IH]; intros imps src H; cbn [fold_left].
  - destruct H as [[]|H]; assumption.
  - apply IH. destruct H as [[->|H]|H]; auto.
    + right. apply add_import_has.
    + right. destruct (add_import_ext imps x) as [e ->]. now apply has_import_app.
Qed.

Definition srcs_in (imps : list (bytes * N)) (ps : list ipacket) : Prop :=
  forall p src, In p ps -> In src (p_srcs p) -> has_import imps src.

Lemma packets_imports_ext ps : forall imps, exists ext,
      fold_left (fun im p => fold_left add_import (p_srcs p) im) ps imps = imps ++ ext.
Proof.
  induction ps as [|p r IH]; intros imps; cbn [fold_left].
  - exists []. now rewrite app_nil_r.
  - destruct (fold_add_import_ext (p_srcs p) imps) as [e1 H1]. rewrite H1.
    destruct (IH (imps ++ e1)) as [e2 H2]. exists (e1 ++ e2). now rewrite H2, app_assoc.
Qed.
Lemma packets_imports_has ps : forall imps p src,
    (In p ps /\ In src (p_srcs p)) \/ has_import imps src ->
    has_import (fold_left (fun im p => fold_left add_import (p_srcs p) im) ps imps) src.
Proof.
  induction ps as [|q r IH]; intros imps p src H; cbn [fold_left].
  - destruct H as [[[] _]|H]; assumption.
  - destruct H as [[[->|Hin] Hs]|H].
    + apply (IH _ p). right. apply fold_add_import_has. now left.
    + apply (IH _ p). now left.
    + apply (IH _ p). right. apply fold_add_import_has. now right.
Qed.

Lemma stream_imports_ext imps s : exists ext, stream_imports imps s = imps ++ ext.
Proof. apply packets_imports_ext. Qed.
Lemma stream_imports_has imps s : srcs_in (stream_imports imps s) (s_packets s).
Proof. intros p src Hp Hs. apply (packets_imports_has _ _ p). now left. Qed.
Lemma srcs_in_app imps ext ps : srcs_in imps ps -> srcs_in (imps ++ ext) ps.
Proof. intros H p src Hp Hs. apply has_import_app. eapply H; eauto. Qed.

(* the packet records of a stream do not change when the table grows *)
Lemma packet_records_app imps ext rel dfl ds : forall srcs first,
    (forall src, In src srcs -> has_import imps src) ->
    packet_records (imps ++ ext) rel dfl ds first srcs = packet_records imps rel dfl ds first srcs.
Proof.
  induction srcs as [|x r IH]; intros first H; cbn [packet_records]; [reflexivity|].
  rewrite IH by (intros; apply H; now right).
  rewrite import_id_app by (apply H; now left). reflexivity.
Qed.
Lemma stream_records_app imps ext t0 d : forall ps pi,
    srcs_in imps ps -> stream_records (imps ++ ext) t0 d pi ps = stream_records imps t0 d pi ps.
Proof.
  induction ps as [|p r IH]; intros pi H; cbn [stream_records]; [reflexivity|].
  rewrite IH by (intros q src Hq Hs; apply (H q src); [right; exact Hq|exact Hs]).
  rewrite packet_records_app by (intros src Hs; apply (H p src); [left; reflexivity|exact Hs]). reflexivity.
Qed.
Lemma stream_block_app imps ext s : srcs_in imps (s_packets s) -> stream_block (imps ++ ext) s = stream_block imps s.
Proof. intros H. unfold stream_block. now rewrite stream_records_app. Qed.

(* ------------------------------------------------------------------ *)
(* what the writer knows about a stream it has stored                  *)
(* ------------------------------------------------------------------ *)
Definition addr_ok (s : istream) : Prop :=
  (lenN (s_caddr s) = 4 /\ lenN (s_saddr s) = 4) \/ (lenN (s_caddr s) = 16 /\ lenN (s_saddr s) = 16).
(* the part of wf_input that the metadata theorem needs *)
Definition wf_meta (s : istream) : Prop :=
  addr_ok s /\ first_ts s <= last_ts s /\ last_ts s < P64.

Record stored (gcap : N) (w : writer) (rec : stream_rec) (id : N) (s : istream) : Prop := {
  sd_id : st_id rec = id;
  sd_cport : st_cport rec = s_cport s;
  sd_sport : st_sport rec = s_sport s;
  sd_flags : st_flags rec = proto_flags (s_flags s);
  sd_first : w_ref w * NS + st_first rec = first_ts s;
  sd_last : w_ref w * NS + st_last rec = last_ts s;
  sd_chost : host_at (w_groups w) (st_hg rec) (st_chost rec) = Some (s_caddr s);
  sd_shost : host_at (w_groups w) (st_hg rec) (st_shost rec) = Some (s_saddr s);
  sd_cbytes : st_cbytes rec = lenN (stream_payload s false);
  sd_sbytes : st_sbytes rec = lenN (stream_payload s true);
  sd_packets : exists pre post, w_packets w = pre ++ stream_block (w_imports w) s ++ post /\ st_pktstart rec = u32 (lenN pre);
  sd_data : exists pre post, w_data w = pre ++ stream_bytes s ++ post /\ st_datastart rec = lenN pre;
  sd_srcs : srcs_in (w_imports w) (s_packets s);
  sd_wf : wf_meta s }.

Definition winv (gcap : N) (w : writer) (L : list (N * istream)) : Prop :=
  Forall2 (fun rec ids => stored gcap w rec (fst ids) (snd ids)) (w_streams w) L /\
  Forall (group_ok gcap) (w_groups w) /\ Forall size_ok (w_groups w) /\
  (w_packets w = [] -> L = []).

Lemma winv_new gcap : winv gcap new_writer [].
Proof. repeat split; constructor. Qed.

(* sizes of the groups after the placement loop *)
Lemma hg_add_size gcap g h i a g' : hg_hosts g <> [] -> hg_add gcap g h = Some (i, a, g') -> hg_size g' = hg_size g.
Proof.
  intros Hne H. unfold hg_add in H. destruct (hg_hosts g) eqn:E; [contradiction|].
  destruct (negb (hg_size g =? lenN h)); [discriminate|].
  destruct (find_host h (l :: l0) 0); [now inversion H|].
  destruct (gcap <=? _); [discriminate|]. now inversion H.
Qed.
Lemma hg_add_nonempty gcap g h i a g' : hg_add gcap g h = Some (i, a, g') -> hg_hosts g' <> [].
Proof.
  intros H. unfold hg_add in H. destruct (hg_hosts g) eqn:E.
  - inversion H. discriminate.
  - destruct (negb (hg_size g =? lenN h)); [discriminate|].
    destruct (find_host h (l :: l0) 0); [inversion H; subst; congruence|].
    destruct (gcap <=? _); [discriminate|]. inversion H. cbn [hg_hosts]. intros E'. destruct (l :: l0); discriminate.
Qed.
Lemma place_hosts_sizes gcap c s : (lenN c = 4 \/ lenN c = 16) -> forall gs gid gs' k ci si,
    Forall (group_ok gcap) gs -> Forall size_ok gs -> place_hosts gcap gs gid c s = Some (gs', k, ci, si) -> Forall size_ok gs'.
Proof.
  intros Hc. induction gs as [|g r IH]; intros gid gs' k ci si Hok Hsz H; cbn [place_hosts] in H.
  - unfold hg_add at 1 in H. cbn [hg_hosts] in H.
    destruct (hg_add gcap {| hg_size := lenN c; hg_hosts := [c] |} s) as [[[si' a2] g2]|] eqn:E2; [|discriminate].
    inversion H; subst. constructor; [|constructor]. unfold size_ok.
    assert (Hne : hg_hosts {| hg_size := lenN c; hg_hosts := [c] |} <> []) by (cbn [hg_hosts]; discriminate).
    rewrite (hg_add_size _ _ _ _ _ _ Hne E2). exact Hc.
  - inversion Hok as [|? ? Hg Hr]; subst. inversion Hsz as [|? ? Hs Hsr]; subst.
    assert (Hne : hg_hosts g <> []) by apply Hg.
    destruct (hg_add gcap g c) as [[[ci' a1] g1]|] eqn:E1.
    + destruct (hg_add gcap g1 s) as [[[si' a2] g2]|] eqn:E2.
      * inversion H; subst. constructor; [|assumption]. unfold size_ok in *.
        rewrite (hg_add_size _ _ _ _ _ _ (hg_add_nonempty _ _ _ _ _ _ E1) E2), (hg_add_size _ _ _ _ _ _ Hne E1). exact Hs.
      * destruct (place_hosts gcap r (N.succ gid) c s) as [[[[r' k'] ci''] si'']|] eqn:E; [|discriminate].
        inversion H; subst. constructor; [assumption|]. eapply IH; eauto.
    + destruct (place_hosts gcap r (N.succ gid) c s) as [[[[r' k'] ci''] si'']|] eqn:E; [|discriminate].
      inversion H; subst. constructor; [assumption|]. eapply IH; eauto.
Qed.

(* ------------------------------------------------------------------ *)
(* AddStream                                                           *)
(* ------------------------------------------------------------------ *)
Lemma add_stream_inv gcap w id s w' :
  add_stream gcap w (id, s) = Some w' ->
  s_packets s <> [] /\
  exists groups gid ci si,
    place_hosts gcap (w_groups w) 0 (s_caddr s) (s_saddr s) = Some (groups, gid, ci, si) /\
    stream_block (stream_imports (w_imports w) s) s <> [] /\
    w' = {| w_ref := new_ref w (first_ts s / NS); w_groups := groups; w_imports := stream_imports (w_imports w) s;
            w_packets := w_packets w ++ stream_block (stream_imports (w_imports w) s) s;
            w_streams := rebased_streams w (first_ts s / NS) ++
                         [{| st_id := id; st_first := u64 (first_ts s - new_ref w (first_ts s / NS) * NS);
                             st_last := u64 (last_ts s - new_ref w (first_ts s / NS) * NS);
                             st_datastart := lenN (w_data w); st_cbytes := lenN (stream_payload s false);
                             st_sbytes := lenN (stream_payload s true); st_pktstart := u32 (lenN (w_packets w));
                             st_flags := proto_flags (s_flags s); st_hg := gid; st_chost := ci; st_shost := si;
                             st_cport := s_cport s; st_sport := s_sport s |}];
            w_data := w_data w ++ stream_bytes s |}.
Proof.
  unfold add_stream. intros H.
  destruct (s_packets s) as [|p0 ps] eqn:Ep; [discriminate|].
  split; [discriminate|].
  destruct (place_hosts gcap (w_groups w) 0 (s_caddr s) (s_saddr s)) as [[[[groups gid] ci] si]|] eqn:Eh; [|discriminate].
  exists groups, gid, ci, si. split; [reflexivity|].
  destruct (stream_block (stream_imports (w_imports w) s) s) as [|r0 rs] eqn:Eb; [discriminate|].
  split; [discriminate|]. now inversion H.
Qed.

Lemma new_ref_le w sec0 : new_ref w sec0 <= sec0.
Proof. unfold new_ref. destruct (w_packets w); [lia|]. destruct (N.ltb_spec sec0 (w_ref w)); lia. Qed.

Lemma u64_small x : x < P64 -> u64 x = x.
Proof. intros H. unfold u64. now apply N.mod_small. Qed.

Lemma stored_step gcap w id s w' rec id0 s0 :
  0 < gcap -> Forall (group_ok gcap) (w_groups w) -> w_packets w <> [] ->
  add_stream gcap w (id, s) = Some w' ->
  stored gcap w rec id0 s0 ->
  stored gcap w' (if first_ts s / NS <? w_ref w then rebase ((w_ref w - first_ts s / NS) * NS) rec else rec) id0 s0.
Proof.
  intros Hcap Hok Hne Hadd St.
  destruct (add_stream_inv _ _ _ _ _ Hadd) as (Hps & groups & gid & ci & si & Hpl & Hblk & ->).
  destruct (place_hosts_host_at _ _ _ _ _ _ _ _ Hcap Hok Hpl) as (_ & Hext & _ & _).
  destruct (stream_imports_ext (w_imports w) s) as [ext Hext_i].
  destruct St as [S1 S2 S3 S4 S5 S6 S7 S8 S9 S10 S11 S12 S13 S14].
  assert (Href : new_ref w (first_ts s / NS) = if first_ts s / NS <? w_ref w then first_ts s / NS else w_ref w).
  { unfold new_ref. destruct (w_packets w); [contradiction|reflexivity]. }
  destruct S14 as (Ha & Hfl & Hl64).
  assert (Common : forall ss rec', st_id rec' = st_id rec -> st_cport rec' = st_cport rec -> st_sport rec' = st_sport rec ->
             st_flags rec' = st_flags rec -> st_hg rec' = st_hg rec -> st_chost rec' = st_chost rec -> st_shost rec' = st_shost rec ->
             st_cbytes rec' = st_cbytes rec -> st_sbytes rec' = st_sbytes rec -> st_pktstart rec' = st_pktstart rec ->
             st_datastart rec' = st_datastart rec ->
             new_ref w (first_ts s / NS) * NS + st_first rec' = first_ts s0 ->
             new_ref w (first_ts s / NS) * NS + st_last rec' = last_ts s0 ->
             stored gcap
               {| w_ref := new_ref w (first_ts s / NS); w_groups := groups; w_imports := stream_imports (w_imports w) s;
                  w_packets := w_packets w ++ stream_block (stream_imports (w_imports w) s) s;
                  w_streams := ss; w_data := w_data w ++ stream_bytes s |} rec' id0 s0).
  { intros ss rec' E1 E2 E3 E4 E5 E6 E7 E8 E9 E10 E11 T1 T2.
    constructor; cbn [w_ref w_groups w_imports w_packets w_streams w_data]; try congruence.
    - rewrite E5, E6. eapply host_at_extend; eauto.
    - rewrite E5, E7. eapply host_at_extend; eauto.
    - destruct S11 as (pre & post & Hp & Hs). exists pre, (post ++ stream_block (stream_imports (w_imports w) s) s).
      split; [|congruence].
      replace (stream_block (stream_imports (w_imports w) s) s0) with (stream_block (w_imports w) s0)
        by (rewrite Hext_i; symmetry; now apply stream_block_app).
      rewrite Hp. now rewrite <- !app_assoc.
    - destruct S12 as (pre & post & Hp & Hs). exists pre, (post ++ stream_bytes s). split; [|congruence].
      rewrite Hp. now rewrite <- !app_assoc.
    - rewrite Hext_i. now apply srcs_in_app.
    - repeat split; assumption. }
  destruct (N.ltb_spec (first_ts s / NS) (w_ref w)) as [Hlt|Hge].
  - apply Common; try reflexivity; rewrite Href; destruct (N.ltb_spec (first_ts s / NS) (w_ref w)); try lia; cbn [rebase st_first st_last].
    + rewrite u64_small by lia. lia.
    + rewrite u64_small by lia. lia.
  - apply Common; try reflexivity; rewrite Href; destruct (N.ltb_spec (first_ts s / NS) (w_ref w)); try lia; assumption.
Qed.

Lemma first_ts_div_mul s : first_ts s / NS * NS <= first_ts s.
Proof. rewrite N.mul_comm. apply N.mul_div_le. unfold NS. lia. Qed.

Lemma add_stream_winv gcap w L id s w' :
  0 < gcap -> winv gcap w L -> wf_meta s -> add_stream gcap w (id, s) = Some w' -> winv gcap w' (L ++ [(id, s)]).
Proof.
  intros Hcap (HF & Hok & Hsz & Hempty) Hwf Hadd.
  pose proof Hadd as Hadd0.
  destruct (add_stream_inv _ _ _ _ _ Hadd) as (Hps & groups & gid & ci & si & Hpl & Hblk & Ew).
  destruct (place_hosts_host_at _ _ _ _ _ _ _ _ Hcap Hok Hpl) as (Hok' & Hext & Hc & Hs).
  assert (Hsz' : Forall size_ok groups).
  { assert (Hx : lenN (s_caddr s) = 4 \/ lenN (s_caddr s) = 16) by (destruct Hwf as ([[? ?]|[? ?]] & _); auto).
    exact (place_hosts_sizes gcap (s_caddr s) (s_saddr s) Hx (w_groups w) 0 groups gid ci si Hok Hsz Hpl). }
  assert (Hnew : stored gcap w' (last (w_streams w') {| st_id := 0; st_first := 0; st_last := 0; st_datastart := 0; st_cbytes := 0; st_sbytes := 0; st_pktstart := 0; st_flags := 0; st_hg := 0; st_chost := 0; st_shost := 0; st_cport := 0; st_sport := 0 |}) id s).
  { subst w'. cbn [w_streams]. rewrite last_last.
    pose proof (new_ref_le w (first_ts s / NS)) as Hle. pose proof (first_ts_div_mul s) as Hdm.
    destruct Hwf as (Ha & Hfl & Hl64).
    assert (new_ref w (first_ts s / NS) * NS <= first_ts s) by nia.
    constructor; cbn [w_ref w_groups w_imports w_packets w_streams w_data st_id st_cport st_sport st_flags st_first st_last st_hg st_chost st_shost st_cbytes st_sbytes st_pktstart st_datastart]; try reflexivity; try assumption.
    - rewrite u64_small by lia. lia.
    - rewrite u64_small by lia. lia.
    - exists (w_packets w), []. now rewrite app_nil_r.
    - exists (w_data w), []. now rewrite app_nil_r.
    - apply stream_imports_has.
    - repeat split; assumption. }
  split; [|split; [|split]].
  - (* streams *)
    destruct (w_packets w) as [|p0 pr] eqn:Epk.
    + (* first stream *)
      assert (HL : L = []) by (apply Hempty; reflexivity). rewrite HL in *.
      assert (Hs0 : w_streams w = []) by (inversion HF; reflexivity).
      assert (Es : w_streams w' = [last (w_streams w') {| st_id := 0; st_first := 0; st_last := 0; st_datastart := 0; st_cbytes := 0; st_sbytes := 0; st_pktstart := 0; st_flags := 0; st_hg := 0; st_chost := 0; st_shost := 0; st_cport := 0; st_sport := 0 |}]).
      { rewrite Ew. cbn [w_streams]. rewrite last_last. unfold rebased_streams. rewrite Epk, Hs0. reflexivity. }
      rewrite Es. cbn [app]. constructor; [exact Hnew|constructor].
    + assert (Hne : p0 :: pr <> []) by discriminate. rewrite <- Epk in Hne.
      assert (Es : w_streams w' = map (fun rec => if first_ts s / NS <? w_ref w then rebase ((w_ref w - first_ts s / NS) * NS) rec else rec) (w_streams w)
                                   ++ [last (w_streams w') {| st_id := 0; st_first := 0; st_last := 0; st_datastart := 0; st_cbytes := 0; st_sbytes := 0; st_pktstart := 0; st_flags := 0; st_hg := 0; st_chost := 0; st_shost := 0; st_cport := 0; st_sport := 0 |}]).
      { rewrite Ew. cbn [w_streams]. rewrite last_last. f_equal. unfold rebased_streams. rewrite Epk.
        destruct (first_ts s / NS <? w_ref w); [reflexivity|]. now rewrite map_id. }
      rewrite Es. apply Forall2_app; [|constructor; [exact Hnew|constructor]].
      clear Es Hnew Hempty. induction HF as [|rec [id0 s0] rs L0 Hst HF' IH]; cbn [map]; constructor.
      * cbn [fst snd] in *. eapply stored_step; eauto.
      * apply IH.
  - rewrite Ew. exact Hok'.
  - rewrite Ew. exact Hsz'.
  - rewrite Ew. cbn [w_packets]. intros E. apply app_eq_nil in E. destruct E as [_ E]. contradiction.
Qed.

Lemma add_streams_winv gcap : 0 < gcap -> forall L2 w L1 w',
    winv gcap w L1 -> Forall (fun ids => wf_meta (snd ids)) L2 -> add_streams gcap w L2 = Some w' -> winv gcap w' (L1 ++ L2).
Proof.
  intros Hcap. induction L2 as [|[id s] r IH]; intros w L1 w' Hinv Hwf H; cbn [add_streams] in H.
  - inversion H; subst. now rewrite app_nil_r.
  - destruct (add_stream gcap w (id, s)) as [w1|] eqn:E; [|discriminate].
    inversion Hwf; subst. cbn [snd] in *.
    replace (L1 ++ (id, s) :: r) with ((L1 ++ [(id, s)]) ++ r) by now rewrite <- app_assoc.
    eapply IH; eauto. eapply add_stream_winv; eauto.
Qed.

(* ------------------------------------------------------------------ *)
(* NewReader / StreamByID on the finalized writer                      *)
(* ------------------------------------------------------------------ *)
Definition ids_of (L : list (N * istream)) : list N := map fst L.

Lemma find_app' {A} (f : A -> bool) (a b : list A) : find f (a ++ b) = match find f a with Some x => Some x | None => find f b end.
Proof. induction a as [|x r IH]; cbn [find app]; [reflexivity|]. now destruct (f x). Qed.

Lemma assoc_id_map ss : forall i acc id,
    assoc id (id_map ss i acc) =
    match find (fun p => st_id (fst p) =? id) (rev (enumerate i ss)) with
    | Some p => Some (snd p)
    | None => assoc id acc
    end.
Proof.
  induction ss as [|s r IH]; intros i acc id; cbn [id_map enumerate rev]; [reflexivity|].
  rewrite IH. rewrite find_app'. destruct (find _ (rev (enumerate (N.succ i) r))); [reflexivity|].
  cbn [find assoc fst snd]. now destruct (st_id s =? id).
Qed.

Lemma enumerate_nth {A} (l : list A) : forall i k x, nth_error l k = Some x -> In (x, i + N.of_nat k) (enumerate i l).
Proof.
  induction l as [|y r IH]; intros i [|k] x H; cbn [nth_error enumerate] in *; try discriminate.
  - inversion H; subst. left. f_equal. lia.
  - right. replace (i + N.of_nat (S k)) with (N.succ i + N.of_nat k) by lia. now apply IH.
Qed.
Lemma enumerate_in {A} (l : list A) : forall i x j, In (x, j) (enumerate i l) -> i <= j /\ nth_error l (N.to_nat (j - i)) = Some x.
Proof.
  induction l as [|y r IH]; intros i x j H; cbn [enumerate] in H; [destruct H|].
  destruct H as [H|H].
  - inversion H; subst. split; [lia|]. now rewrite N.sub_diag.
  - apply IH in H. destruct H as [H1 H2]. split; [lia|].
    replace (N.to_nat (j - i)) with (S (N.to_nat (j - N.succ i))) by lia. exact H2.
Qed.

(* distinct ids: the map finds exactly the position of the stream *)
Lemma assoc_id_map_distinct ss k s :
  NoDup (map st_id ss) -> nth_error ss k = Some s -> assoc (st_id s) (id_map ss 0 []) = Some (N.of_nat k).
Proof.
  intros Hnd Hk. rewrite assoc_id_map.
  destruct (find (fun p => st_id (fst p) =? st_id s) (rev (enumerate 0 ss))) as [[s' j]|] eqn:Ef.
  - apply find_some in Ef. destruct Ef as [Hin Heq]. cbn [fst snd] in *. apply N.eqb_eq in Heq.
    apply in_rev in Hin. apply enumerate_in in Hin. destruct Hin as [_ Hj]. rewrite N.sub_0_r in Hj.
    f_equal.
    assert (N.to_nat j = k).
    { eapply (NoDup_nth_error (map st_id ss)); eauto.
      - rewrite map_length. apply nth_error_Some. congruence.
      - rewrite !nth_error_map, Hj, Hk. cbn [option_map]. congruence. }
    lia.
  - exfalso. assert (Hin : In (s, N.of_nat k) (rev (enumerate 0 ss))).
    { apply -> in_rev. apply (enumerate_nth ss 0 k s Hk). }
    pose proof (find_none _ _ Ef _ Hin) as Hf. cbn [fst] in Hf. rewrite N.eqb_refl in Hf. discriminate.
Qed.
Lemma assoc_id_map_none ss id : ~ In id (map st_id ss) -> assoc id (id_map ss 0 []) = None.
Proof.
  intros Hn. rewrite assoc_id_map.
  destruct (find (fun p => st_id (fst p) =? id) (rev (enumerate 0 ss))) as [[s' j]|] eqn:Ef; [|reflexivity].
  exfalso. apply find_some in Ef. destruct Ef as [Hin Heq]. cbn [fst] in Heq. apply N.eqb_eq in Heq.
  apply in_rev in Hin. apply enumerate_in in Hin. destruct Hin as [_ Hj].
  apply Hn. rewrite <- Heq. apply in_map. eapply nth_error_In; eauto.
Qed.

Lemma fold_min_le l : forall a x, In x l \/ x = a -> fold_left N.min l a <= x.
Proof.
  induction l as [|y r IH]; intros a x H; cbn [fold_left].
  - destruct H as [[] | ->]. lia.
  - destruct H as [[-> | H] | ->].
    + etransitivity; [apply IH; right; reflexivity|]. lia.
    + apply IH. now left.
    + etransitivity; [apply IH; right; reflexivity|]. lia.
Qed.
Lemma fold_max_ge l : forall a x, In x l \/ x = a -> x <= fold_left N.max l a.
Proof.
  induction l as [|y r IH]; intros a x H; cbn [fold_left].
  - destruct H as [[] | ->]. lia.
  - destruct H as [[-> | H] | ->].
    + etransitivity; [|apply IH; right; reflexivity]. lia.
    + apply IH. now left.
    + etransitivity; [|apply IH; right; reflexivity]. lia.
Qed.

(* what the property says about the metadata of a read-back stream *)
Definition meta_matches (r : reader) (rec : stream_rec) (id : N) (s : istream) : Prop :=
  st_id rec = id /\
  client_host r rec = s_caddr s /\ server_host r rec = s_saddr s /\
  st_cport rec = s_cport s /\ st_sport rec = s_sport s /\
  st_flags rec mod 4 = proto_flags (s_flags s) /\
  first_packet_time r rec = first_ts s /\ last_packet_time r rec = last_ts s /\
  st_cbytes rec = lenN (stream_payload s false) /\ st_sbytes rec = lenN (stream_payload s true).

Lemma proto_flags_small f : proto_flags f mod 4 = proto_flags f.
Proof. unfold proto_flags. now destruct ((f / 2) mod 2 =? 0). Qed.

Lemma stored_ids gcap w ss L : Forall2 (fun rec ids => stored gcap w rec (fst ids) (snd ids)) ss L -> map st_id ss = map fst L.
Proof. induction 1 as [|rec [id s] rs L0 Hst HF IH]; [reflexivity|]. cbn [map fst]. f_equal; [apply Hst|apply IH]. Qed.
Lemma Forall2_nth_r {A B} (R : A -> B -> Prop) l1 l2 : Forall2 R l1 l2 -> forall k y, nth_error l2 k = Some y ->
  exists x, nth_error l1 k = Some x /\ R x y.
Proof.
  induction 1 as [|x y l1 l2 HR HF IH]; intros [|k] y0 Hk; cbn [nth_error] in *; try discriminate.
  - inversion Hk; subst. eauto.
  - now apply IH.
Qed.

(* NewReader on a finalized writer whose host tables are in order *)
Section ReaderOfWriter.
  Variables (gcap : N) (w : writer) (r : reader).
  Hypothesis Hcap4 : gcap <= 4 * P16.
  Hypothesis Hok : Forall (group_ok gcap) (w_groups w).
  Hypothesis Hsz : Forall size_ok (w_groups w).
  Hypothesis Hhosts : total_hosts 4 (w_groups w) < P32 /\ total_hosts 16 (w_groups w) < P32.
  Hypothesis Hr : new_reader (finalize w) = Some r.

  Lemma rw_file : r_file r = finalize w.
  Proof. unfold new_reader, new_reader_gen in Hr. destruct (f_streams (finalize w)); [discriminate|]. now inversion Hr. Qed.
  Lemma rw_streams : f_streams (r_file r) = w_streams w.
  Proof. rewrite rw_file. unfold finalize. now destruct (import_section _ _ _). Qed.
  Lemma rw_packets : f_packets (r_file r) = w_packets w.
  Proof. rewrite rw_file. unfold finalize. now destruct (import_section _ _ _). Qed.
  Lemma rw_data : f_data (r_file r) = w_data w.
  Proof. rewrite rw_file. unfold finalize. now destruct (import_section _ _ _). Qed.
  Lemma rw_ref : f_ref (r_file r) = w_ref w.
  Proof. rewrite rw_file. unfold finalize. now destruct (import_section _ _ _). Qed.
  Lemma rw_groups : r_groups r = map (fun g => (hg_size g, hg_hosts g)) (w_groups w).
  Proof.
    unfold new_reader, new_reader_gen in Hr. destruct (f_streams (finalize w)); [discriminate|]. inversion Hr. cbn [r_groups].
    apply (reader_groups_of_writer gcap w); tauto.
  Qed.
  Lemma rw_ids : r_ids r = id_map (w_streams w) 0 [] /\ r_min r = fold_left N.min (map st_id (w_streams w)) (P64 - 1)
                 /\ r_max r = fold_left N.max (map st_id (w_streams w)) 0.
  Proof.
    pose proof rw_streams as Hs. rewrite rw_file in Hs.
    unfold new_reader, new_reader_gen in Hr. rewrite Hs in Hr.
    destruct (w_streams w) as [|s0 l]; [discriminate|]. inversion Hr. cbn [r_ids r_min r_max]. auto.
  Qed.
  Lemma rw_host_of g h x : host_at (w_groups w) g h = Some x -> host_of r g h = x.
  Proof.
    unfold host_at, host_of. rewrite rw_groups, !nthN_nth_error, nth_error_map.
    destruct (nth_error (w_groups w) (N.to_nat g)) as [grp|]; [|discriminate]. cbn [option_map].
    rewrite nthN_nth_error. now intros ->.
  Qed.

  (* StreamByID on distinct ids *)
  Lemma rw_stream_by_id k rec :
    NoDup (map st_id (w_streams w)) -> nth_error (w_streams w) k = Some rec ->
    stream_by_id r (st_id rec) = Some (rec, N.of_nat k).
  Proof.
    intros Hnd Hrec. destruct rw_ids as (Hi & Hmin & Hmax). unfold stream_by_id.
    assert (Hin : In (st_id rec) (map st_id (w_streams w))) by (apply in_map; eapply nth_error_In; eauto).
    pose proof (fold_min_le (map st_id (w_streams w)) (P64 - 1) _ (or_introl Hin)).
    pose proof (fold_max_ge (map st_id (w_streams w)) 0 _ (or_introl Hin)).
    rewrite Hmin, Hmax.
    destruct (N.ltb_spec (st_id rec) (fold_left N.min (map st_id (w_streams w)) (P64 - 1))); [lia|].
    destruct (N.ltb_spec (fold_left N.max (map st_id (w_streams w)) 0) (st_id rec)); [lia|]. cbn [orb].
    rewrite Hi, (assoc_id_map_distinct (w_streams w) k rec Hnd Hrec).
    unfold stream_by_index. rewrite rw_streams, nthN_nth_error, Nat2N.id, Hrec. reflexivity.
  Qed.
  Lemma rw_stream_by_id_none id : ~ In id (map st_id (w_streams w)) -> stream_by_id r id = None.
  Proof.
    intros Hn. destruct rw_ids as (Hi & _). unfold stream_by_id.
    destruct ((id <? r_min r) || (r_max r <? id)); [reflexivity|].
    now rewrite Hi, assoc_id_map_none.
  Qed.
End ReaderOfWriter.

Section ReadBack.
  Variables (gcap : N) (L : list (N * istream)) (w : writer) (r : reader).
  Hypothesis Hcap : 16 < gcap <= 4 * P16.
  Hypothesis Hwf : Forall (fun ids => wf_meta (snd ids)) L.
  Hypothesis Hids : NoDup (ids_of L).
  Hypothesis Hadd : add_streams gcap new_writer L = Some w.
  Hypothesis Hhosts : total_hosts 4 (w_groups w) < P32 /\ total_hosts 16 (w_groups w) < P32.
  Hypothesis Hr : new_reader (finalize w) = Some r.

  Lemma rb_winv : winv gcap w L.
  Proof. apply (add_streams_winv gcap ltac:(lia) L new_writer [] w (winv_new gcap) Hwf Hadd). Qed.
  Let Hok : Forall (group_ok gcap) (w_groups w) := proj1 (proj2 rb_winv).
  Let Hsz : Forall size_ok (w_groups w) := proj1 (proj2 (proj2 rb_winv)).
  Let Hc4 : gcap <= 4 * P16 := proj2 Hcap.
  Definition rb_streams := rw_streams w r Hr.
  Definition rb_ref := rw_ref w r Hr.
  Definition rb_ids := rw_ids w r Hr.
  Definition rb_host_of := rw_host_of gcap w r Hc4 Hok Hsz Hhosts Hr.

  Lemma rb_stream_ids : map st_id (w_streams w) = ids_of L.
  Proof. pose proof rb_winv as (HF & _). apply (stored_ids _ _ _ _ HF). Qed.

  (* Theorem 1, id lookups and metadata *)
  Theorem stream_by_id_stored k id s :
    nth_error L k = Some (id, s) ->
    exists rec, stream_by_id r id = Some (rec, N.of_nat k) /\ nth_error (all_streams r) k = Some rec /\ meta_matches r rec id s.
  Proof.
    intros Hk. pose proof rb_winv as (HF & _).
    destruct (Forall2_nth_r _ _ _ HF _ _ Hk) as (rec & Hrec & Hst). cbn [fst snd] in Hst.
    exists rec. split; [|split].
    - rewrite <- (sd_id _ _ _ _ _ Hst). apply (rw_stream_by_id gcap w r Hc4 Hhosts Hr); [|assumption].
      now rewrite rb_stream_ids.
    - unfold all_streams. now rewrite rb_streams.
    - destruct Hst as [S1 S2 S3 S4 S5 S6 S7 S8 S9 S10 S11 S12 S13 S14].
      unfold meta_matches, client_host, server_host, first_packet_time, last_packet_time.
      rewrite (rb_host_of _ _ _ S7), (rb_host_of _ _ _ S8), rb_ref, S4, proto_flags_small. tauto.
  Qed.

  Theorem stream_by_id_other id : ~ In id (ids_of L) -> stream_by_id r id = None.
  Proof.
    intros Hn. apply (rw_stream_by_id_none w r Hr). now rewrite rb_stream_ids.
  Qed.

  (* AllStreams / StreamIDs / Min / Max enumerate exactly the stored ids *)
  Theorem all_streams_ids : map st_id (all_streams r) = ids_of L.
  Proof. unfold all_streams. rewrite rb_streams. apply rb_stream_ids. Qed.
  Theorem min_max_ids id : In id (ids_of L) -> r_min r <= id <= r_max r.
  Proof.
    intros Hin. destruct rb_ids as (_ & Hmin & Hmax). rewrite Hmin, Hmax, rb_stream_ids. split.
    - apply fold_min_le. now left.
    - apply fold_max_ge. now left.
  Qed.
End ReadBack.
