(* C12 -- proofs about the persistence model (Persist.v). *)
From Coq Require Import List NArith Bool Arith Lia.
Require Import Pk.Persist.
Import ListNotations.
Open Scope N_scope.

(* unreadable index files do not influence what a restart shows *)
Lemma recover_ignores_torn : forall {V} (d : list (ifile V)) id,
  recover_streams d id = recover_streams (readable d) id.
Proof.
  intros V d id. unfold recover_streams, readable. f_equal. f_equal.
  induction d as [|f r IH]; simpl; auto. destruct (i_magic f) eqn:E; simpl; rewrite ?E; congruence.
Qed.

(* ---------------------------------------------------------------- state files *)
Section StateFiles.
Variable S : Type.

Lemma recover_state_ignores_torn_gen : forall (d : list (sfile S)) cur,
  pick_state cur d = pick_state cur (filter s_ok d).
Proof.
  induction d as [|f r IH]; intros cur; simpl; auto.
  destruct (s_ok f) eqn:E; simpl.
  - rewrite E. simpl. destruct (negb _); apply IH.
  - apply IH.
Qed.

Lemma recover_state_ignores_torn : forall (d : list (sfile S)),
  recover_state d = recover_state (filter s_ok d).
Proof. intros. apply recover_state_ignores_torn_gen. Qed.

Definition closes (l : list (sstep S)) : N :=
  fold_right (fun s a => match s with SClose _ => a + 1 | _ => a end) 0 l.

Lemma closes_app : forall a b, closes (a ++ b) = closes a + closes b.
Proof.
  induction a as [|x a IH]; intros b; simpl; [lia|]. rewrite IH. destruct x; lia.
Qed.

(* directory between two saves: exactly the file of save k-1 *)
Definition dir_ok (k : N) (prev : option S) (d : list (sfile S)) : Prop :=
  match prev with
  | None => k = 1 /\ d = []
  | Some p => 1 < k /\ d = [mkS (k - 1, 0) true (k - 1) p]
  end.

Definition view (o : option (sfile S)) : option (N * S) := option_map (fun f => (s_stamp f, s_data f)) o.

Definition expected (k : N) (prev : option S) (ss : list S) (j : N) : option (N * S) :=
  if j =? 0 then option_map (fun p => (k - 1, p)) prev
  else option_map (fun s => (k - 1 + j, s)) (nth_error ss (N.to_nat (j - 1))).

Lemma ltb_self_pred : forall k, 1 < k ->
  (k <? k - 1) = false /\ (k =? k - 1) = false /\ (k - 1 =? k) = false /\ (k =? 1) = false.
Proof.
  intros k H. repeat split.
  - apply N.ltb_ge. lia.
  - apply N.eqb_neq. lia.
  - apply N.eqb_neq. lia.
  - apply N.eqb_neq. lia.
Qed.

Ltac norm E1 E2 E3 :=
  repeat (progress (unfold fname_ltb, fname_eqb; simpl; rewrite ?E1, ?E2, ?E3, ?N.eqb_refl, ?N.ltb_irrefl; simpl)).

Lemma save_steps_full : forall k prev d s, dir_ok k prev d ->
  dir_ok (k + 1) (Some s) (fold_left apply_sstep (save_steps k s) d).
Proof.
  intros k prev d s H. unfold dir_ok in *. destruct prev as [p|].
  - destruct H as [Hk ->]. destruct (ltb_self_pred k Hk) as [E1 [E2 [E3 E4]]].
    unfold save_steps. rewrite E4. norm E1 E2 E3.
    split; [lia|]. replace (k + 1 - 1) with k by lia. reflexivity.
  - destruct H as [-> ->]. simpl. split; [lia|]. reflexivity.
Qed.

Lemma closes_save_steps : forall k s, closes (save_steps k s) = 1.
Proof. intros. unfold save_steps. destruct (k =? 1); reflexivity. Qed.

(* a crash inside save k *)
Lemma save_steps_prefix : forall k prev d s pre post, dir_ok k prev d ->
  save_steps k s = pre ++ post ->
  view (recover_state (fold_left apply_sstep pre d)) = expected k prev [s] (closes pre).
Proof.
  intros k prev d s pre post H E. unfold dir_ok in H. unfold save_steps in E.
  destruct prev as [p|].
  - destruct H as [Hk ->]. destruct (ltb_self_pred k Hk) as [E1 [E2 [E3 E4]]].
    rewrite E4 in E. simpl in E.
    destruct pre as [|a [|b [|c [|x pre]]]]; simpl in E.
    + reflexivity.
    + injection E as <- _. norm E1 E2 E3. unfold recover_state. simpl. reflexivity.
    + injection E as <- <- _. norm E1 E2 E3. unfold recover_state. norm E1 E2 E3.
      unfold expected. simpl. replace (k - 1 + 1) with k by lia. reflexivity.
    + injection E as <- <- <- _. norm E1 E2 E3. unfold recover_state. norm E1 E2 E3.
      unfold expected. simpl. replace (k - 1 + 1) with k by lia. reflexivity.
    + discriminate.
  - destruct H as [-> ->]. simpl in E.
    destruct pre as [|a [|b [|x pre]]]; simpl in E.
    + reflexivity.
    + injection E as <- _. reflexivity.
    + injection E as <- <- _. reflexivity.
    + discriminate.
Qed.

Lemma app_eq_app_split : forall {A} (l1 l2 l3 l4 : list A), l1 ++ l2 = l3 ++ l4 ->
  (exists m, l3 = l1 ++ m /\ l2 = m ++ l4) \/ (exists m, l1 = l3 ++ m /\ l4 = m ++ l2).
Proof.
  intros A l1. induction l1 as [|x l1 IH]; intros l2 l3 l4 H; simpl in H.
  - left. exists l3. auto.
  - destruct l3 as [|y l3]; simpl in H.
    + right. exists (x :: l1). auto.
    + injection H as <- H. destruct (IH _ _ _ H) as [[m [-> ->]]|[m [-> ->]]].
      * left. exists m. auto.
      * right. exists m. auto.
Qed.

Lemma state_recovery_gen : forall ss k prev d, dir_ok k prev d ->
  forall pre post, all_save_steps k ss = pre ++ post ->
  view (recover_state (fold_left apply_sstep pre d)) = expected k prev ss (closes pre).
Proof.
  induction ss as [|s r IH]; intros k prev d H pre post E; cbn [all_save_steps] in E.
  - destruct pre; [|discriminate]. simpl. unfold dir_ok in H. destruct prev as [p|].
    + destruct H as [_ ->]. reflexivity.
    + destruct H as [_ ->]. reflexivity.
  - destruct (app_eq_app_split _ _ _ _ E) as [[m [-> Em]]|[m [Es Ep]]].
    + (* the whole save k is in the prefix *)
      rewrite fold_left_app. rewrite closes_app, closes_save_steps.
      pose proof (save_steps_full k prev d s H) as H'.
      rewrite (IH (k + 1) (Some s) _ H' m post Em).
      unfold expected. destruct (closes m =? 0) eqn:Ej.
      * apply N.eqb_eq in Ej. rewrite Ej. simpl. replace (k + 1 - 1) with k by lia.
        replace (k - 1 + 1) with k by (unfold dir_ok in H; destruct prev; lia). reflexivity.
      * apply N.eqb_neq in Ej. assert (1 + closes m =? 0 = false) as -> by (apply N.eqb_neq; lia).
        replace (N.to_nat (1 + closes m - 1)) with (Datatypes.S (N.to_nat (closes m - 1))) by lia.
        simpl. replace (k + 1 - 1 + closes m) with (k - 1 + (1 + closes m)) by (unfold dir_ok in H; destruct prev; lia).
        reflexivity.
    + (* the crash is inside save k *)
      rewrite (save_steps_prefix k prev d s pre m H Es).
      assert (closes pre <= 1) as Hle.
      { pose proof (closes_save_steps k s) as Hc. rewrite Es, closes_app in Hc. lia. }
      unfold expected. destruct (closes pre =? 0) eqn:Ez; auto. apply N.eqb_neq in Ez.
      assert (closes pre = 1) as -> by lia.
      reflexivity.
Qed.

(* EVERY history of state saves, EVERY crash point: the restart takes the newest save whose file was
   closed; saves whose steps are all in the prefix are among them *)
Theorem state_recovery : forall (ss : list S) pre post,
  all_save_steps 1 ss = pre ++ post ->
  view (recover_state (run_ssteps pre)) =
    (if closes pre =? 0 then None
     else option_map (fun s => (closes pre, s)) (nth_error ss (N.to_nat (closes pre - 1)))).
Proof.
  intros ss pre post E. unfold run_ssteps.
  rewrite (state_recovery_gen ss 1 None [] (conj eq_refl eq_refl) pre post E).
  unfold expected. destruct (closes pre =? 0); auto.
Qed.

End StateFiles.

(* ---------------------------------------------------------------- index stacks *)
Lemma visible_from : forall {V} (fs : list (list (N * V))) id v,
  visible fs id = Some v -> exists s, In s fs /\ lookup s id = Some v.
Proof.
  intros V. induction fs as [|s r IH]; intros id v H; simpl in H; [discriminate|].
  destruct (visible r id) as [w|] eqn:E.
  - injection H as ->. destruct (IH id v E) as [s' [H1 H2]]. exists s'. split; auto. right; auto.
  - exists s. split; auto. left; auto.
Qed.

(* along the stack the versions of every stream never decrease *)
Fixpoint mono (l : list nstreams) : Prop :=
  match l with
  | [] => True
  | s :: r => (forall t id v w, In t r -> lookup s id = Some v -> lookup t id = Some w -> v <= w) /\ mono r
  end.

Lemma visible_ge : forall l s id v, mono l -> In s l -> lookup s id = Some v ->
  exists w, visible l id = Some w /\ v <= w.
Proof.
  induction l as [|s0 r IH]; intros s id v Hm Hin Hl; [destruct Hin|].
  destruct Hm as [Hh Hr]. simpl. destruct Hin as [->|Hin].
  - destruct (visible r id) as [w|] eqn:E.
    + destruct (visible_from r id w E) as [t [Ht Hw]]. exists w. split; auto. eapply Hh; eauto.
    + exists v. split; auto. lia.
  - destruct (IH s id v Hr Hin Hl) as [w [E Hle]]. rewrite E. exists w. auto.
Qed.

Lemma find_i_In : forall {V} n (d : list (ifile V)) f, find_i n d = Some f -> In f d /\ fname_eqb (i_name f) n = true.
Proof.
  intros V n. induction d as [|g r IH]; intros f H; simpl in H; [discriminate|].
  destruct (fname_eqb (i_name g) n) eqn:E.
  - injection H as <-. split; auto. left; auto.
  - destruct (IH f H). split; auto. right; auto.
Qed.

Lemma streams_of_In : forall d names s, In s (streams_of d names) ->
  (forall n, In n names -> is_complete d n = true) ->
  exists f, In f d /\ i_magic f = true /\ i_streams f = s.
Proof.
  intros d names s H Hc. unfold streams_of in H. apply in_map_iff in H. destruct H as [n [Hs Hn]].
  specialize (Hc n Hn). unfold is_complete in Hc. destruct (find_i n d) as [f|] eqn:E; [|discriminate].
  destruct (find_i_In n d f E) as [Hin _]. exists f. auto.
Qed.

(* If the readable files, in name order, never show an older version after a newer one, a restart
   shows every stream the running manager showed, in that or a newer version. *)
Theorem restart_shows_memory_or_newer : forall st id v,
  mono (map i_streams (readable (disk st))) ->
  (forall n, In n (mem st) -> is_complete (disk st) n = true) ->
  mem_view st id = Some v ->
  exists w, restart_view st id = Some w /\ v <= w.
Proof.
  intros st id v Hm Hc Hv. unfold mem_view in Hv. unfold restart_view, recover_streams.
  destruct (visible_from _ _ _ Hv) as [s [Hs Hl]].
  destruct (streams_of_In _ _ _ Hs Hc) as [f [Hf [Hmg <-]]].
  apply (visible_ge _ (i_streams f)); auto.
  apply in_map. unfold readable. apply filter_In. auto.
Qed.

(* the known interleaving: import A, import B, merge of [A,B] created, import C (new version of
   stream 0) created and completed, merge completed and published, import published *)
Definition shadow_history : list ev :=
  [ImpCreate [(0, 1)]; ImpMagic; ImpPublish;
   ImpCreate [(1, 1); (2, 1)]; ImpMagic; ImpPublish;
   ImpCreate [(0, 2)];           (* import C has created its file ... *)
   MrgCreate 0;                  (* ... when the merge of [A,B] creates its own *)
   ImpMagic; MrgMagic; MrgPublish; ImpPublish; MrgRemove; MrgRemove].

Lemma unpatched_restart_shows_old_version :
  mem_view (run_m false shadow_history) 0 = Some 2 /\ restart_view (run_m false shadow_history) 0 = Some 1.
Proof. vm_compute. split; reflexivity. Qed.

Lemma patched_restart_shows_new_version :
  mem_view (run_m true shadow_history) 0 = Some 2 /\ restart_view (run_m true shadow_history) 0 = Some 2.
Proof. vm_compute. split; reflexivity. Qed.

(* a state file that manager.New does not accept (it does not parse, or it parses and fails the validation:
   [s_ok] = accepted) contributes nothing to the recovered state, wherever it sorts in the directory *)
Lemma rejected_state_file_contributes_nothing : forall {S} (d1 d2 : list (sfile S)) f,
  s_ok f = false -> recover_state (d1 ++ f :: d2) = recover_state (d1 ++ d2).
Proof.
  intros S d1 d2 f H. rewrite (recover_state_ignores_torn S (d1 ++ f :: d2)), (recover_state_ignores_torn S (d1 ++ d2)).
  rewrite !filter_app. simpl. rewrite H. reflexivity.
Qed.
