(* C12 -- proofs about the persistence model (Persist.v). *)
From Coq Require Import List NArith Bool Arith Lia.
Require Import Pk.Persist.
Import ListNotations.
Open Scope N_scope.

(* unreadable index files do not influence what a restart shows *)
Lemma recover_ignores_torn : forall {V} (d : list (ifile V)) id,
  recover_streams d id = recover_streams (readable d) id.
Proof.
  intros V d id. unfold recover_streams, readable. f_equal. f_equal.
  induction d as [|f r IH]; simpl; auto. destruct (i_magic f) eqn:E; simpl; rewrite ?E; congruence.
Qed.
