(* Proofs for the word-list part of the C17 model (LongBitmask, ShortBitmask). *)
From Coq Require Import NArith ZArith List Bool Lia ZifyBool ZifyN ZifyNat.
Require Import Pk.Bitmask Pk.BitmaskProofs.
Open Scope N_scope.
Ltac Zify.zify_post_hook ::= Z.div_mod_to_equations.

(* ---------- indices ---------- *)
Lemma idx_bit_eq i b : (w_idx i = w_idx b /\ w_bit i = w_bit b) <-> i = b.
Proof.
  unfold w_idx, w_bit. split.
  - intros [H1 H2]. apply N2Nat.inj in H1.
    rewrite (N.div_mod i 64), (N.div_mod b 64) by lia. rewrite H1, H2. reflexivity.
  - intros ->. split; reflexivity.
Qed.

Lemma w_bit_lt i : w_bit i < 64.
Proof. unfold w_bit. apply N.mod_lt. lia. Qed.

Definition wbit (l : wl) (k : nat) (j : N) : bool := N.testbit (nth k l 0) j.
Lemma mem_w_wbit l i : mem_w l i = wbit l (w_idx i) (w_bit i).
Proof. reflexivity. Qed.

Lemma w_isset_spec l b : w_isset l b = mem_w l b.
Proof.
  unfold w_isset, mem_w, w_get. destruct (Nat.ltb (w_idx b) (length l)) eqn:E; [reflexivity|].
  apply Nat.ltb_ge in E. rewrite nth_overflow by exact E. reflexivity.
Qed.

(* ---------- update / extend ---------- *)
Lemma w_update_length l : forall i f, length (w_update l i f) = length l.
Proof. induction l as [|w r IH]; intros [|i] f; cbn; auto. Qed.

Lemma nth_w_update l : forall i j f,
  nth j (w_update l i f) 0 =
  if Nat.eqb j i && Nat.ltb i (length l) then f (nth i l 0) else nth j l 0.
Proof.
  induction l as [|w r IH]; intros i j f.
  - cbn. rewrite andb_false_r. destruct j; reflexivity.
  - destruct i as [|i]; destruct j as [|j]; cbn [w_update nth length]; try reflexivity.
    rewrite IH. cbn [Nat.eqb]. change (Nat.ltb (S i) (S (length r))) with (Nat.ltb i (length r)).
    reflexivity.
Qed.

Lemma w_extend_length l n : length (w_extend l n) = Nat.max (length l) n.
Proof. unfold w_extend. rewrite app_length, repeat_length. lia. Qed.

Lemma nth_w_extend l n j : nth j (w_extend l n) 0 = nth j l 0.
Proof.
  unfold w_extend. destruct (Nat.ltb j (length l)) eqn:E.
  - apply Nat.ltb_lt in E. apply app_nth1. exact E.
  - apply Nat.ltb_ge in E. rewrite app_nth2 by exact E.
    rewrite (nth_overflow l) by exact E.
    generalize (j - length l)%nat (n - length l)%nat. intros a c. revert a.
    induction c as [|c IH]; intros [|a]; cbn; auto.
Qed.

Lemma testbit_bitmask bb j : N.testbit (N.shiftl 1 bb) j = (j =? bb).
Proof. rewrite N.shiftl_1_l, N.pow2_bits_eqb. apply N.eqb_sym. Qed.

Lemma eqb_idx_bit i b : (i =? b) = Nat.eqb (w_idx i) (w_idx b) && (w_bit i =? w_bit b).
Proof.
  destruct (i =? b) eqn:E.
  - apply N.eqb_eq in E. subst. rewrite Nat.eqb_refl, N.eqb_refl. reflexivity.
  - destruct (Nat.eqb (w_idx i) (w_idx b)) eqn:E1; [|reflexivity].
    destruct (w_bit i =? w_bit b) eqn:E2; [|reflexivity].
    apply Nat.eqb_eq in E1. apply N.eqb_eq in E2.
    assert (i = b) by (apply idx_bit_eq; auto). subst. rewrite N.eqb_refl in E. discriminate.
Qed.

(* ---------- Set / Unset / Flip ---------- *)
Lemma w_set_spec l b i : mem_w (w_set l b) i = (i =? b) || mem_w l i.
Proof.
  unfold mem_w, w_set, w_get. rewrite nth_w_update, w_extend_length, ?nth_w_extend.
  rewrite eqb_idx_bit.
  destruct (Nat.eqb (w_idx i) (w_idx b)) eqn:E1.
  - apply Nat.eqb_eq in E1. rewrite E1.
    replace (Nat.ltb (w_idx b) (Nat.max (length l) (S (w_idx b)))) with true
      by (symmetry; apply Nat.ltb_lt; lia).
    cbn [andb]. rewrite ?nth_w_extend, N.lor_spec, testbit_bitmask. apply orb_comm.
  - reflexivity.
Qed.

Lemma w_flip_spec l b i : mem_w (w_flip l b) i = if i =? b then negb (mem_w l i) else mem_w l i.
Proof.
  unfold mem_w, w_flip, w_get. rewrite nth_w_update, w_extend_length, ?nth_w_extend.
  rewrite eqb_idx_bit.
  destruct (Nat.eqb (w_idx i) (w_idx b)) eqn:E1.
  - apply Nat.eqb_eq in E1. rewrite E1.
    replace (Nat.ltb (w_idx b) (Nat.max (length l) (S (w_idx b)))) with true
      by (symmetry; apply Nat.ltb_lt; lia).
    cbn [andb]. rewrite ?nth_w_extend, N.lxor_spec, testbit_bitmask.
    destruct (w_bit i =? w_bit b); [apply xorb_true_r|apply xorb_false_r].
  - reflexivity.
Qed.

Lemma s_unset_spec l b i : mem_w (s_unset l b) i = negb (i =? b) && mem_w l i.
Proof.
  unfold mem_w, s_unset, w_get. rewrite nth_w_update, w_extend_length, ?nth_w_extend.
  rewrite eqb_idx_bit.
  destruct (Nat.eqb (w_idx i) (w_idx b)) eqn:E1.
  - apply Nat.eqb_eq in E1. rewrite E1.
    replace (Nat.ltb (w_idx b) (Nat.max (length l) (S (w_idx b)))) with true
      by (symmetry; apply Nat.ltb_lt; lia).
    cbn [andb]. rewrite ?nth_w_extend, N.ldiff_spec, testbit_bitmask. apply andb_comm.
  - reflexivity.
Qed.

Lemma l_unset_spec l b i : mem_w (l_unset l b) i = negb (i =? b) && mem_w l i.
Proof.
  unfold mem_w, l_unset, w_get. rewrite nth_w_update.
  rewrite eqb_idx_bit.
  destruct (Nat.eqb (w_idx i) (w_idx b)) eqn:E1.
  - apply Nat.eqb_eq in E1. rewrite E1.
    destruct (Nat.ltb (w_idx b) (length l)) eqn:E2; cbn [andb].
    + rewrite N.ldiff_spec, testbit_bitmask. apply andb_comm.
    + apply Nat.ltb_ge in E2. rewrite nth_overflow by exact E2.
      rewrite N.bits_0. rewrite andb_false_r. reflexivity.
  - reflexivity.
Qed.

(* ---------- Or / And / Xor / Sub ---------- *)
Lemma nth_w_or a : forall b k, nth k (w_or a b) 0 = N.lor (nth k a 0) (nth k b 0).
Proof.
  induction a as [|x a IH]; intros [|y b] k; cbn [w_or].
  - destruct k; reflexivity.
  - rewrite (nth_overflow []) by (cbn; lia). reflexivity.
  - rewrite (nth_overflow []) by (cbn; lia). rewrite N.lor_0_r. reflexivity.
  - destruct k; cbn [nth]; [reflexivity|apply IH].
Qed.
Lemma nth_w_xor a : forall b k, nth k (w_xor a b) 0 = N.lxor (nth k a 0) (nth k b 0).
Proof.
  induction a as [|x a IH]; intros [|y b] k; cbn [w_xor].
  - destruct k; reflexivity.
  - rewrite (nth_overflow []) by (cbn; lia). reflexivity.
  - rewrite (nth_overflow []) by (cbn; lia). rewrite N.lxor_0_r. reflexivity.
  - destruct k; cbn [nth]; [reflexivity|apply IH].
Qed.
Lemma nth_w_and a : forall b k, nth k (w_and a b) 0 = N.land (nth k a 0) (nth k b 0).
Proof.
  induction a as [|x a IH]; intros [|y b] k; cbn [w_and].
  - destruct k; reflexivity.
  - rewrite (nth_overflow []) by (cbn; lia). reflexivity.
  - rewrite !(nth_overflow []) by (cbn; lia). rewrite N.land_0_r. reflexivity.
  - destruct k; cbn [nth]; [reflexivity|apply IH].
Qed.
Lemma nth_w_sub a : forall b k, nth k (w_sub a b) 0 = N.ldiff (nth k a 0) (nth k b 0).
Proof.
  induction a as [|x a IH]; intros [|y b] k; cbn [w_sub].
  - destruct k; reflexivity.
  - rewrite (nth_overflow []) by (cbn; lia). reflexivity.
  - rewrite (nth_overflow []) by (cbn; lia). rewrite N.ldiff_0_r. reflexivity.
  - destruct k; cbn [nth]; [reflexivity|apply IH].
Qed.

Lemma w_or_spec a b i : mem_w (w_or a b) i = mem_w a i || mem_w b i.
Proof. unfold mem_w, w_get. rewrite nth_w_or. apply N.lor_spec. Qed.
Lemma w_xor_spec a b i : mem_w (w_xor a b) i = xorb (mem_w a i) (mem_w b i).
Proof. unfold mem_w, w_get. rewrite nth_w_xor. apply N.lxor_spec. Qed.
Lemma w_and_spec a b i : mem_w (w_and a b) i = mem_w a i && mem_w b i.
Proof. unfold mem_w, w_get. rewrite nth_w_and. apply N.land_spec. Qed.
Lemma w_sub_spec a b i : mem_w (w_sub a b) i = mem_w a i && negb (mem_w b i).
Proof. unfold mem_w, w_get. rewrite nth_w_sub. apply N.ldiff_spec. Qed.

(* ---------- Shrink ---------- *)
Lemma nth_l_shrink l : forall k, nth k (l_shrink l) 0 = nth k l 0.
Proof.
  induction l as [|w r IH]; intro k; [reflexivity|].
  cbn [l_shrink]. destruct (l_shrink r) as [|w' r'] eqn:E.
  - destruct (w =? 0) eqn:Ew.
    + apply N.eqb_eq in Ew. subst. destruct k; cbn [nth]; [reflexivity|].
      rewrite <- IH. destruct k; reflexivity.
    + destruct k; cbn [nth]; [reflexivity|]. rewrite <- IH. destruct k; reflexivity.
  - destruct k; cbn [nth]; [reflexivity|]. rewrite <- IH. reflexivity.
Qed.
Lemma l_shrink_spec l i : mem_w (l_shrink l) i = mem_w l i.
Proof. unfold mem_w, w_get. rewrite nth_l_shrink. reflexivity. Qed.
Lemma s_shrink_spec l i : mem_w (s_shrink l) i = mem_w l i.
Proof.
  unfold mem_w, w_get. destruct l as [|w r]; [reflexivity|]. cbn [s_shrink].
  destruct (w_idx i); cbn [nth]; [reflexivity|rewrite nth_l_shrink; reflexivity].
Qed.

(* ---------- words below 2^64 ---------- *)
Definition small (w : N) : Prop := forall m, 64 <= m -> N.testbit w m = false.

Lemma W64_pow : W64 = 2 ^ 64.
Proof. reflexivity. Qed.

Lemma small_lt w : small w <-> w < W64.
Proof.
  rewrite W64_pow. split.
  - intro S. assert (E : w mod 2 ^ 64 = w).
    { apply N.bits_inj. intro m. destruct (N.lt_ge_cases m 64) as [L|L].
      - apply N.mod_pow2_bits_low. exact L.
      - rewrite N.mod_pow2_bits_high by exact L. symmetry. apply S. exact L. }
    rewrite <- E. apply N.mod_lt. discriminate.
  - intros L m Hm. destruct (N.eq_dec w 0) as [->|Hne]; [apply N.bits_0|].
    apply N.bits_above_log2. apply N.log2_lt_pow2 in L; lia.
Qed.

Lemma small_0 : small 0.
Proof. intros m _. apply N.bits_0. Qed.
Lemma small_lor a b : small a -> small b -> small (N.lor a b).
Proof. intros A B m H. rewrite N.lor_spec, A, B; auto. Qed.
Lemma small_lxor a b : small a -> small b -> small (N.lxor a b).
Proof. intros A B m H. rewrite N.lxor_spec, A, B; auto. Qed.
Lemma small_land a b : small a -> small (N.land a b).
Proof. intros A m H. rewrite N.land_spec, A; auto. Qed.
Lemma small_ldiff a b : small a -> small (N.ldiff a b).
Proof. intros A m H. rewrite N.ldiff_spec, A; auto. Qed.
Lemma small_bitmask bb : bb < 64 -> small (N.shiftl 1 bb).
Proof. intros L m H. rewrite testbit_bitmask. lia. Qed.

Definition wfs (l : wl) : Prop := Forall small l.
Lemma wfs_wf_w l : wfs l <-> wf_w l.
Proof. unfold wfs, wf_w. rewrite !Forall_forall. split; intros H x Hx; apply small_lt, H, Hx. Qed.

Lemma wfs_nth l k : wfs l -> small (nth k l 0).
Proof.
  intro H. destruct (Nat.ltb k (length l)) eqn:E.
  - apply Nat.ltb_lt in E. unfold wfs in H. rewrite Forall_forall in H. apply H, nth_In, E.
  - apply Nat.ltb_ge in E. rewrite nth_overflow by exact E. apply small_0.
Qed.

Lemma wfs_update l : forall i f, wfs l -> (forall w, small w -> small (f w)) -> wfs (w_update l i f).
Proof.
  induction l as [|w r IH]; intros i f H Hf; [constructor|].
  inversion H; subst. destruct i; cbn [w_update]; constructor; auto. apply IH; auto.
Qed.
Lemma wfs_extend l n : wfs l -> wfs (w_extend l n).
Proof.
  intro H. unfold w_extend, wfs. apply Forall_app. split; [exact H|].
  apply Forall_forall. intros x Hx. apply repeat_spec in Hx. subst. apply small_0.
Qed.

Lemma wfs_set l b : wfs l -> wfs (w_set l b).
Proof. intro H. apply wfs_update; [apply wfs_extend, H|]. intros w S. apply small_lor; [exact S|apply small_bitmask, w_bit_lt]. Qed.
Lemma wfs_flip l b : wfs l -> wfs (w_flip l b).
Proof. intro H. apply wfs_update; [apply wfs_extend, H|]. intros w S. apply small_lxor; [exact S|apply small_bitmask, w_bit_lt]. Qed.
Lemma wfs_s_unset l b : wfs l -> wfs (s_unset l b).
Proof. intro H. apply wfs_update; [apply wfs_extend, H|]. intros w S. apply small_ldiff, S. Qed.
Lemma wfs_l_unset l b : wfs l -> wfs (l_unset l b).
Proof. intro H. apply wfs_update; [exact H|]. intros w S. apply small_ldiff, S. Qed.

Lemma wfs_or a : forall b, wfs a -> wfs b -> wfs (w_or a b).
Proof.
  induction a as [|x a IH]; intros [|y b] Ha Hb; cbn [w_or]; auto.
  inversion Ha; inversion Hb; subst. constructor; [apply small_lor; auto|apply IH; auto].
Qed.
Lemma wfs_xor a : forall b, wfs a -> wfs b -> wfs (w_xor a b).
Proof.
  induction a as [|x a IH]; intros [|y b] Ha Hb; cbn [w_xor]; auto.
  inversion Ha; inversion Hb; subst. constructor; [apply small_lxor; auto|apply IH; auto].
Qed.
Lemma wfs_and a : forall b, wfs a -> wfs (w_and a b).
Proof.
  induction a as [|x a IH]; intros [|y b] Ha; cbn [w_and]; try constructor.
  - inversion Ha; subst. apply small_land; auto.
  - inversion Ha; subst. apply IH; auto.
Qed.
Lemma wfs_sub a : forall b, wfs a -> wfs (w_sub a b).
Proof.
  induction a as [|x a IH]; intros [|y b] Ha; cbn [w_sub]; auto.
  inversion Ha; subst. constructor; [apply small_ldiff; auto|apply IH; auto].
Qed.
Lemma wfs_l_shrink l : wfs l -> wfs (l_shrink l).
Proof.
  induction l as [|w r IH]; intro H; [constructor|]. inversion H; subst.
  cbn [l_shrink]. specialize (IH H3). destruct (l_shrink r).
  - destruct (w =? 0); constructor; auto.
  - constructor; auto.
Qed.
Lemma wfs_s_shrink l : wfs l -> wfs (s_shrink l).
Proof. destruct l as [|w r]; intro H; [constructor|]. inversion H; subst. constructor; auto. apply wfs_l_shrink; auto. Qed.

(* ---------- from members back to words ---------- *)
Lemma idx_of k j : j < 64 -> w_idx (64 * N.of_nat k + j) = k /\ w_bit (64 * N.of_nat k + j) = j.
Proof.
  intro H. unfold w_idx, w_bit. split.
  - replace ((64 * N.of_nat k + j) / 64) with (N.of_nat k) by lia. apply Nat2N.id.
  - lia.
Qed.

Lemma words_ext a b : wfs a -> wfs b ->
  (forall i, mem_w a i = mem_w b i) -> forall k, nth k a 0 = nth k b 0.
Proof.
  intros Ha Hb E k. apply N.bits_inj. intro j.
  destruct (N.lt_ge_cases j 64) as [L|L].
  - specialize (E (64 * N.of_nat k + j)). unfold mem_w, w_get in E.
    destruct (idx_of k j L) as [E1 E2]. rewrite E1, E2 in E. exact E.
  - rewrite (wfs_nth a k Ha j L), (wfs_nth b k Hb j L). reflexivity.
Qed.

Lemma w_iszero_nth l : w_iszero l = true <-> forall k, nth k l 0 = 0.
Proof.
  induction l as [|w r IH]; cbn [w_iszero].
  - split; [intros _ k; destruct k; reflexivity|reflexivity].
  - rewrite andb_true_iff, IH, N.eqb_eq. split.
    + intros [-> H] k. destruct k; cbn [nth]; auto.
    + intro H. split; [exact (H O)|]. intro k. exact (H (S k)).
Qed.

Theorem w_iszero_spec l : wfs l -> (w_iszero l = true <-> forall i, mem_w l i = false).
Proof.
  intro H. rewrite w_iszero_nth. split.
  - intros Z i. unfold mem_w, w_get. rewrite Z. apply N.bits_0.
  - intros Z k.
    assert (Q : forall i, mem_w l i = mem_w [] i).
    { intro i. rewrite Z. unfold mem_w, w_get. destruct (w_idx i); symmetry; apply N.bits_0. }
    rewrite (words_ext l [] H ltac:(constructor) Q k). destruct k; reflexivity.
Qed.

Lemma w_equal_nth a : forall b, w_equal a b = true <-> forall k, nth k a 0 = nth k b 0.
Proof.
  induction a as [|x a IH]; intros b.
  - cbn [w_equal]. rewrite w_iszero_nth. split.
    + intros H k. rewrite H. destruct k; reflexivity.
    + intros H k. rewrite <- H. destruct k; reflexivity.
  - destruct b as [|y b].
    + cbn [w_equal]. rewrite (w_iszero_nth (x :: a)). split.
      * intros H k. rewrite H. destruct k; reflexivity.
      * intros H k. rewrite H. destruct k; reflexivity.
    + cbn [w_equal]. rewrite andb_true_iff, IH, N.eqb_eq. split.
      * intros [-> H] k. destruct k; cbn [nth]; auto.
      * intro H. split; [exact (H O)|]. intro k. exact (H (S k)).
Qed.

Theorem w_equal_spec a b : wfs a -> wfs b ->
  (w_equal a b = true <-> forall i, mem_w a i = mem_w b i).
Proof.
  intros Ha Hb. rewrite w_equal_nth. split.
  - intros E i. unfold mem_w, w_get. rewrite E. reflexivity.
  - apply words_ext; assumption.
Qed.

(* ---------- list-level index lemmas ---------- *)
Lemma mem_w_cons w r m :
  mem_w (w :: r) m = if m <? 64 then N.testbit w m else mem_w r (m - 64).
Proof.
  unfold mem_w, w_get, w_idx, w_bit.
  destruct (m <? 64) eqn:E.
  - replace (m / 64) with 0 by lia. replace (m mod 64) with m by lia. reflexivity.
  - replace (N.to_nat (m / 64)) with (S (N.to_nat ((m - 64) / 64))) by lia.
    replace ((m - 64) mod 64) with (m mod 64) by lia. reflexivity.
Qed.

Lemma mem_w_nil m : mem_w [] m = false.
Proof. unfold mem_w, w_get. destruct (w_idx m); apply N.bits_0. Qed.

Lemma mem_w_app a : forall x i,
  mem_w (a ++ x) i =
  if i <? 64 * N.of_nat (length a) then mem_w a i else mem_w x (i - 64 * N.of_nat (length a)).
Proof.
  induction a as [|w a IH]; intros x i.
  - cbn [app length]. replace (i <? 64 * N.of_nat 0) with false by lia.
    replace (i - 64 * N.of_nat 0) with i by lia. reflexivity.
  - cbn [app length]. rewrite !mem_w_cons, IH.
    destruct (i <? 64) eqn:E1.
    + replace (i <? 64 * N.of_nat (S (length a))) with true by lia. reflexivity.
    + replace (i - 64 <? 64 * N.of_nat (length a)) with (i <? 64 * N.of_nat (S (length a))) by lia.
      replace (i - 64 - 64 * N.of_nat (length a)) with (i - 64 * N.of_nat (S (length a))) by lia.
      reflexivity.
Qed.

Lemma mem_w_split l k i : (k <= length l)%nat ->
  mem_w l i = if i <? 64 * N.of_nat k then mem_w (firstn k l) i
              else mem_w (skipn k l) (i - 64 * N.of_nat k).
Proof.
  intro H. rewrite <- (firstn_skipn k l) at 1. rewrite mem_w_app, firstn_length_le by exact H.
  reflexivity.
Qed.

Lemma mem_w_beyond l i : (length l <= w_idx i)%nat -> mem_w l i = false.
Proof. intro H. unfold mem_w, w_get. rewrite nth_overflow by exact H. apply N.bits_0. Qed.

(* ---------- Inject ---------- *)
Lemma testbit_ones n j : N.testbit (N.ones n) j = (j <? n).
Proof.
  destruct (j <? n) eqn:E.
  - apply N.ones_spec_low. lia.
  - apply N.ones_spec_high. lia.
Qed.

Lemma testbit_mod64 x j : N.testbit (x mod W64) j = (j <? 64) && N.testbit x j.
Proof.
  rewrite W64_pow. destruct (j <? 64) eqn:E.
  - apply N.mod_pow2_bits_low. lia.
  - apply N.mod_pow2_bits_high. lia.
Qed.

Lemma testbit_shiftl1 x j : N.testbit (N.shiftl x 1) j = negb (j =? 0) && N.testbit x (j - 1).
Proof.
  destruct (j =? 0) eqn:E.
  - apply N.shiftl_spec_low. lia.
  - cbn [negb andb]. apply N.shiftl_spec_high'. lia.
Qed.

Lemma w_inject_word_spec w lbit v j : small w -> lbit < 64 ->
  N.testbit (w_inject_word w lbit v) j =
  if j <? lbit then N.testbit w j
  else if j =? lbit then v
  else (j <? 64) && N.testbit w (j - 1).
Proof.
  intros Sw Hl. unfold w_inject_word.
  assert (Core : N.testbit (N.lor (N.land w (N.ones lbit)) (N.shiftl (N.ldiff w (N.ones lbit)) 1 mod W64)) j
          = if j <? lbit then N.testbit w j else if j =? lbit then false else (j <? 64) && N.testbit w (j - 1)).
  { rewrite N.lor_spec, N.land_spec, testbit_mod64, testbit_shiftl1, N.ldiff_spec, !testbit_ones.
    destruct (j <? lbit) eqn:E1.
    - replace (j - 1 <? lbit) with true by lia. cbn [negb]. rewrite !andb_false_r, andb_true_r, orb_false_r.
      reflexivity.
    - rewrite andb_false_r. cbn [orb].
      destruct (j =? lbit) eqn:E2.
      + destruct (j =? 0) eqn:E3; cbn [negb andb]; [apply andb_false_r|].
        replace (j - 1 <? lbit) with true by lia. cbn [negb]. rewrite !andb_false_r. reflexivity.
      + replace (j =? 0) with false by lia. replace (j - 1 <? lbit) with false by lia.
        cbn [negb andb]. rewrite andb_true_r. reflexivity. }
  destruct v.
  - rewrite N.lor_spec, Core, testbit_bitmask.
    destruct (j <? lbit) eqn:E1; [replace (j =? lbit) with false by lia; apply orb_false_r|].
    destruct (j =? lbit) eqn:E2; [reflexivity|apply orb_false_r].
  - exact Core.
Qed.

Lemma w_inject_word_small w lbit v : small w -> lbit < 64 -> small (w_inject_word w lbit v).
Proof.
  intros Sw Hl m Hm. rewrite w_inject_word_spec by assumption.
  replace (m <? lbit) with false by lia. replace (m =? lbit) with false by lia.
  replace (m <? 64) with false by lia. reflexivity.
Qed.

Lemma carry_bit w : small w -> (N.shiftr w 63 =? 1) = N.testbit w 63.
Proof.
  intro Sw. apply small_lt in Sw. rewrite W64_pow in Sw.
  assert (L : N.shiftr w 63 < 2).
  { rewrite N.shiftr_div_pow2. apply N.div_lt_upper_bound; [discriminate|].
    change (2 ^ 63 * 2) with (2 ^ 64). exact Sw. }
  replace (N.testbit w 63) with (N.testbit (N.shiftr w 63) 0)
    by (rewrite N.shiftr_spec'; reflexivity).
  destruct (N.shiftr w 63) as [|[p|p|]]; try reflexivity; lia.
Qed.

Lemma w_inject_words_spec ws : forall lbit v m, wfs ws -> lbit < 64 ->
  mem_w (w_inject_words ws lbit v) m =
  if m <? lbit then mem_w ws m else if m =? lbit then v else mem_w ws (m - 1).
Proof.
  induction ws as [|w r IH]; intros lbit v m H Hl.
  - cbn [w_inject_words]. rewrite !mem_w_nil. destruct v.
    + rewrite mem_w_cons, mem_w_nil, testbit_bitmask.
      destruct (m <? 64) eqn:E; destruct (m <? lbit) eqn:E1; destruct (m =? lbit) eqn:E2; try reflexivity; lia.
    + rewrite mem_w_nil. destruct (m <? lbit), (m =? lbit); reflexivity.
  - inversion H as [|? ? Sw Hr]; subst.
    cbn [w_inject_words]. rewrite !mem_w_cons.
    destruct (m <? 64) eqn:E.
    + rewrite w_inject_word_spec by assumption.
      destruct (m <? lbit) eqn:E1; [reflexivity|].
      destruct (m =? lbit) eqn:E2; [reflexivity|].
      rewrite E. replace (m - 1 <? 64) with true by lia. reflexivity.
    + rewrite (IH 0 _ (m - 64) Hr ltac:(lia)).
      replace (m <? lbit) with false by lia. replace (m =? lbit) with false by lia.
      replace (m - 64 <? 0) with false by lia.
      destruct (m - 64 =? 0) eqn:E3.
      * replace (m - 1 <? 64) with true by lia. replace (m - 1) with 63 by lia.
        apply carry_bit, Sw.
      * replace (m - 1 <? 64) with false by lia. replace (m - 64 - 1) with (m - 1 - 64) by lia.
        reflexivity.
Qed.

Lemma wfs_inject_words ws : forall lbit v, wfs ws -> lbit < 64 -> wfs (w_inject_words ws lbit v).
Proof.
  induction ws as [|w r IH]; intros lbit v H Hl.
  - cbn. destruct v; constructor; [apply small_bitmask, Hl|constructor].
  - inversion H; subst. cbn [w_inject_words]. constructor.
    + apply w_inject_word_small; assumption.
    + apply IH; [assumption|lia].
Qed.

Lemma wfs_firstn l : forall k, wfs l -> wfs (firstn k l).
Proof.
  induction l as [|w r IH]; intros [|k] H; cbn [firstn]; try constructor.
  - inversion H; assumption.
  - inversion H; subst. apply IH; assumption.
Qed.
Lemma wfs_skipn l : forall k, wfs l -> wfs (skipn k l).
Proof.
  induction l as [|w r IH]; intros [|k] H; cbn [skipn]; try assumption.
  inversion H; subst. apply IH; assumption.
Qed.

Lemma b_decomp b : b = 64 * N.of_nat (w_idx b) + w_bit b.
Proof. unfold w_idx, w_bit. rewrite N2Nat.id. lia. Qed.

Theorem w_inject_spec l b v i : wfs l ->
  mem_w (w_inject l b v) i = set_inject (mem_w l) b v i.
Proof.
  intro H. unfold w_inject, set_inject.
  pose proof (b_decomp b) as Db. pose proof (w_bit_lt b) as Lb.
  destruct (Nat.ltb (w_idx b) (length l)) eqn:E.
  - apply Nat.ltb_lt in E.
    rewrite mem_w_app, firstn_length_le by lia.
    rewrite w_inject_words_spec by (try apply wfs_skipn; assumption).
    rewrite (mem_w_split l (w_idx b) i) by lia.
    rewrite (mem_w_split l (w_idx b) (i - 1)) by lia.
    destruct (i <? 64 * N.of_nat (w_idx b)) eqn:E1.
    + replace (i <? b) with true by lia. reflexivity.
    + destruct (i - 64 * N.of_nat (w_idx b) <? w_bit b) eqn:E2.
      * replace (i <? b) with true by lia. reflexivity.
      * replace (i <? b) with false by lia.
        replace (i - 64 * N.of_nat (w_idx b) =? w_bit b) with (i =? b) by lia.
        destruct (i =? b) eqn:E3; [reflexivity|].
        replace (i - 1 <? 64 * N.of_nat (w_idx b)) with false by lia.
        replace (i - 64 * N.of_nat (w_idx b) - 1) with (i - 1 - 64 * N.of_nat (w_idx b)) by lia.
        reflexivity.
  - apply Nat.ltb_ge in E.
    assert (Far : forall x, b <= x -> mem_w l x = false).
    { intros x Hx. apply mem_w_beyond. unfold w_idx in *. 
      assert (b / 64 <= x / 64) by (apply N.div_le_mono; lia). lia. }
    destruct v.
    + rewrite w_set_spec. destruct (i <? b) eqn:E1.
      * replace (i =? b) with false by lia. reflexivity.
      * destruct (i =? b) eqn:E2; [reflexivity|]. cbn [orb]. rewrite !Far by lia. reflexivity.
    + destruct (i <? b) eqn:E1; [reflexivity|].
      destruct (i =? b) eqn:E2; [apply Far; lia|]. rewrite !Far by lia. reflexivity.
Qed.

Lemma wfs_inject l b v : wfs l -> wfs (w_inject l b v).
Proof.
  intro H. unfold w_inject. destruct (Nat.ltb (w_idx b) (length l)).
  - apply Forall_app. split; [apply wfs_firstn, H|].
    apply wfs_inject_words; [apply wfs_skipn, H|apply w_bit_lt].
  - destruct v; [apply wfs_set, H|exact H].
Qed.

(* ---------- Extract (ShortBitmask) ---------- *)
Lemma w_extract_word_spec w lbit c j : small w -> lbit < 64 ->
  N.testbit (w_extract_word w lbit c) j =
  if j <? lbit then N.testbit w j
  else if j =? 63 then c
  else (j <? 64) && N.testbit w (j + 1).
Proof.
  intros Sw Hl. unfold w_extract_word.
  assert (Core : N.testbit (N.lor (N.land w (N.ones lbit)) (N.ldiff (N.shiftr w 1) (N.ones lbit))) j
          = if j <? lbit then N.testbit w j else N.testbit w (j + 1)).
  { rewrite N.lor_spec, N.land_spec, N.ldiff_spec, N.shiftr_spec', !testbit_ones.
    destruct (j <? lbit); cbn [negb]; rewrite ?andb_true_r, ?andb_false_r, ?orb_false_r; reflexivity. }
  destruct c.
  - rewrite N.lor_spec, Core, testbit_bitmask.
    destruct (j <? lbit) eqn:E1; [replace (j =? 63) with false by lia; apply orb_false_r|].
    destruct (j =? 63) eqn:E2; [apply orb_true_r|]. rewrite orb_false_r.
    destruct (j <? 64) eqn:E3; [reflexivity|]. apply Sw. lia.
  - rewrite Core. destruct (j <? lbit) eqn:E1; [reflexivity|].
    destruct (j =? 63) eqn:E2; [apply Sw; lia|].
    destruct (j <? 64) eqn:E3; [reflexivity|]. apply Sw. lia.
Qed.

Lemma w_extract_word_small w lbit c : small w -> lbit < 64 -> small (w_extract_word w lbit c).
Proof.
  intros Sw Hl m Hm. rewrite w_extract_word_spec by assumption.
  replace (m <? lbit) with false by lia. replace (m =? 63) with false by lia.
  replace (m <? 64) with false by lia. reflexivity.
Qed.

Lemma w_extract_words_spec ws : forall lbit, wfs ws -> lbit < 64 ->
  snd (w_extract_words ws lbit) = mem_w ws lbit /\
  wfs (fst (w_extract_words ws lbit)) /\
  forall m, mem_w (fst (w_extract_words ws lbit)) m =
            if m <? lbit then mem_w ws m else mem_w ws (m + 1).
Proof.
  induction ws as [|w r IH]; intros lbit H Hl.
  - cbn. split; [symmetry; apply mem_w_nil|]. split; [constructor|].
    intro m. rewrite !mem_w_nil. destruct (m <? lbit); reflexivity.
  - inversion H as [|? ? Sw Hr]; subst.
    cbn [w_extract_words]. destruct (IH 0 Hr ltac:(lia)) as (R & W & M).
    destruct (w_extract_words r 0) as [r' c]. cbn [fst snd] in *.
    split; [rewrite mem_w_cons; replace (lbit <? 64) with true by lia; reflexivity|].
    split; [constructor; [apply w_extract_word_small; assumption|exact W]|].
    intro m. rewrite !mem_w_cons.
    destruct (m <? 64) eqn:E.
    + rewrite w_extract_word_spec by assumption.
      destruct (m <? lbit) eqn:E1; [reflexivity|].
      destruct (m =? 63) eqn:E2.
      * replace (m + 1 <? 64) with false by lia. replace (m + 1 - 64) with 0 by lia. exact R.
      * replace (m + 1 <? 64) with true by lia. rewrite E. reflexivity.
    + rewrite M. replace (m <? lbit) with false by lia. replace (m - 64 <? 0) with false by lia.
      replace (m + 1 <? 64) with false by lia. replace (m - 64 + 1) with (m + 1 - 64) by lia.
      reflexivity.
Qed.

Theorem s_extract_spec l b : wfs l ->
  snd (s_extract l b) = mem_w l b /\
  wfs (fst (s_extract l b)) /\
  forall i, mem_w (fst (s_extract l b)) i = set_extract (mem_w l) b i.
Proof.
  intro H. unfold s_extract, set_extract.
  pose proof (b_decomp b) as Db. pose proof (w_bit_lt b) as Lb.
  destruct (Nat.ltb (w_idx b) (length l)) eqn:E.
  - apply Nat.ltb_lt in E.
    destruct (w_extract_words_spec (skipn (w_idx b) l) (w_bit b) (wfs_skipn _ _ H) Lb) as (R & W & M).
    destruct (w_extract_words (skipn (w_idx b) l) (w_bit b)) as [t res]. cbn [fst snd] in *.
    split.
    + rewrite R, (mem_w_split l (w_idx b) b) by lia.
      replace (b <? 64 * N.of_nat (w_idx b)) with false by lia.
      replace (b - 64 * N.of_nat (w_idx b)) with (w_bit b) by lia. reflexivity.
    + split; [apply Forall_app; split; [apply wfs_firstn, H|exact W]|].
      intro i. rewrite mem_w_app, firstn_length_le by lia. rewrite M.
      rewrite (mem_w_split l (w_idx b) i) by lia.
      rewrite (mem_w_split l (w_idx b) (i + 1)) by lia.
      destruct (i <? 64 * N.of_nat (w_idx b)) eqn:E1.
      * replace (i <? b) with true by lia. reflexivity.
      * replace (i - 64 * N.of_nat (w_idx b) <? w_bit b) with (i <? b) by lia.
        destruct (i <? b) eqn:E2; [reflexivity|].
        replace (i + 1 <? 64 * N.of_nat (w_idx b)) with false by lia.
        replace (i - 64 * N.of_nat (w_idx b) + 1) with (i + 1 - 64 * N.of_nat (w_idx b)) by lia.
        reflexivity.
  - apply Nat.ltb_ge in E. cbn [fst snd].
    assert (Far : forall x, b <= x -> mem_w l x = false).
    { intros x Hx. apply mem_w_beyond. unfold w_idx in *.
      assert (b / 64 <= x / 64) by (apply N.div_le_mono; lia). lia. }
    split; [symmetry; apply Far; lia|]. split; [exact H|].
    intro i. destruct (i <? b) eqn:E1; [reflexivity|]. rewrite !Far by lia. reflexivity.
Qed.

(* ---------- Len ---------- *)
Lemma size_bits w : w <> 0 -> N.testbit w (N.size w - 1) = true /\ forall j, N.size w <= j -> N.testbit w j = false.
Proof.
  intro H. rewrite N.size_log2 by exact H. split.
  - replace (N.succ (N.log2 w) - 1) with (N.log2 w) by lia. apply N.bit_log2. exact H.
  - intros j Hj. apply N.bits_above_log2. lia.
Qed.

Lemma size_le_64 w : small w -> N.size w <= 64.
Proof.
  intro S. destruct (N.eq_dec w 0) as [->|H]; [cbn; lia|].
  destruct (size_bits w H) as [B _]. destruct (N.le_gt_cases (N.size w) 64) as [L|L]; [exact L|].
  rewrite S in B by lia. discriminate.
Qed.

Lemma w_len_from_spec l : forall base, wfs l ->
  (forall m, mem_w l m = true -> base + m < w_len_from l base) /\
  (w_len_from l base = 0 \/
   (base < w_len_from l base /\ mem_w l (w_len_from l base - 1 - base) = true)).
Proof.
  induction l as [|w r IH]; intros base H.
  - split; [intros m; rewrite mem_w_nil; discriminate|left; reflexivity].
  - inversion H as [|? ? Sw Hr]; subst. destruct (IH (base + 64) Hr) as [U V].
    cbn [w_len_from]. cbv zeta.
    destruct (w_len_from r (base + 64) =? 0) eqn:E.
    + assert (Z : forall m, mem_w r m = false).
      { intro m. destruct (mem_w r m) eqn:Em; [|reflexivity]. specialize (U m Em). lia. }
      destruct (w =? 0) eqn:Ew.
      * split; [|left; reflexivity]. intros m. rewrite mem_w_cons, Z.
        replace w with 0 by lia. rewrite N.bits_0. destruct (m <? 64); discriminate.
      * assert (Hw : w <> 0) by lia. destruct (size_bits w Hw) as [B1 B2].
        pose proof (size_le_64 w Sw) as L64.
        assert (0 < N.size w) by (rewrite N.size_log2 by exact Hw; lia).
        split.
        -- intros m. rewrite mem_w_cons, Z. destruct (m <? 64) eqn:Em; [|discriminate].
           intro T. destruct (N.lt_ge_cases m (N.size w)) as [L|L]; [lia|].
           rewrite B2 in T by exact L. discriminate.
        -- right. split; [lia|]. rewrite mem_w_cons.
           replace (base + N.size w - 1 - base) with (N.size w - 1) by lia.
           replace (N.size w - 1 <? 64) with true by lia. exact B1.
    + destruct V as [V|[V1 V2]]; [lia|].
      split.
      * intros m. rewrite mem_w_cons. destruct (m <? 64) eqn:Em; [lia|].
        intro T. specialize (U _ T). lia.
      * right. split; [lia|]. rewrite mem_w_cons.
        replace (w_len_from r (base + 64) - 1 - base <? 64) with false by lia.
        replace (w_len_from r (base + 64) - 1 - base - 64) with (w_len_from r (base + 64) - 1 - (base + 64)) by lia.
        exact V2.
Qed.

Theorem w_len_spec l : wfs l ->
  (forall i, mem_w l i = true -> i < w_len l) /\
  (w_len l = 0 \/ mem_w l (w_len l - 1) = true).
Proof.
  intro H. destruct (w_len_from_spec l 0 H) as [U V]. unfold w_len. split.
  - intros i Hi. specialize (U i Hi). lia.
  - destruct V as [V|[V1 V2]]; [left; exact V|right].
    replace (w_len_from l 0 - 1 - 0) with (w_len_from l 0 - 1) in V2 by lia. exact V2.
Qed.

(* ---------- Next (LongBitmask) ---------- *)
Lemma testbit_double_0 p : N.testbit (N.pos p~0) 0 = false.
Proof. reflexivity. Qed.

Lemma pos_ctz_spec p : N.testbit (N.pos p) (pos_ctz p) = true /\
  forall j, j < pos_ctz p -> N.testbit (N.pos p) j = false.
Proof.
  induction p as [p IH|p IH|].
  - cbn [pos_ctz]. split; [reflexivity|]. intros j Hj. lia.
  - cbn [pos_ctz]. destruct IH as [I1 I2]. split.
    + change (N.pos p~0) with (2 * N.pos p). replace (1 + pos_ctz p) with (N.succ (pos_ctz p)) by lia.
      rewrite N.testbit_even_succ by lia. exact I1.
    + intros j Hj. destruct (N.eq_dec j 0) as [->|Hne]; [reflexivity|].
      change (N.pos p~0) with (2 * N.pos p). replace j with (N.succ (j - 1)) by lia.
      rewrite N.testbit_even_succ by lia. apply I2. lia.
  - cbn [pos_ctz]. split; [reflexivity|]. intros j Hj. lia.
Qed.

Lemma ctz_spec w : w <> 0 -> N.testbit w (ctz w) = true /\ forall j, j < ctz w -> N.testbit w j = false.
Proof. destruct w as [|p]; [contradiction|]. intros _. apply pos_ctz_spec. Qed.

Lemma w_next_from_spec l : forall base, wfs l ->
  match w_next_from l base with
  | Some p => exists m, p = base + m /\ mem_w l m = true /\ forall m', m' < m -> mem_w l m' = false
  | None => forall m, mem_w l m = false
  end.
Proof.
  induction l as [|w r IH]; intros base H.
  - cbn. apply mem_w_nil.
  - inversion H as [|? ? Sw Hr]; subst. cbn [w_next_from].
    destruct (w =? 0) eqn:Ew.
    + specialize (IH (base + 64) Hr). destruct (w_next_from r (base + 64)) as [p|].
      * destruct IH as (m & -> & M1 & M2). exists (m + 64). split; [lia|]. split.
        -- rewrite mem_w_cons. replace (m + 64 <? 64) with false by lia.
           replace (m + 64 - 64) with m by lia. exact M1.
        -- intros m' Hm. rewrite mem_w_cons. destruct (m' <? 64) eqn:E.
           ++ replace w with 0 by lia. apply N.bits_0.
           ++ apply M2. lia.
      * intro m. rewrite mem_w_cons. destruct (m <? 64).
        -- replace w with 0 by lia. apply N.bits_0.
        -- apply IH.
    + assert (Hw : w <> 0) by lia. destruct (ctz_spec w Hw) as [C1 C2].
      assert (ctz w < 64).
      { destruct (N.lt_ge_cases (ctz w) 64) as [L|L]; [exact L|]. rewrite Sw in C1 by exact L. discriminate. }
      exists (ctz w). split; [reflexivity|]. split.
      * rewrite mem_w_cons. replace (ctz w <? 64) with true by lia. exact C1.
      * intros m' Hm. rewrite mem_w_cons. replace (m' <? 64) with true by lia. apply C2, Hm.
Qed.

Theorem l_next_spec l b : wfs l ->
  match l_next l b with
  | Some p => b <= p /\ mem_w l p = true /\ forall i, b <= i -> i < p -> mem_w l i = false
  | None => forall i, b <= i -> mem_w l i = false
  end.
Proof.
  intro H. unfold l_next.
  pose proof (b_decomp b) as Db. pose proof (w_bit_lt b) as Lb.
  destruct (Nat.ltb (w_idx b) (length l)) eqn:E.
  - apply Nat.ltb_lt in E.
    pose proof (wfs_skipn l (w_idx b) H) as Hs.
    assert (Split : forall i, 64 * N.of_nat (w_idx b) <= i ->
                    mem_w l i = mem_w (skipn (w_idx b) l) (i - 64 * N.of_nat (w_idx b))).
    { intros i Hi. rewrite (mem_w_split l (w_idx b) i) by lia.
      replace (i <? 64 * N.of_nat (w_idx b)) with false by lia. reflexivity. }
    destruct (skipn (w_idx b) l) as [|w r] eqn:Es.
    + intros i Hi. rewrite Split by lia. apply mem_w_nil.
    + inversion Hs as [|? ? Sw Hr]; subst.
      set (w' := N.shiftl (N.shiftr w (w_bit b)) (w_bit b)).
      assert (Bw' : forall j, N.testbit w' j = (w_bit b <=? j) && N.testbit w j).
      { intro j. unfold w'. destruct (w_bit b <=? j) eqn:Ej.
        - rewrite N.shiftl_spec_high' by lia. rewrite N.shiftr_spec'.
          replace (j - w_bit b + w_bit b) with j by lia. reflexivity.
        - apply N.shiftl_spec_low. lia. }
      assert (Sw' : small w') by (intros m Hm; rewrite Bw', Sw by exact Hm; apply andb_false_r).
      assert (M' : forall m, mem_w (w' :: r) m = (w_bit b <=? m) && mem_w (w :: r) m).
      { intro m. rewrite !mem_w_cons. destruct (m <? 64) eqn:Em; [apply Bw'|].
        replace (w_bit b <=? m) with true by lia. reflexivity. }
      pose proof (w_next_from_spec (w' :: r) (64 * (b / 64)) ltac:(constructor; assumption)) as N.
      replace (64 * (b / 64)) with (64 * N.of_nat (w_idx b)) in * by (unfold w_idx; lia).
      destruct (w_next_from (w' :: r) (64 * N.of_nat (w_idx b))) as [p|].
      * destruct N as (m & -> & N1 & N2). rewrite M' in N1. apply andb_true_iff in N1.
        destruct N1 as [N1a N1b]. split; [lia|]. split.
        -- rewrite Split by lia. replace (64 * N.of_nat (w_idx b) + m - 64 * N.of_nat (w_idx b)) with m by lia.
           exact N1b.
        -- intros i Hi1 Hi2. rewrite Split by lia.
           specialize (N2 (i - 64 * N.of_nat (w_idx b)) ltac:(lia)). rewrite M' in N2.
           replace (w_bit b <=? i - 64 * N.of_nat (w_idx b)) with true in N2 by lia. exact N2.
      * intros i Hi. rewrite Split by lia.
        specialize (N (i - 64 * N.of_nat (w_idx b))). rewrite M' in N.
        replace (w_bit b <=? i - 64 * N.of_nat (w_idx b)) with true in N by lia. exact N.
  - apply Nat.ltb_ge in E. intros i Hi. apply mem_w_beyond. unfold w_idx in *.
    assert (b / 64 <= i / 64) by (apply N.div_le_mono; lia). lia.
Qed.

(* ---------- OnesCount ---------- *)
Lemma count_upto_add f a : forall b,
  count_upto f (a + b) = count_upto f a + count_upto (fun i => f (i + N.of_nat a)) b.
Proof.
  induction b as [|b IH].
  - rewrite Nat.add_0_r. cbn [count_upto]. lia.
  - rewrite Nat.add_succ_r. cbn [count_upto]. rewrite IH.
    replace (N.of_nat b + N.of_nat a) with (N.of_nat (a + b)) by lia. lia.
Qed.

Lemma count_upto_shift f n :
  count_upto f (S n) = (if f 0 then 1 else 0) + count_upto (fun i => f (i + 1)) n.
Proof.
  change (S n) with (1 + n)%nat. rewrite count_upto_add. cbn [count_upto].
  change (N.of_nat 0) with 0. change (N.of_nat 1) with 1. destruct (f 0); lia.
Qed.

Lemma pos_popcount_spec p : forall n,
  (forall j, N.of_nat n <= j -> N.testbit (N.pos p) j = false) ->
  pos_popcount p = count_upto (N.testbit (N.pos p)) n.
Proof.
  induction p as [p IH|p IH|]; intros n H.
  - destruct n as [|n]; [specialize (H 0 ltac:(lia)); discriminate|].
    rewrite count_upto_shift. cbn [pos_popcount]. change (N.testbit (N.pos p~1) 0) with true. cbv iota.
    rewrite (IH n).
    + f_equal. apply count_upto_ext. intros i _. change (N.pos p~1) with (2 * N.pos p + 1).
      replace (i + 1) with (N.succ i) by lia. rewrite N.testbit_odd_succ by lia. reflexivity.
    + intros j Hj. specialize (H (N.succ j) ltac:(lia)). change (N.pos p~1) with (2 * N.pos p + 1) in H.
      rewrite N.testbit_odd_succ in H by lia. exact H.
  - destruct n as [|n].
    { exfalso. assert (Z : N.pos p~0 = 0) by (apply N.bits_inj_0; intro j; apply H; lia). discriminate. }
    rewrite count_upto_shift. cbn [pos_popcount]. change (N.testbit (N.pos p~0) 0) with false. cbv iota.
    rewrite (IH n).
    + rewrite N.add_0_l. apply count_upto_ext. intros i _. change (N.pos p~0) with (2 * N.pos p).
      replace (i + 1) with (N.succ i) by lia. rewrite N.testbit_even_succ by lia. reflexivity.
    + intros j Hj. specialize (H (N.succ j) ltac:(lia)). change (N.pos p~0) with (2 * N.pos p) in H.
      rewrite N.testbit_even_succ in H by lia. exact H.
  - destruct n as [|n]; [specialize (H 0 ltac:(lia)); discriminate|].
    rewrite count_upto_shift. cbn [pos_popcount]. change (N.testbit 1 0) with true. cbv iota.
    rewrite count_upto_false; [reflexivity|].
    intros i _. replace (i + 1) with (N.succ i) by lia. change 1 with (2 * 0 + 1).
    rewrite N.testbit_odd_succ by lia. apply N.bits_0.
Qed.

Lemma popcount_spec w : small w -> popcount w = count_upto (N.testbit w) 64.
Proof.
  intro S. destruct w as [|p].
  - cbn [popcount]. symmetry. apply count_upto_false. intros. apply N.bits_0.
  - cbn [popcount]. apply pos_popcount_spec. intros j Hj. apply S. lia.
Qed.

Theorem w_count_spec l : wfs l -> w_count l = count_upto (mem_w l) (64 * length l).
Proof.
  induction l as [|w r IH]; intro H; [reflexivity|].
  inversion H as [|? ? Sw Hr]; subst.
  cbn [w_count length]. replace (64 * S (length r))%nat with (64 + 64 * length r)%nat by lia.
  rewrite count_upto_add, (IH Hr), (popcount_spec w Sw).
  rewrite (count_upto_ext (mem_w (w :: r)) (N.testbit w) 64).
  2:{ intros i Hi. change (N.of_nat 64) with 64 in Hi. rewrite mem_w_cons.
      replace (i <? 64) with true by lia. reflexivity. }
  rewrite (count_upto_ext (fun i => mem_w (w :: r) (i + N.of_nat 64)) (mem_w r) (64 * length r)).
  2:{ intros i Hi. change (N.of_nat 64) with 64. rewrite mem_w_cons.
      replace (i + 64 <? 64) with false by lia. replace (i + 64 - 64) with i by lia. reflexivity. }
  reflexivity.
Qed.
