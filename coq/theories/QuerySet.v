(* QuerySet.v -- soundness of ConditionsSet.Clean: absorption loop and the simple-ID fast path. *)
From Coq Require Import List NArith ZArith Bool Lia Permutation.
From Pk Require Import Query QuerySort QueryClean QueryFlags QueryHosts QueryOps.
Import ListNotations.
Open Scope Z_scope.

(* ------------------------------------------------------------------ equal() is Leibniz equality *)
Lemma tag_eqb_eq a b : tag_eqb a b = true -> a = b.
Proof.
  unfold tag_eqb. intros H. apply andb_true_iff in H as [H H3]. apply andb_true_iff in H as [H1 H2].
  apply N.eqb_eq in H1, H2, H3. destruct a, b; simpl in *; subst; reflexivity.
Qed.
Lemma flag_eqb_eq a b : flag_eqb a b = true -> a = b.
Proof.
  unfold flag_eqb. intros H. apply andb_true_iff in H as [H H3]. apply andb_true_iff in H as [H1 H2].
  apply N.eqb_eq in H2, H3. apply Nl_eqb_eq in H1. destruct a, b; simpl in *; subst; reflexivity.
Qed.
Lemma host_eqb_eq a b : host_eqb a b = true -> a = b.
Proof.
  unfold host_eqb. intros H. apply andb_true_iff in H as [H H5]. apply andb_true_iff in H as [H H4].
  apply andb_true_iff in H as [H H3]. apply andb_true_iff in H as [H1 H2].
  apply Nl_eqb_eq in H2, H3, H4. apply eqb_prop in H5. apply list_eqb_eq in H1; [|apply src_eqb_eq].
  destruct a, b; simpl in *; subst; reflexivity.
Qed.
Lemma num_eqb_eq a b : num_eqb a b = true -> a = b.
Proof.
  unfold num_eqb. intros H. apply andb_true_iff in H as [H1 H2]. apply Z.eqb_eq in H2.
  apply list_eqb_eq in H1; [|apply nsum_eqb_eq]. destruct a, b; simpl in *; subst; reflexivity.
Qed.
Lemma time_eqb_eq a b : time_eqb a b = true -> a = b.
Proof.
  unfold time_eqb. intros H. apply andb_true_iff in H as [H H3]. apply andb_true_iff in H as [H1 H2].
  apply Z.eqb_eq in H2, H3. apply list_eqb_eq in H1; [|apply tsum_eqb_eq]. destruct a, b; simpl in *; subst; reflexivity.
Qed.
Lemma data_eqb_eq a b : data_eqb a b = true -> a = b.
Proof.
  unfold data_eqb. intros H. apply andb_true_iff in H as [H1 H2]. apply eqb_prop in H2. apply Nl_eqb_eq in H1.
  destruct a, b; simpl in *; subst; reflexivity.
Qed.
Lemma cond_eqb_eq a b : cond_eqb a b = true -> a = b.
Proof.
  destruct a, b; simpl; intros H; try discriminate; try reflexivity; f_equal;
    auto using tag_eqb_eq, flag_eqb_eq, host_eqb_eq, num_eqb_eq, time_eqb_eq, data_eqb_eq.
Qed.
Lemma conj_eqb_eq a b : conj_eqb a b = true -> a = b.
Proof. apply list_eqb_eq. apply cond_eqb_eq. Qed.

(* ------------------------------------------------------------------ the absorption loop *)
Lemma eval_set_cons v c cs : eval_set v (c :: cs) = eval_conj v c || eval_set v cs.
Proof. reflexivity. Qed.

Lemma cset_wf_app a b : cset_wf a -> cset_wf b -> cset_wf (a ++ b).
Proof. intros; apply Forall_app; split; auto. Qed.
Lemma cset_wf_rev a : cset_wf a -> cset_wf (rev a).
Proof. intros H. apply Forall_rev. exact H. Qed.

Lemma absorb_sound v (ok : val_ok v) cc : conj_wf cc -> forall rest seen new',
  cset_wf rest -> cset_wf seen -> absorb cc seen rest = Some new' ->
  eval_set v new' = eval_conj v cc || eval_set v (rev seen ++ rest) /\ cset_wf new'.
Proof.
  intros Hcc. induction rest as [|c2 r IH]; intros seen new' Wr Ws H; cbn [absorb] in H; [discriminate|].
  inversion Wr as [|? ? Wc2 Wr']; subst.
  destruct (conj_and_sound v ok cc c2 Hcc Wc2) as [Ea Wa].
  destruct (conj_clean_sound v ok (conj_and cc c2) Wa) as [Ec _].
  rewrite Ea in Ec. remember (conj_clean (conj_and cc c2)) as anded eqn:Hand. clear Hand Ea Wa.
  rewrite eval_set_app, eval_set_cons.
  destruct (conj_eqb c2 cc) eqn:E1.
  - apply conj_eqb_eq in E1. injection H as <-. split; [|apply cset_wf_app; auto using cset_wf_rev].
    rewrite eval_set_app, eval_set_cons. rewrite E1.
    destruct (eval_conj v cc), (eval_set v (rev seen)), (eval_set v r); reflexivity.
  - destruct (conj_eqb anded cc) eqn:E2.
    + apply conj_eqb_eq in E2. injection H as <-. split; [|apply cset_wf_app; auto using cset_wf_rev].
      rewrite eval_set_app, eval_set_cons. rewrite E2 in Ec.
      destruct (eval_conj v cc), (eval_conj v c2), (eval_set v (rev seen)), (eval_set v r); try reflexivity; discriminate.
    + destruct (conj_eqb anded c2) eqn:E3.
      * apply conj_eqb_eq in E3. injection H as <-. split.
        -- rewrite eval_set_app, eval_set_cons. rewrite E3 in Ec.
           destruct (eval_conj v cc), (eval_conj v c2), (eval_set v (rev seen)), (eval_set v r); try reflexivity; discriminate.
        -- apply cset_wf_app; [apply cset_wf_rev; auto|]. constructor; auto.
      * specialize (IH (c2 :: seen) new' Wr' (Forall_cons _ Wc2 Ws) H).
        cbn [rev] in IH. rewrite <- app_assoc in IH. cbn [app] in IH.
        rewrite eval_set_app, eval_set_cons in IH. exact IH.
Qed.

Lemma conj_impossible_eval v c : conj_impossible c = true -> eval_conj v c = false.
Proof. destruct c as [|[] [|]]; simpl; try discriminate. reflexivity. Qed.

Lemma clean_loop_sound v (ok : val_ok v) cs : forall new,
  cset_wf cs -> cset_wf new ->
  eval_set v (clean_loop cs new) = eval_set v cs || eval_set v new /\ cset_wf (clean_loop cs new).
Proof.
  induction cs as [|cc0 r IH]; intros new Wc Wn; cbn [clean_loop]; [split; [reflexivity|exact Wn]|].
  inversion Wc as [|? ? W0 Wr]; subst.
  destruct (conj_clean_sound v ok cc0 W0) as [E0 W1]. set (cc := conj_clean cc0) in *.
  rewrite eval_set_cons, <- E0.
  destruct (conj_impossible cc) eqn:Ei.
  - rewrite (conj_impossible_eval v cc Ei). apply IH; auto.
  - destruct (absorb cc [] new) as [new'|] eqn:Ea.
    + destruct (absorb_sound v ok cc W1 new [] new' Wn (Forall_nil _) Ea) as [En Wn'].
      destruct (IH new' Wr Wn') as [E W]. split; [|exact W]. rewrite E, En. cbn [rev app].
      destruct (eval_set v r), (eval_conj v cc), (eval_set v new); reflexivity.
    + destruct (IH (new ++ [cc]) Wr) as [E W]; [apply cset_wf_app; auto; constructor; auto; constructor|].
      split; [|exact W]. rewrite E, eval_set_app, eval_set_cons. cbn [eval_set existsb].
      destruct (eval_set v r), (eval_conj v cc), (eval_set v new); reflexivity.
Qed.

(* ------------------------------------------------------------------ the simple-ID fast path *)
Definition idv (v : valuation) : Z := s_num (v_str v 0%N) 0%N.
Definition ids_ok (v : valuation) : Prop := idv v <= max_uint.

Lemma eval_id_ge v (n : Z) : eval_cond v (CNum (mkNum [mkNs 0 0 1] n)) = (- n <=? idv v).
Proof.
  cbn [eval_cond]. unfold eval_num. rewrite num_value_eq. cbn [n_sums n_num sums_val fold_right].
  unfold nsum_val. cbn [ns_fac ns_sub ns_ty]. fold (idv v).
  destruct (Z.leb_spec 0 (n + (1 * idv v + 0))), (Z.leb_spec (- n) (idv v)); try reflexivity; lia.
Qed.
Lemma eval_id_le v (n : Z) : eval_cond v (CNum (mkNum [mkNs 0 0 (-1)] n)) = (idv v <=? n).
Proof.
  cbn [eval_cond]. unfold eval_num. rewrite num_value_eq. cbn [n_sums n_num sums_val fold_right].
  unfold nsum_val. cbn [ns_fac ns_sub ns_ty]. fold (idv v).
  destruct (Z.leb_spec 0 (n + (-1 * idv v + 0))), (Z.leb_spec (idv v) n); try reflexivity; lia.
Qed.

Lemma extract_id_sound v (ok : val_ok v) c : forall mn mx mn' mx',
  extract_id c mn mx = Some (mn', mx') ->
  eval_conj v c && (mn <=? idv v) && (idv v <=? mx) = (mn' <=? idv v) && (idv v <=? mx').
Proof.
  assert (Hid : 0 <= idv v) by (unfold idv; destruct (ok 0%N) as (Hn & _); apply Hn).
  induction c as [|x c IH]; intros mn mx mn' mx' H; cbn [extract_id] in H.
  - inversion H; subst. reflexivity.
  - destruct x as [| | |n| | |]; try discriminate.
    destruct (n_sums n) as [|s [|s2 ss]] eqn:Es; try discriminate.
    destruct (N.eqb_spec (ns_ty s) 0) as [Ety|]; cbn [andb negb] in H; [|discriminate].
    destruct (N.eqb_spec (ns_sub s) 0) as [Esub|]; cbn [andb negb] in H; [|discriminate].
    assert (Hn : n = mkNum [mkNs 0 0 (ns_fac s)] (n_num n)).
    { destruct n as [sums num]; cbn in *. subst sums. destruct s; cbn in *; subst. reflexivity. }
    unfold eval_conj. cbn [forallb]. fold (eval_conj v c).
    destruct (Z.eqb_spec (ns_fac s) 1) as [E1|E1].
    + rewrite Hn, E1, eval_id_ge. specialize (IH _ _ _ _ H). rewrite <- IH.
      destruct (Z.leb_spec (n_num n) 0); cbn [andb];
        [destruct (Z.ltb_spec mn (- n_num n))|];
        destruct (eval_conj v c), (Z.leb_spec (- n_num n) (idv v)), (Z.leb_spec mn (idv v)), (Z.leb_spec (idv v) mx);
        cbn; try reflexivity; try lia;
        repeat match goal with |- context [?a <=? ?b] => destruct (Z.leb_spec a b) end; cbn; try reflexivity; lia.
    + destruct (Z.eqb_spec (ns_fac s) (-1)) as [E2|E2]; [|discriminate].
      destruct (Z.ltb_spec (n_num n) 0) as [Hneg|Hnn]; [discriminate|].
      rewrite Hn, E2, eval_id_le. specialize (IH _ _ _ _ H). rewrite <- IH.
      destruct (Z.ltb_spec (n_num n) mx);
        destruct (eval_conj v c), (Z.leb_spec (idv v) (n_num n)), (Z.leb_spec mn (idv v)), (Z.leb_spec (idv v) mx);
        cbn; try reflexivity; try lia;
        repeat match goal with |- context [?a <=? ?b] => destruct (Z.leb_spec a b) end; cbn; try reflexivity; lia.
Qed.

Lemma simple_ids_sound v (ok : val_ok v) (iok : ids_ok v) cs : forall ids,
  cset_wf cs -> simple_ids cs = Some ids -> eval_set v cs = existsb (fun m => Z.eqb (idv v) m) ids.
Proof.
  assert (Hid : 0 <= idv v) by (unfold idv; destruct (ok 0%N) as (Hn & _); apply Hn).
  induction cs as [|cc r IH]; intros ids Hw H; cbn [simple_ids] in H; [inversion H; reflexivity|].
  inversion Hw as [|? ? Wc Wr]; subst.
  destruct (conj_clean_sound v ok cc Wc) as [Ec _].
  destruct (extract_simple_id (conj_clean cc)) as [[mn mx]|] eqn:Ex; [|discriminate].
  destruct (Z.eqb_spec mn mx) as [Em|]; [|discriminate]. subst mx.
  destruct (simple_ids r) as [l|] eqn:Er; [|discriminate]. inversion H; subst.
  rewrite eval_set_cons, (IH l Wr eq_refl). cbn [existsb]. f_equal.
  rewrite <- Ec. unfold extract_simple_id in Ex. destruct (conj_clean cc) as [|x0 c0] eqn:Ecc; [discriminate|]. rewrite <- Ecc in *.
  pose proof (extract_id_sound v ok _ _ _ _ _ Ex) as Hs. unfold ids_ok in iok.
  destruct (Z.leb_spec 0 (idv v)); [|lia]. destruct (Z.leb_spec (idv v) max_uint); [|lia].
  rewrite !andb_true_r in Hs. rewrite Hs.
  destruct (Z.eqb_spec (idv v) mn), (Z.leb_spec mn (idv v)), (Z.leb_spec (idv v) mn); cbn; try reflexivity; lia.
Qed.

Lemma existsb_perm {A} (f : A -> bool) l l' : Permutation l l' -> existsb f l = existsb f l'.
Proof.
  induction 1; simpl; auto; try congruence.
  destruct (f x), (f y); reflexivity.
Qed.

Lemma zuniq_exists (f : Z -> bool) a rest : existsb f (zuniq a rest) = existsb f (a :: rest).
Proof.
  revert a; induction rest as [|b r IH]; intros a; cbn [zuniq]; [reflexivity|].
  destruct (Z.eqb_spec a b) as [->|].
  - rewrite IH. simpl. destruct (f b); reflexivity.
  - cbn [existsb]. rewrite IH. reflexivity.
Qed.

Lemma id_range_eval v mn mx : eval_conj v (id_range_conj (mn, mx)) = (mn <=? idv v) && (idv v <=? mx).
Proof.
  unfold id_range_conj, eval_conj. cbn [forallb fst snd]. rewrite eval_id_ge, eval_id_le, Z.opp_involutive, andb_true_r.
  reflexivity.
Qed.

Lemma id_runs_sound v : forall rest mn mx, mn <= mx ->
  eval_set v (map id_range_conj (id_runs mn mx rest)) =
  ((mn <=? idv v) && (idv v <=? mx)) || existsb (fun m => Z.eqb (idv v) m) rest.
Proof.
  induction rest as [|b r IH]; intros mn mx Hle; cbn [id_runs].
  - cbn [map eval_set existsb]. rewrite id_range_eval. reflexivity.
  - destruct (Z.eqb_spec b (mx + 1)) as [->|Hne].
    + rewrite IH by lia. cbn [existsb].
      destruct (Z.leb_spec mn (idv v)), (Z.leb_spec (idv v) (mx + 1)), (Z.leb_spec (idv v) mx), (Z.eqb_spec (idv v) (mx + 1));
        cbn; try reflexivity; lia.
    + cbn [map]. rewrite eval_set_cons, id_range_eval, IH by lia. cbn [existsb].
      destruct (Z.leb_spec b (idv v)), (Z.leb_spec (idv v) b), (Z.eqb_spec (idv v) b); cbn; try lia;
        rewrite ?orb_false_r, ?orb_true_r; reflexivity.
Qed.

Lemma clean_simple_id_sound v (ok : val_ok v) (iok : ids_ok v) cs c :
  cset_wf cs -> clean_simple_id cs = Some c -> eval_set v c = eval_set v cs.
Proof.
  intros Hw H. unfold clean_simple_id in H. destruct cs as [|c0 cs0] eqn:Ecs; [discriminate|]. rewrite <- Ecs in *.
  destruct (simple_ids cs) as [ids|] eqn:Ei; [|discriminate].
  rewrite (simple_ids_sound v ok iok cs ids Hw Ei).
  pose proof (isort_perm (fun x : Z => [x]) ids) as Hp.
  rewrite <- (existsb_perm _ _ _ Hp).
  destruct (isort (fun x : Z => [x]) ids) as [|a r]; [inversion H; reflexivity|].
  rewrite <- zuniq_exists.
  destruct (zuniq a r) as [|m r']; [inversion H; reflexivity|]. inversion H; subst.
  rewrite id_runs_sound by lia. cbn [existsb].
  destruct (Z.leb_spec m (idv v)), (Z.leb_spec (idv v) m), (Z.eqb_spec (idv v) m); cbn; try reflexivity; lia.
Qed.

(* ------------------------------------------------------------------ ConditionsSet.Clean *)
Theorem set_clean_sound v (ok : val_ok v) (iok : ids_ok v) cs :
  cset_wf cs -> eval_set v (set_clean cs) = eval_set v cs.
Proof.
  intros Hw. unfold set_clean.
  destruct (clean_simple_id cs) as [c|] eqn:Ef; [eapply clean_simple_id_sound; eauto|].
  destruct (clean_loop_sound v ok cs [] Hw (Forall_nil _)) as [E _]. cbn [eval_set existsb] in E.
  rewrite orb_false_r in E.
  destruct (clean_loop cs []) as [|n0 nr] eqn:El.
  - destruct cs; [reflexivity|]. rewrite <- E. reflexivity.
  - exact E.
Qed.
