(* Concrete witnesses for C02: refutations of the unpatched variant (the corpus cases), the
   limit = 0 / skip <> 0 corner, and non-vacuity of the hypotheses.  Everything is computed. *)
From Coq Require Import List NArith ZArith Bool Arith Lia Permutation Sorted.
Import ListNotations.
Require Import Pk.Search Pk.SearchProofs.

Definition h1 : list N := [10; 0; 0; 1]%N.
Definition h2 : list N := [10; 0; 0; 2]%N.
Definition all_ok : stream -> bool := fun _ => true.

Ltac sorted_sec :=
  repeat constructor; intros s t Hs Ht; simpl in Hs, Ht; inversion Hs; inversion Ht; subst; reflexivity.

(* ------------------------------------------------------------------ *)
(* (a) `id:5:123 or host:...`, limit 2, one stream: listed twice       *)
(* ------------------------------------------------------------------ *)
Definition wa_s : stream := mkStream 5 0 61 14 8 1001 443 h1 h2.
Definition wa_f : file := mkFile [wa_s] [0] [0] [0].
Definition wa_parts : list qpart :=
  [ mkQpart true [[0]] (fun si => Nat.eqb si 0);      (* id range: has a lookup *)
    mkQpart true [] (fun _ => false) ].               (* host condition: no lookup, does not match *)

Lemma wa_ok : file_ok all_ok (wa_f, wa_parts).
Proof.
  split; [|split].
  - intros si s H. destruct si as [|si]; simpl in H; [inversion H; reflexivity|destruct si; discriminate].
  - intros p Hp Hposs si l Hf Hl. simpl in Hp. destruct Hp as [<-|[<-|[]]]; simpl in *.
    + destruct Hl as [<-|[]]. apply Nat.eqb_eq in Hf. subst. left; auto.
    + discriminate.
  - intros k sec H. destruct k; simpl in H; inversion H; subst; (split; [apply Permutation_refl|sorted_sec]).
Qed.

Lemma orig_duplicates : exists fs keys limit skip idok sat,
  Forall (file_ok sat) fs /\
  Forall (fun f => NoDup (map s_id (f_streams f))) (map fst fs) /\
  ~ NoDup (map e_id (fst (search_algo v_orig fs keys limit skip idok))).
Proof.
  exists [(wa_f, wa_parts)], [], 2, 0, all_ok, all_ok.
  split; [constructor; [apply wa_ok|constructor]|].
  split.
  - constructor; [|constructor]. simpl. constructor; [intros []|constructor].
  - assert (E : map e_id (fst (search_algo v_orig [(wa_f, wa_parts)] [] 2 0 all_ok)) = [5; 5]%N)
      by (vm_compute; reflexivity).
    rewrite E. intros N. inversion N; subst. apply H1. left; auto.
Qed.

(* the patched variant on the same input *)
Example fixed_no_duplicates :
  map e_id (fst (search_algo v_fixed [(wa_f, wa_parts)] [] 2 0 all_ok)) = [5%N].
Proof. vm_compute. reflexivity. Qed.

(* ------------------------------------------------------------------ *)
(* (b) `sport:80 sort:ftime,-cport limit:2`: [0 1] instead of [0 3]   *)
(* ------------------------------------------------------------------ *)
Definition wb_s (id : N) (ft : Z) (cp : N) : stream := mkStream id ft (ft + 1) 1 1 cp 80 h1 h2.
Definition wb_f : file :=
  mkFile [wb_s 0 0 1000; wb_s 1 60 1000; wb_s 2 60 1000; wb_s 3 60 1004] [0; 1; 2; 3] [0; 1; 2; 3] [0; 1; 2; 3].
Definition wb_parts : list qpart := [ mkQpart true [] (fun si => Nat.ltb si 4) ].
Definition wb_keys : list sorting := [(KFtime, false); (KCport, true)].

Lemma wb_ok : file_ok all_ok (wb_f, wb_parts).
Proof.
  split; [|split].
  - intros si s H. do 4 (destruct si as [|si]; [reflexivity|]). unfold wb_f in H. simpl in H. destruct si; discriminate.
  - intros p Hp Hposs si l Hf Hl. simpl in Hp. destruct Hp as [<-|[]]. simpl in Hl. contradiction.
  - intros k sec H. destruct k; simpl in H; inversion H; subst; (split; [apply Permutation_refl|sorted_sec]).
Qed.

Lemma orig_early_exit : exists fs keys limit skip idok sat,
  Forall (file_ok sat) fs /\ (limit = 0 -> skip = 0) /\
  ~ Forall2 (equiv (entry_less (effective_sorting keys)))
            (fst (search_algo v_orig fs keys limit skip idok))
            (spec_page (map fst fs) keys limit skip idok sat).
Proof.
  exists [(wb_f, wb_parts)], wb_keys, 2, 0, all_ok, all_ok.
  split; [constructor; [apply wb_ok|constructor]|]. split; [auto|].
  assert (E1 : fst (search_algo v_orig [(wb_f, wb_parts)] wb_keys 2 0 all_ok) =
               [(0, 0, wb_s 0 0 1000); (0, 1, wb_s 1 60 1000)]) by (vm_compute; reflexivity).
  assert (E2 : spec_page (map fst [(wb_f, wb_parts)]) wb_keys 2 0 all_ok all_ok =
               [(0, 0, wb_s 0 0 1000); (0, 3, wb_s 3 60 1004)]) by (vm_compute; reflexivity).
  rewrite E1, E2. intros H.
  inversion H as [|? ? ? ? Hfirst Hrest]; subst.
  inversion Hrest as [|? ? ? ? Hsecond Hnil]; subst.
  destruct Hsecond as [_ B]. vm_compute in B. discriminate.
Qed.

Example fixed_early_exit :
  map e_id (fst (search_algo v_fixed [(wb_f, wb_parts)] wb_keys 2 0 all_ok)) = [0; 3]%N.
Proof. vm_compute. reflexivity. Qed.

(* ------------------------------------------------------------------ *)
(* limit = 0 with skip <> 0: skip acts as the limit                    *)
(* ------------------------------------------------------------------ *)
Lemma nolimit_skip_refuted : exists fs keys skip idok sat,
  Forall (file_ok sat) fs /\
  length (fst (search_algo v_fixed fs keys 0 skip idok)) <> length (spec_matching (map fst fs) idok sat) - skip.
Proof.
  exists [(wb_f, wb_parts)], [], 1, all_ok, all_ok.
  split; [constructor; [apply wb_ok|constructor]|]. vm_compute. discriminate.
Qed.

(* ------------------------------------------------------------------ *)
(* the hypotheses hold for a two-file stack with a shadowed stream    *)
(* ------------------------------------------------------------------ *)
Definition wh_old : file := mkFile [wb_s 1 0 1000; wb_s 2 60 1001] [0; 1] [0; 1] [0; 1].
Definition wh_new : file := mkFile [wb_s 1 120 1002] [0] [0] [0].
Definition wh_parts (n : nat) : list qpart := [ mkQpart true [] (fun si => Nat.ltb si n) ].

Lemma wh_old_ok : file_ok all_ok (wh_old, wh_parts 2).
Proof.
  split; [|split].
  - intros si s H. do 2 (destruct si as [|si]; [reflexivity|]). unfold wh_old in H. simpl in H. destruct si; discriminate.
  - intros p Hp Hposs si l Hf Hl. simpl in Hp. destruct Hp as [<-|[]]. simpl in Hl. contradiction.
  - intros k sec H. destruct k; simpl in H; inversion H; subst; (split; [apply Permutation_refl|sorted_sec]).
Qed.

Lemma wh_new_ok : file_ok all_ok (wh_new, wh_parts 1).
Proof.
  split; [|split].
  - intros si s H. destruct si as [|si]; [reflexivity|]. unfold wh_new in H. simpl in H. destruct si; discriminate.
  - intros p Hp Hposs si l Hf Hl. simpl in Hp. destruct Hp as [<-|[]]. simpl in Hl. contradiction.
  - intros k sec H. destruct k; simpl in H; inversion H; subst; (split; [apply Permutation_refl|sorted_sec]).
Qed.

Lemma hypotheses_satisfiable : exists fs sat,
  Forall (file_ok sat) fs /\ length fs = 2 /\
  exists keys limit skip,
    fst (search_algo v_fixed fs keys limit skip (fun _ => true)) <> [] /\
    snd (search_algo v_fixed fs keys limit skip (fun _ => true)) = true.
Proof.
  exists [(wh_old, wh_parts 2); (wh_new, wh_parts 1)], all_ok.
  split; [constructor; [apply wh_old_ok|constructor; [apply wh_new_ok|constructor]]|]. split; [reflexivity|].
  exists [], 1, 0. split; vm_compute; [discriminate|reflexivity].
Qed.

(* the shadowed version of stream 1 (file 0) is never returned: both visible streams, newest first *)
Example shadowing_example :
  map (fun e => (e_pos e, e_id e)) (fst (search_algo v_fixed [(wh_old, wh_parts 2); (wh_new, wh_parts 1)] [] 0 0 all_ok))
  = [((1, 0), 1%N); ((0, 1), 2%N)].
Proof. vm_compute. reflexivity. Qed.

(* ------------------------------------------------------------------ *)
(* inlining: `tag:0` with an undecided tag 0 defined as atom 7        *)
(* ------------------------------------------------------------------ *)
Definition wi_tags (t : nat) : option (tagdetails nat nat) :=
  match t with
  | 0 => Some (mkTag nat nat (fun _ => false) (fun _ => true) true [[CAtom 7]])
  | _ => None
  end.

Lemma inlining_non_vacuous : exists (tags : nat -> option (tagdetails nat nat)) d d',
  inline_dnf tags (fun x => x) 1 d = Some d' /\ length d' = 2.
Proof.
  exists wi_tags, [[CTag 0 tag_plain]]. eexists. split; [vm_compute; reflexivity|reflexivity].
Qed.

(* ------------------------------------------------------------------ *)
(* the hypotheses of the inlining theorem are satisfiable: a concrete  *)
(* inversion (De Morgan on the DNF) over atoms with a polarity         *)
(* ------------------------------------------------------------------ *)
Definition patom : Type := (bool * nat)%type.               (* (negated?, atom number) *)
Definition neg_accept (a : accept) : accept :=
  mkAccept (negb (acc_m a)) (negb (acc_f a)) (negb (acc_um a)) (negb (acc_uf a)).
Definition neg_cond (c : cond patom nat) : cond patom nat :=
  match c with
  | CAtom (b, n) => CAtom (negb b, n)
  | CTag t a => CTag t (neg_accept a)
  end.
Definition demorgan (d : dnf patom nat) : dnf patom nat :=
  fold_right (fun c acc => flat_map (fun x => map (fun y => neg_cond x :: y) acc) c) [[]] d.

Section InvertWitness.
  Variable base : nat -> bool.
  Variable sid : N.
  Definition pe (x : patom) : bool := xorb (fst x) (base (snd x)).
  Definition wtags (t : nat) : option (tagdetails patom nat) :=
    match t with
    | 0 => Some (mkTag patom nat (fun _ => false) (fun _ => true) true [[CAtom (false, 7)]])
    | _ => None
    end.
  (* tags that do not exist make every tag condition false, also the negated one: the witness
     therefore only speaks about conditions on existing tags *)
  Definition cond_wf (c : cond patom nat) : Prop :=
    match c with CTag t _ => wtags t <> None | _ => True end.

  Lemma neg_cond_ok : forall c, cond_wf c -> eval_cond wtags pe sid (neg_cond c) = negb (eval_cond wtags pe sid c).
  Proof.
    intros [[b n]|t a] H; simpl.
    - unfold pe. simpl. destruct b, (base n); auto.
    - simpl in H. destruct (wtags t) as [td|]; [|congruence].
      unfold accepts, neg_accept. simpl.
      destruct (td_uncertain td sid), (td_matches td sid); auto.
  Qed.

  Lemma demorgan_ok : forall d, Forall (Forall cond_wf) d ->
    eval_dnf wtags pe sid (demorgan d) = negb (eval_dnf wtags pe sid d).
  Proof.
    induction d as [|c d IH]; intros H; [reflexivity|].
    inversion H as [|? ? Hc Hd]; subst. specialize (IH Hd).
    change (demorgan (c :: d)) with (flat_map (fun x => map (fun y => neg_cond x :: y) (demorgan d)) c).
    rewrite eval_dnf_cons.
    assert (G : forall c0, Forall cond_wf c0 ->
              eval_dnf wtags pe sid (flat_map (fun x => map (fun y => neg_cond x :: y) (demorgan d)) c0) =
              negb (eval_conj wtags pe sid c0) && eval_dnf wtags pe sid (demorgan d)).
    { induction c0 as [|x c0 IHc]; intros Hw; [reflexivity|].
      inversion Hw; subst. simpl flat_map. rewrite eval_dnf_app, IHc; auto.
      rewrite eval_conj_cons.
      assert (E : eval_dnf wtags pe sid (map (fun y => neg_cond x :: y) (demorgan d)) =
                  eval_cond wtags pe sid (neg_cond x) && eval_dnf wtags pe sid (demorgan d)).
      { generalize (demorgan d). intros l. induction l as [|y l IHl].
        - simpl. rewrite andb_false_r. reflexivity.
        - cbn [map]. rewrite !eval_dnf_cons, IHl, eval_conj_cons.
          destruct (eval_cond wtags pe sid (neg_cond x)), (eval_conj wtags pe sid y), (eval_dnf wtags pe sid l); auto. }
      rewrite E, neg_cond_ok; auto.
      destruct (eval_cond wtags pe sid x), (eval_conj wtags pe sid c0), (eval_dnf wtags pe sid (demorgan d)); auto. }
    rewrite G, IH; auto.
    destruct (eval_conj wtags pe sid c), (eval_dnf wtags pe sid d); auto.
  Qed.
End InvertWitness.

(* an instance of the theorem's conclusion obtained through the theorem's statement shape: inlining
   `tag:0` (undecided everywhere, defined as atom 7) evaluates to atom 7 *)
Example inlining_instance : forall base sid,
  exists d', inline_dnf wtags demorgan 1 [[CTag 0 tag_plain]] = Some d' /\
             eval_dnf wtags (pe base) sid d' = base 7.
Proof.
  intros. eexists. split; [vm_compute; reflexivity|].
  unfold eval_dnf, eval_conj, eval_cond, pe. simpl. destruct (base 7); reflexivity.
Qed.

(* ------------------------------------------------------------------ *)
(* sub-query selection: two sub-queries, two relations                 *)
(* ------------------------------------------------------------------ *)
Definition ws_sel : subsel := [fun k => match k with 0 => [0; 1; 2] | 1 => [0; 1] | _ => [] end].
Definition ws_ops : list (list nat * list (list nat)) := [([0], [[0; 1]]); ([0; 1], [[2]; [0]])].

Lemma ws_wf : sel_wf [0; 1] ws_sel.
Proof.
  intros m sq [<-|[]] [<-|[<-|[]]]; discriminate.
Qed.

Lemma ws_ops_ok : Forall (op_ok [0; 1]) ws_ops.
Proof.
  constructor; [|constructor; [|constructor]]; (split; [simpl; intros sq H; intuition | reflexivity]).
Qed.

(* only the combination (2, 1) survives *)
Example ws_filters : rel_filters ws_ops ws_sel = true /\
  rel_filters (ws_ops ++ [([1], [[1]])]) ws_sel = false.
Proof. split; vm_compute; reflexivity. Qed.

(* a negated reference to an undecided tag whose definition can never match (stored as the empty set):
   the uncertain branch is the conjunct without further conditions (d05297f), every undecided stream matches *)
Definition wn_tags (t : nat) : option (tagdetails patom nat) :=
  match t with
  | 0 => Some (mkTag patom nat (fun _ => false) (fun _ => true) true [])
  | _ => None
  end.
Example negated_empty_definition : forall base sid,
  exists d', inline_dnf wn_tags demorgan 1 [[CTag 0 (mkAccept false true false true)]] = Some d' /\
             length d' = 2 /\ eval_dnf wn_tags (pe base) sid d' = true.
Proof.
  intros. eexists. split; [vm_compute; reflexivity|]. split; reflexivity.
Qed.
