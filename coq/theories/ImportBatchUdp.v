(* The hypothesis of the batch theorem (ImportProofs: successive assembled stream lists EXTEND each other) is
   discharged for the UDP assembler: for chronological arrival (the feed of import k+1 is the feed of import k
   followed by the packets of the new captures) the stream lists of the slot machine -- which are the factory of
   Udp.udp_run for every hash function, and FromPcap's factory on UDP-only feeds for every snapshot interval --
   extend each other, up to the Complete flag (never written to the index).  Hence batched = one-shot for UDP, with the
   same ids, without any assumption on the assembler. *)
From Pk Require Import Udp UdpProofs UdpInterleave UdpReplay UdpSlots Import ImportProofs ImportSnapshot.
From Coq Require Import Lia PeanoNat Arith Sorting.Permutation.
From Coq Require Import ZifyBool ZifyN ZifyNat.

Definition W (F : list packet) : factory := map forget (map fst (fold_left sstep F [])).

Definition pkey (r : pref) : N * N := (fst (fst r), snd (fst r)).
Definition packet_key (p : packet) : N * N := (p_file p, p_idx p).

Lemma NoDup_app_disjoint {A} (l1 l2 : list A) z : NoDup (l1 ++ l2) -> In z l1 -> In z l2 -> False.
Proof.
  induction l1 as [|x l1 IH]; simpl; intros Hn H1 H2; [destruct H1|].
  inversion Hn; subst. destruct H1 as [->|H1]; [apply H3; apply in_or_app; auto|eauto].
Qed.

Lemma NoDup_app_l {A} (l1 l2 : list A) : NoDup (l1 ++ l2) -> NoDup l2.
Proof. induction l1; simpl; auto. intros H; inversion H; auto. Qed.

Lemma heads_distinct {A B K} (h : A -> list B) (g : B -> K) : forall sl,
  NoDup (map g (flat_map h sl)) ->
  forall i j x y a ta b tb, nth_error sl i = Some x -> h x = a :: ta -> nth_error sl j = Some y -> h y = b :: tb ->
  g a = g b -> i = j.
Proof.
  induction sl as [|z sl IH]; intros Hn i j x y a ta b tb Hi Hx Hj Hy E; [destruct i; discriminate|].
  simpl in Hn. rewrite map_app in Hn.
  destruct i as [|i], j as [|j]; simpl in *; auto.
  - exfalso. inversion Hi; subst z. apply (NoDup_app_disjoint _ _ (g a) Hn).
    + rewrite Hx. simpl. left; auto.
    + rewrite E. apply in_map. apply in_flat_map. exists y. split; [eapply nth_error_In; eauto|rewrite Hy; left; auto].
  - exfalso. inversion Hj; subst z. apply (NoDup_app_disjoint _ _ (g b) Hn).
    + rewrite Hy. simpl. left; auto.
    + rewrite <- E. apply in_map. apply in_flat_map. exists x. split; [eapply nth_error_In; eauto|rewrite Hx; left; auto].
  - f_equal. eapply IH; eauto. eapply NoDup_app_l; eauto.
Qed.

(* ---- well-formedness of the assembled list ---- *)
Lemma W_nth F j s : nth_error (W F) j = Some s ->
  exists x, nth_error (fold_left sstep F []) j = Some x /\ s = forget (fst x).
Proof.
  unfold W. rewrite !nth_error_map. destruct (nth_error (fold_left sstep F []) j) as [x|]; [|discriminate].
  simpl. intros H. inversion H. eauto.
Qed.

Lemma W_wf F : NoDup (map packet_key F) -> wf_factory (W F).
Proof.
  intros Hk.
  pose proof (grows_run F []) as (_ & _ & Hnew).
  pose proof (run_perm F []) as Hp. simpl in Hp.
  assert (Hnd : NoDup (map pkey (flat_map pk (fold_left sstep F [])))).
  { eapply Permutation_NoDup; [apply Permutation_map, Permutation_sym, Hp|]. rewrite map_map. exact Hk. }
  constructor.
  - intros j s Hj. destruct (W_nth _ _ _ Hj) as (x & Hx & ->).
    destruct (Hnew j x ltac:(simpl; lia) Hx) as [Hne _]. unfold pk in Hne.
    change (stream_packets (forget (fst x))) with (stream_packets (fst x)). intros E. rewrite E in Hne. auto.
  - intros i j si sj Hi Hj E. destruct (W_nth _ _ _ Hi) as (x & Hx & ->). destruct (W_nth _ _ _ Hj) as (y & Hy & ->).
    unfold first_source in E. change (stream_packets (forget (fst x))) with (stream_packets (fst x)) in E.
    change (stream_packets (forget (fst y))) with (stream_packets (fst y)) in E.
    destruct (Hnew i x ltac:(simpl; lia) Hx) as [Nx _]. destruct (Hnew j y ltac:(simpl; lia) Hy) as [Ny _].
    unfold pk in Nx, Ny.
    destruct (stream_packets (fst x)) as [|[ra da] ta] eqn:Ex; [simpl in Nx; congruence|].
    destruct (stream_packets (fst y)) as [|[rb db] tb] eqn:Ey; [simpl in Ny; congruence|].
    apply (heads_distinct pk pkey _ Hnd i j x y ra (map fst ta) rb (map fst tb)); auto.
    + unfold pk. rewrite Ex. reflexivity.
    + unfold pk. rewrite Ey. reflexivity.
    + unfold pkey. destruct ra as [[? ?] ?], rb as [[? ?] ?]. simpl in *. inversion E. reflexivity.
Qed.

(* ---- chronological arrival: the next assembled list extends the previous one ---- *)
Lemma from_new_pref nf (r : pref) d : from_new nf (r, d) = mem_file (fst (fst r)) nf.
Proof. reflexivity. Qed.

Theorem udp_extends nf F G :
  Forall (fun p => mem_file (p_file p) nf = false) F -> Forall (fun p => mem_file (p_file p) nf = true) G ->
  extends nf (W F) (W (F ++ G)).
Proof.
  intros HF HG.
  pose proof (grows_run F []) as (_ & _ & HnewF).
  assert (Hrun : fold_left sstep (F ++ G) [] = fold_left sstep G (fold_left sstep F [])) by apply fold_left_app.
  pose proof (grows_run G (fold_left sstep F [])) as (Hlen & Hold & Hnew).
  assert (HlenW : length (W F) = length (fold_left sstep F [])) by (unfold W; rewrite !map_length; reflexivity).
  assert (Hfile : forall (l : list packet) v, Forall (fun p => mem_file (p_file p) nf = v) l ->
            forall r, In r (map pref_of l) -> mem_file (fst (fst r)) nf = v).
  { intros l v Hl r Hr. apply in_map_iff in Hr as (p & <- & Hp). rewrite Forall_forall in Hl. apply Hl. exact Hp. }
  constructor.
  - intros j so Hj. destruct (W_nth _ _ _ Hj) as (x & Hx & ->).
    change (stream_packets (forget (fst x))) with (stream_packets (fst x)).
    destruct (HnewF j x ltac:(simpl; lia) Hx) as [_ Ix].
    split.
    + apply Forall_forall. intros [r d] Hr. rewrite from_new_pref. apply (Hfile F false HF).
      apply Ix. unfold pk. apply in_map_iff. exists (r, d). auto.
    + destruct (Hold j x Hx) as (x' & extra & Hx' & [Gp Gf] & Ie).
      exists (forget (fst x')). split.
      * unfold W. rewrite Hrun, !nth_error_map, Hx'. reflexivity.
      * destruct extra as [|e0 er].
        -- left. apply Gf. reflexivity.
        -- right. exists (e0 :: er). split; [discriminate|]. split; [exact Gp|].
           apply Forall_forall. intros [r d] Hr. rewrite from_new_pref. apply (Hfile G true HG).
           apply Ie. apply in_map_iff. exists (r, d). auto.
  - intros j sn Hj Hn. rewrite HlenW in Hj. unfold W in Hn. rewrite Hrun in Hn.
    rewrite !nth_error_map in Hn. destruct (nth_error (fold_left sstep G (fold_left sstep F [])) j) as [x'|] eqn:Ex; [|discriminate].
    simpl in Hn. inversion Hn; subst sn. change (stream_packets (forget (fst x'))) with (stream_packets (fst x')).
    destruct (Hnew j x' Hj Ex) as [Ne Ie]. split.
    + intros E. unfold pk in Ne. rewrite E in Ne. auto.
    + apply Forall_forall. intros [r d] Hr. rewrite from_new_pref. apply (Hfile G true HG).
      apply Ie. unfold pk. apply in_map_iff. exists (r, d). auto.
Qed.

(* ---- a sequence of chronological batches ---- *)
Fixpoint usteps (done : list packet) (bs : list (list N * list packet)) : list (list N * factory) :=
  match bs with
  | [] => []
  | (nf, G) :: r => (nf, W (done ++ G)) :: usteps (done ++ G) r
  end.

(* every batch brings packets of its own (new) capture files only, and (file, index) identifies a packet *)
Fixpoint batches_ok (done : list packet) (bs : list (list N * list packet)) : Prop :=
  match bs with
  | [] => True
  | (nf, G) :: r =>
      Forall (fun p => mem_file (p_file p) nf = false) done /\ Forall (fun p => mem_file (p_file p) nf = true) G /\
      NoDup (map packet_key (done ++ G)) /\ batches_ok (done ++ G) r
  end.

Lemma udp_chain : forall bs done, batches_ok done bs -> chain (W done) (usteps done bs).
Proof.
  induction bs as [|[nf G] r IH]; intros done H; simpl; [constructor|].
  destruct H as (H1 & H2 & H3 & H4). constructor; auto.
  - apply W_wf. exact H3.
  - apply udp_extends; auto.
Qed.

Lemma last_usteps : forall bs done, last_factory (W done) (usteps done bs) = W (done ++ flat_map snd bs).
Proof.
  induction bs as [|[nf G] r IH]; intros done; simpl.
  - rewrite app_nil_r. reflexivity.
  - rewrite last_factory_cons, IH, app_assoc. reflexivity.
Qed.

(* C08 theorem (2) for UDP, no assembler hypothesis: after any sequence of chronological batches a view shows under id j
   the j-th stream that ONE import of all packets assembles *)
Theorem udp_batches_visible : forall bs id, batches_ok [] bs ->
  newest (run_batches [] (usteps [] bs)) id = nth_error (W (flat_map snd bs)) (N.to_nat id).
Proof.
  intros bs id H. rewrite batches_visible by (apply (udp_chain bs [] H)).
  change (@nil stream) with (W []). rewrite last_usteps. reflexivity.
Qed.

Theorem udp_batched_equals_oneshot : forall bs allfiles id, batches_ok [] bs ->
  batches_ok [] [(allfiles, flat_map snd bs)] ->
  newest (run_batches [] (usteps [] bs)) id = newest (run_batches [] (usteps [] [(allfiles, flat_map snd bs)])) id.
Proof.
  intros bs allfiles id H1 H2. rewrite !udp_batches_visible by auto. simpl. rewrite app_nil_r. reflexivity.
Qed.

(* ------------------------------------------------------------------ the same with the real (un-forgotten) factories *)
Lemma first_source_forget s : first_source (forget s) = first_source s.
Proof. reflexivity. Qed.

Lemma index_lookup_forget ix src : index_lookup (map eforget ix) src = index_lookup ix src.
Proof. induction ix as [|[i s] r IH]; simpl; auto. rewrite first_source_forget, IH. reflexivity. Qed.

Lemma stack_lookup_forget stack src : stack_lookup (map (map eforget) stack) src = stack_lookup stack src.
Proof. induction stack as [|ix r IH]; simpl; auto. rewrite index_lookup_forget, IH. reflexivity. Qed.

Lemma classify_stack_ext nf s1 s2 : (forall src, stack_lookup s1 src = stack_lookup s2 src) ->
  forall pk0 id t, classify pk0 nf s1 id t = classify pk0 nf s2 id t.
Proof.
  intros H. induction pk0 as [|[r d] pk0 IH]; intros id t; simpl; auto.
  destruct (mem_file (fst (fst r)) nf); [destruct id; auto|].
  destruct id; auto. rewrite H. destruct t; auto.
Qed.

Lemma dump_stack_ext nf s1 s2 : (forall src, stack_lookup s1 src = stack_lookup s2 src) ->
  forall fac next acc, dump fac nf s1 next acc = dump fac nf s2 next acc.
Proof.
  intros H. induction fac as [|s fac IH]; intros next acc; simpl; auto.
  rewrite (classify_stack_ext nf s1 s2 H).
  destruct (classify (stream_packets s) nf s2 None false) as [[oid touched] cat].
  destruct (negb touched); apply IH.
Qed.

Lemma index_max_forget ix : index_max (map eforget ix) = index_max ix.
Proof.
  unfold index_max. generalize 0. induction ix as [|e ix IH]; intros m; simpl; auto.
Qed.

Lemma next_stream_id_forget stack : next_stream_id (map (map eforget) stack) = next_stream_id stack.
Proof.
  unfold next_stream_id. generalize 0. induction stack as [|ix r IH]; intros m; simpl; auto.
  rewrite index_max_forget. apply IH.
Qed.

Definition fstep (st : list N * factory) : list N * factory := (fst st, map forget (snd st)).

Lemma run_batches_forget : forall steps stack,
  run_batches (map (map eforget) stack) (map fstep steps) = map (map eforget) (run_batches stack steps).
Proof.
  induction steps as [|[nf Wk] r IH]; intros stack; simpl; auto.
  rewrite next_stream_id_forget.
  rewrite (dump_stack_ext nf _ stack (stack_lookup_forget stack)).
  pose proof (dump_forget nf stack Wk (next_stream_id stack) (mkResult [] 0 [] [] [])) as Hd.
  change (rforget (mkResult [] 0 [] [] [])) with (mkResult [] 0 [] [] []) in Hd. rewrite Hd.
  destruct (dump Wk nf stack (next_stream_id stack) (mkResult [] 0 [] [] [])) as [res nx']. simpl.
  rewrite <- IH. f_equal. unfold publish. destruct (r_index res); simpl; auto. rewrite map_app. reflexivity.
Qed.

Lemma index_get_forget ix id : index_get (map eforget ix) id = option_map forget (index_get ix id).
Proof. induction ix as [|[i s] r IH]; simpl; auto. destruct (i =? id); auto. Qed.

Lemma newest_forget stack id : newest (map (map eforget) stack) id = option_map forget (newest stack id).
Proof.
  induction stack as [|ix r IH] using rev_ind; [reflexivity|].
  rewrite map_app. simpl. rewrite !newest_app, index_get_forget, IH. destruct (index_get ix id); reflexivity.
Qed.

(* the factories FromPcap really holds (Complete flags as the run left them) *)
Definition Wr (F : list packet) : factory := map fst (fold_left sstep F []).
Fixpoint rsteps (done : list packet) (bs : list (list N * list packet)) : list (list N * factory) :=
  match bs with [] => [] | (nf, G) :: r => (nf, Wr (done ++ G)) :: rsteps (done ++ G) r end.

Lemma usteps_rsteps : forall bs done, usteps done bs = map fstep (rsteps done bs).
Proof. induction bs as [|[nf G] r IH]; intros done; simpl; auto. rewrite IH. reflexivity. Qed.

Theorem udp_real_batches_visible : forall bs id, batches_ok [] bs ->
  option_map forget (newest (run_batches [] (rsteps [] bs)) id) = nth_error (W (flat_map snd bs)) (N.to_nat id).
Proof.
  intros bs id H.
  rewrite <- (newest_forget (run_batches [] (rsteps [] bs)) id).
  transitivity (newest (run_batches [] (usteps [] bs)) id); [|apply udp_batches_visible; exact H].
  f_equal. rewrite usteps_rsteps. symmetry. apply (run_batches_forget (rsteps [] bs) []).
Qed.

(* the slot factories are the model's factories *)
Lemma Wr_udp_run hashf F : Wr F = fst (udp_run hashf F).
Proof. unfold Wr. rewrite udp_run_slots. reflexivity. Qed.
