(* TagsC09T.v -- C09: every schedule of job bodies / completions is finite (lexicographic measure)
   on the repaired instance of theories/Tags.v. *)
From Coq Require Import List NArith Bool Lia Arith Wellfounded.
From Pk Require Import Tags TagsC16 TagsC06 TagsC09.
Import ListNotations.
Open Scope N_scope.

(* ---------------------------------------------------------------- lexicographic order on measure vectors *)
Inductive lexlt : list nat -> list nat -> Prop :=
| lex_hd a b l m : (a < b)%nat -> length l = length m -> lexlt (a :: l) (b :: m)
| lex_tl a l m : lexlt l m -> lexlt (a :: l) (a :: m).

Lemma lexlt_length l m : lexlt l m -> length l = length m.
Proof. induction 1; simpl; congruence. Qed.

Lemma lexlt_acc_len : forall n l, length l = n -> Acc lexlt l.
Proof.
  induction n as [|n IH]; intros l Hl.
  - destruct l; [|discriminate]. constructor. intros y H. inversion H.
  - destruct l as [|a t]; [discriminate|]. simpl in Hl. injection Hl as Hl.
    revert t Hl. induction a as [a IHa] using lt_wf_ind. intros t Hl.
    pose proof (IH t Hl) as At. induction At as [t _ IHt].
    constructor. intros y Hy. inversion Hy; subst.
    + apply IHa; [assumption|congruence].
    + apply IHt; [assumption|]. apply lexlt_length in H1. congruence.
Qed.

Theorem lexlt_wf : well_founded lexlt.
Proof. intros l. eapply lexlt_acc_len. reflexivity. Qed.

(* a <= b: either strictly smaller head, or equal head and the tails decide *)
Lemma lex_le_hd a b l m : (a <= b)%nat -> length l = length m -> lexlt l m -> lexlt (a :: l) (b :: m).
Proof.
  intros H L T. destruct (Nat.eq_dec a b) as [->|NE]; [apply lex_tl; exact T|apply lex_hd; [lia|exact L]].
Qed.

(* ---------------------------------------------------------------- the measure *)
Definition ph {A} (o : option A) (done : A -> bool) : nat :=
  match o with None => 0 | Some j => if done j then 1 else 2 end%nat.

Definition imp_done (j : impjob) : bool := match ij_resp j with Some _ => true | None => false end.
Definition tag_done (j : tagjob) : bool := match tj_res j with Some _ => true | None => false end.
Definition mrg_done (j : mergejob) : bool := match mj_res j with Some _ => true | None => false end.

Definition c_imp (st : state) : nat := (3 * length (queue st) + ph (jimp st) imp_done)%nat.

Definition ids (st : state) : list N := map N.of_nat (seq 0 (N.to_nat (next st))).
Definition doomed (st : state) (i : N) : bool := match jconv st with Some _ => mem i (m_cupd st) | None => false end.
Definition pot (st : state) (c i : N) : nat :=
  match cache st c i, doomed st i with
  | None, true => 3 | Some _, true => 2 | None, false => 1 | Some _, false => 0
  end%nat.
Definition c_e3 (st : state) : nat := list_sum (map (fun c => list_sum (map (pot st c) (ids st))) (convs st)).

Definition sunion (sets : list (N * N)) : N := fold_left (fun a cs => union a (snd cs)) sets 0.
Definition c_p (st : state) : nat :=
  match jconv st with Some j => if cj_done j && negb (is0 (sunion (cj_sets j))) then 1 else 0 | None => 0 end%nat.

Definition clean (st : state) (j : tagjob) : bool :=
  match tget (tj_name j) (tags st) with
  | Some ot => defn_eqb (t_def ot) (tj_def j) && is0 (u1_of (tags st) (tj_snap j) (tj_def j) (all st)) &&
               negb (is0 (t_u ot)) && forallb (fun x => is0 (tu x (tags st))) (d_refs (tj_def j))
  | None => false
  end.
Definition c_z (st : state) : nat := match jtag st with Some j => if clean st j then 0 else 1 | None => 0 end%nat.
Definition c_d (st : state) : nat := if dirty_of st then 1%nat else 0%nat.
Definition uncertain (nt : N * tag) : bool := t_live (snd nt) && negb (is0 (t_u (snd nt))).
Definition c_t (st : state) : nat := length (filter uncertain (tags st)).
Definition c_tp (st : state) : nat := ph (jtag st) tag_done.
Definition c_cv (st : state) : nat :=
  ((if existsb (fun c => negb (is0 (toconv st c))) (convs st) then 3 else 0) + ph (jconv st) cj_done)%nat.
Definition c_mg (st : state) : nat := (3 * length (idx st) + ph (jmerge st) mrg_done)%nat.

Definition mu (st : state) : list nat :=
  [c_imp st; c_e3 st; c_p st; c_z st; c_d st; c_t st; c_tp st; c_cv st; c_mg st].

(* ---------------------------------------------------------------- job steps that fire *)
Definition resp_t (st : state) (r : iresp) : Prop :=
  (1 <= ir_proc r)%nat /\ iresp_ok (next st) r /\
  (forall i, mem i (ir_add r) = true -> i < ir_next r) /\
  (ir_idx r <> [] -> exists i, mem i (union (union (ir_upd r) (ir_rst r)) (ir_add r)) = true).

Definition enabled (st : state) (a : action) : Prop :=
  match a with
  | ABodyImport r => (exists n, jimp st = Some (mkImp n None)) /\ resp_t st r
  | ABodyTag _ => exists j, jtag st = Some j /\ tj_res j = None
  | ABodyConvert _ => exists j, jconv st = Some j /\ cj_done j = false
  | ABodyMerge => exists j, jmerge st = Some j /\ mj_res j = None
  | AComplete j => fires j st
  | _ => False
  end.

Definition jstep (st st' : state) : Prop := exists p a, enabled st a /\ st' = step repaired p a st.

(* ---------------------------------------------------------------- bitset facts *)
Definition bounded (nx s : N) : Prop := forall i, mem i s = true -> i < nx.

Lemma mem_ext a b : (forall i, mem i a = mem i b) -> a = b.
Proof. intros H. apply N.bits_inj. intros i. apply H. Qed.

Lemma ones_bounded nx : bounded nx (ones nx).
Proof.
  intros i H. destruct (N.lt_ge_cases i nx) as [L|G]; [exact L|].
  unfold mem, ones in H. rewrite N.ones_spec_high in H; [discriminate|exact G].
Qed.

Lemma full_bounded_eq nx u : (forall i, i < nx -> mem i u = true) -> bounded nx u -> u = ones nx.
Proof.
  intros F B. apply mem_ext. intros i. destruct (N.lt_ge_cases i nx) as [L|G].
  - rewrite (F i L). symmetry. apply mem_ones. exact L.
  - destruct (mem i u) eqn:E; [apply B in E; lia|]. symmetry.
    destruct (mem i (ones nx)) eqn:E2; [apply ones_bounded in E2; lia|reflexivity].
Qed.

Lemma union_absorb a b : (forall i, mem i b = true -> mem i a = true) -> union a b = a.
Proof.
  intros H. apply mem_ext. intros i. rewrite mem_union. destruct (mem i b) eqn:E; [rewrite (H i E); reflexivity|apply orb_false_r].
Qed.

Lemma union_bounded nx a b : bounded nx a -> bounded nx b -> bounded nx (union a b).
Proof. intros A B i H. rewrite mem_union in H. apply orb_true_iff in H. destruct H; auto. Qed.

Lemma bounded_0 nx : bounded nx 0.
Proof. intros i H. rewrite mem_0 in H. discriminate. Qed.

Lemma bounded_mono nx nx' s : nx <= nx' -> bounded nx s -> bounded nx' s.
Proof. intros L B i H. apply B in H. lia. Qed.

Lemma bounded_is0 nx s : bounded nx s -> (forall i, i < nx -> mem i s = false) -> s = 0.
Proof.
  intros B H. apply mem_ext. intros i. rewrite mem_0. destruct (mem i s) eqn:E; [|reflexivity].
  pose proof (B i E) as L. rewrite (H i L) in E. discriminate.
Qed.

(* ---------------------------------------------------------------- the invariant used by the termination argument *)
Definition deadok (ts : tags_t) : Prop :=
  forall n t, In (n, t) ts -> t_live t = false -> t_u t = 0 /\ d_refs (t_def t) = [] /\ d_data (t_def t) = false.

Definition tags_bounded (nx : N) (ts : tags_t) : Prop :=
  forall n t, In (n, t) ts -> bounded nx (t_u t) /\ bounded nx (t_m t).

Definition tagjob_ok (st : state) : Prop :=
  forall j, jtag st = Some j ->
    bounded (next st) (tj_m j) /\ bounded (next st) (tj_u j) /\
    (forall x, bounded (next st) (lookupN x (tj_snap j))) /\
    (forall res, tj_res j = Some res -> bounded (next st) res).

Definition convs_ok (st : state) : Prop :=
  NoDup (convs st) /\ forall j, jconv st = Some j ->
    NoDup (map fst (cj_sets j)) /\ (cj_done j = true -> forall cs, In cs (cj_sets j) -> bounded (cj_next j) (snd cs)).

Definition mergejob_ok (st : state) : Prop :=
  forall j, jmerge st = Some j -> (2 <= length (mj_idx j))%nat /\ (mj_off j + length (mj_idx j) <= length (idx st))%nat /\
    (forall m, mj_res j = Some m -> length m = 1%nat).

Definition Tinv (st : state) : Prop :=
  sorted (tags st) /\ ranked (tags st) /\ deadok (tags st) /\
  tags_bounded (next st) (tags st) /\
  bounded (next st) (m_upd st) /\ bounded (next st) (m_rst st) /\ bounded (next st) (m_add st) /\
  closed (next st) (tags st) /\
  tagjob_ok st /\ covered st /\ Cinv st /\ convs_ok st /\ mergejob_ok st /\
  (forall n r, jimp st = Some (mkImp n (Some r)) -> resp_t st r).

(* on a closed, bounded tag list inheritTagUncertainty changes nothing *)
Definition u_bounded (nx : N) (ts : tags_t) : Prop := forall n t, In (n, t) ts -> bounded nx (t_u t).

Lemma tags_u_bounded nx ts : tags_bounded nx ts -> u_bounded nx ts.
Proof. intros B n t I. exact (proj1 (B n t I)). Qed.

Lemma tu_bounded nx ts x : u_bounded nx ts -> bounded nx (tu x ts).
Proof.
  intros B. unfold tu. destruct (tget x ts) as [t|] eqn:T; [|apply bounded_0].
  destruct (tget_In _ _ _ T) as (I & _). exact (B x t I).
Qed.

Lemma tag_eta t : mkTag0 (t_def t) (t_m t) (t_u t) (t_conv t) (t_live t) = t.
Proof. destruct t; reflexivity. Qed.

Lemma inherit_closed_id nx ts : closed nx ts -> u_bounded nx ts -> inherit (ones nx) ts = ts.
Proof.
  induction ts as [|[k t] r IH]; simpl; [reflexivity|]. intros (C1 & C2 & C3) B.
  assert (u_bounded nx r) as Br by (intros n0 t0 I; apply (B n0 t0); right; exact I).
  rewrite (IH C3 Br). f_equal. f_equal.
  pose proof (B k t (or_introl eq_refl)) as Bu.
  unfold inherit_one. destruct (d_main (t_def t)) eqn:EM; destruct (d_subt (t_def t)) eqn:ES; [reflexivity| | |];
    rewrite <- ?EM, <- ?ES in *.
  all: match goal with |- context[if ?b then _ else _] => destruct b eqn:EX end.
  all: try (apply existsb_exists in EX; destruct EX as (x & Hx & Hne);
            assert (tu x r <> 0) as NE by (destruct (is0 (tu x r)) eqn:E0; [discriminate|apply is0_false; exact E0]);
            rewrite <- (full_bounded_eq nx (t_u t) (C2 x Hx NE) Bu); apply tag_eta).
  all: assert (fold_left (fun u r0 => union u (tu r0 r)) (d_main (t_def t)) (t_u t) = t_u t) as ->;
       [|apply tag_eta].
  all: apply mem_ext; intros i; rewrite fold_union_mem;
       destruct (existsb (fun r0 => mem i (tu r0 r)) (d_main (t_def t))) eqn:E1; [|apply orb_false_r];
       apply existsb_exists in E1; destruct E1 as (x & Hx & Hm);
       rewrite (C1 x Hx i (tu_bounded nx r x Br i Hm) Hm); reflexivity.
Qed.

(* ---------------------------------------------------------------- frames of the measure components *)
Lemma c_imp_frame st st' : queue st' = queue st -> jimp st' = jimp st -> c_imp st' = c_imp st.
Proof. unfold c_imp. intros -> ->. reflexivity. Qed.
Lemma c_e3_frame st st' : cache st' = cache st -> next st' = next st -> convs st' = convs st ->
  (forall i, doomed st' i = doomed st i) -> c_e3 st' = c_e3 st.
Proof.
  intros A B C D. unfold c_e3, ids, pot. rewrite A, B, C. f_equal. apply map_ext. intros c. f_equal. apply map_ext. intros i.
  rewrite D. reflexivity.
Qed.
Lemma c_z_frame st st' : jtag st' = jtag st -> tags st' = tags st -> next st' = next st -> c_z st' = c_z st.
Proof. unfold c_z, clean, all. intros -> -> ->. reflexivity. Qed.
Lemma c_d_frame st st' : m_upd st' = m_upd st -> m_rst st' = m_rst st -> m_add st' = m_add st -> c_d st' = c_d st.
Proof. unfold c_d, dirty_of. intros -> -> ->. reflexivity. Qed.
Lemma c_cv_frame st st' : toconv st' = toconv st -> convs st' = convs st -> jconv st' = jconv st -> c_cv st' = c_cv st.
Proof. unfold c_cv. intros -> -> ->. reflexivity. Qed.
Lemma c_mg_frame st st' : idx st' = idx st -> jmerge st' = jmerge st -> c_mg st' = c_mg st.
Proof. unfold c_mg. intros -> ->. reflexivity. Qed.

(* start_merge only touches the merge component; start_converter the converter job *)
Lemma start_merge_mu st :
  c_imp (start_merge st) = c_imp st /\ c_e3 (start_merge st) = c_e3 st /\ c_p (start_merge st) = c_p st /\
  c_z (start_merge st) = c_z st /\ c_d (start_merge st) = c_d st /\ c_t (start_merge st) = c_t st /\
  c_tp (start_merge st) = c_tp st /\ c_cv (start_merge st) = c_cv st /\
  (c_mg (start_merge st) <= c_mg st + 2)%nat /\ (jmerge st <> None -> c_mg (start_merge st) = c_mg st).
Proof.
  unfold start_merge. destruct (merge_eligible st) eqn:E; [|repeat split; auto; lia].
  repeat split; try reflexivity.
  - unfold c_mg. simpl. unfold merge_eligible in E. destruct (jmerge st); [discriminate|]. simpl. lia.
  - unfold merge_eligible in E. destruct (jmerge st); [discriminate|congruence].
Qed.

Lemma start_converter_mu st :
  c_imp (start_converter st) = c_imp st /\ c_e3 (start_converter st) = c_e3 st /\ c_p (start_converter st) = c_p st /\
  c_z (start_converter st) = c_z st /\ c_d (start_converter st) = c_d st /\ c_t (start_converter st) = c_t st /\
  c_tp (start_converter st) = c_tp st /\ c_mg (start_converter st) = c_mg st /\
  (jconv st <> None -> c_cv (start_converter st) = c_cv st) /\
  (jconv st = None -> (c_cv (start_converter st) <= c_cv st)%nat /\
                      ((c_cv (start_converter st) = 2 \/ c_cv (start_converter st) = 0)%nat)).
Proof.
  unfold start_converter. destruct (jconv st) eqn:J; [repeat split; auto; congruence|].
  destruct (filter (fun c => negb (is0 (toconv st c))) (convs st)) as [|c0 l] eqn:F.
  - repeat split; auto; try congruence. right. unfold c_cv. rewrite J. simpl.
    destruct (existsb (fun c => negb (is0 (toconv st c))) (convs st)) eqn:E; [|reflexivity].
    apply existsb_exists in E. destruct E as (x & I & Hx).
    assert (In x (filter (fun c => negb (is0 (toconv st c))) (convs st))) as I2 by (apply filter_In; split; assumption).
    rewrite F in I2. destruct I2.
  - assert (existsb (fun c => negb (is0 (if memN c (c0 :: l) then 0 else toconv st c))) (convs st) = false) as EX.
    { destruct (existsb _ (convs st)) eqn:E; [|reflexivity]. apply existsb_exists in E. destruct E as (x & I & Hx).
      destruct (memN x (c0 :: l)) eqn:M; [discriminate|].
      assert (In x (filter (fun c => negb (is0 (toconv st c))) (convs st))) as I2 by (apply filter_In; split; assumption).
      rewrite F in I2. unfold memN in M. assert (existsb (N.eqb x) (c0 :: l) = true); [|congruence].
      apply existsb_exists. exists x. split; [exact I2|apply N.eqb_refl]. }
    repeat split; try reflexivity; try congruence.
    + apply c_e3_frame; try reflexivity. intros i. unfold doomed. rewrite J. simpl. apply (mem_0 i).
    + unfold c_p. rewrite J. simpl. reflexivity.
    + unfold c_cv, set_cupd, set_jconv, set_toconv. cbn [toconv convs jconv cj_done]. rewrite EX, J. cbn [ph].
      assert (existsb (fun c => negb (is0 (toconv st c))) (convs st) = true) as E1.
      { apply existsb_exists. exists c0. assert (In c0 (filter (fun c => negb (is0 (toconv st c))) (convs st))) as I by (rewrite F; left; reflexivity).
        apply filter_In in I. exact I. }
      rewrite E1. simpl. lia.
    + left. unfold c_cv, set_cupd, set_jconv, set_toconv. cbn [toconv convs jconv cj_done]. rewrite EX. reflexivity.
Qed.

(* ---------------------------------------------------------------- starting a tagging job *)
Lemma listN_eqb_refl l : listN_eqb l l = true.
Proof. induction l; simpl; [reflexivity|]. rewrite N.eqb_refl, IHl. reflexivity. Qed.
Lemma defn_eqb_refl d : defn_eqb d d = true.
Proof. unfold defn_eqb. rewrite N.eqb_refl, !Bool.eqb_reflx, !listN_eqb_refl. reflexivity. Qed.

Lemma sxor_self a : sxor a a = 0.
Proof. unfold sxor. apply N.lxor_nilpotent. Qed.

Lemma fold_union_zero (f : N -> N) l : (forall x, In x l -> f x = 0) -> fold_left (fun a r => union a (f r)) l 0 = 0.
Proof.
  intros H. apply mem_ext. intros i. rewrite fold_union_mem, mem_0. simpl.
  destruct (existsb (fun r => mem i (f r)) l) eqn:E; [|reflexivity].
  apply existsb_exists in E. destruct E as (x & I & Hm). rewrite (H x I), mem_0 in Hm. discriminate.
Qed.

Lemma u1_fresh ts d allS : u1_of ts (map (fun r => (r, tm r ts)) (d_refs d)) d allS = 0.
Proof.
  unfold u1_of.
  assert (forall x, In x (d_refs d) -> sxor (tm x ts) (lookupN x (map (fun r => (r, tm r ts)) (d_refs d))) = 0) as Z.
  { intros x Hx. rewrite lookupN_map_snap; [apply sxor_self|exact Hx]. }
  destruct (existsb _ (d_subt d)) eqn:E.
  - apply existsb_exists in E. destruct E as (x & Hx & Hn). rewrite (Z x) in Hn; [discriminate|apply in_or_app; right; exact Hx].
  - apply fold_union_zero. intros x Hx. apply Z. apply in_or_app. left. exact Hx.
Qed.

Lemma eligible_first ts p : eligible ts p = true -> first_eligible ts <> None.
Proof.
  intros E. destruct (eligible_spec _ _ E) as (t & T & _). destruct (tget_In _ _ _ T) as (I & _).
  unfold first_eligible.
  assert (In (p, t) (filter (fun nt => eligible ts (fst nt)) ts)) as IF by (apply filter_In; split; [exact I|exact E]).
  destruct (filter _ ts) as [|[k0 t0] l]; [destruct IF|discriminate].
Qed.

(* what start_tagging does when no tagging job is in flight *)
Lemma start_tagging_cases p st : jtag st = None ->
  (first_eligible (tags st) = None /\ start_tagging p st = st) \/
  (exists n t, tget n (tags st) = Some t /\ eligible (tags st) n = true /\
     start_tagging p st =
       set_jtag (set_masks st 0 0 0)
         (Some (mkTj n (t_def t) (t_m t) (t_u t) (t_conv t) (map (fun r => (r, tm r (tags st))) (d_refs (t_def t))) (length (hist st)) None))).
Proof.
  intros J. unfold start_tagging. rewrite J.
  destruct (eligible (tags st) p) eqn:EP.
  - right. destruct (eligible_spec _ _ EP) as (t & T & _). exists p, t. rewrite T. auto.
  - destruct (first_eligible (tags st)) as [n|] eqn:FE; [|left; auto].
    right. pose proof (first_eligible_spec _ _ FE) as EL. destruct (eligible_spec _ _ EL) as (t & T & _).
    exists n, t. rewrite T. auto.
Qed.

Lemma start_tagging_mu_same p st :
  c_imp (start_tagging p st) = c_imp st /\ c_e3 (start_tagging p st) = c_e3 st /\ c_p (start_tagging p st) = c_p st /\
  c_t (start_tagging p st) = c_t st /\ c_cv (start_tagging p st) = c_cv st /\ c_mg (start_tagging p st) = c_mg st.
Proof.
  unfold start_tagging. destruct (jtag st); [repeat split|].
  destruct (if eligible (tags st) p then Some p else first_eligible (tags st)); [|repeat split].
  destruct (tget n (tags st)); repeat split.
Qed.

Lemma start_tagging_started p st n t :
  start_tagging p st = set_jtag (set_masks st 0 0 0)
     (Some (mkTj n (t_def t) (t_m t) (t_u t) (t_conv t) (map (fun r => (r, tm r (tags st))) (d_refs (t_def t))) (length (hist st)) None)) ->
  tget n (tags st) = Some t -> eligible (tags st) n = true ->
  c_z (start_tagging p st) = 0%nat /\ c_d (start_tagging p st) = 0%nat /\ c_tp (start_tagging p st) = 2%nat.
Proof.
  intros -> T EL. split; [|split; reflexivity].
  unfold c_z, clean. simpl. rewrite T, defn_eqb_refl. simpl.
  rewrite (u1_fresh (tags st) (t_def t)). unfold eligible in EL. rewrite T in EL.
  apply andb_true_iff in EL. destruct EL as [E1 E2]. rewrite E1, E2. reflexivity.
Qed.

(* ---------------------------------------------------------------- decrease: the easy steps *)
Ltac lexdone := repeat apply lex_tl; apply lex_hd; [simpl; lia|reflexivity].

Lemma dec_bimp st p r n : jimp st = Some (mkImp n None) -> lexlt (mu (step repaired p (ABodyImport r) st)) (mu st).
Proof.
  intros J. simpl. rewrite J. simpl. unfold mu. apply lex_hd; [|reflexivity].
  unfold c_imp. simpl. rewrite J. simpl. lia.
Qed.

Lemma dec_btag st p tb j : jtag st = Some j -> tj_res j = None -> lexlt (mu (step repaired p (ABodyTag tb) st)) (mu st).
Proof.
  intros J R. destruct j as [n d m u c s h res]. simpl in R. subst res. simpl. rewrite J. unfold mu.
  match goal with |- lexlt [c_imp ?X; _; _; _; _; _; _; _; _] _ =>
    replace (c_imp X) with (c_imp st) by reflexivity; replace (c_e3 X) with (c_e3 st) by reflexivity;
    replace (c_p X) with (c_p st) by reflexivity; replace (c_d X) with (c_d st) by reflexivity;
    replace (c_t X) with (c_t st) by reflexivity;
    replace (c_z X) with (c_z st) by (unfold c_z, clean; simpl; rewrite J; reflexivity) end.
  repeat apply lex_tl. apply lex_hd; [|reflexivity]. unfold c_tp, tag_done. simpl. rewrite J. simpl. lia.
Qed.

Lemma dec_bmerge st p j : jmerge st = Some j -> mj_res j = None -> lexlt (mu (step repaired p ABodyMerge st)) (mu st).
Proof.
  intros J R. destruct j as [o sn res]. simpl in R. subst res. simpl. rewrite J. unfold mu.
  match goal with |- lexlt [c_imp ?X; _; _; _; _; _; _; _; _] _ =>
    replace (c_imp X) with (c_imp st) by reflexivity; replace (c_e3 X) with (c_e3 st) by reflexivity;
    replace (c_p X) with (c_p st) by reflexivity; replace (c_d X) with (c_d st) by reflexivity;
    replace (c_t X) with (c_t st) by reflexivity; replace (c_z X) with (c_z st) by reflexivity;
    replace (c_tp X) with (c_tp st) by reflexivity; replace (c_cv X) with (c_cv st) by reflexivity end.
  repeat apply lex_tl. apply lex_hd; [|reflexivity]. unfold c_mg, mrg_done. simpl. rewrite J. simpl. lia.
Qed.

Lemma skipn_length_le {A} k (l : list A) : (length (skipn k l) <= length l)%nat.
Proof. rewrite skipn_length. lia. Qed.

Lemma dec_cimp st p n r : jimp st = Some (mkImp n (Some r)) -> (1 <= ir_proc r)%nat ->
  lexlt (mu (step repaired p (AComplete JImport) st)) (mu st).
Proof.
  intros J P. simpl. rewrite J. unfold mu. apply lex_hd; [|reflexivity].
  match goal with |- (c_imp ?X < _)%nat => assert (c_imp X = c_imp
    (match skipn (ir_proc r) (queue st) with
     | [] => set_queue (set_jimp st None) (skipn (ir_proc r) (queue st))
     | _ :: _ => set_jimp (set_queue (set_jimp st None) (skipn (ir_proc r) (queue st))) (Some (mkImp (length (skipn (ir_proc r) (queue st))) None)) end)) as -> end.
  { match goal with |- c_imp (start_merge ?Y) = _ => rewrite (proj1 (start_merge_mu Y)) end.
    match goal with |- c_imp (start_converter ?Y) = _ => rewrite (proj1 (start_converter_mu Y)) end.
    match goal with |- c_imp (start_tagging p ?Y) = _ => rewrite (proj1 (start_tagging_mu_same p Y)) end.
    destruct (ir_idx r); simpl; destruct (skipn (ir_proc r) (queue st)); reflexivity. }
  unfold c_imp at 2. rewrite J. simpl.
  destruct (queue st) as [|a l] eqn:Q.
  - destruct (ir_proc r); simpl; unfold c_imp; simpl; lia.
  - destruct (ir_proc r) as [|k]; [lia|]. simpl skipn.
    pose proof (skipn_length_le k l) as L.
    destruct (skipn k l) eqn:S; unfold c_imp; simpl in *; lia.
Qed.

Lemma dec_cmerge st p j m : mergejob_ok st -> jmerge st = Some j -> mj_res j = Some m ->
  lexlt (mu (step repaired p (AComplete JMerge) st)) (mu st).
Proof.
  intros MO J R. destruct (MO j J) as (L2 & LO & LM). specialize (LM m R).
  destruct j as [off sn res]. simpl in *. subst res. rewrite J.
  match goal with |- lexlt (mu (start_merge ?X)) _ => set (X0 := X) end.
  destruct (start_merge_mu X0) as (E1 & E2 & E3 & E4 & E5 & E6 & E7 & E8 & E9 & _).
  unfold mu. rewrite E1, E2, E3, E4, E5, E6, E7, E8.
  replace (c_imp X0) with (c_imp st) by reflexivity. replace (c_e3 X0) with (c_e3 st) by reflexivity.
  replace (c_p X0) with (c_p st) by reflexivity. replace (c_z X0) with (c_z st) by reflexivity.
  replace (c_d X0) with (c_d st) by reflexivity. replace (c_t X0) with (c_t st) by reflexivity.
  replace (c_tp X0) with (c_tp st) by reflexivity. replace (c_cv X0) with (c_cv st) by reflexivity.
  repeat apply lex_tl. apply lex_hd; [|reflexivity].
  assert (c_mg X0 + 4 <= c_mg st)%nat; [|lia].
  unfold c_mg, X0. simpl. rewrite J. simpl. rewrite !app_length, firstn_length, skipn_length, LM. lia.
Qed.

(* ---------------------------------------------------------------- sums *)
Lemma list_sum_le {A} (f g : A -> nat) l : (forall x, In x l -> (f x <= g x)%nat) -> (list_sum (map f l) <= list_sum (map g l))%nat.
Proof.
  induction l as [|a l IH]; simpl; intros H; [lia|].
  pose proof (H a (or_introl eq_refl)). assert (list_sum (map f l) <= list_sum (map g l))%nat by (apply IH; intros; apply H; right; assumption). lia.
Qed.

Lemma list_sum_lt {A} (f g : A -> nat) l x : (forall y, In y l -> (f y <= g y)%nat) -> In x l -> (f x < g x)%nat ->
  (list_sum (map f l) < list_sum (map g l))%nat.
Proof.
  induction l as [|a l IH]; simpl; intros H I L; [destruct I|].
  pose proof (H a (or_introl eq_refl)) as Ha.
  assert (list_sum (map f l) <= list_sum (map g l))%nat as Hl by (apply list_sum_le; intros; apply H; right; assumption).
  destruct I as [->|I]; [lia|]. assert (list_sum (map f l) < list_sum (map g l))%nat by (apply IH; auto). lia.
Qed.

Lemma In_ids st i : i < next st -> In i (ids st).
Proof.
  intros H. unfold ids. apply in_map_iff. exists (N.to_nat i). split; [apply N2Nat.id|].
  apply in_seq. lia.
Qed.

Lemma e3_le st st' : convs st' = convs st -> next st' = next st ->
  (forall c i, In c (convs st) -> In i (ids st) -> (pot st' c i <= pot st c i)%nat) -> (c_e3 st' <= c_e3 st)%nat.
Proof.
  intros C N H. unfold c_e3, ids. rewrite C, N. apply list_sum_le. intros c Ic. apply list_sum_le. intros i Ii. apply H; assumption.
Qed.

Lemma e3_lt st st' c i : convs st' = convs st -> next st' = next st ->
  (forall c i, In c (convs st) -> In i (ids st) -> (pot st' c i <= pot st c i)%nat) ->
  In c (convs st) -> i < next st -> (pot st' c i < pot st c i)%nat -> (c_e3 st' < c_e3 st)%nat.
Proof.
  intros C N H Ic Li L. unfold c_e3, ids. rewrite C, N. apply (list_sum_lt _ _ _ c); [|exact Ic|].
  - intros c' Ic'. apply list_sum_le. intros i' Ii'. apply H; assumption.
  - apply (list_sum_lt _ _ _ i); [intros; apply H; assumption|apply In_ids; exact Li|exact L].
Qed.

(* ---------------------------------------------------------------- converter job body *)
Lemma fold_guard2 (cch : N -> option N) bad nx c l : forall acc i,
  mem i (fold_left (fun a x => match cch x with Some _ => a | None => if conv_ok bad nx c x then add1 x a else a end) l acc) = true ->
  mem i acc = true \/ (i < nx /\ cch i = None).
Proof.
  induction l; simpl; intros acc i H; [left; exact H|].
  apply IHl in H. destruct H as [H|H]; [|right; exact H].
  destruct (cch a) eqn:E; [left; exact H|].
  destruct (conv_ok bad nx c a) eqn:CO; [apply conv_ok_lt in CO|left; exact H].
  rewrite mem_add1 in H. apply orb_true_iff in H. destruct H as [H|H]; [left; exact H|].
  apply N.eqb_eq in H. subst. right. split; assumption.
Qed.

Lemma lookupN_nodup c s (l : list (N * N)) : NoDup (map fst l) -> In (c, s) l -> lookupN c l = s.
Proof.
  unfold lookupN. induction l as [|[k v] l IH]; simpl; [intros _ []|]. intros ND [E|I].
  - inversion E; subst. rewrite N.eqb_refl. reflexivity.
  - inversion ND; subst. destruct (N.eqb_spec k c) as [->|NE]; [|apply IH; assumption].
    exfalso. apply H1. apply in_map_iff. exists (c, s). split; [reflexivity|exact I].
Qed.

Lemma sunion_mem l : forall acc i, mem i (fold_left (fun a (cs : N * N) => union a (snd cs)) l acc) = true ->
  mem i acc = true \/ exists cs, In cs l /\ mem i (snd cs) = true.
Proof.
  induction l as [|x l IH]; simpl; intros acc i H; [left; exact H|].
  apply IH in H. destruct H as [H|(cs & I & M)]; [|right; exists cs; split; [right|]; assumption].
  rewrite mem_union in H. apply orb_true_iff in H. destruct H as [H|H]; [left; exact H|right; exists x; split; [left; reflexivity|exact H]].
Qed.

Lemma sunion_zero l : (forall cs, In cs l -> snd cs = 0) -> sunion l = 0.
Proof.
  intros H. unfold sunion. apply mem_ext. intros i. rewrite mem_0.
  destruct (mem i (fold_left _ l 0)) eqn:E; [|reflexivity].
  apply sunion_mem in E. destruct E as [E|(cs & I & M)]; [rewrite mem_0 in E; discriminate|].
  rewrite (H cs I), mem_0 in M. discriminate.
Qed.

Lemma lookupN_zero c l : (forall cs, In cs l -> snd cs = 0) -> lookupN c l = 0.
Proof.
  unfold lookupN. intros H. destruct (find (fun p => fst p =? c) l) eqn:F; [|reflexivity].
  apply find_some in F. apply H. exact (proj1 F).
Qed.

Lemma sunion_in l cs i : In cs l -> mem i (snd cs) = true -> mem i (sunion l) = true.
Proof.
  unfold sunion. assert (forall acc, (mem i acc = true \/ (In cs l /\ mem i (snd cs) = true)) ->
     mem i (fold_left (fun a (x : N * N) => union a (snd x)) l acc) = true) as G.
  { induction l as [|x l IH]; simpl; intros acc [H|(I & M)]; try assumption; try (destruct I; fail).
    - apply IH. left. rewrite mem_union, H. reflexivity.
    - destruct I as [->|I]; apply IH; [left; rewrite mem_union, M; apply orb_true_r|right; split; assumption]. }
  intros I M. apply G. right. split; assumption.
Qed.

Definition bconv_sets (bad : list (N * N)) (st : state) (j : convjob) : list (N * N) :=
  map (fun cs => (fst cs, fold_left (fun a i => match cache st (fst cs) i with
                                               | Some _ => a
                                               | None => if conv_ok bad (cj_next j) (fst cs) i then add1 i a else a end)
                                    (elems (snd cs)) 0)) (cj_sets j).

Definition bconv_state (bad : list (N * N)) (st : state) (j : convjob) : state :=
  set_jconv (set_cache st (fun c i => match cache st c i with
                                      | Some v => Some v
                                      | None => if mem i (lookupN c (bconv_sets bad st j)) then Some (cj_ver j i) else None
                                      end))
            (Some (mkCj (bconv_sets bad st j) (cj_ver j) (cj_next j) true)).

Lemma bconv_eq st p bad j : jconv st = Some j -> cj_done j = false -> step repaired p (ABodyConvert bad) st = bconv_state bad st j.
Proof. intros J D. simpl. rewrite J, D. reflexivity. Qed.

Lemma dec_bconv st p bad j : Cinv st -> convs_ok st -> jconv st = Some j -> cj_done j = false ->
  lexlt (mu (step repaired p (ABodyConvert bad) st)) (mu st).
Proof.
  intros (CA & CB & _) (ND & NJ0) J D. destruct (CB j J) as (LN & MC & _). destruct (NJ0 j J) as (NJ & _).
  rewrite (bconv_eq st p bad j J D). set (st' := bconv_state bad st j). set (sets' := bconv_sets bad st j).
  assert (forall i, doomed st' i = doomed st i) as DM by (intros i; unfold doomed, st', bconv_state; simpl; rewrite J; reflexivity).
  assert (forall c i, cache st' c i = match cache st c i with Some v => Some v
             | None => if mem i (lookupN c sets') then Some (cj_ver j i) else None end) as CE by reflexivity.
  assert (forall c i, (pot st' c i <= pot st c i)%nat) as PL.
  { intros c i. unfold pot. rewrite DM, CE. destruct (cache st c i); [lia|].
    destruct (mem i (lookupN c sets')); destruct (doomed st i); lia. }
  unfold mu. replace (c_imp st') with (c_imp st) by reflexivity.
  destruct (is0 (sunion sets')) eqn:Z.
  - assert (forall cs, In cs sets' -> snd cs = 0) as Z0.
    { intros cs I. apply mem_ext. intros i. rewrite mem_0. destruct (mem i (snd cs)) eqn:E; [|reflexivity].
      pose proof (sunion_in _ _ _ I E) as M. apply is0_true in Z. rewrite Z, mem_0 in M. discriminate. }
    assert (c_e3 st' = c_e3 st) as ->.
    { unfold c_e3, ids. replace (convs st') with (convs st) by reflexivity. replace (next st') with (next st) by reflexivity.
      f_equal. apply map_ext. intros c. f_equal. apply map_ext. intros i. unfold pot. rewrite DM, CE.
      rewrite (lookupN_zero c sets' Z0), mem_0. destruct (cache st c i); reflexivity. }
    assert (c_p st' = c_p st) as ->.
    { unfold c_p. replace (jconv st') with (Some (mkCj sets' (cj_ver j) (cj_next j) true)) by reflexivity.
      rewrite J, D. simpl. rewrite Z. reflexivity. }
    replace (c_z st') with (c_z st) by reflexivity. replace (c_d st') with (c_d st) by reflexivity.
    replace (c_t st') with (c_t st) by reflexivity. replace (c_tp st') with (c_tp st) by reflexivity.
    repeat apply lex_tl. apply lex_hd; [|reflexivity]. unfold c_cv.
    replace (jconv st') with (Some (mkCj sets' (cj_ver j) (cj_next j) true)) by reflexivity.
    replace (toconv st') with (toconv st) by reflexivity. replace (convs st') with (convs st) by reflexivity.
    rewrite J. simpl. rewrite D. lia.
  - apply lex_tl. apply lex_hd; [|reflexivity].
    apply is0_false in Z. destruct (ne0_mem_exists _ Z) as (i & Hi).
    unfold sunion in Hi. apply sunion_mem in Hi. destruct Hi as [Hi|(cs & I & M)]; [rewrite mem_0 in Hi; discriminate|].
    pose proof I as I'. unfold sets', bconv_sets in I. apply in_map_iff in I. destruct I as (cs0 & E0 & I0).
    assert (fst cs = fst cs0) as EF by (rewrite <- E0; reflexivity).
    pose proof M as M2. rewrite <- E0 in M2. simpl in M2. apply fold_guard2 in M2.
    destruct M2 as [M2|(Li & CN)]; [rewrite mem_0 in M2; discriminate|].
    apply (e3_lt st st' (fst cs) i); try reflexivity.
    + intros; apply PL.
    + apply memN_In. rewrite EF. apply MC. exact I0.
    + lia.
    + unfold pot. rewrite DM, CE, EF, CN.
      assert (lookupN (fst cs0) sets' = snd cs) as ->.
      { apply lookupN_nodup.
        - unfold sets', bconv_sets. rewrite map_map. simpl. exact NJ.
        - rewrite <- EF. destruct cs; exact I'. }
      rewrite M. destruct (doomed st i); lia.
Qed.

(* ---------------------------------------------------------------- converter job completion *)
Definition cconv_pre (st : state) (sets : list (N * N)) : state :=
  let st0 := invalidate_converters (set_jconv st None) (m_cupd st) in
  let s := fold_left (fun a cs => union a (snd cs)) sets 0 in
  set_masks (set_tags st0 (inherit (all st0) (data_tags_uncertain s (tags st0)))) (union (m_upd st0) s) (m_rst st0) (m_add st0).

Lemma cconv_eq st p sets v nx : jconv st = Some (mkCj sets v nx true) ->
  step repaired p (AComplete JConvert) st = start_merge (start_converter (start_tagging p (cconv_pre st sets))).
Proof. intros J. simpl. rewrite J. reflexivity. Qed.

Lemma data_tags_zero ts : data_tags_uncertain 0 ts = ts.
Proof.
  unfold data_tags_uncertain. induction ts as [|[k t] r IH]; simpl; [reflexivity|]. rewrite IH. f_equal. f_equal.
  destruct (d_data (t_def t)); [|reflexivity]. unfold union. rewrite N.lor_0_r. apply tag_eta.
Qed.

Lemma pot_cconv st sets c i : jconv st <> None -> In c (convs st) ->
  pot (cconv_pre st sets) c i = (if mem i (m_cupd st) then 1%nat else pot st c i).
Proof.
  intros J Ic. unfold pot, doomed, cconv_pre. simpl.
  assert (memN c (convs st) = true) as -> by (unfold memN; apply existsb_exists; exists c; split; [exact Ic|apply N.eqb_refl]).
  destruct (jconv st); [|congruence]. simpl. destruct (mem i (m_cupd st)); [reflexivity|]. destruct (cache st c i); reflexivity.
Qed.

Lemma elems_aux_mem fuel : forall k s i, In i (elems_aux fuel k s) -> mem i s = true.
Proof.
  induction fuel as [|f IH]; simpl; intros k s i H; [destruct H|].
  destruct (mem k s) eqn:E; [destruct H as [<-|H]; [exact E|]|]; eapply IH; exact H.
Qed.
Lemma elems_mem s i : In i (elems s) -> mem i s = true.
Proof. unfold elems. apply elems_aux_mem. Qed.

Lemma fold_hit_zero (cch : N -> option N) l : (forall i, In i l -> cch i = None) ->
  fold_left (fun a i => match cch i with Some _ => add1 i a | None => a end) l 0 = 0.
Proof.
  induction l as [|x l IH]; simpl; intros H; [reflexivity|]. rewrite (H x (or_introl eq_refl)). apply IH. intros; apply H; right; assumption.
Qed.

Lemma e3_eq st st' : convs st' = convs st -> next st' = next st ->
  (forall c i, In c (convs st) -> In i (ids st) -> pot st' c i = pot st c i) -> c_e3 st' = c_e3 st.
Proof.
  intros C N H. unfold c_e3, ids. rewrite C, N. f_equal. apply map_ext_in. intros c Ic. f_equal. apply map_ext_in. intros i Ii.
  apply H; assumption.
Qed.

Lemma In_ids_lt st i : In i (ids st) -> i < next st.
Proof.
  unfold ids. intros H. apply in_map_iff in H. destruct H as (k & <- & I). apply in_seq in I. lia.
Qed.

Lemma after_starts_mu p Y :
  let X := start_merge (start_converter (start_tagging p Y)) in
  c_imp X = c_imp Y /\ c_e3 X = c_e3 Y /\ c_p X = c_p (start_tagging p Y) /\
  c_z X = c_z (start_tagging p Y) /\ c_d X = c_d (start_tagging p Y) /\ c_t X = c_t Y /\ c_tp X = c_tp (start_tagging p Y) /\
  c_cv X = c_cv (start_converter (start_tagging p Y)).
Proof.
  intros X. unfold X.
  destruct (start_merge_mu (start_converter (start_tagging p Y))) as (A1 & A2 & A3 & A4 & A5 & A6 & A7 & A8 & _).
  destruct (start_converter_mu (start_tagging p Y)) as (B1 & B2 & B3 & B4 & B5 & B6 & B7 & _).
  destruct (start_tagging_mu_same p Y) as (C1 & C2 & C3 & C4 & _).
  repeat split; congruence.
Qed.

Lemma dec_cconv st p sets v nx : Tinv st -> jconv st = Some (mkCj sets v nx true) ->
  lexlt (mu (step repaired p (AComplete JConvert) st)) (mu st).
Proof.
  intros (So & Ra & Dk & TB & _ & _ & _ & CL & _ & (TWC & _) & (CA & _) & _) J.
  rewrite (cconv_eq st p sets v nx J). set (pre := cconv_pre st sets).
  destruct (after_starts_mu p pre) as (E1 & E2 & E3 & E4 & E5 & E6 & E7 & E8). cbv zeta in *.
  set (X := start_merge (start_converter (start_tagging p pre))) in *.
  assert (jconv st <> None) as JN by (rewrite J; discriminate).
  assert (forall c i, In c (convs st) -> pot pre c i = (if mem i (m_cupd st) then 1%nat else pot st c i)) as PC.
  { intros c i Ic. unfold pre. apply pot_cconv; assumption. }
  assert (forall c i, In c (convs st) -> In i (ids st) -> (pot pre c i <= pot st c i)%nat) as PL.
  { intros c i Ic Ii. rewrite (PC c i Ic). destruct (mem i (m_cupd st)) eqn:M; [|lia].
    unfold pot, doomed. rewrite J, M. destruct (cache st c i); lia. }
  unfold mu. rewrite E1. replace (c_imp pre) with (c_imp st) by reflexivity. apply lex_tl. rewrite E2.
  (* the branch in which no existing stream of a converter is in the changed-during-job mask *)
  assert ((forall c i, In c (convs st) -> In i (ids st) -> mem i (m_cupd st) = false) ->
          lexlt [c_e3 pre; c_p X; c_z X; c_d X; c_t X; c_tp X; c_cv X; c_mg X]
                [c_e3 st; c_p st; c_z st; c_d st; c_t st; c_tp st; c_cv st; c_mg st]) as HB.
  { intros NM.
    assert (c_e3 pre = c_e3 st) as ->.
    { apply e3_eq; try reflexivity. intros c i Ic Ii. rewrite (PC c i Ic), (NM c i Ic Ii). reflexivity. }
    apply lex_tl.
    assert (c_p X = 0%nat) as P0.
    { rewrite E3. destruct (start_tagging_mu_same p pre) as (_ & _ & Q & _). rewrite Q. reflexivity. }
    rewrite P0.
    destruct (is0 (fold_left (fun a cs => union a (snd cs)) sets 0)) eqn:SZ.
    2:{ apply lex_hd; [|reflexivity]. unfold c_p. rewrite J. simpl. unfold sunion. rewrite SZ. simpl. lia. }
    assert (c_p st = 0%nat) as -> by (unfold c_p; rewrite J; simpl; unfold sunion; rewrite SZ; reflexivity).
    apply lex_tl. apply is0_true in SZ.
    (* tags and masks are unchanged *)
    assert (tags pre = tags st) as TG.
    { unfold pre, cconv_pre. simpl. rewrite SZ, data_tags_zero. apply inherit_closed_id; [assumption|apply tags_u_bounded; assumption]. }
    assert (m_upd pre = m_upd st /\ m_rst pre = m_rst st /\ m_add pre = m_add st) as (MU & MR & MA).
    { unfold pre, cconv_pre. simpl. rewrite SZ. unfold union. rewrite N.lor_0_r. auto. }
    assert (start_tagging p pre = pre) as STG.
    { destruct (jtag st) eqn:JT.
      - unfold start_tagging. replace (jtag pre) with (jtag st) by reflexivity. rewrite JT. reflexivity.
      - destruct (start_tagging_cases p pre) as [(_ & Eq)|(n & t & Tn & EL & _)]; [exact JT|exact Eq|].
        exfalso. rewrite TG in EL. apply (TWC (eligible_first _ _ EL)). exact JT. }
    rewrite E4, E5, E6, E7, E8, STG.
    rewrite (c_z_frame st pre) by (try reflexivity; exact TG).
    rewrite (c_d_frame st pre) by assumption.
    assert (c_t pre = c_t st) as -> by (unfold c_t; rewrite TG; reflexivity).
    replace (c_tp pre) with (c_tp st) by reflexivity.
    do 4 apply lex_tl. apply lex_hd; [|reflexivity].
    (* nothing new is queued by the invalidation *)
    assert (forall c, In c (convs st) -> toconv pre c = toconv st c) as TC.
    { intros c Ic. unfold pre, cconv_pre. simpl.
      assert (memN c (convs st) = true) as -> by (unfold memN; apply existsb_exists; exists c; split; [exact Ic|apply N.eqb_refl]).
      rewrite fold_hit_zero; [unfold union; apply N.lor_0_r|].
      intros i Ii. apply elems_mem in Ii. destruct (cache st c i) eqn:CC; [|reflexivity].
      destruct (CA c i n CC) as (Li & _). rewrite (NM c i Ic (In_ids st i Li)) in Ii. discriminate. }
    assert (existsb (fun c => negb (is0 (toconv pre c))) (convs st) = existsb (fun c => negb (is0 (toconv st c))) (convs st)) as EXE.
    { clear - TC. induction (convs st) as [|a l IH]; [reflexivity|]. cbn [existsb].
      rewrite (TC a (or_introl eq_refl)), IH; [reflexivity|]. intros; apply TC; right; assumption. }
    assert (c_cv pre + 1 = c_cv st)%nat as CVE.
    { unfold c_cv. replace (jconv pre) with (@None convjob) by reflexivity. replace (convs pre) with (convs st) by reflexivity.
      rewrite EXE, J. cbn [ph cj_done]. lia. }
    destruct (start_converter_mu pre) as (_ & _ & _ & _ & _ & _ & _ & _ & _ & SC).
    destruct (SC eq_refl) as (LE & _). lia. }
  destruct (existsb (fun i => mem i (m_cupd st)) (ids st)) eqn:EI.
  - destruct (convs st) as [|c0 cl] eqn:CV.
    + apply HB. intros c i [].
    + apply existsb_exists in EI. destruct EI as (i & Ii & Mi).
      apply lex_hd; [|reflexivity].
      apply (e3_lt st pre c0 i); try reflexivity.
      * rewrite CV. exact PL.
      * rewrite CV. left. reflexivity.
      * apply In_ids_lt. exact Ii.
      * rewrite (PC c0 i (or_introl eq_refl)), Mi. unfold pot, doomed. rewrite J, Mi. destruct (cache st c0 i); lia.
  - apply HB. intros c i _ Ii. exact (existsb_false_all _ _ EI i Ii).
Qed.

(* ---------------------------------------------------------------- tagging job completion *)
Definition ctag_pre (st : state) (n : N) (d : defn) (snap : list (N * N)) (res : N) : state :=
  let st0 := set_jtag st None in
  match tget n (tags st0) with
  | Some ot =>
    if defn_eqb (t_def ot) d then
      let stq := queue_matches st0 (t_conv ot) res in
      let ts1 := tset n (mkTag d res (u1_of (tags st0) snap d (all st0)) (t_conv ot)) (tags stq) in
      set_tags stq (if dirty_of st then invalidate_tags repaired (all st0) (m_upd st0) (m_rst st0) (m_add st0) ts1
                    else inherit (all st0) ts1)
    else st0
  | None => st0
  end.

Lemma ctag_eq st p n d m0 u0 cv snap h res : jtag st = Some (mkTj n d m0 u0 cv snap h (Some res)) ->
  step repaired p (AComplete JTag) st = start_merge (start_converter (start_tagging p (ctag_pre st n d snap res))).
Proof.
  intros J. simpl. rewrite J. unfold ctag_pre, dirty_of, u1_of. simpl.
  destruct (tget n (tags st)); [|reflexivity]. destruct (defn_eqb (t_def t) d); reflexivity.
Qed.

Lemma ctag_pre_fields st n d snap res :
  let pre := ctag_pre st n d snap res in
  jtag pre = None /\ queue pre = queue st /\ jimp pre = jimp st /\ cache pre = cache st /\ next pre = next st /\
  convs pre = convs st /\ jconv pre = jconv st /\ m_cupd pre = m_cupd st /\ m_upd pre = m_upd st /\ m_rst pre = m_rst st /\
  m_add pre = m_add st.
Proof.
  unfold ctag_pre. simpl. destruct (tget n (tags st)); [|repeat split]. destruct (defn_eqb (t_def t) d); repeat split.
Qed.

Lemma all_certain_no_uncertain ts : all_certain ts = true -> filter uncertain ts = [].
Proof.
  unfold all_certain, uncertain. induction ts as [|[k t] r IH]; simpl; [reflexivity|]. intros H.
  apply andb_true_iff in H. destruct H as [H1 H2]. rewrite H1, andb_false_r. apply IH. exact H2.
Qed.

Lemma deadok_dead_clean ts : deadok ts -> dead_clean ts.
Proof. intros D n t I L. exact (proj1 (D n t I L)). Qed.

(* dead slots are not touched by invalidateTags / inheritTagUncertainty *)
Lemma deadok_inherit allS ts : deadok ts -> deadok (inherit allS ts).
Proof.
  induction ts as [|[k t] r IH]; simpl; intros D; [exact D|].
  assert (deadok r) as Dr by (intros n0 t0 I; apply (D n0 t0); right; exact I).
  intros n0 t0 [E|I] L; [|apply (IH Dr n0 t0 I L)]. inversion E; subst; clear E.
  destruct (inherit_one_rest allS (inherit allS r) t) as (E1 & E2 & E3 & _). rewrite E3 in L.
  destruct (D n0 t (or_introl eq_refl) L) as (U0 & R0 & D0). rewrite E1. split; [|split; assumption].
  rewrite inherit_one_u. unfold d_refs in R0. apply app_eq_nil in R0. destruct R0 as (RM & RS). rewrite RM, RS. simpl. exact U0.
Qed.

Lemma deadok_map_inval k allS u r a ts : deadok ts -> deadok (map (fun nt => (fst nt, invalidate_one k allS u r a (snd nt))) ts).
Proof.
  intros D n t I L. apply in_map_iff in I. destruct I as ([k0 t0] & E & I0). simpl in E. inversion E; subst; clear E.
  destruct (invalidate_one_rest k allS u r a t0) as (E1 & E2 & E3). rewrite E2 in L.
  destruct (D n t0 I0 L) as (U0 & R0 & D0). rewrite E1. split; [|split; assumption].
  unfold invalidate_one. rewrite L. simpl. exact U0.
Qed.

Lemma deadok_tset n tp ts : t_live tp = true -> deadok ts -> deadok (tset n tp ts).
Proof.
  intros L D k t I Ld. destruct (In_tset _ _ _ _ _ I) as [(-> & ->)|(_ & I0)]; [congruence|apply (D k t I0 Ld)].
Qed.

Lemma tu_tset n tp ts x : tu x (tset n tp ts) = tu x ts \/ (x = n /\ tu x (tset n tp ts) = (if t_live tp then t_u tp else 0)).
Proof.
  unfold tset, tu. induction ts as [|[k t] r IH]; simpl; [left; reflexivity|].
  destruct (N.eqb_spec k n) as [->|NE]; simpl.
  - destruct (N.eqb_spec n x) as [->|NX]; [right; split; [reflexivity|destruct (t_live tp); reflexivity]|exact IH].
  - destruct (k =? x); [left; reflexivity|exact IH].
Qed.

(* setting one tag certain keeps the list closed when everything it references is certain *)
Lemma closed_tset_zero nx n tp ts :
  closed nx ts -> t_u tp = 0 -> t_live tp = true ->
  (forall pre t r, ts = pre ++ (n, t) :: r -> forall x, In x (d_refs (t_def tp)) -> tu x r = 0) ->
  (forall k t, In (k, t) ts -> k = n -> t_def t = t_def tp) ->
  closed nx (tset n tp ts).
Proof.
  intros C U0 L R DD. revert C R DD. unfold tset. induction ts as [|[k t] r IH]; intros C R DD; [exact I|].
  simpl in C. destruct C as (C1 & C2 & C3).
  assert (closed nx (map (fun kt => if fst kt =? n then (fst kt, tp) else kt) r)) as CR.
  { apply IH; [exact C3| |intros k0 t0 I0; apply DD; right; exact I0].
    intros pre t0 r0 E. apply (R ((k, t) :: pre) t0 r0). rewrite E. reflexivity. }
  assert (forall x i, mem i (tu x (map (fun kt => if fst kt =? n then (fst kt, tp) else kt) r)) = true -> mem i (tu x r) = true) as SUB.
  { intros x i H. destruct (tu_tset n tp r x) as [E|(_ & E)]; unfold tset in E; rewrite E in H; [exact H|].
    rewrite L, U0, mem_0 in H. discriminate. }
  simpl. destruct (N.eqb_spec k n) as [->|NE]; simpl.
  - split; [|split; [|exact CR]].
    + intros x Hx id Hid Hm. apply SUB in Hm. rewrite (R [] t r eq_refl x) in Hm; [rewrite mem_0 in Hm; discriminate|apply in_or_app; left; exact Hx].
    + intros x Hx Hne. exfalso. apply Hne. apply mem_ext. intros i. rewrite mem_0.
      destruct (mem i (tu x (map _ r))) eqn:E; [|reflexivity]. apply SUB in E.
      rewrite (R [] t r eq_refl x) in E; [rewrite mem_0 in E; discriminate|apply in_or_app; right; exact Hx].
  - split; [|split; [|exact CR]].
    + intros x Hx id Hid Hm. apply (C1 x Hx id Hid). apply SUB. exact Hm.
    + intros x Hx Hne. apply (C2 x Hx). intros E0. apply Hne. apply mem_ext. intros i. rewrite mem_0.
      destruct (mem i (tu x (map _ r))) eqn:E; [|reflexivity]. apply SUB in E. rewrite E0, mem_0 in E. discriminate.
Qed.

Lemma count_tset n tp ot ts :
  sorted ts -> In (n, ot) ts -> uncertain (n, ot) = true -> uncertain (n, tp) = false ->
  (length (filter uncertain (tset n tp ts)) + 1 = length (filter uncertain ts))%nat.
Proof.
  unfold tset. induction ts as [|[k t] r IH]; simpl; intros S I U1 U2; [destruct I|].
  destruct S as (S1 & S2). destruct (N.eqb_spec k n) as [->|NE].
  - assert (t = ot) as -> by (destruct I as [E|I]; [inversion E; reflexivity|apply S1 in I; lia]).
    simpl. unfold uncertain in U1, U2 |- *. simpl in *. rewrite U1, U2. simpl.
    assert (map (fun kt => if fst kt =? n then (fst kt, tp) else kt) r = r) as ->; [|lia].
    rewrite <- (map_id r) at 2. apply map_ext_in. intros [k0 t0] I0. simpl. destruct (N.eqb_spec k0 n); [|reflexivity].
    subst. apply S1 in I0. lia.
  - destruct I as [E|I]; [inversion E; congruence|]. simpl. specialize (IH S2 I U1 U2).
    destruct (uncertain (k, t)); simpl; lia.
Qed.

Lemma c_z_nojob st : jtag st = None -> c_z st = 0%nat.
Proof. unfold c_z. intros ->. reflexivity. Qed.

Lemma after_tagging_z p Y : jtag Y = None -> c_z (start_tagging p Y) = 0%nat.
Proof.
  intros J. destruct (start_tagging_cases p Y J) as [(_ & ->)|(n & t & T & EL & E)]; [apply c_z_nojob; exact J|].
  exact (proj1 (start_tagging_started p Y n t E T EL)).
Qed.

Lemma dec_ctag st p n d m0 u0 cv snap h res : Tinv st -> jtag st = Some (mkTj n d m0 u0 cv snap h (Some res)) ->
  lexlt (mu (step repaired p (AComplete JTag) st)) (mu st).
Proof.
  intros (So & Ra & Dk & TB & BU & BR & BA & CL & TJ & _) J.
  rewrite (ctag_eq st p n d m0 u0 cv snap h res J). set (pre := ctag_pre st n d snap res).
  destruct (ctag_pre_fields st n d snap res) as (F1 & F2 & F3 & F4 & F5 & F6 & F7 & F8 & F9 & F10 & F11). fold pre in F1, F2, F3, F4, F5, F6, F7, F8, F9, F10, F11.
  destruct (after_starts_mu p pre) as (E1 & E2 & E3 & E4 & E5 & E6 & E7 & E8). cbv zeta in *.
  set (X := start_merge (start_converter (start_tagging p pre))) in *.
  destruct (start_tagging_mu_same p pre) as (_ & _ & SP & _).
  unfold mu. rewrite E1, E2, E3, SP, E4, (after_tagging_z p pre F1).
  rewrite (c_imp_frame st pre F2 F3).
  assert (c_e3 pre = c_e3 st) as -> by (apply c_e3_frame; try assumption; intros i; unfold doomed; rewrite F7, F8; reflexivity).
  assert (c_p pre = c_p st) as -> by (unfold c_p; rewrite F7; reflexivity).
  do 3 apply lex_tl.
  unfold c_z at 1. rewrite J.
  destruct (clean st (mkTj n d m0 u0 cv snap h (Some res))) eqn:CLN; [|apply lex_hd; [lia|reflexivity]].
  apply lex_tl.
  (* a clean job publishes with Uncertain = 0 *)
  unfold clean in CLN. simpl in CLN. destruct (tget n (tags st)) as [ot|] eqn:Tn; [|discriminate].
  apply andb_true_iff in CLN. destruct CLN as (CLN & RF). apply andb_true_iff in CLN. destruct CLN as (CLN & UN).
  apply andb_true_iff in CLN. destruct CLN as (DE & U1). apply defn_eqb_eq in DE. apply is0_true in U1. subst d.
  apply negb_true_iff in UN. apply is0_false in UN. destruct (ne0_mem_exists _ UN) as (iu & Hu).
  assert (forall x, In x (d_refs (t_def ot)) -> tu x (tags st) = 0) as TR0.
  { intros x Hx. rewrite forallb_forall in RF. apply is0_true. apply RF. exact Hx. }
  assert (dirty_of st = false -> forall x, In x (d_refs (t_def ot)) -> tu x (tags st) = 0) as TR by (intros _; exact TR0).
  destruct (tget_In _ _ _ Tn) as (In_n & Ln).
  set (tp := mkTag (t_def ot) res 0 (t_conv ot)).
  assert (Forall2 same1 (tags st) (tset n tp (tags st))) as SM1.
  { apply Forall2_tset; [intros; repeat split|]. intros k0 t0 I0 ->.
    assert (t0 = ot) as -> by (eapply sorted_unique; eassumption). unfold same1; simpl; repeat split. exact Ln. }
  assert (tags pre = (if dirty_of st then invalidate_tags repaired (all st) (m_upd st) (m_rst st) (m_add st) (tset n tp (tags st))
                      else inherit (all st) (tset n tp (tags st)))) as TG.
  { unfold pre, ctag_pre. cbv zeta. change (tags (set_jtag st None)) with (tags st). change (all (set_jtag st None)) with (all st).
    rewrite Tn, defn_eqb_refl, U1. reflexivity. }
  assert (c_t st >= 1)%nat as T1.
  { unfold c_t. assert (In (n, ot) (filter uncertain (tags st))) as IF.
    { apply filter_In. split; [exact In_n|]. unfold uncertain. simpl. rewrite Ln. simpl.
      rewrite (ne0_of_mem iu _ Hu). reflexivity. }
    destruct (filter uncertain (tags st)); [destruct IF|simpl; lia]. }
  destruct (dirty_of st) eqn:DI.
  - (* imports / converter results arrived during the job *)
    assert (c_d st = 1%nat) as -> by (unfold c_d; rewrite DI; reflexivity).
    destruct (start_tagging_cases p pre F1) as [(FE & EQ)|(n1 & t1 & T1' & EL1 & EQ)].
    + rewrite E5, E6, EQ.
      assert (c_d pre = 1%nat) as -> by (unfold c_d, dirty_of in *; rewrite F9, F10, F11, DI; reflexivity).
      apply lex_tl. apply lex_hd; [|reflexivity].
      assert (all_certain (tags pre) = true) as AC.
      { destruct (all_certain (tags pre)) eqn:AC; [reflexivity|]. exfalso.
        apply (eligible_exists (tags pre)); try assumption; rewrite TG.
        - eapply sorted_same; [|exact So]. eapply Forall2_trans_same; [exact SM1|eapply grow_same; apply grow_invalidate_tags].
        - eapply ranked_same; [|exact Ra]. eapply Forall2_trans_same; [exact SM1|eapply grow_same; apply grow_invalidate_tags].
        - apply deadok_dead_clean. unfold invalidate_tags. apply deadok_inherit, deadok_map_inval, deadok_tset; [reflexivity|exact Dk]. }
      unfold c_t at 1. rewrite (all_certain_no_uncertain _ AC). simpl. lia.
    + rewrite E5. rewrite (proj1 (proj2 (start_tagging_started p pre n1 t1 EQ T1' EL1))). apply lex_hd; [lia|reflexivity].
  - (* nothing arrived: the tag becomes certain and nothing else changes *)
    assert (c_d st = 0%nat) as -> by (unfold c_d; rewrite DI; reflexivity).
    assert (c_d X = 0%nat) as ->.
    { rewrite E5. destruct (start_tagging_cases p pre F1) as [(_ & ->)|(n1 & t1 & T1' & EL1 & EQ)].
      - unfold c_d, dirty_of in *. rewrite F9, F10, F11, DI. reflexivity.
      - exact (proj1 (proj2 (start_tagging_started p pre n1 t1 EQ T1' EL1))). }
    apply lex_tl. apply lex_hd; [|reflexivity]. rewrite E6.
    assert (inherit (all st) (tset n tp (tags st)) = tset n tp (tags st)) as IH.
    { unfold all. apply inherit_closed_id.
      - apply closed_tset_zero; try assumption; try reflexivity.
        + intros pr t r Esp x Hx. destruct (Ra n ot In_n Ln) as (Rf & _). destruct (Rf x Hx) as (Lx & _).
          rewrite <- (TR eq_refl x Hx). unfold tu. rewrite Esp.
          rewrite (tget_tail pr n t r x); [reflexivity|rewrite <- Esp; exact So|exact Lx].
        + intros k0 t0 I0 ->. assert (t0 = ot) as -> by (eapply sorted_unique; eassumption). reflexivity.
      - intros k0 t0 I0. destruct (In_tset _ _ _ _ _ I0) as [(-> & ->)|(_ & I1)]; [apply bounded_0|exact (proj1 (TB k0 t0 I1))]. }
    unfold c_t. rewrite TG, IH.
    pose proof (count_tset n tp ot (tags st) So In_n) as CT.
    assert (uncertain (n, ot) = true) as UO by (unfold uncertain; simpl; rewrite Ln, (ne0_of_mem iu _ Hu); reflexivity).
    specialize (CT UO eq_refl). lia.
Qed.


(* ---------------------------------------------------------------- every firing job step decreases the measure *)
Theorem jstep_decreases st st' : Tinv st -> jstep st st' -> lexlt (mu st') (mu st).
Proof.
  intros TI (p & a & En & ->). pose proof TI as (_ & _ & _ & _ & _ & _ & _ & _ & _ & _ & CI & CO & MO & IT).
  destruct a; try (destruct En; fail).
  - destruct En as ((n & J) & _). eapply dec_bimp; exact J.
  - destruct En as (j & J & R). eapply dec_btag; eassumption.
  - destruct En as (j & J & D). eapply dec_bconv; eassumption.
  - destruct En as (j & J & R). eapply dec_bmerge; eassumption.
  - destruct k; simpl in En.
    + destruct En as (n & r & J). eapply dec_cimp; [exact J|]. exact (proj1 (IT n r J)).
    + destruct En as (j & res & J & R). destruct j; simpl in R; subst. eapply dec_ctag; [exact TI|exact J].
    + destruct En as (j & J & D). destruct j; simpl in D; subst. eapply dec_cconv; [exact TI|exact J].
    + destruct En as (j & m & J & R). eapply dec_cmerge; eassumption.
Qed.

(* ---------------------------------------------------------------- helper facts for the preservation of Tinv *)
Lemma u_bounded_inherit nx ts : u_bounded nx ts -> u_bounded nx (inherit (ones nx) ts).
Proof.
  induction ts as [|[k t] r IH]; simpl; intros B; [exact B|].
  assert (u_bounded nx r) as Br by (intros n0 t0 I; apply (B n0 t0); right; exact I).
  intros n0 t0 [E|I]; [|apply (IH Br n0 t0 I)]. inversion E; subst; clear E.
  rewrite inherit_one_u. destruct (existsb _ _); [apply ones_bounded|].
  intros i H. rewrite fold_union_mem in H. apply orb_true_iff in H. destruct H as [H|H].
  - apply (B n0 t (or_introl eq_refl)). exact H.
  - apply existsb_exists in H. destruct H as (x & _ & Hm). apply (tu_bounded nx (inherit (ones nx) r) x (IH Br)). exact Hm.
Qed.

Lemma m_same_grow nx a b : Forall2 (grow1 nx) a b -> forall n t', In (n, t') b -> exists t, In (n, t) a /\ t_m t = t_m t' /\ t_def t = t_def t' /\ t_live t = t_live t'.
Proof.
  intros H n t' I. destruct (Forall2_In_r _ _ _ _ H I) as ([k t] & I0 & ((E1 & E2 & E3) & E4 & _)). simpl in *. subst k.
  exists t. auto.
Qed.

Lemma tb_from nx nx' a b : nx <= nx' -> tags_bounded nx a -> Forall2 (grow1 nx') a b -> u_bounded nx' b -> tags_bounded nx' b.
Proof.
  intros L TB G UB n t' I. split; [apply (UB n t' I)|].
  destruct (m_same_grow _ _ _ G n t' I) as (t & I0 & EM & _). rewrite <- EM. eapply bounded_mono; [exact L|]. exact (proj2 (TB n t I0)).
Qed.

Lemma ub_map_inval k nx nx' u r a ts : nx <= nx' -> u_bounded nx ts -> bounded nx' u -> bounded nx' r -> bounded nx' a ->
  u_bounded nx' (map (fun nt => (fst nt, invalidate_one k (ones nx') u r a (snd nt))) ts).
Proof.
  intros L UB Bu Br Ba n t I. apply in_map_iff in I. destruct I as ([k0 t0] & E & I0). simpl in E. inversion E; subst; clear E.
  pose proof (bounded_mono _ _ _ L (UB n t0 I0)) as B0. unfold invalidate_one.
  destruct (negb (t_live t0)); [exact B0|]. destruct (d_sub (t_def t0)); [apply ones_bounded|].
  destruct (d_idonly (t_def t0)); [destruct (kf_idonly k); [exact B0|apply union_bounded; assumption]|].
  simpl. destruct (d_datatime (t_def t0)); repeat apply union_bounded; assumption.
Qed.

Lemma ub_data_tags nx s ts : u_bounded nx ts -> bounded nx s -> u_bounded nx (data_tags_uncertain s ts).
Proof.
  intros UB Bs n t I. unfold data_tags_uncertain in I. apply in_map_iff in I. destruct I as ([k0 t0] & E & I0). simpl in E. inversion E; subst; clear E.
  destruct (d_data (t_def t0)); [simpl; apply union_bounded; [exact (UB n t0 I0)|exact Bs]|exact (UB n t0 I0)].
Qed.

Lemma deadok_data_tags s ts : deadok ts -> deadok (data_tags_uncertain s ts).
Proof.
  intros D n t I L. unfold data_tags_uncertain in I. apply in_map_iff in I. destruct I as ([k0 t0] & E & I0). simpl in E. inversion E; subst; clear E.
  destruct (d_data (t_def t0)) eqn:DD.
  - simpl in L. destruct (D n t0 I0 L) as (_ & _ & D0). congruence.
  - exact (D n t0 I0 L).
Qed.

(* ---------------------------------------------------------------- Tinv = core + covered + Cinv *)
Definition impjob_t (st : state) : Prop := forall n r, jimp st = Some (mkImp n (Some r)) -> resp_t st r.

Definition Tcore (st : state) : Prop :=
  sorted (tags st) /\ ranked (tags st) /\ deadok (tags st) /\ tags_bounded (next st) (tags st) /\
  bounded (next st) (m_upd st) /\ bounded (next st) (m_rst st) /\ bounded (next st) (m_add st) /\
  closed (next st) (tags st) /\ tagjob_ok st /\ convs_ok st /\ mergejob_ok st /\ impjob_t st.

Lemma Tinv_split st : Tinv st <-> Tcore st /\ covered st /\ Cinv st.
Proof. unfold Tinv, Tcore, impjob_t. tauto. Qed.

(* merge_offset finds an index that has a non-empty index behind it *)
Lemma nrecords_acc l : forall a, fold_left (fun a x => a + popcount x) l a = a + fold_left (fun a x => a + popcount x) l 0.
Proof.
  induction l as [|x l IH]; simpl; intros a; [lia|]. rewrite IH, (IH (popcount x)). lia.
Qed.
Lemma nrecords_cons x l : nrecords (x :: l) = popcount x + nrecords l.
Proof. unfold nrecords. simpl. rewrite nrecords_acc. lia. Qed.

Lemma merge_offset_len unm l : forall i n k, n <= nrecords l -> merge_offset i unm n l = Some k ->
  (i <= k)%nat /\ (k - i + 2 <= length l)%nat.
Proof.
  induction l as [|x r IH]; simpl; intros i n k Hn H; [discriminate|].
  rewrite nrecords_cons in Hn.
  destruct (Nat.leb unm i && (popcount x <? n - popcount x)) eqn:C.
  - inversion H; subst. apply andb_true_iff in C. destruct C as [_ C]. apply N.ltb_lt in C.
    destruct r as [|y r']; [unfold nrecords in Hn; simpl in Hn; lia|simpl; lia].
  - assert (n - popcount x <= nrecords r) as Hn' by lia.
    destruct (IH (S i) (n - popcount x) k Hn' H) as (A & B). simpl. lia.
Qed.

Lemma tcore_start_merge st : Tcore st -> Tcore (start_merge st).
Proof.
  intros H. pose proof H as (A1 & A2 & A3 & A4 & A5 & A6 & A7 & A8 & A9 & A10 & A11 & A12). unfold start_merge.
  destruct (merge_eligible st) as [off|] eqn:E; [|exact H].
  split; [exact A1|split; [exact A2|split; [exact A3|split; [exact A4|split; [exact A5|split; [exact A6|split; [exact A7|
    split; [exact A8|split; [exact A9|split; [exact A10|split; [|exact A12]]]]]]]]]]].
  intros j Hj. simpl in Hj. inversion Hj; subst; clear Hj. simpl.
  unfold merge_eligible in E. destruct (jmerge st); [discriminate|]. destruct (jtag st); [discriminate|]. destruct (jconv st); [discriminate|].
  destruct (all_certain (tags st)); [|discriminate].
  destruct (merge_offset_len (unmerge st) (idx st) O (nrecords (idx st)) off (N.le_refl _) E) as (_ & L).
  rewrite skipn_length. split; [lia|split; [lia|discriminate]].
Qed.

Lemma NoDup_filter {A} (f : A -> bool) l : NoDup l -> NoDup (filter f l).
Proof.
  induction 1; simpl; [constructor|]. destruct (f x); [constructor; [|assumption]|assumption].
  intros I. apply filter_In in I. tauto.
Qed.

Lemma tcore_start_converter st : Tcore st -> Tcore (start_converter st).
Proof.
  intros H. pose proof H as (A1 & A2 & A3 & A4 & A5 & A6 & A7 & A8 & A9 & A10 & A11 & A12). unfold start_converter.
  destruct (jconv st) eqn:J; [exact H|].
  destruct (filter (fun c => negb (is0 (toconv st c))) (convs st)) as [|c0 l] eqn:F; [exact H|].
  split; [exact A1|split; [exact A2|split; [exact A3|split; [exact A4|split; [exact A5|split; [exact A6|split; [exact A7|
    split; [exact A8|split; [exact A9|split; [|split; [exact A11|exact A12]]]]]]]]]]].
  destruct A10 as (ND & _). split; [exact ND|]. intros j Hj. simpl in Hj. inversion Hj; subst; clear Hj. simpl.
  split; [|discriminate]. rewrite map_map. simpl. rewrite map_id. rewrite <- F. apply NoDup_filter. exact ND.
Qed.

Lemma lookupN_bounded nx x (l : list (N * N)) : (forall p, In p l -> bounded nx (snd p)) -> bounded nx (lookupN x l).
Proof.
  intros H. unfold lookupN. destruct (find (fun p => fst p =? x) l) eqn:F; [|apply bounded_0].
  apply find_some in F. apply H. exact (proj1 F).
Qed.

Lemma tm_bounded nx ts x : tags_bounded nx ts -> bounded nx (tm x ts).
Proof.
  intros B. unfold tm. destruct (tget x ts) as [t|] eqn:T; [|apply bounded_0].
  destruct (tget_In _ _ _ T) as (I & _). exact (proj2 (B x t I)).
Qed.

Lemma tcore_start_tagging p st : Tcore st -> Tcore (start_tagging p st).
Proof.
  intros H. pose proof H as (A1 & A2 & A3 & A4 & A5 & A6 & A7 & A8 & A9 & A10 & A11 & A12).
  destruct (jtag st) eqn:J; [unfold start_tagging; rewrite J; exact H|].
  destruct (start_tagging_cases p st J) as [(_ & ->)|(n & t & Tn & EL & ->)]; [exact H|].
  split; [exact A1|split; [exact A2|split; [exact A3|split; [exact A4|split; [apply bounded_0|split; [apply bounded_0|split; [apply bounded_0|
    split; [exact A8|split; [|split; [exact A10|split; [exact A11|exact A12]]]]]]]]]]].
  intros j Hj. simpl in Hj. inversion Hj; subst; clear Hj. simpl.
  destruct (tget_In _ _ _ Tn) as (In_n & Ln). destruct (A4 n t In_n) as (BU & BM).
  destruct (eligible_spec _ _ EL) as (t' & Tn' & RZ). rewrite Tn in Tn'. inversion Tn'; subst t'.
  split; [exact BM|split; [exact BU|split; [|discriminate]]].
  intros x. apply lookupN_bounded. intros pr I. apply in_map_iff in I. destruct I as (r & <- & _). simpl. apply tm_bounded. exact A4.
Qed.

Lemma tcore_starts p st : Tcore st -> Tcore (start_merge (start_converter (start_tagging p st))).
Proof. intros. apply tcore_start_merge, tcore_start_converter, tcore_start_tagging. assumption. Qed.

(* ---------------------------------------------------------------- preservation of the core invariant: bodies, merge *)
Lemma tcore_bimp st p r n : Tcore st -> jimp st = Some (mkImp n None) -> resp_t st r -> Tcore (step repaired p (ABodyImport r) st).
Proof.
  intros H J RT. simpl. rewrite J. simpl. pose proof H as (A1 & A2 & A3 & A4 & A5 & A6 & A7 & A8 & A9 & A10 & A11 & A12).
  split; [exact A1|split; [exact A2|split; [exact A3|split; [exact A4|split; [exact A5|split; [exact A6|split; [exact A7|
    split; [exact A8|split; [exact A9|split; [exact A10|split; [exact A11|]]]]]]]]]]].
  intros n0 r0 E. simpl in E. inversion E; subst. exact RT.
Qed.

Lemma tcore_btag st p tb j : Tcore st -> jtag st = Some j -> tj_res j = None -> Tcore (step repaired p (ABodyTag tb) st).
Proof.
  intros H J R. destruct j as [n d m u c s h res]. simpl in R. subst res. simpl. rewrite J.
  pose proof H as (A1 & A2 & A3 & A4 & A5 & A6 & A7 & A8 & A9 & A10 & A11 & A12).
  split; [exact A1|split; [exact A2|split; [exact A3|split; [exact A4|split; [exact A5|split; [exact A6|split; [exact A7|
    split; [exact A8|split; [|split; [exact A10|split; [exact A11|exact A12]]]]]]]]]]].
  intros j' Hj. simpl in Hj. inversion Hj; subst; clear Hj. simpl.
  destruct (A9 _ J) as (B1 & B2 & B3 & _). simpl in *.
  split; [exact B1|split; [exact B2|split; [exact B3|]]].
  intros res E. inversion E; subst. intros i Hi. rewrite mem_union, mem_diff, mem_inter in Hi.
  apply orb_true_iff in Hi. destruct Hi as [Hi|Hi]; apply andb_true_iff in Hi; destruct Hi as [Hi _]; auto.
Qed.

Lemma tcore_bmerge st p j : Tcore st -> jmerge st = Some j -> mj_res j = None -> Tcore (step repaired p ABodyMerge st).
Proof.
  intros H J R. destruct j as [o sn res]. simpl in R. subst res. simpl. rewrite J.
  pose proof H as (A1 & A2 & A3 & A4 & A5 & A6 & A7 & A8 & A9 & A10 & A11 & A12).
  split; [exact A1|split; [exact A2|split; [exact A3|split; [exact A4|split; [exact A5|split; [exact A6|split; [exact A7|
    split; [exact A8|split; [exact A9|split; [exact A10|split; [|exact A12]]]]]]]]]]].
  intros j' Hj. simpl in Hj. inversion Hj; subst; clear Hj. simpl. destruct (A11 _ J) as (L1 & L2 & _). simpl in *.
  split; [exact L1|split; [exact L2|]]. intros m E. inversion E; subst. reflexivity.
Qed.

Lemma tcore_bconv st p bad j : Tcore st -> jconv st = Some j -> cj_done j = false -> Tcore (step repaired p (ABodyConvert bad) st).
Proof.
  intros H J D. rewrite (bconv_eq st p bad j J D).
  pose proof H as (A1 & A2 & A3 & A4 & A5 & A6 & A7 & A8 & A9 & A10 & A11 & A12).
  split; [exact A1|split; [exact A2|split; [exact A3|split; [exact A4|split; [exact A5|split; [exact A6|split; [exact A7|
    split; [exact A8|split; [exact A9|split; [|split; [exact A11|exact A12]]]]]]]]]]].
  destruct A10 as (ND & NJ). split; [exact ND|]. intros j' Hj. simpl in Hj. inversion Hj; subst; clear Hj. simpl.
  destruct (NJ j J) as (N1 & _). split.
  - unfold bconv_sets. rewrite map_map. simpl. exact N1.
  - intros _ cs I. unfold bconv_sets in I. apply in_map_iff in I. destruct I as (cs0 & <- & _). simpl.
    intros i Hi. apply fold_guard2 in Hi. destruct Hi as [Hi|(Hi & _)]; [rewrite mem_0 in Hi; discriminate|exact Hi].
Qed.

Lemma tcore_cmerge st p j m : Tcore st -> jmerge st = Some j -> mj_res j = Some m -> Tcore (step repaired p (AComplete JMerge) st).
Proof.
  intros H J R. destruct j as [o sn res]. simpl in R. subst res. simpl. rewrite J. apply tcore_start_merge.
  pose proof H as (A1 & A2 & A3 & A4 & A5 & A6 & A7 & A8 & A9 & A10 & A11 & A12).
  split; [exact A1|split; [exact A2|split; [exact A3|split; [exact A4|split; [exact A5|split; [exact A6|split; [exact A7|
    split; [exact A8|split; [exact A9|split; [exact A10|split; [|exact A12]]]]]]]]]]].
  intros j' Hj. discriminate.
Qed.

(* ---------------------------------------------------------------- growth of Uncertain keeps what a tagging job looks at *)
Lemma grow_tget nx a b n t : Forall2 (grow1 nx) a b -> tget n a = Some t ->
  exists t', tget n b = Some t' /\ t_def t' = t_def t /\ t_m t' = t_m t /\ (forall i, i < nx -> mem i (t_u t) = true -> mem i (t_u t') = true).
Proof.
  intros G T. destruct (Forall2_tget (grow1 nx) a b n t G) as (t' & T' & ((_ & E2 & _) & E4 & E5)); [|exact T|].
  - intros x y ((A1 & _ & A3) & _). split; assumption.
  - exists t'. simpl in *. repeat split; auto.
Qed.

Lemma grow_tget_none nx a b n : Forall2 (grow1 nx) a b -> tget n a = None -> tget n b = None.
Proof.
  induction 1 as [|[k t] [k' t'] ra rb ((E1 & _ & E3) & _) HR IH]; simpl; [auto|]. simpl in *. subst k'. rewrite <- E3.
  destruct (k =? n); [destruct (t_live t); [discriminate|auto]|exact IH].
Qed.

Lemma grow_tm nx a b x : Forall2 (grow1 nx) a b -> tm x b = tm x a.
Proof.
  intros G. unfold tm. destruct (tget x a) as [t|] eqn:T.
  - destruct (grow_tget nx a b x t G T) as (t' & T' & _ & EM & _). rewrite T'. exact EM.
  - rewrite (grow_tget_none nx a b x G T). reflexivity.
Qed.

Lemma u1_of_tm ts ts' snap d allS : (forall x, tm x ts' = tm x ts) -> u1_of ts' snap d allS = u1_of ts snap d allS.
Proof.
  intros H. unfold u1_of.
  assert (existsb (fun r => negb (is0 (sxor (tm r ts') (lookupN r snap)))) (d_subt d) =
          existsb (fun r => negb (is0 (sxor (tm r ts) (lookupN r snap)))) (d_subt d)) as ->.
  { induction (d_subt d); simpl; [reflexivity|]. rewrite H, IHl. reflexivity. }
  destruct (existsb _ _); [reflexivity|].
  assert (forall acc, fold_left (fun a r => union a (sxor (tm r ts') (lookupN r snap))) (d_main d) acc =
                      fold_left (fun a r => union a (sxor (tm r ts) (lookupN r snap))) (d_main d) acc) as G.
  { induction (d_main d); simpl; intros acc; [reflexivity|]. rewrite H. apply IHl. }
  apply G.
Qed.

Lemma union_eq_0 a b : union a b = 0 -> a = 0 /\ b = 0.
Proof. unfold union. apply N.lor_eq_0_iff. Qed.

Lemma dirty_false st : dirty_of st = false -> m_upd st = 0 /\ m_rst st = 0 /\ m_add st = 0.
Proof.
  unfold dirty_of. intros H. apply negb_false_iff in H. apply andb_true_iff in H. destruct H as [H H3].
  apply andb_true_iff in H. destruct H as [H1 H2]. repeat split; apply is0_true; assumption.
Qed.

Lemma sunion_bounded nx l : (forall cs, In cs l -> bounded nx (snd cs)) -> bounded nx (fold_left (fun a (cs : N * N) => union a (snd cs)) l 0).
Proof.
  intros H i Hi. apply sunion_mem in Hi. destruct Hi as [Hi|(cs & I & M)]; [rewrite mem_0 in Hi; discriminate|]. exact (H cs I i M).
Qed.

(* ---------------------------------------------------------------- Uncertain / masks grow, next id unchanged *)
Lemma tcore_grow st st' :
  Tcore st -> next st' = next st ->
  Forall2 (grow1 (next st)) (tags st) (tags st') -> deadok (tags st') -> u_bounded (next st) (tags st') -> closed (next st) (tags st') ->
  bounded (next st) (m_upd st') -> bounded (next st) (m_rst st') -> bounded (next st) (m_add st') ->
  jtag st' = jtag st -> convs st' = convs st -> (forall j, jconv st' = Some j -> jconv st = Some j) ->
  idx st' = idx st -> jmerge st' = jmerge st -> jimp st' = jimp st ->
  Tcore st'.
Proof.
  intros (A1 & A2 & A3 & A4 & A5 & A6 & A7 & A8 & A9 & A10 & A11 & A12) N G D UB CL BU BR BA JT CV JC IX JM JI.
  unfold Tcore. rewrite N.
  split; [eapply sorted_same; [eapply grow_same; exact G|exact A1]|
  split; [eapply ranked_same; [eapply grow_same; exact G|exact A2]|
  split; [exact D|split; [eapply tb_from; [apply N.le_refl|exact A4|exact G|exact UB]|
  split; [exact BU|split; [exact BR|split; [exact BA|split; [exact CL|split; [|split; [|split]]]]]]]]]].
  - intros j Hj. rewrite JT in Hj. rewrite N. exact (A9 j Hj).
  - destruct A10 as (ND & NJ). unfold convs_ok. rewrite CV. split; [exact ND|]. intros j Hj. apply NJ. apply JC. exact Hj.
  - unfold mergejob_ok. rewrite JM, IX. exact A11.
  - unfold impjob_t, resp_t. rewrite JI, N. exact A12.
Qed.

Lemma tcore_cconv st p sets v nx : Tinv st -> jconv st = Some (mkCj sets v nx true) ->
  Tcore (step repaired p (AComplete JConvert) st).
Proof.
  intros TI J. rewrite (cconv_eq st p sets v nx J). apply tcore_starts.
  apply Tinv_split in TI. destruct TI as (TC & _ & (_ & CB & _)).
  pose proof TC as (A1 & A2 & A3 & A4 & A5 & A6 & A7 & A8 & A9 & A10 & A11 & A12).
  destruct (CB _ J) as (LN & _). simpl in LN. destruct A10 as (ND & NJ). destruct (NJ _ J) as (_ & SB). simpl in SB.
  set (s := fold_left (fun a (cs : N * N) => union a (snd cs)) sets 0).
  assert (bounded (next st) s) as BS.
  { apply sunion_bounded. intros cs I. eapply bounded_mono; [exact LN|]. apply SB; [reflexivity|exact I]. }
  assert (Forall2 (grow1 (next st)) (tags st) (tags (cconv_pre st sets))) as G.
  { unfold cconv_pre. simpl. eapply grow_trans; [apply grow_data_tags|apply grow_inherit]. }
  apply (tcore_grow st); try reflexivity; try assumption.
  - unfold cconv_pre. simpl. apply deadok_inherit, deadok_data_tags. exact A3.
  - unfold cconv_pre. simpl. apply u_bounded_inherit, ub_data_tags; [apply tags_u_bounded; exact A4|exact BS].
  - unfold cconv_pre. simpl. apply closed_inherit.
  - unfold cconv_pre. simpl. apply union_bounded; assumption.
  - intros j Hj. discriminate.
Qed.

(* ---------------------------------------------------------------- tagging job completion keeps the core invariant *)
Lemma sxor_bounded nx a b : bounded nx a -> bounded nx b -> bounded nx (sxor a b).
Proof.
  intros A B i H. rewrite mem_sxor in H. destruct (mem i a) eqn:E; [apply A; exact E|]. apply B. destruct (mem i b); [reflexivity|discriminate].
Qed.

Lemma fold_union_bounded nx (f : N -> N) l : forall acc, bounded nx acc -> (forall x, In x l -> bounded nx (f x)) ->
  bounded nx (fold_left (fun a r => union a (f r)) l acc).
Proof.
  intros acc A H i Hi. rewrite fold_union_mem in Hi. apply orb_true_iff in Hi. destruct Hi as [Hi|Hi]; [apply A; exact Hi|].
  apply existsb_exists in Hi. destruct Hi as (x & I & M). exact (H x I i M).
Qed.

Lemma u1_bounded nx ts snap d : tags_bounded nx ts -> (forall x, bounded nx (lookupN x snap)) -> bounded nx (u1_of ts snap d (ones nx)).
Proof.
  intros TB SB. unfold u1_of. destruct (existsb _ _); [apply ones_bounded|].
  apply fold_union_bounded; [apply bounded_0|]. intros x _. apply sxor_bounded; [apply tm_bounded; exact TB|apply SB].
Qed.

Lemma tb_tset nx n tp ts : tags_bounded nx ts -> bounded nx (t_u tp) -> bounded nx (t_m tp) -> tags_bounded nx (tset n tp ts).
Proof.
  intros TB BU BM k t I. destruct (In_tset _ _ _ _ _ I) as [(-> & ->)|(_ & I0)]; [split; assumption|exact (TB k t I0)].
Qed.

Lemma tcore_nojob st st' : Tcore st -> tags st' = tags st -> next st' = next st -> m_upd st' = m_upd st -> m_rst st' = m_rst st ->
  m_add st' = m_add st -> jtag st' = None -> convs st' = convs st -> jconv st' = jconv st -> idx st' = idx st -> jmerge st' = jmerge st ->
  jimp st' = jimp st -> Tcore st'.
Proof.
  intros (A1 & A2 & A3 & A4 & A5 & A6 & A7 & A8 & A9 & A10 & A11 & A12) F1 F2 F3 F4 F5 F6 F7 F8 F9 F10 F11.
  unfold Tcore, tagjob_ok, convs_ok, mergejob_ok, impjob_t, resp_t. rewrite F1, F2, F3, F4, F5, F6, F7, F8, F9, F10, F11.
  split; [exact A1|split; [exact A2|split; [exact A3|split; [exact A4|split; [exact A5|split; [exact A6|split; [exact A7|
    split; [exact A8|split; [discriminate|split; [exact A10|split; [exact A11|exact A12]]]]]]]]]]].
Qed.

Lemma tcore_ctag st p n d m0 u0 cv snap h res : Tcore st -> jtag st = Some (mkTj n d m0 u0 cv snap h (Some res)) ->
  Tcore (step repaired p (AComplete JTag) st).
Proof.
  intros TC J. rewrite (ctag_eq st p n d m0 u0 cv snap h res J). apply tcore_starts.
  pose proof TC as (A1 & A2 & A3 & A4 & A5 & A6 & A7 & A8 & A9 & A10 & A11 & A12).
  unfold ctag_pre. cbv zeta. change (tags (set_jtag st None)) with (tags st). change (all (set_jtag st None)) with (all st).
  destruct (tget n (tags st)) as [ot|] eqn:Tn; [|apply (tcore_nojob st); auto].
  destruct (defn_eqb (t_def ot) d) eqn:DE; [|apply (tcore_nojob st); auto].
  apply defn_eqb_eq in DE. subst d.
  destruct (A9 _ J) as (_ & _ & B3 & B6). simpl in B3, B6. specialize (B6 res eq_refl).
  destruct (tget_In _ _ _ Tn) as (In_n & Ln).
  set (tp := mkTag (t_def ot) res (u1_of (tags st) snap (t_def ot) (all st)) (t_conv ot)).
  set (ts1 := tset n tp (tags st)).
  assert (Forall2 same1 (tags st) ts1) as SM1.
  { apply Forall2_tset; [intros; repeat split|]. intros k0 t0 I0 ->.
    assert (t0 = ot) as -> by (eapply sorted_unique; eassumption). unfold same1; simpl; repeat split. exact Ln. }
  assert (tags_bounded (next st) ts1) as TB1.
  { apply tb_tset; [exact A4| |exact B6]. simpl. apply u1_bounded; assumption. }
  assert (deadok ts1) as DK1 by (apply deadok_tset; [reflexivity|exact A3]).
  set (ts2 := if dirty_of st then invalidate_tags repaired (all st) (m_upd st) (m_rst st) (m_add st) ts1 else inherit (all st) ts1).
  assert (Forall2 (grow1 (next st)) ts1 ts2) as G.
  { unfold ts2. destruct (dirty_of st); [apply grow_invalidate_tags|apply grow_inherit]. }
  assert (u_bounded (next st) ts2) as UB2.
  { unfold ts2, invalidate_tags, all. destruct (dirty_of st).
    - apply u_bounded_inherit. apply (ub_map_inval repaired (next st)); try assumption; [apply N.le_refl|apply tags_u_bounded; exact TB1].
    - apply u_bounded_inherit. apply tags_u_bounded. exact TB1. }
  unfold Tcore, tagjob_ok, convs_ok, mergejob_ok, impjob_t, resp_t. simpl. fold tp. fold ts1. fold ts2.
  split; [eapply sorted_same; [eapply Forall2_trans_same; [exact SM1|eapply grow_same; exact G]|exact A1]|
  split; [eapply ranked_same; [eapply Forall2_trans_same; [exact SM1|eapply grow_same; exact G]|exact A2]|
  split; [|split; [eapply tb_from; [apply N.le_refl|exact TB1|exact G|exact UB2]|
  split; [exact A5|split; [exact A6|split; [exact A7|split; [|split; [discriminate|split; [exact A10|split; [exact A11|exact A12]]]]]]]]]]].
  - unfold ts2, invalidate_tags. destruct (dirty_of st); [apply deadok_inherit, deadok_map_inval; exact DK1|apply deadok_inherit; exact DK1].
  - unfold ts2, invalidate_tags, all. destruct (dirty_of st); apply closed_inherit.
Qed.

(* ---------------------------------------------------------------- import completion keeps the core invariant *)
Lemma tcore_frame st st' : tags st' = tags st -> next st' = next st -> m_upd st' = m_upd st -> m_rst st' = m_rst st ->
  m_add st' = m_add st -> jtag st' = jtag st -> convs st' = convs st -> jconv st' = jconv st -> idx st' = idx st ->
  jmerge st' = jmerge st -> (forall n r, jimp st' = Some (mkImp n (Some r)) -> jimp st = Some (mkImp n (Some r))) ->
  Tcore st -> Tcore st'.
Proof.
  intros F1 F2 F3 F4 F5 F6 F7 F8 F9 F10 F11 (A1 & A2 & A3 & A4 & A5 & A6 & A7 & A8 & A9 & A10 & A11 & A12).
  unfold Tcore, tagjob_ok, convs_ok, mergejob_ok, impjob_t, resp_t, clean, dirty_of, all. rewrite F1, F2, F3, F4, F5, F6, F7, F8, F9, F10.
  split; [exact A1|split; [exact A2|split; [exact A3|split; [exact A4|split; [exact A5|split; [exact A6|split; [exact A7|
    split; [exact A8|split; [exact A9|split; [exact A10|split; [exact A11|]]]]]]]]]]].
  intros n r E. apply (A12 n r). apply F11. exact E.
Qed.

Lemma ones_is0 n : is0 (ones n) = true -> n = 0.
Proof.
  intros H. apply is0_true in H. destruct (N.eq_dec n 0) as [E|E]; [exact E|].
  assert (mem 0 (ones n) = true) as M by (apply mem_ones; lia). rewrite H, mem_0 in M. discriminate.
Qed.

Lemma tcore_import_core st r cu q tc ca ve un h vw :
  Tcore st -> resp_t st r -> ir_idx r <> [] ->
  Tcore (mkSt (ir_next r) (invalidate_tags repaired (ones (ir_next r)) (ir_upd r) (ir_rst r) (ir_add r) (tags st))
              (union (m_upd st) (ir_upd r)) (union (m_rst st) (ir_rst r)) (union (m_add st) (ir_add r))
              cu q (convs st) tc ca ve (idx st ++ ir_idx r) un None (jtag st) (jconv st) (jmerge st) h vw).
Proof.
  intros (A1 & A2 & A3 & A4 & A5 & A6 & A7 & A8 & A9 & A10 & A11 & A12) (P1 & (R1 & R2 & R3 & R4) & R5 & R6) NE.
  set (nx' := ir_next r).
  pose proof (grow_invalidate_tags repaired nx' (ir_upd r) (ir_rst r) (ir_add r) (tags st)) as G.
  assert (bounded nx' (ir_upd r)) as BU by (intros i Hi; apply R2 in Hi; unfold nx'; lia).
  assert (bounded nx' (ir_rst r)) as BR by (intros i Hi; apply R3 in Hi; unfold nx'; lia).
  assert (bounded nx' (ir_add r)) as BA by (intros i Hi; apply R5; exact Hi).
  assert (u_bounded nx' (invalidate_tags repaired (ones nx') (ir_upd r) (ir_rst r) (ir_add r) (tags st))) as UB.
  { unfold invalidate_tags. apply u_bounded_inherit. apply (ub_map_inval repaired (next st)); try assumption. apply tags_u_bounded. exact A4. }
  unfold Tcore. simpl. fold nx'.
  split; [eapply sorted_same; [eapply grow_same; exact G|exact A1]|
  split; [eapply ranked_same; [eapply grow_same; exact G|exact A2]|
  split; [unfold invalidate_tags; apply deadok_inherit, deadok_map_inval; exact A3|
  split; [eapply tb_from; [exact R1|exact A4|exact G|exact UB]|
  split; [apply union_bounded; [eapply bounded_mono; [exact R1|exact A5]|exact BU]|
  split; [apply union_bounded; [eapply bounded_mono; [exact R1|exact A6]|exact BR]|
  split; [apply union_bounded; [eapply bounded_mono; [exact R1|exact A7]|exact BA]|
  split; [unfold invalidate_tags; apply closed_inherit|split; [|split; [|split; [|]]]]]]]]]]].
  - intros j Hj. simpl in Hj. destruct (A9 j Hj) as (B1 & B2 & B3 & B6). simpl.
    split; [eapply bounded_mono; [exact R1|exact B1]|split; [eapply bounded_mono; [exact R1|exact B2]|
    split; [intros x; eapply bounded_mono; [exact R1|apply B3]|intros res E; eapply bounded_mono; [exact R1|exact (B6 res E)]]]].
  - exact A10.
  - intros j Hj. simpl in Hj. destruct (A11 j Hj) as (L1 & L2 & L3). simpl. rewrite app_length. split; [exact L1|split; [lia|exact L3]].
  - intros n0 r0 E. simpl in E. discriminate.
Qed.

Lemma tcore_cimp st p n r : Tcore st -> jimp st = Some (mkImp n (Some r)) -> Tcore (step repaired p (AComplete JImport) st).
Proof.
  intros TC J. pose proof TC as (A1 & A2 & A3 & A4 & A5 & A6 & A7 & A8 & A9 & A10 & A11 & A12).
  pose proof (A12 n r J) as RT. simpl. rewrite J. apply tcore_starts.
  assert (forall st1, Tcore st1 -> jimp st1 = None ->
     Tcore (match skipn (ir_proc r) (queue st1) with
            | [] => set_queue st1 (skipn (ir_proc r) (queue st1))
            | _ :: _ => set_jimp (set_queue st1 (skipn (ir_proc r) (queue st1))) (Some (mkImp (length (skipn (ir_proc r) (queue st1))) None)) end)) as HQ.
  { intros st1 H1 J1. destruct (skipn (ir_proc r) (queue st1)); apply (tcore_frame st1); try reflexivity; try exact H1;
      intros nn rr E; simpl in E; try discriminate. rewrite J1 in E. discriminate. }
  destruct (ir_idx r) eqn:EI.
  - apply HQ; [|reflexivity]. apply (tcore_frame st); try reflexivity; [|exact TC]. intros nn rr E. simpl in E. discriminate.
  - apply HQ; [|reflexivity]. simpl.
    assert (HC := tcore_import_core st r (union (m_cupd st) (union (ir_upd r) (ir_rst r))) (queue st) (toconv st) (cache st)
                    (bump (ver st) (union (union (ir_upd r) (ir_rst r)) (ir_add r))) (unmerge st) (r :: hist st) (views st) TC RT
                    ltac:(rewrite EI; discriminate)).
    revert HC. rewrite EI. apply tcore_frame; try reflexivity. intros nn rr E. exact E.
Qed.

(* ---------------------------------------------------------------- Tinv is preserved by every firing job step *)
Lemma enabled_job a st : enabled st a -> job_action a.
Proof. destruct a; simpl; auto. Qed.

Theorem Tinv_jstep st st' : Tinv st -> jstep st st' -> Tinv st'.
Proof.
  intros TI (p & a & En & ->). pose proof (proj1 (Tinv_split st) TI) as (TC & CV & CI).
  apply Tinv_split. split; [|split].
  - destruct a; try (destruct En; fail).
    + destruct En as ((n & J) & RT). eapply tcore_bimp; eassumption.
    + destruct En as (j & J & R). eapply tcore_btag; eassumption.
    + destruct En as (j & J & D). eapply tcore_bconv; eassumption.
    + destruct En as (j & J & R). eapply tcore_bmerge; eassumption.
    + destruct k; simpl in En.
      * destruct En as (n & r & J). eapply tcore_cimp; eassumption.
      * destruct En as (j & res & J & R). destruct j; simpl in R; subst. eapply tcore_ctag; eassumption.
      * destruct En as (j & J & D). destruct j; simpl in D; subst. eapply tcore_cconv; eassumption.
      * destruct En as (j & m & J & R). eapply tcore_cmerge; eassumption.
  - apply covered_job_step; [reflexivity|eapply enabled_job; exact En|exact CV].
  - apply cinv_step; [repeat split|..|exact CI].
    destruct a; simpl; auto. destruct En as (_ & (_ & RO & _)). exact RO.
Qed.

(* ---------------------------------------------------------------- termination *)
Theorem jstep_terminates : forall st, Tinv st -> Acc (fun b a => jstep a b) st.
Proof.
  assert (forall l st, mu st = l -> Tinv st -> Acc (fun b a => jstep a b) st) as G.
  { intros l. induction (lexlt_wf l) as [l _ IH]. intros st E TI. constructor. intros st' JS.
    apply (IH (mu st')); [rewrite <- E; apply jstep_decreases; assumption|reflexivity|eapply Tinv_jstep; eassumption]. }
  intros st TI. apply (G (mu st)); [reflexivity|exact TI].
Qed.

(* a state in which no job step can fire has no job in flight, hence (covered) is quiescent *)
Lemma stuck_no_job st : (forall st', ~ jstep st st') -> no_job st.
Proof.
  intros ST. unfold no_job.
  assert (forall a, enabled st a -> False) as NE by (intros a En; apply (ST (step repaired 0 a st)); exists 0, a; split; [exact En|reflexivity]).
  split; [|split; [|split]].
  - destruct (jimp st) as [[n [r|]]|] eqn:J; [|exfalso|reflexivity].
    + exfalso. apply (NE (AComplete JImport)). simpl. exists n, r. exact J.
    + apply (NE (ABodyImport (mkIresp 1 0 0 0 (next st) []))). simpl. split; [exists n; exact J|].
      unfold resp_t, iresp_ok. simpl. repeat split; try lia; try (intros i H; rewrite mem_0 in H; discriminate); try congruence.
  - destruct (jtag st) as [j|] eqn:J; [|reflexivity]. exfalso. destruct (tj_res j) as [res|] eqn:R.
    + apply (NE (AComplete JTag)). simpl. exists j, res. split; assumption.
    + apply (NE (ABodyTag [])). simpl. exists j. split; assumption.
  - destruct (jconv st) as [j|] eqn:J; [|reflexivity]. exfalso. destruct (cj_done j) eqn:D.
    + apply (NE (AComplete JConvert)). simpl. exists j. split; assumption.
    + apply (NE (ABodyConvert [])). simpl. exists j. split; assumption.
  - destruct (jmerge st) as [j|] eqn:J; [|reflexivity]. exfalso. destruct (mj_res j) as [m|] eqn:R.
    + apply (NE (AComplete JMerge)). simpl. exists j, m. split; assumption.
    + apply (NE ABodyMerge). simpl. exists j. split; assumption.
Qed.

Theorem stuck_quiescent st : Tinv st -> (forall st', ~ jstep st st') -> quiescent st /\ all_certain (tags st) = true.
Proof.
  intros TI ST. pose proof (proj1 (Tinv_split st) TI) as ((So & Ra & Dk & _) & CV & _).
  pose proof (rest_quiescent st CV (stuck_no_job st ST)) as Q. split; [exact Q|].
  destruct Q as (_ & FE & _). destruct (all_certain (tags st)) eqn:AC; [reflexivity|].
  exfalso. apply (eligible_exists (tags st) So Ra (deadok_dead_clean _ Dk) AC). exact FE.
Qed.

(* ---------------------------------------------------------------- schedules *)
Inductive jsteps : state -> state -> Prop :=
| js_refl st : jsteps st st
| js_step st st' st'' : jstep st st' -> jsteps st' st'' -> jsteps st st''.

Lemma Tinv_jsteps st st' : Tinv st -> jsteps st st' -> Tinv st'.
Proof. intros TI H. induction H; [exact TI|]. apply IHjsteps. eapply Tinv_jstep; eassumption. Qed.

Theorem schedules_end_quiescent st st' : Tinv st -> jsteps st st' -> (forall st'', ~ jstep st' st'') ->
  quiescent st' /\ all_certain (tags st') = true.
Proof. intros TI H ST. apply stuck_quiescent; [eapply Tinv_jsteps; eassumption|exact ST]. Qed.

(* the initial state satisfies the invariant *)
Lemma Tinv_init cs : NoDup cs -> Tinv (init cs).
Proof.
  intros ND. apply Tinv_split. split; [|split].
  - unfold Tcore. simpl.
    split; [repeat split; intros k' t' HI; repeat (destruct HI as [HI|HI]; [inversion HI; subst; reflexivity|]); destruct HI|].
    split; [intros n t HI L; simpl in HI; repeat (destruct HI as [HI|HI]; [inversion HI; subst; discriminate|]); destruct HI|].
    split; [intros n t HI L; simpl in HI; repeat (destruct HI as [HI|HI]; [inversion HI; subst; repeat split|]); destruct HI|].
    split; [intros n t HI; simpl in HI; repeat (destruct HI as [HI|HI]; [inversion HI; subst; split; apply bounded_0|]); destruct HI|].
    split; [apply bounded_0|split; [apply bounded_0|split; [apply bounded_0|]]].
    split; [repeat split; intros x Hx; destruct Hx|].
    split; [intros j Hj; discriminate|split; [split; [exact ND|intros j Hj; discriminate]|split; [intros j Hj; discriminate|intros n r Hj; discriminate]]].
  - split; [|split; [|split]].
    + intros H. exfalso. apply H. reflexivity.
    + intros c _ H. exfalso. apply H. reflexivity.
    + reflexivity.
    + intros H. exfalso. apply H. reflexivity.
  - apply cinv_init.
Qed.
