(* Indexes.v -- executable model of the index-file side of the pkappa2 Manager
   (internal/index/manager/manager.go): the ordered list of index files the service
   serves from, the use counts (usedIndexes, lock/release), the files in the index
   directory, the import queue with job chaining, the import / merge / tagging jobs with the
   index snapshots they captured (getIndexesCopy), and views (View.fetch / Release).

   One transition per closure the Go code posts to the service loop (mgr.jobs) and one
   per job body (the code between verifGate("<job>.start") and verifGate("<job>.done")):
     AImport   ImportPcaps                         manager.go ImportPcaps
     AView     GetView + first fetch               View.fetch
     ARead     any later read through a view       View.fetch (no-op once fetched)
     ARelease  View.Release
     ATagAdd   AddTag of a tag with a data filter  AddTag
     ATagDel / ATagUpd  DelTag / UpdateTag(query)   (which tag: observed by the harness, see below)
     AConvSet / AConvRemove / AConvAdd   UpdateTag(SetConverter) / removeConverter / addConverter
     AStart k  body of the parked job k            builder.FromPcap / index.Merge / search / conversions
     AComplete k  completion closure of job k      importPcapJob / mergeIndexesJob / updateTagJob / convertStreamJob
   Definitions only (computable, total); proofs are in IndexesProofs.v.

   Abstractions (see notes/C10.md, notes/C13.md):
   - an index file = uid (creation stamp) + entries (stream id, flow, version); contents are immutable
   - a capture = list of (flow, bytes) packets; a stream = a flow; version = total bytes
   - captures arrive in timestamp order, each once (enabledness of AImport; arrival order is C08)
   - tag evaluation and converter caches are environment (C06/C16): how many tags are uncertain after a closure
     (AEnvUnc) and whether the converter scheduler finds work (AEnvConvWork) are inputs, observed on the
     implementation by the harness; the model decides from them which jobs start and what they lock
   - merge of a run of files = one file holding the newest entry of every id (C07); the theorems
     take the merge function as a Section variable with exactly that hypothesis
   - nStreamRecords is recomputed from the list instead of being updated incrementally *)
From Coq Require Import List NArith Bool Arith.
Import ListNotations.
Open Scope N_scope.

(* ---------------------------------------------------------------- data *)
Definition capture := list (N * N).          (* packets: (flow, payload bytes) *)

Record entry := mkEntry { e_id : N; e_flow : N; e_ver : N }.
Record file := mkFile { f_uid : N; f_ents : list entry }.

Inductive phase := AtStart | AtDone.
Inductive kind := KImport | KMerge | KTag | KConvert.

Record import_job := mkIJ {
  ij_caps : list N;          (* filenames handed to the job *)
  ij_next : N;               (* nextStreamID argument *)
  ij_snap : list file;       (* existingIndexes (locked) *)
  ij_phase : phase;
  ij_created : list file;    (* result of FromPcap, valid AtDone *)
  ij_usednew : N;            (* usedNewStreamIDs *)
  ij_nproc : nat }.          (* processedFiles *)

Record merge_job := mkMJ {
  mj_off : nat;
  mj_snap : list file;
  mj_phase : phase;
  mj_merged : list file }.

Record tag_job := mkTJ { tj_snap : list file; tj_phase : phase;
  tj_valid : bool }.   (* false: the tag was deleted / redefined while the job was in flight (its result is discarded) *)

Record conv_job := mkCJ { cj_snap : list file; cj_phase : phase }.

Record state := mkState {
  indexes : list file;            (* mgr.indexes *)
  used : list (N * N);            (* mgr.usedIndexes: uid -> count, zero entries deleted *)
  disk : list N;                  (* *.idx files in the index directory *)
  queue : list N;                 (* mgr.importJobs *)
  known : list N;                 (* builder.knownPcaps (with packets) *)
  processed : list N;             (* captures reported by a pcapProcessed event *)
  next_cap : N;                   (* captures below this number have been submitted *)
  next_id : N;                    (* mgr.nextStreamID *)
  next_uid : N;                   (* creation stamp of the next index file *)
  nunm : nat;                     (* mgr.nUnmergeableIndexes *)
  cwork : bool;                   (* environment: startConverterJobIfNeeded would find streams to convert *)
  unc : N;                        (* environment: number of tags with Uncertain <> 0 (tag evaluation is C06) *)
  cjob : option conv_job;         (* converterJobRunning *)
  ijob : option import_job;
  mjob : option merge_job;        (* mergeJobRunning *)
  tjob : option tag_job;          (* taggingJobRunning *)
  views : list (N * list file);   (* open, fetched views with their index snapshot *)
  tagver : N;                     (* ghost: version stamp of the manager's tag table (bumped whenever it may be rewritten) *)
  vtags : list (N * (N * bool)) }. (* ghost: per open view its own copy of the tag details = (stamp of the table it copied at fetch,
                                      lazily evaluated by the view itself with PrefetchTags) *)

Definition init : state :=
  mkState [] [] [] [] [] [] 0 0 0 0%nat false 0 None None None None [] 0 [].

(* ---------------------------------------------------------------- use counts: lock / release *)
Fixpoint cnt (m : list (N * N)) (u : N) : N :=
  match m with
  | [] => 0
  | (k, c) :: r => if k =? u then c else cnt r u
  end.

Fixpoint incr (u : N) (m : list (N * N)) : list (N * N) :=
  match m with
  | [] => [(u, 1)]
  | (k, c) :: r => if k =? u then (k, c + 1) :: r else (k, c) :: incr u r
  end.

Definition wrap64 : N := 18446744073709551615.   (* uint(0) - 1 *)

Fixpoint setc (u c : N) (m : list (N * N)) : list (N * N) :=
  match m with
  | [] => [(u, c)]
  | (k, c0) :: r => if k =? u then (k, c) :: r else (k, c0) :: setc u c r
  end.

Definition delkey (u : N) (m : list (N * N)) : list (N * N) :=
  filter (fun kv => negb (fst kv =? u)) m.

Definition rmdisk (u : N) (d : list N) : list N := filter (fun x => negb (x =? u)) d.

(* func (mgr *Manager) lock(indexes) *)
Definition lock (fs : list file) (m : list (N * N)) : list (N * N) :=
  fold_left (fun m f => incr (f_uid f) m) fs m.

(* one iteration of indexReleaser.release: usedIndexes[i]--; if 0 { delete; Close; os.Remove } *)
Definition release1 (u : N) (md : list (N * N) * list N) : list (N * N) * list N :=
  let (m, d) := md in
  let c := cnt m u in
  if c =? 0 then (setc u wrap64 m, d)           (* uint wrap-around of a missing key *)
  else if c =? 1 then (delkey u m, rmdisk u d)
  else (setc u (c - 1) m, d).

Definition release (fs : list file) (md : list (N * N) * list N) : list (N * N) * list N :=
  fold_left (fun md f => release1 (f_uid f) md) fs md.

(* ---------------------------------------------------------------- reading index files *)
Fixpoint find_ent (id : N) (es : list entry) : option entry :=
  match es with
  | [] => None
  | e :: r => if e_id e =? id then Some e else find_ent id r
  end.

(* newest version wins: the last file of the list that contains the id (View.Stream) *)
Fixpoint lookup_vis (fs : list file) (id : N) : option entry :=
  match fs with
  | [] => None
  | f :: r => match lookup_vis r id with
              | Some e => Some e
              | None => find_ent id (f_ents f)
              end
  end.

Definition has_id (id : N) (f : file) : bool :=
  match find_ent id (f_ents f) with Some _ => true | None => false end.

(* View.AllStreams: from the last file to the first, skipping ids contained in a later file *)
Fixpoint all_streams (fs : list file) : list entry :=
  match fs with
  | [] => []
  | f :: r => all_streams r ++ filter (fun e => negb (existsb (has_id (e_id e)) r)) (f_ents f)
  end.

(* index.Merge as far as this model needs it (correctness on real files is C07) *)
Definition merge_ents (fs : list file) : list entry := all_streams fs.

Definition nrec (fs : list file) : N :=
  fold_right (fun f a => N.of_nat (length (f_ents f)) + a) 0 fs.

(* startMergeJobIfNeeded: first i >= nUnmergeable whose file has fewer stream records than all later files together *)
Fixpoint find_merge_from (i nunm : nat) (fs : list file) (total : N) : option nat :=
  match fs with
  | [] => None
  | f :: r =>
      let c := N.of_nat (length (f_ents f)) in
      let rest := total - c in
      if (nunm <=? i)%nat && (c <? rest) then Some i
      else find_merge_from (S i) nunm r rest
  end.

Definition find_merge (nunm : nat) (fs : list file) : option nat :=
  find_merge_from 0 nunm fs (nrec fs).

(* ---------------------------------------------------------------- builder.FromPcap on generated captures *)
Section WithCaptures.
Variable capdb : N -> capture.     (* contents of capture file k ([] for an unreadable file) *)
Variable bad : N -> bool.          (* capture file k cannot be read (readPackets fails) *)

(* FromPcap's loading loop: the files up to the first unreadable one; an unreadable first file alone
   ("report that we failed to process a single pcap": processedFiles = 1, nothing created) *)
Fixpoint good_prefix (ks : list N) : list N :=
  match ks with
  | [] => []
  | k :: r => if bad k then [] else k :: good_prefix r
  end.

Definition proc_caps (ks : list N) : list N :=
  match good_prefix ks with
  | [] => firstn 1 ks
  | g => g
  end.

Fixpoint cap_bytes (c : capture) (fl : N) : N :=
  match c with
  | [] => 0
  | (f, n) :: r => (if f =? fl then n else 0) + cap_bytes r fl
  end.

Fixpoint total_bytes (ks : list N) (fl : N) : N :=
  match ks with
  | [] => 0
  | k :: r => cap_bytes (capdb k) fl + total_bytes r fl
  end.

Fixpoint dedup (seen l : list N) : list N :=
  match l with
  | [] => []
  | x :: r => if existsb (N.eqb x) seen then dedup seen r else x :: dedup (x :: seen) r
  end.

Definition caps_flows (ks : list N) : list N :=
  flat_map (fun k => map fst (capdb k)) ks.

(* streams in creation order (first packet time) *)
Definition flows_of (ks : list N) : list N := dedup [] (caps_flows ks).

Definition in_caps (ks : list N) (fl : N) : bool := existsb (N.eqb fl) (caps_flows ks).

(* Reader.StreamByFirstPacketSource over the existing indexes, first file that knows the stream *)
Fixpoint find_flow_ents (fl : N) (es : list entry) : option N :=
  match es with
  | [] => None
  | e :: r => if e_flow e =? fl then Some (e_id e) else find_flow_ents fl r
  end.

Fixpoint find_flow (fl : N) (fs : list file) : option N :=
  match fs with
  | [] => None
  | f :: r => match find_flow_ents fl (f_ents f) with
              | Some i => Some i
              | None => find_flow fl r
              end
  end.

Definition max_id (es : list entry) : N := fold_right (fun e a => N.max (e_id e) a) 0 es.

(* "scan for next unused stream id" *)
Definition snap_next (snap : list file) : N :=
  fold_left (fun nx f => if nx <=? max_id (f_ents f) then max_id (f_ents f) + 1 else nx) snap 0.

Fixpoint assign (allk : list N) (snap : list file) (fls : list N) (next : N) : list entry * N :=
  match fls with
  | [] => ([], next)
  | fl :: r =>
      let idn := match find_flow fl snap with
                 | Some i => (i, next)
                 | None => (next, next + 1)
                 end in
      let (es, n) := assign allk snap r (snd idn) in
      (mkEntry (fst idn) fl (total_bytes allk fl) :: es, n)
  end.

(* result of FromPcap: entries of the created file, usedNewStreamIDs, new knownPcaps (processedFiles = length (proc_caps files)) *)
Definition from_pcap (knownk files : list N) (snap : list file) : list entry * N * list N :=
  let newk := proc_caps files in
  let newk' := filter (fun k => match capdb k with [] => false | _ => true end) newk in
  let allk := knownk ++ newk' in
  let touched := filter (in_caps newk') (flows_of allk) in
  let nx := snap_next snap in
  let (es, n) := assign allk snap touched nx in
  (es, n - nx, allk).

(* ---------------------------------------------------------------- the service loop *)
Inductive action :=
| AImport (ks : list N)
| AView (v : N)
| ARead (v : N)
| ARelease (v : N)
| APrefetch (v : N)               (* a read through view v with PrefetchTags: lazy evaluation into the view's OWN copy of the tag details *)
| ATagAdd
| ATagDel (hit : bool)            (* DelTag; hit: it is the tag of the tagging job in flight *)
| ATagUpd (hit : bool)            (* UpdateTag(query) with a new definition *)
| AMarkNew                        (* AddTag of a mark tag: the tag table gets a new entry, no job is started *)
| AMarkEdit                       (* UpdateTag(MarkAddStream / MarkDelStream): a FRESH copy of the tag replaces the old one *)
| AConvSet                        (* UpdateTag(SetConverter): attach / detach a converter *)
| AConvRemove                     (* removeConverter (the executable disappeared) *)
| AConvAdd                        (* addConverter *)
| AEnvUnc (n : N)                 (* environment: after the next closure n tags are uncertain *)
| AEnvConvWork (b : bool)         (* environment: the converter scheduler will (not) find work *)
| ABoot                           (* first closure of manager.New: start tagging / converter / merge jobs if needed *)
| AMergeFail                      (* body of the parked merge job when index.Merge returns an error: nothing is left behind *)
| AStart (k : kind)
| AComplete (k : kind).

Definition set_used_disk (st : state) (md : list (N * N) * list N) : state :=
  mkState (indexes st) (fst md) (snd md) (queue st) (known st) (processed st) (next_cap st) (next_id st)
          (next_uid st) (nunm st) (cwork st) (unc st) (cjob st) (ijob st) (mjob st) (tjob st) (views st) (tagver st) (vtags st).

(* getIndexesCopy(start): copy of the list from start, locked *)
Definition copy_from (start : nat) (st : state) : list file := skipn start (indexes st).

(* go mgr.importPcapJob(files, mgr.nextStreamID, getIndexesCopy(0)) *)
Definition launch_import (files : list N) (st : state) : state :=
  let snap := copy_from 0 st in
  mkState (indexes st) (lock snap (used st)) (disk st) (queue st) (known st) (processed st) (next_cap st)
          (next_id st) (next_uid st) (nunm st) (cwork st) (unc st) (cjob st)
          (Some (mkIJ files (next_id st) snap AtStart [] 0 0)) (mjob st) (tjob st) (views st) (tagver st) (vtags st).

(* startTaggingJobIfNeeded *)
Definition start_tagging (st : state) : state :=
  match tjob st with
  | Some _ => st
  | None =>
      if unc st =? 0 then st
      else
        let snap := copy_from 0 st in
        mkState (indexes st) (lock snap (used st)) (disk st) (queue st) (known st) (processed st) (next_cap st)
                (next_id st) (next_uid st) (nunm st) (cwork st) (unc st) (cjob st)
                (ijob st) (mjob st) (Some (mkTJ snap AtStart true)) (views st) (tagver st) (vtags st)
  end.

(* startConverterJobIfNeeded: whether some converter has streams to convert is an environment input (cwork) *)
Definition start_converter (st : state) : state :=
  match cjob st with
  | Some _ => st
  | None =>
      if cwork st then
        let snap := copy_from 0 st in
        mkState (indexes st) (lock snap (used st)) (disk st) (queue st) (known st) (processed st) (next_cap st)
                (next_id st) (next_uid st) (nunm st) false (unc st) (Some (mkCJ snap AtStart))
                (ijob st) (mjob st) (tjob st) (views st) (tagver st) (vtags st)
      else st
  end.

(* startMergeJobIfNeeded *)
Definition start_merge (st : state) : state :=
  match mjob st, tjob st, cjob st with
  | None, None, None =>
      if unc st =? 0 then
        match find_merge (nunm st) (indexes st) with
        | Some i =>
            let snap := copy_from i st in
            mkState (indexes st) (lock snap (used st)) (disk st) (queue st) (known st) (processed st) (next_cap st)
                    (next_id st) (next_uid st) (nunm st) (cwork st) (unc st) (cjob st)
                    (ijob st) (Some (mkMJ i snap AtStart [])) (tjob st) (views st) (tagver st) (vtags st)
        | None => st
        end
      else st
  | _, _, _ => st
  end.

Fixpoint ascending (lo : N) (ks : list N) : bool :=
  match ks with
  | [] => true
  | k :: r => (lo <=? k) && ascending (k + 1) r
  end.

Definition last_plus1 (lo : N) (ks : list N) : N := fold_left (fun _ k => k + 1) ks lo.

Fixpoint view_of (v : N) (vs : list (N * list file)) : option (list file) :=
  match vs with
  | [] => None
  | (w, s) :: r => if w =? v then Some s else view_of v r
  end.

Fixpoint del_view (v : N) (vs : list (N * list file)) : list (N * list file) :=
  match vs with
  | [] => []
  | (w, s) :: r => if w =? v then r else (w, s) :: del_view v r
  end.

Fixpoint set_view (v : N) (s : list file) (vs : list (N * list file)) : list (N * list file) :=
  match vs with
  | [] => []
  | (w, s0) :: r => if w =? v then (w, s) :: r else (w, s0) :: set_view v s r
  end.

Fixpoint vtag_of (v : N) (vs : list (N * (N * bool))) : option (N * bool) :=
  match vs with
  | [] => None
  | (w, t) :: r => if w =? v then Some t else vtag_of v r
  end.

Fixpoint del_vtag (v : N) (vs : list (N * (N * bool))) : list (N * (N * bool)) :=
  match vs with
  | [] => []
  | (w, t) :: r => if w =? v then r else (w, t) :: del_vtag v r
  end.

Fixpoint set_vtag (v : N) (t : N * bool) (vs : list (N * (N * bool))) : list (N * (N * bool)) :=
  match vs with
  | [] => []
  | (w, t0) :: r => if w =? v then (w, t) :: r else (w, t0) :: set_vtag v t r
  end.

Definition invalidate_tj (hit : bool) (o : option tag_job) : option tag_job :=
  match o with
  | Some (mkTJ snap ph v) => Some (mkTJ snap ph (if hit then false else v))
  | None => None
  end.

Variable refetch_empty : bool.   (* true: View.fetch before /repo 7300a1b (`len(v.indexes) != 0` as fetched flag) *)
Variable merge : list file -> list entry.   (* index.Merge: entries of the merged file *)

Definition step (st : state) (a : action) : state :=
  match a with
  | AImport ks =>
      match ks with
      | [] => st
      | _ =>
        if ascending (next_cap st) ks then
          let q := queue st ++ ks in
          let st1 := mkState (indexes st) (used st) (disk st) q (known st) (processed st)
                             (last_plus1 (next_cap st) ks) (next_id st) (next_uid st) (nunm st) (cwork st)
                             (unc st) (cjob st) (ijob st) (mjob st) (tjob st) (views st) (tagver st) (vtags st) in
          if (length q =? length ks)%nat then launch_import (firstn (length ks) q) st1 else st1
        else st
      end
  | AView v =>
      match view_of v (views st) with
      | Some _ => st
      | None =>
          let snap := copy_from 0 st in
          mkState (indexes st) (lock snap (used st)) (disk st) (queue st) (known st) (processed st) (next_cap st)
                  (next_id st) (next_uid st) (nunm st) (cwork st) (unc st) (cjob st)
                  (ijob st) (mjob st) (tjob st) (views st ++ [(v, snap)]) (tagver st) (vtags st ++ [(v, (tagver st, false))])
      end
  | ARead v =>
      match view_of v (views st) with
      | Some [] =>
          if refetch_empty then
            let snap := copy_from 0 st in
            mkState (indexes st) (lock snap (used st)) (disk st) (queue st) (known st) (processed st) (next_cap st)
                    (next_id st) (next_uid st) (nunm st) (cwork st) (unc st) (cjob st)
                    (ijob st) (mjob st) (tjob st) (set_view v snap (views st)) (tagver st) (set_vtag v (tagver st, false) (vtags st))
          else st
      | _ => st
      end
  | ARelease v =>
      match view_of v (views st) with
      | None => st
      | Some s =>
          let md := release s (used st, disk st) in
          mkState (indexes st) (fst md) (snd md) (queue st) (known st) (processed st) (next_cap st)
                  (next_id st) (next_uid st) (nunm st) (cwork st) (unc st) (cjob st)
                  (ijob st) (mjob st) (tjob st) (del_view v (views st)) (tagver st) (del_vtag v (vtags st))
      end
  | APrefetch v =>
      match vtag_of v (vtags st) with
      | Some (stamp, _) =>
          mkState (indexes st) (used st) (disk st) (queue st) (known st) (processed st) (next_cap st)
                  (next_id st) (next_uid st) (nunm st) (cwork st) (unc st) (cjob st)
                  (ijob st) (mjob st) (tjob st) (views st) (tagver st) (set_vtag v (stamp, true) (vtags st))
      | None => st
      end
  | ATagAdd => start_tagging st
  | ATagDel hit =>
      (* DelTag detaches the tag's converters, which may re-open tags: it ends with startTaggingJobIfNeeded (/repo b99a41a) *)
      start_tagging
        (mkState (indexes st) (used st) (disk st) (queue st) (known st) (processed st) (next_cap st)
                 (next_id st) (next_uid st) (nunm st) (cwork st) (unc st) (cjob st)
                 (ijob st) (mjob st) (invalidate_tj hit (tjob st)) (views st) (tagver st + 1) (vtags st))
  | ATagUpd hit =>
      start_converter (start_tagging
        (mkState (indexes st) (used st) (disk st) (queue st) (known st) (processed st) (next_cap st)
                 (next_id st) (next_uid st) (nunm st) (cwork st) (unc st) (cjob st)
                 (ijob st) (mjob st) (invalidate_tj hit (tjob st)) (views st) (tagver st + 1) (vtags st)))
  | AMarkNew =>
      mkState (indexes st) (used st) (disk st) (queue st) (known st) (processed st) (next_cap st)
              (next_id st) (next_uid st) (nunm st) (cwork st) (unc st) (cjob st)
              (ijob st) (mjob st) (tjob st) (views st) (tagver st + 1) (vtags st)
  | AMarkEdit =>
      start_converter (start_tagging
        (mkState (indexes st) (used st) (disk st) (queue st) (known st) (processed st) (next_cap st)
                 (next_id st) (next_uid st) (nunm st) (cwork st) (unc st) (cjob st)
                 (ijob st) (mjob st) (tjob st) (views st) (tagver st + 1) (vtags st)))
  | AConvSet => start_converter (start_tagging st)
  | AMergeFail =>
      match mjob st with
      | Some (mkMJ off snap AtStart _) =>
          (* the partial output is closed and removed by Merge itself; the completion will count the run as unmergeable *)
          mkState (indexes st) (used st) (disk st) (queue st) (known st) (processed st) (next_cap st)
                  (next_id st) (next_uid st) (nunm st) (cwork st) (unc st) (cjob st)
                  (ijob st) (Some (mkMJ off snap AtDone [])) (tjob st) (views st) (tagver st) (vtags st)
      | _ => st
      end
  | ABoot => start_merge (start_converter (start_tagging st))
  | AConvRemove => start_tagging st
  | AConvAdd => st
  | AEnvUnc n =>
      mkState (indexes st) (used st) (disk st) (queue st) (known st) (processed st) (next_cap st)
              (next_id st) (next_uid st) (nunm st) (cwork st) n (cjob st)
              (ijob st) (mjob st) (tjob st) (views st) (tagver st + 1) (vtags st)
  | AEnvConvWork b =>
      mkState (indexes st) (used st) (disk st) (queue st) (known st) (processed st) (next_cap st)
              (next_id st) (next_uid st) (nunm st) b (unc st) (cjob st)
              (ijob st) (mjob st) (tjob st) (views st) (tagver st) (vtags st)
  | AStart KImport =>
      match ijob st with
      | Some (mkIJ caps nx snap AtStart _ _ _) =>
          let '(es, usednew, allk) := from_pcap (known st) caps snap in
          let created := match es with [] => [] | _ => [mkFile (next_uid st) es] end in
          mkState (indexes st) (used st) (map f_uid created ++ disk st) (queue st)
                  (match es with [] => known st | _ => allk end) (processed st) (next_cap st)
                  (next_id st) (match es with [] => next_uid st | _ => next_uid st + 1 end) (nunm st) (cwork st)
                  (unc st) (cjob st)
                  (Some (mkIJ caps nx snap AtDone created usednew (length (proc_caps caps)))) (mjob st) (tjob st) (views st) (tagver st) (vtags st)
      | _ => st
      end
  | AStart KMerge =>
      match mjob st with
      | Some (mkMJ off snap AtStart _) =>
          let merged := match snap with [] => [] | _ => [mkFile (next_uid st) (merge snap)] end in
          mkState (indexes st) (used st) (map f_uid merged ++ disk st) (queue st) (known st) (processed st)
                  (next_cap st) (next_id st)
                  (match snap with [] => next_uid st | _ => next_uid st + 1 end) (nunm st) (cwork st)
                  (unc st) (cjob st) (ijob st) (Some (mkMJ off snap AtDone merged)) (tjob st) (views st) (tagver st) (vtags st)
      | _ => st
      end
  | AStart KTag =>
      match tjob st with
      | Some (mkTJ snap AtStart v) =>
          mkState (indexes st) (used st) (disk st) (queue st) (known st) (processed st) (next_cap st)
                  (next_id st) (next_uid st) (nunm st) (cwork st) (unc st) (cjob st)
                  (ijob st) (mjob st) (Some (mkTJ snap AtDone v)) (views st) (tagver st) (vtags st)
      | _ => st
      end
  | AComplete KImport =>
      match ijob st with
      | Some (mkIJ caps nx snap AtDone created usednew nproc) =>
          (* existingIndexesReleaser.release(mgr) *)
          let md := release snap (used st, disk st) in
          let has := match created with [] => false | _ => true end in
          let idx := indexes st ++ created in
          let u2 := lock created (fst md) in
          let q := skipn nproc (queue st) in
          let st1 := mkState idx u2 (snd md) q (known st) (processed st ++ firstn nproc caps) (next_cap st)
                             (if has then nx + usednew else next_id st) (next_uid st) (nunm st) (cwork st)
                             (unc st) (cjob st)
                             None (mjob st) (tjob st) (views st) (tagver st) (vtags st) in
          let st2 := match q with [] => st1 | _ => launch_import q st1 end in
          start_merge (start_converter (start_tagging st2))
      | _ => st
      end
  | AComplete KMerge =>
      match mjob st with
      | Some (mkMJ off snap AtDone merged) =>
          let st1 :=
            match merged with
            | [] => mkState (indexes st) (used st) (disk st) (queue st) (known st) (processed st) (next_cap st)
                            (next_id st) (next_uid st) (S (nunm st)) (cwork st) (unc st) (cjob st)
                            (ijob st) None (tjob st) (views st) (tagver st) (vtags st)
            | _ =>
                let old := firstn (length snap) (skipn off (indexes st)) in
                let md := release old (used st, disk st) in
                let u2 := lock merged (fst md) in
                let idx := firstn off (indexes st) ++ merged ++ skipn (off + length snap) (indexes st) in
                mkState idx u2 (snd md) (queue st) (known st) (processed st) (next_cap st)
                        (next_id st) (next_uid st) (nunm st + (length merged - 1))%nat (cwork st) (unc st) (cjob st)
                        (ijob st) None (tjob st) (views st) (tagver st) (vtags st)
            end in
          let st2 := start_merge st1 in
          set_used_disk st2 (release snap (used st2, disk st2))
      | _ => st
      end
  | AComplete KTag =>
      match tjob st with
      | Some (mkTJ snap AtDone v) =>
          (* whether the result is published ("don't touch the tag if it was modified") only changes tag state = environment *)
          let st1 := mkState (indexes st) (used st) (disk st) (queue st) (known st) (processed st) (next_cap st)
                             (next_id st) (next_uid st) (nunm st) (cwork st) (unc st) (cjob st)
                             (ijob st) (mjob st) None (views st) (tagver st) (vtags st) in
          let st2 := start_merge (start_converter (start_tagging st1)) in
          set_used_disk st2 (release snap (used st2, disk st2))
      | _ => st
      end
  | AStart KConvert =>
      match cjob st with
      | Some (mkCJ snap AtStart) =>
          mkState (indexes st) (used st) (disk st) (queue st) (known st) (processed st) (next_cap st)
                  (next_id st) (next_uid st) (nunm st) (cwork st) (unc st) (Some (mkCJ snap AtDone))
                  (ijob st) (mjob st) (tjob st) (views st) (tagver st) (vtags st)
      | _ => st
      end
  | AComplete KConvert =>
      match cjob st with
      | Some (mkCJ snap AtDone) =>
          let st1 := mkState (indexes st) (used st) (disk st) (queue st) (known st) (processed st) (next_cap st)
                             (next_id st) (next_uid st) (nunm st) (cwork st) (unc st) None
                             (ijob st) (mjob st) (tjob st) (views st) (tagver st) (vtags st) in
          let st2 := start_merge (start_converter (start_tagging st1)) in
          set_used_disk st2 (release snap (used st2, disk st2))
      | _ => st
      end
  end.

Definition run (acts : list action) : state := fold_left step acts init.

(* manager.New on an existing index directory: every *.idx file that index.NewReader accepts is served (in file
   name order = fs) and locked once (`mgr.lock(mgr.indexes)`); files it rejects are logged, skipped and stay in the
   directory (junk); nextStreamID = highest stream id + 1; the builder knows the captures P processed before. *)
Definition init_from (fs : list file) (junk : list N) (P : list N) : state :=
  mkState fs (lock fs []) (map f_uid fs ++ junk) []
          (filter (fun k => match capdb k with [] => false | _ => true end) P) P
          (fold_left (fun a k => N.max a (k + 1)) P 0)
          (snap_next fs)
          (fold_left (fun a u => N.max a (u + 1)) (map f_uid fs ++ junk) 0)
          0%nat false 0 None None None None [] 0 [].

(* is the action one the harness can perform in this state? (used by the replay driver only) *)
Definition enabled (st : state) (a : action) : bool :=
  match a with
  | AImport ks => match ks with [] => false | _ => ascending (next_cap st) ks end
  | AView v => match view_of v (views st) with None => true | Some _ => false end
  | ARead v | ARelease v | APrefetch v => match view_of v (views st) with None => false | Some _ => true end
  | ATagAdd => true
  | ATagDel hit | ATagUpd hit => if hit then match tjob st with Some _ => true | None => false end else true
  | AMarkNew | AMarkEdit | AConvSet | AConvRemove | AConvAdd | AEnvUnc _ | AEnvConvWork _ | ABoot => true
  | AMergeFail => match mjob st with Some j => match mj_phase j with AtStart => true | _ => false end | None => false end
  | AStart KImport => match ijob st with Some j => match ij_phase j with AtStart => true | _ => false end | None => false end
  | AStart KMerge => match mjob st with Some j => match mj_phase j with AtStart => true | _ => false end | None => false end
  | AStart KTag => match tjob st with Some j => match tj_phase j with AtStart => true | _ => false end | None => false end
  | AComplete KImport => match ijob st with Some j => match ij_phase j with AtDone => true | _ => false end | None => false end
  | AComplete KMerge => match mjob st with Some j => match mj_phase j with AtDone => true | _ => false end | None => false end
  | AComplete KTag => match tjob st with Some j => match tj_phase j with AtDone => true | _ => false end | None => false end
  | AStart KConvert => match cjob st with Some j => match cj_phase j with AtStart => true | _ => false end | None => false end
  | AComplete KConvert => match cjob st with Some j => match cj_phase j with AtDone => true | _ => false end | None => false end
  end.

End WithCaptures.

(* files in the directory that are not served (at quiescence: the unreadable ones) *)
Definition disk_junk (st : state) : list N :=
  filter (fun u => negb (existsb (N.eqb u) (map f_uid (indexes st)))) (disk st).

(* the instance that is extracted and run against the Go code *)
Definition step_impl (capdb : N -> capture) (bad : N -> bool) : state -> action -> state := step capdb bad false merge_ents.
Definition step_legacy (capdb : N -> capture) (bad : N -> bool) : state -> action -> state := step capdb bad true merge_ents.
Definition restart_impl (capdb : N -> capture) (st : state) (junk : list N) : state :=
  init_from capdb (indexes st) (disk_junk st ++ junk) (processed st).
