(* TagsC06.v -- C06: decided tag membership equals the truth of the tag's current definition on
   the current data, for the repaired instance of theories/Tags.v (= the Go code after 840ee41 and
   edb657b).  The environment (query evaluation) is the Section variable `truth` with hypotheses. *)
From Coq Require Import List NArith Bool Lia.
From Pk Require Import Tags TagsC16.
Import ListNotations.
Open Scope N_scope.

Definition hnext (h : list iresp) : N := match h with [] => 0 | r :: _ => ir_next r end.

Lemma mem_ones i n : i < n -> mem i (ones n) = true.
Proof. intros. unfold mem, ones. apply N.ones_spec_low. assumption. Qed.

Lemma is0_true s : is0 s = true -> s = 0.
Proof. unfold is0. apply N.eqb_eq. Qed.
Lemma is0_false s : is0 s = false -> s <> 0.
Proof. unfold is0. apply N.eqb_neq. Qed.

Lemma fold_union_mem (f : N -> N) l : forall acc id,
  mem id (fold_left (fun u r => union u (f r)) l acc) = mem id acc || existsb (fun r => mem id (f r)) l.
Proof.
  induction l; simpl; intros; [rewrite orb_false_r; reflexivity|].
  rewrite IHl, mem_union, orb_assoc. reflexivity.
Qed.

Section C06.
(* truth h d rho id : value of definition d on stream id after the imports h (newest first), with the
   referenced tags valued by rho *)
Variable truth : list iresp -> defn -> (N -> N -> bool) -> N -> bool.

(* a definition reads a main-tag reference at the stream itself and a sub-query reference at the
   existing streams *)
Hypothesis H_ext : forall h d rho rho' id,
  (forall x, In x (d_main d) -> rho x id = rho' x id) ->
  (forall x, In x (d_subt d) -> forall j, j < hnext h -> rho x j = rho' x j) ->
  truth h d rho id = truth h d rho' id.

(* what an import can change: nothing for an id-only definition on an existing stream; for a
   definition without sub-query nothing on streams that were neither added nor reset, nor (data /
   time filters) updated *)
Hypothesis H_local : forall r h d rho id,
  d_sub d = false -> mem id (ir_add r) = false ->
  (d_idonly d = true \/ (mem id (ir_rst r) = false /\ (d_datatime d = false \/ mem id (ir_upd r) = false))) ->
  truth (r :: h) d rho id = truth h d rho id.

Definition def_ok (d : defn) : Prop := (d_subt d <> [] -> d_sub d = true).

(* ---------------------------------------------------------------- truth of every tag *)
Fixpoint tv (h : list iresp) (ts : tags_t) (n id : N) : bool :=
  match ts with
  | [] => false
  | (k, t) :: r => if k =? n then t_live t && truth h (t_def t) (tv h r) id else tv h r n id
  end.

(* the invariant: decided => matches = truth *)
Fixpoint inv (h : list iresp) (nx : N) (ts : tags_t) : Prop :=
  match ts with
  | [] => True
  | (k, t) :: r =>
    (t_live t = true -> forall id, id < nx -> mem id (t_u t) = false ->
       mem id (t_m t) = truth h (t_def t) (tv h r) id) /\ inv h nx r
  end.

(* uncertainty is closed under references (what inheritTagUncertainty establishes) *)
Fixpoint closed (nx : N) (ts : tags_t) : Prop :=
  match ts with
  | [] => True
  | (k, t) :: r =>
    (forall x, In x (d_main (t_def t)) -> forall id, id < nx -> mem id (tu x r) = true -> mem id (t_u t) = true) /\
    (forall x, In x (d_subt (t_def t)) -> tu x r <> 0 -> forall id, id < nx -> mem id (t_u t) = true) /\
    closed nx r
  end.

Lemma inherit_one_u allS lower t :
  t_u (inherit_one allS lower t) =
  if existsb (fun r => negb (is0 (tu r lower))) (d_subt (t_def t)) then allS
  else fold_left (fun u r => union u (tu r lower)) (d_main (t_def t)) (t_u t).
Proof.
  unfold inherit_one. destruct (d_main (t_def t)); destruct (d_subt (t_def t)); try reflexivity;
    match goal with |- context[if ?b then _ else _] => destruct b end; reflexivity.
Qed.

Lemma inherit_one_rest allS lower t :
  t_def (inherit_one allS lower t) = t_def t /\ t_m (inherit_one allS lower t) = t_m t /\
  t_live (inherit_one allS lower t) = t_live t /\ t_conv (inherit_one allS lower t) = t_conv t.
Proof.
  unfold inherit_one. destruct (d_main (t_def t)); destruct (d_subt (t_def t)); try (repeat split; reflexivity);
    match goal with |- context[if ?b then _ else _] => destruct b end; simpl; repeat split.
Qed.

Lemma closed_inherit nx ts : closed nx (inherit (ones nx) ts).
Proof.
  induction ts as [|[k t] r IH]; simpl; [exact I|]. split; [|split; [|exact IH]].
  - destruct (inherit_one_rest (ones nx) (inherit (ones nx) r) t) as (ED & _).
    rewrite ED. intros x Hx id Hid Hm. rewrite inherit_one_u.
    destruct (existsb _ (d_subt (t_def t))); [apply mem_ones; assumption|].
    rewrite fold_union_mem. apply orb_true_iff. right. apply existsb_exists. exists x. split; assumption.
  - destruct (inherit_one_rest (ones nx) (inherit (ones nx) r) t) as (ED & _).
    rewrite ED. intros x Hx Hne id Hid. rewrite inherit_one_u.
    assert (existsb (fun r0 => negb (is0 (tu r0 (inherit (ones nx) r)))) (d_subt (t_def t)) = true) as HE.
    { apply existsb_exists. exists x. split; [exact Hx|]. destruct (is0 _) eqn:E; [apply is0_true in E; congruence|reflexivity]. }
    rewrite HE. apply mem_ones; assumption.
Qed.

(* ---------------------------------------------------------------- one update of all tags *)
(* old tag t under history h, new tag t' under history h': same liveness, and on the streams that
   stay decided the (possibly new) definition has the local meaning of the old one *)
Definition pcond (h h' : list iresp) (nx' : N) (t t' : tag) : Prop :=
  t_live t' = t_live t /\
  (t_live t = true -> forall id, id < nx' -> mem id (t_u t') = false ->
     forall rho, truth h' (t_def t') rho id = truth h (t_def t) rho id).

Inductive urel (h h' : list iresp) (nx nx' : N) : tags_t -> tags_t -> Prop :=
| ur_nil : urel h h' nx nx' [] []
| ur_cons k t t' r r' :
    urel h h' nx nx' r r' ->
    pcond h h' nx' t t' ->
    (t_live t' = true ->
      (forall id, id < nx' -> mem id (t_u t') = false ->
         id < nx /\ mem id (t_u t) = false /\ mem id (t_m t') = mem id (t_m t))
      \/ (forall id, id < nx' -> mem id (t_u t') = false ->
         mem id (t_m t') = truth h' (t_def t') (tv h' r') id)) ->
    urel h h' nx nx' ((k, t) :: r) ((k, t') :: r').

Lemma tu_cons k t r x : tu x ((k, t) :: r) = if k =? x then (if t_live t then t_u t else 0) else tu x r.
Proof. unfold tu. simpl. destruct (k =? x); [destruct (t_live t); reflexivity|reflexivity]. Qed.

(* the core step: under pcond and closedness, the local evaluation agrees *)
Lemma step_eq h h' nx' t t' r r' id :
  hnext h' <= nx' -> t_live t = true ->
  pcond h h' nx' t t' ->
  (forall x, In x (d_main (t_def t')) -> forall i, i < nx' -> mem i (tu x r') = true -> mem i (t_u t') = true) ->
  (forall x, In x (d_subt (t_def t')) -> tu x r' <> 0 -> forall i, i < nx' -> mem i (t_u t') = true) ->
  (forall x i, i < nx' -> mem i (tu x r') = false -> tv h' r' x i = tv h r x i) ->
  id < nx' -> mem id (t_u t') = false ->
  truth h' (t_def t') (tv h' r') id = truth h (t_def t) (tv h r) id.
Proof.
  intros Hn HL (PL & PT) C1 C2 IH Hid Hu.
  rewrite <- (PT HL id Hid Hu). apply H_ext.
  - intros x Hx. apply IH; [exact Hid|].
    destruct (mem id (tu x r')) eqn:E; [|reflexivity]. rewrite (C1 x Hx id Hid E) in Hu. discriminate.
  - intros x Hx j Hj. apply IH; [lia|].
    destruct (N.eq_dec (tu x r') 0) as [E|E]; [rewrite E; apply mem_0|].
    rewrite (C2 x Hx E id Hid) in Hu. discriminate.
Qed.

Lemma stable h h' nx nx' ts ts' :
  urel h h' nx nx' ts ts' -> closed nx' ts' -> hnext h' <= nx' ->
  forall x id, id < nx' -> mem id (tu x ts') = false -> tv h' ts' x id = tv h ts x id.
Proof.
  induction 1 as [|k t t' r r' HR IH PC HM]; intros HC Hn x id Hid Hu; [reflexivity|].
  destruct HC as (C1 & C2 & C3). specialize (IH C3 Hn).
  rewrite tu_cons in Hu. simpl. destruct (k =? x).
  - pose proof PC as (PL & _). rewrite PL. destruct (t_live t) eqn:EL; [|reflexivity]. simpl.
    rewrite PL in Hu. eapply step_eq; eauto.
  - apply IH; assumption.
Qed.

Lemma inv_urel h h' nx nx' ts ts' :
  urel h h' nx nx' ts ts' -> closed nx' ts' -> hnext h' <= nx' -> inv h nx ts -> inv h' nx' ts'.
Proof.
  induction 1 as [|k t t' r r' HR IH PC HM]; intros HC Hn HI; [exact I|].
  destruct HC as (C1 & C2 & C3). destruct HI as (I1 & I2). simpl. split; [|apply IH; assumption].
  intros HL id Hid Hu. destruct (HM HL) as [K|F]; [|apply F; assumption].
  destruct (K id Hid Hu) as (K1 & K2 & K3). rewrite K3.
  pose proof PC as (PL & _). rewrite HL in PL. rewrite (I1 (eq_sym PL) id K1 K2). symmetry.
  eapply step_eq; eauto. apply stable with (nx := nx); assumption.
Qed.

(* ---------------------------------------------------------------- updates that only grow Uncertain *)
Definition same1 (a b : N * tag) : Prop :=
  fst a = fst b /\ t_def (snd a) = t_def (snd b) /\ t_live (snd a) = t_live (snd b).

Definition grow1 (nx : N) (a b : N * tag) : Prop :=
  same1 a b /\ t_m (snd a) = t_m (snd b) /\
  (forall id, id < nx -> mem id (t_u (snd a)) = true -> mem id (t_u (snd b)) = true).

Lemma tv_same h a b : Forall2 same1 a b -> forall x id, tv h a x id = tv h b x id.
Proof.
  induction 1 as [|[k t] [k' t'] ra rb (E1 & E2 & E3) HR IH]; intros x id; [reflexivity|].
  simpl in *. subst k'. rewrite E2, E3. destruct (k =? x); [|apply IH].
  destruct (t_live t'); [|reflexivity]. simpl. apply H_ext; intros; apply IH.
Qed.

Lemma grow_same nx a b : Forall2 (grow1 nx) a b -> Forall2 same1 a b.
Proof. induction 1; constructor; [apply H|assumption]. Qed.

Lemma inv_grow h nx a b : Forall2 (grow1 nx) a b -> inv h nx a -> inv h nx b.
Proof.
  induction 1 as [|[k t] [k' t'] ra rb ((E1 & E2 & E3) & E4 & E5) HR IH]; intros HI; [exact I|].
  simpl in *. destruct HI as (I1 & I2). split; [|apply IH; exact I2].
  intros HL id Hid Hu. rewrite <- E4, <- E2. rewrite <- E3 in HL.
  rewrite (I1 HL id Hid).
  - apply H_ext; intros; apply tv_same; apply grow_same with nx; exact HR.
  - destruct (mem id (t_u t)) eqn:E; [|reflexivity]. rewrite (E5 id Hid E) in Hu. discriminate.
Qed.

Lemma grow_refl nx ts : Forall2 (grow1 nx) ts ts.
Proof. induction ts; constructor; [repeat split; auto|assumption]. Qed.

Lemma grow_trans nx a b c : Forall2 (grow1 nx) a b -> Forall2 (grow1 nx) b c -> Forall2 (grow1 nx) a c.
Proof.
  intros H. revert c. induction H as [|x y ra rb Hxy HR IH]; intros c Hc; inversion Hc; subst; constructor.
  - destruct Hxy as ((A1 & A2 & A3) & A4 & A5). destruct H1 as ((B1 & B2 & B3) & B4 & B5).
    repeat split; try congruence. intros; apply B5; [assumption|apply A5; assumption].
  - apply IH; assumption.
Qed.

Lemma grow_map nx (g : tag -> tag) ts :
  (forall t, t_def (g t) = t_def t /\ t_live (g t) = t_live t /\ t_m (g t) = t_m t /\
             forall id, id < nx -> mem id (t_u t) = true -> mem id (t_u (g t)) = true) ->
  Forall2 (grow1 nx) ts (map (fun nt => (fst nt, g (snd nt))) ts).
Proof.
  intros Hg. induction ts as [|[k t] r IH]; simpl; constructor; [|exact IH].
  destruct (Hg t) as (G1 & G2 & G3 & G4). repeat split; simpl; auto.
Qed.

Lemma grow_inherit nx ts : Forall2 (grow1 nx) ts (inherit (ones nx) ts).
Proof.
  induction ts as [|[k t] r IH]; simpl; constructor; [|exact IH].
  destruct (inherit_one_rest (ones nx) (inherit (ones nx) r) t) as (E1 & E2 & E3 & _).
  repeat split; simpl; auto. intros id Hid Hm. rewrite inherit_one_u.
  destruct (existsb _ _); [apply mem_ones; exact Hid|]. rewrite fold_union_mem, Hm. reflexivity.
Qed.

Lemma invalidate_one_rest k allS u r a t :
  t_def (invalidate_one k allS u r a t) = t_def t /\ t_live (invalidate_one k allS u r a t) = t_live t /\
  t_m (invalidate_one k allS u r a t) = t_m t.
Proof.
  unfold invalidate_one. destruct (negb (t_live t)); [repeat split|].
  destruct (d_sub (t_def t)); [repeat split|]. destruct (d_idonly (t_def t)); [destruct (kf_idonly k); repeat split|repeat split].
Qed.

Lemma grow_invalidate k nx u r a ts :
  Forall2 (grow1 nx) ts (map (fun nt => (fst nt, invalidate_one k (ones nx) u r a (snd nt))) ts).
Proof.
  apply grow_map. intros t. destruct (invalidate_one_rest k (ones nx) u r a t) as (E1 & E2 & E3).
  repeat split; auto. intros id Hid Hm. unfold invalidate_one.
  destruct (negb (t_live t)); [exact Hm|]. destruct (d_sub (t_def t)); [simpl; apply mem_ones; exact Hid|].
  destruct (d_idonly (t_def t)); [destruct (kf_idonly k); simpl; [exact Hm|rewrite mem_union, Hm; reflexivity]|].
  simpl. destruct (d_datatime (t_def t)); rewrite ?mem_union, Hm; reflexivity.
Qed.

Lemma grow_data_tags nx s ts : Forall2 (grow1 nx) ts (data_tags_uncertain s ts).
Proof.
  unfold data_tags_uncertain.
  apply (grow_map nx (fun t => if d_data (t_def t) then mkTag0 (t_def t) (t_m t) (union (t_u t) s) (t_conv t) (t_live t) else t)).
  intros t. destruct (d_data (t_def t)); simpl; repeat split; auto.
  intros id _ Hm. rewrite mem_union, Hm. reflexivity.
Qed.

Lemma inherit_one_ge nx lower t id :
  id < nx -> mem id (t_u t) = true -> mem id (t_u (inherit_one (ones nx) lower t)) = true.
Proof.
  intros Hid Hm. rewrite inherit_one_u.
  destruct (existsb _ _); [apply mem_ones; exact Hid|]. rewrite fold_union_mem, Hm. reflexivity.
Qed.

(* ---------------------------------------------------------------- import completion *)
Lemma urel_import k h r nx ts :
  kf_idonly k = false -> nx <= ir_next r ->
  (forall i, nx <= i -> i < ir_next r -> mem i (ir_add r) = true) ->
  urel h (r :: h) nx (ir_next r) ts
       (inherit (ones (ir_next r)) (map (fun nt => (fst nt, invalidate_one k (ones (ir_next r)) (ir_upd r) (ir_rst r) (ir_add r) (snd nt))) ts)).
Proof.
  intros K Hle Hadd. set (nx' := ir_next r).
  induction ts as [|[kk t] rr IH]; simpl; [constructor|].
  set (t2 := invalidate_one k (ones nx') (ir_upd r) (ir_rst r) (ir_add r) t).
  set (lower := inherit (ones nx') (map _ rr)).
  destruct (inherit_one_rest (ones nx') lower t2) as (E1 & E2 & E3 & _).
  destruct (invalidate_one_rest k (ones nx') (ir_upd r) (ir_rst r) (ir_add r) t) as (F1 & F2 & F3).
  fold t2 in F1, F2, F3.
  assert (forall id, id < nx' -> mem id (t_u (inherit_one (ones nx') lower t2)) = false -> mem id (t_u t2) = false) as HU.
  { intros id Hid Hu. destruct (mem id (t_u t2)) eqn:E; [|reflexivity].
    rewrite (inherit_one_ge nx' lower t2 id Hid E) in Hu. discriminate. }
  constructor; [exact IH| |].
  - split; [congruence|]. intros HL id Hid Hu rho. rewrite E1, F1.
    apply HU in Hu; [|exact Hid]. unfold t2, invalidate_one in Hu. rewrite HL in Hu. simpl in Hu.
    destruct (d_sub (t_def t)) eqn:ES.
    { simpl in Hu. rewrite mem_ones in Hu; [discriminate|exact Hid]. }
    destruct (d_idonly (t_def t)) eqn:EI.
    + rewrite K in Hu. simpl in Hu. rewrite mem_union in Hu. apply orb_false_iff in Hu. destruct Hu as [_ Hu].
      apply H_local; [exact ES|exact Hu|left; exact EI].
    + simpl in Hu. destruct (d_datatime (t_def t)) eqn:ED; rewrite ?mem_union in Hu;
        repeat (apply orb_false_iff in Hu; destruct Hu as [Hu ?]); apply H_local; auto.
  - intros HL. left. intros id Hid Hu. apply HU in Hu; [|exact Hid].
    rewrite E2, F3. rewrite E3, F2 in HL.
    assert (mem id (t_u t) = false /\ mem id (ir_add r) = false) as [A B].
    { unfold t2, invalidate_one in Hu. rewrite HL in Hu. simpl in Hu.
      destruct (d_sub (t_def t)); [simpl in Hu; rewrite mem_ones in Hu; [discriminate|exact Hid]|].
      destruct (d_idonly (t_def t)).
      - rewrite K in Hu. simpl in Hu. rewrite mem_union in Hu. apply orb_false_iff in Hu. exact Hu.
      - simpl in Hu. destruct (d_datatime (t_def t)); rewrite ?mem_union in Hu;
          repeat (apply orb_false_iff in Hu; destruct Hu as [Hu ?]); split; assumption. }
    split; [|split; [exact A|reflexivity]].
    destruct (N.lt_ge_cases id nx) as [L|G]; [exact L|]. rewrite (Hadd id G Hid) in B. discriminate.
Qed.

(* ---------------------------------------------------------------- position-wise construction of urel *)
Definition qrel (h h' : list iresp) (nx nx' : N) (a b : N * tag) : Prop :=
  fst a = fst b /\ pcond h h' nx' (snd a) (snd b) /\
  (t_live (snd b) = true ->
     (forall id, id < nx' -> mem id (t_u (snd b)) = false ->
        id < nx /\ mem id (t_u (snd a)) = false /\ mem id (t_m (snd b)) = mem id (t_m (snd a)))
     \/ (forall id, id < nx' -> mem id (t_u (snd b)) = false ->
        forall rho, mem id (t_m (snd b)) = truth h' (t_def (snd b)) rho id)).

Lemma urel_intro h h' nx nx' ts ts' : Forall2 (qrel h h' nx nx') ts ts' -> urel h h' nx nx' ts ts'.
Proof.
  induction 1 as [|[k t] [k' t'] r r' (E & P & M) HR IH]; [constructor|].
  simpl in *. subst k'. constructor; [exact IH|exact P|].
  intros HL. destruct (M HL) as [K|F]; [left; exact K|right; intros; apply F; assumption].
Qed.

(* qrel followed by a growth of Uncertain is a qrel *)
Lemma qrel_grow h h' nx nx' a b c :
  qrel h h' nx nx' a b -> grow1 nx' b c -> qrel h h' nx nx' a c.
Proof.
  destruct a as [ka ta], b as [kb tb], c as [kc tc].
  intros (E & (PL & PT) & M) ((G1 & G2 & G3) & G4 & G5). simpl in *.
  assert (forall id, id < nx' -> mem id (t_u tc) = false -> mem id (t_u tb) = false) as HU.
  { intros id Hid Hu. destruct (mem id (t_u tb)) eqn:E1; [|reflexivity]. rewrite (G5 id Hid E1) in Hu. discriminate. }
  unfold qrel, pcond; simpl. split; [congruence|split; [split; [congruence|]|]].
  - intros HL id Hid Hu rho. rewrite <- G2. apply PT; auto.
  - intros HL. rewrite <- G3 in HL. destruct (M HL) as [K|F].
    + left. intros id Hid Hu. rewrite <- G4. apply K; auto.
    + right. intros id Hid Hu rho. rewrite <- G4, <- G2. apply F; auto.
Qed.

Lemma Forall2_qrel_grow h h' nx nx' a b c :
  Forall2 (qrel h h' nx nx') a b -> Forall2 (grow1 nx') b c -> Forall2 (qrel h h' nx nx') a c.
Proof.
  intros H. revert c. induction H; intros c Hc; inversion Hc; subst; constructor.
  - eapply qrel_grow; eassumption.
  - apply IHForall2; assumption.
Qed.

(* replacing the slots named n *)
Lemma Forall2_tset (R : N * tag -> N * tag -> Prop) n t' ts :
  (forall a, R a a) -> (forall k t, In (k, t) ts -> k = n -> R (k, t) (k, t')) ->
  Forall2 R ts (tset n t' ts).
Proof.
  intros Hr. unfold tset. induction ts as [|[k t] r IH]; intros Hn; simpl; constructor.
  - destruct (N.eqb_spec k n); [apply Hn; [left; reflexivity|assumption]|apply Hr].
  - apply IH. intros; apply Hn; [right; assumption|assumption].
Qed.

Lemma qrel_refl h nx a : qrel h h nx nx a a.
Proof.
  split; [reflexivity|split; [split; [reflexivity|intros; reflexivity]|]].
  intros _. left. intros; repeat split; assumption.
Qed.

(* ---------------------------------------------------------------- sorted slots, lookups *)
Fixpoint sorted (ts : tags_t) : Prop :=
  match ts with
  | [] => True
  | (k, _) :: r => (forall k' t', In (k', t') r -> k' < k) /\ sorted r
  end.

Lemma tget_In ts n t : tget n ts = Some t -> In (n, t) ts /\ t_live t = true.
Proof.
  induction ts as [|[k x] r IH]; simpl; [discriminate|].
  destruct (N.eqb_spec k n).
  - destruct (t_live x) eqn:E; [|discriminate]. intros H; inversion H; subst. split; [left; reflexivity|exact E].
  - intros H. destruct (IH H). split; [right|]; assumption.
Qed.

Lemma sorted_unique ts n t t' : sorted ts -> In (n, t) ts -> In (n, t') ts -> t = t'.
Proof.
  induction ts as [|[k x] r IH]; simpl; [intros _ []|]. intros (S1 & S2) [E|I] [E'|I'].
  - congruence.
  - inversion E; subst. apply S1 in I'. lia.
  - inversion E'; subst. apply S1 in I. lia.
  - apply IH; assumption.
Qed.

Lemma Forall2_tget (R : N * tag -> N * tag -> Prop) a b n t :
  Forall2 R a b -> (forall x y, R x y -> fst x = fst y /\ t_live (snd x) = t_live (snd y)) ->
  tget n a = Some t -> exists t', tget n b = Some t' /\ R (n, t) (n, t').
Proof.
  intros H HR. induction H as [|[k x] [k' y] ra rb Hxy Hr IH]; simpl; [discriminate|].
  destruct (HR _ _ Hxy) as (E1 & E2). simpl in *. subst k'. destruct (N.eqb_spec k n).
  - subst. rewrite <- E2. destruct (t_live x); [|discriminate]. intros E; inversion E; subst. exists y. split; [reflexivity|exact Hxy].
  - exact IH.
Qed.

Lemma tget_cons_ne k t r x : k <> x -> tget x ((k, t) :: r) = tget x r.
Proof. intros H. simpl. destruct (N.eqb_spec k x); [congruence|reflexivity]. Qed.

Lemma tget_app_skip pre x l : (forall k t, In (k, t) pre -> k <> x) -> tget x (pre ++ l) = tget x l.
Proof.
  induction pre as [|[k t] p IH]; simpl; intros H; [reflexivity|].
  destruct (N.eqb_spec k x) as [E|E]; [exfalso; apply (H k t); [left; reflexivity|exact E]|].
  apply IH. intros; eapply H; right; eassumption.
Qed.

Lemma sorted_app_l pre l : sorted (pre ++ l) -> forall k t k' t', In (k, t) pre -> In (k', t') l -> k' < k.
Proof.
  induction pre as [|[a x] p IH]; simpl; [intros _ ? ? ? ? []|].
  intros (S1 & S2) k t k' t' [E|I] I'.
  - inversion E; subst. apply (S1 k' t'). apply in_or_app. right. exact I'.
  - eapply IH; eassumption.
Qed.

Lemma sorted_app_r pre l : sorted (pre ++ l) -> sorted l.
Proof. induction pre as [|[a x] p IH]; simpl; [auto|]. intros (_ & S). auto. Qed.

(* a tag referenced from slot n is looked up in the tail below n *)
Lemma tget_tail pre n t r x : sorted (pre ++ (n, t) :: r) -> x < n -> tget x (pre ++ (n, t) :: r) = tget x r.
Proof.
  intros S Hx. rewrite tget_app_skip.
  - apply tget_cons_ne. lia.
  - intros k t0 I E. subst. pose proof (sorted_app_l _ _ S x t0 n t I (or_introl eq_refl)). lia.
Qed.

Lemma inv_lookup h nx ts x tx : inv h nx ts -> tget x ts = Some tx ->
  forall id, id < nx -> mem id (t_u tx) = false -> mem id (t_m tx) = tv h ts x id.
Proof.
  induction ts as [|[k t] r IH]; simpl; [discriminate|]. intros (I1 & I2). destruct (k =? x).
  - destruct (t_live t) eqn:EL; [|discriminate]. intros E; inversion E; subst. simpl. intros. apply I1; auto.
  - intros. apply IH; assumption.
Qed.

Lemma inv_app_r h nx pre l : inv h nx (pre ++ l) -> inv h nx l.
Proof. induction pre as [|[k t] p IH]; simpl; [auto|]. intros (_ & I). auto. Qed.

Lemma mem_sxor i a b : mem i (sxor a b) = xorb (mem i a) (mem i b).
Proof. unfold mem, sxor. apply N.lxor_spec. Qed.

(* imports that leave a stream alone do not change the local meaning of a definition *)
Definition untouched (d : defn) (id : N) (r : iresp) : Prop :=
  mem id (ir_add r) = false /\
  (d_idonly d = true \/ (mem id (ir_rst r) = false /\ (d_datatime d = false \/ mem id (ir_upd r) = false))).

Lemma local_iter rs h0 d rho id :
  d_sub d = false -> (forall r, In r rs -> untouched d id r) -> truth (rs ++ h0) d rho id = truth h0 d rho id.
Proof.
  intros Hs. induction rs as [|r rs IH]; simpl; intros H; [reflexivity|].
  destruct (H r (or_introl eq_refl)) as (A & B). rewrite H_local; auto.
Qed.

Lemma Forall2_trans_same a b c : Forall2 same1 a b -> Forall2 same1 b c -> Forall2 same1 a c.
Proof.
  intros H. revert c. induction H as [|x y ra rb Hxy HR IH]; intros c Hc; inversion Hc; subst; constructor.
  - destruct Hxy as (A1 & A2 & A3). destruct H1 as (B1 & B2 & B3). repeat split; congruence.
  - apply IH; assumption.
Qed.

Lemma tset_cons n tp k t l : tset n tp ((k, t) :: l) = (if k =? n then (k, tp) else (k, t)) :: tset n tp l.
Proof. reflexivity. Qed.
Lemma inherit_cons allS k t l : inherit allS ((k, t) :: l) = (k, inherit_one allS (inherit allS l) t) :: inherit allS l.
Proof. reflexivity. Qed.

(* ---------------------------------------------------------------- a tagging job publishes its result *)
Lemma inv_publish h nx (g : tag -> tag) n tp pre ot r :
  (forall t, t_def (g t) = t_def t /\ t_live (g t) = t_live t /\ t_m (g t) = t_m t /\
             forall id, id < nx -> mem id (t_u t) = true -> mem id (t_u (g t)) = true) ->
  sorted (pre ++ (n, ot) :: r) -> t_def tp = t_def ot -> t_live tp = true -> t_live ot = true ->
  inv h nx (pre ++ (n, ot) :: r) ->
  (forall id, id < nx ->
     mem id (t_u (inherit_one (ones nx) (inherit (ones nx) (map (fun nt => (fst nt, g (snd nt))) r)) (g tp))) = false ->
     mem id (t_m tp) = truth h (t_def tp) (tv h r) id) ->
  inv h nx (inherit (ones nx) (map (fun nt => (fst nt, g (snd nt))) (tset n tp (pre ++ (n, ot) :: r)))).
Proof.
  intros Hg S Ed Lp Lo HI OBL. set (g' := fun nt : N * tag => (fst nt, g (snd nt))).
  assert (forall l, Forall2 (grow1 nx) l (inherit (ones nx) (map g' l))) as GR.
  { intros l. eapply grow_trans; [apply grow_map; exact Hg|apply grow_inherit]. }
  assert (tset n tp r = r) as TR.
  { unfold tset. rewrite <- (map_id r) at 2. apply map_ext_in. intros [k t] I. simpl.
    destruct (N.eqb_spec k n); [|reflexivity]. subst.
    pose proof (sorted_app_r _ _ S) as (S1 & _). apply S1 in I. lia. }
  induction pre as [|[k t] p IH].
  - rewrite app_nil_l in *. rewrite tset_cons, N.eqb_refl, TR. cbn [map fst snd]. change (g' (n, tp)) with (n, g tp). rewrite inherit_cons.
    simpl in HI. destruct HI as (I1 & I2).
    destruct (inherit_one_rest (ones nx) (inherit (ones nx) (map g' r)) (g tp)) as (E1 & E2 & E3 & _).
    destruct (Hg tp) as (G1 & G2 & G3 & _). split.
    + intros _ id Hid Hu. rewrite E1, E2, G1, G3. rewrite (OBL id Hid Hu).
      apply H_ext; intros; apply tv_same; apply grow_same with nx; apply GR.
    + apply inv_grow with r; [apply GR|exact I2].
  - rewrite <- app_comm_cons in *. simpl in S, HI. destruct S as (S1 & S2). destruct HI as (I1 & I2).
    assert (k <> n) as NE.
    { intros ->. specialize (S1 n ot). assert (n < n); [apply S1; apply in_or_app; right; left; reflexivity|lia]. }
    rewrite tset_cons. destruct (N.eqb_spec k n); [congruence|]. cbn [map fst snd]. change (g' (k, t)) with (k, g t). rewrite inherit_cons.
    set (low := inherit (ones nx) (map g' (tset n tp (p ++ (n, ot) :: r)))).
    destruct (inherit_one_rest (ones nx) low (g t)) as (E1 & E2 & E3 & _).
    destruct (Hg t) as (G1 & G2 & G3 & G4). split; [|apply IH; assumption].
    assert (Forall2 same1 (p ++ (n, ot) :: r) low) as SM.
    { eapply Forall2_trans_same; [|apply grow_same with nx; apply GR].
      apply Forall2_tset; [intros; repeat split|]. intros k0 t0 I E. subst. simpl.
      assert (t0 = ot) as ->.
      { eapply sorted_unique; [exact S2|exact I|apply in_or_app; right; left; reflexivity]. }
      unfold same1; simpl; repeat split; congruence. }
    intros HL id Hid Hu. rewrite E1, E2, G1, G3. rewrite E3, G2 in HL.
    rewrite (I1 HL id Hid).
    + apply H_ext; intros; apply tv_same; exact SM.
    + destruct (mem id (t_u t)) eqn:EU; [|reflexivity].
      rewrite (inherit_one_ge nx low (g t) id Hid (G4 id Hid EU)) in Hu. discriminate.
Qed.

(* ---------------------------------------------------------------- the obligation of a publishing tagging job *)
Definition effects_in (rs : list iresp) (u r a : N) : Prop :=
  forall x, In x rs -> forall i,
    (mem i (ir_upd x) = true -> mem i u = true) /\ (mem i (ir_rst x) = true -> mem i r = true) /\
    (mem i (ir_add x) = true -> mem i a = true).

Definition rho_snap (snap : list (N * N)) : N -> N -> bool := fun x i => mem i (lookupN x snap).

Definition u1_of (ts : tags_t) (snap : list (N * N)) (d : defn) (allS : N) : N :=
  if existsb (fun r => negb (is0 (sxor (tm r ts) (lookupN r snap)))) (d_subt d) then allS
  else fold_left (fun a r => union a (sxor (tm r ts) (lookupN r snap))) (d_main d) 0.

Lemma existsb_false_all {A} (f : A -> bool) l : existsb f l = false -> forall x, In x l -> f x = false.
Proof.
  induction l; simpl; intros H x []; apply orb_false_iff in H; destruct H; [subst; assumption|auto].
Qed.

Lemma fold_union0_mem (f : N -> N) l id : mem id (fold_left (fun a r => union a (f r)) l 0) = false ->
  forall x, In x l -> mem id (f x) = false.
Proof.
  rewrite fold_union_mem, mem_0. simpl. intros H x I.
  exact (existsb_false_all (fun r => mem id (f r)) l H x I).
Qed.

Lemma publish_obl (k : kf) h0 rs nx n ot pre r d M0 U0 snap res cv mupd mrst madd :
  let h := rs ++ h0 in
  let ts := pre ++ (n, ot) :: r in
  let allS := ones nx in
  let dirty := negb (is0 mupd && is0 mrst && is0 madd) in
  let g := fun t => if dirty then invalidate_one k allS mupd mrst madd t else t in
  let tp := mkTag d res (u1_of ts snap d allS) cv in
  kf_idonly k = false ->
  sorted ts -> inv h nx ts -> hnext h = nx -> def_ok d ->
  (forall x, In x (d_refs d) -> x < n /\ exists tx, tget x ts = Some tx) ->
  (forall id, mem id res = if mem id U0 then truth h0 d (rho_snap snap) id else mem id M0) ->
  (forall id, id < hnext h0 -> mem id U0 = false -> mem id M0 = truth h0 d (rho_snap snap) id) ->
  (forall id, hnext h0 <= id -> id < nx -> mem id madd = true) ->
  (rs <> [] -> dirty = true) ->
  effects_in rs mupd mrst madd ->
  forall id, id < nx ->
    mem id (t_u (inherit_one allS (inherit allS (map (fun nt => (fst nt, g (snd nt))) r)) (g tp))) = false ->
    mem id res = truth h (d) (tv h r) id.
Proof.
  intros h ts allS dirty g tp K S HI Hn Dok Refs J1 J2 J3 J4 EFF id Hid Hu.
  set (g' := fun nt : N * tag => (fst nt, g (snd nt))) in *.
  set (low := inherit allS (map g' r)) in *.
  assert (forall t, t_def (g t) = t_def t /\ t_live (g t) = t_live t /\ t_m (g t) = t_m t /\
             forall i, i < nx -> mem i (t_u t) = true -> mem i (t_u (g t)) = true) as Hg.
  { intros t. unfold g. destruct dirty; [|repeat split; auto].
    destruct (invalidate_one_rest k allS mupd mrst madd t) as (A & B & C). repeat split; auto.
    intros i Hi Hm. pose proof (grow_invalidate k nx mupd mrst madd [(0, t)]) as G.
    inversion G; subst. destruct H2 as (_ & _ & G5). simpl in G5. apply G5; assumption. }
  assert (Forall2 (grow1 nx) r low) as GR.
  { eapply grow_trans; [apply grow_map; exact Hg|apply grow_inherit]. }
  destruct (Hg tp) as (G1 & G2 & G3 & G4). simpl in G1.
  rewrite inherit_one_u, G1 in Hu. simpl in Hu.
  destruct (existsb (fun r0 => negb (is0 (tu r0 low))) (d_subt d)) eqn:ES;
    [unfold allS in Hu; rewrite mem_ones in Hu; [discriminate|exact Hid]|].
  rewrite fold_union_mem in Hu. apply orb_false_iff in Hu. destruct Hu as [Hu1 Hu2].
  (* referenced tags: live below n, uncertain only where the inherited uncertainty is *)
  assert (forall x, In x (d_refs d) -> exists tx, tget x r = Some tx /\ tm x ts = t_m tx /\
            (forall i, i < nx -> mem i (tu x low) = false -> mem i (t_u tx) = false)) as RX.
  { intros x Hx. destruct (Refs x Hx) as (Lx & tx & Tx).
    assert (tget x r = Some tx) as Tr by (rewrite <- Tx; symmetry; apply tget_tail; assumption).
    exists tx. split; [exact Tr|split; [unfold tm; rewrite Tx; reflexivity|]].
    intros i Hi Hm. destruct (Forall2_tget (grow1 nx) r low x tx GR) as (tx' & T' & (_ & _ & GU)); [|exact Tr|].
    { intros a b ((A1 & _ & A3) & _). split; assumption. }
    unfold tu in Hm. rewrite T' in Hm. simpl in GU.
    destruct (mem i (t_u tx)) eqn:E; [|reflexivity]. rewrite (GU i Hi E) in Hm. discriminate. }
  pose proof (inv_app_r h nx pre ((n, ot) :: r) HI) as HI'. simpl in HI'. destruct HI' as (_ & HIr).
  (* u1: the referenced tags are as in the snapshot *)
  assert (mem id (t_u tp) = false) as Hup.
  { destruct (mem id (t_u tp)) eqn:E; [|reflexivity]. rewrite (G4 id Hid E) in Hu1. discriminate. }
  unfold tp in Hup. simpl in Hup. unfold u1_of in Hup.
  destruct (existsb (fun r0 => negb (is0 (sxor (tm r0 ts) (lookupN r0 snap)))) (d_subt d)) eqn:EX;
    [unfold allS in Hup; rewrite mem_ones in Hup; [discriminate|exact Hid]|].
  (* the masks did not touch id *)
  assert (dirty = true -> d_sub d = false /\ mem id madd = false /\
            (d_idonly d = true \/ (mem id mrst = false /\ (d_datatime d = false \/ mem id mupd = false)))) as HD.
  { intros ED. unfold g in Hu1. rewrite ED in Hu1. unfold invalidate_one, tp in Hu1. simpl in Hu1.
    destruct (d_sub d); [simpl in Hu1; unfold allS in Hu1; rewrite mem_ones in Hu1; [discriminate|exact Hid]|].
    split; [reflexivity|]. destruct (d_idonly d).
    - rewrite K in Hu1. simpl in Hu1. rewrite mem_union in Hu1. apply orb_false_iff in Hu1. destruct Hu1. split; [assumption|left; reflexivity].
    - simpl in Hu1. destruct (d_datatime d); rewrite ?mem_union in Hu1;
        repeat (apply orb_false_iff in Hu1; destruct Hu1 as [Hu1 ?]); split; auto. }
  assert (id < hnext h0) as Hlt.
  { destruct (N.lt_ge_cases id (hnext h0)) as [L|G]; [exact L|]. pose proof (J3 id G Hid) as A.
    destruct dirty eqn:ED.
    - destruct (HD eq_refl) as (_ & B & _). congruence.
    - unfold dirty in ED. apply negb_false_iff in ED. apply andb_true_iff in ED. destruct ED as [_ ED].
      apply is0_true in ED. rewrite ED, mem_0 in A. discriminate. }
  assert (mem id res = truth h0 d (rho_snap snap) id) as R1.
  { rewrite J1. destruct (mem id U0) eqn:E; [reflexivity|apply J2; assumption]. }
  assert (truth h d (rho_snap snap) id = truth h0 d (rho_snap snap) id) as R2.
  { unfold h. destruct rs as [|r0 rs']; [reflexivity|].
    destruct (HD (J4 ltac:(discriminate))) as (D1 & D2 & D3).
    apply local_iter; [exact D1|]. intros x Hx. destruct (EFF x Hx id) as (E1 & E2 & E3). split.
    - destruct (mem id (ir_add x)) eqn:E; [rewrite (E3 eq_refl) in D2; discriminate|reflexivity].
    - destruct D3 as [D3|(D3 & D4)]; [left; exact D3|right]. split.
      + destruct (mem id (ir_rst x)) eqn:E; [rewrite (E2 eq_refl) in D3; discriminate|reflexivity].
      + destruct D4 as [D4|D4]; [left; exact D4|right].
        destruct (mem id (ir_upd x)) eqn:E; [rewrite (E1 eq_refl) in D4; discriminate|reflexivity]. }
  rewrite R1, <- R2. apply H_ext.
  - intros x Hx. destruct (RX x (in_or_app _ _ _ (or_introl Hx))) as (tx & Tr & Tm & TU).
    unfold rho_snap.
    pose proof (fold_union0_mem _ _ _ Hup x Hx) as Hs. cbv beta in Hs. rewrite mem_sxor in Hs.
    apply xorb_eq in Hs. rewrite <- Hs, Tm.
    apply (inv_lookup h nx r x tx HIr Tr id Hid). apply TU; [exact Hid|].
    exact (existsb_false_all (fun r0 => mem id (tu r0 low)) _ Hu2 x Hx).
  - intros x Hx j Hj. destruct (RX x (in_or_app _ _ _ (or_intror Hx))) as (tx & Tr & Tm & TU).
    unfold rho_snap.
    pose proof (existsb_false_all _ _ EX x Hx) as Hs. cbv beta in Hs. apply negb_false_iff, is0_true in Hs.
    apply N.lxor_eq in Hs. rewrite <- Hs, Tm. rewrite Hn in Hj.
    apply (inv_lookup h nx r x tx HIr Tr j Hj). apply TU; [exact Hj|].
    pose proof (existsb_false_all _ _ ES x Hx) as H0. cbv beta in H0. apply negb_false_iff, is0_true in H0. rewrite H0. apply mem_0.
Qed.


(* ---------------------------------------------------------------- state invariant *)
Definition iresp_ok6 (nx : N) (r : iresp) : Prop :=
  nx <= ir_next r /\ (forall i, nx <= i -> i < ir_next r -> mem i (ir_add r) = true) /\
  (ir_idx r <> [] -> exists i, mem i (union (union (ir_upd r) (ir_rst r)) (ir_add r)) = true).

Definition ranked (ts : tags_t) : Prop :=
  forall n t, In (n, t) ts -> t_live t = true ->
    (forall x, In x (d_refs (t_def t)) -> x < n /\ exists tx, tget x ts = Some tx) /\ def_ok (t_def t).

Definition dirty_of (st : state) : bool := negb (is0 (m_upd st) && is0 (m_rst st) && is0 (m_add st)).

Definition jinv (st : state) : Prop :=
  forall j, jtag st = Some j -> exists rs h0,
    hist st = rs ++ h0 /\ length h0 = tj_hist j /\
    effects_in rs (m_upd st) (m_rst st) (m_add st) /\
    (rs <> [] -> dirty_of st = true) /\
    (forall id, hnext h0 <= id -> id < next st -> mem id (m_add st) = true) /\
    (forall id, id < hnext h0 -> mem id (tj_u j) = false ->
       mem id (tj_m j) = truth h0 (tj_def j) (rho_snap (tj_snap j)) id) /\
    (forall res, tj_res j = Some res -> forall id,
       mem id res = if mem id (tj_u j) then truth h0 (tj_def j) (rho_snap (tj_snap j)) id else mem id (tj_m j)).

Definition impjob6 (st : state) : Prop := forall n r, jimp st = Some (mkImp n (Some r)) -> iresp_ok6 (next st) r.

Definition Sinv (st : state) : Prop :=
  inv (hist st) (next st) (tags st) /\ next st = hnext (hist st) /\ sorted (tags st) /\ ranked (tags st) /\
  jinv st /\ impjob6 st.

(* fields the invariant reads *)
Definition sfields (st st' : state) : Prop :=
  tags st' = tags st /\ hist st' = hist st /\ next st' = next st /\ m_upd st' = m_upd st /\ m_rst st' = m_rst st /\
  m_add st' = m_add st /\ jtag st' = jtag st /\ jimp st' = jimp st.

Lemma sinv_fields st st' : sfields st st' -> Sinv st -> Sinv st'.
Proof.
  intros (F1 & F2 & F3 & F4 & F5 & F6 & F7 & F8). unfold Sinv, jinv, impjob6, dirty_of.
  rewrite F1, F2, F3, F4, F5, F6, F7, F8. auto.
Qed.

Lemma start_converter_sfields st : sfields st (start_converter st).
Proof.
  unfold start_converter. destruct (jconv st); [repeat split|]. destruct (filter _ (convs st)); repeat split.
Qed.
Lemma start_merge_sfields st : sfields st (start_merge st).
Proof. unfold start_merge. destruct (merge_eligible st); repeat split. Qed.

Lemma sinv_start_converter st : Sinv st -> Sinv (start_converter st).
Proof. apply sinv_fields, start_converter_sfields. Qed.
Lemma sinv_start_merge st : Sinv st -> Sinv (start_merge st).
Proof. apply sinv_fields, start_merge_sfields. Qed.

(* ---------------------------------------------------------------- starting a tagging job *)
Lemma in_split_sorted (ts : tags_t) (n : N) (t : tag) : In (n, t) ts -> exists pre r, ts = pre ++ (n, t) :: r.
Proof. intros H. destruct (in_split _ _ H) as (a & b & E). exists a, b. exact E. Qed.

Lemma eligible_spec ts n : eligible ts n = true ->
  exists t, tget n ts = Some t /\ forall x, In x (d_refs (t_def t)) -> tu x ts = 0.
Proof.
  unfold eligible. destruct (tget n ts) as [t|]; [|discriminate]. intros H. apply andb_true_iff in H. destruct H as [_ H].
  exists t. split; [reflexivity|]. intros x Hx. rewrite forallb_forall in H. apply is0_true. apply H. exact Hx.
Qed.

Lemma first_eligible_spec ts n : first_eligible ts = Some n -> eligible ts n = true.
Proof.
  unfold first_eligible. destruct (filter _ ts) as [|[k t] l] eqn:E; [discriminate|]. intros H; inversion H; subst.
  assert (In (n, t) (filter (fun nt => eligible ts (fst nt)) ts)) as I by (rewrite E; left; reflexivity).
  apply filter_In in I. exact (proj2 I).
Qed.

Lemma lookupN_map_snap (f : N -> N) l x : In x l -> lookupN x (map (fun r => (r, f r)) l) = f x.
Proof.
  unfold lookupN. induction l as [|a l IH]; simpl; [intros []|]. destruct (N.eqb_spec a x).
  - subst. reflexivity.
  - intros [E|I]; [congruence|apply IH; exact I].
Qed.

Lemma sinv_start_tagging p st : Sinv st -> Sinv (start_tagging p st).
Proof.
  intros HS. pose proof HS as (HI & Hn & So & Ra & Ji & Im). unfold start_tagging.
  destruct (jtag st) eqn:J; [exact HS|].
  destruct (if eligible (tags st) p then Some p else first_eligible (tags st)) as [n|] eqn:EC; [|exact HS].
  assert (eligible (tags st) n = true) as EL.
  { destruct (eligible (tags st) p) eqn:E; [inversion EC; subst; exact E|apply first_eligible_spec; exact EC]. }
  destruct (eligible_spec _ _ EL) as (t & Tn & Tr). rewrite Tn.
  split; [exact HI|split; [exact Hn|split; [exact So|split; [exact Ra|split; [|exact Im]]]]].
  intros j Hj. simpl in Hj. inversion Hj; subst; clear Hj. exists [], (hist st). simpl.
  split; [reflexivity|split; [reflexivity|split; [intros x []|split; [congruence|split; [intros; lia|split; [|discriminate]]]]]].
  intros id Hid Hu.
  destruct (tget_In _ _ _ Tn) as (In_n & Ln). destruct (in_split_sorted _ _ _ In_n) as (pre & r & E).
  destruct (Ra n t In_n Ln) as (Rf & Dok).
  rewrite E in HI. pose proof (inv_app_r _ _ _ _ HI) as HI'. simpl in HI'. destruct HI' as (I1 & I2).
  rewrite <- Hn in Hid. rewrite (I1 Ln id Hid Hu). apply H_ext.
  - intros x Hx. assert (In x (d_refs (t_def t))) as Hx' by (apply in_or_app; left; exact Hx).
    destruct (Rf x Hx') as (Lx & tx & Tx). unfold rho_snap. rewrite lookupN_map_snap; [|exact Hx'].
    assert (tget x r = Some tx) as Txr by (rewrite <- Tx, E; symmetry; apply tget_tail; [rewrite <- E; exact So|exact Lx]).
    unfold tm. rewrite Tx. symmetry. apply (inv_lookup _ _ _ _ _ I2 Txr id Hid).
    pose proof (Tr x Hx') as U0. unfold tu in U0. rewrite Tx in U0. rewrite U0. apply mem_0.
  - intros x Hx j Hj. assert (In x (d_refs (t_def t))) as Hx' by (apply in_or_app; right; exact Hx).
    destruct (Rf x Hx') as (Lx & tx & Tx). unfold rho_snap. rewrite lookupN_map_snap; [|exact Hx'].
    assert (tget x r = Some tx) as Txr by (rewrite <- Tx, E; symmetry; apply tget_tail; [rewrite <- E; exact So|exact Lx]).
    unfold tm. rewrite Tx. symmetry. rewrite <- Hn in Hj. apply (inv_lookup _ _ _ _ _ I2 Txr j Hj).
    pose proof (Tr x Hx') as U0. unfold tu in U0. rewrite Tx in U0. rewrite U0. apply mem_0.
Qed.


(* ---------------------------------------------------------------- names, ranks are kept by updates *)
Lemma Forall2_In_r {A B} (R : A -> B -> Prop) a b y : Forall2 R a b -> In y b -> exists x, In x a /\ R x y.
Proof.
  induction 1; intros []; [subst; eexists; split; [left; reflexivity|assumption]|].
  destruct (IHForall2 H1) as (x0 & I & Rx). exists x0. split; [right|]; assumption.
Qed.

Lemma sorted_same a b : Forall2 same1 a b -> sorted a -> sorted b.
Proof.
  induction 1 as [|[k t] [k' t'] ra rb (E1 & _) HR IH]; [auto|]. simpl in *. subst k'.
  intros (S1 & S2). split; [|apply IH; exact S2].
  intros k' t'' I. destruct (Forall2_In_r _ _ _ _ HR I) as ([k0 t0] & I0 & (E & _)). simpl in E. subst. eapply S1; exact I0.
Qed.

Lemma same1_tget a b x tx : Forall2 same1 a b -> tget x a = Some tx -> exists tx', tget x b = Some tx'.
Proof.
  intros H T. destruct (Forall2_tget same1 a b x tx H) as (tx' & T' & _); [|exact T|exists tx'; exact T'].
  intros u v (A & _ & C). split; assumption.
Qed.

Lemma ranked_same a b : Forall2 same1 a b -> ranked a -> ranked b.
Proof.
  intros H R n t' I L. destruct (Forall2_In_r _ _ _ _ H I) as ([k t] & I0 & (E1 & E2 & E3)). simpl in *. subst k.
  rewrite <- E3 in L. destruct (R n t I0 L) as (Rf & Dk). rewrite <- E2. split; [|exact Dk].
  intros x Hx. destruct (Rf x Hx) as (Lx & tx & Tx). split; [exact Lx|]. eapply same1_tget; eassumption.
Qed.

Lemma grow_invalidate_tags k nx u r a ts : Forall2 (grow1 nx) ts (invalidate_tags k (ones nx) u r a ts).
Proof. unfold invalidate_tags. eapply grow_trans; [apply grow_invalidate|apply grow_inherit]. Qed.

Lemma ne0_of_mem i s : mem i s = true -> is0 s = false.
Proof. intros H. destruct (is0 s) eqn:E; [apply is0_true in E; subst; rewrite mem_0 in H; discriminate|reflexivity]. Qed.

(* ---------------------------------------------------------------- import completion *)
Lemma sinv_import_core k st r cu q cv tc ca ve ix un jc jm vw :
  kf_idonly k = false -> Sinv st -> iresp_ok6 (next st) r -> ir_idx r <> [] ->
  Sinv (mkSt (ir_next r) (invalidate_tags k (ones (ir_next r)) (ir_upd r) (ir_rst r) (ir_add r) (tags st))
             (union (m_upd st) (ir_upd r)) (union (m_rst st) (ir_rst r)) (union (m_add st) (ir_add r))
             cu q cv tc ca ve ix un None (jtag st) jc jm (r :: hist st) vw).
Proof.
  intros K (HI & Hn & So & Ra & Ji & Im) (R1 & R2 & R3) NE.
  pose proof (grow_invalidate_tags k (ir_next r) (ir_upd r) (ir_rst r) (ir_add r) (tags st)) as GR.
  split; [|split; [reflexivity|split; [eapply sorted_same; [eapply grow_same; exact GR|exact So]|
          split; [eapply ranked_same; [eapply grow_same; exact GR|exact Ra]|split]]]].
  - simpl. unfold invalidate_tags. eapply inv_urel.
    + rewrite Hn in *. apply urel_import; [exact K|exact R1|exact R2].
    + apply closed_inherit.
    + simpl. lia.
    + rewrite Hn in HI. rewrite <- Hn. rewrite Hn. exact HI.
  - intros j Hj. simpl in Hj. destruct (Ji j Hj) as (rs & h0 & E & L & EF & D & J3 & J2 & J1).
    exists (r :: rs), h0. simpl. split; [rewrite E; reflexivity|split; [exact L|split; [|split; [|split; [|split; [exact J2|exact J1]]]]]].
    + intros x [<-|Hx] i.
      * rewrite !mem_union. repeat split; intros ->; apply orb_true_r.
      * destruct (EF x Hx i) as (A & B & C). rewrite !mem_union. repeat split; intros Hm;
          [rewrite (A Hm)|rewrite (B Hm)|rewrite (C Hm)]; reflexivity.
    + intros _. unfold dirty_of. simpl. destruct (R3 NE) as (i & Hi). rewrite !mem_union in Hi.
      apply negb_true_iff. apply andb_false_iff.
      apply orb_true_iff in Hi. destruct Hi as [Hi|Hi]; [apply orb_true_iff in Hi; destruct Hi as [Hi|Hi]|].
      * left. apply andb_false_iff. left. apply (ne0_of_mem i). rewrite mem_union, Hi. apply orb_true_r.
      * left. apply andb_false_iff. right. apply (ne0_of_mem i). rewrite mem_union, Hi. apply orb_true_r.
      * right. apply (ne0_of_mem i). rewrite mem_union, Hi. apply orb_true_r.
    + intros id G Hlt. rewrite mem_union. destruct (N.lt_ge_cases id (next st)) as [A|A].
      * rewrite (J3 id G A). reflexivity.
      * rewrite (R2 id A Hlt). apply orb_true_r.
  - intros n0 r0 H. simpl in H. discriminate.
Qed.


(* ---------------------------------------------------------------- tagging job completion *)
Lemma listN_eqb_eq a : forall b, listN_eqb a b = true -> a = b.
Proof.
  induction a as [|x a IH]; destruct b as [|y b]; simpl; try discriminate; [reflexivity|].
  intros H. apply andb_true_iff in H. destruct H as [H1 H2]. apply N.eqb_eq in H1. subst. f_equal. apply IH. exact H2.
Qed.

Lemma defn_eqb_eq a b : defn_eqb a b = true -> a = b.
Proof.
  unfold defn_eqb. intros H. repeat (apply andb_true_iff in H; destruct H as [H ?]).
  destruct a, b; simpl in *. apply N.eqb_eq in H.
  repeat match goal with X : Bool.eqb _ _ = true |- _ => apply Bool.eqb_prop in X end.
  repeat match goal with X : listN_eqb _ _ = true |- _ => apply listN_eqb_eq in X end.
  subst. reflexivity.
Qed.

Lemma map_id_pair (g : tag -> tag) (l : tags_t) : (forall t, g t = t) -> map (fun nt => (fst nt, g (snd nt))) l = l.
Proof.
  intros H. induction l as [|[k t] r IH]; simpl; [reflexivity|]. rewrite H, IH. reflexivity.
Qed.

Lemma sinv_tag_publish k st n ot m0 u0 cv snap hh res :
  kf_idonly k = false -> Sinv st ->
  jtag st = Some (mkTj n (t_def ot) m0 u0 cv snap hh (Some res)) -> tget n (tags st) = Some ot ->
  let allS := all st in
  let tp := mkTag (t_def ot) res (u1_of (tags st) snap (t_def ot) allS) (t_conv ot) in
  let ts1 := tset n tp (tags st) in
  let ts2 := if dirty_of st then invalidate_tags k allS (m_upd st) (m_rst st) (m_add st) ts1 else inherit allS ts1 in
  forall st', tags st' = ts2 -> hist st' = hist st -> next st' = next st -> m_upd st' = m_upd st ->
    m_rst st' = m_rst st -> m_add st' = m_add st -> jtag st' = None -> jimp st' = jimp st -> Sinv st'.
Proof.
  intros K (HI & Hn & So & Ra & Ji & Im) J Tn allS tp ts1 ts2 st' F1 F2 F3 F4 F5 F6 F7 F8.
  destruct (tget_In _ _ _ Tn) as (In_n & Ln). destruct (in_split_sorted _ _ _ In_n) as (pre & r & E).
  destruct (Ji _ J) as (rs & h0 & EH & _ & EF & D & J3 & J2 & J1). simpl in J2, J1.
  set (g := fun t => if dirty_of st then invalidate_one k allS (m_upd st) (m_rst st) (m_add st) t else t).
  assert (ts2 = inherit allS (map (fun nt => (fst nt, g (snd nt))) ts1)) as E2.
  { unfold ts2, g, invalidate_tags. destruct (dirty_of st); [reflexivity|]. f_equal. symmetry. apply (map_id_pair (fun t => t)). reflexivity. }
  assert (forall t, t_def (g t) = t_def t /\ t_live (g t) = t_live t /\ t_m (g t) = t_m t /\
             forall i, i < next st -> mem i (t_u t) = true -> mem i (t_u (g t)) = true) as Hg.
  { intros t. unfold g. destruct (dirty_of st); [|repeat split; auto].
    destruct (invalidate_one_rest k allS (m_upd st) (m_rst st) (m_add st) t) as (A & B & C). repeat split; auto.
    intros i Hi Hm. pose proof (grow_invalidate k (next st) (m_upd st) (m_rst st) (m_add st) [(0, t)]) as G.
    inversion G; subst. destruct H2 as (_ & _ & G5). simpl in G5. apply G5; assumption. }
  assert (Forall2 same1 (tags st) ts2) as SM.
  { rewrite E2. eapply Forall2_trans_same.
    - apply (Forall2_tset same1 n tp); [intros; repeat split|]. intros k0 t0 I E0. subst k0.
      assert (t0 = ot) as -> by (eapply sorted_unique; eassumption). unfold same1; simpl. repeat split. exact Ln.
    - eapply grow_same. eapply grow_trans; [apply grow_map; exact Hg|apply grow_inherit]. }
  unfold Sinv, jinv, impjob6. rewrite F1, F2, F3, F7, F8.
  split; [|split; [exact Hn|split; [eapply sorted_same; eassumption|split; [eapply ranked_same; eassumption|split; [discriminate|exact Im]]]]].
  rewrite E2. unfold ts1. rewrite E. unfold allS, all.
  destruct (Ra n ot In_n Ln) as (Rf & Dok).
  apply inv_publish with (g := g); try assumption; try reflexivity.
  - rewrite <- E. exact So.
  - rewrite <- E. exact HI.
  - intros id Hid Hu. simpl.
    pose proof (publish_obl k h0 rs (next st) n ot pre r (t_def ot) m0 u0 snap res (t_conv ot) (m_upd st) (m_rst st) (m_add st)) as P.
    cbv zeta in P. rewrite <- EH, <- E in P. apply P; try assumption.
    + symmetry; exact Hn.
    + apply J1. reflexivity.
Qed.


(* ---------------------------------------------------------------- updates that only grow Uncertain / the masks *)
Lemma ne0_mem_exists s : s <> 0 -> exists i, mem i s = true.
Proof.
  intros H. destruct s as [|p]; [congruence|]. exists (N.log2 (N.pos p)). unfold mem. apply N.bit_log2. discriminate.
Qed.

Lemma is0_mono a b : (forall i, mem i a = true -> mem i b = true) -> is0 b = true -> is0 a = true.
Proof.
  intros H Hb. apply is0_true in Hb. subst. destruct (is0 a) eqn:E; [reflexivity|].
  apply is0_false in E. destruct (ne0_mem_exists a E) as (i & Hi). apply H in Hi. rewrite mem_0 in Hi. discriminate.
Qed.

Lemma sinv_update st st' :
  hist st' = hist st -> next st' = next st -> jtag st' = jtag st -> jimp st' = jimp st ->
  Forall2 (grow1 (next st)) (tags st) (tags st') ->
  (forall i, mem i (m_upd st) = true -> mem i (m_upd st') = true) ->
  (forall i, mem i (m_rst st) = true -> mem i (m_rst st') = true) ->
  (forall i, mem i (m_add st) = true -> mem i (m_add st') = true) ->
  Sinv st -> Sinv st'.
Proof.
  intros F1 F2 F3 F4 GR MU MR MA (HI & Hn & So & Ra & Ji & Im).
  unfold Sinv, jinv, impjob6. rewrite F1, F2, F3, F4.
  split; [eapply inv_grow; eassumption|split; [exact Hn|split; [eapply sorted_same; [eapply grow_same; exact GR|exact So]|
    split; [eapply ranked_same; [eapply grow_same; exact GR|exact Ra]|split; [|exact Im]]]]].
  intros j Hj. destruct (Ji j Hj) as (rs & h0 & E & L & EF & D & J3 & J2 & J1).
  exists rs, h0. split; [exact E|split; [exact L|split; [|split; [|split; [|split; [exact J2|exact J1]]]]]].
  - intros x Hx i. destruct (EF x Hx i) as (A & B & C). repeat split; auto.
  - intros NE. specialize (D NE). unfold dirty_of in *. apply negb_true_iff in D. apply negb_true_iff.
    apply andb_false_iff in D. apply andb_false_iff. destruct D as [D|D].
    + left. apply andb_false_iff in D. apply andb_false_iff. destruct D as [D|D]; [left|right];
        (destruct (is0 _) eqn:E0 in |- *; [|reflexivity]); [rewrite (is0_mono _ _ MU E0) in D|rewrite (is0_mono _ _ MR E0) in D]; discriminate.
    + right. destruct (is0 (m_add st')) eqn:E0; [|reflexivity]. rewrite (is0_mono _ _ MA E0) in D. discriminate.
  - intros id G Hlt. apply MA. apply J3; assumption.
Qed.

Lemma sinv_reopen st s : Sinv st -> Sinv (reopen_data st s).
Proof.
  intros H. apply (sinv_update st); [reflexivity|reflexivity|reflexivity|reflexivity| | | | |exact H]; simpl.
  - eapply grow_trans; [apply grow_data_tags|apply grow_inherit].
  - intros i Hi; rewrite mem_union, Hi; reflexivity.
  - auto.
  - auto.
Qed.

Lemma sinv_after_detach k b st : Sinv st -> Sinv (after_detach k b st).
Proof.
  intros H. unfold after_detach. destruct (kf_detachreset k); [exact H|].
  destruct (b && has_data_tag (tags st)); [|exact H]. apply sinv_reopen, H.
Qed.

Lemma sinv_tag_again k p st : Sinv st -> Sinv (tag_again k p st).
Proof. intros H. unfold tag_again. destruct (kf_detachreset k); [exact H|apply sinv_start_tagging, H]. Qed.

(* converter attach / detach touch only the converter list of a tag *)
Lemma grow_tset_conv nx n t t' ts :
  sorted ts -> tget n ts = Some t -> t_def t' = t_def t -> t_m t' = t_m t -> t_u t' = t_u t -> t_live t' = true ->
  Forall2 (grow1 nx) ts (tset n t' ts).
Proof.
  intros So Tn E1 E2 E3 E4. apply Forall2_tset; [intros; repeat split; auto|].
  intros k0 t0 I E. subst k0. destruct (tget_In _ _ _ Tn) as (In_n & Ln).
  assert (t0 = t) as -> by (eapply sorted_unique; eassumption).
  unfold grow1, same1; simpl. repeat split; try congruence.
Qed.

Definition tagsonly (st st' : state) : Prop :=
  hist st' = hist st /\ next st' = next st /\ jtag st' = jtag st /\ jimp st' = jimp st /\
  m_upd st' = m_upd st /\ m_rst st' = m_rst st /\ m_add st' = m_add st /\
  (sorted (tags st) -> Forall2 (grow1 (next st)) (tags st) (tags st')).

Lemma sinv_tagsonly st st' : tagsonly st st' -> Sinv st -> Sinv st'.
Proof.
  intros (F1 & F2 & F3 & F4 & F5 & F6 & F7 & G) HS. pose proof HS as (_ & _ & So & _).
  apply (sinv_update st st'); auto; intros i; rewrite ?F5, ?F6, ?F7; auto.
Qed.

Lemma detach_tagsonly st n c : tagsonly st (detach st n c).
Proof.
  unfold detach. destruct (tget n (tags st)) as [t|] eqn:Tn; [|repeat split; intros; apply grow_refl].
  match goal with |- context[if ?b then _ else _] => destruct b end; repeat split; simpl;
    intros So; apply (grow_tset_conv _ n t); auto.
Qed.

Lemma attach_tagsonly st n c st' : attach st n c = Some st' -> tagsonly st st'.
Proof.
  unfold attach. destruct (tget n (tags st)) as [t|] eqn:Tn; [|intros E; inversion E; repeat split; intros; apply grow_refl].
  destruct (tag_has_conv c t); [intros E; inversion E; repeat split; intros; apply grow_refl|].
  destruct (complex (t_def t)); [discriminate|]. intros E; inversion E; subst. repeat split; simpl.
  intros So; apply (grow_tset_conv _ n t); auto.
Qed.

Lemma sinv_detach st n c : Sinv st -> Sinv (detach st n c).
Proof. apply sinv_tagsonly, detach_tagsonly. Qed.

Lemma sinv_fold (f : state -> N -> state) l :
  (forall s c, Sinv s -> Sinv (f s c)) -> forall st, Sinv st -> Sinv (fold_left f l st).
Proof. intros Hf. induction l; simpl; auto. Qed.

Lemma sinv_attach_all cs : forall st n, Sinv st -> Sinv (fst (attach_all st n cs)).
Proof.
  induction cs; simpl; intros; auto.
  destruct (memN a (convs st)); [|exact H].
  destruct (attach st n a) eqn:E; [|exact H].
  apply IHcs. eapply sinv_tagsonly; [eapply attach_tagsonly; exact E|exact H].
Qed.


(* ---------------------------------------------------------------- C06: the step theorem *)
Definition act_ok6 (st : state) (a : action) : Prop :=
  match a with
  | ABodyImport r => iresp_ok6 (next st) r
  | ABodyTag table =>
    forall j rs h0, jtag st = Some j -> hist st = rs ++ h0 -> length h0 = tj_hist j ->
    forall id, mem id (lookupN (tj_name j) table) = truth h0 (tj_def j) (rho_snap (tj_snap j)) id
  | _ => True
  end.

Definition repaired_c06 (k : kf) : Prop := kf_inherit k = false /\ kf_idonly k = false.

(* API calls on the tag set itself are covered by separate lemmas below *)
Definition job_or_import (a : action) : Prop :=
  match a with
  | AAddTag _ _ _ | ADelTag _ | AQuery _ _ | AMarkAdd _ _ _ | AMarkDel _ _ _ => False
  | _ => True
  end.

Lemma sinv_nojob st st' :
  tags st' = tags st -> hist st' = hist st -> next st' = next st -> jtag st' = None -> jimp st' = jimp st ->
  Sinv st -> Sinv st'.
Proof.
  intros F1 F2 F3 F4 F5 (HI & Hn & So & Ra & Ji & Im). unfold Sinv, jinv, impjob6. rewrite F1, F2, F3, F4, F5.
  split; [exact HI|split; [exact Hn|split; [exact So|split; [exact Ra|split; [discriminate|exact Im]]]]].
Qed.

Lemma sinv_starts p st : Sinv st -> Sinv (start_merge (start_converter (start_tagging p st))).
Proof. intros. apply sinv_start_merge, sinv_start_converter, sinv_start_tagging. assumption. Qed.

Lemma sinv_jimp st j : (forall n r, j = Some (mkImp n (Some r)) -> iresp_ok6 (next st) r) -> Sinv st -> Sinv (set_jimp st j).
Proof.
  intros Hj (HI & Hn & So & Ra & Ji & Im).
  split; [exact HI|split; [exact Hn|split; [exact So|split; [exact Ra|split; [exact Ji|]]]]].
  intros n r E. simpl in E. apply (Hj n r E).
Qed.

Theorem sinv_step_jobs k p a st :
  repaired_c06 k -> job_or_import a -> act_ok6 st a -> Sinv st -> Sinv (step k p a st).
Proof.
  intros (Ki & Kd) Hc Hok H. destruct a; try (destruct Hc; fail).
  - (* AImport *) simpl. destruct files; [exact H|].
    match goal with |- context[if ?b then _ else _] => destruct b end.
    + apply sinv_jimp; [intros n0 r0 E; discriminate|]. apply (sinv_fields st); [repeat split|exact H].
    + apply (sinv_fields st); [repeat split|exact H].
  - (* ASetConv *) simpl. destruct (tget n (tags st)); [|exact H].
    match goal with |- context[if ?b then _ else _] => destruct b end; [|exact H].
    apply sinv_start_converter, sinv_tag_again, sinv_attach_all, sinv_after_detach. apply sinv_fold; [|exact H].
    intros s c Hs. destruct (memN c cs); [exact Hs|apply sinv_detach; exact Hs].
  - (* ABodyImport *) simpl. destruct (jimp st) as [j|] eqn:J; [|exact H].
    destruct (ij_resp j); [exact H|].
    apply sinv_jimp; [|exact H]. intros n0 r0 E. inversion E; subst. exact Hok.
  - (* ABodyTag *) simpl. destruct (jtag st) as [j|] eqn:J; [|exact H]. destruct (tj_res j) eqn:ER; [exact H|].
    destruct H as (HI & Hn & So & Ra & Ji & Im).
    split; [exact HI|split; [exact Hn|split; [exact So|split; [exact Ra|split; [|exact Im]]]]].
    intros j' Hj'. simpl in Hj'. inversion Hj'; subst; clear Hj'. simpl.
    destruct (Ji j J) as (rs & h0 & E & L & EF & D & J3 & J2 & J1).
    exists rs, h0. split; [exact E|split; [exact L|split; [exact EF|split; [exact D|split; [exact J3|split; [exact J2|]]]]]].
    intros res Hres id. inversion Hres; subst; clear Hres.
    rewrite mem_union, mem_diff, mem_inter. rewrite (Hok j rs h0 J E L id).
    destruct (mem id (tj_u j)); simpl; [rewrite andb_false_r; reflexivity|rewrite andb_true_r; apply orb_false_r].
  - (* ABodyConvert *) simpl. destruct (jconv st) as [j|]; [|exact H]. destruct (cj_done j); [exact H|].
    apply (sinv_fields st); [repeat split|exact H].
  - (* ABodyMerge *) simpl. destruct (jmerge st) as [j|]; [|exact H]. destruct (mj_res j); [exact H|].
    apply (sinv_fields st); [repeat split|exact H].
  - (* AComplete *) destruct k0.
    + (* import *) simpl. destruct (jimp st) as [[nf [r|]]|] eqn:J; try exact H.
      apply sinv_starts.
      assert (forall st1, Sinv st1 -> jimp st1 = None ->
        Sinv (match skipn (ir_proc r) (queue st1) with
              | [] => set_queue st1 (skipn (ir_proc r) (queue st1))
              | _ :: _ => set_jimp (set_queue st1 (skipn (ir_proc r) (queue st1)))
                                   (Some (mkImp (length (skipn (ir_proc r) (queue st1))) None)) end)) as HQ.
      { intros st1 H1 J1. destruct (skipn (ir_proc r) (queue st1)) eqn:E.
        - apply (sinv_fields st1); [repeat split|exact H1].
        - apply sinv_jimp; [intros; discriminate|]. apply (sinv_fields st1); [repeat split|exact H1]. }
      pose proof H as (_ & _ & _ & _ & _ & Im). pose proof (Im _ _ J) as R.
      destruct (ir_idx r) eqn:EI.
      * apply HQ; [|reflexivity]. apply sinv_jimp; [intros; discriminate|exact H].
      * apply HQ; [|reflexivity]. eapply sinv_fields; [|apply (sinv_import_core k st r); [exact Kd|exact H|exact R|rewrite EI; discriminate]].
        repeat split.
    + (* tag *) simpl. destruct (jtag st) as [[n d m0 u0 cv snap hh [res|]]|] eqn:J; try exact H.
      apply sinv_starts. simpl.
      destruct (tget n (tags st)) as [ot|] eqn:Tn; [|apply (sinv_nojob st); auto].
      destruct (defn_eqb (t_def ot) d) eqn:ED; [|apply (sinv_nojob st); auto].
      apply defn_eqb_eq in ED. subst d. rewrite Ki.
      eapply (sinv_tag_publish k st n ot m0 u0 cv snap hh res Kd H J Tn); reflexivity.
    + (* convert *) simpl. destruct (jconv st) as [[sets v nx [|]]|]; try exact H.
      assert (forall s, Sinv s -> Sinv (if kf_mergeconv k then start_converter (start_tagging p s)
                                         else start_merge (start_converter (start_tagging p s)))) as HS.
      { intros s Hs. destruct (kf_mergeconv k).
        - apply sinv_start_converter, sinv_start_tagging, Hs.
        - apply sinv_starts, Hs. }
      apply HS. destruct (kf_inflight k).
      * apply (sinv_update st); [reflexivity|reflexivity|reflexivity|reflexivity| | | | |exact H]; simpl.
        -- eapply grow_trans; [apply grow_data_tags|apply grow_inherit].
        -- intros i Hi; rewrite mem_union, Hi; reflexivity.
        -- auto.
        -- auto.
      * apply (sinv_update st); [reflexivity|reflexivity|reflexivity|reflexivity| | | | |exact H]; simpl.
        -- eapply grow_trans; [apply grow_data_tags|apply grow_inherit].
        -- intros i Hi; rewrite mem_union, Hi; reflexivity.
        -- auto.
        -- auto.
    + (* merge *) simpl. destruct (jmerge st) as [[off snap [merged|]]|]; try exact H.
      apply sinv_start_merge. apply (sinv_fields st); [repeat split|exact H].
  - (* AViewOpen *) simpl. apply (sinv_fields st); [repeat split|exact H].
  - (* AViewData *) simpl. destruct (find _ (views st)) as [[v0 sv]|]; [|exact H].
    destruct (cache st c i); [exact H|].
    destruct (negb (i <? next st) || negb (memN c (convs st))); [exact H|].
    destruct (kf_viewstore k || (sv i =? ver st i)).
    + apply (sinv_fields st); [repeat split|exact H].
    + apply sinv_start_converter. apply (sinv_fields st); [repeat split|exact H].
  - (* AViewClose *) simpl. apply (sinv_fields st); [repeat split|exact H].
Qed.


(* ---------------------------------------------------------------- API calls that change one tag *)
Definition nameq (a b : N * tag) : Prop := fst a = fst b /\ t_live (snd a) = t_live (snd b).

Lemma sorted_nameq a b : Forall2 nameq a b -> sorted a -> sorted b.
Proof.
  induction 1 as [|[k t] [k' t'] ra rb (E1 & _) HR IH]; [auto|]. simpl in *. subst k'.
  intros (S1 & S2). split; [|apply IH; exact S2].
  intros k' t'' I. destruct (Forall2_In_r _ _ _ _ HR I) as ([k0 t0] & I0 & (E & _)). simpl in E. subst. eapply S1; exact I0.
Qed.

Lemma nameq_tget a b x tx : Forall2 nameq a b -> tget x a = Some tx -> exists tx', tget x b = Some tx'.
Proof.
  intros H T. destruct (Forall2_tget nameq a b x tx H) as (tx' & T' & _); [|exact T|exists tx'; exact T'].
  intros u v (A & C). split; assumption.
Qed.

Lemma tget_tset_eq n t' ts : t_live t' = true -> (exists k t, In (k, t) ts /\ k = n) -> tget n (tset n t' ts) = Some t'.
Proof.
  intros L (k & t & I & E). subst k. unfold tset. induction ts as [|[k x] r IH]; [destruct I|]. simpl.
  destruct (N.eqb_spec k n) as [->|NE]; simpl.
  - rewrite N.eqb_refl, L. reflexivity.
  - destruct (N.eqb_spec k n); [congruence|]. apply IH. destruct I as [E|I]; [inversion E; congruence|exact I].
Qed.

Lemma tget_tset_ne n t' ts x : x <> n -> tget x (tset n t' ts) = tget x ts.
Proof.
  intros NE. unfold tset. induction ts as [|[k t] r IH]; [reflexivity|]. simpl.
  destruct (N.eqb_spec k n) as [->|]; simpl.
  - destruct (N.eqb_spec n x); [congruence|exact IH].
  - destruct (k =? x); [reflexivity|exact IH].
Qed.

(* replacing a slot that no live tag references *)
Lemma tv_tset_unref h n t' ts :
  (forall k t, In (k, t) ts -> t_live t = true -> ~ In n (d_refs (t_def t))) ->
  forall x id, x <> n -> tv h (tset n t' ts) x id = tv h ts x id.
Proof.
  unfold tset. induction ts as [|[k t] r IH]; intros U x id NE; [reflexivity|]. simpl.
  assert (forall y i, y <> n -> tv h (map (fun kt => if fst kt =? n then (fst kt, t') else kt) r) y i = tv h r y i) as IH'.
  { apply IH. intros; eapply U; [right; eassumption|assumption]. }
  destruct (N.eqb_spec k n) as [->|Nk]; simpl.
  - destruct (N.eqb_spec n x); [congruence|apply IH'; exact NE].
  - destruct (k =? x); [|apply IH'; exact NE].
    destruct (t_live t) eqn:L; [|reflexivity]. simpl. apply H_ext.
    + intros y Hy. apply IH'. intros ->. apply (U k t (or_introl eq_refl) L). apply in_or_app. left. exact Hy.
    + intros y Hy j _. apply IH'. intros ->. apply (U k t (or_introl eq_refl) L). apply in_or_app. right. exact Hy.
Qed.

Lemma inv_tset_unref h nx n t' ts :
  (forall k t, In (k, t) ts -> t_live t = true -> ~ In n (d_refs (t_def t))) ->
  (t_live t' = true -> forall id, id < nx -> mem id (t_u t') = false -> forall rho, mem id (t_m t') = truth h (t_def t') rho id) ->
  inv h nx ts -> inv h nx (tset n t' ts).
Proof.
  unfold tset. induction ts as [|[k t] r IH]; intros U C HI; [exact I|]. simpl in *. destruct HI as (I1 & I2).
  assert (inv h nx (map (fun kt => if fst kt =? n then (fst kt, t') else kt) r)) as IR.
  { apply IH; [intros; eapply U; [right; eassumption|assumption]|exact C|exact I2]. }
  destruct (N.eqb_spec k n) as [->|Nk]; simpl; (split; [|exact IR]).
  - intros L id Hid Hu. apply C; assumption.
  - intros L id Hid Hu. rewrite (I1 L id Hid Hu). apply H_ext.
    + intros y Hy. symmetry. apply (tv_tset_unref h n t' r); [intros; eapply U; [right; eassumption|assumption]|].
      intros ->. apply (U k t (or_introl eq_refl) L). apply in_or_app. left. exact Hy.
    + intros y Hy j _. symmetry. apply (tv_tset_unref h n t' r); [intros; eapply U; [right; eassumption|assumption]|].
      intros ->. apply (U k t (or_introl eq_refl) L). apply in_or_app. right. exact Hy.
Qed.

(* replacing a tag by one with the same definition whose matches are exact *)
Lemma inv_tset_exact h nx n t' ts :
  (forall k t, In (k, t) ts -> k = n -> t_def t = t_def t' /\ t_live t = t_live t') ->
  (forall id rho, mem id (t_m t') = truth h (t_def t') rho id) ->
  inv h nx ts -> inv h nx (tset n t' ts).
Proof.
  intros Hd Hex HI.
  assert (Forall2 same1 ts (tset n t' ts)) as SM.
  { apply Forall2_tset; [intros; repeat split|]. intros k t I E. destruct (Hd k t I E). unfold same1; simpl. auto. }
  revert Hd HI SM. unfold tset. induction ts as [|[k t] r IH]; intros Hd HI SM; [exact I|]. simpl in *.
  destruct HI as (I1 & I2). inversion SM; subst.
  assert (inv h nx (map (fun kt => if fst kt =? n then (fst kt, t') else kt) r)) as IR.
  { apply IH; [intros; eapply Hd; [right; eassumption|assumption]|exact I2|assumption]. }
  destruct (N.eqb_spec k n) as [->|Nk]; simpl; (split; [|exact IR]).
  - intros L id Hid Hu. apply Hex.
  - intros L id Hid Hu. rewrite (I1 L id Hid Hu). apply H_ext; intros; apply tv_same; assumption.
Qed.


Lemma sorted_fst a b : Forall2 (fun x y : N * tag => fst x = fst y) a b -> sorted a -> sorted b.
Proof.
  induction 1 as [|[k t] [k' t'] ra rb E1 HR IH]; [auto|]. simpl in *. subst k'.
  intros (S1 & S2). split; [|apply IH; exact S2].
  intros k' t'' I. destruct (Forall2_In_r _ _ _ _ HR I) as ([k0 t0] & I0 & E). simpl in E. subst. eapply S1; exact I0.
Qed.

Lemma tset_fst n t' ts : Forall2 (fun x y : N * tag => fst x = fst y) ts (tset n t' ts).
Proof. unfold tset. induction ts as [|[k t] r IH]; simpl; constructor; [destruct (k =? n); reflexivity|exact IH]. Qed.

Lemma In_tset n t' ts k t : In (k, t) (tset n t' ts) -> (k = n /\ t = t') \/ (k <> n /\ In (k, t) ts).
Proof.
  unfold tset. induction ts as [|[k0 t0] r IH]; simpl; [intros []|].
  destruct (N.eqb_spec k0 n) as [->|NE]; simpl; intros [E|I].
  - inversion E; subst. left. split; reflexivity.
  - destruct (IH I) as [A|(A & B)]; [left; exact A|right; split; [exact A|right; exact B]].
  - inversion E; subst. right. split; [exact NE|left; reflexivity].
  - destruct (IH I) as [A|(A & B)]; [left; exact A|right; split; [exact A|right; exact B]].
Qed.

Lemma sinv_tags st ts' :
  Sinv st -> inv (hist st) (next st) ts' -> sorted ts' -> ranked ts' -> Sinv (set_tags st ts').
Proof. intros (HI & Hn & So & Ra & Ji & Im) A B C. split; [exact A|split; [exact Hn|split; [exact B|split; [exact C|split; [exact Ji|exact Im]]]]]. Qed.

Lemma refs_ok_spec n d ts : refs_ok n d ts = true -> forall x, In x (d_refs d) -> x < n /\ exists tx, tget x ts = Some tx.
Proof.
  unfold refs_ok. rewrite forallb_forall. intros H x Hx. specialize (H x Hx). apply andb_true_iff in H. destruct H as [A B].
  split; [apply N.ltb_lt; exact A|]. destruct (tget x ts) as [tx|]; [exists tx; reflexivity|discriminate].
Qed.

(* a new tag in a slot nobody references; also deletion of a tag nobody references *)
Lemma sinv_slot st n t' :
  Sinv st ->
  (forall k t, In (k, t) (tags st) -> t_live t = true -> ~ In n (d_refs (t_def t))) ->
  (t_live t' = true -> forall id, id < next st -> mem id (t_u t') = false -> forall rho, mem id (t_m t') = truth (hist st) (t_def t') rho id) ->
  (t_live t' = true -> (forall x, In x (d_refs (t_def t')) -> x < n /\ exists tx, tget x (tags st) = Some tx) /\ def_ok (t_def t')) ->
  Sinv (set_tags st (tset n t' (tags st))).
Proof.
  intros HS U C R. pose proof HS as (HI & Hn & So & Ra & Ji & Im).
  apply sinv_tags; [exact HS|apply inv_tset_unref; assumption|eapply sorted_fst; [apply tset_fst|exact So]|].
  intros k t I L. destruct (In_tset _ _ _ _ _ I) as [(-> & ->)|(NE & I0)].
  - destruct (R L) as (Rf & Dk). split; [|exact Dk]. intros x Hx. destruct (Rf x Hx) as (Lx & tx & Tx).
    split; [exact Lx|]. exists tx. rewrite tget_tset_ne; [exact Tx|lia].
  - destruct (Ra k t I0 L) as (Rf & Dk). split; [|exact Dk]. intros x Hx. destruct (Rf x Hx) as (Lx & tx & Tx).
    split; [exact Lx|]. exists tx. rewrite tget_tset_ne; [exact Tx|].
    intros ->. apply (U k t I0 L). exact Hx.
Qed.

Lemma ranked_unref st n : Sinv st -> tget n (tags st) = None ->
  forall k t, In (k, t) (tags st) -> t_live t = true -> ~ In n (d_refs (t_def t)).
Proof.
  intros (_ & _ & _ & Ra & _) Tn k t I L Hin. destruct (Ra k t I L) as (Rf & _).
  destruct (Rf n Hin) as (_ & tx & Tx). congruence.
Qed.

Lemma referenced_false n ts : referenced n ts = false ->
  forall k t, In (k, t) ts -> t_live t = true -> ~ In n (d_refs (t_def t)).
Proof.
  unfold referenced. intros H k t I _ Hin.
  assert (existsb (fun nt => memN n (d_refs (t_def (snd nt)))) ts = true); [|congruence].
  apply existsb_exists. exists (k, t). split; [exact I|]. simpl. unfold memN. apply existsb_exists.
  exists n. split; [exact Hin|apply N.eqb_refl].
Qed.


(* a live tag is replaced (query update, mark add/del) and uncertainty is inherited *)
Lemma sinv_replace_inherit st n ot t2 :
  Sinv st -> tget n (tags st) = Some ot -> t_live t2 = true ->
  (forall id, id < next st -> mem id (t_u t2) = false ->
     (forall rho, truth (hist st) (t_def t2) rho id = truth (hist st) (t_def ot) rho id) /\
     mem id (t_u ot) = false /\ mem id (t_m t2) = mem id (t_m ot)) ->
  ((forall x, In x (d_refs (t_def t2)) -> x < n /\ exists tx, tget x (tags st) = Some tx) /\ def_ok (t_def t2)) ->
  Sinv (set_tags st (inherit (all st) (tset n t2 (tags st)))).
Proof.
  intros HS Tn L2 C R. pose proof HS as (HI & Hn & So & Ra & Ji & Im).
  destruct (tget_In _ _ _ Tn) as (In_n & Ln).
  assert (forall k t, In (k, t) (tags st) -> k = n -> t = ot) as UQ.
  { intros k t I ->. eapply sorted_unique; eassumption. }
  set (ts1 := tset n t2 (tags st)).
  pose proof (grow_inherit (next st) ts1) as GR. fold (all st) in GR.
  apply sinv_tags; [exact HS| | |].
  - eapply inv_urel with (nx := next st) (h := hist st); [|apply closed_inherit|rewrite Hn; lia|exact HI].
    apply urel_intro. eapply Forall2_qrel_grow; [|exact GR].
    apply Forall2_tset; [intros; apply qrel_refl|]. intros k t I E. rewrite (UQ k t I E). subst k.
    unfold qrel, pcond; simpl. split; [reflexivity|split; [split; [congruence|]|]].
    + intros _ id Hid Hu rho. apply (C id Hid Hu).
    + intros _. left. intros id Hid Hu. destruct (C id Hid Hu) as (_ & A & B). auto.
  - eapply sorted_same; [eapply grow_same; exact GR|]. eapply sorted_fst; [apply tset_fst|exact So].
  - eapply ranked_same; [eapply grow_same; exact GR|].
    intros k t I L. destruct (In_tset _ _ _ _ _ I) as [(-> & ->)|(NE & I0)].
    + destruct R as (Rf & Dk). split; [|exact Dk]. intros x Hx. destruct (Rf x Hx) as (Lx & tx & Tx).
      split; [exact Lx|]. exists tx. unfold ts1. rewrite tget_tset_ne; [exact Tx|lia].
    + destruct (Ra k t I0 L) as (Rf & Dk). split; [|exact Dk]. intros x Hx. destruct (Rf x Hx) as (Lx & tx & Tx).
      split; [exact Lx|]. destruct (N.eq_dec x n) as [->|NX].
      * exists t2. apply tget_tset_eq; [exact L2|exists n, ot; split; [exact In_n|reflexivity]].
      * exists tx. unfold ts1. rewrite tget_tset_ne; assumption.
Qed.

(* clearing Uncertain of a tag whose matches are exact (mark tags after add/del) *)
Lemma sinv_clear_exact st n x :
  Sinv st -> tget n (tags st) = Some x ->
  (forall id rho, mem id (t_m x) = truth (hist st) (t_def x) rho id) ->
  Sinv (set_tags st (tset n (mkTag (t_def x) (t_m x) 0 (t_conv x)) (tags st))).
Proof.
  intros HS Tn Hex. pose proof HS as (HI & Hn & So & Ra & Ji & Im).
  destruct (tget_In _ _ _ Tn) as (In_n & Ln).
  assert (forall k t, In (k, t) (tags st) -> k = n -> t = x) as UQ.
  { intros k t I ->. eapply sorted_unique; eassumption. }
  assert (Forall2 same1 (tags st) (tset n (mkTag (t_def x) (t_m x) 0 (t_conv x)) (tags st))) as SM.
  { apply Forall2_tset; [intros; repeat split|]. intros k t I E. rewrite (UQ k t I E). unfold same1; simpl. auto. }
  apply sinv_tags; [exact HS| |eapply sorted_same; eassumption|eapply ranked_same; eassumption].
  apply inv_tset_exact; [|exact Hex|exact HI].
  intros k t I E. rewrite (UQ k t I E). simpl. auto.
Qed.


(* ---------------------------------------------------------------- C06: API calls on tags *)
Definition newset_of (t : tag) (ids : list N) : N :=
  fold_left (fun a s => add1 s a) (filter (fun s => negb (mem s (t_m t))) ids) 0.
Definition oldset_of (t : tag) (ids : list N) : N :=
  fold_left (fun a s => add1 s a) (filter (fun s => mem s (t_m t)) ids) 0.
Definition markadd_def (t : tag) (ids : list N) (did : N) : defn :=
  match filter (fun s => negb (mem s (t_m t))) ids with [] => t_def t | _ => with_def_id (t_def t) did end.

(* environment: a definition handed to AddTag / UpdateTag is well formed; the definition of a mark tag
   denotes exactly its match set, before and after the rewrite done by mark add / del *)
Definition act_ok_api (st : state) (a : action) : Prop :=
  match a with
  | AAddTag n d ids => def_ok d /\ (d_mark d = true -> forall h rho id, truth h d rho id = mem id ids)
  | AQuery n d => def_ok d
  | AMarkAdd n ids did => forall t, tget n (tags st) = Some t ->
      (forall h rho id, truth h (t_def t) rho id = mem id (t_m t)) /\
      (forall h rho id, truth h (markadd_def t ids did) rho id = mem id (union (t_m t) (newset_of t ids)))
  | AMarkDel n ids did => forall t, tget n (tags st) = Some t ->
      (forall h rho id, truth h (t_def t) rho id = mem id (t_m t)) /\
      (forall h rho id, truth h (with_def_id (t_def t) did) rho id = mem id (diff (t_m t) (oldset_of t ids)))
  | _ => True
  end.

Lemma detach_defs st m c k t : In (k, t) (tags (detach st m c)) ->
  exists t0, In (k, t0) (tags st) /\ t_def t0 = t_def t /\ t_live t0 = t_live t.
Proof.
  unfold detach. destruct (tget m (tags st)) as [tm0|] eqn:Tm; [|intros I; exists t; auto].
  assert (In (k, t) (tset m (mkTag (t_def tm0) (t_m tm0) (t_u tm0) (filter (fun x => negb (x =? c)) (t_conv tm0))) (tags st)) ->
          exists t0, In (k, t0) (tags st) /\ t_def t0 = t_def t /\ t_live t0 = t_live t) as HH.
  { intros I. destruct (In_tset _ _ _ _ _ I) as [(-> & ->)|(_ & I0)]; [|exists t; auto].
    destruct (tget_In _ _ _ Tm) as (I0 & L0). exists tm0. simpl. auto. }
  match goal with |- context[if ?b then _ else _] => destruct b end; simpl; exact HH.
Qed.

Lemma fold_detach_defs m l : forall st k t, In (k, t) (tags (fold_left (fun s c => detach s m c) l st)) ->
  exists t0, In (k, t0) (tags st) /\ t_def t0 = t_def t /\ t_live t0 = t_live t.
Proof.
  induction l as [|c l IH]; simpl; intros st k t I; [exists t; auto|].
  destruct (IH _ _ _ I) as (t1 & I1 & D1 & L1). destruct (detach_defs _ _ _ _ _ I1) as (t0 & I0 & D0 & L0).
  exists t0. split; [exact I0|split; congruence].
Qed.

Lemma start_tagging_tags6 p st : tags (start_tagging p st) = tags st.
Proof.
  unfold start_tagging. destruct (jtag st); [reflexivity|].
  destruct (if eligible (tags st) p then Some p else first_eligible (tags st)); [|reflexivity].
  destruct (tget n (tags st)); reflexivity.
Qed.

Lemma after_detach_defs kf0 b st k t : In (k, t) (tags (after_detach kf0 b st)) ->
  exists t0, In (k, t0) (tags st) /\ t_def t0 = t_def t /\ t_live t0 = t_live t.
Proof.
  unfold after_detach. destruct (kf_detachreset kf0); [intros I; exists t; auto|].
  destruct (b && has_data_tag (tags st)); [|intros I; exists t; auto].
  unfold reopen_data. simpl. intros I.
  assert (Forall2 same1 (tags st) (inherit (ones (next st)) (data_tags_uncertain (ones (next st)) (tags st)))) as SM.
  { eapply grow_same. eapply grow_trans; [apply grow_data_tags|apply grow_inherit]. }
  destruct (Forall2_In_r _ _ _ _ SM I) as ([k0 t0] & I0 & (E1 & E2 & E3)). simpl in *. subst k0. exists t0. auto.
Qed.

(* the repaired detach: when the converter was reset and a tag with a data filter exists, every live tag with a data
   filter is undecided for every stream afterwards *)
Lemma after_detach_reopens st n t id :
  has_data_tag (tags st) = true -> In (n, t) (tags (after_detach repaired true st)) ->
  d_data (t_def t) = true -> id < next st -> mem id (t_u t) = true.
Proof.
  intros HD I DD Hid. unfold after_detach in I. simpl in I. rewrite HD in I. unfold reopen_data in I. simpl in I.
  destruct (Forall2_In_r _ _ _ _ (grow_inherit (next st) (data_tags_uncertain (ones (next st)) (tags st))) I)
    as ([k1 t1] & I1 & ((E1 & E2 & E3) & _ & GU)). simpl in *.
  apply GU; [exact Hid|]. unfold data_tags_uncertain in I1. apply in_map_iff in I1.
  destruct I1 as ([k0 t0] & E & I0). simpl in E. inversion E; subst k1 t1; clear E.
  destruct (d_data (t_def t0)) eqn:D0.
  - simpl. rewrite mem_union, (mem_ones id (next st) Hid). apply orb_true_r.
  - exfalso. rewrite <- E2 in DD. congruence.
Qed.

Lemma with_def_id_refs d i : d_refs (with_def_id d i) = d_refs d /\ (def_ok d -> def_ok (with_def_id d i)).
Proof. split; [reflexivity|]. unfold def_ok. simpl. auto. Qed.

Theorem sinv_step_api k p a st :
  act_ok_api st a -> Sinv st ->
  match a with AAddTag _ _ _ | ADelTag _ | AQuery _ _ | AMarkAdd _ _ _ | AMarkDel _ _ _ => Sinv (step k p a st) | _ => True end.
Proof.
  intros Hok H. destruct a; try exact I.
  - (* AAddTag *) simpl. destruct (tget n (tags st)) eqn:Tn; [exact H|].
    destruct (refs_ok n d (tags st)) eqn:RO; [|exact H]. destruct Hok as (Dk & Mk).
    pose proof (ranked_unref st n H Tn) as U. pose proof (refs_ok_spec _ _ _ RO) as RS.
    destruct (d_mark d) eqn:DM.
    + apply sinv_slot; try assumption; simpl.
      * intros _ id _ _ rho. symmetry. apply Mk. reflexivity.
      * intros _. split; assumption.
    + apply sinv_start_tagging. apply sinv_slot; try assumption; simpl.
      * intros _ id Hid Hu. unfold all in Hu. rewrite mem_ones in Hu; [discriminate|exact Hid].
      * intros _. split; assumption.
  - (* ADelTag *) simpl. destruct (tget n (tags st)) as [t|] eqn:Tn; [|exact H].
    destruct (referenced n (tags st)) eqn:RF; [exact H|].
    set (st1 := fold_left (fun s c => detach s n c) (t_conv t) st).
    assert (Sinv st1) as H1 by (apply sinv_fold; [intros; apply sinv_detach; assumption|exact H]).
    apply sinv_tag_again.
    match goal with |- Sinv (set_tags ?s2 _) => set (st2 := s2) end.
    assert (Sinv st2) as H2 by (apply sinv_after_detach; exact H1).
    apply sinv_slot; try assumption.
    + intros k0 t0 I L Hin. destruct (after_detach_defs _ _ _ _ _ I) as (t2 & I2 & D2 & L2).
      destruct (fold_detach_defs _ _ _ _ _ I2) as (t1 & I1 & D1 & L1).
      apply (referenced_false n (tags st) RF k0 t1 I1); [congruence|rewrite D1, D2; exact Hin].
    + simpl. discriminate.
    + simpl. discriminate.
  - (* AQuery *) simpl. destruct (tget n (tags st)) as [t|] eqn:Tn; [|exact H].
    destruct (complex d && _); [exact H|].
    destruct (refs_ok n d (tags st)) eqn:RO; [|exact H].
    apply sinv_start_converter, sinv_start_tagging.
    apply (sinv_replace_inherit st n t); try assumption; simpl; [reflexivity| |].
    + intros id Hid Hu. unfold all in Hu. rewrite mem_ones in Hu; [discriminate|exact Hid].
    + split; [apply refs_ok_spec; exact RO|exact Hok].
  - (* AMarkAdd *) simpl. destruct (tget n (tags st)) as [t|] eqn:Tn; [|exact H]. destruct ids as [|i0 ids]; [exact H|].
    destruct (next st <=? maxl (i0 :: ids)); [exact H|].
    destruct (Hok t Tn) as (Ex0 & Ex1). unfold markadd_def, newset_of in Ex1.
    set (new := filter (fun s => negb (mem s (t_m t))) (i0 :: ids)) in *.
    set (newset := fold_left (fun a s => add1 s a) new 0) in *.
    set (d' := match new with [] => t_def t | _ :: _ => with_def_id (t_def t) did end) in *.
    set (t' := mkTag d' (union (t_m t) newset) (union (t_u t) newset) (t_conv t)).
    set (st1 := queue_matches st (t_conv t) newset).
    assert (Sinv st1) as H1 by (apply (sinv_fields st); [repeat split|exact H]).
    pose proof H as (_ & _ & So & Ra & _).
    destruct (tget_In _ _ _ Tn) as (In_n & Ln). destruct (Ra n t In_n Ln) as (Rf & Dk).
    assert (d_refs d' = d_refs (t_def t) /\ def_ok d') as (RD & DD).
    { unfold d'. destruct new; [split; [reflexivity|exact Dk]|]. destruct (with_def_id_refs (t_def t) did). split; auto. }
    assert (Sinv (set_tags st1 (inherit (all st1) (tset n t' (tags st1))))) as H2.
    { apply (sinv_replace_inherit st1 n t); try assumption; simpl; [reflexivity| |].
      - intros id Hid Hu. rewrite mem_union in Hu. apply orb_false_iff in Hu. destruct Hu as [Hu1 Hu2].
        split; [|split; [exact Hu1|rewrite mem_union, Hu2; apply orb_false_r]].
        intros rho. rewrite Ex1, Ex0, mem_union, Hu2. apply orb_false_r.
      - rewrite RD. split; assumption. }
    apply sinv_start_converter, sinv_start_tagging. change (all st) with (all st1).
    set (ts1 := inherit (all st1) (tset n t' (tags st1))) in *.
    assert (exists x, tget n ts1 = Some x /\ t_def x = d' /\ t_m x = union (t_m t) newset) as (x & Tx & Dx & Mx).
    { assert (tget n (tset n t' (tags st1)) = Some t') as T1 by (apply tget_tset_eq; [reflexivity|exists n, t; split; [exact In_n|reflexivity]]).
      destruct (Forall2_tget (grow1 (next st1)) _ _ n t' (grow_inherit (next st1) (tset n t' (tags st1)))) as (x & Tx & ((_ & A & _) & B & _)); [|exact T1|].
      { intros a b ((A1 & _ & A3) & _). split; assumption. }
      exists x. simpl in A, B. split; [exact Tx|split; congruence]. }
    match goal with |- context[tget n ?T] => replace (tget n T) with (Some x) by (symmetry; exact Tx) end.
    assert (forall id rho, mem id (t_m x) = truth (hist (set_tags st1 ts1)) (t_def x) rho id) as Hex.
    { intros id rho. simpl. rewrite Dx, Mx. symmetry. apply Ex1. }
    exact (sinv_clear_exact (set_tags st1 ts1) n x H2 Tx Hex).
  - (* AMarkDel *) simpl. destruct (tget n (tags st)) as [t|] eqn:Tn; [|exact H]. destruct ids as [|i0 ids]; [exact H|].
    destruct (next st <=? maxl (i0 :: ids)); [exact H|].
    destruct (Hok t Tn) as (Ex0 & Ex1). unfold oldset_of in Ex1.
    set (oldset := fold_left (fun a s => add1 s a) (filter (fun s => mem s (t_m t)) (i0 :: ids)) 0) in *.
    set (d' := with_def_id (t_def t) did) in *.
    set (t' := mkTag d' (diff (t_m t) oldset) (union (t_u t) oldset) (t_conv t)).
    pose proof H as (_ & _ & So & Ra & _).
    destruct (tget_In _ _ _ Tn) as (In_n & Ln). destruct (Ra n t In_n Ln) as (Rf & Dk).
    destruct (with_def_id_refs (t_def t) did) as (RD & DD).
    assert (Sinv (set_tags st (inherit (all st) (tset n t' (tags st))))) as H2.
    { apply (sinv_replace_inherit st n t); try assumption; simpl; [reflexivity| |].
      - intros id Hid Hu. rewrite mem_union in Hu. apply orb_false_iff in Hu. destruct Hu as [Hu1 Hu2].
        split; [|split; [exact Hu1|rewrite mem_diff, Hu2; apply andb_true_r]].
        intros rho. unfold d'. rewrite Ex1, Ex0, mem_diff, Hu2. apply andb_true_r.
      - unfold d'. rewrite RD. split; auto. }
    apply sinv_start_converter, sinv_start_tagging.
    set (ts1 := inherit (all st) (tset n t' (tags st))) in *.
    assert (exists x, tget n ts1 = Some x /\ t_def x = d' /\ t_m x = diff (t_m t) oldset) as (x & Tx & Dx & Mx).
    { assert (tget n (tset n t' (tags st)) = Some t') as T1 by (apply tget_tset_eq; [reflexivity|exists n, t; split; [exact In_n|reflexivity]]).
      destruct (Forall2_tget (grow1 (next st)) _ _ n t' (grow_inherit (next st) (tset n t' (tags st)))) as (x & Tx & ((_ & A & _) & B & _)); [|exact T1|].
      { intros a b ((A1 & _ & A3) & _). split; assumption. }
      exists x. simpl in A, B. split; [exact Tx|split; congruence]. }
    match goal with |- context[tget n ?T] => replace (tget n T) with (Some x) by (symmetry; exact Tx) end.
    assert (forall id rho, mem id (t_m x) = truth (hist (set_tags st ts1)) (t_def x) rho id) as Hex.
    { intros id rho. simpl. rewrite Dx, Mx. symmetry. apply Ex1. }
    exact (sinv_clear_exact (set_tags st ts1) n x H2 Tx Hex).
Qed.


(* ---------------------------------------------------------------- every action, every history *)
Definition act_ok_all (st : state) (a : action) : Prop := act_ok6 st a /\ act_ok_api st a.

Theorem sinv_step k p a st : repaired_c06 k -> act_ok_all st a -> Sinv st -> Sinv (step k p a st).
Proof.
  intros K (O1 & O2) H.
  destruct a; try (apply sinv_step_jobs; [exact K|exact I|exact O1|exact H]);
    apply (sinv_step_api k p _ st O2 H).
Qed.

Fixpoint acts_ok_all (k : kf) (st : state) (l : list (N * action)) : Prop :=
  match l with
  | [] => True
  | (p, a) :: r => act_ok_all st a /\ acts_ok_all k (step k p a st) r
  end.

Lemma sinv_init cs : Sinv (init cs).
Proof.
  split; [|split; [reflexivity|split; [|split; [|split]]]].
  - simpl. repeat split; discriminate.
  - simpl. repeat split; intros k' t' HI; repeat (destruct HI as [HI|HI]; [inversion HI; subst; reflexivity|]); destruct HI.
  - intros n t HI L. simpl in HI. repeat (destruct HI as [HI|HI]; [inversion HI; subst; discriminate|]). destruct HI.
  - intros j Hj. discriminate.
  - intros n r Hj. discriminate.
Qed.

Lemma sinv_run k l : forall st, repaired_c06 k -> acts_ok_all k st l -> Sinv st -> Sinv (run k l st).
Proof.
  unfold run. induction l as [|[p a] l IH]; simpl; intros st K Hok H; [exact H|].
  destruct Hok as [H1 H2]. apply IH; [exact K|exact H2|]. apply sinv_step; assumption.
Qed.

(* what the invariant says about a tag that is looked up *)
Lemma sinv_decided st n t : Sinv st -> tget n (tags st) = Some t ->
  forall id, id < next st -> mem id (t_u t) = false -> mem id (t_m t) = tv (hist st) (tags st) n id.
Proof. intros (HI & _) T id Hid Hu. eapply inv_lookup; eassumption. Qed.

End C06.

(* ================================================================ a concrete environment: the hypotheses are
   satisfiable, and the two historical defects are violations of the invariant on the faithful model *)
Definition wset (i : N) : N := match i with 1 => 1 | 2 => 3 | _ => 0 end.

(* id-only definitions 1 and 2 denote {0} and {0,1}; every definition additionally requires all its main
   references (`tag:x ...`) *)
Definition truth_w (h : list iresp) (d : defn) (rho : N -> N -> bool) (id : N) : bool :=
  (if d_idonly d then mem id (wset (d_id d)) else true) && forallb (fun x => rho x id) (d_main d).

Lemma truth_w_ext : forall h d rho rho' id,
  (forall x, In x (d_main d) -> rho x id = rho' x id) ->
  (forall x, In x (d_subt d) -> forall j, j < hnext h -> rho x j = rho' x j) ->
  truth_w h d rho id = truth_w h d rho' id.
Proof.
  intros h d rho rho' id H _. unfold truth_w. f_equal.
  induction (d_main d) as [|x l IH]; [reflexivity|]. simpl. rewrite (H x (or_introl eq_refl)), IH; [reflexivity|].
  intros; apply H; right; assumption.
Qed.

Lemma truth_w_local : forall r h d rho id,
  d_sub d = false -> mem id (ir_add r) = false ->
  (d_idonly d = true \/ (mem id (ir_rst r) = false /\ (d_datatime d = false \/ mem id (ir_upd r) = false))) ->
  truth_w (r :: h) d rho id = truth_w h d rho id.
Proof. reflexivity. Qed.

Definition bad_decided (st : state) (n id : N) : bool :=
  match tget n (tags st) with
  | Some t => negb (mem id (t_u t)) && negb (Bool.eqb (mem id (t_m t)) (tv truth_w (hist st) (tags st) n id))
  | None => false
  end.

Definition d_markm : defn := mkDef 1 true false false false [] [] true.    (* mark/m = id:0 *)
Definition d_taga : defn := mkDef 3 false false false false [0] [] false.   (* tag/a = mark:m sport:4321 *)
Definition d_ids01 : defn := mkDef 2 true false false false [] [] false.    (* tag/b = id:0,1 *)

(* tag/a is being evaluated (snapshot mark/m = {0}), stream 1 is marked, the job publishes *)
Definition w_lost : list (N * action) :=
  [(3, AImport [0]); (3, ABodyImport (mkIresp 1 0 0 3 2 [3])); (3, AComplete JImport);
   (3, AAddTag 0 d_markm 1); (3, AAddTag 3 d_taga 0); (3, ABodyTag [(3, 1)]);
   (3, AMarkAdd 0 [1] 2); (3, AComplete JTag)].

(* tag/b = id:0,1 is decided while only stream 0 exists; an import adds stream 1 *)
Definition w_idonly : list (N * action) :=
  [(4, AImport [0]); (4, ABodyImport (mkIresp 1 0 0 1 1 [1])); (4, AComplete JImport);
   (4, AAddTag 4 d_ids01 0); (4, ABodyTag [(4, 3)]); (4, AComplete JTag);
   (4, AImport [1]); (4, ABodyImport (mkIresp 1 0 0 2 2 [2])); (4, AComplete JImport)].

(* the two environment hypotheses as predicates on a truth function (used by props/C06.v) *)
Definition env_ext (truth : list iresp -> defn -> (N -> N -> bool) -> N -> bool) : Prop :=
  forall h d rho rho' id,
    (forall x, In x (d_main d) -> rho x id = rho' x id) ->
    (forall x, In x (d_subt d) -> forall j, j < hnext h -> rho x j = rho' x j) ->
    truth h d rho id = truth h d rho' id.

Definition env_local (truth : list iresp -> defn -> (N -> N -> bool) -> N -> bool) : Prop :=
  forall r h d rho id,
    d_sub d = false -> mem id (ir_add r) = false ->
    (d_idonly d = true \/ (mem id (ir_rst r) = false /\ (d_datatime d = false \/ mem id (ir_upd r) = false))) ->
    truth (r :: h) d rho id = truth h d rho id.
