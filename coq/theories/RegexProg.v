(* C18 model: compiled regular-expression programs (rsc.io/binaryregexp/syntax.Prog) and the
   two analyses of /repo/internal/tools/regexAnalysis/regexAnalysis.go.

   The program is the instruction list that syntax.Compile(Simplify(Parse re)) returns; the Go
   harness dumps it, so the model analyses the very program the code analyses.

   Definitions only (computable, total; loops carry fuel and return None when it runs out,
   the theorems show that this does not happen for well-formed programs). *)
From Coq Require Import List NArith Bool Arith.
Import ListNotations.
Local Open Scope N_scope.

(* syntax.InstOp; IBad = any opcode the analyses do not know (they return an error). *)
Inductive iop := IAlt | IAltMatch | ICapture | IEmpty | IMatch | IFail | INop
               | IRune | IRune1 | IRuneAny | IRuneAnyNotNL | IBad.

(* syntax.Inst. [runes] is Inst.Rune verbatim (a singleton = literal, otherwise lo/hi pairs).
   [arg] is Inst.Arg (second target of Alt, capture slot, EmptyOp bits, FoldCase flag = bit 0).
   [orbit] is not a field of the Go struct: for a folding singleton the harness lists the other
   members of the unicode.SimpleFold orbit, so the Unicode tables stay outside the model. *)
Record inst := mkInst { op : iop; out : nat; arg : nat; runes : list N; orbit : list N }.

Record prog := mkProg { insts : list inst; start : nat }.

Definition get (p : prog) (pc : nat) : option inst := nth_error (insts p) pc.
Definition size (p : prog) : nat := length (insts p).

Definition is_rune (o : iop) : bool :=
  match o with IRune | IRune1 | IRuneAny | IRuneAnyNotNL => true | _ => false end.
Definition is_eps (o : iop) : bool :=
  match o with INop | IEmpty | ICapture => true | _ => false end.
Definition is_alt (o : iop) : bool :=
  match o with IAlt | IAltMatch => true | _ => false end.

Definition fold_flag (i : inst) : bool := Nat.odd (arg i).

(* ---------------------------------------------------------------- matching one byte *)
Fixpoint in_pairs (b : N) (rs : list N) : bool :=
  match rs with
  | lo :: hi :: rest => ((lo <=? b) && (b <=? hi)) || in_pairs b rest
  | _ => false
  end.

Fixpoint memN (b : N) (l : list N) : bool :=
  match l with [] => false | x :: r => (b =? x) || memN b r end.

(* Inst.MatchRune on the rune of a byte. *)
Definition match_rune (i : inst) (b : N) : bool :=
  match runes i with
  | [] => false
  | [r0] => (b =? r0) || (fold_flag i && memN b (orbit i))
  | rs => in_pairs b rs
  end.

(* what the matchers (backtrack.go, exec.go, onepass.go) do per opcode *)
Definition inst_matches (i : inst) (b : N) : bool :=
  match op i with
  | IRune => match_rune i b
  | IRune1 => match runes i with r0 :: _ => b =? r0 | [] => false end
  | IRuneAny => true
  | IRuneAnyNotNL => negb (b =? 10)
  | _ => false
  end.

(* ---------------------------------------------------------------- uint arithmetic of the code *)
Definition MAXU : N := 18446744073709551615.          (* math.MaxUint on 64 bit *)
Definition INF : N * N := (MAXU, MAXU).

(* inc: increment unless the value already is math.MaxUint *)
Definition inc (v : N) : N := if v =? MAXU then v else v + 1.

(* add: carry out of a+b detected -> MaxUint, else a+b *)
Definition satadd (a b : N) : N := if MAXU <? a + b then MAXU else a + b.

Definition count (rs : list inst) : N := fold_left (fun v _ => inc v) rs 0.

(* ---------------------------------------------------------------- the linear part of both walks
   `for { i := p.Inst[pos]; switch i.Op { rune...: ...; fallthrough; nop/empty/capture: pos = i.Out; continue ...`
   Returns the rune instructions passed and where the run stops. *)
Inductive lin_end := LAlt (pc o a : nat) | LMatch | LFail.

Fixpoint lin (p : prog) (fuel : nat) (pc : nat) : option (list inst * lin_end) :=
  match fuel with
  | O => None
  | S f =>
    match get p pc with
    | None => None                                   (* index out of range: Go panics *)
    | Some i =>
      match op i with
      | IRune | IRune1 | IRuneAny | IRuneAnyNotNL =>
          match lin p f (out i) with Some (rs, e) => Some (i :: rs, e) | None => None end
      | INop | IEmpty | ICapture => lin p f (out i)
      | IAlt | IAltMatch => Some ([], LAlt pc (out i) (arg i))
      | IMatch => Some ([], LMatch)
      | IFail => Some ([], LFail)
      | IBad => None                                 (* "unsupported regex op" *)
      end
    end
  end.

Definition lin_fuel (p : prog) : nat := S (size p).

Fixpoint mem (a : nat) (l : list nat) : bool :=
  match l with [] => false | x :: r => Nat.eqb a x || mem a r end.

(* ---------------------------------------------------------------- AcceptedLength without the cache *)
Definition combine (k : N) (r1 r2 : N * N) : N * N :=
  (satadd k (N.min (fst r1) (fst r2)), satadd k (N.max (snd r1) (snd r2))).

Fixpoint walk (p : prog) (fa : nat) (pc : nat) (seen : list nat) : option (N * N) :=
  match fa with
  | O => None
  | S fa' =>
    match lin p (lin_fuel p) pc with
    | None => None
    | Some (rs, e) =>
      let k := count rs in
      match e with
      | LMatch => Some (k, k)
      | LFail => Some INF
      | LAlt a o g =>
        if mem a seen then Some INF
        else match walk p fa' o (a :: seen) with
             | None => None
             | Some r1 =>
               match walk p fa' g (a :: seen) with
               | None => None
               | Some r2 => Some (combine k r1 r2)
               end
             end
      end
    end
  end.

Definition alt_fuel (p : prog) : nat := S (S (size p)).
Definition accepted_length (p : prog) : option (N * N) := walk p (alt_fuel p) (start p) [].

(* ---------------------------------------------------------------- AcceptedLength as written (memo table)
   Version after fixes/C18-cache-context.patch: a result is remembered together with the alternations of
   [seen] at which its walk closed a loop, and is reused only where all of them are in [seen] again. *)
Definition cache := list (nat * ((N * N) * list nat)).
Fixpoint lookup {A} (e : nat) (c : list (nat * A)) : option A :=
  match c with [] => None | (k, v) :: r => if Nat.eqb e k then Some v else lookup e r end.
Definition store {A} (e : nat) (v : A) (c : list (nat * A)) : list (nat * A) := (e, v) :: c.

Definition cache_hit (entry : nat) (seen : list nat) (c : cache) : option ((N * N) * list nat) :=
  match lookup entry c with
  | Some (r, ls) => if forallb (fun l => mem l seen) ls then Some (r, ls) else None
  | None => None
  end.

Definition drop (a : nat) (l : list nat) : list nat := filter (fun x => negb (Nat.eqb x a)) l.

Fixpoint walkc (p : prog) (fa : nat) (entry : nat) (seen : list nat) (c : cache)
  : option ((N * N) * list nat * cache) :=
  match cache_hit entry seen c with
  | Some (r, ls) => Some (r, ls, c)
  | None =>
    match fa with
    | O => None
    | S fa' =>
      match lin p (lin_fuel p) entry with
      | None => None
      | Some (rs, e) =>
        let k := count rs in
        match e with
        | LMatch => Some ((k, k), [], store entry ((k, k), []) c)
        | LFail => Some (INF, [], store entry (INF, []) c)
        | LAlt a o g =>
          if mem a seen then Some (INF, [a], store entry (INF, [a]) c)
          else match walkc p fa' o (a :: seen) c with
               | None => None
               | Some (r1, l1, c1) =>
                 match walkc p fa' g (a :: seen) c1 with
                 | None => None
                 | Some (r2, l2, c2) =>
                   let r := combine k r1 r2 in
                   let ls := drop a l1 ++ drop a l2 in
                   Some (r, ls, store entry (r, ls) c2)
                 end
               end
        end
      end
    end
  end.

Definition accepted_length_cached (p : prog) : option (N * N) :=
  match walkc p (alt_fuel p) (start p) [] [] with Some (r, _, _) => Some r | None => None end.

(* The memo table as it was before the fix (pkappa2 up to 913d8a0): keyed by the walk entry alone,
   and a walk that closes a loop stores "infinite" for its entry. Kept for the refutation witness. *)
Definition cache0 := list (nat * (N * N)).
Fixpoint walkc0 (p : prog) (fa : nat) (entry : nat) (seen : list nat) (c : cache0) : option ((N * N) * cache0) :=
  match lookup entry c with
  | Some r => Some (r, c)
  | None =>
    match fa with
    | O => None
    | S fa' =>
      match lin p (lin_fuel p) entry with
      | None => None
      | Some (rs, e) =>
        let k := count rs in
        match e with
        | LMatch => Some ((k, k), store entry (k, k) c)
        | LFail => Some (INF, store entry INF c)
        | LAlt a o g =>
          if mem a seen then Some (INF, store entry INF c)
          else match walkc0 p fa' o (a :: seen) c with
               | None => None
               | Some (r1, c1) =>
                 match walkc0 p fa' g (a :: seen) c1 with
                 | None => None
                 | Some (r2, c2) => let r := combine k r1 r2 in Some (r, store entry r c2)
                 end
               end
        end
      end
    end
  end.

Definition accepted_length_cached_v0 (p : prog) : option (N * N) :=
  match walkc0 p (alt_fuel p) (start p) [] [] with Some (r, _) => Some r | None => None end.

(* ---------------------------------------------------------------- ConstantSuffix *)
(* `len(i.Rune) == 1 && i.Rune[0] <= 0xFF && Flags(i.Arg)&FoldCase == 0` *)
Definition literal_byte (i : inst) : option N :=
  match runes i with
  | [r0] => if (r0 <=? 255) && negb (fold_flag i) then Some r0 else None
  | _ => None
  end.

Definition suf_step (s : list N) (i : inst) : list N :=
  match literal_byte i with Some b => s ++ [b] | None => [] end.

(* longest common suffix, computed on the reversed lists *)
Fixpoint common_prefix (a b : list N) : list N :=
  match a, b with
  | x :: a', y :: b' => if x =? y then x :: common_prefix a' b' else []
  | _, _ => []
  end.
Definition common_suffix (a b : list N) : list N := rev (common_prefix (rev a) (rev b)).

Fixpoint sufwalk (p : prog) (fa : nat) (pc : nat) (seen : list nat) (s : list N) : option (list N) :=
  match fa with
  | O => None
  | S fa' =>
    match lin p (lin_fuel p) pc with
    | None => None
    | Some (rs, e) =>
      let s' := fold_left suf_step rs s in
      match e with
      | LMatch => Some s'
      | LFail => Some []
      | LAlt a o g =>
        if mem a seen then Some []
        else match sufwalk p fa' o (a :: seen) s' with
             | None => None
             | Some s2 =>
               match sufwalk p fa' g (a :: seen) s' with
               | None => None
               | Some s1 => Some (common_suffix s1 s2)
               end
             end
      end
    end
  end.

Definition constant_suffix (p : prog) : option (list N) := sufwalk p (alt_fuel p) (start p) [] [].

(* ConstantSuffix as written after fixes/C18-suffix-budget.patch: the walk counts its calls (`budget--` at the
   entry of evaluate) and gives up, reporting no suffix, when constantSuffixBudget calls are used up. *)
Inductive sres := SOk (s : list N) (b : N) | SBudget | SErr.
Definition SUFFIX_BUDGET : N := 262144.        (* 1 << 18 *)

Fixpoint sufwalkB (p : prog) (fa : nat) (b : N) (pc : nat) (seen : list nat) (s : list N) : sres :=
  if b =? 0 then SBudget
  else
    let b := N.pred b in
    match fa with
    | O => SErr
    | S fa' =>
      match lin p (lin_fuel p) pc with
      | None => SErr
      | Some (rs, e) =>
        let s' := fold_left suf_step rs s in
        match e with
        | LMatch => SOk s' b
        | LFail => SOk [] b
        | LAlt a o g =>
          if mem a seen then SOk [] b
          else match sufwalkB p fa' b o (a :: seen) s' with
               | SOk s2 b2 =>
                 match sufwalkB p fa' b2 g (a :: seen) s' with
                 | SOk s1 b1 => SOk (common_suffix s1 s2) b1
                 | x => x
                 end
               | x => x
               end
        end
      end
    end.

Definition constant_suffix_b (p : prog) : option (list N) :=
  match sufwalkB p (alt_fuel p) SUFFIX_BUDGET (start p) [] [] with
  | SOk s _ => Some s
  | SBudget => Some []
  | SErr => None
  end.

(* ---------------------------------------------------------------- well-formedness (decidable; the driver
   prints it for every real program): every linear run ends within |p| steps (targets in range, known
   opcodes, every cycle passes an Alt), Alt targets are in range, and the specialised opcodes have the
   rune lists syntax.Compile gives them (the suffix walk looks at the list, the matchers at the opcode). *)
Definition inst_ok (p : prog) (i : inst) : bool :=
  match op i with
  | IAlt | IAltMatch => (out i <? size p)%nat && (arg i <? size p)%nat
  | IRune1 => match runes i with [_] => negb (fold_flag i) | [a; b] => a =? b | _ => false end
  | IRuneAny | IRuneAnyNotNL => negb (Nat.eqb (length (runes i)) 1)
  | IBad => false
  | _ => true
  end.

Definition lin_ok (p : prog) (pc : nat) : bool :=
  match lin p (lin_fuel p) pc with Some _ => true | None => false end.

Definition wf (p : prog) : bool :=
  forallb (inst_ok p) (insts p) && forallb (lin_ok p) (seq 0 (size p)) && (start p <? size p)%nat.

(* every rune instruction can consume some byte (decidable): needed for "attained" *)
Fixpoint first_byte (i : inst) (n : nat) : option N :=
  match n with
  | O => None
  | S n' => match first_byte i n' with
            | Some b => Some b
            | None => if inst_matches i (N.of_nat n') then Some (N.of_nat n') else None
            end
  end.
Definition inst_sat (i : inst) : bool :=
  negb (is_rune (op i)) || match first_byte i 256 with Some _ => true | None => false end.
Definition sat (p : prog) : bool := forallb inst_sat (insts p).

Definition assertion_free (p : prog) : bool :=
  forallb (fun i => match op i with IEmpty => false | _ => true end) (insts p).

(* ---------------------------------------------------------------- path semantics *)
(* accA p S pc w: some path from pc to a Match instruction consumes exactly w and does not pass an
   Alt whose pc is in S. Empty-width assertions pass (over-approximation of the matcher; exact for
   assertion-free programs, which the harness validates against the real matcher). *)
Inductive accA (p : prog) (S : list nat) : nat -> list N -> Prop :=
| A_match : forall pc i, get p pc = Some i -> op i = IMatch -> accA p S pc []
| A_rune : forall pc i b w, get p pc = Some i -> is_rune (op i) = true -> inst_matches i b = true ->
                            accA p S (out i) w -> accA p S pc (b :: w)
| A_eps : forall pc i w, get p pc = Some i -> is_eps (op i) = true -> accA p S (out i) w -> accA p S pc w
| A_out : forall pc i w, get p pc = Some i -> is_alt (op i) = true -> ~ In pc S ->
                         accA p S (out i) w -> accA p S pc w
| A_arg : forall pc i w, get p pc = Some i -> is_alt (op i) = true -> ~ In pc S ->
                         accA p S (arg i) w -> accA p S pc w.

Definition accepts (p : prog) (w : list N) : Prop := accA p [] (start p) w.

(* executable acceptor used to validate the path semantics against the real matcher: simulation of the program
   with state sets. [clos] adds everything reachable without consuming a byte (worklist, [visited] = result so far). *)
Fixpoint clos (p : prog) (fuel : nat) (work visited : list nat) : list nat :=
  match fuel with
  | O => visited
  | S f =>
    match work with
    | [] => visited
    | pc :: w =>
      if mem pc visited then clos p f w visited
      else match get p pc with
           | None => clos p f w visited
           | Some i =>
             match op i with
             | IAlt | IAltMatch => clos p f (out i :: arg i :: w) (pc :: visited)
             | INop | IEmpty | ICapture => clos p f (out i :: w) (pc :: visited)
             | _ => clos p f w (pc :: visited)
             end
           end
    end
  end.

Definition clos_fuel (p : prog) (work : list nat) : nat := 4 * size p + length work + 4.

(* the states after consuming b *)
Fixpoint step_states (p : prog) (states : list nat) (b : N) : list nat :=
  match states with
  | [] => []
  | pc :: r =>
    match get p pc with
    | Some i => if is_rune (op i) && inst_matches i b then out i :: step_states p r b else step_states p r b
    | None => step_states p r b
    end
  end.

Fixpoint run_states (p : prog) (states : list nat) (w : list N) : list nat :=
  match w with
  | [] => states
  | b :: w' => let nx := step_states p states b in run_states p (clos p (clos_fuel p nx) nx []) w'
  end.

Definition is_match_pc (p : prog) (pc : nat) : bool :=
  match get p pc with Some i => match op i with IMatch => true | _ => false end | None => false end.

Definition accepts_b (p : prog) (w : list N) : bool :=
  existsb (is_match_pc p) (run_states p (clos p (clos_fuel p [start p]) [start p] []) w).
