(* C01: the undo path of the host-group loop of AddStream, explicitly.
   IndexFormat.place_hosts models "pop() of the client after a failed server add" as continuing with the unchanged group.
   Here the loop is written with the explicit pop of the code (writer.go: `if added { g.pop() }`), this faithful writer
   [add_streams_pop] is what the extracted model runs, and it is proved equal to the writer the theorems speak about:
   a pop removes exactly the host this AddStream call pushed.  Also: the host tables hold exactly the addresses of the
   streams written. *)
From Coq Require Import Lia ZifyBool ZifyN ZifyNat Arith.
From Pk Require Import IndexFormat IndexFormatCodec IndexFormatHosts IndexFormatWriter.
Open Scope N_scope.

(* hostGroup.pop(): drop the last host *)
Definition hg_pop (g : hostgroup) : hostgroup := {| hg_size := hg_size g; hg_hosts := removelast (hg_hosts g) |}.

Section Cap.
  Variable gcap : N.

  Fixpoint place_hosts_pop (gs : list hostgroup) (gid : N) (c s : bytes) : option (list hostgroup * N * N * N) :=
    match gs with
    | [] =>
      match hg_add gcap {| hg_size := 0; hg_hosts := [] |} c with
      | Some (ci, _, g1) =>
        match hg_add gcap g1 s with
        | Some (si, _, g2) => Some ([g2], gid, ci, si)
        | None => None
        end
      | None => None
      end
    | g :: r =>
      match hg_add gcap g c with
      | Some (ci, added, g1) =>
        match hg_add gcap g1 s with
        | Some (si, _, g2) => Some (g2 :: r, gid, ci, si)
        | None =>
          (* the server does not fit: `if added { g.pop() }`, then the next group *)
          let g' := if added then hg_pop g1 else g1 in
          match place_hosts_pop r (N.succ gid) c s with
          | Some (r', k, ci', si') => Some (g' :: r', k, ci', si')
          | None => None
          end
        end
      | None => match place_hosts_pop r (N.succ gid) c s with
                | Some (r', k, ci', si') => Some (g :: r', k, ci', si')
                | None => None
                end
      end
    end.

  (* a pop takes back exactly what the add of this call pushed *)
  Lemma pop_undoes_add g h i g1 : hg_hosts g <> [] -> hg_add gcap g h = Some (i, true, g1) -> hg_pop g1 = g.
  Proof.
    intros Hne H. unfold hg_add in H. destruct (hg_hosts g) as [|x l] eqn:E; [contradiction|].
    destruct (negb (hg_size g =? lenN h)); [discriminate|].
    destruct (find_host h (x :: l) 0); [inversion H|].
    destruct (gcap <=? _); [discriminate|]. inversion H; subst. unfold hg_pop. cbn [hg_size hg_hosts].
    pose proof (removelast_last (x :: l) h) as Hr. cbn [app] in Hr. cbn [app]. rewrite Hr. destruct g; cbn in *; now subst.
  Qed.
  Lemma add_not_added g h i g1 : hg_hosts g <> [] -> hg_add gcap g h = Some (i, false, g1) -> g1 = g.
  Proof.
    intros Hne H. unfold hg_add in H. destruct (hg_hosts g) as [|x l] eqn:E; [contradiction|].
    destruct (negb (hg_size g =? lenN h)); [discriminate|].
    destruct (find_host h (x :: l) 0); [now inversion H|]. destruct (gcap <=? _); [discriminate|]. inversion H.
  Qed.

  Definition nonempty_groups (gs : list hostgroup) : Prop := Forall (fun g => hg_hosts g <> []) gs.

  Lemma place_hosts_pop_eq c s : forall gs gid, nonempty_groups gs -> place_hosts_pop gs gid c s = place_hosts gcap gs gid c s.
  Proof.
    induction gs as [|g r IH]; intros gid Hne; [reflexivity|]. inversion Hne as [|? ? Hg Hr]; subst. cbn [place_hosts_pop place_hosts].
    rewrite (IH (N.succ gid) Hr).
    destruct (hg_add gcap g c) as [[[ci a] g1]|] eqn:E1; [|reflexivity].
    destruct (hg_add gcap g1 s) as [[[si a2] g2]|]; [reflexivity|].
    assert (Hg' : (if a then hg_pop g1 else g1) = g).
    { destruct a; [eapply pop_undoes_add; eauto|eapply add_not_added; eauto]. }
    now rewrite Hg'.
  Qed.

  Lemma place_hosts_nonempty c s : forall gs gid gs' k ci si,
      nonempty_groups gs -> place_hosts gcap gs gid c s = Some (gs', k, ci, si) -> nonempty_groups gs'.
  Proof.
    induction gs as [|g r IH]; intros gid gs' k ci si Hne H; cbn [place_hosts] in H.
    - destruct (hg_add gcap _ c) as [[[ci' a] g1]|]; [|discriminate]. destruct (hg_add gcap g1 s) as [[[si' a2] g2]|] eqn:E2; [|discriminate].
      inversion H; subst. constructor; [eapply hg_add_nonempty; eauto|constructor].
    - inversion Hne as [|? ? Hg Hr]; subst.
      destruct (hg_add gcap g c) as [[[ci' a] g1]|] eqn:E1.
      + destruct (hg_add gcap g1 s) as [[[si' a2] g2]|] eqn:E2.
        * inversion H; subst. constructor; [eapply hg_add_nonempty; eauto|assumption].
        * destruct (place_hosts gcap r (N.succ gid) c s) as [[[[r' k'] ci''] si'']|] eqn:E; [|discriminate].
          inversion H; subst. constructor; [assumption|eapply IH; eauto].
      + destruct (place_hosts gcap r (N.succ gid) c s) as [[[[r' k'] ci''] si'']|] eqn:E; [|discriminate].
        inversion H; subst. constructor; [assumption|eapply IH; eauto].
  Qed.

  (* every host of the new tables was there before or is one of the two addresses *)
  Lemma hg_add_hosts g h i a g1 x : hg_add gcap g h = Some (i, a, g1) -> In x (hg_hosts g1) -> In x (hg_hosts g) \/ x = h.
  Proof.
    intros H Hin. unfold hg_add in H. destruct (hg_hosts g) as [|y l] eqn:E.
    - inversion H; subst. destruct Hin as [<-|[]]. now right.
    - destruct (negb (hg_size g =? lenN h)); [discriminate|].
      destruct (find_host h (y :: l) 0); [inversion H; subst; left; rewrite E in Hin; exact Hin|].
      destruct (gcap <=? _); [discriminate|]. inversion H; subst. cbn [hg_hosts] in Hin.
      change (y :: l ++ [h]) with ((y :: l) ++ [h]) in Hin.
      apply in_app_or in Hin. destruct Hin as [Hin|[<-|[]]]; auto.
  Qed.
  Definition table_hosts (gs : list hostgroup) : list bytes := concat (map hg_hosts gs).
  Lemma place_hosts_hosts c s : forall gs gid gs' k ci si x,
      place_hosts gcap gs gid c s = Some (gs', k, ci, si) -> In x (table_hosts gs') -> In x (table_hosts gs) \/ x = c \/ x = s.
  Proof.
    unfold table_hosts. induction gs as [|g r IH]; intros gid gs' k ci si x H Hin; cbn [place_hosts] in H.
    - destruct (hg_add gcap _ c) as [[[ci' a] g1]|] eqn:E1; [|discriminate]. destruct (hg_add gcap g1 s) as [[[si' a2] g2]|] eqn:E2; [|discriminate].
      inversion H; subst. cbn [map concat] in Hin. rewrite app_nil_r in Hin.
      destruct (hg_add_hosts _ _ _ _ _ _ E2 Hin) as [Hin1| ->]; [|auto]. destruct (hg_add_hosts _ _ _ _ _ _ E1 Hin1) as [[]| ->]. auto.
    - cbn [map concat] in *.
      assert (Hrec : forall r' k' ci' si', place_hosts gcap r (N.succ gid) c s = Some (r', k', ci', si') -> In x (hg_hosts g ++ concat (map hg_hosts r')) ->
                                           In x (hg_hosts g ++ concat (map hg_hosts r)) \/ x = c \/ x = s).
      { intros r' k' ci' si' E Hx. apply in_app_or in Hx. destruct Hx as [Hx|Hx]; [left; apply in_or_app; now left|].
        destruct (IH _ _ _ _ _ _ E Hx) as [A|A]; [left; apply in_or_app; now right|now right]. }
      destruct (hg_add gcap g c) as [[[ci' a] g1]|] eqn:E1.
      + destruct (hg_add gcap g1 s) as [[[si' a2] g2]|] eqn:E2.
        * inversion H; subst. cbn [map concat] in Hin. apply in_app_or in Hin. destruct Hin as [Hin|Hin]; [|left; apply in_or_app; now right].
          destruct (hg_add_hosts _ _ _ _ _ _ E2 Hin) as [Hin1| ->]; [|auto]. destruct (hg_add_hosts _ _ _ _ _ _ E1 Hin1) as [Hin2| ->]; [|auto].
          left. apply in_or_app. now left.
        * destruct (place_hosts gcap r (N.succ gid) c s) as [[[[r' k'] ci''] si'']|] eqn:E; [|discriminate]. inversion H; subst. eapply Hrec; eauto.
      + destruct (place_hosts gcap r (N.succ gid) c s) as [[[[r' k'] ci''] si'']|] eqn:E; [|discriminate]. inversion H; subst. eapply Hrec; eauto.
  Qed.
End Cap.

(* the faithful writer: AddStream with the explicit pop *)
Definition add_stream_pop (gcap : N) (w : writer) (ids : N * istream) : option writer :=
  let '(id, s) := ids in
  match s_packets s with
  | [] => None
  | _ :: _ =>
    let ref := new_ref w (first_ts s / NS) in
    match place_hosts_pop gcap (w_groups w) 0 (s_caddr s) (s_saddr s) with
    | None => None
    | Some (groups, gid, ci, si) =>
      let imps := stream_imports (w_imports w) s in
      match stream_block imps s with
      | [] => None
      | recs =>
        let rec := {| st_id := id; st_first := u64 (first_ts s - ref * NS); st_last := u64 (last_ts s - ref * NS);
                      st_datastart := lenN (w_data w); st_cbytes := lenN (stream_payload s false); st_sbytes := lenN (stream_payload s true);
                      st_pktstart := u32 (lenN (w_packets w)); st_flags := proto_flags (s_flags s);
                      st_hg := gid; st_chost := ci; st_shost := si; st_cport := s_cport s; st_sport := s_sport s |} in
        Some {| w_ref := ref; w_groups := groups; w_imports := imps; w_packets := w_packets w ++ recs;
                w_streams := rebased_streams w (first_ts s / NS) ++ [rec]; w_data := w_data w ++ stream_bytes s |}
      end
    end
  end.
Fixpoint add_streams_pop (gcap : N) (w : writer) (l : list (N * istream)) : option writer :=
  match l with
  | [] => Some w
  | x :: r => match add_stream_pop gcap w x with Some w' => add_streams_pop gcap w' r | None => None end
  end.

Lemma add_stream_pop_eq gcap w x : nonempty_groups (w_groups w) -> add_stream_pop gcap w x = add_stream gcap w x.
Proof. intros H. destruct x as [id s]. unfold add_stream_pop, add_stream. now rewrite place_hosts_pop_eq. Qed.

Lemma add_stream_nonempty gcap w x w' : nonempty_groups (w_groups w) -> add_stream gcap w x = Some w' -> nonempty_groups (w_groups w').
Proof.
  destruct x as [id s]. intros Hne H. destruct (add_stream_inv _ _ _ _ _ H) as (_ & groups & gid & ci & si & Hp & _ & ->). cbn [w_groups].
  eapply place_hosts_nonempty; eauto.
Qed.

(* the writer the extracted model runs is the writer of the theorems, for every input *)
Theorem add_streams_pop_eq gcap : forall L w, nonempty_groups (w_groups w) -> add_streams_pop gcap w L = add_streams gcap w L.
Proof.
  induction L as [|x r IH]; intros w Hne; [reflexivity|]. cbn [add_streams_pop add_streams]. rewrite (add_stream_pop_eq gcap w x Hne).
  destruct (add_stream gcap w x) as [w1|] eqn:E; [|reflexivity]. apply IH. eapply add_stream_nonempty; eauto.
Qed.
Corollary add_streams_pop_new gcap L : add_streams_pop gcap new_writer L = add_streams gcap new_writer L.
Proof. apply add_streams_pop_eq. constructor. Qed.

(* the host tables hold exactly the addresses of the streams written *)
Definition addresses (L : list (N * istream)) : list bytes := flat_map (fun ids => [s_caddr (snd ids); s_saddr (snd ids)]) L.

Lemma add_streams_hosts_sub gcap : forall L w w' x, add_streams gcap w L = Some w' -> In x (table_hosts (w_groups w')) ->
  In x (table_hosts (w_groups w)) \/ In x (addresses L).
Proof.
  induction L as [|[id s] r IH]; intros w w' x H Hin; cbn [add_streams] in H; [inversion H; subst; now left|].
  destruct (add_stream gcap w (id, s)) as [w1|] eqn:E; [|discriminate].
  destruct (IH _ _ _ H Hin) as [Hin1|Hin1]; [|right; cbn [addresses flat_map]; apply in_or_app; now right].
  destruct (add_stream_inv _ _ _ _ _ E) as (_ & groups & gid & ci & si & Hp & _ & ->). cbn [w_groups] in Hin1.
  destruct (place_hosts_hosts gcap _ _ _ _ _ _ _ _ _ Hp Hin1) as [A|[-> | ->]]; [now left| |]; right; cbn [addresses flat_map snd app].
  - now left.
  - right. now left.
Qed.

Theorem host_tables_exact gcap L w :
  16 < gcap -> Forall (fun ids => wf_meta (snd ids)) L -> add_streams gcap new_writer L = Some w ->
  forall x, In x (table_hosts (w_groups w)) <-> In x (addresses L).
Proof.
  intros Hc Hwf Hadd x. split.
  - intros Hin. destruct (add_streams_hosts_sub gcap L new_writer w x Hadd Hin) as [[]|A]. exact A.
  - intros Hin. pose proof (add_streams_winv gcap ltac:(lia) L new_writer [] w (winv_new gcap) Hwf Hadd) as (HF & _). cbn [app] in HF.
    unfold addresses in Hin. apply in_flat_map in Hin. destruct Hin as ([id s] & HinL & Hx). cbn [snd] in Hx.
    apply In_nth_error in HinL. destruct HinL as [k Hk]. destruct (Forall2_nth_r _ _ _ HF _ _ Hk) as (rec & _ & St). cbn [fst snd] in St.
    assert (Hh : forall g i h, host_at (w_groups w) g i = Some h -> In h (table_hosts (w_groups w))).
    { intros g i h H. unfold host_at in H. destruct (nth_error (w_groups w) (N.to_nat g)) as [grp|] eqn:Eg; [|discriminate].
      unfold table_hosts. apply in_concat. exists (hg_hosts grp). split; [apply in_map; eapply nth_error_In; eauto|eapply nth_error_In; eauto]. }
    destruct Hx as [<-|[<-|[]]]; [apply (Hh _ _ _ (sd_chost _ _ _ _ _ St))|apply (Hh _ _ _ (sd_shost _ _ _ _ _ St))].
Qed.
