(* C01: the hypothesis [fits_file (finalize w)] of the byte-image theorem follows from explicit size bounds
   on the written file (the limits at which the Go code refuses) and on the input (ids, ports, packet indexes). *)
From Coq Require Import Lia ZifyBool ZifyN ZifyNat Arith Sorting.Permutation.
From Pk Require Import IndexFormat IndexFormatCodec IndexFormatHosts IndexFormatWriter IndexFormatData IndexFormatPackets IndexFormatScan.
Open Scope N_scope.

(* ------------------------------------------------------------------ *)
(* packet records                                                      *)
(* ------------------------------------------------------------------ *)
Lemma split_sizes_bound : forall fuel ds z, ds <= 65535 * (N.of_nat fuel + 1) -> In z (split_sizes fuel ds) -> z <= 65535.
Proof.
  induction fuel as [|f IH]; intros ds z Hb Hin; cbn [split_sizes] in Hin.
  - destruct Hin as [<-|[]]. lia.
  - destruct (N.leb_spec ds 65535); [destruct Hin as [<-|[]]; lia|].
    destruct Hin as [<-|Hin]; [lia|]. apply (IH (ds - 65535)); [lia|assumption].
Qed.
Lemma split_sizes_fit ds z : In z (split_sizes (N.to_nat (ds / 65535)) ds) -> z < P16.
Proof.
  intros H. apply split_sizes_bound in H; [unfold P16; lia|].
  rewrite N2Nat.id. pose proof (N.div_mod ds 65535 ltac:(lia)). pose proof (N.mod_lt ds 65535 ltac:(lia)). lia.
Qed.

Lemma import_id_lt imps src : has_import imps src -> import_id imps src < lenN imps.
Proof.
  unfold has_import, import_id. intros H. destruct (find_import (fst src) (idx_off (snd src)) imps 0) as [k|] eqn:E; [|contradiction].
  apply find_import_nth in E. destruct E as [_ E]. rewrite N.sub_0_r in E.
  assert (N.to_nat k < length imps)%nat by (apply nth_error_Some; congruence). unfold lenN. lia.
Qed.

Lemma u32_lt x : u32 x < P32.
Proof. unfold u32. apply N.mod_lt. unfold P32. lia. Qed.

Lemma packet_records_fit imps rel d ds : lenN imps <= P32 -> rel < P32 -> forall srcs first,
  (forall src, In src srcs -> has_import imps src) ->
  Forall fits_packet (packet_records imps rel (dir_flag d) ds first srcs).
Proof.
  intros Hi Hr. induction srcs as [|s r IH]; intros first H; cbn [packet_records]; [constructor|].
  apply Forall_app. split; [|apply IH; intros; apply H; now right].
  apply Forall_map. apply Forall_forall. intros z Hz. unfold fits_packet. cbn [pk_rel pk_imp pk_idx pk_size pk_skip pk_flags].
  pose proof (import_id_lt imps s (H s (or_introl eq_refl))). pose proof (u32_lt (snd s)). apply split_sizes_fit in Hz.
  repeat split; try assumption; try lia; unfold P8, flagHasNext, dir_flag, flagDirS2C; destruct d; lia.
Qed.
Lemma stream_records_fit imps t0 dd : lenN imps <= P32 -> forall ps pi, srcs_in imps ps -> Forall fits_packet (stream_records imps t0 dd pi ps).
Proof.
  intros Hi. induction ps as [|p r IH]; intros pi H; cbn [stream_records]; [constructor|]. apply Forall_app. split.
  - apply packet_records_fit; [assumption|apply u32_lt|]. intros src Hs. apply (H p src); [now left|assumption].
  - apply IH. intros q src Hq Hs. apply (H q src); [now right|assumption].
Qed.

Lemma fits_with_skip p k : fits_packet p -> k < P8 -> fits_packet (with_skip p k).
Proof. unfold fits_packet, with_skip. cbn. tauto. Qed.
Lemma fits_terminator p : fits_packet p -> fits_packet (terminator p).
Proof. unfold fits_packet, terminator. cbn. intros (A & B & C & D & E & F). repeat split; try assumption; unfold P8, flagHasNext in *; lia. Qed.
Lemma blockify_fit : forall R, Forall fits_packet R -> Forall fits_packet (blockify R []).
Proof.
  induction R as [|p rest IH]; intros H; [constructor|]. inversion H; subst. destruct rest as [|q r].
  - rewrite blockify_one. constructor; [now apply fits_terminator|constructor].
  - rewrite blockify_cons. constructor; [|now apply IH]. apply fits_with_skip; [assumption|]. unfold P8. lia.
Qed.
Lemma stream_block_fit imps s : lenN imps <= P32 -> srcs_in imps (s_packets s) -> Forall fits_packet (stream_block imps s).
Proof.
  intros Hi Hs. unfold stream_block. rewrite <- (app_nil_r (clear_last_next _)). apply (blockify_fit _ (stream_records_fit imps _ _ Hi _ _ Hs)).
Qed.

Lemma add_streams_imports_mono gcap : forall L w w', add_streams gcap w L = Some w' -> lenN (w_imports w) <= lenN (w_imports w').
Proof.
  induction L as [|[id s] r IH]; intros w w' H; cbn [add_streams] in H; [inversion H; lia|].
  destruct (add_stream gcap w (id, s)) as [w1|] eqn:E; [|discriminate]. specialize (IH _ _ H).
  destruct (add_stream_inv _ _ _ _ _ E) as (_ & groups & gid & ci & si & _ & _ & ->). cbn [w_imports] in IH.
  destruct (stream_imports_ext (w_imports w) s) as [ext Hext]. rewrite Hext, lenN_app in IH. lia.
Qed.
Lemma add_streams_packets_fit gcap : forall L w w', Forall fits_packet (w_packets w) -> add_streams gcap w L = Some w' ->
  lenN (w_imports w') <= P32 -> Forall fits_packet (w_packets w').
Proof.
  induction L as [|[id s] r IH]; intros w w' Hw H Hb; cbn [add_streams] in H; [now inversion H; subst|].
  destruct (add_stream gcap w (id, s)) as [w1|] eqn:E; [|discriminate]. apply (IH w1 w'); [|assumption|assumption].
  pose proof (add_streams_imports_mono gcap _ _ _ H) as Hm.
  destruct (add_stream_inv _ _ _ _ _ E) as (_ & groups & gid & ci & si & _ & _ & ->). cbn [w_packets w_imports] in *.
  apply Forall_app. split; [assumption|]. apply stream_block_fit; [lia|apply stream_imports_has].
Qed.

(* ------------------------------------------------------------------ *)
(* imports, lookups, groups                                            *)
(* ------------------------------------------------------------------ *)
Definition idx_ok (s : istream) : Prop := forall p src, In p (s_packets s) -> In src (p_srcs p) -> snd src < P64.

Lemma add_import_off imps src : Forall (fun i => snd i < P64) imps -> snd src < P64 -> Forall (fun i => snd i < P64) (add_import imps src).
Proof.
  intros H1 H2. unfold add_import. destruct (find_import _ _ imps 0); [assumption|]. apply Forall_app. split; [assumption|].
  constructor; [|constructor]. cbn [snd]. unfold idx_off, P32 in *. pose proof (N.mul_div_le (snd src) 4294967296 ltac:(lia)). lia.
Qed.
Lemma add_streams_offs gcap : forall L w w', Forall (fun i => snd i < P64) (w_imports w) ->
  Forall (fun ids => idx_ok (snd ids)) L -> add_streams gcap w L = Some w' -> Forall (fun i => snd i < P64) (w_imports w').
Proof.
  induction L as [|[id s] r IH]; intros w w' Hw HL H; cbn [add_streams] in H; [now inversion H; subst|].
  destruct (add_stream gcap w (id, s)) as [w1|] eqn:E; [|discriminate]. inversion HL as [|? ? Hs Hr]; subst. cbn [snd] in Hs.
  apply (IH w1 w'); [|assumption|assumption].
  destruct (add_stream_inv _ _ _ _ _ E) as (_ & groups & gid & ci & si & _ & _ & ->). cbn [w_imports]. unfold stream_imports.
  assert (G : forall ps imps, Forall (fun i => snd i < P64) imps -> (forall p src, In p ps -> In src (p_srcs p) -> snd src < P64) ->
                              Forall (fun i => snd i < P64) (fold_left (fun im p => fold_left add_import (p_srcs p) im) ps imps)).
  { induction ps as [|p ps' IHp]; intros imps Hi Hp; cbn [fold_left]; [assumption|]. apply IHp.
    - assert (G2 : forall srcs im, Forall (fun i => snd i < P64) im -> (forall x, In x srcs -> snd x < P64) ->
                                   Forall (fun i => snd i < P64) (fold_left add_import srcs im)).
      { induction srcs as [|x xs IHx]; intros im Him Hx; cbn [fold_left]; [assumption|].
        apply IHx; [apply add_import_off; [assumption|apply Hx; now left]|intros y Hy; apply Hx; now right]. }
      apply G2; [assumption|]. intros x Hx. apply (Hp p x); [now left|assumption].
    - intros q src Hq Hsr. apply (Hp q src); [now right|assumption]. }
  apply G; assumption.
Qed.

Lemma import_section_fit imps : forall seen blob es names,
    (forall n o, In (n, o) seen -> o <= lenN blob) -> import_section imps seen blob = (es, names) ->
    lenN blob <= lenN names /\ Forall (fun e => ie_name e <= lenN names /\ In (ie_off e) (map snd imps)) es.
Proof.
  induction imps as [|[n o] r IH]; intros seen blob es names Hs H; cbn [import_section] in H.
  - inversion H; subst. split; [lia|constructor].
  - destruct (name_offset n seen) as [pos|] eqn:En.
    + destruct (import_section r seen blob) as [es' b'] eqn:E. inversion H; subst; clear H.
      destruct (IH _ _ _ _ Hs E) as [A B]. split; [assumption|]. constructor.
      * cbn [ie_name ie_off map snd]. apply name_offset_in in En. specialize (Hs _ _ En). split; [lia|now left].
      * eapply Forall_impl; [|exact B]. intros e [E1 E2]. split; [assumption|now right].
    + destruct (import_section r ((n, lenN blob) :: seen) (blob ++ n ++ [0])) as [es' b'] eqn:E. inversion H; subst; clear H.
      assert (Hs' : forall n1 o1, In (n1, o1) ((n, lenN blob) :: seen) -> o1 <= lenN (blob ++ n ++ [0])).
      { intros n1 o1 [Heq|Hin']; [inversion Heq; subst; rewrite lenN_app; lia|]. specialize (Hs _ _ Hin'). rewrite lenN_app. lia. }
      destruct (IH _ _ _ _ Hs' E) as [A B].
      rewrite lenN_app in A. split; [lia|]. constructor.
      * cbn [ie_name ie_off map snd]. split; [lia|now left].
      * eapply Forall_impl; [|exact B]. intros e [E1 E2]. split; [assumption|now right].
Qed.

Lemma enumerate_length {A} (l : list A) : forall i, length (enumerate i l) = length l.
Proof. induction l; intros; cbn [enumerate length]; auto. Qed.
Lemma lookup_by_fit key ss : lenN ss <= P32 -> Forall (fun x => x < P32) (lookup_by key ss).
Proof.
  intros Hn. unfold lookup_by. apply Forall_map. apply Forall_forall. intros [k i] Hin. cbn [snd].
  apply (Permutation_in _ (Permutation_sym (KeySort.Permuted_sort _))) in Hin. apply enumerate_in in Hin. destruct Hin as [_ Hin].
  rewrite N.sub_0_r in Hin. assert (N.to_nat i < length (map key ss))%nat by (apply nth_error_Some; congruence).
  rewrite map_length in H. unfold lenN in Hn. lia.
Qed.

Lemma group_entries_fit : forall gs a b, Forall fits_group (group_entries gs a b).
Proof.
  induction gs as [|g r IH]; intros a b; cbn [group_entries]; [constructor|].
  destruct (hg_size g =? 16); (constructor; [|apply IH]); unfold fits_group; cbn [he_start he_count he_flags];
    (split; [apply u32_lt|]); (split; [unfold u16; apply N.mod_lt; unfold P16; lia|unfold P16; lia]).
Qed.

(* ------------------------------------------------------------------ *)
(* the file                                                            *)
(* ------------------------------------------------------------------ *)
Lemma Forall2_in_left {A B} (R : A -> B -> Prop) l1 l2 : Forall2 R l1 l2 -> forall x, In x l1 -> exists y, In y l2 /\ R x y.
Proof.
  induction 1 as [|x y l1 l2 HR HF IH]; intros x0 [].
  - subst. exists y. split; [now left|assumption].
  - destruct (IH _ H) as (y0 & Hy & Hr). exists y0. split; [now right|assumption].
Qed.

Definition input_ok (s : istream) : Prop := s_cport s < P16 /\ s_sport s < P16 /\ idx_ok s.

Theorem finalize_fits gcap L w :
  16 < gcap <= 4 * P16 ->
  Forall (fun ids => wf_meta (snd ids)) L -> Forall (fun ids => fst ids < P64 /\ input_ok (snd ids)) L ->
  add_streams gcap new_writer L = Some w ->
  (* the limits of the format / the refusal branches of the code *)
  lenN (w_imports w) <= P32 -> lenN (w_streams w) <= P32 -> lenN (w_groups w) <= P16 -> w_ref w < P64 ->
  lenN (w_data w) < P64 -> lenN (f_names (finalize w)) < P64 -> lenN (encode_file (finalize w)) < P64 ->
  fits_file (finalize w).
Proof.
  intros Hcap Hwf Hin Hadd Bi Bs Bg Br Bd Bn Bf.
  pose proof (add_streams_winv gcap ltac:(lia) L new_writer [] w (winv_new gcap) Hwf Hadd) as (HF & Hok & Hsz & _). cbn [app] in HF.
  assert (Hpk : Forall fits_packet (w_packets w)) by (apply (add_streams_packets_fit gcap L new_writer w (Forall_nil _) Hadd Bi)).
  assert (Hoff : Forall (fun i => snd i < P64) (w_imports w)).
  { apply (add_streams_offs gcap L new_writer w (Forall_nil _)); [|assumption].
    eapply Forall_impl; [|exact Hin]. intros a (_ & _ & _ & H). exact H. }
  assert (Hst : Forall fits_stream (w_streams w)).
  { apply Forall_forall. intros rec Hrec. destruct (Forall2_in_left _ _ _ HF _ Hrec) as ([id s] & HinL & St). cbn [fst snd] in St.
    rewrite Forall_forall in Hin. destruct (Hin _ HinL) as (Hid & Hcp & Hsp & _). cbn [fst snd] in *.
    destruct (sd_wf _ _ _ _ _ St) as (_ & Ho1 & Ho2).
    pose proof (sd_first _ _ _ _ _ St). pose proof (sd_last _ _ _ _ _ St).
    destruct (sd_data _ _ _ _ _ St) as (dpre & dpost & Hd & Hds). destruct (sd_packets _ _ _ _ _ St) as (pre & post & _ & Hps).
    pose proof (sd_chost _ _ _ _ _ St) as Hc1. pose proof (sd_shost _ _ _ _ _ St) as Hs1. unfold host_at in Hc1, Hs1.
    destruct (nth_error (w_groups w) (N.to_nat (st_hg rec))) as [g|] eqn:Eg; [|discriminate].
    assert (Hgl : (N.to_nat (st_hg rec) < length (w_groups w))%nat) by (apply nth_error_Some; congruence).
    assert (Hgc : count_ok g).
    { rewrite Forall_forall in Hok, Hsz. apply nth_error_In in Eg. apply (group_ok_count gcap g); [lia|apply (Hok _ Eg)|apply (Hsz _ Eg)]. }
    unfold count_ok in Hgc.
    assert ((N.to_nat (st_chost rec) < length (hg_hosts g))%nat) by (apply nth_error_Some; congruence).
    assert ((N.to_nat (st_shost rec) < length (hg_hosts g))%nat) by (apply nth_error_Some; congruence).
    assert (Hlen : lenN (w_data w) = lenN dpre + (lenN (stream_payload s false) + (lenN (stream_payload s true) + lenN (stream_seg s))) + lenN dpost).
    { rewrite Hd. unfold stream_bytes. rewrite !lenN_app. lia. }
    unfold fits_stream. rewrite (sd_id _ _ _ _ _ St), (sd_cport _ _ _ _ _ St), (sd_sport _ _ _ _ _ St), (sd_flags _ _ _ _ _ St),
      (sd_cbytes _ _ _ _ _ St), (sd_sbytes _ _ _ _ _ St), Hds, Hps.
    unfold lenN in *. repeat split; try lia; try apply u32_lt.
    unfold proto_flags, P16. destruct (_ =? 0); lia. }
  unfold finalize in *. destruct (import_section (w_imports w) [] []) as [imps names] eqn:Ei.
  cbn [f_ref f_packets f_streams f_groups f_imports f_by_id f_by_src f_by_ftime f_by_ltime f_names] in *.
  destruct (import_section_fit _ [] [] _ _ (fun n o (H : In (n, o) []) => match H with end) Ei) as [_ Himp].
  unfold fits_file. cbn [f_ref f_packets f_streams f_groups f_imports f_by_id f_by_src f_by_ftime f_by_ltime].
  split; [assumption|]. split; [assumption|]. split; [assumption|]. split; [apply group_entries_fit|].
  split.
  { eapply Forall_impl; [|exact Himp]. intros e [E1 E2]. unfold fits_import. split; [lia|].
    apply in_map_iff in E2. destruct E2 as (i & Ei2 & Hi). rewrite Forall_forall in Hoff. rewrite <- Ei2. now apply Hoff. }
  repeat (split; [now apply lookup_by_fit|]). assumption.
Qed.
