(* C01: the unpatched reader (hostGroupEntry.Start used as a byte offset, reader.go before afb9f18)
   on the model: a witness with a small group capacity.  gcap = 20 lets an IPv4 group hold 5 hosts;
   4 streams with 8 distinct hosts fill group 0 with 4 hosts + ... the 6th host opens group 1, whose
   Start is the host index 4 (writer) but is read as byte offset 4 (old reader). *)
From Pk Require Import IndexFormat.
Open Scope N_scope.

Definition rf_packet (t : N) : ipacket := {| p_ts := t; p_dir := false; p_srcs := [([97], t)] |}.
Definition rf_stream (a b : N) (t : N) : istream :=
  {| s_caddr := [10; 0; 0; a]; s_saddr := [10; 0; 0; b]; s_cport := 1; s_sport := 2; s_flags := 0;
     s_packets := [rf_packet t]; s_data := [] |}.
Definition rf_input : list (N * istream) :=
  [(1, rf_stream 1 2 1000); (2, rf_stream 3 4 2000); (3, rf_stream 5 6 3000); (4, rf_stream 7 8 4000)].

Definition rf_client (start_is_bytes : bool) (id : N) : option bytes :=
  match add_streams 20 new_writer rf_input with
  | Some w => match new_reader_gen start_is_bytes (finalize w) with
              | Some r => match stream_by_id r id with
                          | Some (rec, _) => Some (client_host r rec)
                          | None => None
                          end
              | None => None
              end
  | None => None
  end.

(* patched reader: the address that was written; unpatched reader: group 1 read from byte 4 instead of host 4, so its 3rd host is 10.0.0.4 *)
Lemma rf_patched : rf_client false 4 = Some [10; 0; 0; 7].
Proof. vm_compute. reflexivity. Qed.
Lemma rf_unpatched : rf_client true 4 = Some [10; 0; 0; 4].
Proof. vm_compute. reflexivity. Qed.
