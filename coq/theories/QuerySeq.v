(* QuerySeq.v -- THEN on sequences of plain and negated payload filters:
   l1 then l2 then ... then ln  with  li ::= cdata:x | sdata:x | -cdata:x | -sdata:x  (any converter).
   The normal form built by Conditions.then (with the covered rule of fixes/C03-then-after-negated-filter)
   has the meaning of the text as written, for every payload oracle. *)
From Coq Require Import List NArith ZArith Bool Lia Permutation.
From Pk Require Import Query QuerySort QueryClean QueryFlags QueryHosts QueryOps QuerySet QueryAtoms QueryMain.
Import ListNotations.
Open Scope Z_scope.

Inductive lit := LPos (sub el : N) | LNeg (sub el : N).
Definition lit_expr (l : lit) : expr :=
  match l with
  | LPos s e => EAtom (AData s [e])
  | LNeg s e => ENot (EAtom (AData s [e]))
  end.
Definition lit_el (l : lit) : N := match l with LPos _ e | LNeg _ e => e end.
Definition lit_neg (l : lit) : bool := match l with LPos _ _ => false | LNeg _ _ => true end.
Definition seq_expr (first : lit) (rest : list lit) : expr :=
  fold_left (fun e l => EThen e (lit_expr l)) rest (lit_expr first).

(* ------------------------------------------------------------------ the text as written *)
Section Sem.
  Variable v : valuation.
  Notation nxt := (v_nxt v).

  (* position behind the matched filters so far *)
  Definition pos_of (M : list N) : option N := run_all nxt M (v_start v).
  Definition lit_test (M : list N) (l : lit) : bool :=
    match pos_of M with
    | Some q => xorb (lit_neg l) (is_some (nxt (lit_el l) q))
    | None => false
    end.
  Definition matched_after (M : list N) (l : lit) : list N := if lit_neg l then M else M ++ [lit_el l].

  (* what `run` yields for a sequence whose matched filters are M and which holds iff ok *)
  Definition enc (M : list N) (ok : bool) : option (list N) :=
    if ok then match M with [] => Some [] | _ => match pos_of M with Some q => Some [q] | None => None end end
    else None.

  Lemma pos_of_snoc M el : pos_of (M ++ [el]) = match pos_of M with Some q => nxt el q | None => None end.
  Proof. unfold pos_of. rewrite run_all_app. destruct (run_all nxt M (v_start v)); [|reflexivity]. cbn. destruct (nxt el n); reflexivity. Qed.

  Lemma run_lit l p :
    run v (lit_expr l) 0 p = if xorb (lit_neg l) (is_some (nxt (lit_el l) p))
                             then (if lit_neg l then Some [] else match nxt (lit_el l) p with Some q => Some [q] | None => None end)
                             else None.
  Proof.
    destruct l as [s e|s e]; cbn.
    - destruct (nxt e p); reflexivity.
    - destruct (nxt e p); reflexivity.
  Qed.
  Lemma readings_lit l : readings (lit_expr l) = 1%nat.
  Proof. destruct l; reflexivity. Qed.

  Lemma run_then_lit e l M ok :
    readings e = 1%nat ->
    (ok = true -> M <> [] -> pos_of M <> None) ->
    run v e 0 (v_start v) = enc M ok ->
    run v (EThen e (lit_expr l)) 0 (v_start v) = enc (matched_after M l) (ok && lit_test M l) /\
    readings (EThen e (lit_expr l)) = 1%nat.
  Proof.
    intros Hr Hpos He. split; [|cbn; rewrite Hr, readings_lit; reflexivity].
    cbn [run]. rewrite readings_lit. cbn [Nat.div Nat.modulo Nat.divmod fst snd]. rewrite He.
    unfold enc, lit_test, matched_after. destruct ok; [|reflexivity]. cbn [andb].
    destruct M as [|m M'].
    - (* nothing matched yet: the literal runs from the start *)
      cbn [pos_of run_all]. rewrite run_lit. unfold pos_of. cbn [run_all].
      destruct l as [s e0|s e0]; cbn [lit_neg lit_el xorb app].
      + cbn [pos_of run_all]. destruct (nxt e0 (v_start v)); reflexivity.
      + destruct (nxt e0 (v_start v)); reflexivity.
    - set (M := m :: M') in *. specialize (Hpos eq_refl ltac:(discriminate)).
      destruct (pos_of M) as [q|] eqn:Ep; [|congruence].
      cbn [fold_right]. rewrite run_lit.
      destruct l as [s e0|s e0]; cbn [lit_neg lit_el xorb].
      + rewrite pos_of_snoc, Ep. destruct (nxt e0 q) as [q'|]; cbn; [|reflexivity].
        destruct (M ++ [e0]) eqn:E; [destruct M; discriminate|reflexivity].
      + rewrite Ep. destruct (nxt e0 q); cbn; [reflexivity|]. unfold M. reflexivity.
  Qed.

  (* fold over the literals *)
  Fixpoint seq_state (M : list N) (ok : bool) (rest : list lit) : list N * bool :=
    match rest with
    | [] => (M, ok)
    | l :: r => seq_state (matched_after M l) (ok && lit_test M l) r
    end.

  Lemma lit_test_pos M l : lit_test M l = true -> matched_after M l <> [] -> pos_of (matched_after M l) <> None.
  Proof.
    unfold lit_test, matched_after. destruct (pos_of M) as [q|] eqn:Ep; [|discriminate].
    destruct l as [s e|s e]; cbn [lit_neg lit_el xorb].
    - intros H _. rewrite pos_of_snoc, Ep. destruct (nxt e q); [discriminate|discriminate].
    - intros _ _. congruence.
  Qed.

  Lemma run_seq rest : forall e M ok,
    readings e = 1%nat ->
    (ok = true -> M <> [] -> pos_of M <> None) ->
    run v e 0 (v_start v) = enc M ok ->
    let '(M', ok') := seq_state M ok rest in
    run v (fold_left (fun e l => EThen e (lit_expr l)) rest e) 0 (v_start v) = enc M' ok' /\
    readings (fold_left (fun e l => EThen e (lit_expr l)) rest e) = 1%nat.
  Proof.
    induction rest as [|l r IH]; intros e M ok Hr Hpos He; cbn [seq_state fold_left]; [auto|].
    destruct (run_then_lit e l M ok Hr Hpos He) as [He' Hr'].
    apply IH; auto.
    intros Hok Hne. apply andb_true_iff in Hok as [Hok Ht]. apply lit_test_pos; auto.
  Qed.
End Sem.

(* ------------------------------------------------------------------ the normal form *)
Definition chains (ds : list datac) : conj := map CData ds.

Lemma sel_data_chains ds : sel_data (chains ds) = ds.
Proof. induction ds as [|d ds IH]; cbn; [reflexivity|]. f_equal. exact IH. Qed.
Lemma nodata_chains ds : filter (fun x => negb (is_data x)) (chains ds) = [].
Proof. induction ds as [|d ds IH]; cbn; auto. Qed.

Definition lit_chain (l : lit) : datac := mkData [lit_el l] (lit_neg l).

Lemma norm_lit l : norm (lit_expr l) = Some [chains [lit_chain l]].
Proof. destruct l; reflexivity. Qed.

(* the step of Conditions.then on chains-only conjuncts *)
Definition then_step (ds : list datac) (b : datac) : list datac :=
  flat_map (fun ad =>
              let cont := [mkData (matched ad ++ d_el b) (d_inv b)] in
              if d_inv ad
              then ad :: (if existsb (fun o => proper_prefix (matched ad) (matched o)) ds then [] else cont)
              else cont) ds.

Lemma map_flat_map' {A B C} (g : B -> C) (f : A -> list B) l : map g (flat_map f l) = flat_map (fun x => map g (f x)) l.
Proof. induction l as [|x l IH]; cbn; [reflexivity|]. rewrite map_app, IH. reflexivity. Qed.

Lemma then_flat (all : list datac) b ds :
  flat_map (fun ad =>
              let cont := map (fun bd => CData (mkData (matched ad ++ d_el bd) (d_inv bd))) [b] in
              if d_inv ad
              then CData ad :: (if existsb (fun o => proper_prefix (matched ad) (matched o)) all then [] else cont)
              else cont) ds =
  map CData (flat_map (fun ad =>
              let cont := [mkData (matched ad ++ d_el b) (d_inv b)] in
              if d_inv ad
              then ad :: (if existsb (fun o => proper_prefix (matched ad) (matched o)) all then [] else cont)
              else cont) ds).
Proof.
  rewrite map_flat_map'. apply flat_map_ext. intros ad.
  destruct (d_inv ad); cbn; [destruct (existsb _ all); reflexivity|reflexivity].
Qed.

Lemma conj_then_chains ds b : ds <> [] -> conj_then (chains ds) (chains [b]) = chains (then_step ds b).
Proof.
  intros Hne. unfold conj_then. rewrite !sel_data_chains, !nodata_chains. cbn [app].
  destruct ds as [|d0 ds']; [congruence|]. unfold then_step, chains. apply then_flat.
Qed.

(* invariant: M = the matched filters so far *)
Record seq_inv (ds : list datac) (M : list N) : Prop := {
  si_prefix : forall d, In d ds -> is_prefix (matched d) M = true;
  si_full : exists d, In d ds /\ matched d = M;
  si_pos : forall d, In d ds -> d_inv d = false -> d_el d = M;
  si_ne : forall d, In d ds -> d_el d <> []
}.

Lemma is_prefix_refl l : is_prefix l l = true.
Proof. induction l; cbn; auto. rewrite N.eqb_refl. auto. Qed.
Lemma is_prefix_app_r a b : is_prefix a (a ++ b) = true.
Proof. induction a; cbn; auto. rewrite N.eqb_refl. auto. Qed.
Lemma is_prefix_trans a b c : is_prefix a b = true -> is_prefix b c = true -> is_prefix a c = true.
Proof.
  revert b c; induction a as [|x a IH]; intros [|y b] [|z c] H1 H2; cbn in *; try discriminate; auto.
  apply andb_true_iff in H1 as [E1 H1]. apply andb_true_iff in H2 as [E2 H2].
  apply N.eqb_eq in E1, E2. subst. rewrite N.eqb_refl. cbn. eauto.
Qed.
Lemma is_prefix_length a b : is_prefix a b = true -> (length a <= length b)%nat.
Proof. revert b; induction a as [|x a IH]; intros [|y b] H; cbn in *; try discriminate; try lia. apply andb_true_iff in H as [_ H]. specialize (IH _ H). lia. Qed.
Lemma is_prefix_same_length a b : is_prefix a b = true -> length a = length b -> a = b.
Proof.
  revert b; induction a as [|x a IH]; intros [|y b] H L; cbn in *; try discriminate; auto.
  apply andb_true_iff in H as [E H]. apply N.eqb_eq in E. subst. f_equal. apply IH; auto.
Qed.
Lemma removelast_snoc {A} (l : list A) x : removelast (l ++ [x]) = l.
Proof. apply removelast_last. Qed.

Lemma covered_iff ds M ad : seq_inv ds M -> In ad ds ->
  existsb (fun o => proper_prefix (matched ad) (matched o)) ds = negb (list_eqb N.eqb (matched ad) M).
Proof.
  intros I Hin. pose proof (si_prefix _ _ I ad Hin) as Hp.
  destruct (list_eqb N.eqb (matched ad) M) eqn:E; cbn [negb].
  - apply Nl_eqb_eq in E.
    destruct (existsb _ ds) eqn:Ex; [|reflexivity]. apply existsb_exists in Ex as (o & Ho & Hpp).
    unfold proper_prefix in Hpp. apply andb_true_iff in Hpp as [Hl _]. apply Nat.ltb_lt in Hl.
    pose proof (is_prefix_length _ _ (si_prefix _ _ I o Ho)). rewrite E in Hl. lia.
  - destruct (si_full _ _ I) as (o & Ho & Hm). apply existsb_exists. exists o. split; [exact Ho|].
    unfold proper_prefix. rewrite Hm, Hp, andb_true_r. apply Nat.ltb_lt.
    pose proof (is_prefix_length _ _ Hp) as Hle.
    destruct (Nat.eq_dec (length (matched ad)) (length M)) as [El|]; [|lia].
    rewrite (is_prefix_same_length _ _ Hp El) in E. rewrite (list_eqb_refl N.eqb N.eqb_refl) in E. discriminate.
Qed.

Lemma then_step_inv ds M l : seq_inv ds M -> seq_inv (then_step ds (lit_chain l)) (matched_after M l).
Proof.
  intros I. set (b := lit_chain l).
  assert (Hin : forall d', In d' (then_step ds b) ->
                (exists ad, In ad ds /\ d_inv ad = true /\ d' = ad) \/
                (exists ad, In ad ds /\ matched ad = M /\ d' = mkData (M ++ [lit_el l]) (lit_neg l))).
  { intros d' H. unfold then_step in H. apply in_flat_map in H as (ad & Ha & H).
    destruct (d_inv ad) eqn:Ei.
    - destruct H as [<-|H]; [left; eauto|]. rewrite (covered_iff ds M ad I Ha) in H.
      destruct (list_eqb N.eqb (matched ad) M) eqn:E; cbn in H; [|contradiction].
      apply Nl_eqb_eq in E. destruct H as [<-|[]]. right. exists ad. rewrite E. auto.
    - destruct H as [<-|[]]. right. exists ad. unfold matched. rewrite Ei.
      rewrite (si_pos _ _ I ad Ha Ei). auto. }
  assert (Hcont : exists ad, In ad ds /\ matched ad = M /\ In (mkData (M ++ [lit_el l]) (lit_neg l)) (then_step ds b)).
  { destruct (si_full _ _ I) as (ad & Ha & Hm). exists ad. split; [auto|split; [auto|]].
    unfold then_step. apply in_flat_map. exists ad. split; [auto|].
    destruct (d_inv ad) eqn:Ei.
    - right. rewrite (covered_iff ds M ad I Ha), Hm, (list_eqb_refl N.eqb N.eqb_refl). cbn. left. rewrite <- Hm. reflexivity.
    - left. unfold matched in *. rewrite Ei in *. rewrite Hm. reflexivity. }
  unfold matched_after. constructor.
  - intros d' H. destruct (Hin d' H) as [(ad & Ha & Ei & ->)|(ad & Ha & Hm & ->)].
    + pose proof (si_prefix _ _ I ad Ha) as Hp. destruct (lit_neg l); [auto|].
      eapply is_prefix_trans; [exact Hp|apply is_prefix_app_r].
    + unfold matched. cbn [d_inv d_el]. destruct (lit_neg l); [rewrite removelast_snoc; apply is_prefix_refl|apply is_prefix_refl].
  - destruct Hcont as (ad & Ha & Hm & Hc). exists (mkData (M ++ [lit_el l]) (lit_neg l)). split; [auto|].
    unfold matched. cbn [d_inv d_el]. destruct (lit_neg l); [apply removelast_snoc|reflexivity].
  - intros d' H Hi. destruct (Hin d' H) as [(ad & Ha & Ei & ->)|(ad & Ha & Hm & ->)]; [congruence|].
    cbn [d_inv d_el] in *. rewrite Hi. reflexivity.
  - intros d' H. destruct (Hin d' H) as [(ad & Ha & Ei & ->)|(ad & Ha & Hm & ->)]; [eapply si_ne; eauto|].
    cbn. destruct M; discriminate.
Qed.

Lemma eval_chains v ds : eval_conj v (chains ds) = forallb (eval_data v) ds.
Proof. unfold chains. apply eval_conj_map. reflexivity. Qed.

Lemma eval_matched_runs v d : d_el d <> [] -> eval_data v d = true -> pos_of v (matched d) <> None.
Proof.
  unfold eval_data, pos_of, matched. intros Hne H. destruct (d_el d) as [|x els] using rev_ind; [congruence|]. clear IHels.
  rewrite eval_chain_split in H. destruct (d_inv d).
  - rewrite removelast_snoc. destruct (run_all _ els (v_start v)); [discriminate|discriminate].
  - rewrite run_all_app. destruct (run_all _ els (v_start v)); [|discriminate]. cbn. destruct (v_nxt v x n); [discriminate|discriminate].
Qed.

Lemma eval_cont v M l :
  eval_data v (mkData (M ++ [lit_el l]) (lit_neg l)) = lit_test v M l.
Proof.
  unfold eval_data, lit_test, pos_of. cbn [d_el d_inv]. rewrite eval_chain_split.
  destruct (run_all _ M (v_start v)); [|reflexivity]. destruct (lit_neg l), (is_some _); reflexivity.
Qed.

Lemma then_step_eval v ds M l : seq_inv ds M ->
  forallb (eval_data v) (then_step ds (lit_chain l)) = forallb (eval_data v) ds && lit_test v M l.
Proof.
  intros I. apply bool_eq_iff. rewrite andb_true_iff, !forallb_forall. split.
  - intros H. assert (Ht : lit_test v M l = true).
    { destruct (si_full _ _ I) as (ad & Ha & Hm). rewrite <- eval_cont. apply H.
      unfold then_step. apply in_flat_map. exists ad. split; [auto|]. destruct (d_inv ad) eqn:Ei.
      - right. rewrite (covered_iff ds M ad I Ha), Hm, (list_eqb_refl N.eqb N.eqb_refl). cbn. left. rewrite <- Hm. reflexivity.
      - left. unfold matched in *. rewrite Ei in *. rewrite Hm. reflexivity. }
    split; [|exact Ht]. intros ad Ha. destruct (d_inv ad) eqn:Ei.
    + apply H. unfold then_step. apply in_flat_map. exists ad. split; [auto|]. rewrite Ei. left. reflexivity.
    + (* a matched sequence = M: implied by the test having a position *)
      unfold eval_data. rewrite Ei, eval_chain_pos, (si_pos _ _ I ad Ha Ei).
      unfold lit_test, pos_of in Ht. destruct (run_all (v_nxt v) M (v_start v)); [reflexivity|discriminate].
  - intros [H Ht] d' Hd'. unfold then_step in Hd'. apply in_flat_map in Hd' as (ad & Ha & Hd').
    assert (Hc : In d' [mkData (matched ad ++ [lit_el l]) (lit_neg l)] -> matched ad = M -> eval_data v d' = true).
    { intros [<-|[]] Hm. rewrite Hm, eval_cont. exact Ht. }
    destruct (d_inv ad) eqn:Ei.
    + destruct Hd' as [<-|Hd']; [apply H; auto|]. rewrite (covered_iff ds M ad I Ha) in Hd'.
      destruct (list_eqb N.eqb (matched ad) M) eqn:E; cbn in Hd'; [|contradiction].
      apply Nl_eqb_eq in E. apply Hc; auto.
    + apply Hc; auto. unfold matched. rewrite Ei. apply (si_pos _ _ I ad Ha Ei).
Qed.

(* norm of the fold *)
Lemma norm_seq v rest : forall e ds M ok,
  norm e = Some [chains ds] -> seq_inv ds M -> forallb (eval_data v) ds = ok ->
  let '(M', ok') := seq_state v M ok rest in
  exists ds', norm (fold_left (fun e l => EThen e (lit_expr l)) rest e) = Some [chains ds'] /\
              seq_inv ds' M' /\ forallb (eval_data v) ds' = ok'.
Proof.
  induction rest as [|l r IH]; intros e ds M ok Hn I He; cbn [seq_state fold_left]; [eauto|].
  apply (IH (EThen e (lit_expr l)) (then_step ds (lit_chain l))).
  - cbn [norm]. rewrite Hn, norm_lit. cbn [cs_then flat_map map app]. rewrite conj_then_chains; [reflexivity|].
    destruct (si_full _ _ I) as (d & Hd & _). destruct ds; [contradiction|discriminate].
  - apply then_step_inv; auto.
  - rewrite (then_step_eval v ds M l I). rewrite He. reflexivity.
Qed.

Lemma seq_inv_init l : seq_inv [lit_chain l] (matched_after [] l).
Proof.
  unfold matched_after, lit_chain. constructor.
  - intros d [<-|[]]. unfold matched. cbn. destruct (lit_neg l); cbn; [reflexivity|rewrite N.eqb_refl; reflexivity].
  - exists (mkData [lit_el l] (lit_neg l)). split; [left; reflexivity|]. unfold matched. cbn. destruct (lit_neg l); reflexivity.
  - intros d [<-|[]] Hi. cbn in *. rewrite Hi. reflexivity.
  - intros d [<-|[]]. cbn. discriminate.
Qed.

(* query.Parse on a set that norm delivered *)
Lemma parse_final_sound v e cs :
  val_ok v -> ids_ok v -> norm e = Some cs -> cs <> [] -> cset_wf cs ->
  eval_set v (parse_conditions e) = eval_set v cs.
Proof.
  intros ok iok Hn N W. unfold parse_conditions. rewrite Hn.
  pose proof (set_clean_sound v ok iok cs W) as Hc.
  pose proof (set_clean_nonempty cs N) as Hne.
  destruct (set_impossible (set_clean cs)) eqn:Ei.
  - rewrite <- Hc. destruct (set_clean cs) as [|c [|c2 r]]; try discriminate. cbn in Ei.
    cbn. rewrite (conj_impossible_eval v c Ei). reflexivity.
  - destruct (set_clean cs); [congruence|exact Hc].
Qed.

Theorem sequences_preserve_meaning v first rest :
  val_ok v -> ids_ok v ->
  eval_set v (parse_conditions (seq_expr first rest)) = sem v (seq_expr first rest).
Proof.
  intros ok iok. unfold seq_expr.
  set (M0 := matched_after [] first). set (ok0 := lit_test v [] first).
  (* the text as written *)
  assert (Hrun0 : run v (lit_expr first) 0 (v_start v) = enc v M0 ok0).
  { rewrite run_lit. unfold enc, M0, ok0, lit_test, matched_after, pos_of. cbn [run_all].
    destruct first as [s e|s e]; cbn [lit_neg lit_el xorb app run_all]; destruct (v_nxt v e (v_start v)); reflexivity. }
  assert (Hpos0 : ok0 = true -> M0 <> [] -> pos_of v M0 <> None) by (apply lit_test_pos).
  pose proof (run_seq v rest (lit_expr first) M0 ok0 (readings_lit first) Hpos0 Hrun0) as Hsem.
  (* the normal form *)
  assert (He0 : forallb (eval_data v) [lit_chain first] = ok0).
  { cbn [forallb]. rewrite andb_true_r. unfold lit_chain, ok0. rewrite <- (eval_cont v [] first). reflexivity. }
  pose proof (norm_seq v rest (lit_expr first) [lit_chain first] M0 ok0 (norm_lit first) (seq_inv_init first) He0) as Hnorm.
  destruct (seq_state v M0 ok0 rest) as [M' ok'].
  destruct Hsem as [Hrun Hread]. destruct Hnorm as (ds' & Hn & I' & He').
  assert (Hwf : cset_wf [chains ds']).
  { constructor; [|constructor]. unfold chains, conj_wf. apply Forall_map. apply Forall_forall. intros d Hd. cbn. apply (si_ne _ _ I' d Hd). }
  rewrite (parse_final_sound v _ [chains ds'] ok iok Hn ltac:(discriminate) Hwf).
  unfold eval_set. cbn [existsb]. rewrite orb_false_r, eval_chains, He'.
  (* sem *)
  assert (Hstrip : forall r e, strip e = Some e -> strip (fold_left (fun e l => EThen e (lit_expr l)) r e) = Some (fold_left (fun e l => EThen e (lit_expr l)) r e)).
  { induction r as [|l r IHr]; intros e He; cbn [fold_left]; [exact He|]. apply IHr. cbn [strip]. rewrite He.
    destruct l; reflexivity. }
  unfold sem. rewrite Hstrip by (destruct first; reflexivity).
  unfold holds, seqn. rewrite Hread. cbn [seq existsb]. rewrite orb_false_r, Hrun.
  unfold enc. destruct ok'; [|reflexivity]. destruct M' as [|m M'']; [reflexivity|].
  destruct (pos_of v (m :: M'')) eqn:Ep; [reflexivity|].
  (* ok' = true implies the matched filters have a position *)
  exfalso. destruct (si_full _ _ I') as (d & Hd & Hm). rewrite forallb_forall in He'.
  apply (eval_matched_runs v d (si_ne _ _ I' d Hd) (He' d Hd)). rewrite Hm. exact Ep.
Qed.
