(* Proofs about pkappa2's UDP assembler (model: Udp.v) -- C05 theorem (2).

   Proved here: for the packets of ONE flow (any hash function, any timestamps) the assembler produces
   exactly [flow_runs]: a new stream for the first packet and after every gap above the timeout, client =
   sender of the first packet of the run, every datagram appended in order with the direction decided by
   who sent it, the previous stream marked complete when the gap is seen.
   NOT proved (only checked by the correspondence runs and the examples below): that other flows
   interleaved in the same feed, sharing the hash bucket or not, do not disturb this -- hence the
   theorem's name ends in _partial in props/C05.v. *)
From Pk Require Import Udp.
From Coq Require Import Lia.
From Coq Require Import ZifyBool ZifyN ZifyNat.

Lemma ep_eqb_eq a b : ep_eqb a b = true <-> a = b.
Proof.
  destruct a, b. unfold ep_eqb. simpl. rewrite Bool.andb_true_iff, !N.eqb_eq.
  split; [intros [-> ->]; auto|intros H; inversion H; auto].
Qed.

Lemma ep_eqb_refl a : ep_eqb a a = true.
Proof. apply ep_eqb_eq. reflexivity. Qed.

Lemma ep_eqb_neq a b : a <> b -> ep_eqb a b = false.
Proof. intros H. destruct (ep_eqb a b) eqn:E; auto. apply ep_eqb_eq in E. contradiction. Qed.

Lemma upd_nth_last {A} (l : list A) x f : upd_nth (l ++ [x]) (length l) f = l ++ [f x].
Proof. induction l; simpl; auto. f_equal. auto. Qed.

Lemma nth_error_last {A} (l : list A) x : nth_error (l ++ [x]) (length l) = Some x.
Proof. induction l; simpl; auto. Qed.

Lemma add_udp_client s r d b : s_client (add_udp_packet s r d b) = s_client s /\ s_server (add_udp_packet s r d b) = s_server s.
Proof.
  unfold add_udp_packet, add_data. destruct b as [|x b']; [simpl; auto|].
  destruct (find_back (s_pkts (add_packet s r d)) (s_npk (add_packet s r d)) r); simpl; auto.
Qed.

(* the direction decision: a stream of the flow is recognised in both directions, nothing else is *)
Lemma find_conn_own fac c s src dst :
  nth_error fac (uc_sid c) = Some s ->
  ((s_client s = src /\ s_server s = dst) \/ (s_client s = dst /\ s_server s = src)) -> src <> dst ->
  find_conn fac [c] 0 src dst = Some (0%nat, uc_sid c, ep_eqb (s_server s) src).
Proof.
  intros Hn Hcase Hne. simpl. rewrite Hn.
  destruct Hcase as [[Hc Hs]|[Hc Hs]]; rewrite Hc, Hs, !ep_eqb_refl.
  - rewrite (ep_eqb_neq dst src), (ep_eqb_neq src dst) by congruence. simpl. reflexivity.
  - rewrite (ep_eqb_neq dst src), (ep_eqb_neq src dst) by congruence. simpl. reflexivity.
Qed.

Lemma find_conn_foreign fac c s src dst :
  nth_error fac (uc_sid c) = Some s ->
  ~ ((s_client s = src /\ s_server s = dst) \/ (s_client s = dst /\ s_server s = src)) ->
  find_conn fac [c] 0 src dst = None.
Proof.
  intros Hn Hcase. simpl. rewrite Hn.
  destruct (ep_eqb (s_client s) src) eqn:E1, (ep_eqb (s_server s) dst) eqn:E2,
           (ep_eqb (s_client s) dst) eqn:E3, (ep_eqb (s_server s) src) eqn:E4; simpl; auto;
    exfalso; apply Hcase; rewrite ?ep_eqb_eq in *; auto.
Qed.

Section OneFlow.
  Variable hashf : N -> N.
  Variables a b : endpoint.
  Hypothesis a_neq_b : a <> b.

  Definition of_flow (p : packet) : Prop := (p_src p = a /\ p_dst p = b) \/ (p_src p = b /\ p_dst p = a).
  Definition stream_of_flow (s : stream) : Prop := (s_client s = a /\ s_server s = b) \/ (s_client s = b /\ s_server s = a).

  Lemma hash_sym p : of_flow p ->
    udp_hash hashf p = N.lxor (N.lxor (hashf (fst a)) (hashf (fst b))) (N.lxor (snd a) (snd b)).
  Proof.
    unfold udp_hash. intros [[-> ->]|[-> ->]]; auto.
    rewrite (N.lxor_comm (hashf (fst b))), (N.lxor_comm (snd b)). reflexivity.
  Qed.

  Let h := N.lxor (N.lxor (hashf (fst a)) (hashf (fst b))) (N.lxor (snd a) (snd b)).

  Lemma new_stream_of_flow p r d bts : of_flow p -> stream_of_flow (add_udp_packet (new_stream false (p_src p) (p_dst p)) r d bts).
  Proof.
    intros Hp. unfold stream_of_flow. destruct (add_udp_client (new_stream false (p_src p) (p_dst p)) r d bts) as [-> ->].
    simpl. exact Hp.
  Qed.

  Lemma run_from_open : forall l closed s last,
    Forall of_flow l -> stream_of_flow s ->
    fst (fold_left (udp_step hashf) l (closed ++ [s], [(h, [mkUconn last (length closed)])])) =
    closed ++ flow_runs (Some (s, last)) l.
  Proof.
    induction l as [|p l IH]; intros closed s last Hl Hs; simpl fold_left.
    - reflexivity.
    - inversion Hl as [|? ? Hp Hl']; subst.
      unfold udp_step at 2. cbn [fst snd udp_flush flush_bucket uc_last uc_sid].
      cbn [flow_runs].
      destruct (expired (p_ts p) last) eqn:Eexp.
      + (* gap above the timeout: the old stream is completed, a new one starts *)
        rewrite upd_nth_last. cbn [udp_flush].
        unfold udp_assemble. rewrite (hash_sym p Hp). fold h. cbn [bucket_get find_conn bucket_set app].
        change (closed ++ [set_complete s]) with (closed ++ [set_complete s]).
        replace (length (closed ++ [set_complete s])) with (length (closed ++ [set_complete s])) by reflexivity.
        rewrite <- app_assoc. cbn [app].
        replace (closed ++ [set_complete s; add_udp_packet (new_stream false (p_src p) (p_dst p)) (pref_of p) false (p_data p)])
          with ((closed ++ [set_complete s]) ++ [add_udp_packet (new_stream false (p_src p) (p_dst p)) (pref_of p) false (p_data p)])
          by (rewrite <- app_assoc; reflexivity).
        rewrite IH; auto.
        * rewrite <- app_assoc. reflexivity.
        * apply new_stream_of_flow; auto.
      + (* same stream *)
        unfold udp_assemble. rewrite (hash_sym p Hp). fold h. cbn [bucket_get]. rewrite N.eqb_refl.
        assert (Hfc : find_conn (closed ++ [s]) [mkUconn last (length closed)] 0 (p_src p) (p_dst p) =
                      Some (0%nat, length closed, ep_eqb (s_server s) (p_src p))).
        { apply (find_conn_own (closed ++ [s]) (mkUconn last (length closed)) s).
          - simpl. apply nth_error_last.
          - destruct Hs as [[? ?]|[? ?]], Hp as [[? ?]|[? ?]]; [left|right|right|left]; split; congruence.
          - destruct Hp as [[-> ->]|[-> ->]]; congruence. }
        rewrite Hfc. rewrite upd_nth_last. cbn [bucket_set upd_nth uc_sid]. rewrite N.eqb_refl.
        rewrite IH; auto.
        unfold stream_of_flow. destruct (add_udp_client s (pref_of p) (ep_eqb (s_server s) (p_src p)) (p_data p)) as [-> ->]. exact Hs.
  Qed.

  (* C05 theorem (2), one flow alone *)
  Theorem one_flow_streams : forall l, Forall of_flow l -> fst (udp_run hashf l) = flow_runs None l.
  Proof.
    intros [|p l] Hl; [reflexivity|].
    inversion Hl as [|? ? Hp Hl']; subst.
    unfold udp_run. simpl fold_left. unfold udp_step at 2. cbn [fst snd udp_flush].
    unfold udp_assemble. cbn [bucket_get find_conn bucket_set app length].
    rewrite (hash_sym p Hp). fold h.
    pose proof (run_from_open l [] (add_udp_packet (new_stream false (p_src p) (p_dst p)) (pref_of p) false (p_data p))
                  (p_ts p) Hl' (new_stream_of_flow p _ _ _ Hp)) as R.
    cbn [app length] in R. exact R.
  Qed.
End OneFlow.

(* ---- what [flow_runs] says, as facts: the spec function is itself simple enough to read, these
   corollaries connect it to the wording of the property ---- *)
Lemma flow_runs_first_client : forall p l s rest,
  flow_runs None (p :: l) = s :: rest -> s_client s = p_src p /\ s_server s = p_dst p.
Proof.
  intros p l. simpl.
  assert (G : forall l s0 last s rest, flow_runs (Some (s0, last)) l = s :: rest -> s_client s = s_client s0 /\ s_server s = s_server s0).
  { induction l0 as [|q l0 IH]; intros s0 last s rest H; simpl in H.
    - inversion H; subst; auto.
    - destruct (expired (p_ts q) last).
      + inversion H; subst. simpl. auto.
      + apply IH in H. destruct (add_udp_client s0 (pref_of q) (ep_eqb (s_server s0) (p_src q)) (p_data q)) as [E1 E2].
        rewrite E1, E2 in H. exact H. }
  intros s rest H. apply G in H.
  destruct (add_udp_client (new_stream false (p_src p) (p_dst p)) (pref_of p) false (p_data p)) as [E1 E2].
  rewrite E1, E2 in H. exact H.
Qed.

(* interleaving examples (vm_compute tests, NOT the claim): two flows in one hash bucket (hash = constant),
   one of them with swapped roles after the timeout *)
Definition exU (ts : N) (src dst : endpoint) (payload : list N) : packet :=
  mkPacket ts 0 ts src dst false false false false false 0 payload.

Example interleaved_same_bucket :
  let A := (1, 1000) in let B := (2, 2000) in let C := (3, 1000) in
  let feed := [exU 0 A B [1]; exU 1 C B [9]; exU 2 B A [2]; exU 3 B C [8]; exU 400000000 B A [3]; exU 400000001 C B [7]] in
  map (fun s => (s_client s, s_server s, coalesce (stream_data s))) (fst (udp_run (fun _ => 0) feed)) =
  [ (A, B, [(false, [1]); (true, [2])]);
    (C, B, [(false, [9]); (true, [8])]);
    (B, A, [(false, [3])]);
    (C, B, [(false, [7])]) ].
Proof. vm_compute. reflexivity. Qed.
