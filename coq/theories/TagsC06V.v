(* TagsC06V.v -- C06, what a user sees: View.prefetchTags + HasTag / AllTags and searches with tag filters whose
   undecided tags are inlined return the truth when the C06 invariant holds in the state the view was taken from. *)
From Coq Require Import List NArith Bool Lia.
From Pk Require Import Tags TagsC16 TagsC06.
Import ListNotations.
Open Scope N_scope.

Section Views.
Variable truth : list iresp -> defn -> (N -> N -> bool) -> N -> bool.
Hypothesis H_ext : env_ext truth.

(* what a search sees of a tag: Matches where it is decided, its definition (recursively) where it is not --
   the meaning of a tag filter after query.InlineTagFilters *)
Fixpoint view_val (h : list iresp) (ts : tags_t) (n id : N) : bool :=
  match ts with
  | [] => false
  | (k, t) :: r =>
    if k =? n then t_live t && (if mem id (t_u t) then truth h (t_def t) (view_val h r) id else mem id (t_m t))
    else view_val h r n id
  end.

(* index.SearchStreams on the view's indexes and tagDetails, for a query / definition q.
   Hypothesis (C02, by statement): the search evaluates q with every tag filter replaced by what view_val says,
   provided neither q nor any definition that gets inlined contains an absolute-time condition (known finding
   C06 view-time-reftime: prefetchTags / inlining evaluate those against the wrong reference time). *)
Variable search : list iresp -> tags_t -> defn -> N -> bool.
Variable notime : defn -> Prop.
Definition all_notime (ts : tags_t) : Prop := forall n t, In (n, t) ts -> t_live t = true -> notime (t_def t).
Hypothesis H_search : forall h ts q id,
  notime q -> all_notime ts -> search h ts q id = truth h q (view_val h ts) id.

Lemma view_val_tv h nx ts : hnext h = nx -> inv truth h nx ts ->
  forall x id, id < nx -> view_val h ts x id = tv truth h ts x id.
Proof.
  intros Hn. induction ts as [|[k t] r IH]; simpl; intros HI x id Hid; [reflexivity|]. destruct HI as (I1 & I2).
  destruct (k =? x); [|apply IH; assumption]. destruct (t_live t) eqn:L; [|reflexivity]. simpl.
  destruct (mem id (t_u t)) eqn:U.
  - apply H_ext; intros y Hy; [apply IH; assumption|intros j Hj; apply IH; [exact I2|rewrite Hn in Hj; exact Hj]].
  - apply I1; auto.
Qed.

(* a search with tag filters returns the streams on which the query is true with the tags at their truth *)
Theorem search_is_truth h nx ts q id :
  hnext h = nx -> inv truth h nx ts -> notime q -> all_notime ts -> id < nx ->
  search h ts q id = truth h q (tv truth h ts) id.
Proof.
  intros Hn HI NQ NT Hid. rewrite (H_search h ts q id NQ NT). apply H_ext.
  - intros x _. apply (view_val_tv h nx); assumption.
  - intros x _ j Hj. apply (view_val_tv h nx); try assumption. rewrite Hn in Hj. exact Hj.
Qed.

(* View.prefetchTags for all tags on all streams: referenced tags first, each undecided part is evaluated by a
   search on the view's snapshot and becomes decided *)
Fixpoint prefetch (h : list iresp) (nx : N) (ts : tags_t) : tags_t :=
  match ts with
  | [] => []
  | (k, t) :: r =>
    let r' := prefetch h nx r in
    let hits := fold_left (fun a i => if mem i (t_u t) && search h r' (t_def t) i then add1 i a else a)
                          (map N.of_nat (seq 0 (N.to_nat nx))) 0 in
    (k, if t_live t then mkTag0 (t_def t) (union (diff (t_m t) (t_u t)) hits) 0 (t_conv t) true else t) :: r'
  end.

Definition has_tag (ts : tags_t) (n id : N) : bool :=
  match tget n ts with Some t => negb (mem id (t_u t)) && mem id (t_m t) | None => false end.
Definition all_tags (ts : tags_t) (id : N) : list N := map fst (filter (fun nt => has_tag ts (fst nt) id) ts).

Lemma fold_hits_mem (P : N -> bool) l : forall acc i,
  mem i (fold_left (fun a x => if P x then add1 x a else a) l acc) = mem i acc || (existsb (N.eqb i) l && P i).
Proof.
  induction l as [|x l IH]; simpl; intros acc i; [rewrite orb_false_r; reflexivity|].
  rewrite IH. destruct (P x) eqn:Px.
  - rewrite mem_add1. destruct (N.eqb_spec i x) as [->|NE]; simpl.
    + rewrite Px. destruct (mem x acc); reflexivity.
    + rewrite orb_false_r. reflexivity.
  - destruct (N.eqb_spec i x) as [->|NE]; simpl; [rewrite Px, andb_false_r, orb_false_r; reflexivity|reflexivity].
Qed.

Lemma in_ids nx i : i < nx -> existsb (N.eqb i) (map N.of_nat (seq 0 (N.to_nat nx))) = true.
Proof.
  intros H. apply existsb_exists. exists i. split; [|apply N.eqb_refl].
  apply in_map_iff. exists (N.to_nat i). split; [apply N2Nat.id|apply in_seq; lia].
Qed.

Lemma prefetch_same h nx ts : Forall2 same1 ts (prefetch h nx ts).
Proof.
  induction ts as [|[k t] r IH]; simpl; constructor; [|exact IH]. unfold same1; simpl. destruct (t_live t) eqn:L; simpl; auto.
Qed.

Lemma prefetch_notime h nx ts : all_notime ts -> all_notime (prefetch h nx ts).
Proof.
  intros NT n t' I L. destruct (Forall2_In_r _ _ _ _ (prefetch_same h nx ts) I) as ([k t] & I0 & (E1 & E2 & E3)). simpl in *. subst k.
  rewrite <- E2. apply (NT n t I0). congruence.
Qed.

(* after prefetch every live tag is decided everywhere and its matches are the truth *)
Theorem prefetch_correct h nx ts : hnext h = nx -> inv truth h nx ts -> all_notime ts ->
  inv truth h nx (prefetch h nx ts) /\
  (forall n t, In (n, t) (prefetch h nx ts) -> t_live t = true -> t_u t = 0).
Proof.
  intros Hn. induction ts as [|[k t] r IH]; simpl; intros HI NT; [split; [exact I|intros n t []]|].
  destruct HI as (I1 & I2).
  assert (all_notime r) as NTr by (intros n0 t0 I0; apply (NT n0 t0); right; exact I0).
  destruct (IH I2 NTr) as (IR & UR). set (r' := prefetch h nx r) in *.
  assert (forall x id, tv truth h r' x id = tv truth h r x id) as TVE.
  { intros x id. symmetry. apply (tv_same truth H_ext). apply prefetch_same. }
  split.
  - split; [|exact IR]. destruct (t_live t) eqn:L; [|simpl; intros H0; rewrite L in H0; discriminate]. simpl. intros _ id Hid _.
    rewrite mem_union, mem_diff, fold_hits_mem, mem_0, (in_ids nx id Hid). simpl.
    destruct (mem id (t_u t)) eqn:U; simpl.
    + rewrite andb_false_r. simpl.
      rewrite (search_is_truth h nx r' (t_def t) id Hn IR); [reflexivity|apply (NT k t (or_introl eq_refl) L)|apply prefetch_notime; exact NTr|exact Hid].
    + rewrite andb_true_r, orb_false_r. rewrite (I1 eq_refl id Hid U). apply H_ext; intros; symmetry; apply TVE.
  - intros n0 t0 [E|I0] L0; [|apply (UR n0 t0 I0 L0)]. inversion E; subst; clear E.
    destruct (t_live t) eqn:L; [reflexivity|simpl in L0; rewrite L in L0; discriminate].
Qed.

(* HasTag after prefetch = truth of the tag at the view's snapshot *)
Theorem has_tag_is_truth h nx ts n id : hnext h = nx -> inv truth h nx ts -> all_notime ts -> id < nx ->
  (exists t, tget n ts = Some t) ->
  has_tag (prefetch h nx ts) n id = tv truth h ts n id.
Proof.
  intros Hn HI NT Hid (t & T). destruct (prefetch_correct h nx ts Hn HI NT) as (IP & UP).
  destruct (same1_tget _ _ n t (prefetch_same h nx ts) T) as (t' & T').
  unfold has_tag. rewrite T'. destruct (tget_In _ _ _ T') as (I' & L').
  rewrite (UP n t' I' L'), mem_0. simpl.
  rewrite (inv_lookup truth h nx _ n t' IP T' id Hid); [|rewrite (UP n t' I' L'); apply mem_0].
  symmetry. apply (tv_same truth H_ext). apply prefetch_same.
Qed.
End Views.
