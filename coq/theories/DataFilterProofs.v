(* C04: proofs about the data-filter model (DataFilter.v). *)
From Coq Require Import List NArith Bool Arith Lia.
Import ListNotations.
Require Import Pk.RegexProg Pk.RegexProgProofs Pk.Regex Pk.RegexProofs Pk.DataFilter.

(* ------------------------------------------------------------------ bytes.Index / bytes.LastIndex *)
Lemma is_prefix_app : forall a t, is_prefix a t = true <-> exists rest, t = a ++ rest.
Proof.
  induction a; intros t; simpl.
  - split; [intros _; exists t; reflexivity | auto].
  - destruct t as [|y t].
    + split; [discriminate | intros [rest E]; discriminate].
    + rewrite andb_true_iff, N.eqb_eq, IHa. split.
      * intros [E [rest R]]. subst. exists rest. reflexivity.
      * intros [rest E]. inversion E; subst. split; auto. exists rest. reflexivity.
Qed.

Lemma is_prefix_length : forall a t, is_prefix a t = true -> length a <= length t.
Proof. intros a t H. apply is_prefix_app in H. destruct H as [rest E]. subst. rewrite app_length. lia. Qed.

Lemma index_of_spec : forall needle t,
  match index_of needle t with
  | Some i => i <= length t /\ is_prefix needle (skipn i t) = true /\ forall j, j < i -> is_prefix needle (skipn j t) = false
  | None => forall j, j <= length t -> is_prefix needle (skipn j t) = false
  end.
Proof.
  induction t as [|x t IH].
  - simpl. destruct (is_prefix needle []) eqn:E.
    + repeat split; auto; try (intros; lia).
    + intros j Hj. destruct j; simpl; auto.
  - unfold index_of; fold index_of. destruct (is_prefix needle (x :: t)) eqn:E.
    + repeat split; simpl; auto; try lia; try (intros; lia).
    + destruct (index_of needle t) as [i|].
      * destruct IH as [A [B C]]. repeat split; simpl; auto; try lia.
        intros j Hj. destruct j; simpl; auto. apply C. lia.
      * intros j Hj. destruct j; simpl; auto. apply IH. simpl in Hj. lia.
Qed.

Lemma last_index_of_spec : forall needle t,
  match last_index_of needle t with
  | Some i => i <= length t /\ is_prefix needle (skipn i t) = true /\
              forall j, j <= length t -> is_prefix needle (skipn j t) = true -> j <= i
  | None => forall j, j <= length t -> is_prefix needle (skipn j t) = false
  end.
Proof.
  induction t as [|x t IH].
  - simpl. destruct (is_prefix needle []) eqn:E.
    + repeat split; auto; try (intros; simpl in *; lia).
    + intros j Hj. destruct j; simpl; auto.
  - unfold last_index_of; fold last_index_of. destruct (last_index_of needle t) as [i|].
    + destruct IH as [A [B C]]. repeat split; simpl; auto; try lia.
      intros j Hj Hp. destruct j; [lia|]. simpl in Hp. specialize (C j ltac:(simpl in Hj; lia) Hp). lia.
    + destruct (is_prefix needle (x :: t)) eqn:E.
      * repeat split; simpl; auto; try lia. intros j Hj Hp. destruct j; auto. simpl in Hp.
        rewrite IH in Hp; [discriminate | simpl in Hj; lia].
      * intros j Hj. destruct j; simpl; auto. apply IH. simpl in Hj. lia.
Qed.

(* ------------------------------------------------------------------ slices *)
Lemma skipn_skipn : forall (x y : nat) (l : list N), skipn x (skipn y l) = skipn (x + y) l.
Proof.
  intros x y. revert x. induction y; intros x l.
  - rewrite Nat.add_0_r. reflexivity.
  - destruct l; simpl.
    + rewrite !skipn_nil. reflexivity.
    + rewrite IHy. replace (x + S y) with (S (x + y)) by lia. reflexivity.
Qed.

Lemma slice_prefix : forall P t i e, i <= e -> e <= length t -> starts_with P (slice t i e) -> is_prefix P (skipn i t) = true.
Proof.
  intros P t i e Hi He [rest E]. apply is_prefix_app. unfold slice in E.
  exists (rest ++ skipn (e - i) (skipn i t)).
  rewrite <- (firstn_skipn (e - i) (skipn i t)) at 1. rewrite E, app_assoc. reflexivity.
Qed.

Lemma slice_length : forall t i e, i <= e -> e <= length t -> length (slice t i e) = e - i.
Proof. intros. unfold slice. rewrite firstn_length, skipn_length. lia. Qed.

Lemma slice_suffix : forall S t i e, i <= e -> e <= length t -> is_suffix S (slice t i e) ->
  length S <= e - i /\ is_prefix S (skipn (e - length S) t) = true.
Proof.
  intros S t i e Hi He [pre E].
  assert (L : length (slice t i e) = e - i) by (apply slice_length; auto).
  rewrite E, app_length in L. split; [lia|].
  apply is_prefix_app. exists (skipn e t).
  (* t = firstn i t ++ slice ++ skipn e t, slice = pre ++ S *)
  assert (D : skipn i t = slice t i e ++ skipn e t).
  { unfold slice. rewrite <- (firstn_skipn (e - i) (skipn i t)) at 1. f_equal. rewrite skipn_skipn. f_equal. lia. }
  assert (K : skipn (e - length S) t = skipn (length pre) (skipn i t)).
  { rewrite skipn_skipn. f_equal. lia. }
  rewrite K, D, E, <- app_assoc, skipn_app, skipn_all, Nat.sub_diag. reflexivity.
Qed.

Lemma skipn_split : forall (t : list N) a b, a <= b -> skipn a t = firstn (b - a) (skipn a t) ++ skipn b t.
Proof.
  intros. rewrite <- (firstn_skipn (b - a) (skipn a t)) at 1. f_equal. rewrite skipn_skipn. f_equal. lia.
Qed.

(* ------------------------------------------------------------------ search: completeness inside the scanned range *)
Lemma search_from_some : forall F p ncap t n i j c, i <= j -> j < i + n -> match_at F p ncap t j = Some c ->
  search_from F p ncap t n i <> None.
Proof.
  induction n; intros i j c A B M; simpl; [lia|].
  destruct (match_at F p ncap t i) eqn:E; [discriminate|].
  destruct (Nat.eq_dec i j); [subst; congruence|]. eapply IHn with (j := j); eauto; lia.
Qed.

Lemma search_from_found : forall F p ncap t n i c, search_from F p ncap t n i = Some c ->
  exists j, i <= j /\ j < i + n /\ match_at F p ncap t j = Some c.
Proof.
  induction n; intros i c H; simpl in H; [discriminate|].
  destruct (match_at F p ncap t i) eqn:E.
  - inversion H; subst. exists i. repeat split; auto; lia.
  - destruct (IHn _ _ H) as [j [A [B C]]]. exists j. repeat split; auto; lia.
Qed.

(* no match in a buffer: no match in any of its tails (programs without assertions) *)
Lemma search_none_tail : forall F p ncap pre t, assertion_free p = true ->
  search F p ncap (pre ++ t) = None -> search F p ncap t = None.
Proof.
  intros F p ncap pre t Haf H. destruct (search F p ncap t) as [c|] eqn:E; auto. exfalso.
  unfold search in E. destruct (search_from_found _ _ _ _ _ _ _ E) as [j [A [B C]]].
  pose proof (match_at_translate F p ncap pre t j Haf) as T. rewrite C in T. simpl in T.
  unfold search in H. eapply search_from_some; [| |exact T|exact H]; rewrite ?app_length; lia.
Qed.

(* ------------------------------------------------------------------ Theorem A: the shortcuts do not change the scan *)
Definition facts_sound (r : rx) : Prop :=
  (forall w, accepts (r_prog r) w -> starts_with (f_prefix (r_facts r)) w) /\
  (forall w, accepts (r_prog r) w -> is_suffix (f_suffix (r_facts r)) w) /\
  (forall w, accepts (r_prog r) w -> (f_min (r_facts r) <= len w)%N /\
                                      ((f_max (r_facts r) < MAXU)%N -> (len w <= f_max (r_facts r))%N)).

(* what find returns, against the plain scan of the data from the old offset *)
Definition find_agrees (F : nat) (r : rx) (data : list N) (off : nat) (res : option caps) (off' : nat) : Prop :=
  off <= off' /\ off' <= length data /\
  match res with
  | Some m => plain F r (skipn off data) = Some (shift (off' - off) m) /\ (match_end m = 0 -> off' = off)
  | None => plain F r (skipn off data) = None /\ plain F r (skipn off' data) = None
  end.

Lemma plain_none_later : forall F r data a b, assertion_free (r_prog r) = true -> a <= b ->
  plain F r (skipn a data) = None -> plain F r (skipn b data) = None.
Proof.
  intros F r data a b Haf Hab H. unfold plain in *. rewrite (skipn_split data a b Hab) in H.
  eapply search_none_tail; eauto.
Qed.

Lemma plain_too_short : forall F r buffer, facts_sound r -> too_short buffer (f_min (r_facts r)) = true ->
  plain F r buffer = None.
Proof.
  intros F r buffer [_ [_ Hlen]] Hs. unfold plain. destruct (search F (r_prog r) (r_ncap r) buffer) as [c|] eqn:E; auto. exfalso.
  destruct (search_sound _ _ _ _ _ E) as [j [e [A [B C]]]].
  destruct (Hlen _ C) as [L _]. unfold len in L. rewrite slice_length in L by assumption.
  unfold too_short in Hs. apply N.ltb_lt in Hs. lia.
Qed.

Lemma shift_0 : forall c, shift 0 c = c.
Proof.
  intros c. unfold shift. rewrite <- (map_id c) at 2. apply map_ext. intros [x|]; reflexivity.
Qed.

Lemma shift_shift : forall a b c, shift a (shift b c) = shift (a + b) c.
Proof.
  intros a b c. unfold shift. rewrite map_map. apply map_ext. intros [x|]; simpl; auto. f_equal. lia.
Qed.

(* the part of find after the context-sensitivity test, without the fixed-length window *)
Theorem find_shortcut_plain_partial : forall F guard r data off res off',
  assertion_free (r_prog r) = true -> facts_sound r -> 2 <= r_ncap r -> off <= length data ->
  (* the fixed-length window loop is not covered by this statement *)
  (N.eqb (f_min (r_facts r)) (f_max (r_facts r)) && match f_prefix (r_facts r) with [] => true | _ => false end
     && match f_suffix (r_facts r) with [] => false | _ => true end = false) ->
  find F guard r data off = (res, off') -> find_agrees F r data off res off'.
Proof.
  intros F guard r data off res off' Haf Hfs Hnc Hoff Hnw H.
  pose proof Hfs as [Hpre [Hsuf Hlen]].
  unfold find in H. unfold context_sensitive in H. rewrite Haf in H. simpl negb in H. rewrite andb_false_r in H.
  set (buffer := skipn off data) in *.
  assert (Lb : length buffer = length data - off) by (unfold buffer; apply skipn_length).
  destruct (too_short buffer (f_min (r_facts r))) eqn:TS.
  { inversion H; subst res off'. unfold find_agrees. fold buffer. repeat split; auto.
    - apply plain_too_short; auto.
    - apply plain_too_short; auto. }
  (* prefix step: buffer = pre ++ buffer1, no match starts inside pre *)
  assert (Step1 : exists pos buffer1, pos <= length buffer /\ buffer1 = skipn pos buffer /\
            plain F r buffer = option_map (shift pos) (plain F r buffer1) /\
            (match f_prefix (r_facts r) with
             | [] => Some (buffer, off)
             | _ => match index_of (f_prefix (r_facts r)) buffer with
                    | None => None
                    | Some pos => Some (skipn pos buffer, off + pos)
                    end
             end = Some (buffer1, off + pos) \/
             (match f_prefix (r_facts r) with
             | [] => Some (buffer, off)
             | _ => match index_of (f_prefix (r_facts r)) buffer with
                    | None => None
                    | Some pos => Some (skipn pos buffer, off + pos)
                    end
             end = None /\ plain F r buffer = None))).
  { destruct (f_prefix (r_facts r)) as [|p0 ps] eqn:EP.
    - exists 0, buffer. repeat split; try lia; auto.
      + destruct (plain F r buffer); simpl; auto. rewrite shift_0. reflexivity.
      + left. rewrite Nat.add_0_r. reflexivity.
    - pose proof (index_of_spec (p0 :: ps) buffer) as IS.
      destruct (index_of (p0 :: ps) buffer) as [pos|].
      + destruct IS as [A [B C]]. exists pos, (skipn pos buffer). repeat split; auto.
        unfold plain.
        assert (Lp : length (firstn pos buffer) = pos) by (rewrite firstn_length; lia).
        pose proof (search_skip F (r_prog r) (r_ncap r) (firstn pos buffer) (skipn pos buffer) Haf) as SK.
        rewrite firstn_skipn, Lp in SK. apply SK.
        intros j Hj.
        destruct (match_at F (r_prog r) (r_ncap r) buffer j) eqn:M; auto. exfalso.
        assert (Hjl : j <= length buffer) by lia.
        destruct (match_at_sound _ _ _ _ _ _ Hjl M) as [e [X [Y Z]]].
        pose proof (slice_prefix _ _ _ _ X Y (Hpre _ Z)) as Q. try rewrite EP in Q. rewrite C in Q by assumption. discriminate.
      + exists 0, buffer. repeat split; try lia; auto.
        * destruct (plain F r buffer); simpl; auto. rewrite shift_0. reflexivity.
        * right. split; auto. unfold plain.
          destruct (search F (r_prog r) (r_ncap r) buffer) as [c|] eqn:E; auto. exfalso.
          destruct (search_sound _ _ _ _ _ E) as [j [e [X [Y Z]]]].
          pose proof (slice_prefix _ _ _ _ X Y (Hpre _ Z)) as Q. try rewrite EP in Q. rewrite IS in Q by lia. discriminate. }
  destruct Step1 as [pos [buffer1 [Hpos [Eb1 [Pl1 [S1 | [S1 N1]]]]]]]; rewrite S1 in H.
  2:{ inversion H; subst res off'. unfold find_agrees. fold buffer. repeat split; auto; try lia.
      eapply plain_none_later; eauto. }
  assert (B1 : buffer1 = skipn (off + pos) data) by (subst buffer1; unfold buffer; rewrite skipn_skipn; f_equal; lia).
  destruct (match f_prefix (r_facts r) with [] => false | _ => too_short buffer1 (f_min (r_facts r)) end) eqn:TS1.
  { inversion H; subst res off'. unfold find_agrees. fold buffer. repeat split; try lia.
    - rewrite Pl1. destruct (f_prefix (r_facts r)); [discriminate|]. rewrite plain_too_short; auto.
    - rewrite <- B1. destruct (f_prefix (r_facts r)); [discriminate|]. apply plain_too_short; auto. }
  (* suffix step *)
  assert (Step2 : (exists buffer2,
             match f_suffix (r_facts r) with
             | [] => Some buffer1
             | _ => match last_index_of (f_suffix (r_facts r)) buffer1 with
                    | None => None
                    | Some q => Some (firstn (q + length (f_suffix (r_facts r))) buffer1)
                    end
             end = Some buffer2 /\ plain F r buffer2 = plain F r buffer1) \/
            (match f_suffix (r_facts r) with
             | [] => Some buffer1
             | _ => match last_index_of (f_suffix (r_facts r)) buffer1 with
                    | None => None
                    | Some q => Some (firstn (q + length (f_suffix (r_facts r))) buffer1)
                    end
             end = None /\ plain F r buffer1 = None)).
  { destruct (f_suffix (r_facts r)) as [|s0 ss] eqn:ES.
    - left. exists buffer1. auto.
    - pose proof (last_index_of_spec (s0 :: ss) buffer1) as LS.
      destruct (last_index_of (s0 :: ss) buffer1) as [q|].
      + destruct LS as [A [B C]]. left. exists (firstn (q + length (s0 :: ss)) buffer1). split; auto.
        unfold plain. apply search_truncate; auto.
        * pose proof (is_prefix_length _ _ B) as Q. rewrite skipn_length in Q. lia.
        * intros i e X Y Z. pose proof (Hsuf _ Z) as W. try rewrite ES in W.
          destruct (slice_suffix _ _ _ _ X Y W) as [W1 W2].
          assert (Hel : e - length (s0 :: ss) <= length buffer1) by lia.
          specialize (C _ Hel W2). lia.
      + right. split; auto. unfold plain.
        destruct (search F (r_prog r) (r_ncap r) buffer1) as [c|] eqn:E; auto. exfalso.
        destruct (search_sound _ _ _ _ _ E) as [j [e [X [Y Z]]]].
        pose proof (Hsuf _ Z) as W. try rewrite ES in W.
        destruct (slice_suffix _ _ _ _ X Y W) as [W1 W2]. rewrite LS in W2 by lia. discriminate. }
  destruct Step2 as [[buffer2 [S2 Pl2]] | [S2 N2]]; rewrite S2 in H.
  2:{ inversion H; subst res off'. unfold find_agrees. fold buffer. repeat split; auto; try lia.
      - rewrite Pl1, N2. reflexivity.
      - eapply plain_none_later with (a := off); eauto. fold buffer. rewrite Pl1, N2. reflexivity. }
  destruct (match f_suffix (r_facts r) with [] => false | _ => too_short buffer2 (f_min (r_facts r)) end) eqn:TS2.
  { inversion H; subst res off'. unfold find_agrees. fold buffer.
    assert (N2 : plain F r buffer1 = None).
    { rewrite <- Pl2. destruct (f_suffix (r_facts r)); [discriminate|]. apply plain_too_short; auto. }
    repeat split; try lia.
    - rewrite Pl1, N2. reflexivity.
    - rewrite <- B1. exact N2. }
  rewrite Hnw in H.
  destruct (plain F r buffer2) as [m|] eqn:PM.
  - inversion H; subst res off'. unfold find_agrees. fold buffer. repeat split; try lia.
    + rewrite Pl1, <- Pl2. simpl. f_equal. f_equal. lia.
    + intros Hz. unfold plain in PM.
      destruct (search_end _ _ _ _ _ Hnc PM) as [j [e [X [Y [Z W]]]]].
      unfold match_end in Hz. rewrite W in Hz. subst e.
      assert (j = 0) by lia. subst j. rewrite slice_nil in Z.
      destruct (Hpre _ Z) as [rest E]. destruct (f_prefix (r_facts r)); [|discriminate].
      inversion S1. lia.
  - inversion H; subst res off'. unfold find_agrees. fold buffer. repeat split; try lia.
    + rewrite Pl1, <- Pl2. reflexivity.
    + eapply plain_none_later with (a := off); eauto. fold buffer. rewrite Pl1, <- Pl2. reflexivity.
Qed.

(* ------------------------------------------------------------------ the facts finalize() derives are sound (C18) *)
Lemma starts_with_self_suffix : forall P : list N, is_suffix P P.
Proof. intros. exists []. reflexivity. Qed.

Theorem facts_sound_model : forall r P compl,
  wf (r_prog r) = true -> prog_prefix (r_prog r) = (P, compl) -> f_prefix (r_facts r) = P ->
  (if compl
   then f_suffix (r_facts r) = P /\ f_min (r_facts r) = len P /\ f_max (r_facts r) = len P
   else accepted_length_cached (r_prog r) = Some (f_min (r_facts r), f_max (r_facts r)) /\
        constant_suffix_b (r_prog r) = Some (f_suffix (r_facts r))) ->
  facts_sound r.
Proof.
  intros r P compl Hwf Hp EP Hc. unfold facts_sound. rewrite EP.
  split; [intros w Hw; eapply prog_prefix_sound; eauto|].
  destruct compl.
  - destruct Hc as [Es [Emn Emx]]. rewrite Es, Emn, Emx.
    assert (K : forall w, accepts (r_prog r) w -> w = P).
    { intros w Hw. destruct (prog_prefix_sound _ _ _ _ Hwf Hp Hw) as [_ C]. auto. }
    split; intros w Hw; rewrite (K _ Hw).
    + apply starts_with_self_suffix.
    + split; [apply N.le_refl | intros _; apply N.le_refl].
  - destruct Hc as [Hl Hs]. split; intros w Hw.
    + eapply constant_suffix_b_sound; eauto.
    + eapply cached_length_sound; eauto.
Qed.

(* with the guard of fixes/C04-1, an expression with empty-width assertions is scanned plainly and the offset stays *)
Theorem find_guard_plain : forall F r data off, context_sensitive r = true ->
  find F true r data off = (plain F r (skipn off data), off).
Proof. intros F r data off H. unfold find. rewrite H. reflexivity. Qed.

(* before the fix: foo3$ on the payload "foo3 bar" -- the suffix cut lets $ match (program, facts as dumped from the Go code) *)
Definition rx_foo3_dollar : rx := mkRx
  (mkProg [ mkInst IFail 0 0 [] []; mkInst IRune1 2 0 [102%N] []; mkInst IRune1 3 0 [111%N] []; mkInst IRune1 4 0 [111%N] [];
            mkInst IRune1 5 0 [51%N] []; mkInst IEmpty 6 8 [] []; mkInst IMatch 0 0 [] [] ] 1)
  2 (mkFacts [102; 111; 111; 51]%N [102; 111; 111; 51]%N 4%N 4%N) [None].
Definition payload_foo3_bar : list N := [102; 111; 111; 51; 32; 98; 97; 114]%N.

Lemma find_unguarded_refuted :
  plain 100 rx_foo3_dollar payload_foo3_bar = None /\
  fst (find 100 false rx_foo3_dollar payload_foo3_bar 0) = Some [Some 0; Some 4] /\
  fst (find 100 true rx_foo3_dollar payload_foo3_bar 0) = None.
Proof. vm_compute. auto. Qed.

(* ------------------------------------------------------------------ Theorem D: accounting over data sources and negation *)
Lemma filter_length_le : forall A (f : A -> bool) l, length (filter f l) <= length l.
Proof. induction l; simpl; auto. destruct (f a); simpl; lia. Qed.

Lemma count_true_le : forall l, count_true l <= length l.
Proof. intros. unfold count_true. apply filter_length_le. Qed.

Lemma forallb_map : forall A B (f : A -> B) (g : B -> bool) l, forallb g (map f l) = forallb (fun x => g (f x)) l.
Proof. induction l; simpl; auto. rewrite IHl. reflexivity. Qed.
Lemma existsb_map : forall A B (f : A -> B) (g : B -> bool) l, existsb g (map f l) = existsb (fun x => g (f x)) l.
Proof. induction l; simpl; auto. rewrite IHl. reflexivity. Qed.
Lemma forallb_ext : forall A (f g : A -> bool) l, (forall x, f x = g x) -> forallb f l = forallb g l.
Proof. induction l; simpl; intros; auto. rewrite H, IHl; auto. Qed.

Lemma count_true_zero : forall l, count_true l = 0 <-> existsb (fun b => b) l = false.
Proof.
  induction l as [|[|] l IH]; simpl; unfold count_true in *; simpl.
  - tauto.
  - split; [lia | discriminate].
  - exact IH.
Qed.

Lemma count_true_all : forall l, count_true l = length l <-> forallb (fun b => b) l = true.
Proof.
  induction l as [|[|] l IH]; simpl; unfold count_true in *; simpl.
  - tauto.
  - rewrite <- IH. split; lia.
  - pose proof (filter_length_le bool (fun b : bool => b) l). split; [lia | discriminate].
Qed.

Lemma decide_spec : forall inv bs, bs <> [] ->
  decide inv bs = if inv then forallb (fun b => b) bs else existsb (fun b => b) bs.
Proof.
  intros inv bs Hne. unfold decide.
  assert (Hlen : length bs > 0) by (destruct bs; [congruence | simpl; lia]).
  pose proof (count_true_le bs) as Hle.
  destruct (existsb (fun b => b) bs) eqn:EX; destruct (forallb (fun b => b) bs) eqn:FA.
  - apply count_true_all in FA. rewrite FA.
    destruct (Nat.eqb_spec (length bs) 0); [lia|]. rewrite Nat.sub_diag. simpl. destruct inv; reflexivity.
  - assert (N0 : count_true bs <> 0) by (intros E; apply count_true_zero in E; congruence).
    assert (NA : count_true bs <> length bs) by (intros E; apply count_true_all in E; congruence).
    destruct (Nat.eqb_spec (count_true bs) 0); [contradiction|].
    destruct (Nat.eqb_spec (length bs - count_true bs) 0); [lia|]. destruct inv; reflexivity.
  - apply count_true_all in FA. assert (Z : count_true bs = 0) by (apply count_true_zero; exact EX). lia.
  - assert (Z : count_true bs = 0) by (apply count_true_zero; exact EX). rewrite Z. simpl. destruct inv; reflexivity.
Qed.

Fixpoint forallb_idx {A} (g : A -> nat -> bool) (k : nat) (l : list A) : bool :=
  match l with [] => true | x :: r => g x k && forallb_idx g (S k) r end.

Lemma forallb_combine_seq : forall A B (g : A * B -> bool) (h : nat -> B) (l : list A) k,
  forallb g (List.combine l (map h (seq k (length l)))) = forallb_idx (fun x i => g (x, h i)) k l.
Proof. induction l; intros k; simpl; auto. rewrite IHl. reflexivity. Qed.

Lemma forallb_idx_ext : forall A (g1 : A -> nat -> bool) (g2 : A -> bool) (l pre : list A),
  (forall i x, nth_error (pre ++ l) i = Some x -> length pre <= i -> g1 x i = g2 x) ->
  forallb_idx g1 (length pre) l = forallb g2 l.
Proof.
  induction l as [|x l IH]; intros pre H; simpl; auto.
  rewrite (H (length pre) x).
  - f_equal. replace (S (length pre)) with (length (pre ++ [x])) by (rewrite app_length; simpl; lia).
    apply IH. intros i y Hn Hi. apply H; [rewrite <- app_assoc in Hn; exact Hn | rewrite app_length in Hi; simpl in Hi; lia].
  - rewrite nth_error_app2 by lia. rewrite Nat.sub_diag. reflexivity.
  - lia.
Qed.

(* If, on every evaluated source, the loop leaves every condition in the state the plain scan prescribes,
   the filter selects exactly the streams of the specification. *)
Theorem conj_accounting : forall F guard tbl cn cs st,
  (forall s ci c, In s (sources_of cn st) -> nth_error cs ci = Some c ->
     match nth_error (source_eval F guard tbl cs s) ci with
     | Some p => cond_success c p = cond_holds_spec F tbl c s
     | None => False
     end) ->
  conj_selected F guard tbl cn cs st = conj_spec F tbl cn cs st.
Proof.
  intros F guard tbl cn cs st H. unfold conj_selected, conj_spec.
  destruct (sources_of cn st) as [|s0 srcs] eqn:ES.
  - apply forallb_ext. intros c. destruct (c_inv c); reflexivity.
  - set (all := s0 :: srcs) in *.
    rewrite forallb_combine_seq.
    change 0 with (length (@nil cond)).
    apply forallb_idx_ext. intros i c Hn _. simpl in Hn. simpl fst. simpl snd.
    assert (M : cond_results F guard tbl cs all i = map (cond_holds_spec F tbl c) all).
    { unfold cond_results. rewrite map_map. apply map_ext_in. intros s Hs. rewrite Hn.
      specialize (H s i c Hs Hn). destruct (nth_error (source_eval F guard tbl cs s) i); [auto | contradiction]. }
    rewrite M. rewrite decide_spec by (unfold all; simpl; discriminate).
    destruct (c_inv c).
    + rewrite forallb_map. reflexivity.
    + rewrite existsb_map. reflexivity.
Qed.

(* ------------------------------------------------------------------ the fixed-length window loop *)
Section Window.
  Variables (F : nat) (r : rx).
  Hypothesis Haf : assertion_free (r_prog r) = true.
  Hypothesis Hfs : facts_sound r.
  Hypothesis Hnc : 2 <= r_ncap r.
  Hypothesis Hmm : f_min (r_facts r) = f_max (r_facts r).
  Hypothesis Hfin : (f_max (r_facts r) < MAXU)%N.
  Hypothesis Hsne : f_suffix (r_facts r) <> [].

  Let n := N.to_nat (f_min (r_facts r)).
  Let S := f_suffix (r_facts r).

  Lemma acc_len : forall w, accepts (r_prog r) w -> length w = n.
  Proof.
    intros w Hw. destruct Hfs as [_ [_ Hl]]. destruct (Hl _ Hw) as [A B]. rewrite <- Hmm in B, Hfin.
    specialize (B Hfin). unfold len in *. unfold n. lia.
  Qed.

  Lemma acc_suffix_at : forall t j e, j <= e -> e <= length t -> accepts (r_prog r) (slice t j e) ->
    e = j + n /\ length S <= n /\ is_prefix S (skipn j (skipn (n - length S) t)) = true.
  Proof.
    intros t j e A B Hw. pose proof (acc_len _ Hw) as L. rewrite slice_length in L by assumption.
    destruct Hfs as [_ [Hsuf _]]. destruct (slice_suffix _ _ _ _ A B (Hsuf _ Hw)) as [C D]. fold S in C, D.
    repeat split; try lia. rewrite skipn_skipn. replace (j + (n - length S)) with (e - length S) by lia. exact D.
  Qed.

  (* searching the window of length n at the front of t is trying a match at position 0 of t *)
  Lemma window_front : forall t,
    plain F r (firstn n t) = match_at F (r_prog r) (r_ncap r) t 0.
  Proof.
    intros t. unfold plain, search.
    set (T := firstn n t).
    assert (LT : length T <= n) by (unfold T; rewrite firstn_length; lia).
    assert (M0 : match_at F (r_prog r) (r_ncap r) T 0 = match_at F (r_prog r) (r_ncap r) t 0).
    { unfold match_at, T. destruct (Nat.le_ge_cases n (length t)) as [L | L].
      - apply bt_truncate; auto; try lia. intros e A B C. destruct (acc_suffix_at t 0 e A B C) as [E _]. lia.
      - rewrite firstn_all2 by lia. reflexivity. }
    simpl. rewrite M0. destruct (match_at F (r_prog r) (r_ncap r) t 0); auto.
    apply search_from_none. intros j A B.
    destruct (match_at F (r_prog r) (r_ncap r) T j) eqn:E; auto. exfalso.
    assert (Hj : j <= length T) by lia.
    destruct (match_at_sound _ _ _ _ _ _ Hj E) as [e [X [Y Z]]].
    pose proof (acc_len _ Z) as L. rewrite slice_length in L by assumption. lia.
  Qed.

  Lemma search_head : forall t c, match_at F (r_prog r) (r_ncap r) t 0 = Some c -> search F (r_prog r) (r_ncap r) t = Some c.
  Proof. intros t c H. unfold search. simpl. rewrite H. reflexivity. Qed.

  Lemma search_tail : forall x t, match_at F (r_prog r) (r_ncap r) (x :: t) 0 = None ->
    search F (r_prog r) (r_ncap r) (x :: t) = option_map (shift 1) (search F (r_prog r) (r_ncap r) t).
  Proof.
    intros x t H. apply (search_skip F (r_prog r) (r_ncap r) [x] t Haf). intros j Hj. simpl in Hj.
    assert (j = 0) by lia. subst. exact H.
  Qed.

  Lemma window_nil : forall fuel total off, window F r fuel total [] off = (None, total).
  Proof.
    intros fuel total off. destruct fuel; simpl; auto.
    rewrite skipn_nil. fold S. destruct S eqn:ES; [contradiction|]. reflexivity.
  Qed.

  Lemma window_spec : forall fuel total buffer off res off', length buffer < fuel ->
    window F r fuel total buffer off = (res, off') ->
    match res with
    | Some m => plain F r buffer = Some (shift (off' - off) m) /\ off <= off' /\ off' - off <= length buffer /\ match_end m <> 0
    | None => plain F r buffer = None /\ off' = total
    end.
  Proof.
    induction fuel as [|f IH]; intros total buffer off res off' Hf H; [lia|].
    simpl in H. fold n in H. fold S in H.
    pose proof (index_of_spec S (skipn (n - length S) buffer)) as IS.
    destruct (index_of S (skipn (n - length S) buffer)) as [pos|].
    - destruct IS as [P1 [P2 P3]].
      assert (Hpos : pos <= length buffer) by (rewrite skipn_length in P1; lia).
      (* no match starts before pos *)
      assert (Skip : plain F r buffer = option_map (shift pos) (plain F r (skipn pos buffer))).
      { unfold plain.
        assert (Lp : length (firstn pos buffer) = pos) by (rewrite firstn_length; lia).
        pose proof (search_skip F (r_prog r) (r_ncap r) (firstn pos buffer) (skipn pos buffer) Haf) as SK.
        rewrite firstn_skipn, Lp in SK. apply SK. intros j Hj.
        destruct (match_at F (r_prog r) (r_ncap r) buffer j) eqn:M; auto. exfalso.
        assert (Hjl : j <= length buffer) by lia.
        destruct (match_at_sound _ _ _ _ _ _ Hjl M) as [e [X [Y Z]]].
        destruct (acc_suffix_at buffer j e X Y Z) as [_ [_ Q]]. rewrite P3 in Q by assumption. discriminate. }
      set (b1 := skipn pos buffer) in *.
      rewrite window_front in H.
      destruct (match_at F (r_prog r) (r_ncap r) b1 0) as [m|] eqn:M0.
      + inversion H; subst res off'. clear H.
        rewrite Skip. unfold plain. rewrite (search_head _ _ M0). simpl.
        replace (off + pos - off) with pos by lia. repeat split; auto; try lia.
        assert (H0 : 0 <= length b1) by lia.
        destruct (match_at_end _ _ _ _ _ _ Hnc H0 M0) as [e [X [Y [Z W]]]].
        destruct (acc_suffix_at b1 0 e X Y Z) as [E [Ls _]].
        unfold match_end. rewrite W. destruct S eqn:ES; [contradiction|]. simpl in Ls. lia.
      + destruct b1 as [|x b2] eqn:Eb.
        * (* nothing left *)
          simpl in H. rewrite window_nil in H. inversion H; subst res off'. split; auto.
          rewrite Skip. unfold plain, search. simpl. rewrite M0. reflexivity.
        * simpl in H.
          assert (Hl : length b2 < f).
          { assert (L1 : length b1 = Datatypes.S (length b2)) by (rewrite Eb; reflexivity).
            unfold b1 in L1. rewrite skipn_length in L1. lia. }
          specialize (IH total b2 (Datatypes.S (off + pos)) res off' Hl H).
          assert (Tl : plain F r (x :: b2) = option_map (shift 1) (plain F r b2)) by (apply search_tail; exact M0).
          assert (L1 : length b1 = Datatypes.S (length b2)) by (rewrite Eb; reflexivity).
          unfold b1 in L1. rewrite skipn_length in L1.
          destruct res as [m|].
          -- destruct IH as [C [D [E G]]]. rewrite Skip, Tl, C. simpl. rewrite !shift_shift.
             repeat split; auto; try lia. f_equal. f_equal. lia.
          -- destruct IH as [C E]. split; auto. rewrite Skip, Tl, C. reflexivity.
    - (* the suffix does not occur where a match would need it *)
      inversion H; subst. split; auto. unfold plain.
      destruct (search F (r_prog r) (r_ncap r) buffer) as [c|] eqn:E; auto. exfalso.
      destruct (search_sound _ _ _ _ _ E) as [j [e [X [Y Z]]]].
      destruct (acc_suffix_at buffer j e X Y Z) as [Ee [Ls Q]].
      rewrite IS in Q; [discriminate|]. rewrite skipn_length. lia.
  Qed.
End Window.

(* the suffix cut on its own *)
Lemma suffix_cut : forall F r buffer, assertion_free (r_prog r) = true -> facts_sound r -> f_suffix (r_facts r) <> [] ->
  match last_index_of (f_suffix (r_facts r)) buffer with
  | Some q => plain F r (firstn (q + length (f_suffix (r_facts r))) buffer) = plain F r buffer
  | None => plain F r buffer = None
  end.
Proof.
  intros F r buffer Haf [_ [Hsuf _]] Hne.
  pose proof (last_index_of_spec (f_suffix (r_facts r)) buffer) as LS.
  destruct (last_index_of (f_suffix (r_facts r)) buffer) as [q|].
  - destruct LS as [A [B C]]. unfold plain. apply search_truncate; auto.
    + pose proof (is_prefix_length _ _ B) as Q. rewrite skipn_length in Q. lia.
    + intros i e X Y Z. destruct (slice_suffix _ _ _ _ X Y (Hsuf _ Z)) as [W1 W2].
      assert (Hel : e - length (f_suffix (r_facts r)) <= length buffer) by lia.
      specialize (C _ Hel W2). lia.
  - unfold plain. destruct (search F (r_prog r) (r_ncap r) buffer) as [c|] eqn:E; auto. exfalso.
    destruct (search_sound _ _ _ _ _ E) as [j [e [X [Y Z]]]].
    destruct (slice_suffix _ _ _ _ X Y (Hsuf _ Z)) as [W1 W2]. rewrite LS in W2 by lia. discriminate.
Qed.

(* Theorem A, complete: every branch of find *)
Theorem find_shortcut_plain : forall F guard r data off res off',
  assertion_free (r_prog r) = true -> facts_sound r -> 2 <= r_ncap r -> off <= length data ->
  (* the window loop computes with the common value of min and max as a length: it must not be the code's "infinite" *)
  (f_min (r_facts r) = f_max (r_facts r) -> (f_max (r_facts r) < MAXU)%N) ->
  find F guard r data off = (res, off') -> find_agrees F r data off res off'.
Proof.
  intros F guard r data off res off' Haf Hfs Hnc Hoff Hfin H.
  destruct (N.eqb (f_min (r_facts r)) (f_max (r_facts r)) && match f_prefix (r_facts r) with [] => true | _ => false end
            && match f_suffix (r_facts r) with [] => false | _ => true end) eqn:W.
  2:{ eapply find_shortcut_plain_partial; eauto. }
  apply andb_true_iff in W. destruct W as [W W3]. apply andb_true_iff in W. destruct W as [W1 W2].
  apply N.eqb_eq in W1.
  destruct (f_prefix (r_facts r)) as [|p0 ps] eqn:EP; [|discriminate].
  assert (Hsne : f_suffix (r_facts r) <> []) by (destruct (f_suffix (r_facts r)); [discriminate | discriminate]).
  unfold find in H. unfold context_sensitive in H. rewrite Haf in H. simpl negb in H. rewrite andb_false_r in H.
  rewrite EP in H.
  set (buffer := skipn off data) in *.
  assert (Lb : length buffer = length data - off) by (unfold buffer; apply skipn_length).
  destruct (too_short buffer (f_min (r_facts r))) eqn:TS.
  { inversion H; subst res off'. unfold find_agrees. fold buffer. repeat split; auto; apply plain_too_short; auto. }
  pose proof (suffix_cut F r buffer Haf Hfs Hsne) as SC.
  destruct (f_suffix (r_facts r)) as [|s0 ss] eqn:ES; [congruence|].
  destruct (last_index_of (s0 :: ss) buffer) as [q|] eqn:LI.
  2:{ inversion H; subst res off'. unfold find_agrees. fold buffer. repeat split; auto; try lia.
      eapply plain_none_later with (a := off); eauto. }
  set (buffer2 := firstn (q + length (s0 :: ss)) buffer) in *.
  destruct (too_short buffer2 (f_min (r_facts r))) eqn:TS2.
  { inversion H; subst res off'. unfold find_agrees. fold buffer.
    assert (N2 : plain F r buffer = None) by (rewrite <- SC; apply plain_too_short; auto).
    repeat split; auto. }
  rewrite W1, N.eqb_refl in H. simpl in H.
  assert (L2 : length buffer2 <= length buffer) by (unfold buffer2; rewrite firstn_length; lia).
  assert (Hsne' : f_suffix (r_facts r) <> []) by (rewrite ES; discriminate).
  pose proof (window_spec F r Haf Hfs Hnc W1 (Hfin W1) Hsne' (Datatypes.S (length buffer2)) (length data) buffer2 off res off'
                (Nat.lt_succ_diag_r _) H) as WS.
  destruct res as [m|].
  - destruct WS as [A [B [C D]]]. unfold find_agrees. fold buffer. repeat split; auto; try lia.
    rewrite <- SC. exact A.
  - destruct WS as [A B]. subst off'. unfold find_agrees. fold buffer. repeat split; auto; try lia.
    + rewrite <- SC. exact A.
    + eapply plain_none_later with (a := off); eauto. fold buffer. rewrite <- SC. exact A.
Qed.
