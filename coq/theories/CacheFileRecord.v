(* Proofs about one record of the cache file (C15): self-delimitation and round trip. *)
From Coq Require Import NArith ZArith List Bool Lia ZifyBool ZifyN ZifyNat.
Require Import Pk.CacheFile Pk.CacheFileProofs.
Import ListNotations.
Open Scope N_scope.

(* ------------------------------------------------------------------ *)
(* lists                                                                *)
(* ------------------------------------------------------------------ *)
Lemma len_app : forall a b, len (a ++ b) = len a + len b.
Proof. intros. unfold len. rewrite app_length. lia. Qed.

Lemma len_nil : len [] = 0. Proof. reflexivity. Qed.
Lemma len_cons : forall x l, len (x :: l) = 1 + len l.
Proof. intros. unfold len. cbn [length]. lia. Qed.

Lemma take_app : forall a r, take (len a) (a ++ r) = Some (a, r).
Proof.
  intros. unfold take. rewrite len_app.
  assert ((len a <=? len a + len r) = true) as -> by (apply N.leb_le; lia).
  unfold len. rewrite Nat2N.id. rewrite firstn_app, skipn_app.
  rewrite Nat.sub_diag. cbn [firstn skipn]. rewrite firstn_all, skipn_all. rewrite app_nil_r. reflexivity.
Qed.

Lemma firstN_app : forall a r, firstN (len a) (a ++ r) = a.
Proof.
  intros. unfold firstN. rewrite len_app.
  assert ((len a <=? len a + len r) = true) as -> by (apply N.leb_le; lia).
  unfold len. rewrite Nat2N.id, firstn_app, Nat.sub_diag, firstn_all. cbn. apply app_nil_r.
Qed.

Lemma skipN_app : forall a r, skipN (len a) (a ++ r) = r.
Proof.
  intros. unfold skipN. rewrite len_app.
  assert ((len a <=? len a + len r) = true) as -> by (apply N.leb_le; lia).
  unfold len. rewrite Nat2N.id, skipn_app, Nat.sub_diag, skipn_all. reflexivity.
Qed.

(* ------------------------------------------------------------------ *)
(* varint: shape of the output                                          *)
(* ------------------------------------------------------------------ *)
Lemma varint_hi_suffix : forall fuel n tl, exists pre, varint_hi fuel n tl = pre ++ tl.
Proof.
  induction fuel as [|f IH]; intros; cbn [varint_hi].
  - exists []. reflexivity.
  - destruct (n =? 0). { exists []. reflexivity. }
    destruct (IH (n / 128) ((128 + n mod 128) :: tl)) as [pre E]. rewrite E.
    exists (pre ++ [128 + n mod 128]). rewrite <- app_assoc. reflexivity.
Qed.

Lemma write_varint_length : forall n, (1 <= length (write_varint n))%nat.
Proof.
  intros. unfold write_varint. destruct (varint_hi_suffix 9 (n / 128) [n mod 128]) as [pre E].
  rewrite E, app_length. cbn. lia.
Qed.

Lemma read_varint_zero : forall r, read_varint (0 :: r) = Some (0, r).
Proof. reflexivity. Qed.

Lemma string_roundtrip : forall s r, len s < W64 -> read_string (write_string s ++ r) = Some (s, r).
Proof.
  intros. unfold read_string, write_string. rewrite <- app_assoc.
  rewrite varint_roundtrip by assumption. apply take_app.
Qed.

(* ------------------------------------------------------------------ *)
(* well-formed chunks, the normal form a record denotes                 *)
(* ------------------------------------------------------------------ *)
Definition chunk_ok (c : chunk) : Prop :=
  c_data c <> [] /\ len (c_data c) < W64 /\ len (c_ct c) < W64.

(* time stamps: every step of the stream fits an int64 number of nanoseconds
   (Time.Sub does not saturate) *)
Fixpoint times_ok (last : Z) (cs : list chunk) : Prop :=
  match cs with
  | [] => True
  | c :: r => (- Z63 < c_time c - last < Z63)%Z /\ times_ok (c_time c) r
  end.

(* what the reader reconstructs: it adds up the truncated deltas *)
Fixpoint norm_chunks (dl el : Z) (cs : list chunk) : list chunk :=
  match cs with
  | [] => []
  | c :: r => let t := (dl + 1000 * Z.quot (c_time c - el) 1000)%Z in
              mkChunk (c_dir c) (c_data c) t (c_ct c) :: norm_chunks t (c_time c) r
  end.
Definition trunc_us (t0 : Z) (cs : list chunk) : list chunk := norm_chunks t0 t0 cs.

Definition strip_ct (c : chunk) : chunk := mkChunk (c_dir c) (c_data c) (c_time c) [].

(* ------------------------------------------------------------------ *)
(* chunk sizes                                                          *)
(* ------------------------------------------------------------------ *)
Fixpoint entries (want : bool) (cs : list chunk) : list (bool * N) :=
  match cs with
  | [] => []
  | c :: r => (if Bool.eqb (c_dir c) want then [(want, len (c_data c))]
               else [(want, 0); (negb want, len (c_data c))]) ++ entries (negb (c_dir c)) r
  end.
Fixpoint end_dir (want : bool) (cs : list chunk) : bool :=
  match cs with [] => want | c :: r => end_dir (negb (c_dir c)) r end.

Lemma len_nonzero : forall l : list N, l <> [] -> (len l =? 0) = false.
Proof. intros l H. destruct l; [congruence|]. rewrite len_cons. apply N.eqb_neq. lia. Qed.

Lemma dec_sizes_enc : forall cs want fuel rest,
  Forall chunk_ok cs ->
  (length (enc_sizes want cs ++ rest) <= length fuel)%nat ->
  dec_sizes fuel (enc_sizes want cs ++ rest) false want
  = Some (entries want cs ++ [(end_dir want cs, 0)], rest).
Proof.
  induction cs as [|c cs IH]; intros want fuel rest Hok Hf.
  - cbn [enc_sizes app] in *. destruct fuel as [|x [|y f]]; cbn [length] in Hf; try lia.
    cbn [dec_sizes]. rewrite read_varint_zero. cbn [N.eqb andb]. rewrite read_varint_zero. cbn [N.eqb andb]. reflexivity.
  - inversion Hok as [|? ? [Hne [Hlen _]] Hok']; subst.
    cbn [enc_sizes entries end_dir]. cbn [enc_sizes] in Hf. pose proof (write_varint_length (len (c_data c))) as Hwl.
    destruct (Bool.eqb (c_dir c) want) eqn:Ed.
    + cbn [app] in *. rewrite <- app_assoc in *. destruct fuel as [|x f]; [rewrite app_length in Hf; cbn [length] in Hf; lia|].
      cbn [dec_sizes]. rewrite varint_roundtrip by assumption.
      rewrite (len_nonzero _ Hne). cbn [andb].
      apply eqb_prop in Ed. subst want.
      rewrite IH; [reflexivity|assumption|]. rewrite !app_length in *. cbn [length] in Hf. lia.
    + rewrite <- !app_assoc in *. cbn [app] in *.
      destruct fuel as [|x [|y f]]; try (cbn [length] in Hf; rewrite !app_length in Hf; cbn [length] in Hf; lia).
      cbn [dec_sizes]. rewrite read_varint_zero. cbn [N.eqb andb].
      rewrite varint_roundtrip by assumption. rewrite (len_nonzero _ Hne). cbn [andb].
      assert (want = negb (c_dir c)) as -> by (destruct (c_dir c), want; cbn in Ed |- *; congruence).
      rewrite Bool.negb_involutive.
      rewrite IH; [reflexivity|assumption|]. cbn [length] in Hf. rewrite !app_length in *. cbn [length] in Hf. lia.
Qed.

Lemma sum_dir_entries : forall cs want d, sum_dir d (entries want cs) = len (enc_data d cs).
Proof.
  induction cs as [|c cs IH]; intros; cbn [entries enc_data]; [reflexivity|].
  rewrite len_app, <- (IH (negb (c_dir c)) d).
  destruct (c_dir c), want, d; cbn [Bool.eqb app sum_dir negb]; rewrite ?len_nil; lia.
Qed.

(* ------------------------------------------------------------------ *)
(* times                                                                *)
(* ------------------------------------------------------------------ *)
Lemma time_delta_roundtrip : forall d, (- Z63 < d < Z63)%Z ->
  wrap64 (i64_of_N (u64_of_Z (Z.quot d 1000)) * 1000) = (1000 * Z.quot d 1000)%Z
  /\ u64_of_Z (Z.quot d 1000) < W64.
Proof.
  intros d Hd. unfold wrap64, i64_of_N, u64_of_Z, Z64, Z63, W64 in *.
  pose proof (Z.quot_rem d 1000 ltac:(lia)) as Hq.
  assert (Hr : (Z.abs (Z.rem d 1000) < 1000)%Z) by (apply Z.rem_bound_abs; lia).
  assert (Hs : (0 <= d -> 0 <= Z.rem d 1000)%Z) by (intros; apply Z.rem_nonneg; lia).
  assert (Hs' : (d <= 0 -> Z.rem d 1000 <= 0)%Z) by (intros; apply Z.rem_nonpos; lia).
  set (q := Z.quot d 1000) in *. set (r := Z.rem d 1000) in *.
  assert (Hqb : (-9223372036854775 <= q <= 9223372036854775)%Z) by lia.
  pose proof (Z.mod_pos_bound q 18446744073709551616 ltac:(lia)) as Hm.
  split.
  - rewrite Z2N.id by lia.
    destruct (Z_lt_dec q 0) as [Hneg|Hpos].
    + assert (E : (q mod 18446744073709551616 = q + 18446744073709551616)%Z).
      { symmetry. apply (Z.mod_unique_pos _ _ (-1)); lia. }
      rewrite E. assert ((q + 18446744073709551616 <? 9223372036854775808)%Z = false) as -> by (apply Z.ltb_ge; lia).
      replace (q + 18446744073709551616 - 18446744073709551616)%Z with q by lia.
      rewrite Z.mod_small by lia. lia.
    + rewrite (Z.mod_small q) by lia.
      assert ((q <? 9223372036854775808)%Z = true) as -> by (apply Z.ltb_lt; lia).
      rewrite Z.mod_small by lia. lia.
  - apply N2Z.inj_lt. rewrite Z2N.id by lia. cbn. lia.
Qed.

Lemma dec_chunks_zero : forall d ss cd sd last l,
  dec_chunks ((d, 0) :: ss) cd sd last l = dec_chunks ss cd sd last l.
Proof. reflexivity. Qed.

Lemma dec_chunks_enc : forall cs want dl el rest,
  Forall chunk_ok cs -> times_ok el cs ->
  dec_chunks (entries want cs) (enc_data false cs) (enc_data true cs) dl (enc_times el cs ++ rest)
  = Some (map strip_ct (norm_chunks dl el cs), rest).
Proof.
  induction cs as [|c cs IH]; intros want dl el rest Hok Ht.
  - reflexivity.
  - inversion Hok as [|? ? [Hne [Hlen _]] Hok']; subst. destruct Ht as [Hd Ht].
    destruct (time_delta_roundtrip _ Hd) as [Hw Hu].
    cbn [entries enc_data enc_times norm_chunks map].
    assert (Hmain :
      dec_chunks ((c_dir c, len (c_data c)) :: entries (negb (c_dir c)) cs)
        ((if Bool.eqb (c_dir c) false then c_data c else []) ++ enc_data false cs)
        ((if Bool.eqb (c_dir c) true then c_data c else []) ++ enc_data true cs) dl
        ((write_varint (u64_of_Z (Z.quot (c_time c - el) 1000)) ++ enc_times (el + (c_time c - el)) cs) ++ rest)
      = Some (strip_ct (mkChunk (c_dir c) (c_data c) (dl + 1000 * Z.quot (c_time c - el) 1000) (c_ct c))
              :: map strip_ct (norm_chunks (dl + 1000 * Z.quot (c_time c - el) 1000) (c_time c) cs), rest)).
    { cbn [dec_chunks]. rewrite (len_nonzero _ Hne). rewrite <- app_assoc.
      rewrite varint_roundtrip by assumption. rewrite Hw.
      replace (el + (c_time c - el))%Z with (c_time c) by lia.
      destruct (c_dir c); cbn [Bool.eqb app].
      - rewrite firstN_app, skipN_app. rewrite IH by assumption. reflexivity.
      - rewrite firstN_app, skipN_app. rewrite IH by assumption. reflexivity. }
    destruct (Bool.eqb (c_dir c) want) eqn:Ed.
    + apply eqb_prop in Ed. subst want. cbn [app]. exact Hmain.
    + assert (negb want = c_dir c) as -> by (destruct (c_dir c), want; cbn in Ed |- *; congruence).
      cbn [app]. rewrite dec_chunks_zero. exact Hmain.
Qed.
